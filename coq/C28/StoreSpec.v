(* C28 — the key store: SPECIFICATION machine ("the book").  NO PROOFS HERE.

   The book of a store lists, for every stored key, the key itself, its alias, its CURRENT
   password and the salt / iv its file was last written with.  Operations are pure bookkeeping:
   a password is accepted for an entry iff it derives the same scrypt key as the entry's current
   password under the entry's salt ([pw_ok]; equal passwords always do, and so do passwords that
   differ in trailing NUL bytes only); creating adds an entry with the given password, a reset
   accepted with the old password sets the new one, an alias update changes the alias, delete
   removes the entry, restore copies the entries of the image that are neither present (by xpub)
   nor blocked by a taken alias.  No ciphertext, MAC or key stream occurs here.
   [realize] says which key file the implementation must hold for a book entry;
   C28/StoreProofs.v proves that the model of the implementation (C28/Store.v) started from empty
   stores always holds exactly the realisation of the book, and returns the book's answers. *)
From Coq Require Import List NArith Bool Arith.
From Verif Require Import Outcome Cmp.
From C28 Require Import Model Store.
Import ListNotations.
Open Scope N_scope.

Record gentry := { g_key : xprv; g_alias : bytes; g_pw : bytes; g_salt : bytes; g_iv : bytes }.
Definition gstore := list gentry.
Definition gsys := list (N * gstore).

Section SPEC.
  Variable G : Type.
  Variable smul : N -> G.
  Variable encode : G -> bytes.
  Variable kdf : bytes -> bytes -> bytes.
  Variable ctr : bytes -> bytes -> nat -> bytes.
  Variable mac_hash : bytes -> bytes.

  Definition g_xpub (g : gentry) : bytes := xpub_bytes G smul encode (g_key g).

  (* the key file and cache entry of a book entry *)
  Definition realize (g : gentry) : sentry :=
    {| se_xpub := g_xpub g; se_alias := g_alias g;
       se_kf := encrypt_key kdf ctr mac_hash (g_key g) (g_alias g) (g_pw g) (g_salt g) (g_iv g) |}.
  Definition realize_sys (gs : gsys) : rsys := map (fun p => (fst p, map realize (snd p))) gs.

  Definition pw_ok (g : gentry) (pw : bytes) : bool :=
    bytes_eqb (kdf pw (g_salt g)) (kdf (g_pw g) (g_salt g)).

  Definition g_is (xp : bytes) (g : gentry) : bool := bytes_eqb (g_xpub g) xp.
  Definition g_find (gst : gstore) (xp : bytes) : found gentry := pick (filter (g_is xp) gst).
  Definition g_has_alias (gst : gstore) (a : bytes) : bool := existsb (fun g => bytes_eqb (g_alias g) a) gst.
  Definition g_has_key (gst : gstore) (xp : bytes) : bool := existsb (g_is xp) gst.
  Definition g_put (gst : gstore) (xp : bytes) (g : gentry) : gstore :=
    map (fun g' => if g_is xp g' then g else g') gst.
  Definition g_drop (gst : gstore) (xp : bytes) : gstore := filter (fun g' => negb (g_is xp g')) gst.

  Definition g_load_dec (gst : gstore) (xp pw : bytes) : sres gentry :=
    match g_find gst xp with
    | FOne g => if pw_ok g pw then SOk g else SErr SEDecrypt
    | FNone => SErr SELoad
    | FMany => SErr SEAmbiguous
    end.
  Definition g_load (gst : gstore) (xp pw : bytes) : sres xprv :=
    match g_load_dec gst xp pw with SOk g => SOk (g_key g) | SErr _ => SErr SELoad end.

  Definition g_create (gst : gstore) (k : xprv) (alias pw salt iv : bytes) : sres gstore :=
    if g_has_alias gst alias then SErr SEDupAlias
    else SOk (gst ++ [{| g_key := k; g_alias := alias; g_pw := pw; g_salt := salt; g_iv := iv |}]).
  Definition g_reset (gst : gstore) (xp old new salt iv : bytes) : sres gstore :=
    match g_load_dec gst xp old with
    | SOk g => SOk (g_put gst xp {| g_key := g_key g; g_alias := g_alias g; g_pw := new; g_salt := salt; g_iv := iv |})
    | SErr e => SErr e
    end.
  Definition g_realias (gst : gstore) (xp na : bytes) : sres gstore :=
    match g_find gst xp with
    | FOne g =>
        if g_has_alias gst na then SErr SEDupAlias
        else SOk (g_put gst xp {| g_key := g_key g; g_alias := na; g_pw := g_pw g; g_salt := g_salt g; g_iv := g_iv g |})
    | FNone => SErr SELoad
    | FMany => SErr SEAmbiguous
    end.
  Definition g_delete (gst : gstore) (xp pw : bytes) : sres gstore :=
    match g_load_dec gst xp pw with
    | SOk _ => SOk (g_drop gst xp)
    | SErr e => SErr e
    end.
  Fixpoint g_restore (gst : gstore) (img : gstore) : gstore * bool :=
    match img with
    | [] => (gst, true)
    | g :: r =>
        if g_has_key gst (g_xpub g) then g_restore gst r
        else if g_has_alias gst (g_alias g) then (gst, false)
        else g_restore (gst ++ [g]) r
    end.

  (* observations: answers of the book; for a write, the files the implementation must now hold *)
  Definition g_obs (gst : gstore) : bytes := obs_store (map realize gst).
  Definition g_upd (gs : gsys) (sid : N) (r : sres gstore) : gsys * bytes :=
    match r with
    | SOk gst' => (setst gs sid gst', g_obs gst')
    | SErr e => (gs, ecode e)
    end.

  Definition gstep (gs : gsys) (o : sop) : gsys * bytes :=
    match o with
    | SCreate sid raw alias pw salt iv => g_upd gs sid (g_create (getst gs sid) (key_of raw) alias pw salt iv)
    | SLoad sid xp pw =>
        (gs, match g_load (getst gs sid) xp pw with
             | SOk k => 1 :: fst k ++ snd k
             | SErr e => ecode e
             end)
    | SReset sid xp old new salt iv => g_upd gs sid (g_reset (getst gs sid) xp old new salt iv)
    | SAlias sid xp na => g_upd gs sid (g_realias (getst gs sid) xp na)
    | SDelete sid xp pw => g_upd gs sid (g_delete (getst gs sid) xp pw)
    | SBackup sid => (gs, g_obs (getst gs sid))
    | SRestore src dst =>
        let (gst', ok) := g_restore (getst gs dst) (getst gs src) in
        (setst gs dst gst', (if ok then 1 else 3) :: g_obs gst')
    end.

  Fixpoint grun (gs : gsys) (ops : list sop) : gsys * list bytes :=
    match ops with
    | [] => (gs, [])
    | o :: r => let (g1, b) := gstep gs o in let (g2, bs) := grun g1 r in (g2, b :: bs)
    end.

  (* the guard of the store theorems: no key is created / imported into a store that already
     holds it (ImportKeyFromMnemonic does not check; see c28_refuted_duplicate_import) *)
  Definition fresh_create (gs : gsys) (o : sop) : bool :=
    match o with
    | SCreate sid raw _ _ _ _ => negb (g_has_key (getst gs sid) (xpub_bytes G smul encode (key_of raw)))
    | _ => true
    end.
  Fixpoint no_dup_import (gs : gsys) (ops : list sop) : bool :=
    match ops with
    | [] => true
    | o :: r => fresh_create gs o && no_dup_import (fst (gstep gs o)) r
    end.
End SPEC.
