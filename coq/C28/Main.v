(* C28 — the property theorems in closed form (hypotheses bundled as predicates), and an
   instance showing that the hypotheses are satisfiable by a non-trivial group. *)
From Coq Require Import List NArith Bool Arith Lia ZArith Eqdep_dec.
From Coq Require Import ZifyBool ZifyN ZifyNat.
From Verif Require Import Outcome Cmp.
From C28 Require Import Model Bytes Proofs.
Import ListNotations.
Open Scope N_scope.

(* ---- the idealisations, as predicates on the primitives ---------------------------- *)

(* HMAC-SHA512 returns 64 bytes *)
Definition hmac_ideal (hmac512 : bytes -> bytes -> bytes) : Prop :=
  (forall k m, length (hmac512 k m) = 64%nat) /\ (forall k m, bytes_ok (hmac512 k m)).

(* what derivation needs of the curve: n |-> n*B is additive, Decode inverts Encode *)
Definition derive_ideal (G : Type) (gadd : G -> G -> G) (smul : N -> G)
           (encode : G -> bytes) (decode : bytes -> option G) : Prop :=
  (forall a b, smul (a + b) = gadd (smul a) (smul b)) /\
  (forall P, decode (encode P) = Some P).

(* what signing needs in addition: an abelian group, L*B = 0, k*(a*B) = (k*a)*B,
   k*(-P) = -(k*P), 32-byte encodings *)
Definition group_ideal (G : Type) (gadd : G -> G -> G) (gneg : G -> G) (gzero : G)
           (smul : N -> G) (gmul : N -> G -> G) (encode : G -> bytes) : Prop :=
  (forall a b, gadd a b = gadd b a) /\
  (forall a b c, gadd a (gadd b c) = gadd (gadd a b) c) /\
  (forall a, gadd gzero a = a) /\
  (forall a, gadd a (gneg a) = gzero) /\
  smul L = gzero /\
  (forall k a, gmul k (smul a) = smul (k * a)) /\
  (forall k P, gmul k (gneg P) = gneg (gmul k P)) /\
  (forall P, length (encode P) = 32%nat).

(* B has order exactly L *)
Definition order_ideal (G : Type) (smul : N -> G) : Prop :=
  forall a b, smul a = smul b -> a mod L = b mod L.

Section Closed.
  Variable G : Type.
  Variables (gadd : G -> G -> G) (gneg : G -> G) (gzero : G).
  Variable smul : N -> G.
  Variable gmul : N -> G -> G.
  Variable encode : G -> bytes.
  Variable decode : bytes -> option G.
  Variable hmac512 : bytes -> bytes -> bytes.
  Variable sha512 : bytes -> bytes.

  Lemma scalar_ranges : hmac_ideal hmac512 ->
    (forall seed, wf_key (root_xprv hmac512 seed) /\
                  2 ^ 254 <= le2n (fst (root_xprv hmac512 seed)) < 2 ^ 254 + 2 ^ 253) /\
    (forall x sel, le2n (tweak G smul encode hmac512 x sel) < 2 ^ 233).
  Proof.
    intros (H1 & H2). split.
    - intros seed. apply root_wf; assumption.
    - intros x sel. apply (tweak_spec G smul encode hmac512 H1 H2 x sel).
  Qed.

  Lemma commute_closed : derive_ideal G gadd smul encode decode -> hmac_ideal hmac512 ->
    forall x sel, wf_key x ->
    match child_prv G smul encode hmac512 x sel with
    | Ok x' => child_pub G gadd smul encode decode hmac512 (xpub_of G smul encode x) sel
               = Ok (xpub_of G smul encode x') /\ wf_key x'
    | Panic _ => 2 ^ 256 - 2 ^ 233 < le2n (fst x)
    | Err _ => False
    end.
  Proof.
    intros (D1 & D2) (H1 & H2) x sel W.
    exact (commute G gadd gneg gzero smul gmul encode decode hmac512 sha512 D1 D2 H1 H2 x sel W).
  Qed.

  Lemma derive_path_closed : derive_ideal G gadd smul encode decode -> hmac_ideal hmac512 ->
    forall path x, wf_key x ->
    le2n (fst x) + N.of_nat (length path) * 2 ^ 233 <= 2 ^ 256 ->
    exists x', derive_prv G smul encode hmac512 x path = Ok x' /\
               derive_pub G gadd smul encode decode hmac512 (xpub_of G smul encode x) path
               = Ok (xpub_of G smul encode x') /\
               wf_key x' /\
               le2n (fst x) <= le2n (fst x') <= le2n (fst x) + N.of_nat (length path) * (2 ^ 233 - 1).
  Proof.
    intros (D1 & D2) (H1 & H2).
    exact (derive_path G gadd gneg gzero smul gmul encode decode hmac512 sha512 D1 D2 H1 H2).
  Qed.

  Lemma derive_root_closed : derive_ideal G gadd smul encode decode -> hmac_ideal hmac512 ->
    forall seed path, N.of_nat (length path) <= 5 * 2 ^ 20 ->
    exists x', derive_prv G smul encode hmac512 (root_xprv hmac512 seed) path = Ok x' /\
               derive_pub G gadd smul encode decode hmac512
                          (xpub_of G smul encode (root_xprv hmac512 seed)) path
               = Ok (xpub_of G smul encode x') /\
               (N.of_nat (length path) <= 2 ^ 20 -> le2n (fst x') < 2 ^ 255).
  Proof.
    intros (D1 & D2) (H1 & H2).
    exact (derive_root G gadd gneg gzero smul gmul encode decode hmac512 sha512 D1 D2 H1 H2).
  Qed.

  Lemma sign_verify_closed : derive_ideal G gadd smul encode decode ->
    group_ideal G gadd gneg gzero smul gmul encode ->
    forall x msg,
      xverify G gadd gneg smul gmul encode decode sha512 (xpub_of G smul encode x) msg
              (sign G smul encode hmac512 sha512 x msg) = true.
  Proof.
    intros (D1 & D2) (A1 & A2 & A3 & A4 & A5 & A6 & A7 & A8) x msg. unfold xverify.
    exact (sign_verify G gadd gneg gzero smul gmul encode decode hmac512 sha512
                       D1 D2 A1 A2 A3 A4 A5 A6 A7 A8 x msg).
  Qed.

  (* the signature made by scalar a on msg, checked under the key a'*B and message msg' *)
  Lemma verify_other_closed : derive_ideal G gadd smul encode decode ->
    group_ideal G gadd gneg gzero smul gmul encode -> order_ideal G smul ->
    forall sk prefix msg a' msg',
    let sig := inner_sign G smul encode sha512 sk prefix msg in
    let R := firstn 32 sig in
    let pk := encode (smul (le2n sk)) in
    let pk' := encode (smul a') in
    verify G gadd gneg smul gmul encode decode sha512 pk' msg' sig = true ->
    (hram sha512 R pk msg * le2n sk) mod L = (hram sha512 R pk' msg' * a') mod L.
  Proof.
    intros (D1 & D2) (A1 & A2 & A3 & A4 & A5 & A6 & A7 & A8) O.
    exact (verify_other G gadd gneg gzero smul gmul encode decode hmac512 sha512
                        D1 D2 A1 A2 A3 A4 A6 A7 A8 O).
  Qed.
End Closed.

(* the full exclusivity statement of the property ("fails under any other key or message"):
   it is the unforgeability of Ed25519 and is NOT proved (it cannot hold for arbitrary
   functions sha512: it is a computational assumption).  What is proved instead is
   verify_other_closed: such a verification succeeds exactly on a coincidence of hash values. *)
Definition sign_exclusive_full : Prop :=
  forall (G : Type) gadd gneg gzero smul gmul encode decode hmac512 sha512,
    derive_ideal G gadd smul encode decode ->
    group_ideal G gadd gneg gzero smul gmul encode -> order_ideal G smul ->
    forall x msg pk' msg',
      (pk', msg') <> (fst (xpub_of G smul encode x), msg) ->
      verify G gadd gneg smul gmul encode decode sha512 pk' msg'
             (sign G smul encode hmac512 sha512 x msg) = false.

(* ---- key store ---------------------------------------------------------------------- *)

Lemma keystore_closed (kdf : bytes -> bytes -> bytes) (ctr : bytes -> bytes -> nat -> bytes)
      (mac_hash : bytes -> bytes) :
  (forall k iv n, length (ctr k iv n) = n) ->
  forall k alias pw salt iv, wf64 k ->
    let f := encrypt_key kdf ctr mac_hash k alias pw salt iv in
    (* the correct password returns the stored key *)
    decrypt_key kdf ctr mac_hash f pw = Ok k /\
    load_key kdf ctr mac_hash f alias pw = Ok k /\
    (* any password that opens the file derives the same MAC key, or the MAC hash collides;
       a password deriving the same scrypt key returns the stored key *)
    (forall pw', (exists k', decrypt_key kdf ctr mac_hash f pw' = Ok k' \/
                             load_key kdf ctr mac_hash f alias pw' = Ok k') ->
                 firstn 16 (skipn 16 (kdf pw' salt)) = firstn 16 (skipn 16 (kdf pw salt)) \/
                 Collision mac_hash) /\
    (forall pw', kdf pw' salt = kdf pw salt -> decrypt_key kdf ctr mac_hash f pw' = Ok k).
Proof.
  intros Hc k alias pw salt iv W f. split; [|split; [|split]].
  - apply decrypt_encrypt; assumption.
  - apply load_stored; assumption.
  - intros pw' (k' & [H|H]).
    + eapply wrong_password. exact H.
    + eapply load_wrong. exists k'. exact H.
  - intros pw' E. apply same_kdf; assumption.
Qed.

(* ---- the hypotheses are satisfiable: the additive group Z_L with base point 1 --------- *)

Definition ZL : Type := { n : N | (n <? L) = true }.

Lemma ZL_eq (a b : ZL) : proj1_sig a = proj1_sig b -> a = b.
Proof.
  destruct a as [a Ha], b as [b Hb]. cbn. intros ->. f_equal.
  apply (UIP_dec bool_dec).
Qed.

Lemma modL_lt n : (n mod L <? L) = true.
Proof. apply N.ltb_lt. apply N.mod_lt. apply L_pos. Qed.

Definition zmk (n : N) : ZL := exist _ (n mod L) (modL_lt n).
Definition zval (a : ZL) : N := proj1_sig a.
Definition zadd (a b : ZL) : ZL := zmk (zval a + zval b).
Definition zneg (a : ZL) : ZL := zmk ((L - 1) * zval a).
Definition zzero : ZL := zmk 0.
Definition zsmul (n : N) : ZL := zmk n.
Definition zgmul (k : N) (a : ZL) : ZL := zmk (k * zval a).
Definition zencode (a : ZL) : bytes := n2le 32 (zval a).
Definition zdecode (b : bytes) : option ZL := Some (zmk (le2n b)).
Definition xhmac (k m : bytes) : bytes := n2le 64 (le2n (k ++ 7 :: m) * 1000003 + 12345).

Lemma zval_lt a : zval a < L.
Proof. destruct a as [a Ha]. cbn. apply N.ltb_lt. exact Ha. Qed.
Lemma zval_mk n : zval (zmk n) = n mod L.
Proof. reflexivity. Qed.
Lemma zmk_val a : zmk (zval a) = a.
Proof. apply ZL_eq. cbn. apply N.mod_small. apply zval_lt. Qed.
Lemma zmk_mod_eq a b : a mod L = b mod L -> zmk a = zmk b.
Proof. intros H. apply ZL_eq. exact H. Qed.

Example ex_hmac_ideal : hmac_ideal xhmac.
Proof. split; intros k m; unfold xhmac; [apply n2le_length|apply n2le_ok]. Qed.

Example ex_derive_ideal : derive_ideal ZL zadd zsmul zencode zdecode.
Proof.
  split.
  - intros a b. unfold zsmul, zadd. apply zmk_mod_eq. rewrite !zval_mk.
    apply N.add_mod. apply L_pos.
  - intros P. unfold zdecode, zencode. f_equal.
    rewrite le2n_n2le_small.
    + apply zmk_val.
    + pose proof (zval_lt P). pose proof L_lt. rewrite p256_32. unfold two256. lia.
Qed.

Example ex_group_ideal : group_ideal ZL zadd zneg zzero zsmul zgmul zencode.
Proof.
  pose proof L_pos as Lp.
  unfold group_ideal. split; [|split; [|split; [|split; [|split; [|split; [|split]]]]]].
  - intros a b. unfold zadd. rewrite N.add_comm. reflexivity.
  - intros a b c. unfold zadd. apply zmk_mod_eq. rewrite !zval_mk.
    rewrite N.add_mod_idemp_r, N.add_mod_idemp_l by exact Lp. rewrite N.add_assoc. reflexivity.
  - intros a. unfold zadd, zzero. rewrite zval_mk. rewrite N.mod_0_l by exact Lp.
    rewrite N.add_0_l. apply zmk_val.
  - intros a. unfold zadd, zneg, zzero. apply zmk_mod_eq. rewrite zval_mk.
    rewrite N.add_mod_idemp_r by exact Lp.
    replace (zval a + (L - 1) * zval a) with (zval a * L).
    + rewrite N.mod_mul by exact Lp. rewrite N.mod_0_l by exact Lp. reflexivity.
    + assert (1 <= L) by (unfold L; lia). nia.
  - unfold zsmul, zzero. apply zmk_mod_eq. rewrite N.mod_same, N.mod_0_l by exact Lp. reflexivity.
  - intros k a. unfold zgmul, zsmul. apply zmk_mod_eq. rewrite zval_mk.
    rewrite N.mul_mod_idemp_r by exact Lp. reflexivity.
  - intros k P. unfold zgmul, zneg. apply zmk_mod_eq. rewrite !zval_mk.
    rewrite !N.mul_mod_idemp_r by exact Lp. f_equal. lia.
  - intros P. unfold zencode. apply n2le_length.
Qed.

Example ex_order_ideal : order_ideal ZL zsmul.
Proof. intros a b H. apply (f_equal zval) in H. exact H. Qed.

(* the base point is not the identity: the instance is not the trivial group *)
Example ex_nontrivial : zsmul 1 <> zzero.
Proof. intros H. apply (f_equal zval) in H. vm_compute in H. discriminate. Qed.

(* a key store instance: any functions with a key stream of the requested length *)
Definition xctr (k iv : bytes) (n : nat) : bytes := n2le n (le2n (k ++ iv) * 1000003 + 99).
Example ex_ctr_len : forall k iv n, length (xctr k iv n) = n.
Proof. intros. apply n2le_length. Qed.

(* the hypotheses [wf_key] / [wf64] hold for a concrete 64-byte key *)
Example ex_wf_key : wf_key (n2le 32 123456789, n2le 32 987654321) /\ wf64 (n2le 32 123456789, n2le 32 987654321).
Proof.
  split; [split; [|split]|split]; cbn [fst snd]; try apply n2le_length; apply n2le_ok.
Qed.

(* the theorems apply to the instance *)
Example ex_instance_sign_verify : forall x msg,
  xverify ZL zadd zneg zsmul zgmul zencode zdecode (xhmac []) (xpub_of ZL zsmul zencode x) msg
          (sign ZL zsmul zencode xhmac (xhmac []) x msg) = true.
Proof. exact (sign_verify_closed ZL zadd zneg zzero zsmul zgmul zencode zdecode xhmac (xhmac []) ex_derive_ideal ex_group_ideal). Qed.

Example ex_instance_derive : forall seed path, N.of_nat (length path) <= 5 * 2 ^ 20 ->
  exists x', derive_prv ZL zsmul zencode xhmac (root_xprv xhmac seed) path = Ok x' /\
             derive_pub ZL zadd zsmul zencode zdecode xhmac
                        (xpub_of ZL zsmul zencode (root_xprv xhmac seed)) path
             = Ok (xpub_of ZL zsmul zencode x') /\
             (N.of_nat (length path) <= 2 ^ 20 -> le2n (fst x') < 2 ^ 255).
Proof. exact (derive_root_closed ZL zadd zneg zzero zsmul zgmul zencode zdecode xhmac (xhmac []) ex_derive_ideal ex_hmac_ideal). Qed.
