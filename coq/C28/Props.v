(* C28 — key derivation and signatures are consistent.  PROPERTY THEOREMS ONLY.

   Model: C28/Model.v mirrors crypto/ed25519/chainkd/{chainkd.go, expanded_key.go},
   crypto/ed25519.Verify (Go 1.23) and blockchain/pseudohsm/{keystore_passphrase.go,
   pseudohsm.go}:
     root_xprv = RootXPrv        xpub_of = XPrv.XPub        child_prv = XPrv.nonhardenedChild
     child_pub = XPub.Child      derive_prv / derive_pub = XPrv.Derive / XPub.Derive
     sign = XPrv.Sign (ExpandedPrivateKey + Ed25519InnerSign)   xverify = XPub.Verify
     add32 = the 32 unrolled carry lines      prune_root / prune_int = the pruning functions
     encrypt_key / decrypt_key = EncryptKey / DecryptKey    load_key = HSM.LoadChainKDKey
     xsign = HSM.XSign
   A key is a pair (32-byte scalar, 32-byte chain code); [wf_key] / [wf64] say exactly
   that (Go: the type [64]byte).  Scalars are little-endian numbers ([le2n]).

   [partial: the Ed25519 group and the hashes are idealised]  The primitives are
   parameters of every theorem, constrained only by the predicates of C28/Main.v:
     hmac_ideal   HMAC-SHA512 returns 64 bytes;
     derive_ideal smul (a+b) = gadd (smul a) (smul b),  decode (encode P) = Some P;
     group_ideal  (G, gadd, gneg, gzero) is an abelian group, L*B = 0,
                  k*(a*B) = (k*a)*B, k*(-P) = -(k*P), encodings have 32 bytes;
     order_ideal  a*B = b*B implies a = b (mod L);
   SHA-512, scrypt, AES-CTR (only: the key stream has the requested length) and the MAC
   hash (crypto.Sha256, which is SHA3-256) are ARBITRARY functions.  The predicates are
   satisfied by a non-trivial instance (Z_L with base point 1: the ex_ examples of Main.v).

   NOT proved: "a signature fails under any other key or message" (c28_sign_exclusive_full)
   is the unforgeability of Ed25519, a computational assumption.  Proved in its place:
   c28_sign_other_partial, the exact algebraic condition under which such a verification
   succeeds (a coincidence of two hash values mod L). *)
From Coq Require Import List NArith Bool.
From Verif Require Import Outcome Cmp.
From C28 Require Import Model Bytes Proofs Main Store StoreSpec StoreProofs.
Import ListNotations.
Open Scope N_scope.

(* the unrolled carry chain computes (a + f) mod 2^256; the carry out of the last byte
   (the condition of the panic) is set iff a + f >= 2^256 *)
Theorem c28_byte_add : forall a f : bytes,
  length a = 32%nat -> length f = 32%nat -> Forall isbyte a -> Forall isbyte f ->
  forall r sum, add32 a f = (r, sum) ->
    le2n r = (le2n a + le2n f) mod 2 ^ 256 /\
    (N.shiftr sum 8 =? 0) = (le2n a + le2n f <? 2 ^ 256) /\
    length r = 32%nat /\ Forall isbyte r.
Proof. exact byte_add. Qed.
Print Assumptions c28_byte_add.

(* the bounds the pruning code establishes: a root scalar lies in [2^254, 2^254 + 2^253),
   every derivation step adds less than 2^233 *)
Theorem c28_scalar_ranges : forall (G : Type) (smul : N -> G) (encode : G -> bytes) hmac512,
  hmac_ideal hmac512 ->
  (forall seed, wf_key (root_xprv hmac512 seed) /\
                2 ^ 254 <= le2n (fst (root_xprv hmac512 seed)) < 2 ^ 254 + 2 ^ 253) /\
  (forall x sel, le2n (tweak G smul encode hmac512 x sel) < 2 ^ 233).
Proof. exact scalar_ranges. Qed.
Print Assumptions c28_scalar_ranges.

(* one step, EVERY key and selector: the public key of the child private key is the child
   public key; the only other outcome is the carry-out panic, possible only for a scalar
   above 2^256 - 2^233 *)
Theorem c28_commute : forall (G : Type) gadd (gneg : G -> G) (gzero : G) smul (gmul : N -> G -> G)
    encode decode hmac512 (sha512 : bytes -> bytes),
  derive_ideal G gadd smul encode decode -> hmac_ideal hmac512 ->
  forall x sel, wf_key x ->
  match child_prv G smul encode hmac512 x sel with
  | Ok x' => child_pub G gadd smul encode decode hmac512 (xpub_of G smul encode x) sel
             = Ok (xpub_of G smul encode x') /\ wf_key x'
  | Panic _ => 2 ^ 256 - 2 ^ 233 < le2n (fst x)
  | Err _ => False
  end.
Proof. exact commute_closed. Qed.
Print Assumptions c28_commute.

(* paths of ANY length (induction): from a key whose scalar leaves room for one tweak per
   selector, derivation does not panic and both derivations agree *)
Theorem c28_derive_path : forall (G : Type) gadd (gneg : G -> G) (gzero : G) smul (gmul : N -> G -> G)
    encode decode hmac512 (sha512 : bytes -> bytes),
  derive_ideal G gadd smul encode decode -> hmac_ideal hmac512 ->
  forall path x, wf_key x ->
  le2n (fst x) + N.of_nat (length path) * 2 ^ 233 <= 2 ^ 256 ->
  exists x', derive_prv G smul encode hmac512 x path = Ok x' /\
             derive_pub G gadd smul encode decode hmac512 (xpub_of G smul encode x) path
             = Ok (xpub_of G smul encode x') /\
             wf_key x' /\
             le2n (fst x) <= le2n (fst x') <= le2n (fst x) + N.of_nat (length path) * (2 ^ 233 - 1).
Proof. exact derive_path_closed. Qed.
Print Assumptions c28_derive_path.

(* every seed, every path of at most 5*2^20 selectors (the property asks for 8): no panic,
   and xpub (derive_prv root path) = derive_pub (xpub root) path; up to 2^20 selectors the
   scalar also stays below 2^255, inside the domain of the Ed25519 scalar multiplication *)
Theorem c28_derive_root : forall (G : Type) gadd (gneg : G -> G) (gzero : G) smul (gmul : N -> G -> G)
    encode decode hmac512 (sha512 : bytes -> bytes),
  derive_ideal G gadd smul encode decode -> hmac_ideal hmac512 ->
  forall seed path, N.of_nat (length path) <= 5 * 2 ^ 20 ->
  exists x', derive_prv G smul encode hmac512 (root_xprv hmac512 seed) path = Ok x' /\
             derive_pub G gadd smul encode decode hmac512
                        (xpub_of G smul encode (root_xprv hmac512 seed)) path
             = Ok (xpub_of G smul encode x') /\
             (N.of_nat (length path) <= 2 ^ 20 -> le2n (fst x') < 2 ^ 255).
Proof. exact derive_root_closed. Qed.
Print Assumptions c28_derive_root.

(* a signature verifies under the signer's public key: every key (any 64 bytes), every message *)
Theorem c28_sign_verify : forall (G : Type) gadd gneg gzero smul gmul encode decode hmac512 sha512,
  derive_ideal G gadd smul encode decode ->
  group_ideal G gadd gneg gzero smul gmul encode ->
  forall x msg,
    xverify G gadd gneg smul gmul encode decode sha512 (xpub_of G smul encode x) msg
            (sign G smul encode hmac512 sha512 x msg) = true.
Proof. exact sign_verify_closed. Qed.
Print Assumptions c28_sign_verify.

(* the full exclusivity statement: NOT proved (unforgeability) *)
Definition c28_sign_exclusive_full : Prop := sign_exclusive_full.

(* the signature of [msg] by the scalar of [sk] verifies under the key a'*B and the message
   msg' only if  h(R,pk,msg) * a = h(R,pk',msg') * a'  (mod L) *)
Theorem c28_sign_other_partial : forall (G : Type) gadd gneg gzero smul gmul encode decode
    (hmac512 : bytes -> bytes -> bytes) sha512,
  derive_ideal G gadd smul encode decode ->
  group_ideal G gadd gneg gzero smul gmul encode -> order_ideal G smul ->
  forall sk prefix msg a' msg',
  let sig := inner_sign G smul encode sha512 sk prefix msg in
  let R := firstn 32 sig in
  let pk := encode (smul (le2n sk)) in
  let pk' := encode (smul a') in
  verify G gadd gneg smul gmul encode decode sha512 pk' msg' sig = true ->
  (hram sha512 R pk msg * le2n sk) mod L = (hram sha512 R pk' msg' * a') mod L.
Proof. exact verify_other_closed. Qed.
Print Assumptions c28_sign_other_partial.

(* key files: the correct password returns the stored key; a password that opens the file
   derives the same MAC key or collides the MAC hash; equal scrypt keys give the stored key *)
Theorem c28_keystore : forall (kdf : bytes -> bytes -> bytes) (ctr : bytes -> bytes -> nat -> bytes)
    (mac_hash : bytes -> bytes),
  (forall k iv n, length (ctr k iv n) = n) ->
  forall k alias pw salt iv, wf64 k ->
    let f := encrypt_key kdf ctr mac_hash k alias pw salt iv in
    decrypt_key kdf ctr mac_hash f pw = Ok k /\
    load_key kdf ctr mac_hash f alias pw = Ok k /\
    (forall pw', (exists k', decrypt_key kdf ctr mac_hash f pw' = Ok k' \/
                             load_key kdf ctr mac_hash f alias pw' = Ok k') ->
                 firstn 16 (skipn 16 (kdf pw' salt)) = firstn 16 (skipn 16 (kdf pw salt)) \/
                 Collision mac_hash) /\
    (forall pw', kdf pw' salt = kdf pw salt -> decrypt_key kdf ctr mac_hash f pw' = Ok k).
Proof. exact keystore_closed. Qed.
Print Assumptions c28_keystore.

(* ... and signs identically: XSign on the stored key is derivation and signing with the
   original key (including its panic, if any) *)
Theorem c28_keystore_xsign : forall (G : Type) (smul : N -> G) (encode : G -> bytes)
    hmac512 sha512 kdf ctr mac_hash,
  (forall k iv n, length (ctr k iv n) = n) ->
  forall k alias pw salt iv path msg, wf64 k ->
  xsign G smul encode hmac512 sha512 kdf ctr mac_hash
        (encrypt_key kdf ctr mac_hash k alias pw salt iv) alias path msg pw =
  match derive_prv G smul encode hmac512 k path with
  | Ok k' => Ok (sign G smul encode hmac512 sha512 k' msg)
  | Err e => Err e
  | Panic p => Panic p
  end.
Proof. exact xsign_stored. Qed.
Print Assumptions c28_keystore_xsign.

(* ---------------------------------------------------------------------------------------------
   The key store as a whole (C28/Store.v models pseudohsm.go, keycache.go, image.go; C28/StoreSpec.v
   is the book: per stored key its xprv, alias, CURRENT password, salt and iv, updated by pure
   bookkeeping).  Extra hypothesis [mac_ideal]: a password deriving another scrypt key never
   yields the file's MAC (the disjunct "... or Collision" of c28_keystore, as a hypothesis).

   Every sequence of whole operations (create / import, load, reset password, update alias,
   delete, backup of one store restored into another) on any number of stores, from any
   well-formed book: the implementation model holds exactly the key files of the book and
   returns the book's answers. *)
Theorem c28_store_refines : forall (G : Type) (smul : N -> G) (encode : G -> bytes) kdf ctr mac_hash,
  (forall k iv n, length (ctr k iv n) = n) -> mac_ideal kdf mac_hash ->
  forall ops gs, wfsys gs ->
    run G smul encode kdf ctr mac_hash (realize_sys G smul encode kdf ctr mac_hash gs) ops =
    (realize_sys G smul encode kdf ctr mac_hash (fst (grun G smul encode kdf ctr mac_hash gs ops)),
     snd (grun G smul encode kdf ctr mac_hash gs ops)) /\
    wfsys (fst (grun G smul encode kdf ctr mac_hash gs ops)).
Proof. exact run_refines. Qed.
Print Assumptions c28_store_refines.

(* ... and, from empty stores, as long as no key is imported into a store that already holds it
   (decidable guard [no_dup_import]): at every point EVERY key of the book opens with its current
   password and returns the stored xprv, a password opens it iff it derives the same scrypt key
   as the current one, and XSign is derivation and signing with the stored xprv.  After
   Backup -> Restore the restored keys are keys of the target's book, with the password they
   had in the source. *)
Theorem c28_store_holds_outside : forall (G : Type) (smul : N -> G) (encode : G -> bytes) kdf ctr mac_hash,
  (forall k iv n, length (ctr k iv n) = n) -> mac_ideal kdf mac_hash ->
  forall hmac512 sha512 ops,
  no_dup_import G smul encode kdf ctr mac_hash [] ops = true ->
  let s' := fst (run G smul encode kdf ctr mac_hash [] ops) in
  let gs' := fst (grun G smul encode kdf ctr mac_hash [] ops) in
  s' = realize_sys G smul encode kdf ctr mac_hash gs' /\
  snd (run G smul encode kdf ctr mac_hash [] ops) = snd (grun G smul encode kdf ctr mac_hash [] ops) /\
  forall sid g, In g (getst gs' sid) ->
    wf64 (g_key g) /\
    (forall pw, s_load kdf ctr mac_hash (getst s' sid) (g_xpub G smul encode g) pw =
                if pw_ok kdf g pw then SOk (g_key g) else SErr SELoad) /\
    s_load kdf ctr mac_hash (getst s' sid) (g_xpub G smul encode g) (g_pw g) = SOk (g_key g) /\
    (forall path msg,
       s_xsign G smul encode kdf ctr mac_hash hmac512 sha512 (getst s' sid) (g_xpub G smul encode g) path msg (g_pw g) =
       match derive_prv G smul encode hmac512 (g_key g) path with
       | Ok k' => Ok (sign G smul encode hmac512 sha512 k' msg)
       | Err _ => Err SELoad
       | Panic p => Panic p
       end).
Proof. exact store_live. Qed.
Print Assumptions c28_store_holds_outside.

(* FINDING (outside the guard): ImportKeyFromMnemonic / XCreate do not check that the key is new.
   The same key imported twice under two aliases: both imports succeed, and afterwards NO
   password opens the key; it can be neither deleted nor re-keyed (every lookup is ambiguous).
   For all primitives. *)
Theorem c28_refuted_duplicate_import : forall (G : Type) (smul : N -> G) (encode : G -> bytes) kdf ctr mac_hash
    raw a1 pw1 s1 i1 a2 pw2 s2 i2,
  a1 <> a2 ->
  let xp := xpub_bytes G smul encode (key_of raw) in
  exists e1 e2,
    run G smul encode kdf ctr mac_hash [] [SCreate 0 raw a1 pw1 s1 i1; SCreate 0 raw a2 pw2 s2 i2]
    = ([(0, [e1; e2])], [obs_store [e1]; obs_store [e1; e2]]) /\
    (forall pw, s_load kdf ctr mac_hash [e1; e2] xp pw = SErr SELoad) /\
    (forall pw, s_delete kdf ctr mac_hash [e1; e2] xp pw = SErr SEAmbiguous) /\
    (forall old new s i, s_reset kdf ctr mac_hash [e1; e2] xp old new s i = SErr SEAmbiguous).
Proof. exact dup_import_refuted. Qed.
Print Assumptions c28_refuted_duplicate_import.

(* ResetPassword / UpdateKeyAlias / XSign of one key from several goroutines.  Each of these
   operations (and XCreate, ImportKeyFromMnemonic, LoadChainKDKey, Restore) runs entirely under
   the HSM lock cacheMu (ResetPassword since the repair e8f4d605), so however the callers
   interleave, the store sees a sequence of WHOLE operations; for every such sequence
   c28_store_refines gives the book's files and answers, c28_store_holds_outside gives "XSign with
   the current password succeeds and signs as the xprv", and the theorem below gives "the alias in
   the key file is the alias the cache holds" (the invariant whose failure made XSign refuse the
   correct password in the pinned tree).  No guard, every sequence, any number of stores.
   The pinned tree's two-step ResetPassword and its witness are kept in C28/History.v
   (pinned_refuted_reset_alias_race); they say nothing about the current code.  The harness class
   keystore-reset-alias-race (two goroutines ResetPassword / UpdateKeyAlias, a third signing) is
   the regression test of the repair. *)
Theorem c28_store_alias_consistent : forall (G : Type) (smul : N -> G) (encode : G -> bytes) kdf ctr mac_hash,
  (forall k iv n, length (ctr k iv n) = n) -> mac_ideal kdf mac_hash ->
  forall ops sid e,
    In e (getst (fst (run G smul encode kdf ctr mac_hash [] ops)) sid) -> kf_alias (se_kf e) = se_alias e.
Proof. exact alias_consistent. Qed.
Print Assumptions c28_store_alias_consistent.
