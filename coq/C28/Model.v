(* C28 — executable model of
     /repo/crypto/ed25519/chainkd/chainkd.go      (RootXPrv, XPub, nonhardenedChild, XPub.Child,
                                                   Derive, Sign, Verify, ExpandedPrivateKey, pruneRootScalar, pruneIntermediateScalar)
     /repo/crypto/ed25519/chainkd/expanded_key.go (Ed25519InnerSign)
     crypto/ed25519.Verify (Go 1.23 standard library, as called by XPub.Verify)
     /repo/blockchain/pseudohsm/keystore_passphrase.go (EncryptKey, DecryptKey/decryptKey, GetKey)
     /repo/blockchain/pseudohsm/pseudohsm.go      (LoadChainKDKey, XSign)
   NO PROOFS HERE.

   Bytes are N (< 256), byte strings are lists; a 32-byte scalar is little-endian.
   The Ed25519 group, HMAC-SHA512, SHA-512, scrypt, AES-CTR and the MAC hash (crypto.Sha256 = SHA3-256) are Section
   variables: [smul n] is n*B (ScMulBase / GeScalarMultBase), [gmul k P] is k*P,
   [encode]/[decode] are Point.Encode / Point.Decode.  The correspondence run
   instantiates them with finite tables computed by the harness (C28/Run.v).

   Fixed-size Go arrays ([32]byte, [64]byte) are lists of that length; [at_] reads a
   cell of a fixed-size array (an in-range constant index in the Go code, it cannot
   panic).  [Panic ExplicitPanic] stands exactly where the Go code panics:
   "sum does not fit in 256-bit int" and "XPub should have been validated". *)
From Coq Require Import List NArith Bool Arith.
From Verif Require Import Outcome Cmp.
Import ListNotations.
Open Scope N_scope.

Definition isbyte (b : N) : Prop := b < 256.

(* little-endian number of a byte string / the k low bytes of a number *)
Fixpoint le2n (b : bytes) : N :=
  match b with [] => 0 | x :: t => x + 256 * le2n t end.
Fixpoint n2le (k : nat) (n : N) : bytes :=
  match k with O => [] | S k' => N.modulo n 256 :: n2le k' (N.div n 256) end.

Definition at_ (b : bytes) (i : nat) : N := nth i b 0.
Fixpoint upd (i : nat) (v : N) (b : bytes) : bytes :=
  match b with
  | [] => []
  | x :: t => match i with O => v :: t | S j => x :: upd j v t end
  end.
(* copy(dst[:], src) into a zeroed array of k bytes *)
Fixpoint fit (k : nat) (b : bytes) : bytes :=
  match k with
  | O => []
  | S k' => match b with [] => 0 :: fit k' [] | x :: t => x :: fit k' t end
  end.

(* pruneRootScalar: s[0] &= 248; s[31] &= 31; s[31] |= 64 *)
Definition prune_root (s : bytes) : bytes :=
  let s := upd 0 (N.land (at_ s 0) 248) s in
  let s := upd 31 (N.land (at_ s 31) 31) s in
  upd 31 (N.lor (at_ s 31) 64) s.

(* pruneIntermediateScalar: f[0] &= 248; f[29] &= 1; f[30] = 0; f[31] = 0 *)
Definition prune_int (f : bytes) : bytes :=
  let f := upd 0 (N.land (at_ f 0) 248) f in
  let f := upd 29 (N.land (at_ f 29) 1) f in
  let f := upd 30 0 f in
  upd 31 0 f.

(* the 32 unrolled lines of nonhardenedChild:
     sum = int(xprv[i]) + int(res[i]) + (sum >> 8);  res[i] = byte(sum & 0xff)
   (Go int is 64 bits: no wrap-around, every sum is below 512).  Returns the 32
   result bytes and the last value of sum. *)
Definition add32 (a f : bytes) : bytes * N :=
  let sum := 0 in
  let sum := at_ a 0 + at_ f 0 + N.shiftr sum 8 in let r0 := N.land sum 255 in
  let sum := at_ a 1 + at_ f 1 + N.shiftr sum 8 in let r1 := N.land sum 255 in
  let sum := at_ a 2 + at_ f 2 + N.shiftr sum 8 in let r2 := N.land sum 255 in
  let sum := at_ a 3 + at_ f 3 + N.shiftr sum 8 in let r3 := N.land sum 255 in
  let sum := at_ a 4 + at_ f 4 + N.shiftr sum 8 in let r4 := N.land sum 255 in
  let sum := at_ a 5 + at_ f 5 + N.shiftr sum 8 in let r5 := N.land sum 255 in
  let sum := at_ a 6 + at_ f 6 + N.shiftr sum 8 in let r6 := N.land sum 255 in
  let sum := at_ a 7 + at_ f 7 + N.shiftr sum 8 in let r7 := N.land sum 255 in
  let sum := at_ a 8 + at_ f 8 + N.shiftr sum 8 in let r8 := N.land sum 255 in
  let sum := at_ a 9 + at_ f 9 + N.shiftr sum 8 in let r9 := N.land sum 255 in
  let sum := at_ a 10 + at_ f 10 + N.shiftr sum 8 in let r10 := N.land sum 255 in
  let sum := at_ a 11 + at_ f 11 + N.shiftr sum 8 in let r11 := N.land sum 255 in
  let sum := at_ a 12 + at_ f 12 + N.shiftr sum 8 in let r12 := N.land sum 255 in
  let sum := at_ a 13 + at_ f 13 + N.shiftr sum 8 in let r13 := N.land sum 255 in
  let sum := at_ a 14 + at_ f 14 + N.shiftr sum 8 in let r14 := N.land sum 255 in
  let sum := at_ a 15 + at_ f 15 + N.shiftr sum 8 in let r15 := N.land sum 255 in
  let sum := at_ a 16 + at_ f 16 + N.shiftr sum 8 in let r16 := N.land sum 255 in
  let sum := at_ a 17 + at_ f 17 + N.shiftr sum 8 in let r17 := N.land sum 255 in
  let sum := at_ a 18 + at_ f 18 + N.shiftr sum 8 in let r18 := N.land sum 255 in
  let sum := at_ a 19 + at_ f 19 + N.shiftr sum 8 in let r19 := N.land sum 255 in
  let sum := at_ a 20 + at_ f 20 + N.shiftr sum 8 in let r20 := N.land sum 255 in
  let sum := at_ a 21 + at_ f 21 + N.shiftr sum 8 in let r21 := N.land sum 255 in
  let sum := at_ a 22 + at_ f 22 + N.shiftr sum 8 in let r22 := N.land sum 255 in
  let sum := at_ a 23 + at_ f 23 + N.shiftr sum 8 in let r23 := N.land sum 255 in
  let sum := at_ a 24 + at_ f 24 + N.shiftr sum 8 in let r24 := N.land sum 255 in
  let sum := at_ a 25 + at_ f 25 + N.shiftr sum 8 in let r25 := N.land sum 255 in
  let sum := at_ a 26 + at_ f 26 + N.shiftr sum 8 in let r26 := N.land sum 255 in
  let sum := at_ a 27 + at_ f 27 + N.shiftr sum 8 in let r27 := N.land sum 255 in
  let sum := at_ a 28 + at_ f 28 + N.shiftr sum 8 in let r28 := N.land sum 255 in
  let sum := at_ a 29 + at_ f 29 + N.shiftr sum 8 in let r29 := N.land sum 255 in
  let sum := at_ a 30 + at_ f 30 + N.shiftr sum 8 in let r30 := N.land sum 255 in
  let sum := at_ a 31 + at_ f 31 + N.shiftr sum 8 in let r31 := N.land sum 255 in
  ([r0; r1; r2; r3; r4; r5; r6; r7; r8; r9; r10; r11; r12; r13; r14; r15; r16; r17; r18; r19; r20; r21; r22; r23; r24; r25; r26; r27; r28; r29; r30; r31], sum).

(* the same chain as a recursion (used by the proofs; shown equal to add32) *)
Fixpoint add_chain (a f : bytes) (sum : N) : bytes * N :=
  match a, f with
  | x :: a', y :: f' =>
      let sum' := x + y + N.shiftr sum 8 in
      let (r, s) := add_chain a' f' sum' in (N.land sum' 255 :: r, s)
  | _, _ => ([], sum)
  end.

Inductive kerr := ErrDecrypt | ErrLoadKey | ErrAlias.

Definition xprv := (bytes * bytes)%type.   (* scalar (32 bytes), chain code (32 bytes) *)
Definition xpub := (bytes * bytes)%type.   (* encoded point (32 bytes), chain code *)

(* the order of the base point: 2^252 + 27742317777372353535851937790883648493 *)
Definition L : N := 7237005577332262213973186563042994240857116359379907606001950938285454250989.

Definition s_Root : bytes := [82; 111; 111; 116].
Definition s_Expand : bytes := [69; 120; 112; 97; 110; 100].
Definition c_N : N := 78.

Section KD.
  Variable G : Type.
  Variables (gadd : G -> G -> G) (gneg : G -> G).
  Variable smul : N -> G.                 (* n |-> n*B *)
  Variable gmul : N -> G -> G.            (* k, P |-> k*P *)
  Variable encode : G -> bytes.
  Variable decode : bytes -> option G.
  Variable hmac512 : bytes -> bytes -> bytes.   (* key, message *)
  Variable sha512 : bytes -> bytes.

  (* RootXPrv *)
  Definition root_xprv (seed : bytes) : xprv :=
    let h := hmac512 s_Root seed in
    (prune_root (firstn 32 h), skipn 32 h).

  (* XPrv.XPub *)
  Definition xpub_of (x : xprv) : xpub := (encode (smul (le2n (fst x))), snd x).

  (* the HMAC of both non-hardened derivations: key xpub[32:], message 'N' || xpub[:32] || sel *)
  Definition hmacN (xp : xpub) (sel : bytes) : bytes := hmac512 (snd xp) (c_N :: fst xp ++ sel).

  (* XPrv.nonhardenedChild *)
  Definition child_prv (x : xprv) (sel : bytes) : outcome kerr xprv :=
    let h := hmacN (xpub_of x) sel in
    let f := prune_int (firstn 32 h) in
    let (r, sum) := add32 (fst x) f in
    if N.shiftr sum 8 =? 0 then Ok (r, skipn 32 h) else Panic ExplicitPanic.

  (* XPub.Child *)
  Definition child_pub (xp : xpub) (sel : bytes) : outcome kerr xpub :=
    let h := hmacN xp sel in
    let f := prune_int (firstn 32 h) in
    let F := smul (le2n f) in
    match decode (fst xp) with
    | None => Panic ExplicitPanic
    | Some P => Ok (encode (gadd P F), skipn 32 h)
    end.

  (* XPrv.Derive / XPub.Derive *)
  Fixpoint derive_prv (x : xprv) (path : list bytes) : outcome kerr xprv :=
    match path with
    | [] => Ok x
    | sel :: rest =>
        match child_prv x sel with
        | Ok x' => derive_prv x' rest
        | Err e => Err e
        | Panic p => Panic p
        end
    end.
  Fixpoint derive_pub (xp : xpub) (path : list bytes) : outcome kerr xpub :=
    match path with
    | [] => Ok xp
    | sel :: rest =>
        match child_pub xp sel with
        | Ok xp' => derive_pub xp' rest
        | Err e => Err e
        | Panic p => Panic p
        end
    end.

  (* XPrv.ExpandedPrivateKey: (scalar, prefix) *)
  Definition expanded (x : xprv) : bytes * bytes :=
    (fst x, skipn 32 (hmac512 s_Expand (fst x ++ snd x))).

  (* Ed25519InnerSign (ScReduce = mod L, ScMulAdd = (a*b+c) mod L) *)
  Definition inner_sign (sk prefix msg : bytes) : bytes :=
    let r := le2n (sha512 (prefix ++ msg)) mod L in
    let R := encode (smul r) in
    let pk := encode (smul (le2n sk)) in
    let h := le2n (sha512 (R ++ pk ++ msg)) mod L in
    let s := (h * le2n sk + r) mod L in
    R ++ n2le 32 s.

  (* XPrv.Sign *)
  Definition sign (x : xprv) (msg : bytes) : bytes :=
    let (sk, prefix) := expanded x in inner_sign sk prefix msg.

  (* crypto/ed25519.Verify on a 32-byte public key *)
  Definition verify (pk msg sig : bytes) : bool :=
    if negb (Nat.eqb (length sig) 64) then false
    else if negb (N.land (at_ sig 63) 224 =? 0) then false
    else match decode pk with
         | None => false
         | Some A =>
             let R := firstn 32 sig in
             let k := le2n (sha512 (R ++ pk ++ msg)) mod L in
             let s := le2n (skipn 32 sig) in
             if L <=? s then false                           (* SetCanonicalBytes *)
             else bytes_eqb R (encode (gadd (gmul k (gneg A)) (smul s)))
         end.

  (* XPub.Verify *)
  Definition xverify (xp : xpub) (msg sig : bytes) : bool := verify (fst xp) msg sig.
End KD.

(* ------------------------------------------------------------------ key store *)

Record keyfile := { kf_ct : bytes; kf_iv : bytes; kf_salt : bytes; kf_mac : bytes; kf_alias : bytes }.

Definition xorb (a s : bytes) : bytes := map (fun p => N.lxor (fst p) (snd p)) (combine a s).

Section KS.
  Variable kdf : bytes -> bytes -> bytes.          (* scrypt.Key(auth, salt, N, 8, P, 32) *)
  Variable ctr : bytes -> bytes -> nat -> bytes.   (* AES-128-CTR key stream: key, iv, length *)
  Variable mac_hash : bytes -> bytes.             (* crypto.Sha256, which is SHA3-256 *)

  (* aesCTRXOR *)
  Definition ctr_xor (key text iv : bytes) : bytes := xorb text (ctr key iv (length text)).

  (* crypto.Sha256(derivedKey[16:32], cipherText) *)
  Definition mac_of (dk ct : bytes) : bytes := mac_hash (firstn 16 (skipn 16 dk) ++ ct).

  (* EncryptKey; salt and iv are the two reads of the system random source *)
  Definition encrypt_key (k : xprv) (alias pw salt iv : bytes) : keyfile :=
    let dk := kdf pw salt in
    let ct := ctr_xor (firstn 16 dk) (fst k ++ snd k) iv in
    {| kf_ct := ct; kf_iv := iv; kf_salt := salt; kf_mac := mac_of dk ct; kf_alias := alias |}.

  (* DecryptKey / decryptKey on a version-1 scrypt key file *)
  Definition decrypt_key (f : keyfile) (pw : bytes) : outcome kerr xprv :=
    let dk := kdf pw (kf_salt f) in
    if bytes_eqb (mac_of dk (kf_ct f)) (kf_mac f) then
      let k := fit 64 (ctr_xor (firstn 16 dk) (kf_ct f) (kf_iv f)) in
      Ok (firstn 32 k, skipn 32 k)
    else Err ErrDecrypt.

  (* keyStorePassphrase.GetKey *)
  Definition get_key (f : keyfile) (alias pw : bytes) : outcome kerr xprv :=
    match decrypt_key f pw with
    | Ok k => if bytes_eqb (kf_alias f) alias then Ok k else Err ErrAlias
    | Err e => Err e
    | Panic p => Panic p
    end.

  (* HSM.LoadChainKDKey: every error becomes ErrLoadKey *)
  Definition load_key (f : keyfile) (alias pw : bytes) : outcome kerr xprv :=
    match get_key f alias pw with
    | Ok k => Ok k
    | Err _ => Err ErrLoadKey
    | Panic p => Panic p
    end.
End KS.

(* HSM.XSign: load, derive along the path, sign *)
Section XSIGN.
  Variable G : Type.
  Variable smul : N -> G.
  Variable encode : G -> bytes.
  Variable hmac512 : bytes -> bytes -> bytes.
  Variable sha512 : bytes -> bytes.
  Variable kdf : bytes -> bytes -> bytes.
  Variable ctr : bytes -> bytes -> nat -> bytes.
  Variable mac_hash : bytes -> bytes.

  Definition xsign (f : keyfile) (alias : bytes) (path : list bytes) (msg pw : bytes)
    : outcome kerr bytes :=
    match load_key kdf ctr mac_hash f alias pw with
    | Ok k =>
        match derive_prv G smul encode hmac512 k path with
        | Ok k' => Ok (sign G smul encode hmac512 sha512 k' msg)
        | Err e => Err e
        | Panic p => Panic p
        end
    | Err e => Err e
    | Panic p => Panic p
    end.
End XSIGN.
