(* C28 — byte-string arithmetic: little-endian numbers, the carry chain, pruning. *)
From Coq Require Import List NArith Bool Arith Lia ZArith.
From Coq Require Import ZifyBool ZifyN ZifyNat.
From Verif Require Import Outcome Cmp.
From C28 Require Import Model.
Import ListNotations.
Open Scope N_scope.

Local Ltac Zify.zify_post_hook ::= Z.to_euclidean_division_equations.

Notation bytes_ok := (Forall isbyte).

(* ---- a property of all byte values, by enumeration *)
Fixpoint all_below (n : nat) (P : N -> bool) : bool :=
  match n with O => true | S k => P (N.of_nat k) && all_below k P end.

Lemma all_below_spec n P : all_below n P = true -> forall x, x < N.of_nat n -> P x = true.
Proof.
  induction n as [|k IH]; cbn [all_below]; intros H x Hx.
  - lia.
  - apply andb_prop in H. destruct H as [H1 H2].
    destruct (N.eq_dec x (N.of_nat k)) as [->|Hne]; [exact H1|].
    apply IH; [exact H2|lia].
Qed.

Lemma byte_forall (P : N -> bool) : all_below 256 P = true -> forall x, isbyte x -> P x = true.
Proof. intros H x Hx. apply (all_below_spec 256 P H). exact Hx. Qed.

(* ---- le2n / n2le *)
Definition p256 (k : nat) : N := 256 ^ N.of_nat k.

Lemma p256_0 : p256 0 = 1. Proof. reflexivity. Qed.
Lemma p256_S k : p256 (S k) = 256 * p256 k.
Proof. unfold p256. rewrite Nat2N.inj_succ, N.pow_succ_r'. reflexivity. Qed.
Lemma p256_pos k : 0 < p256 k.
Proof. unfold p256. apply N.neq_0_lt_0. apply N.pow_nonzero. discriminate. Qed.

Lemma le2n_bound b : bytes_ok b -> le2n b < p256 (length b).
Proof.
  induction 1 as [|x t Hx Ht IH]; cbn [le2n length].
  - rewrite p256_0. lia.
  - rewrite p256_S. unfold isbyte in Hx. lia.
Qed.

Lemma le2n_app a b : le2n (a ++ b) = le2n a + p256 (length a) * le2n b.
Proof.
  induction a as [|x t IH]; cbn [le2n app length].
  - rewrite p256_0. lia.
  - rewrite p256_S, IH. lia.
Qed.

Lemma n2le_length k n : length (n2le k n) = k.
Proof. revert n; induction k as [|k IH]; intros n; cbn [n2le length]; [reflexivity|]. rewrite IH. reflexivity. Qed.

Lemma n2le_ok k n : bytes_ok (n2le k n).
Proof.
  revert n; induction k as [|k IH]; intros n; cbn [n2le]; constructor.
  - unfold isbyte. apply N.mod_lt. discriminate.
  - apply IH.
Qed.

Lemma le2n_n2le k n : le2n (n2le k n) = n mod p256 k.
Proof.
  revert n; induction k as [|k IH]; intros n; cbn [n2le le2n].
  - rewrite p256_0. rewrite N.mod_1_r. reflexivity.
  - rewrite IH, p256_S. pose proof (p256_pos k) as Hp.
    set (p := p256 k) in *.
    (* n mod 256 + 256 * ((n/256) mod p) = n mod (256*p) *)
    rewrite N.mod_mul_r by lia. reflexivity.
Qed.

Lemma le2n_n2le_small k n : n < p256 k -> le2n (n2le k n) = n.
Proof. intros H. rewrite le2n_n2le. apply N.mod_small. exact H. Qed.

Lemma nth_n2le i k n : (i < k)%nat -> nth i (n2le k n) 0 = (n / p256 i) mod 256.
Proof.
  revert k n; induction i as [|i IH]; intros k n Hik; destruct k as [|k]; try lia; cbn [n2le nth].
  - rewrite p256_0, N.div_1_r. reflexivity.
  - rewrite IH by lia. rewrite p256_S. rewrite N.div_div by (try discriminate; pose proof (p256_pos i); lia).
    reflexivity.
Qed.

(* ---- fixed-size arrays *)
Lemma upd_length i v b : length (upd i v b) = length b.
Proof. revert i; induction b as [|x t IH]; intros [|i]; cbn [upd length]; auto. Qed.

Lemma upd_ok i v b : isbyte v -> bytes_ok b -> bytes_ok (upd i v b).
Proof.
  intros Hv Hb; revert i; induction Hb as [|x t Hx Ht IH]; intros [|i]; cbn [upd]; constructor; auto.
Qed.

Lemma at_ok b i : bytes_ok b -> isbyte (at_ b i).
Proof.
  intros Hb. unfold at_. revert i; induction Hb as [|x t Hx Ht IH]; intros [|i]; cbn [nth]; auto;
  unfold isbyte; lia.
Qed.

Lemma fit_id k b : length b = k -> fit k b = b.
Proof.
  revert b; induction k as [|k IH]; intros [|x t] H; cbn in *; try discriminate; auto.
  f_equal. apply IH. lia.
Qed.

Lemma firstn_ok n b : bytes_ok b -> bytes_ok (firstn n b).
Proof. intros H. revert n; induction H; intros [|n]; cbn [firstn]; constructor; auto. Qed.

(* ---- the carry chain *)
Lemma land255 x : N.land x 255 = x mod 256.
Proof. change 255 with (N.ones 8). rewrite N.land_ones. reflexivity. Qed.
Lemma shiftr8 x : N.shiftr x 8 = x / 256.
Proof. rewrite N.shiftr_div_pow2. reflexivity. Qed.

Local Opaque N.shiftr N.land N.lor.

Lemma add_chain_spec a : forall f sum r s,
  length a = length f ->
  add_chain a f sum = (r, s) ->
  le2n r + p256 (length a) * N.shiftr s 8 = le2n a + le2n f + N.shiftr sum 8 /\
  length r = length a /\ bytes_ok r.
Proof.
  induction a as [|x a IH]; intros f sum r s Hlen H.
  - destruct f; [|discriminate]. cbn in H. inversion H; subst.
    cbn [le2n length]. rewrite p256_0. split; [lia|]. split; [reflexivity|constructor].
  - destruct f as [|y f]; [discriminate|]. cbn [add_chain] in H.
    destruct (add_chain a f (x + y + N.shiftr sum 8)) as [r' s'] eqn:E.
    inversion H; subst; clear H.
    cbn [length] in Hlen.
    destruct (IH f _ _ _ ltac:(lia) E) as (I1 & I2 & I3).
    cbn [le2n length]. rewrite p256_S.
    rewrite land255. rewrite !shiftr8 in *.
    remember (sum / 256) as c eqn:Ec. remember (x + y + c) as S' eqn:ES.
    split; [|split].
    + pose proof (N.div_mod S' 256 ltac:(discriminate)) as D.
      remember (S' / 256) as q eqn:Eq. remember (S' mod 256) as m eqn:Em.
      rewrite <- N.mul_assoc.
      remember (p256 (length a) * N.shiftr s 8) as PT eqn:EPT.
      clear Ec Eq Em EPT E IH. lia.
    + lia.
    + constructor; [unfold isbyte; apply N.mod_lt; discriminate|exact I3].
Qed.

Lemma add32_chain a f : length a = 32%nat -> length f = 32%nat -> add32 a f = add_chain a f 0.
Proof.
  intros Ha Hf.
  do 32 (destruct a as [|? a]; [discriminate|]). destruct a; [|discriminate].
  do 32 (destruct f as [|? f]; [discriminate|]). destruct f; [|discriminate].
  reflexivity.
Qed.

Definition two256 : N := 2 ^ 256.
Lemma p256_32 : p256 32 = two256. Proof. reflexivity. Qed.

(* c28_byte_add *)
Lemma byte_add a f : length a = 32%nat -> length f = 32%nat -> bytes_ok a -> bytes_ok f ->
  forall r sum, add32 a f = (r, sum) ->
    le2n r = (le2n a + le2n f) mod two256 /\
    (N.shiftr sum 8 =? 0) = (le2n a + le2n f <? two256) /\
    length r = 32%nat /\ bytes_ok r.
Proof.
  intros Ha Hf Oa Of r sum H. rewrite add32_chain in H by assumption.
  destruct (add_chain_spec a f 0 r sum ltac:(lia) H) as (I1 & I2 & I3).
  rewrite Ha in *. rewrite p256_32 in I1.
  pose proof (le2n_bound r I3) as Br. rewrite I2, p256_32 in Br.
  change (N.shiftr 0 8) with 0 in I1.
  set (c := N.shiftr sum 8) in *. set (A := le2n a) in *. set (F := le2n f) in *. set (R := le2n r) in *.
  assert (Hq : A + F = two256 * c + R) by lia.
  split; [|split; [|split; assumption]].
  - rewrite Hq. rewrite N.mul_comm, N.add_comm. rewrite N.mod_add by (unfold two256; discriminate).
    symmetry. apply N.mod_small. exact Br.
  - unfold two256 in *. destruct (N.eq_dec c 0) as [->|Hc].
    + cbn [N.eqb]. symmetry. apply N.ltb_lt. lia.
    + rewrite (proj2 (N.eqb_neq c 0) Hc). symmetry. apply N.ltb_ge. nia.
Qed.

(* ---- pruning *)
Lemma land_le_byte : forall m x, isbyte x -> isbyte (N.land x m).
Proof.
  intros m x Hx. unfold isbyte in *.
  destruct (N.eq_dec x 0) as [->|Hx0]; [rewrite N.land_0_l; lia|].
  apply N.lt_le_trans with (2 ^ 8); [|cbn; lia].
  destruct (N.eq_dec (N.land x m) 0) as [->|Hne]; [cbn; lia|].
  apply N.log2_lt_pow2; [lia|].
  apply N.le_lt_trans with (N.log2 x).
  - eapply N.le_trans; [apply N.log2_land|]. apply N.le_min_l.
  - apply N.log2_lt_pow2; [lia|]. cbn. lia.
Qed.

Lemma prune_last : forall x, isbyte x -> (64 <=? N.lor (N.land x 31) 64) && (N.lor (N.land x 31) 64 <? 96) = true.
Proof. apply byte_forall. vm_compute. reflexivity. Qed.

Lemma land1_le : forall x, isbyte x -> (N.land x 1 <? 2) = true.
Proof. apply byte_forall. vm_compute. reflexivity. Qed.

Ltac destr32 s H :=
  do 32 (destruct s as [|? s]; [discriminate H|]); destruct s; [|discriminate H].

Ltac inv_forall H :=
  repeat match type of H with
         | Forall isbyte (_ :: _) => let h := fresh "Hb" in
                                apply Forall_cons_iff in H; destruct H as [h H]
         end.

Lemma prune_root_spec s : length s = 32%nat -> bytes_ok s ->
  length (prune_root s) = 32%nat /\ bytes_ok (prune_root s) /\
  2 ^ 254 <= le2n (prune_root s) < 2 ^ 254 + 2 ^ 253.
Proof.
  intros Hl Ho. split; [|split].
  - unfold prune_root. rewrite !upd_length. exact Hl.
  - unfold prune_root.
    assert (Hs1 : bytes_ok (upd 0 (N.land (at_ s 0) 248) s)).
    { apply upd_ok; [apply land_le_byte, at_ok; exact Ho|exact Ho]. }
    assert (Hs2 : bytes_ok (upd 31 (N.land (at_ (upd 0 (N.land (at_ s 0) 248) s) 31) 31) (upd 0 (N.land (at_ s 0) 248) s))).
    { apply upd_ok; [apply land_le_byte, at_ok; exact Hs1|exact Hs1]. }
    apply upd_ok; [|exact Hs2].
    set (z := at_ _ 31). assert (Hz : isbyte z) by (apply at_ok; exact Hs2).
    clearbody z. clear - Hz.
    revert z Hz.
    assert (G : forall z, isbyte z -> (N.lor z 64 <? 256) = true -> isbyte (N.lor z 64)).
    { intros z _ H. unfold isbyte. apply N.ltb_lt. exact H. }
    intros z Hz. apply G; [exact Hz|].
    (* z is a byte, but we only know that: show lor z 64 < 256 by enumeration *)
    revert z Hz. apply byte_forall. vm_compute. reflexivity.
  - destr32 s Hl. inv_forall Ho.
    unfold prune_root. cbn [upd at_ nth].
    match goal with |- context [N.lor (N.land ?x 31) 64] =>
      pose proof (prune_last x ltac:(assumption)) as PL; set (top := N.lor (N.land x 31) 64) in * end.
    match goal with |- context [N.land ?x 248] =>
      pose proof (land_le_byte 248 x ltac:(assumption)) as P0; set (low := N.land x 248) in * end.
    apply andb_prop in PL. destruct PL as [PL1 PL2].
    apply N.leb_le in PL1. apply N.ltb_lt in PL2.
    cbn [le2n]. unfold isbyte in *.
    clearbody top low.
    split; lia.
Qed.

Lemma prune_int_spec f : length f = 32%nat -> bytes_ok f ->
  length (prune_int f) = 32%nat /\ bytes_ok (prune_int f) /\ le2n (prune_int f) < 2 ^ 233.
Proof.
  intros Hl Ho. split; [|split].
  - unfold prune_int. rewrite !upd_length. exact Hl.
  - unfold prune_int.
    assert (Z0 : isbyte 0) by (unfold isbyte; lia).
    assert (Hs1 : bytes_ok (upd 0 (N.land (at_ f 0) 248) f)).
    { apply upd_ok; [apply land_le_byte, at_ok; exact Ho|exact Ho]. }
    apply upd_ok; [exact Z0|]. apply upd_ok; [exact Z0|].
    apply upd_ok; [apply land_le_byte, at_ok; exact Hs1|exact Hs1].
  - destr32 f Hl. inv_forall Ho.
    unfold prune_int. cbn [upd at_ nth].
    match goal with |- context [N.land ?x 1] =>
      pose proof (land1_le x ltac:(assumption)) as P1; set (top := N.land x 1) in * end.
    match goal with |- context [N.land ?x 248] =>
      pose proof (land_le_byte 248 x ltac:(assumption)) as P0; set (low := N.land x 248) in * end.
    apply N.ltb_lt in P1.
    cbn [le2n]. unfold isbyte in *.
    clearbody top low.
    lia.
Qed.
