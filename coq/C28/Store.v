(* C28 — executable model of the key store as a whole:
     /repo/blockchain/pseudohsm/pseudohsm.go  (XCreate / ImportKeyFromMnemonic, LoadChainKDKey, XSign,
                                               ResetPassword, UpdateKeyAlias, XDelete, loadDecryptedKey)
     /repo/blockchain/pseudohsm/keycache.go   (find, hasAlias, hasKey, add, delete, reload)
     /repo/blockchain/pseudohsm/image.go      (Backup, Restore)
   NO PROOFS HERE.

   A store is the list of its key files in file-name order (= creation order: the name starts with
   the creation time).  An entry is what the key cache knows about a file (xpub, alias) plus the
   file itself ([keyfile] of Model.v; the file's own alias field is [kf_alias]).  The cache is
   rebuilt from the files by [reload] (at most every 2 s, and on every Restore): after any
   sequence of whole operations the cache alias equals the file alias (c28_store_alias_consistent),
   so reloading changes nothing.  XCreate / ImportKeyFromMnemonic / UpdateKeyAlias / ResetPassword /
   LoadChainKDKey (XSign) / Restore each run entirely under the HSM lock cacheMu: however their
   callers interleave, the store sees a sequence of whole operations.
   The file replaced by ResetPassword / UpdateKeyAlias and removed by XDelete is the one
   [find] returned, which is the only entry with that xpub.
   Several stores (directories) are kept by number; Backup of one store is restored into another
   (the JSON round trip of the image is the identity on these fields). *)
From Coq Require Import List NArith Bool Arith.
From Verif Require Import Outcome Cmp.
From C28 Require Import Model.
Import ListNotations.
Open Scope N_scope.

Record sentry := { se_xpub : bytes; se_alias : bytes; se_kf : keyfile }.
Definition store := list sentry.

(* error classes: ErrLoadKey, ErrDecrypt, "key content mismatch", AmbiguousKeyError, ErrDuplicateKeyAlias *)
Inductive serr := SELoad | SEDecrypt | SEMismatch | SEAmbiguous | SEDupAlias.
Inductive sres (A : Type) := SOk (a : A) | SErr (e : serr).
Arguments SOk {A} a.
Arguments SErr {A} e.

Inductive found (A : Type) := FOne (e : A) | FNone | FMany.
Arguments FOne {A} e.
Arguments FNone {A}.
Arguments FMany {A}.

(* keyCache.find on the candidates byPubs[xpub] *)
Definition pick {A} (l : list A) : found A :=
  match l with [] => FNone | [e] => FOne e | _ => FMany end.

(* copy(xprv[:], raw): a key is a [64]byte *)
Definition key_of (raw : bytes) : xprv := (firstn 32 (fit 64 raw), skipn 32 (fit 64 raw)).

Definition with_alias (f : keyfile) (a : bytes) : keyfile :=
  {| kf_ct := kf_ct f; kf_iv := kf_iv f; kf_salt := kf_salt f; kf_mac := kf_mac f; kf_alias := a |}.

Section STORE.
  Variable G : Type.
  Variable smul : N -> G.
  Variable encode : G -> bytes.
  Variable kdf : bytes -> bytes -> bytes.
  Variable ctr : bytes -> bytes -> nat -> bytes.
  Variable mac_hash : bytes -> bytes.

  (* hex(key.XPub) of the key file / the cache key *)
  Definition xpub_bytes (k : xprv) : bytes :=
    let xp := xpub_of G smul encode k in fst xp ++ snd xp.

  Definition is_xpub (xp : bytes) (e : sentry) : bool := bytes_eqb (se_xpub e) xp.
  Definition find (st : store) (xp : bytes) : found sentry := pick (filter (is_xpub xp) st).
  Definition has_alias (st : store) (a : bytes) : bool := existsb (fun e => bytes_eqb (se_alias e) a) st.
  Definition has_key (st : store) (xp : bytes) : bool := existsb (is_xpub xp) st.

  (* the file found is rewritten (ResetPassword: the cache is not touched) / the file is
     rewritten and its cache entry replaced (UpdateKeyAlias) / file and cache entry removed *)
  Definition put_file (st : store) (xp : bytes) (f : keyfile) : store :=
    map (fun e' => if is_xpub xp e'
                   then {| se_xpub := se_xpub e'; se_alias := se_alias e'; se_kf := f |} else e') st.
  Definition put (st : store) (xp : bytes) (e : sentry) : store :=
    map (fun e' => if is_xpub xp e' then e else e') st.
  Definition drop (st : store) (xp : bytes) : store := filter (fun e' => negb (is_xpub xp e')) st.

  (* HSM.loadDecryptedKey: find, then keyStorePassphrase.GetKey(alias of the cache, file, auth) *)
  Definition load_dec (st : store) (xp pw : bytes) : sres (sentry * xprv) :=
    match find st xp with
    | FOne e =>
        match decrypt_key kdf ctr mac_hash (se_kf e) pw with
        | Ok k => if bytes_eqb (kf_alias (se_kf e)) (se_alias e) then SOk (e, k) else SErr SEMismatch
        | _ => SErr SEDecrypt
        end
    | FNone => SErr SELoad
    | FMany => SErr SEAmbiguous
    end.

  (* HSM.LoadChainKDKey: every error becomes ErrLoadKey *)
  Definition s_load (st : store) (xp pw : bytes) : sres xprv :=
    match load_dec st xp pw with SOk (_, k) => SOk k | SErr _ => SErr SELoad end.

  (* XCreate / ImportKeyFromMnemonic (the key comes from the mnemonic; salt and iv are the two
     reads of the random source in EncryptKey).  There is no check that the key is new. *)
  Definition s_create (st : store) (k : xprv) (alias pw salt iv : bytes) : sres store :=
    if has_alias st alias then SErr SEDupAlias
    else SOk (st ++ [{| se_xpub := xpub_bytes k; se_alias := alias;
                        se_kf := encrypt_key kdf ctr mac_hash k alias pw salt iv |}]).

  (* ResetPassword (under the HSM lock cacheMu, like UpdateKeyAlias and LoadChainKDKey/XSign, since
     the repair e8f4d605): loadDecryptedKey; StoreKey(file, key, newAuth).  The key and its alias are
     those DecryptKey returned (the alias of the FILE); the cache entry is left as it is.  The
     pinned tree did not hold the lock between the read and the write: C28/History.v *)
  Definition s_reset (st : store) (xp old new salt iv : bytes) : sres store :=
    match load_dec st xp old with
    | SOk (e, k) => SOk (put_file st xp (encrypt_key kdf ctr mac_hash k (kf_alias (se_kf e)) new salt iv))
    | SErr e => SErr e
    end.

  (* UpdateKeyAlias: find, read the file, replace its alias, write it, update the cache *)
  Definition s_alias (st : store) (xp na : bytes) : sres store :=
    match find st xp with
    | FOne e =>
        if has_alias st na then SErr SEDupAlias
        else SOk (put st xp {| se_xpub := se_xpub e; se_alias := na; se_kf := with_alias (se_kf e) na |})
    | FNone => SErr SELoad
    | FMany => SErr SEAmbiguous
    end.

  (* XDelete *)
  Definition s_delete (st : store) (xp pw : bytes) : sres store :=
    match load_dec st xp pw with
    | SOk _ => SOk (drop st xp)
    | SErr e => SErr e
    end.

  (* Backup: every key file, decoded into a buffer of its own *)
  Definition s_backup (st : store) : store :=
    map (fun e => {| se_xpub := se_xpub e; se_alias := kf_alias (se_kf e); se_kf := se_kf e |}) st.

  (* Restore: entry by entry; a key that is there is skipped, a taken alias stops the restore
     (the entries before it stay); after each file the cache is reloaded from the files *)
  Fixpoint s_restore (st : store) (img : store) : store * bool :=
    match img with
    | [] => (st, true)
    | e :: r =>
        if has_key st (se_xpub e) then s_restore st r
        else if has_alias st (se_alias e) then (st, false)
        else s_restore (st ++ [e]) r
    end.

  (* HSM.XSign *)
  Variable hmac512 : bytes -> bytes -> bytes.
  Variable sha512 : bytes -> bytes.
  Definition s_xsign (st : store) (xp : bytes) (path : list bytes) (msg pw : bytes) : outcome serr bytes :=
    match s_load st xp pw with
    | SOk k =>
        match derive_prv G smul encode hmac512 k path with
        | Ok k' => Ok (sign G smul encode hmac512 sha512 k' msg)
        | Err _ => Err SELoad
        | Panic p => Panic p
        end
    | SErr e => Err e
    end.
End STORE.

(* ---------------------------------------------------------------- several stores, operation sequences *)

Fixpoint getst {A} (s : list (N * list A)) (sid : N) : list A :=
  match s with
  | [] => []
  | (i, st) :: r => if i =? sid then st else getst r sid
  end.
Fixpoint setst {A} (s : list (N * list A)) (sid : N) (st : list A) : list (N * list A) :=
  match s with
  | [] => [(sid, st)]
  | (i, x) :: r => if i =? sid then (i, st) :: r else (i, x) :: setst r sid st
  end.

Inductive sop :=
| SCreate (sid : N) (raw alias pw salt iv : bytes)
| SLoad (sid : N) (xp pw : bytes)
| SReset (sid : N) (xp old new salt iv : bytes)
| SAlias (sid : N) (xp na : bytes)
| SDelete (sid : N) (xp pw : bytes)
| SBackup (sid : N)
| SRestore (src dst : N).

Definition ecode (e : serr) : bytes :=
  [3; match e with SELoad => 1 | SEDecrypt => 0 | SEMismatch => 2 | SEAmbiguous => 4 | SEDupAlias => 3 end].

(* one byte string for a field list: every field preceded by its length (all below 256) *)
Definition lp (b : bytes) : bytes := N.of_nat (length b) :: b.
Definition obs_entry (e : sentry) : bytes :=
  lp (se_xpub e) ++ lp (se_alias e) ++ lp (kf_ct (se_kf e)) ++ lp (kf_iv (se_kf e)) ++
  lp (kf_salt (se_kf e)) ++ lp (kf_mac (se_kf e)) ++ lp (kf_alias (se_kf e)).
Definition obs_store (st : store) : bytes := 1 :: concat (map obs_entry st).

Section SYS.
  Variable G : Type.
  Variable smul : N -> G.
  Variable encode : G -> bytes.
  Variable kdf : bytes -> bytes -> bytes.
  Variable ctr : bytes -> bytes -> nat -> bytes.
  Variable mac_hash : bytes -> bytes.

  Definition rsys := list (N * store).

  Definition upd_res (s : rsys) (sid : N) (r : sres store) : rsys * bytes :=
    match r with
    | SOk st' => (setst s sid st', obs_store st')
    | SErr e => (s, ecode e)
    end.

  (* one operation: the new state and what the caller observes (for a successful write, the
     files of the store afterwards) *)
  Definition step (s : rsys) (o : sop) : rsys * bytes :=
    match o with
    | SCreate sid raw alias pw salt iv =>
        upd_res s sid (s_create G smul encode kdf ctr mac_hash (getst s sid) (key_of raw) alias pw salt iv)
    | SLoad sid xp pw =>
        (s, match s_load kdf ctr mac_hash (getst s sid) xp pw with
            | SOk k => 1 :: fst k ++ snd k
            | SErr e => ecode e
            end)
    | SReset sid xp old new salt iv =>
        upd_res s sid (s_reset kdf ctr mac_hash (getst s sid) xp old new salt iv)
    | SAlias sid xp na => upd_res s sid (s_alias (getst s sid) xp na)
    | SDelete sid xp pw => upd_res s sid (s_delete kdf ctr mac_hash (getst s sid) xp pw)
    | SBackup sid => (s, obs_store (s_backup (getst s sid)))
    | SRestore src dst =>
        let (st', ok) := s_restore (getst s dst) (s_backup (getst s src)) in
        (setst s dst st', (if ok then 1 else 3) :: obs_store st')
    end.

  Fixpoint run (s : rsys) (ops : list sop) : rsys * list bytes :=
    match ops with
    | [] => (s, [])
    | o :: r => let (s1, b) := step s o in let (s2, bs) := run s1 r in (s2, b :: bs)
    end.
End SYS.
