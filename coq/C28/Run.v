(* C28 — running the model on the correspondence cases.  No proofs here.

   The Section variables of the model (group, HMAC-SHA512, SHA-512, scrypt, AES-CTR,
   SHA-256) are instantiated with FINITE TABLES computed by the harness with the Go
   standard library / ecmath for exactly the arguments that occur in the case; a group
   element is represented by its 32-byte encoding.  A lookup that misses (the model
   asks for a value the code never computed) yields [] and therefore a mismatch.  The
   key-file MAC hash is run for real (Verif.Sha3.sha3_256).
   What the run checks bit-exactly is everything the model itself computes: pruning,
   the carry chain, the panic condition, which HMAC/SHA inputs are formed from which
   bytes, reduction mod L, (h*a + r) mod L, the checks of Verify, key-file MAC and
   XOR, password / alias handling. *)
From Coq Require Import List NArith Bool Arith.
From Verif Require Import Outcome Cmp Sha3.
From C28 Require Import Model Store.
Import ListNotations.
Open Scope N_scope.

(* a byte string written as (length, little-endian number); same value as [n2le k n],
   computed with shifts (division of a 500-bit number is slow under vm_compute) *)
Fixpoint X (k : nat) (n : N) : bytes :=
  match k with O => [] | S k' => N.land n 255 :: X k' (N.shiftr n 8) end.

Record tabs := {
  t_hmac : list (bytes * bytes * bytes);     (* key, message, result *)
  t_sha : list (bytes * bytes);              (* SHA-512 *)
  t_smul : list (N * bytes);                 (* n, Encode(n*B) *)
  t_gadd : list (bytes * bytes * bytes);
  t_gneg : list (bytes * bytes);
  t_gmul : list (N * bytes * bytes);         (* k, P, k*P *)
  t_dec : list bytes;                        (* encodings accepted by Decode *)
  t_kdf : list (bytes * bytes * bytes);      (* password, salt, derived key *)
  t_ctr : list (bytes * bytes * bytes)       (* key, iv, key stream prefix *)
}.

Fixpoint look1 {V} (eq : bytes -> bytes -> bool) (k : bytes) (t : list (bytes * V)) (d : V) : V :=
  match t with
  | [] => d
  | (k', v) :: r => if eq k k' then v else look1 eq k r d
  end.
Fixpoint look2 (a b : bytes) (t : list (bytes * bytes * bytes)) : bytes :=
  match t with
  | [] => []
  | (a', b', v) :: r => if bytes_eqb a a' && bytes_eqb b b' then v else look2 a b r
  end.
Fixpoint lookn (n : N) (t : list (N * bytes)) : bytes :=
  match t with
  | [] => []
  | (n', v) :: r => if n =? n' then v else lookn n r
  end.
Fixpoint looknb (n : N) (b : bytes) (t : list (N * bytes * bytes)) : bytes :=
  match t with
  | [] => []
  | (n', b', v) :: r => if (n =? n') && bytes_eqb b b' then v else looknb n b r
  end.

Section RUN.
  Variable T : tabs.
  Definition Gt := bytes.
  Definition gadd_t (p q : Gt) : Gt := look2 p q (t_gadd T).
  Definition gneg_t (p : Gt) : Gt := look1 bytes_eqb p (t_gneg T) [].
  Definition smul_t (n : N) : Gt := lookn n (t_smul T).
  Definition gmul_t (k : N) (p : Gt) : Gt := looknb k p (t_gmul T).
  Definition encode_t (p : Gt) : bytes := p.
  Definition decode_t (b : bytes) : option Gt :=
    if existsb (bytes_eqb b) (t_dec T) then Some b else None.
  Definition hmac_t (k m : bytes) : bytes := look2 k m (t_hmac T).
  Definition sha_t (m : bytes) : bytes := look1 bytes_eqb m (t_sha T) [].
  Definition kdf_t (pw salt : bytes) : bytes := look2 pw salt (t_kdf T).
  Definition ctr_t (k iv : bytes) (n : nat) : bytes := firstn n (look2 k iv (t_ctr T)).
  Definition sha256_t (m : bytes) : bytes := sha3_256 m.   (* the executable SHA3-256 of coq/lib *)

  Definition flat (x : bytes * bytes) : bytes := fst x ++ snd x.
  Definition oc (o : outcome kerr bytes) : bytes :=
    match o with
    | Ok b => 1 :: b
    | Panic _ => [2]
    | Err ErrDecrypt => [3; 0]
    | Err ErrLoadKey => [3; 1]
    | Err ErrAlias => [3; 2]
    end.
  Definition omap {A B} (f : A -> B) (o : outcome kerr A) : outcome kerr B :=
    match o with Ok a => Ok (f a) | Err e => Err e | Panic p => Panic p end.
  Definition ob (b : bool) : bytes := if b then [1] else [0].

  Definition m_xpub := xpub_of Gt smul_t encode_t.
  Definition m_derive_prv := derive_prv Gt smul_t encode_t hmac_t.
  Definition m_derive_pub := derive_pub Gt gadd_t smul_t encode_t decode_t hmac_t.

  (* derivation from a key: the key, its xpub, the derived xprv, its xpub, the xpub
     derived directly from the parent xpub *)
  Definition obs_derive (x : xprv) (path : list bytes) : list bytes :=
    let d := m_derive_prv x path in
    [ flat x; flat (m_xpub x); oc (omap flat d); oc (omap (fun y => flat (m_xpub y)) d);
      oc (omap flat (m_derive_pub (m_xpub x) path)) ].

  Definition run_seed (seed : bytes) (path : list bytes) : list bytes :=
    obs_derive (root_xprv hmac_t seed) path.
  Definition run_raw (raw : bytes) (path : list bytes) : list bytes :=
    obs_derive (firstn 32 raw, skipn 32 raw) path.

  (* signing: the signature, then the result of every verification attempt (pk, msg, sig) *)
  Definition m_sign := sign Gt smul_t encode_t hmac_t sha_t.
  Definition m_verify := verify Gt gadd_t gneg_t smul_t gmul_t encode_t decode_t sha_t.
  Definition run_sign (raw : bytes) (path : list bytes) (msg : bytes)
             (att : list (bytes * bytes * bytes)) : list bytes :=
    match m_derive_prv (firstn 32 raw, skipn 32 raw) path with
    | Ok k =>
        [1] :: flat (m_xpub k) :: m_sign k msg ::
          map (fun a => match a with (pk, m, sg) => ob (m_verify pk m sg) end) att
    | _ => [[2]]
    end.

  (* key store: one stored key, then operations on (possibly tampered) copies of the file *)
  Inductive ksop :=
  | ODecrypt (f : keyfile) (pw : bytes)                                   (* DecryptKey *)
  | OLoad (f : keyfile) (alias pw : bytes)                                (* LoadChainKDKey *)
  | OXSign (f : keyfile) (alias : bytes) (path : list bytes) (msg pw : bytes).  (* XSign *)

  Definition KF (ct iv salt mac alias : bytes) : keyfile :=
    {| kf_ct := ct; kf_iv := iv; kf_salt := salt; kf_mac := mac; kf_alias := alias |}.

  Definition run_op (o : ksop) : bytes :=
    match o with
    | ODecrypt f pw => oc (omap flat (decrypt_key kdf_t ctr_t sha256_t f pw))
    | OLoad f alias pw => oc (omap flat (load_key kdf_t ctr_t sha256_t f alias pw))
    | OXSign f alias path msg pw =>
        oc (xsign Gt smul_t encode_t hmac_t sha_t kdf_t ctr_t sha256_t f alias path msg pw)
    end.

  Definition run_ks (raw alias pw salt iv : bytes) (ops : list ksop) : list bytes :=
    let f := encrypt_key kdf_t ctr_t sha256_t (firstn 32 raw, skipn 32 raw) alias pw salt iv in
    kf_ct f :: kf_mac f :: map run_op ops.

  (* the key store as a whole (C28/Store.v): a sequence of operations over several stores, all
     empty at the start; one observation per operation *)
  Definition run_store (ops : list sop) : list bytes :=
    snd (run Gt smul_t encode_t kdf_t ctr_t sha256_t [] ops).
End RUN.

Definition obs_eqb : list bytes -> list bytes -> bool := list_eqb bytes_eqb.
