(* C28 — the key store as a whole: the model of the implementation (C28/Store.v) refines the
   book (C28/StoreSpec.v); live keys open with their current password; the two refutations. *)
From Coq Require Import List NArith Bool Arith Lia.
From Verif Require Import Outcome Cmp.
From C28 Require Import Model Bytes Proofs Store StoreSpec.
Import ListNotations.
Open Scope N_scope.

(* [partial] a password that derives another scrypt key never yields the MAC of the file: the
   MAC covers bytes 16..32 of the scrypt key and the ciphertext only, so this is collision
   resistance of the MAC hash together with "two scrypt keys do not agree on their second half
   only" (c28_keystore states the same fact as a disjunction) *)
Definition mac_ideal (kdf : bytes -> bytes -> bytes) (mac_hash : bytes -> bytes) : Prop :=
  forall pw pw' salt ct, kdf pw' salt <> kdf pw salt ->
    mac_of mac_hash (kdf pw' salt) ct <> mac_of mac_hash (kdf pw salt) ct.

(* ---- lists ---- *)
Lemma filter_map_comm {A B} (f : A -> B) (p : B -> bool) (q : A -> bool) l :
  (forall a, p (f a) = q a) -> filter p (map f l) = map f (filter q l).
Proof.
  intros H. induction l as [|a l IH]; cbn; [reflexivity|].
  rewrite H. destruct (q a); cbn; rewrite IH; reflexivity.
Qed.

Lemma existsb_map_comm {A B} (f : A -> B) (p : B -> bool) (q : A -> bool) l :
  (forall a, p (f a) = q a) -> existsb p (map f l) = existsb q l.
Proof. intros H. induction l as [|a l IH]; cbn; [reflexivity|]. rewrite H, IH. reflexivity. Qed.

Lemma pick_map {A B} (f : A -> B) (l : list A) :
  pick (map f l) = match pick l with FOne a => FOne (f a) | FNone => FNone | FMany => FMany end.
Proof. destruct l as [|a [|b l]]; reflexivity. Qed.

Lemma pick_one_in {A} (l : list A) a : pick l = FOne a -> l = [a].
Proof. destruct l as [|x [|y l]]; cbn; intros H; try discriminate. injection H as ->. reflexivity. Qed.

Lemma filter_single {A} (p : A -> bool) l g :
  filter p l = [g] -> forall x, In x l -> p x = true -> x = g.
Proof.
  intros H x Hin Hp. assert (Hf : In x (filter p l)) by (apply filter_In; split; assumption).
  rewrite H in Hf. destruct Hf as [->|[]]. reflexivity.
Qed.

Lemma map_if_single {A B} (p : A -> bool) (h : A -> B) (c : B) (d : A -> B) l g :
  filter p l = [g] -> h g = c ->
  map (fun x => if p x then h x else d x) l = map (fun x => if p x then c else d x) l.
Proof.
  intros H E. apply map_ext_in. intros x Hin. destruct (p x) eqn:P; [|reflexivity].
  rewrite (filter_single p l g H x Hin P). exact E.
Qed.

Lemma nodup_snoc_list {A} (l : list A) x : NoDup l -> ~ In x l -> NoDup (l ++ [x]).
Proof.
  induction l as [|a l IH]; intros Nd Hn; cbn.
  - constructor; [intros []|constructor].
  - inversion Nd as [|? ? Ha Nd']; subst. constructor.
    + intros Hin. apply in_app_or in Hin. destruct Hin as [Hin|[->|[]]]; [contradiction|].
      apply Hn. left. reflexivity.
    + apply IH; [exact Nd'|]. intros Hin. apply Hn. right. exact Hin.
Qed.

Lemma getst_map {A B} (f : list A -> list B) (Hn : f [] = []) (s : list (N * list A)) sid :
  getst (map (fun p => (fst p, f (snd p))) s) sid = f (getst s sid).
Proof.
  induction s as [|[i x] s IH]; cbn; [symmetry; exact Hn|].
  destruct (i =? sid); [reflexivity|exact IH].
Qed.

Lemma setst_map {A B} (f : list A -> list B) (s : list (N * list A)) sid st :
  setst (map (fun p => (fst p, f (snd p))) s) sid (f st) = map (fun p => (fst p, f (snd p))) (setst s sid st).
Proof.
  induction s as [|[i x] s IH]; cbn; [reflexivity|].
  destruct (i =? sid); cbn; [reflexivity|]. rewrite IH. reflexivity.
Qed.

Lemma getst_setst {A} (s : list (N * list A)) sid st i :
  getst (setst s sid st) i = if sid =? i then st else getst s i.
Proof.
  induction s as [|[j y] s IH]; cbn.
  - destruct (sid =? i); reflexivity.
  - destruct (j =? sid) eqn:E; cbn.
    + apply N.eqb_eq in E. subst j. destruct (sid =? i); reflexivity.
    + rewrite IH. destruct (j =? i) eqn:E2; [|reflexivity].
      apply N.eqb_eq in E2. subst j. rewrite N.eqb_sym, E. reflexivity.
Qed.

Lemma bytes_eqb_false a b : a <> b -> bytes_eqb a b = false.
Proof. intros H. destruct (bytes_eqb a b) eqn:E; [|reflexivity]. apply bytes_eqb_eq in E. contradiction. Qed.

Lemma fit_length k : forall b, length (fit k b) = k.
Proof. induction k as [|k IH]; intros [|x b]; cbn; try reflexivity; rewrite IH; reflexivity. Qed.

Lemma key_of_wf raw : wf64 (key_of raw).
Proof.
  unfold wf64, key_of. cbn [fst snd]. split.
  - rewrite firstn_length, fit_length. reflexivity.
  - rewrite skipn_length, fit_length. reflexivity.
Qed.

Section REF.
  Variable G : Type.
  Variable smul : N -> G.
  Variable encode : G -> bytes.
  Variable kdf : bytes -> bytes -> bytes.
  Variable ctr : bytes -> bytes -> nat -> bytes.
  Variable mac_hash : bytes -> bytes.
  Hypothesis ctr_len : forall k iv n, length (ctr k iv n) = n.
  Hypothesis Hmac : mac_ideal kdf mac_hash.

  Notation xpb := (xpub_bytes G smul encode).
  Notation realize := (realize G smul encode kdf ctr mac_hash).
  Notation realize_sys := (realize_sys G smul encode kdf ctr mac_hash).
  Notation g_xpub := (g_xpub G smul encode).
  Notation g_is := (g_is G smul encode).
  Notation g_find := (g_find G smul encode).
  Notation g_has_key := (g_has_key G smul encode).
  Notation g_put := (g_put G smul encode).
  Notation g_drop := (g_drop G smul encode).
  Notation pw_ok := (pw_ok kdf).
  Notation g_load_dec := (g_load_dec G smul encode kdf).
  Notation g_load := (g_load G smul encode kdf).
  Notation g_reset := (g_reset G smul encode kdf).
  Notation g_realias := (g_realias G smul encode).
  Notation g_delete := (g_delete G smul encode kdf).
  Notation g_restore := (g_restore G smul encode).
  Notation g_obs := (g_obs G smul encode kdf ctr mac_hash).
  Notation gstep := (gstep G smul encode kdf ctr mac_hash).
  Notation grun := (grun G smul encode kdf ctr mac_hash).
  Notation load_dec := (load_dec kdf ctr mac_hash).
  Notation s_load := (s_load kdf ctr mac_hash).
  Notation s_create := (s_create G smul encode kdf ctr mac_hash).
  Notation s_reset := (s_reset kdf ctr mac_hash).
  Notation s_delete := (s_delete kdf ctr mac_hash).
  Notation step := (step G smul encode kdf ctr mac_hash).
  Notation run := (run G smul encode kdf ctr mac_hash).

  Definition wfg (g : gentry) : Prop := wf64 (g_key g).
  Definition wfst (gst : gstore) : Prop := forall g, In g gst -> wfg g.
  Definition wfsys (gs : gsys) : Prop := forall sid, wfst (getst gs sid).

  (* ---- one file ---- *)
  Lemma decrypt_realized g pw : wfg g ->
    decrypt_key kdf ctr mac_hash (se_kf (realize g)) pw =
    if pw_ok g pw then Ok (g_key g) else Err ErrDecrypt.
  Proof.
    intros W. unfold StoreSpec.pw_ok. cbn [StoreSpec.realize se_kf].
    destruct (bytes_eqb (kdf pw (g_salt g)) (kdf (g_pw g) (g_salt g))) eqn:E.
    - apply bytes_eqb_eq in E. apply same_kdf; assumption.
    - unfold Model.decrypt_key, Model.encrypt_key. cbn [kf_ct kf_iv kf_salt kf_mac].
      rewrite bytes_eqb_false; [reflexivity|].
      apply Hmac. intros A. rewrite A, bytes_eqb_refl in E. discriminate.
  Qed.

  (* ---- one store ---- *)
  Lemma is_real xp g : is_xpub xp (realize g) = g_is xp g.
  Proof. reflexivity. Qed.

  Lemma find_real gst xp :
    find (map realize gst) xp =
    match g_find gst xp with FOne g => FOne (realize g) | FNone => FNone | FMany => FMany end.
  Proof.
    unfold find, StoreSpec.g_find.
    rewrite (filter_map_comm realize (is_xpub xp) (g_is xp)) by (intros; apply is_real).
    apply pick_map.
  Qed.

  Lemma has_alias_real gst a : has_alias (map realize gst) a = g_has_alias gst a.
  Proof. apply existsb_map_comm. reflexivity. Qed.

  Lemma has_key_real gst xp : has_key (map realize gst) xp = g_has_key gst xp.
  Proof. apply existsb_map_comm. intros; apply is_real. Qed.

  Lemma put_real gst xp g : put (map realize gst) xp (realize g) = map realize (g_put gst xp g).
  Proof.
    unfold put, StoreSpec.g_put. rewrite !map_map. apply map_ext. intros g'.
    rewrite is_real. destruct (g_is xp g'); reflexivity.
  Qed.

  Lemma drop_real gst xp : drop (map realize gst) xp = map realize (g_drop gst xp).
  Proof.
    unfold drop, StoreSpec.g_drop. apply filter_map_comm. intros g'. rewrite is_real. reflexivity.
  Qed.

  Lemma find_in gst xp g : g_find gst xp = FOne g -> In g gst /\ filter (g_is xp) gst = [g].
  Proof.
    unfold StoreSpec.g_find. intros H. apply pick_one_in in H. split; [|exact H].
    assert (Hi : In g (filter (g_is xp) gst)) by (rewrite H; left; reflexivity).
    apply filter_In in Hi. tauto.
  Qed.

  Lemma load_dec_real gst xp pw : wfst gst ->
    load_dec (map realize gst) xp pw =
    match g_load_dec gst xp pw with SOk g => SOk (realize g, g_key g) | SErr e => SErr e end.
  Proof.
    intros W. unfold Store.load_dec, StoreSpec.g_load_dec. rewrite find_real.
    destruct (g_find gst xp) as [g| |] eqn:F; try reflexivity.
    apply find_in in F. destruct F as (Hin & _).
    rewrite decrypt_realized by (apply W; exact Hin).
    destruct (pw_ok g pw); [|reflexivity].
    cbn [StoreSpec.realize se_kf se_alias Model.encrypt_key kf_alias]. rewrite bytes_eqb_refl. reflexivity.
  Qed.

  Lemma load_real gst xp pw : wfst gst -> s_load (map realize gst) xp pw = g_load gst xp pw.
  Proof.
    intros W. unfold Store.s_load, StoreSpec.g_load. rewrite load_dec_real by exact W.
    destruct (g_load_dec gst xp pw); reflexivity.
  Qed.

  Definition omap_st (r : sres gstore) : sres store :=
    match r with SOk gst => SOk (map realize gst) | SErr e => SErr e end.

  Lemma create_real gst k alias pw salt iv :
    s_create (map realize gst) k alias pw salt iv = omap_st (g_create gst k alias pw salt iv).
  Proof.
    unfold Store.s_create, g_create. rewrite has_alias_real.
    destruct (g_has_alias gst alias); [reflexivity|]. cbn [omap_st]. rewrite map_app. reflexivity.
  Qed.

  Lemma reset_real gst xp old new salt iv : wfst gst ->
    s_reset (map realize gst) xp old new salt iv = omap_st (g_reset gst xp old new salt iv).
  Proof.
    intros W. unfold Store.s_reset, StoreSpec.g_reset. rewrite load_dec_real by exact W.
    unfold StoreSpec.g_load_dec.
    destruct (g_find gst xp) as [g| |] eqn:F; try reflexivity.
    destruct (pw_ok g old); [|reflexivity]. cbn [omap_st]. f_equal.
    apply find_in in F. destruct F as (_ & F1).
    unfold put_file, StoreSpec.g_put. rewrite !map_map.
    cbn [StoreSpec.realize se_kf Model.encrypt_key kf_alias].
    apply map_ext_in. intros g' Hin. rewrite is_real.
    destruct (g_is xp g') eqn:P; [|reflexivity].
    rewrite (filter_single _ _ _ F1 g' Hin P). reflexivity.
  Qed.

  Lemma realias_real gst xp na :
    s_alias (map realize gst) xp na = omap_st (g_realias gst xp na).
  Proof.
    unfold s_alias, StoreSpec.g_realias. rewrite find_real.
    destruct (g_find gst xp) as [g| |]; try reflexivity.
    rewrite has_alias_real. destruct (g_has_alias gst na); [reflexivity|].
    cbn [omap_st]. f_equal. rewrite <- put_real. reflexivity.
  Qed.

  Lemma delete_real gst xp pw : wfst gst ->
    s_delete (map realize gst) xp pw = omap_st (g_delete gst xp pw).
  Proof.
    intros W. unfold Store.s_delete, StoreSpec.g_delete. rewrite load_dec_real by exact W.
    destruct (g_load_dec gst xp pw); [|reflexivity]. cbn [omap_st]. rewrite drop_real. reflexivity.
  Qed.

  Lemma backup_real gst : s_backup (map realize gst) = map realize gst.
  Proof. unfold s_backup. rewrite map_map. apply map_ext. reflexivity. Qed.

  Lemma restore_real img : forall gst,
    s_restore (map realize gst) (map realize img) =
    (map realize (fst (g_restore gst img)), snd (g_restore gst img)).
  Proof.
    induction img as [|g img IH]; intros gst; cbn [map s_restore StoreSpec.g_restore]; [reflexivity|].
    change (se_xpub (realize g)) with (g_xpub g). change (se_alias (realize g)) with (g_alias g).
    rewrite has_key_real, has_alias_real.
    destruct (g_has_key gst (g_xpub g)); [apply IH|].
    destruct (g_has_alias gst (g_alias g)); [reflexivity|].
    change [realize g] with (map realize [g]). rewrite <- map_app. apply IH.
  Qed.

  (* ---- well-formedness is kept ---- *)
  Lemma wfst_put gst xp g : wfst gst -> wfg g -> wfst (g_put gst xp g).
  Proof.
    intros W Wg x Hin. unfold StoreSpec.g_put in Hin. apply in_map_iff in Hin.
    destruct Hin as (y & E & Hy). destruct (g_is xp y); subst x; [exact Wg|apply W; exact Hy].
  Qed.

  Lemma wfst_restore img : forall gst, wfst gst -> wfst img -> wfst (fst (g_restore gst img)).
  Proof.
    induction img as [|g img IH]; intros gst W Wi; cbn [StoreSpec.g_restore]; [exact W|].
    assert (Wi' : wfst img) by (intros x Hx; apply Wi; right; exact Hx).
    destruct (g_has_key gst (g_xpub g)); [apply IH; assumption|].
    destruct (g_has_alias gst (g_alias g)); [exact W|].
    apply IH; [|exact Wi'].
    intros x Hx. apply in_app_or in Hx. destruct Hx as [Hx|[<-|[]]]; [apply W; exact Hx|apply Wi; left; reflexivity].
  Qed.

  (* ---- several stores ---- *)
  Lemma getst_real gs sid : getst (realize_sys gs) sid = map realize (getst gs sid).
  Proof. unfold StoreSpec.realize_sys. apply (getst_map (map realize)). reflexivity. Qed.

  Lemma setst_real gs sid gst :
    setst (realize_sys gs) sid (map realize gst) = realize_sys (setst gs sid gst).
  Proof. unfold StoreSpec.realize_sys. apply (setst_map (map realize)). Qed.

  Lemma wfsys_set gs sid gst : wfsys gs -> wfst gst -> wfsys (setst gs sid gst).
  Proof.
    intros W Wst i. rewrite getst_setst. destruct (sid =? i); [exact Wst|apply W].
  Qed.

  Lemma upd_real gs sid r :
    upd_res (realize_sys gs) sid (omap_st r) =
    (realize_sys (fst (g_upd G smul encode kdf ctr mac_hash gs sid r)),
     snd (g_upd G smul encode kdf ctr mac_hash gs sid r)).
  Proof.
    destruct r as [gst|e]; cbn [omap_st upd_res StoreSpec.g_upd fst snd]; [|reflexivity].
    rewrite setst_real. reflexivity.
  Qed.

  Lemma wf_upd gs sid r : wfsys gs -> (forall gst, r = SOk gst -> wfst gst) ->
    wfsys (fst (g_upd G smul encode kdf ctr mac_hash gs sid r)).
  Proof.
    intros W H. destruct r as [gst|e]; cbn [StoreSpec.g_upd fst]; [|exact W].
    apply wfsys_set; [exact W|apply H; reflexivity].
  Qed.

  (* one operation: the implementation model holds the realisation of the book and answers as the book *)
  Lemma step_refines gs o : wfsys gs ->
    step (realize_sys gs) o = (realize_sys (fst (gstep gs o)), snd (gstep gs o)) /\
    wfsys (fst (gstep gs o)).
  Proof.
    intros W. destruct o as [sid raw alias pw salt iv|sid xp pw|sid xp old new salt iv|sid xp na|sid xp pw|sid|src dst];
      cbn [Store.step StoreSpec.gstep]; rewrite ?getst_real.
    - rewrite create_real. split; [apply upd_real|].
      apply wf_upd; [exact W|]. intros gst E. unfold g_create in E.
      destruct (g_has_alias (getst gs sid) alias); [discriminate|]. injection E as <-.
      intros x Hx. apply in_app_or in Hx. destruct Hx as [Hx|[<-|[]]]; [apply (W sid); exact Hx|apply key_of_wf].
    - rewrite load_real by apply W. split; [reflexivity|exact W].
    - rewrite reset_real by apply W. split; [apply upd_real|].
      apply wf_upd; [exact W|]. intros gst E. unfold StoreSpec.g_reset, StoreSpec.g_load_dec in E.
      destruct (g_find (getst gs sid) xp) as [g| |] eqn:F; try discriminate.
      destruct (pw_ok g old); [|discriminate]. injection E as <-.
      apply wfst_put; [apply W|]. apply find_in in F. destruct F as (Hin & _). exact (W sid g Hin).
    - rewrite realias_real. split; [apply upd_real|].
      apply wf_upd; [exact W|]. intros gst E. unfold StoreSpec.g_realias in E.
      destruct (g_find (getst gs sid) xp) as [g| |] eqn:F; try discriminate.
      destruct (g_has_alias (getst gs sid) na); [discriminate|]. injection E as <-.
      apply wfst_put; [apply W|]. apply find_in in F. destruct F as (Hin & _). exact (W sid g Hin).
    - rewrite delete_real by apply W. split; [apply upd_real|].
      apply wf_upd; [exact W|]. intros gst E. unfold StoreSpec.g_delete in E.
      destruct (g_load_dec (getst gs sid) xp pw); [|discriminate]. injection E as <-.
      intros x Hx. unfold StoreSpec.g_drop in Hx. apply filter_In in Hx. apply (W sid). tauto.
    - rewrite backup_real. split; [reflexivity|exact W].
    - rewrite backup_real, restore_real.
      destruct (g_restore (getst gs dst) (getst gs src)) as [gst' ok] eqn:R. cbn [fst snd].
      rewrite setst_real. split; [reflexivity|].
      apply wfsys_set; [exact W|].
      replace gst' with (fst (g_restore (getst gs dst) (getst gs src))) by (rewrite R; reflexivity).
      apply wfst_restore; apply W.
  Qed.

  Lemma run_refines ops : forall gs, wfsys gs ->
    run (realize_sys gs) ops = (realize_sys (fst (grun gs ops)), snd (grun gs ops)) /\
    wfsys (fst (grun gs ops)).
  Proof.
    induction ops as [|o ops IH]; intros gs W; cbn [Store.run StoreSpec.grun].
    - split; [reflexivity|exact W].
    - destruct (step_refines gs o W) as (E & W1). rewrite E.
      destruct (gstep gs o) as [g1 b] eqn:S. cbn [fst snd] in *.
      destruct (IH g1 W1) as (E2 & W2). rewrite E2.
      destruct (grun g1 ops) as [g2 bs]. cbn [fst snd] in *. split; [reflexivity|exact W2].
  Qed.

  Lemma wfsys_nil : wfsys [].
  Proof. intros sid g []. Qed.

  (* ---- no key twice in one store ---- *)
  Definition nodup_x (gst : gstore) : Prop := NoDup (map g_xpub gst).
  Definition nodup_sys (gs : gsys) : Prop := forall sid, nodup_x (getst gs sid).

  Lemma has_key_in gst xp : g_has_key gst xp = false -> ~ In xp (map g_xpub gst).
  Proof.
    intros H Hin. apply in_map_iff in Hin. destruct Hin as (g & E & Hg).
    assert (T : g_has_key gst xp = true).
    { apply existsb_exists. exists g. split; [exact Hg|]. unfold StoreSpec.g_is. rewrite E. apply bytes_eqb_refl. }
    rewrite T in H. discriminate.
  Qed.

  Lemma nodup_snoc gst g : nodup_x gst -> g_has_key gst (g_xpub g) = false -> nodup_x (gst ++ [g]).
  Proof.
    intros Nd H. unfold nodup_x. rewrite map_app. cbn [map].
    apply nodup_snoc_list; [exact Nd|apply has_key_in; exact H].
  Qed.

  Lemma is_xpub_eq xp g : g_is xp g = true -> g_xpub g = xp.
  Proof. unfold StoreSpec.g_is. apply bytes_eqb_eq. Qed.

  Lemma xpubs_put gst xp g : g_xpub g = xp -> map g_xpub (g_put gst xp g) = map g_xpub gst.
  Proof.
    intros E. unfold StoreSpec.g_put. rewrite map_map. apply map_ext. intros y.
    destruct (g_is xp y) eqn:P; [|reflexivity]. apply is_xpub_eq in P. congruence.
  Qed.

  Lemma nodup_filter (p : gentry -> bool) gst : nodup_x gst -> nodup_x (filter p gst).
  Proof.
    unfold nodup_x. induction gst as [|a l IH]; cbn; intros Nd; [constructor|].
    inversion Nd as [|? ? Ha Nd']; subst. destruct (p a); cbn; [|apply IH; exact Nd'].
    constructor; [|apply IH; exact Nd'].
    intros Hin. apply Ha. apply in_map_iff in Hin. destruct Hin as (y & E & Hy).
    apply filter_In in Hy. apply in_map_iff. exists y. tauto.
  Qed.

  Lemma nodup_restore img : forall gst, nodup_x gst -> nodup_x (fst (g_restore gst img)).
  Proof.
    induction img as [|g img IH]; intros gst Nd; cbn [StoreSpec.g_restore]; [exact Nd|].
    destruct (g_has_key gst (g_xpub g)) eqn:K; [apply IH; exact Nd|].
    destruct (g_has_alias gst (g_alias g)); [exact Nd|].
    apply IH. apply nodup_snoc; assumption.
  Qed.

  Lemma nodup_sys_set gs sid gst : nodup_sys gs -> nodup_x gst -> nodup_sys (setst gs sid gst).
  Proof. intros Nd H i. rewrite getst_setst. destruct (sid =? i); [exact H|apply Nd]. Qed.

  Lemma nodup_step gs o : nodup_sys gs -> fresh_create G smul encode gs o = true ->
    nodup_sys (fst (gstep gs o)).
  Proof.
    intros Nd Fr. destruct o as [sid raw alias pw salt iv|sid xp pw|sid xp old new salt iv|sid xp na|sid xp pw|sid|src dst];
      cbn [StoreSpec.gstep fst]; try exact Nd.
    - unfold g_create. destruct (g_has_alias (getst gs sid) alias); cbn [StoreSpec.g_upd fst]; [exact Nd|].
      apply nodup_sys_set; [exact Nd|]. apply nodup_snoc; [apply Nd|].
      cbn [StoreSpec.fresh_create] in Fr. apply negb_true_iff in Fr. exact Fr.
    - unfold StoreSpec.g_reset, StoreSpec.g_load_dec.
      destruct (g_find (getst gs sid) xp) as [g| |] eqn:F; cbn [StoreSpec.g_upd fst]; try exact Nd.
      destruct (pw_ok g old); cbn [StoreSpec.g_upd fst]; [|exact Nd].
      apply nodup_sys_set; [exact Nd|]. unfold nodup_x. rewrite xpubs_put; [apply Nd|].
      apply find_in in F. destruct F as (_ & F1).
      assert (Hi : In g (filter (g_is xp) (getst gs sid))) by (rewrite F1; left; reflexivity).
      apply filter_In in Hi. apply is_xpub_eq. tauto.
    - unfold StoreSpec.g_realias.
      destruct (g_find (getst gs sid) xp) as [g| |] eqn:F; cbn [StoreSpec.g_upd fst]; try exact Nd.
      destruct (g_has_alias (getst gs sid) na); cbn [StoreSpec.g_upd fst]; [exact Nd|].
      apply nodup_sys_set; [exact Nd|]. unfold nodup_x. rewrite xpubs_put; [apply Nd|].
      apply find_in in F. destruct F as (_ & F1).
      assert (Hi : In g (filter (g_is xp) (getst gs sid))) by (rewrite F1; left; reflexivity).
      apply filter_In in Hi. apply is_xpub_eq. tauto.
    - unfold StoreSpec.g_delete. destruct (g_load_dec (getst gs sid) xp pw); cbn [StoreSpec.g_upd fst]; [|exact Nd].
      apply nodup_sys_set; [exact Nd|]. apply nodup_filter. apply Nd.
    - destruct (g_restore (getst gs dst) (getst gs src)) as [gst' ok] eqn:R. cbn [fst].
      apply nodup_sys_set; [exact Nd|].
      replace gst' with (fst (g_restore (getst gs dst) (getst gs src))) by (rewrite R; reflexivity).
      apply nodup_restore. apply Nd.
  Qed.

  Lemma nodup_run ops : forall gs, nodup_sys gs ->
    no_dup_import G smul encode kdf ctr mac_hash gs ops = true -> nodup_sys (fst (grun gs ops)).
  Proof.
    induction ops as [|o ops IH]; intros gs Nd H; cbn [StoreSpec.grun StoreSpec.no_dup_import] in *; [exact Nd|].
    apply andb_true_iff in H. destruct H as (H1 & H2).
    pose proof (nodup_step gs o Nd H1) as Nd1.
    destruct (gstep gs o) as [g1 b]. cbn [fst] in *.
    specialize (IH g1 Nd1 H2). destruct (grun g1 ops) as [g2 bs]. exact IH.
  Qed.

  Lemma nodup_sys_nil : nodup_sys [].
  Proof. intros sid. constructor. Qed.

  (* in a store without duplicates a key is found by its xpub *)
  Lemma filter_none gst xp : ~ In xp (map g_xpub gst) -> filter (g_is xp) gst = [].
  Proof.
    induction gst as [|a l IH]; cbn [filter map]; intros Hn; [reflexivity|].
    destruct (g_is xp a) eqn:P.
    - exfalso. apply Hn. left. apply is_xpub_eq. exact P.
    - apply IH. intros Hin. apply Hn. right. exact Hin.
  Qed.

  Lemma find_live gst g : nodup_x gst -> In g gst -> g_find gst (g_xpub g) = FOne g.
  Proof.
    unfold StoreSpec.g_find, nodup_x. induction gst as [|a l IH]; intros Nd Hin; [destruct Hin|].
    cbn [map] in Nd. inversion Nd as [|? ? Ha Nd']; subst. cbn [filter].
    destruct Hin as [->|Hin].
    - unfold StoreSpec.g_is at 1. rewrite bytes_eqb_refl. rewrite filter_none by exact Ha. reflexivity.
    - assert (Hne : g_xpub a <> g_xpub g).
      { intros E. apply Ha. rewrite E. apply in_map. exact Hin. }
      unfold StoreSpec.g_is at 1. rewrite bytes_eqb_false by exact Hne. apply IH; assumption.
  Qed.

  Lemma pw_ok_self g : pw_ok g (g_pw g) = true.
  Proof. unfold StoreSpec.pw_ok. apply bytes_eqb_refl. Qed.

  Lemma load_live gst g pw : nodup_x gst -> In g gst ->
    g_load gst (g_xpub g) pw = if pw_ok g pw then SOk (g_key g) else SErr SELoad.
  Proof.
    intros Nd Hin. unfold StoreSpec.g_load, StoreSpec.g_load_dec. rewrite find_live by assumption.
    destruct (pw_ok g pw); reflexivity.
  Qed.

  (* after any sequence of whole operations (no guard): every key file's alias is the alias the
     cache holds for it *)
  Lemma alias_consistent ops : forall sid e,
    In e (getst (fst (run [] ops)) sid) -> kf_alias (se_kf e) = se_alias e.
  Proof.
    intros sid e Hin.
    destruct (run_refines ops [] wfsys_nil) as (E & _). change (realize_sys []) with (@nil (N * store)) in E.
    rewrite E in Hin. cbn [fst] in Hin. rewrite getst_real in Hin.
    apply in_map_iff in Hin. destruct Hin as (g & <- & _). reflexivity.
  Qed.

  (* every sequence of whole operations from the empty system that never imports a key into a
     store that holds it: the implementation model holds the realisation of the book, answers as
     the book, and every key of the book opens with exactly the passwords the book accepts *)
  Variable hmac512 : bytes -> bytes -> bytes.
  Variable sha512 : bytes -> bytes.

  Theorem store_live ops : no_dup_import G smul encode kdf ctr mac_hash [] ops = true ->
    let s' := fst (run [] ops) in
    let gs' := fst (grun [] ops) in
    s' = realize_sys gs' /\ snd (run [] ops) = snd (grun [] ops) /\
    forall sid g, In g (getst gs' sid) ->
      wf64 (g_key g) /\
      (forall pw, s_load (getst s' sid) (g_xpub g) pw =
                  if pw_ok g pw then SOk (g_key g) else SErr SELoad) /\
      s_load (getst s' sid) (g_xpub g) (g_pw g) = SOk (g_key g) /\
      (forall path msg,
         s_xsign G smul encode kdf ctr mac_hash hmac512 sha512 (getst s' sid) (g_xpub g) path msg (g_pw g) =
         match derive_prv G smul encode hmac512 (g_key g) path with
         | Ok k' => Ok (sign G smul encode hmac512 sha512 k' msg)
         | Err _ => Err SELoad
         | Panic p => Panic p
         end).
  Proof.
    intros Hg s' gs'.
    destruct (run_refines ops [] wfsys_nil) as (E & W). change (realize_sys []) with (@nil (N * store)) in E.
    pose proof (nodup_run ops [] nodup_sys_nil Hg) as Nd.
    subst s' gs'. rewrite E. cbn [fst snd]. split; [reflexivity|]. split; [reflexivity|].
    intros sid g Hin. rewrite getst_real.
    assert (L : forall pw, s_load (map realize (getst (fst (grun [] ops)) sid)) (g_xpub g) pw =
                           if pw_ok g pw then SOk (g_key g) else SErr SELoad).
    { intros pw. rewrite load_real by apply W. apply load_live; [apply Nd|exact Hin]. }
    split; [exact (W sid g Hin)|]. split; [exact L|].
    split; [rewrite L, pw_ok_self; reflexivity|].
    intros path msg. unfold s_xsign. rewrite L, pw_ok_self. reflexivity.
  Qed.
End REF.

(* ---- the finding: what goes wrong outside the guard ---- *)
Section REFUTED.
  Variable G : Type.
  Variable smul : N -> G.
  Variable encode : G -> bytes.
  Variable kdf : bytes -> bytes -> bytes.
  Variable ctr : bytes -> bytes -> nat -> bytes.
  Variable mac_hash : bytes -> bytes.

  (* the same key imported twice under two aliases (both imports succeed): afterwards NO password
     opens the key, and it can be neither deleted nor re-keyed: every lookup is ambiguous *)
  Lemma dup_import_refuted raw a1 pw1 s1 i1 a2 pw2 s2 i2 : a1 <> a2 ->
    let xp := xpub_bytes G smul encode (key_of raw) in
    exists e1 e2,
      run G smul encode kdf ctr mac_hash [] [SCreate 0 raw a1 pw1 s1 i1; SCreate 0 raw a2 pw2 s2 i2]
      = ([(0, [e1; e2])], [obs_store [e1]; obs_store [e1; e2]]) /\
      (forall pw, s_load kdf ctr mac_hash [e1; e2] xp pw = SErr SELoad) /\
      (forall pw, s_delete kdf ctr mac_hash [e1; e2] xp pw = SErr SEAmbiguous) /\
      (forall old new s i, s_reset kdf ctr mac_hash [e1; e2] xp old new s i = SErr SEAmbiguous).
  Proof.
    intros Hne xp.
    set (e1 := {| se_xpub := xp; se_alias := a1; se_kf := encrypt_key kdf ctr mac_hash (key_of raw) a1 pw1 s1 i1 |}).
    set (e2 := {| se_xpub := xp; se_alias := a2; se_kf := encrypt_key kdf ctr mac_hash (key_of raw) a2 pw2 s2 i2 |}).
    exists e1, e2.
    assert (F : find [e1; e2] xp = FMany).
    { unfold find. cbn [filter]. unfold is_xpub. cbn [se_xpub e1 e2]. subst e1 e2. cbn [se_xpub].
      rewrite bytes_eqb_refl. reflexivity. }
    split; [|split; [|split]].
    - cbn [run step getst]. unfold s_create at 1. cbn [has_alias existsb app upd_res setst].
      cbn [getst]. rewrite N.eqb_refl. unfold s_create. cbn [has_alias existsb se_alias].
      rewrite (bytes_eqb_false a1 a2 Hne). cbn [orb app upd_res setst]. rewrite N.eqb_refl. reflexivity.
    - intros pw. unfold s_load, load_dec. rewrite F. reflexivity.
    - intros pw. unfold s_delete, load_dec. rewrite F. reflexivity.
    - intros old new s i. unfold s_reset, load_dec. rewrite F. reflexivity.
  Qed.
End REFUTED.

(* the hypotheses are satisfiable by a non-trivial instance: the scrypt key is the password
   padded to 16 bytes, twice; the MAC hash is the identity *)
Definition xkdf (pw salt : bytes) : bytes := fit 16 pw ++ fit 16 pw.
Example ex_mac_ideal : mac_ideal xkdf (fun x => x).
Proof.
  intros pw pw' salt ct Hne E. apply Hne. unfold mac_of, xkdf in *.
  apply app_inv_tail in E.
  assert (H16 : forall b, firstn 16 (skipn 16 (fit 16 b ++ fit 16 b)) = fit 16 b).
  { intros b. generalize (fit_length 16 b). generalize (fit 16 b). intros a Ha.
    rewrite skipn_app. rewrite (skipn_all2 a) by lia. rewrite Ha. cbn [Nat.sub skipn app].
    apply firstn_all2. lia. }
  rewrite !H16 in E. rewrite E. reflexivity.
Qed.
Example ex_mac_ideal_nontrivial : xkdf [1] [] <> xkdf [2] [].
Proof. discriminate. Qed.

(* the guard is satisfiable by a non-trivial run: two keys, a password reset, a backup restored
   into a second store that already holds one of the keys under another password *)
Definition tctr (k iv : bytes) (n : nat) : bytes := repeat 7 n.
Definition ex_ops : list sop :=
  [ SCreate 0 [1] [10] [20] [30] [40]; SCreate 0 [2] [11] [21] [31] [41];
    SReset 0 (xpub_bytes N (fun n => n) (n2le 32) (key_of [1])) [20] [22] [32] [42];
    SCreate 1 [2] [12] [23] [33] [43]; SRestore 0 1 ].
Example ex_guard :
  no_dup_import N (fun n => n) (n2le 32) xkdf tctr (fun x => x) [] ex_ops = true /\
  map g_pw (getst (fst (grun N (fun n => n) (n2le 32) xkdf tctr (fun x => x) [] ex_ops)) 1) = [[23]; [22]].
Proof. vm_compute. split; reflexivity. Qed.
