(* C28 — HISTORY: the pinned tree's ResetPassword, before the repair e8f4d605
   ("HSM.ResetPassword holds cacheMu like UpdateKeyAlias and XSign").

   NOT a statement about the current code, and not listed in Props.v.  In the pinned tree
   ResetPassword called loadDecryptedKey and StoreKey WITHOUT the HSM lock cacheMu, so an
   UpdateKeyAlias of the same key could run between the two halves.  The two halves are modelled
   separately here ([pinned_reset_begin] / [pinned_reset_finish]; their composition is the
   current whole operation [s_reset], lemma [pinned_reset_whole]); the witness below shows what
   the harness class keystore-reset-alias-race observed on the pinned tree (several hundred of
   1500 XSign calls with the correct password failing).  In the repaired code the two halves run
   in one critical section, the class is silent, and the positive statement is
   c28_store_refines / c28_store_alias_consistent / c28_store_holds_outside (Props.v) for
   sequences of whole operations. *)
From Coq Require Import List NArith Bool Arith Lia.
From Verif Require Import Outcome Cmp.
From C28 Require Import Model Bytes Proofs Store StoreSpec StoreProofs.
Import ListNotations.
Open Scope N_scope.

Section PINNED.
  Variable G : Type.
  Variable smul : N -> G.
  Variable encode : G -> bytes.
  Variable kdf : bytes -> bytes -> bytes.
  Variable ctr : bytes -> bytes -> nat -> bytes.
  Variable mac_hash : bytes -> bytes.
  Hypothesis ctr_len : forall k iv n, length (ctr k iv n) = n.

  Definition pinned_reset_begin (st : store) (xp old : bytes) : sres (sentry * xprv) :=
    load_dec kdf ctr mac_hash st xp old.
  Definition pinned_reset_finish (st : store) (xp : bytes) (loaded : sentry * xprv) (new salt iv : bytes) : store :=
    let (e, k) := loaded in
    put_file st xp (encrypt_key kdf ctr mac_hash k (kf_alias (se_kf e)) new salt iv).

  (* with nothing in between, the two halves are the whole operation of the current model *)
  Lemma pinned_reset_whole st xp old new salt iv :
    s_reset kdf ctr mac_hash st xp old new salt iv =
    match pinned_reset_begin st xp old with
    | SOk l => SOk (pinned_reset_finish st xp l new salt iv)
    | SErr e => SErr e
    end.
  Proof.
    unfold s_reset, pinned_reset_begin. destruct (load_dec kdf ctr mac_hash st xp old) as [[e k]|e]; reflexivity.
  Qed.

  (* PINNED TREE ONLY.  ResetPassword reads the key file, UpdateKeyAlias renames the key,
     ResetPassword writes the file back with the alias it read: the file's alias and the cache's
     alias differ, and NO password opens the key (until the cache is rebuilt from the files, which
     also loses the new alias) *)
  Theorem pinned_refuted_reset_alias_race g na new salt iv : wf64 (g_key g) -> na <> g_alias g ->
    let st := [realize G smul encode kdf ctr mac_hash g] in
    let xp := g_xpub G smul encode g in
    exists l st1,
      pinned_reset_begin st xp (g_pw g) = SOk l /\
      s_alias st xp na = SOk st1 /\
      forall pw, s_load kdf ctr mac_hash (pinned_reset_finish st1 xp l new salt iv) xp pw = SErr SELoad.
  Proof.
    intros W Hne st xp.
    set (e := realize G smul encode kdf ctr mac_hash g).
    assert (Ix : forall a f, is_xpub xp {| se_xpub := xp; se_alias := a; se_kf := f |} = true).
    { intros a f. unfold is_xpub. cbn [se_xpub]. apply bytes_eqb_refl. }
    assert (F : find st xp = FOne e).
    { unfold find, st. cbn [filter]. fold e. unfold e, StoreSpec.realize. fold xp. rewrite Ix. reflexivity. }
    exists (e, g_key g).
    exists [{| se_xpub := xp; se_alias := na; se_kf := with_alias (se_kf e) na |}].
    split; [|split].
    - unfold pinned_reset_begin, load_dec. rewrite F. unfold e. cbn [StoreSpec.realize se_kf se_alias].
      rewrite (decrypt_encrypt kdf ctr mac_hash ctr_len) by exact W.
      cbn [Model.encrypt_key kf_alias]. rewrite bytes_eqb_refl. reflexivity.
    - unfold s_alias. rewrite F. unfold st. cbn [has_alias existsb]. fold e.
      unfold e at 1. cbn [StoreSpec.realize se_alias].
      rewrite (bytes_eqb_false (g_alias g) na) by (intros E; apply Hne; symmetry; exact E).
      cbn [orb]. unfold put. cbn [map]. fold e. unfold e at 1, StoreSpec.realize. fold xp. rewrite Ix.
      unfold e, StoreSpec.realize. fold xp. reflexivity.
    - intros pw. cbn [pinned_reset_finish]. unfold put_file. cbn [map]. rewrite Ix. cbn [se_xpub se_alias].
      unfold s_load, load_dec, find. cbn [filter]. rewrite Ix. cbn [pick se_kf se_alias].
      unfold e. cbn [StoreSpec.realize se_kf Model.encrypt_key kf_alias].
      rewrite (bytes_eqb_false (g_alias g) na) by (intros E; apply Hne; symmetry; exact E).
      destruct (decrypt_key _ _ _ _ _); reflexivity.
  Qed.
End PINNED.
