(* C28 — derivation commutes, paths do not panic, signatures verify, key files round-trip. *)
From Coq Require Import List NArith Bool Arith Lia ZArith.
From Coq Require Import ZifyBool ZifyN ZifyNat.
From Verif Require Import Outcome Cmp.
From C28 Require Import Model Bytes.
Import ListNotations.
Open Scope N_scope.

Local Opaque N.shiftr N.land N.lor.

(* a well-formed 64-byte key: two 32-byte halves *)
Definition wf_key (x : bytes * bytes) : Prop :=
  length (fst x) = 32%nat /\ bytes_ok (fst x) /\ length (snd x) = 32%nat.

Lemma firstn32_len (h : bytes) : length h = 64%nat -> length (firstn 32 h) = 32%nat.
Proof. intros H. rewrite firstn_length. lia. Qed.
Lemma skipn32_len (h : bytes) : length h = 64%nat -> length (skipn 32 h) = 32%nat.
Proof. intros H. rewrite skipn_length. lia. Qed.

Lemma bytes_eqb_refl b : bytes_eqb b b = true.
Proof. apply bytes_eqb_eq. reflexivity. Qed.

Lemma L_lt : L < 2 ^ 253. Proof. reflexivity. Qed.
Lemma L_pos : L <> 0. Proof. discriminate. Qed.

Section KD.
  Variable G : Type.
  Variables (gadd : G -> G -> G) (gneg : G -> G) (gzero : G).
  Variable smul : N -> G.
  Variable gmul : N -> G -> G.
  Variable encode : G -> bytes.
  Variable decode : bytes -> option G.
  Variable hmac512 : bytes -> bytes -> bytes.
  Variable sha512 : bytes -> bytes.

  (* the idealisation of the Ed25519 group and its encoding *)
  Hypothesis smul_add : forall a b, smul (a + b) = gadd (smul a) (smul b).
  Hypothesis decode_encode : forall P, decode (encode P) = Some P.
  (* HMAC-SHA512 returns 64 bytes *)
  Hypothesis hmac_len : forall k m, length (hmac512 k m) = 64%nat.
  Hypothesis hmac_ok : forall k m, bytes_ok (hmac512 k m).

  Notation xpub_of := (xpub_of G smul encode).
  Notation child_prv := (child_prv G smul encode hmac512).
  Notation child_pub := (child_pub G gadd smul encode decode hmac512).
  Notation derive_prv := (derive_prv G smul encode hmac512).
  Notation derive_pub := (derive_pub G gadd smul encode decode hmac512).
  Notation root_xprv := (root_xprv hmac512).

  (* the tweak of one derivation step *)
  Definition tweak (x : xprv) (sel : bytes) : bytes :=
    prune_int (firstn 32 (hmacN hmac512 (xpub_of x) sel)).

  Lemma tweak_spec x sel :
    length (tweak x sel) = 32%nat /\ bytes_ok (tweak x sel) /\ le2n (tweak x sel) < 2 ^ 233.
  Proof.
    unfold tweak, hmacN. apply prune_int_spec.
    - apply firstn32_len, hmac_len.
    - apply firstn_ok, hmac_ok.
  Qed.

  (* one step: the child scalar is parent + tweak; a panic means the sum left 256 bits *)
  Lemma child_step x sel : wf_key x ->
    (le2n (fst x) + le2n (tweak x sel) < two256 /\
     exists x', child_prv x sel = Ok x' /\ wf_key x' /\
                le2n (fst x') = le2n (fst x) + le2n (tweak x sel) /\
                child_pub (xpub_of x) sel = Ok (xpub_of x'))
    \/ (two256 <= le2n (fst x) + le2n (tweak x sel) /\ child_prv x sel = Panic ExplicitPanic).
  Proof.
    intros (W1 & W2 & W3).
    destruct (tweak_spec x sel) as (T1 & T2 & T3).
    unfold Model.child_prv, Model.child_pub. fold (tweak x sel).
    set (h := hmacN hmac512 (xpub_of x) sel) in *.
    destruct (add32 (fst x) (tweak x sel)) as [r sum] eqn:E.
    destruct (byte_add _ _ W1 T1 W2 T2 r sum E) as (B1 & B2 & B3 & B4).
    rewrite B2.
    destruct (le2n (fst x) + le2n (tweak x sel) <? two256) eqn:C.
    - left. apply N.ltb_lt in C. split; [exact C|].
      exists (r, skipn 32 h). split; [reflexivity|].
      assert (Hr : le2n r = le2n (fst x) + le2n (tweak x sel)).
      { rewrite B1. apply N.mod_small. exact C. }
      split; [|split; [exact Hr|]].
      + split; [exact B3|]. split; [exact B4|]. cbn [snd]. apply skipn32_len. apply hmac_len.
      + cbn [fst snd]. unfold Model.xpub_of at 2. cbn [fst snd].
        change (hmacN hmac512 (xpub_of x) sel) with h.
        change (prune_int (firstn 32 h)) with (tweak x sel).
        unfold Model.xpub_of at 1. cbn [fst]. rewrite decode_encode.
        unfold Model.xpub_of. cbn [fst snd]. rewrite Hr, smul_add. reflexivity.
    - right. apply N.ltb_ge in C. split; [exact C|reflexivity].
  Qed.

  (* c28_commute: for EVERY key and selector *)
  Lemma commute x sel : wf_key x ->
    match child_prv x sel with
    | Ok x' => child_pub (xpub_of x) sel = Ok (xpub_of x') /\ wf_key x'
    | Panic _ => 2 ^ 256 - 2 ^ 233 < le2n (fst x)
    | Err _ => False
    end.
  Proof.
    intros W. destruct (child_step x sel W) as [(C & x' & E & W' & _ & P)|(C & E)]; rewrite E.
    - split; assumption.
    - destruct (tweak_spec x sel) as (_ & _ & T3). unfold two256 in C. lia.
  Qed.

  (* paths of any length, from any key that leaves room for the tweaks *)
  Lemma derive_path path : forall x, wf_key x ->
    le2n (fst x) + N.of_nat (length path) * 2 ^ 233 <= 2 ^ 256 ->
    exists x', derive_prv x path = Ok x' /\ derive_pub (xpub_of x) path = Ok (xpub_of x') /\
               wf_key x' /\
               le2n (fst x) <= le2n (fst x') <= le2n (fst x) + N.of_nat (length path) * (2 ^ 233 - 1).
  Proof.
    induction path as [|sel rest IH]; intros x W Hb.
    - exists x. cbn [Model.derive_prv Model.derive_pub length].
      split; [reflexivity|]. split; [reflexivity|]. split; [exact W|]. lia.
    - cbn [length] in Hb. rewrite Nat2N.inj_succ in Hb.
      destruct (tweak_spec x sel) as (_ & _ & T3).
      destruct (child_step x sel W) as [(C & x' & E & W' & S & P)|(C & E)].
      2:{ unfold two256 in C. exfalso. lia. }
      destruct (IH x' W' ltac:(lia)) as (y & D1 & D2 & Wy & R).
      exists y. cbn [Model.derive_prv Model.derive_pub]. rewrite E, P.
      split; [exact D1|]. split; [exact D2|]. split; [exact Wy|].
      cbn [length]. rewrite Nat2N.inj_succ. lia.
  Qed.

  Lemma root_wf seed : wf_key (root_xprv seed) /\
    2 ^ 254 <= le2n (fst (root_xprv seed)) < 2 ^ 254 + 2 ^ 253.
  Proof.
    unfold Model.root_xprv. cbn [fst snd].
    destruct (prune_root_spec (firstn 32 (hmac512 s_Root seed))) as (P1 & P2 & P3).
    - apply firstn32_len, hmac_len.
    - apply firstn_ok, hmac_ok.
    - split; [|exact P3]. split; [exact P1|]. split; [exact P2|]. apply skipn32_len, hmac_len.
  Qed.

  (* c28_derive_path: every seed, every path of at most 5*2^20 selectors: no panic and the
     two derivations agree; up to 2^20 selectors the scalar also stays below 2^255 *)
  Lemma derive_root seed path : N.of_nat (length path) <= 5 * 2 ^ 20 ->
    exists x', derive_prv (root_xprv seed) path = Ok x' /\
               derive_pub (xpub_of (root_xprv seed)) path = Ok (xpub_of x') /\
               (N.of_nat (length path) <= 2 ^ 20 -> le2n (fst x') < 2 ^ 255).
  Proof.
    intros Hl. destruct (root_wf seed) as (W & R).
    destruct (derive_path path (root_xprv seed) W) as (x' & D1 & D2 & _ & B).
    - lia.
    - exists x'. split; [exact D1|]. split; [exact D2|]. intros H. lia.
  Qed.

End KD.

(* ------------------------------------------------------------ signatures *)
Section SIG.
  Variable G : Type.
  Variables (gadd : G -> G -> G) (gneg : G -> G) (gzero : G).
  Variable smul : N -> G.
  Variable gmul : N -> G -> G.
  Variable encode : G -> bytes.
  Variable decode : bytes -> option G.
  Variable hmac512 : bytes -> bytes -> bytes.
  Variable sha512 : bytes -> bytes.
  Hypothesis smul_add : forall a b, smul (a + b) = gadd (smul a) (smul b).
  Hypothesis decode_encode : forall P, decode (encode P) = Some P.
  Notation xpub_of := (xpub_of G smul encode).
  Hypothesis gadd_comm : forall a b, gadd a b = gadd b a.
  Hypothesis gadd_assoc : forall a b c, gadd a (gadd b c) = gadd (gadd a b) c.
  Hypothesis gadd_zero : forall a, gadd gzero a = a.
  Hypothesis gadd_neg : forall a, gadd a (gneg a) = gzero.
  Hypothesis smul_L : smul L = gzero.
  Hypothesis gmul_smul : forall k a, gmul k (smul a) = smul (k * a).
  Hypothesis gmul_neg : forall k P, gmul k (gneg P) = gneg (gmul k P).
  Hypothesis encode_len : forall P, length (encode P) = 32%nat.

  Notation verify := (verify G gadd gneg smul gmul encode decode sha512).
  Notation inner_sign := (inner_sign G smul encode sha512).
  Notation sign := (sign G smul encode hmac512 sha512).

  Lemma gadd_zero_r a : gadd a gzero = a.
  Proof. rewrite gadd_comm. apply gadd_zero. Qed.

  Lemma gadd_cancel a b : gadd (gneg a) (gadd a b) = b.
  Proof. rewrite gadd_assoc. rewrite (gadd_comm (gneg a) a), gadd_neg. apply gadd_zero. Qed.

  Lemma smul_0 : smul 0 = gzero.
  Proof.
    pose proof (smul_add 0 0) as H. cbn in H.
    assert (E : gadd (gneg (smul 0)) (smul 0) = gadd (gneg (smul 0)) (gadd (smul 0) (smul 0))) by (rewrite <- H; reflexivity).
    rewrite gadd_cancel in E. rewrite gadd_comm, gadd_neg in E. symmetry. exact E.
  Qed.

  Lemma smul_mulL q : smul (L * q) = gzero.
  Proof.
    induction q as [|q IH] using N.peano_ind.
    - rewrite N.mul_0_r. apply smul_0.
    - rewrite N.mul_succ_r, smul_add, IH, smul_L. apply gadd_zero.
  Qed.

  Lemma smul_mod n : smul (n mod L) = smul n.
  Proof.
    rewrite (N.div_mod n L L_pos) at 2. rewrite smul_add, smul_mulL. symmetry. apply gadd_zero.
  Qed.

  Lemma top_byte_small : forall x, isbyte x -> (x <? 32) = true -> N.land x 224 = 0.
  Proof.
    intros x Hx H.
    assert (A : forall y, isbyte y -> (negb (y <? 32) || (N.land y 224 =? 0)) = true).
    { apply byte_forall. vm_compute. reflexivity. }
    specialize (A x Hx). rewrite H in A. cbn in A. apply N.eqb_eq. exact A.
  Qed.

  (* the signature of a message verifies under the signer's public key *)
  Lemma sign_verify_inner sk prefix msg :
    verify (encode (smul (le2n sk))) msg (inner_sign sk prefix msg) = true.
  Proof.
    unfold Model.inner_sign.
    set (r := le2n (sha512 (prefix ++ msg)) mod L).
    set (R := encode (smul r)).
    set (pk := encode (smul (le2n sk))).
    set (h := le2n (sha512 (R ++ pk ++ msg)) mod L).
    set (s := (h * le2n sk + r) mod L).
    assert (Hs : s < L) by (apply N.mod_lt, L_pos).
    assert (HR : length R = 32%nat) by apply encode_len.
    unfold Model.verify.
    rewrite app_length, HR, n2le_length. cbn [Nat.add Nat.eqb negb].
    (* sig[63] & 224 = 0 *)
    assert (H63 : N.land (at_ (R ++ n2le 32 s) 63) 224 = 0).
    { unfold at_. rewrite app_nth2 by lia. rewrite HR. change (63 - 32)%nat with 31%nat.
      rewrite nth_n2le by lia.
      assert (Hd : s / p256 31 < 32).
      { apply N.div_lt_upper_bound; [discriminate|]. pose proof L_lt.
        change (p256 31 * 32) with (2 ^ 253). lia. }
      rewrite N.mod_small by lia.
      apply top_byte_small; [unfold isbyte; lia|apply N.ltb_lt; exact Hd]. }
    rewrite H63. cbn [N.eqb negb].
    fold pk. unfold pk at 1. rewrite decode_encode.
    assert (F : firstn 32 (R ++ n2le 32 s) = R).
    { rewrite <- HR. rewrite firstn_app, firstn_all, Nat.sub_diag. cbn [firstn]. apply app_nil_r. }
    assert (S2 : skipn 32 (R ++ n2le 32 s) = n2le 32 s).
    { rewrite <- HR. rewrite skipn_app, skipn_all, Nat.sub_diag. reflexivity. }
    rewrite F, S2. fold h.
    rewrite le2n_n2le_small by (rewrite p256_32; unfold two256; pose proof L_lt; lia).
    rewrite (proj2 (N.leb_gt L s) Hs).
    (* the group equation *)
    rewrite gmul_neg, gmul_smul.
    unfold s. rewrite smul_mod, smul_add, gadd_cancel.
    apply bytes_eqb_refl.
  Qed.

  Lemma sign_verify x msg : verify (fst (xpub_of x)) msg (sign x msg) = true.
  Proof. unfold Model.sign, Model.expanded, Model.xpub_of. cbn [fst]. apply sign_verify_inner. Qed.

  (* signing depends on the key bytes only: equal keys sign identically (trivial, but it is
     what "sign identically" means for a key returned by the key store) *)

  (* ------------------------------------------------------------ what a verifying signature means:
     under an injective scalar multiplication (B has order exactly L) a signature verifies
     under another message / another derived key only on an explicit coincidence of hash
     values mod L *)
  Hypothesis smul_inj : forall a b, smul a = smul b -> a mod L = b mod L.

  Lemma encode_inj P Q : encode P = encode Q -> P = Q.
  Proof.
    intros H. pose proof (decode_encode P) as A. rewrite H, decode_encode in A. inversion A. reflexivity.
  Qed.

  Definition hram (R pk msg : bytes) : N := le2n (sha512 (R ++ pk ++ msg)) mod L.

  (* verification of the signature of [msg] by scalar [a] under the key of scalar [a'] and
     message [msg'] succeeds exactly when  h*a = h'*a' (mod L)  for the two hash values *)
  Lemma verify_other sk prefix msg a' msg' :
    let sig := inner_sign sk prefix msg in
    let R := firstn 32 sig in
    let pk := encode (smul (le2n sk)) in
    let pk' := encode (smul a') in
    verify pk' msg' sig = true ->
    (hram R pk msg * le2n sk) mod L = (hram R pk' msg' * a') mod L.
  Proof.
    cbn zeta. unfold Model.inner_sign.
    set (r := le2n (sha512 (prefix ++ msg)) mod L).
    set (R := encode (smul r)).
    set (pk := encode (smul (le2n sk))).
    set (h := le2n (sha512 (R ++ pk ++ msg)) mod L).
    set (s := (h * le2n sk + r) mod L).
    assert (Hs : s < L) by (apply N.mod_lt, L_pos).
    assert (HR : length R = 32%nat) by apply encode_len.
    assert (F : firstn 32 (R ++ n2le 32 s) = R).
    { rewrite <- HR. rewrite firstn_app, firstn_all, Nat.sub_diag. cbn [firstn]. apply app_nil_r. }
    assert (S2 : skipn 32 (R ++ n2le 32 s) = n2le 32 s).
    { rewrite <- HR. rewrite skipn_app, skipn_all, Nat.sub_diag. reflexivity. }
    rewrite F. unfold hram. fold h.
    unfold Model.verify.
    destruct (negb _); [discriminate|]. destruct (negb _); [discriminate|].
    rewrite decode_encode. rewrite F, S2.
    rewrite le2n_n2le_small by (rewrite p256_32; unfold two256; pose proof L_lt; lia).
    destruct (L <=? s); [discriminate|].
    set (h' := le2n (sha512 (R ++ encode (smul a') ++ msg')) mod L).
    intros V. apply bytes_eqb_eq in V. apply encode_inj in V.
    rewrite gmul_neg, gmul_smul in V.
    (* smul r = -(h'a')B + sB  ==>  sB = (h'a' + r)B *)
    assert (E : smul s = smul (h' * a' + r)).
    { rewrite smul_add. rewrite V. rewrite gadd_assoc, gadd_neg, gadd_zero. reflexivity. }
    apply smul_inj in E. unfold s in E. rewrite N.mod_mod in E by apply L_pos.
    (* (h a + r) mod L = (h' a' + r) mod L  ==>  h a mod L = h' a' mod L *)
    set (X := h * le2n sk) in *. set (Y := h' * a') in *.
    clearbody X Y r. clear - E.
    pose proof L_pos as Lp.
    apply N2Z.inj. rewrite !N2Z.inj_mod.
    apply (f_equal Z.of_N) in E. rewrite !N2Z.inj_mod, !N2Z.inj_add in E.
    set (l := Z.of_N L) in *. assert (Hl : (l <> 0)%Z) by (unfold l; lia).
    assert (D : ((Z.of_N X + Z.of_N r) - (Z.of_N Y + Z.of_N r) = Z.of_N X - Z.of_N Y)%Z) by ring.
    assert (M : ((Z.of_N X - Z.of_N Y) mod l = 0)%Z).
    { rewrite <- D. rewrite Zminus_mod, E, Z.sub_diag. apply Z.mod_0_l. exact Hl. }
    rewrite Zminus_mod in M.
    pose proof (Z.mod_pos_bound (Z.of_N X) l ltac:(unfold l; lia)) as BX.
    pose proof (Z.mod_pos_bound (Z.of_N Y) l ltac:(unfold l; lia)) as BY.
    set (u := (Z.of_N X mod l)%Z) in *. set (v := (Z.of_N Y mod l)%Z) in *.
    destruct (Z.eq_dec u v) as [->|Hne]; [reflexivity|exfalso].
    destruct (Z_lt_le_dec v u) as [Hlt|Hge].
    - rewrite Z.mod_small in M by lia. lia.
    - assert (M' : ((u - v + l) mod l = 0)%Z).
      { replace (u - v + l)%Z with (u - v + 1 * l)%Z by ring. rewrite Z.mod_add by exact Hl. exact M. }
      rewrite Z.mod_small in M' by lia. lia.
  Qed.
End SIG.

(* ------------------------------------------------------------------ key store *)

Lemma xorb_length a s : (length a <= length s)%nat -> length (xorb a s) = length a.
Proof. intros H. unfold xorb. rewrite map_length, combine_length. lia. Qed.

Lemma xorb_invol a : forall s, (length a <= length s)%nat -> xorb (xorb a s) s = a.
Proof.
  induction a as [|x a IH]; intros [|y s] H; cbn in *; try reflexivity; try lia.
  unfold xorb in *. cbn. f_equal.
  - rewrite N.lxor_assoc, N.lxor_nilpotent, N.lxor_0_r. reflexivity.
  - apply IH. lia.
Qed.

Definition Collision (H : bytes -> bytes) : Prop := exists x y, x <> y /\ H x = H y.

Section KS.
  Variable kdf : bytes -> bytes -> bytes.
  Variable ctr : bytes -> bytes -> nat -> bytes.
  Variable mac_hash : bytes -> bytes.
  Hypothesis ctr_len : forall k iv n, length (ctr k iv n) = n.

  Notation encrypt_key := (encrypt_key kdf ctr mac_hash).
  Notation decrypt_key := (decrypt_key kdf ctr mac_hash).
  Notation load_key := (load_key kdf ctr mac_hash).

  Definition wf64 (k : xprv) : Prop := length (fst k) = 32%nat /\ length (snd k) = 32%nat.

  Lemma decrypt_encrypt k alias pw salt iv : wf64 k ->
    decrypt_key (encrypt_key k alias pw salt iv) pw = Ok k.
  Proof.
    intros (W1 & W2). unfold Model.decrypt_key, Model.encrypt_key. cbn [kf_ct kf_iv kf_salt kf_mac].
    rewrite bytes_eqb_refl.
    unfold ctr_xor.
    assert (Hl : length (fst k ++ snd k) = 64%nat) by (rewrite app_length; lia).
    rewrite xorb_length by (rewrite ctr_len; lia). rewrite Hl.
    rewrite xorb_invol by (rewrite ctr_len; lia).
    rewrite fit_id by exact Hl.
    rewrite <- W1 at 1 2. rewrite firstn_app, firstn_all, Nat.sub_diag. cbn [firstn]. rewrite app_nil_r.
    rewrite skipn_app, skipn_all, Nat.sub_diag. cbn [skipn app].
    destruct k; reflexivity.
  Qed.

  (* a password that opens the file either derives the same MAC key or collides the MAC hash *)
  Lemma wrong_password k alias pw salt iv pw' k' :
    decrypt_key (encrypt_key k alias pw salt iv) pw' = Ok k' ->
    firstn 16 (skipn 16 (kdf pw' salt)) = firstn 16 (skipn 16 (kdf pw salt)) \/ Collision mac_hash.
  Proof.
    unfold Model.decrypt_key, Model.encrypt_key. cbn [kf_ct kf_iv kf_salt kf_mac].
    set (ct := ctr_xor ctr (firstn 16 (kdf pw salt)) (fst k ++ snd k) iv).
    destruct (bytes_eqb _ _) eqn:E; [|discriminate]. intros _.
    apply bytes_eqb_eq in E. unfold mac_of in E.
    set (t' := firstn 16 (skipn 16 (kdf pw' salt))) in *.
    set (t := firstn 16 (skipn 16 (kdf pw salt))) in *.
    destruct (list_eq_dec N.eq_dec t' t) as [->|Hne]; [left; reflexivity|right].
    exists (t' ++ ct), (t ++ ct). split; [|exact E].
    intros A. apply app_inv_tail in A. contradiction.
  Qed.

  (* a password deriving the same scrypt key opens the file and returns the stored key *)
  Lemma same_kdf k alias pw salt iv pw' : wf64 k -> kdf pw' salt = kdf pw salt ->
    decrypt_key (encrypt_key k alias pw salt iv) pw' = Ok k.
  Proof.
    intros W E. rewrite <- (decrypt_encrypt k alias pw salt iv W).
    unfold Model.decrypt_key. cbn [Model.encrypt_key kf_salt]. rewrite E. reflexivity.
  Qed.

  Lemma load_stored k alias pw salt iv : wf64 k ->
    load_key (encrypt_key k alias pw salt iv) alias pw = Ok k.
  Proof.
    intros W. unfold Model.load_key, Model.get_key. rewrite decrypt_encrypt by exact W.
    cbn [Model.encrypt_key kf_alias]. rewrite bytes_eqb_refl. reflexivity.
  Qed.

  Lemma load_wrong k alias pw salt iv pw' :
    (exists k', load_key (encrypt_key k alias pw salt iv) alias pw' = Ok k') ->
    firstn 16 (skipn 16 (kdf pw' salt)) = firstn 16 (skipn 16 (kdf pw salt)) \/ Collision mac_hash.
  Proof.
    intros (k' & H). unfold Model.load_key, Model.get_key in H.
    destruct (decrypt_key (encrypt_key k alias pw salt iv) pw') as [k2|e|p] eqn:D; try discriminate.
    eapply wrong_password. exact D.
  Qed.
End KS.

(* HSM.XSign on a stored key = derive and sign with the original key *)
Lemma xsign_stored (G : Type) (smul : N -> G) (encode : G -> bytes) hmac512 sha512 kdf ctr mac_hash :
  (forall k iv n, length (ctr k iv n) = n) ->
  forall k alias pw salt iv path msg, wf64 k ->
  xsign G smul encode hmac512 sha512 kdf ctr mac_hash
        (encrypt_key kdf ctr mac_hash k alias pw salt iv) alias path msg pw =
  match derive_prv G smul encode hmac512 k path with
  | Ok k' => Ok (sign G smul encode hmac512 sha512 k' msg)
  | Err e => Err e
  | Panic p => Panic p
  end.
Proof.
  intros Hc k alias pw salt iv path msg W. unfold xsign.
  rewrite load_stored by assumption. reflexivity.
Qed.
