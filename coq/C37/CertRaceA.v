(* C37 - no data race in the faithful system A: the explored set is closed under the step function
   and none of its states has two processes in conflicting regions (Proofs.certified_sound). *)
From Coq Require Import NArith List Bool.
From C37 Require Import Lts Model Proofs.
Import ListNotations.
Open Scope N_scope.

Lemma sysA_race_certified : certified sysA (fun s => negb (racy_b sysA s)) (explore sysA fuel) = true.
Proof. vm_compute. reflexivity. Qed.

Lemma sysA_no_race : no_race sysA.
Proof. exact (certified_no_race _ _ sysA_race_certified). Qed.
