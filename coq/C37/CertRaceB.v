(* C37 - no data race in the faithful system B: the explored set is closed under the step function
   and none of its states has two processes in conflicting regions (Proofs.certified_sound). *)
From Coq Require Import NArith List Bool.
From C37 Require Import Lts Model Proofs.
Import ListNotations.
Open Scope N_scope.

Lemma sysB_race_certified : certified sysB (fun s => negb (racy_b sysB s)) (explore sysB fuel) = true.
Proof. vm_compute. reflexivity. Qed.

Lemma sysB_no_race : no_race sysB.
Proof. exact (certified_no_race _ _ sysB_race_certified). Qed.
