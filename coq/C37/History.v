(* C37 - history: on the pinned tree Casper.authCachedMsg read the checkpoint tree BEFORE taking
   casper's lock.  The loop's skeleton below is the translator's output for the pinned source
   (kept by hand; everything else is the current generated skeleton).  The model finds the race, and
   the race detector reproduced it on the real node (read in treeNode.findOnlyOne called from
   authCachedMsg:161 against the write in treeNode.newChild called from ApplyBlock).  Repaired in
   /repo's working tree: the lock is taken at the top of authCachedMsg. *)
From Coq Require Import NArith List Bool.
From C37 Require Import Lts Model Proofs.
Import ListNotations.
Open Scope N_scope.

From VerifGen Require Import SyncSkel.

Definition proc_loop_pinned : list instr :=
 [ (* 0 casper/auth_verification.go:132 *) IOp (ARecv gchan_Casper_newEpochCh) [1];
   (* 1 auth_verification.go:146>auth_verification.go:161  c.tree.nodeByHash, no lock held *)
   IOp (AAcc [(field_Casper_tree, false, [])]) [0; 2];
   (* 2 auth_verification.go:146>auth_verification.go:172 *) IOp (ALock lock_Casper_mu) [3];
   (* 3 authVerification under the lock *) IOp (AAcc [(field_Casper_tree, false, []); (field_Casper_tree, true, [])]) [4];
   (* 4 auth_verification.go:146>auth_verification.go:173 *) IOp (AUnlock lock_Casper_mu) [1] ].

Definition sysA_pinned : sys :=
  mk [(proc_bp, false); (proc_loop_pinned, false); (proc_vote, true); (proc_vote, true);
      (proc_block, true); (proc_block, true); (proc_read, true)].

Lemma sysA_pinned_race_found : refuted sysA_pinned (racy_b sysA_pinned) fuel = true.
Proof. vm_compute. reflexivity. Qed.

Lemma sysA_pinned_refuted_race : ~ no_race sysA_pinned.
Proof. exact (refuted_no_race _ _ sysA_pinned_race_found). Qed.
