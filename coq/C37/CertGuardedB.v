(* C37 - system B, guarded variant: neither deadlock nor data race in any reachable state. *)
From Coq Require Import NArith List Bool.
From C37 Require Import Lts Model Proofs.
Import ListNotations.
Open Scope N_scope.

Lemma sysB_guarded_certified :
  certified sysB_guarded (fun s => negb (deadlocked_b sysB_guarded s) && negb (racy_b sysB_guarded s)) (explore sysB_guarded fuel) = true.
Proof. vm_compute. reflexivity. Qed.

Lemma sysB_guarded_ok : no_deadlock sysB_guarded /\ no_race sysB_guarded.
Proof. exact (certified_both _ _ sysB_guarded_certified). Qed.
