(* C37 - helpers for the correspondence cases: for the small configurations that the harness runs
   (one or two workers of a kind), the table of distinct program-counter vectors of the reachable
   states, each with the flag "this state is a deadlock".  A sampled goroutine dump projects onto
   {process -> pc}; proj_ok asks whether some reachable state of the model agrees with it. *)
From Coq Require Import NArith List Bool.
From C37 Require Import Lts Model.
From VerifGen Require Import SyncSkel.
Import ListNotations.
Open Scope N_scope.

(* bp 0, loop 1, then the vote, block, tx and read workers *)
Definition cfg (vote : list instr) (nv nb nt nr : nat) : sys :=
  mk ([(proc_bp, false); (proc_loop, false)] ++ repeat (vote, true) nv ++ repeat (proc_block, true) nb
      ++ repeat (proc_tx, true) nt ++ repeat (proc_read, true) nr).

Inductive ktree := KLeaf | KNode (l : ktree) (k : list N) (r : ktree).
Fixpoint kinsert (k : list N) (t : ktree) : ktree :=
  match t with
  | KLeaf => KNode KLeaf k KLeaf
  | KNode l k' r => match lex k k' with
                    | Eq => t
                    | Lt => KNode (kinsert k l) k' r
                    | Gt => KNode l k' (kinsert k r)
                    end
  end.
Fixpoint kvalues (t : ktree) (acc : list (list N)) : list (list N) :=
  match t with KLeaf => acc | KNode l k r => kvalues l (k :: kvalues r acc) end.

(* rows: deadlock flag :: program counters *)
Definition table (S : sys) : list (list N) :=
  kvalues (fold_left (fun t s => kinsert ((if deadlocked_b S s then 1 else 0) :: st_pc s) t)
                     (tvalues (explore S fuel) []) KLeaf) [].

Definition proj_ok (tbl : list (list N)) (need_deadlock : bool) (proj : list (N * N)) : bool :=
  existsb (fun row =>
    match row with
    | flag :: pcs => (negb need_deadlock || (flag =? 1))
                     && forallb (fun pp : N * N => match nthN pcs (fst pp) with Some v => v =? snd pp | None => false end) proj
    | [] => false
    end) tbl.

Fixpoint bools_eqb (a b : list bool) : bool :=
  match a, b with
  | [], [] => true
  | x :: a', y :: b' => Bool.eqb x y && bools_eqb a' b'
  | _, _ => false
  end.

Definition tbl_v1b0t0r0 := Eval vm_compute in table (cfg proc_vote 1 0 0 0).
Definition tbl_v1b0t0r1 := Eval vm_compute in table (cfg proc_vote 1 0 0 1).
Definition tbl_v1b1t0r0 := Eval vm_compute in table (cfg proc_vote 1 1 0 0).
Definition tbl_v1b1t0r1 := Eval vm_compute in table (cfg proc_vote 1 1 0 1).
Definition tbl_v1b1t1r1 := Eval vm_compute in table (cfg proc_vote 1 1 1 1).
Definition tbl_v2b1t0r1 := Eval vm_compute in table (cfg proc_vote 2 1 0 1).
Definition tbl_v1b2t0r1 := Eval vm_compute in table (cfg proc_vote 1 2 0 1).
Definition tbl_v0b2t1r1 := Eval vm_compute in table (cfg proc_vote 0 2 1 1).
Definition tbl_v0b1t2r1 := Eval vm_compute in table (cfg proc_vote 0 1 2 1).
Definition tbl_v0b2t0r1 := Eval vm_compute in table (cfg proc_vote 0 2 0 1).

(* the guarded model (no verification message moves the best chain), for the scenarios in which the
   harness knows that none can *)
Definition tblg_v1b1t1r1 := Eval vm_compute in table (cfg vote_guarded 1 1 1 1).
Definition tblg_v2b1t0r1 := Eval vm_compute in table (cfg vote_guarded 2 1 0 1).
Definition tblg_v1b2t0r1 := Eval vm_compute in table (cfg vote_guarded 1 2 0 1).
Definition tblg_v0b2t1r1 := tbl_v0b2t1r1.
Definition tblg_v0b1t2r1 := tbl_v0b1t2r1.
