(* C37 - the closed systems that are explored: the generated skeletons of the node's goroutines
   (coq/gen/SyncSkel.v, regenerated from /repo on every run) composed into finite configurations.
   No proofs here. *)
From Coq Require Import NArith List Bool.
From C37 Require Import Lts.
From VerifGen Require Import SyncSkel.
Import ListNotations.
Open Scope N_scope.

(* Capacities of the struct-field channels.  Every configuration below has at most two submitters
   of each kind and every message in such a channel is caused by one submission (processBlockCh: the
   submitted block; rollbackCh: one per verification message; newEpochCh: one per saved block, and a
   block is saved once), so never more than two messages are in flight in the node; the loops of the
   skeleton, being free choices, would otherwise invent unboundedly many.  Capacities above 2 are
   therefore cut to 2 (a smaller capacity in the source still shows). *)
Definition eff_caps : list N := map (N.min 2) gchan_caps.

Definition mk (ps : list (list instr * bool)) : sys :=
  {| procs := map fst ps; clients := map snd ps; nlocks := n_locks; gcaps := eff_caps; mcaps := mchan_caps |}.

(* System A (DESIGN.md/C37): the chain's block processor, casper's cached-vote loop, two
   verification-message submitters, two block submitters and a reader of the query API.
   Process ids: 0 bp, 1 loop, 2 vote, 3 vote, 4 block, 5 block, 6 read. *)
Definition sysA_of (vote : list instr) : sys :=
  mk [(proc_bp, false); (proc_loop, false); (vote, true); (vote, true);
      (proc_block, true); (proc_block, true); (proc_read, true)].

(* System B: the mempool side - block processor and cached-vote loop, one vote submitter, one block
   submitter, two transaction submitters, the orphan-expiry tick and a pool writer.
   Process ids: 0 bp, 1 loop, 2 vote, 3 block, 4 tx, 5 tx, 6 expire, 7 poolwrite. *)
Definition sysB_of (vote : list instr) : sys :=
  mk [(proc_bp, false); (proc_loop, false); (vote, true); (proc_block, true);
      (proc_tx, true); (proc_tx, true); (proc_expire, true); (proc_poolwrite, true)].

(* faithful: the skeleton as extracted *)
Definition sysA : sys := sysA_of proc_vote.
Definition sysB : sys := sysB_of proc_vote.

(* guarded: no verification message moves the best chain (the labelled branch in tryRollback is never taken) *)
Definition vote_guarded : list instr := never label_vote_moves_best_chain proc_vote.
Definition sysA_guarded : sys := sysA_of vote_guarded.
Definition sysB_guarded : sys := sysB_of vote_guarded.

(* repaired discipline: AuthVerification releases casper's lock around the rollback rendezvous *)
Definition vote_repaired : list instr :=
  unlock_around lock_Casper_mu gchan_Casper_rollbackCh mchan_RollbackMsg_Reply proc_vote.
(* (with the lock released the vote submitters interleave far more: system A is explored in two halves,
   two vote submitters with one block submitter, and one vote submitter with two block submitters) *)
Definition sysA_repaired_v2 : sys :=
  mk [(proc_bp, false); (proc_loop, false); (vote_repaired, true); (vote_repaired, true);
      (proc_block, true); (proc_read, true)].
Definition sysA_repaired_b2 : sys :=
  mk [(proc_bp, false); (proc_loop, false); (vote_repaired, true);
      (proc_block, true); (proc_block, true); (proc_read, true)].
Definition sysB_repaired : sys := sysB_of vote_repaired.

Definition fuel : nat := 3000.
