(* C37 - system A, guarded variant: neither deadlock nor data race in any reachable state. *)
From Coq Require Import NArith List Bool.
From C37 Require Import Lts Model Proofs.
Import ListNotations.
Open Scope N_scope.

Lemma sysA_guarded_certified :
  certified sysA_guarded (fun s => negb (deadlocked_b sysA_guarded s) && negb (racy_b sysA_guarded s)) (explore sysA_guarded fuel) = true.
Proof. vm_compute. reflexivity. Qed.

Lemma sysA_guarded_ok : no_deadlock sysA_guarded /\ no_race sysA_guarded.
Proof. exact (certified_both _ _ sysA_guarded_certified). Qed.
