(* C37 - concurrent block, vote and transaction processing neither races nor deadlocks.
   [partial: the theorems are about the synchronisation skeleton that tools/syncskel extracts from
   the source (data-dependent branches are free choices), composed into the finite configurations
   of Model.v; within a configuration they cover every interleaving and every history length.]

   Only property theorems here; proofs are in Proofs.v (soundness of the checked explorer, for all
   systems) and in the Cert*.v files (one exploration each). *)
From Coq Require Import NArith List Bool.
From C37 Require Import Lts Model Proofs CertFaithful CertRaceA CertRaceB CertGuardedA CertGuardedB
  CertRepairedAv2 CertRepairedAb2 CertRepairedB History.
Import ListNotations.

(* The full statement: in both configurations no reachable state is a deadlock (nothing can move
   and a call has not returned) and no reachable state has two goroutines inside conflicting
   unsynchronised accesses. *)
Definition C37_full : Prop :=
  no_deadlock sysA /\ no_race sysA /\ no_deadlock sysB /\ no_race sysB.

(* the checked explorer: a set that contains the initial state, is closed under the step function
   and satisfies P everywhere proves P of every reachable state - any system, any set *)
Theorem c37_explorer_sound : forall (S : sys) (P : state -> bool) (T : tree),
  certified S P T = true -> forall s, reachable S s -> P s = true.
Proof. exact certified_sound. Qed.
Print Assumptions c37_explorer_sound.

(* a path that checks step by step exhibits a reachable state *)
Theorem c37_witness_sound : forall (S : sys) (P : state -> bool) (path : list state),
  witness_ok S P path = true -> exists s, reachable S s /\ P s = true.
Proof. exact witness_sound. Qed.
Print Assumptions c37_witness_sound.

(* REFUTED on the current tree: a verification message that moves the best chain deadlocks the
   node (AuthVerification holds casper's lock while tryRollback waits for the chain's reply; the
   chain's goroutine needs that lock in setState -> LastFinalized) *)
Theorem c37_refuted_deadlock : ~ no_deadlock sysA /\ ~ no_deadlock sysB.
Proof. exact (conj sysA_refuted_deadlock sysB_refuted_deadlock). Qed.
Print Assumptions c37_refuted_deadlock.

Theorem C37_refuted_auth_rollback_lock_cycle : ~ C37_full.
Proof. intros [H _]. exact (sysA_refuted_deadlock H). Qed.
Print Assumptions C37_refuted_auth_rollback_lock_cycle.

(* no data race (after the repair of authCachedMsg), deadlock or not *)
Theorem c37_no_race : no_race sysA /\ no_race sysB.
Proof. exact (conj sysA_no_race sysB_no_race). Qed.
Print Assumptions c37_no_race.

(* outside the witness class - histories in which no verification message moves the best chain
   (the labelled branch of tryRollback is never taken) - the full statement holds *)
Theorem c37_holds_outside :
  no_deadlock sysA_guarded /\ no_race sysA_guarded /\ no_deadlock sysB_guarded /\ no_race sysB_guarded.
Proof.
  exact (conj (proj1 sysA_guarded_ok) (conj (proj2 sysA_guarded_ok) (conj (proj1 sysB_guarded_ok) (proj2 sysB_guarded_ok)))).
Qed.
Print Assumptions c37_holds_outside.

(* what would make it hold: release casper's lock around the rollback rendezvous *)
Theorem c37_holds_repaired :
  (no_deadlock sysA_repaired_v2 /\ no_race sysA_repaired_v2) /\
  (no_deadlock sysA_repaired_b2 /\ no_race sysA_repaired_b2) /\
  (no_deadlock sysB_repaired /\ no_race sysB_repaired).
Proof. exact (conj sysA_repaired_v2_ok (conj sysA_repaired_b2_ok sysB_repaired_ok)). Qed.
Print Assumptions c37_holds_repaired.

(* history: the pinned authCachedMsg (tree read before the lock) races *)
Theorem c37_pinned_refuted_race : ~ no_race sysA_pinned.
Proof. exact sysA_pinned_refuted_race. Qed.
Print Assumptions c37_pinned_refuted_race.
