(* C37 - the faithful skeleton deadlocks: a reachable state in which nothing can move and a call
   has not returned is found by the search and re-checked step by step (Proofs.refuted_sound).
   The statement does not mention program counters, so it survives harmless edits of the source. *)
From Coq Require Import NArith List Bool.
From C37 Require Import Lts Model Proofs.
From VerifGen Require Import SyncSkel.
Import ListNotations.
Open Scope N_scope.

Lemma sysA_deadlock_found : refuted sysA (deadlocked_b sysA) fuel = true.
Proof. vm_compute. reflexivity. Qed.

Lemma sysB_deadlock_found : refuted sysB (deadlocked_b sysB) fuel = true.
Proof. vm_compute. reflexivity. Qed.

Lemma sysA_refuted_deadlock : ~ no_deadlock sysA.
Proof. exact (refuted_no_deadlock _ _ sysA_deadlock_found). Qed.

Lemma sysB_refuted_deadlock : ~ no_deadlock sysB.
Proof. exact (refuted_no_deadlock _ _ sysB_deadlock_found). Qed.

(* the deadlock needs a verification message that moves the best chain: with the branch forced the
   other way it is still found, with the branch never taken it is not (CertGuardedA/B) *)
Lemma sysA_deadlock_needs_one_vote :
  refuted (mk [(SyncSkel.proc_bp, false); (SyncSkel.proc_loop, false); (SyncSkel.proc_vote, true)])
          (deadlocked_b (mk [(SyncSkel.proc_bp, false); (SyncSkel.proc_loop, false); (SyncSkel.proc_vote, true)])) fuel = true.
Proof. vm_compute. reflexivity. Qed.
