(* C37 - system B, repaired variant: neither deadlock nor data race in any reachable state. *)
From Coq Require Import NArith List Bool.
From C37 Require Import Lts Model Proofs.
Import ListNotations.
Open Scope N_scope.

Lemma sysB_repaired_certified :
  certified sysB_repaired (fun s => negb (deadlocked_b sysB_repaired s) && negb (racy_b sysB_repaired s)) (explore sysB_repaired fuel) = true.
Proof. vm_compute. reflexivity. Qed.

Lemma sysB_repaired_ok : no_deadlock sysB_repaired /\ no_race sysB_repaired.
Proof. exact (certified_both _ _ sysB_repaired_certified). Qed.
