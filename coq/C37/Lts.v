(* C37 - a small process language for synchronisation skeletons, its small-step semantics for N
   concurrent processes, and an explorer whose result is CHECKED (closure under the step function),
   so that a successful check is a proof about every reachable state.

   Processes are control-flow graphs (one instruction per program counter).  The skeletons of the
   node's goroutines are generated from the Go source by tools/syncskel (coq/gen/SyncSkel.v).

   No proofs in this file (executable definitions only); the proofs are in Proofs.v. *)
From Coq Require Import NArith List Bool.
Import ListNotations.
Open Scope N_scope.

(* ------------------------------------------------------------------ syntax *)

(* owner of a per-message channel: the process itself (it built the message) or the process whose
   message it last received (kept in its register) *)
Inductive who := Self | Reg.

Inductive act :=
| ALock (l : N) | AUnlock (l : N)          (* sync.Mutex, or the write side of a sync.RWMutex *)
| ARLock (l : N) | ARUnlock (l : N)        (* read side of a sync.RWMutex *)
| ASend (c : N) | ARecv (c : N)            (* buffered channel held in a struct field; the payload is the sender's id *)
| ASendM (c : N) (w : who) | ARecvM (c : N) (w : who)  (* reply channel carried inside a message (class c, one instance per owner) *)
| AAcc (xs : list (N * bool * list (N * bool)))
    (* a region without blocking operations that may access the fields xs: (field, is-write, leaf
       locks held at the access, each with is-write-mode).  Leaf locks are locks whose critical
       sections contain no other blocking operation (checked by the translator); they are not part
       of the explored state, only of the race predicate *)
| ATau.

Inductive instr :=
| IOp (a : act) (next : list N)            (* perform a, continue at any of next (data-dependent branching = free choice) *)
| IBranch (lbl : N) (t e : list N)         (* a named data-dependent branch: then-successors, else-successors *)
| ISel (alts : list (act * list N))        (* Go select: any enabled alternative *)
| IHalt.

Record sys := {
  procs : list (list instr);   (* process p starts at pc 0 of its graph *)
  clients : list bool;         (* true: a call that must return (a client); false: a server loop of the node *)
  nlocks : N;
  gcaps : list N;              (* capacity (>= 1) of every struct-field channel *)
  mcaps : list N               (* capacity of every per-message channel class; 0 = rendezvous *)
}.

(* ------------------------------------------------------------------ state *)

Record lockst := { lw : option N;     (* writer *)
                   lp : option N;     (* a writer that has announced itself and waits for the readers to leave *)
                   lr : list N }.     (* readers (sorted, with multiplicity) *)

Record state := {
  st_pc : list N;
  st_reg : list N;
  st_lk : list lockst;
  st_gq : list (list N);       (* queue contents (sender ids) *)
  st_mq : list (list N)        (* per class: number of buffered items per owner *)
}.

(* ---- list helpers over N indices *)
Fixpoint nthN {A} (l : list A) (n : N) : option A :=
  match l with
  | [] => None
  | x :: t => if n =? 0 then Some x else nthN t (n - 1)
  end.

Fixpoint updN {A} (l : list A) (n : N) (v : A) : list A :=
  match l with
  | [] => []
  | x :: t => if n =? 0 then v :: t else x :: updN t (n - 1) v
  end.

Fixpoint repeatN {A} (x : A) (l : list unit) : list A :=
  match l with [] => [] | _ :: t => x :: repeatN x t end.

Definition lenN {A} (l : list A) : N := N.of_nat (length l).

Fixpoint insert_sorted (x : N) (l : list N) : list N :=
  match l with
  | [] => [x]
  | y :: t => if x <=? y then x :: l else y :: insert_sorted x t
  end.

Fixpoint remove_one (x : N) (l : list N) : option (list N) :=
  match l with
  | [] => None
  | y :: t => if x =? y then Some t else
              match remove_one x t with Some t' => Some (y :: t') | None => None end
  end.

Definition opt_is (o : option N) (p : N) : bool :=
  match o with Some q => q =? p | None => false end.
Definition opt_none {A} (o : option A) : bool :=
  match o with Some _ => false | None => true end.

Definition units {A} (l : list A) : list unit := map (fun _ => tt) l.

Fixpoint seqN (start : N) (l : list unit) : list N :=
  match l with [] => [] | _ :: t => start :: seqN (start + 1) t end.

Definition pids (S : sys) : list N := seqN 0 (units (procs S)).

Definition init (S : sys) : state :=
  {| st_pc := repeatN 0 (units (procs S));
     st_reg := repeatN 0 (units (procs S));
     st_lk := repeat {| lw := None; lp := None; lr := [] |} (N.to_nat (nlocks S));
     st_gq := repeatN [] (units (gcaps S));
     st_mq := repeatN (repeatN 0 (units (procs S))) (units (mcaps S)) |}.

Definition instr_at (S : sys) (s : state) (p : N) : instr :=
  match nthN (procs S) p, nthN (st_pc s) p with
  | Some prog, Some pc => match nthN prog pc with Some i => i | None => IHalt end
  | _, _ => IHalt
  end.

Definition reg_of (s : state) (p : N) : N :=
  match nthN (st_reg s) p with Some v => v | None => 0 end.

Definition owner (s : state) (p : N) (w : who) : N :=
  match w with Self => p | Reg => reg_of s p end.

Definition set_pc (s : state) (p pc : N) : state :=
  {| st_pc := updN (st_pc s) p pc; st_reg := st_reg s; st_lk := st_lk s; st_gq := st_gq s; st_mq := st_mq s |}.
Definition set_reg (s : state) (p v : N) : state :=
  {| st_pc := st_pc s; st_reg := updN (st_reg s) p v; st_lk := st_lk s; st_gq := st_gq s; st_mq := st_mq s |}.
Definition set_lk (s : state) (l : N) (L : lockst) : state :=
  {| st_pc := st_pc s; st_reg := st_reg s; st_lk := updN (st_lk s) l L; st_gq := st_gq s; st_mq := st_mq s |}.
Definition set_gq (s : state) (c : N) (q : list N) : state :=
  {| st_pc := st_pc s; st_reg := st_reg s; st_lk := st_lk s; st_gq := updN (st_gq s) c q; st_mq := st_mq s |}.
Definition set_mq (s : state) (c o v : N) : state :=
  {| st_pc := st_pc s; st_reg := st_reg s; st_lk := st_lk s; st_gq := st_gq s;
     st_mq := match nthN (st_mq s) c with Some row => updN (st_mq s) c (updN row o v) | None => st_mq s end |}.

Definition mq_of (s : state) (c o : N) : N :=
  match nthN (st_mq s) c with
  | Some row => match nthN row o with Some v => v | None => 0 end
  | None => 0
  end.

(* ------------------------------------------------------------------ semantics *)

(* Effect of an action of process p on the shared state.  Result: the possible outcomes, each with
   a flag "the action is complete" (false: p stays at the same instruction - a writer that has
   announced itself to a sync.RWMutex and now waits for the readers).  [] = not enabled.

   sync.RWMutex as implemented by Go: Lock first excludes other writers, then announces itself (new
   readers block from that moment on), then waits until the active readers have left. *)
Definition act_step (S : sys) (s : state) (p : N) (a : act) : list (state * bool) :=
  match a with
  | ALock l =>
      match nthN (st_lk s) l with
      | None => []
      | Some L =>
          if opt_is (lp L) p then
            match lr L with
            | [] => [(set_lk s l {| lw := Some p; lp := None; lr := [] |}, true)]
            | _ => []
            end
          else if opt_none (lw L) && opt_none (lp L) then
            match lr L with
            | [] => [(set_lk s l {| lw := Some p; lp := None; lr := [] |}, true)]
            | _ => [(set_lk s l {| lw := None; lp := Some p; lr := lr L |}, false)]
            end
          else []
      end
  | AUnlock l =>
      match nthN (st_lk s) l with
      | None => []
      | Some L => if opt_is (lw L) p then [(set_lk s l {| lw := None; lp := lp L; lr := lr L |}, true)] else []
      end
  | ARLock l =>
      match nthN (st_lk s) l with
      | None => []
      | Some L => if opt_none (lw L) && opt_none (lp L)
                  then [(set_lk s l {| lw := None; lp := None; lr := insert_sorted p (lr L) |}, true)] else []
      end
  | ARUnlock l =>
      match nthN (st_lk s) l with
      | None => []
      | Some L => match remove_one p (lr L) with
                  | Some r => [(set_lk s l {| lw := lw L; lp := lp L; lr := r |}, true)]
                  | None => []
                  end
      end
  | ASend c =>
      match nthN (st_gq s) c, nthN (gcaps S) c with
      | Some q, Some cap => if lenN q <? cap then [(set_gq s c (q ++ [p]), true)] else []
      | _, _ => []
      end
  | ARecv c =>
      match nthN (st_gq s) c with
      | Some (v :: q) => [(set_reg (set_gq s c q) p v, true)]
      | _ => []
      end
  | ASendM c w =>
      match nthN (mcaps S) c with
      | Some cap => if (0 <? cap) && (mq_of s c (owner s p w) <? cap)
                    then [(set_mq s c (owner s p w) (mq_of s c (owner s p w) + 1), true)] else []
      | None => []
      end
  | ARecvM c w =>
      match nthN (mcaps S) c with
      | Some cap => if (0 <? cap) && (0 <? mq_of s c (owner s p w))
                    then [(set_mq s c (owner s p w) (mq_of s c (owner s p w) - 1), true)] else []
      | None => []
      end
  | AAcc _ => [(s, true)]
  | ATau => [(s, true)]
  end.

(* rendezvous on an unbuffered per-message channel: the sender p and a receiver q that waits on the
   same instance move together *)
Definition rendezvous (S : sys) (s : state) (p : N) (c : N) (w : who) (next : list N) : list state :=
  match nthN (mcaps S) c with
  | Some 0 =>
      flat_map (fun q =>
        if q =? p then [] else
        match instr_at S s q with
        | IOp (ARecvM c' w') next' =>
            if (c' =? c) && (owner s q w' =? owner s p w)
            then flat_map (fun n => map (fun n' => set_pc (set_pc s p n) q n') next') next
            else []
        | _ => []
        end) (pids S)
  | _ => []
  end.

Definition op_step (S : sys) (s : state) (p : N) (a : act) (next : list N) : list state :=
  flat_map (fun sc : state * bool => if snd sc then map (fun n => set_pc (fst sc) p n) next else [fst sc])
           (act_step S s p a)
  ++ match a with ASendM c w => rendezvous S s p c w next | _ => [] end.

Definition pstep (S : sys) (s : state) (p : N) : list state :=
  match instr_at S s p with
  | IOp a next => op_step S s p a next
  | IBranch _ t e => map (fun n => set_pc s p n) (t ++ e)
  | ISel alts => flat_map (fun an : act * list N => op_step S s p (fst an) (snd an)) alts
  | IHalt => []
  end.

Definition succs (S : sys) (s : state) : list state := flat_map (pstep S s) (pids S).

Definition step (S : sys) (s s' : state) : Prop := In s' (succs S s).

Inductive reachable (S : sys) : state -> Prop :=
| reach_init : reachable S (init S)
| reach_step : forall s s', reachable S s -> step S s s' -> reachable S s'.

(* ------------------------------------------------------------------ the two properties *)

Definition is_halt (i : instr) : bool := match i with IHalt => true | _ => false end.

(* a client (a call made by a peer handler, the RPC layer, the miner ...) that has not returned *)
Definition pending_client (S : sys) (s : state) : bool :=
  existsb (fun p => match nthN (clients S) p with
                    | Some true => negb (is_halt (instr_at S s p))
                    | _ => false end) (pids S).

(* nothing can move any more, and some call has not returned *)
Definition deadlocked_b (S : sys) (s : state) : bool :=
  match succs S s with [] => pending_client S s | _ => false end.

(* two locksets exclude each other when they share a lock that one side holds in write mode *)
Definition excl (h1 h2 : list (N * bool)) : bool :=
  existsb (fun a : N * bool => existsb (fun b : N * bool => (fst a =? fst b) && (snd a || snd b)) h2) h1.

Definition conflict (xs ys : list (N * bool * list (N * bool))) : bool :=
  existsb (fun x : N * bool * list (N * bool) =>
    existsb (fun y : N * bool * list (N * bool) =>
      (fst (fst x) =? fst (fst y)) && (snd (fst x) || snd (fst y)) && negb (excl (snd x) (snd y))) ys) xs.

Definition acc_of (i : instr) : list (N * bool * list (N * bool)) :=
  match i with IOp (AAcc xs) _ => xs | _ => [] end.

(* two processes are inside synchronisation-free regions that touch the same field, one of them writing *)
Definition racy_b (S : sys) (s : state) : bool :=
  existsb (fun p => existsb (fun q => (p <? q) && conflict (acc_of (instr_at S s p)) (acc_of (instr_at S s q)))
                            (pids S)) (pids S).

Definition no_deadlock (S : sys) : Prop := forall s, reachable S s -> deadlocked_b S s = false.
Definition no_race (S : sys) : Prop := forall s, reachable S s -> racy_b S s = false.

(* ------------------------------------------------------------------ state keys and the state store *)

Definition optN_key (o : option N) : N := match o with Some v => v + 1 | None => 0 end.

Definition key (s : state) : list N :=
  st_pc s ++ st_reg s
  ++ flat_map (fun L => optN_key (lw L) :: optN_key (lp L) :: lenN (lr L) :: lr L) (st_lk s)
  ++ flat_map (fun q => lenN q :: q) (st_gq s)
  ++ concat (st_mq s).

Fixpoint lex (a b : list N) : comparison :=
  match a, b with
  | [], [] => Eq
  | [], _ => Lt
  | _, [] => Gt
  | x :: a', y :: b' => match x ?= y with Eq => lex a' b' | c => c end
  end.

(* decidable equality of states (sound by Proofs.state_eqb_eq) *)
Fixpoint listN_eqb (a b : list N) : bool :=
  match a, b with
  | [], [] => true
  | x :: a', y :: b' => (x =? y) && listN_eqb a' b'
  | _, _ => false
  end.
Definition optN_eqb (a b : option N) : bool :=
  match a, b with Some x, Some y => x =? y | None, None => true | _, _ => false end.
Definition lockst_eqb (a b : lockst) : bool :=
  optN_eqb (lw a) (lw b) && optN_eqb (lp a) (lp b) && listN_eqb (lr a) (lr b).
Fixpoint list_eqb {A} (f : A -> A -> bool) (a b : list A) : bool :=
  match a, b with
  | [], [] => true
  | x :: a', y :: b' => f x y && list_eqb f a' b'
  | _, _ => false
  end.
Definition state_eqb (a b : state) : bool :=
  listN_eqb (st_pc a) (st_pc b) && listN_eqb (st_reg a) (st_reg b) && list_eqb lockst_eqb (st_lk a) (st_lk b)
  && list_eqb listN_eqb (st_gq a) (st_gq b) && list_eqb listN_eqb (st_mq a) (st_mq b).

(* a binary search tree of states ordered by key; value = (state, the state it was first reached from).
   The soundness argument needs no ordering invariant: only "found => listed". *)
Inductive tree :=
| Leaf
| Node (l : tree) (k : list N) (s : state) (parent : option state) (r : tree).

Fixpoint tfind (k : list N) (t : tree) : option (state * option state) :=
  match t with
  | Leaf => None
  | Node l k' s par r =>
      match lex k k' with
      | Eq => Some (s, par)
      | Lt => tfind k l
      | Gt => tfind k r
      end
  end.

Fixpoint tinsert (k : list N) (s : state) (par : option state) (t : tree) : tree :=
  match t with
  | Leaf => Node Leaf k s par Leaf
  | Node l k' s' par' r =>
      match lex k k' with
      | Eq => t
      | Lt => Node (tinsert k s par l) k' s' par' r
      | Gt => Node l k' s' par' (tinsert k s par r)
      end
  end.

Fixpoint tvalues (t : tree) (acc : list state) : list state :=
  match t with
  | Leaf => acc
  | Node l _ s _ r => tvalues l (s :: tvalues r acc)
  end.

Fixpoint tsize (t : tree) : N :=
  match t with Leaf => 0 | Node l _ _ _ r => tsize l + 1 + tsize r end.

Definition tmem (s : state) (t : tree) : bool :=
  match tfind (key s) t with Some (s', _) => state_eqb s s' | None => false end.

(* the keys are scrambled a little so that the insertion order of a breadth-first search does not
   degenerate the (unbalanced) tree: the first key digit is a hash of the rest *)
Definition hash (k : list N) : N :=
  fold_left (fun h x => N.land (N.lxor (N.shiftl h 3) (h + x + 5)) 1048575) k 17.
Definition skey (s : state) : list N := let k := key s in hash k :: k.

Definition tmem' (s : state) (t : tree) : bool :=
  match tfind (skey s) t with Some (s', _) => state_eqb s s' | None => false end.

(* ------------------------------------------------------------------ explorer (not trusted) *)

Definition visit (S : sys) (from : state) (acc : tree * list state) (s' : state) : tree * list state :=
  let '(t, new) := acc in
  match tfind (skey s') t with
  | Some _ => acc
  | None => (tinsert (skey s') s' (Some from) t, s' :: new)
  end.

Definition expand (S : sys) (acc : tree * list state) (s : state) : tree * list state :=
  fold_left (visit S s) (succs S s) acc.

Fixpoint bfs (S : sys) (fuel : nat) (frontier : list state) (t : tree) : tree :=
  match fuel with
  | O => t
  | Datatypes.S f =>
      match frontier with
      | [] => t
      | _ => let '(t', new) := fold_left (expand S) frontier (t, []) in bfs S f (rev new) t'
      end
  end.

Definition explore (S : sys) (fuel : nat) : tree :=
  let s0 := init S in bfs S fuel [s0] (tinsert (skey s0) s0 None Leaf).

(* ------------------------------------------------------------------ the check (trusted through Proofs.certified_sound) *)

(* T contains the initial state, is closed under the step function, and P holds of every state in T *)
Definition certified (S : sys) (P : state -> bool) (T : tree) : bool :=
  tmem' (init S) T
  && forallb (fun s => P s && forallb (fun s' => tmem' s' T) (succs S s)) (tvalues T []).

(* ------------------------------------------------------------------ witnesses *)

(* a path is a list of states, each a successor of the previous one, starting at the initial state *)
Fixpoint path_ok (S : sys) (cur : state) (rest : list state) : bool :=
  match rest with
  | [] => true
  | s' :: more => existsb (state_eqb s') (succs S cur) && path_ok S s' more
  end.

Fixpoint last_of (cur : state) (rest : list state) : state :=
  match rest with [] => cur | s' :: more => last_of s' more end.

(* walk the parent pointers back to the initial state *)
Fixpoint trace_back (fuel : nat) (T : tree) (s : state) (acc : list state) : list state :=
  match fuel with
  | O => acc
  | Datatypes.S f =>
      match tfind (skey s) T with
      | Some (_, Some par) => trace_back f T par (s :: acc)
      | _ => acc
      end
  end.

(* first state (in tree order) satisfying a predicate *)
Definition find_state (P : state -> bool) (T : tree) : option state := find P (tvalues T []).

(* a path from the initial state to a state satisfying P, if the explored set contains one *)
Definition witness (S : sys) (P : state -> bool) (T : tree) : option (list state) :=
  match find_state P T with
  | Some s => Some (trace_back 4000 T s [])
  | None => None
  end.

Definition witness_ok (S : sys) (P : state -> bool) (path : list state) : bool :=
  path_ok S (init S) path && P (last_of (init S) path).

(* breadth-first search that stops at the first level containing a state that satisfies P; returns
   the path from the initial state (not trusted: the path is re-checked by witness_ok) *)
Fixpoint search_from (S : sys) (P : state -> bool) (fuel : nat) (frontier : list state) (t : tree) : option (list state) :=
  match fuel with
  | O => None
  | Datatypes.S f =>
      match find P frontier with
      | Some s => Some (trace_back 4000 t s [])
      | None =>
          match frontier with
          | [] => None
          | _ => let '(t', new) := fold_left (expand S) frontier (t, []) in search_from S P f (rev new) t'
          end
      end
  end.

Definition search (S : sys) (P : state -> bool) (fuel : nat) : option (list state) :=
  let s0 := init S in search_from S P fuel [s0] (tinsert (skey s0) s0 None Leaf).

(* search, then re-check the path found: true only if a reachable P-state has been exhibited *)
Definition refuted (S : sys) (P : state -> bool) (fuel : nat) : bool :=
  match search S P fuel with
  | Some path => witness_ok S P path
  | None => false
  end.

(* ------------------------------------------------------------------ system transformers *)

(* the named branch lbl is never taken (its then-side is cut off) *)
Definition never (lbl : N) (prog : list instr) : list instr :=
  map (fun i => match i with
                | IBranch l t e => if l =? lbl then IOp ATau e else i
                | _ => i end) prog.

(* the named branch lbl is always taken *)
Definition always (lbl : N) (prog : list instr) : list instr :=
  map (fun i => match i with
                | IBranch l t e => if l =? lbl then IOp ATau t else i
                | _ => i end) prog.

(* "release the lock around the wait": lock l is released before every send on the struct-field
   channel c and re-acquired after the reply on the per-message channel m has been received.
   The extra instructions are appended after the original graph (position len + i for node i). *)
Definition unlock_around (l c m : N) (prog : list instr) : list instr :=
  let n := lenN prog in
  let idx := seqN 0 (units prog) in
  map (fun '(i, ins) =>
         match ins with
         | IOp (ASend c') next => if c' =? c then IOp (AUnlock l) [n + i] else ins
         | IOp (ARecvM m' Self) next => if m' =? m then IOp (ARecvM m' Self) [n + i] else ins
         | _ => ins
         end) (combine idx prog)
  ++ map (fun ins =>
         match ins with
         | IOp (ASend c') next => if c' =? c then IOp (ASend c') next else IHalt
         | IOp (ARecvM m' Self) next => if m' =? m then IOp (ALock l) next else IHalt
         | _ => IHalt
         end) prog.

(* ------------------------------------------------------------------ projections used by the correspondence cases *)

(* some explored state has the given program counters at the given processes (and satisfies Q) *)
Definition pcs_match (s : state) (proj : list (N * N)) : bool :=
  forallb (fun '(p, pc) => match nthN (st_pc s) p with Some v => v =? pc | None => false end) proj.

Definition exists_state (Q : state -> bool) (states : list state) (proj : list (N * N)) : bool :=
  existsb (fun s => pcs_match s proj && Q s) states.
