(* C37 - sysA_repaired_b2 (casper's lock released around the rollback rendezvous): neither deadlock nor data
   race in any reachable state. *)
From Coq Require Import NArith List Bool.
From C37 Require Import Lts Model Proofs.
Import ListNotations.
Open Scope N_scope.

Lemma sysA_repaired_b2_certified :
  certified sysA_repaired_b2 (fun s => negb (deadlocked_b sysA_repaired_b2 s) && negb (racy_b sysA_repaired_b2 s)) (explore sysA_repaired_b2 fuel) = true.
Proof. vm_compute. reflexivity. Qed.

Lemma sysA_repaired_b2_ok : no_deadlock sysA_repaired_b2 /\ no_race sysA_repaired_b2.
Proof. exact (certified_both _ _ sysA_repaired_b2_certified). Qed.
