(* C37 - soundness of the checked explorer and of the witness checker (for ALL systems, ALL state
   sets, ALL paths: nothing here depends on the generated skeleton). *)
From Coq Require Import NArith List Bool.
From C37 Require Import Lts.
Import ListNotations.
Open Scope N_scope.

(* ---- decidable equalities *)
Lemma listN_eqb_eq : forall a b, listN_eqb a b = true -> a = b.
Proof.
  induction a as [|x a IH]; destruct b as [|y b]; simpl; intros H; try discriminate; auto.
  apply andb_true_iff in H. destruct H as [H1 H2].
  apply N.eqb_eq in H1. subst. f_equal. auto.
Qed.

Lemma optN_eqb_eq : forall a b, optN_eqb a b = true -> a = b.
Proof.
  destruct a, b; simpl; intros H; try discriminate; auto.
  apply N.eqb_eq in H. subst. auto.
Qed.

Lemma lockst_eqb_eq : forall a b, lockst_eqb a b = true -> a = b.
Proof.
  intros [w1 p1 r1] [w2 p2 r2]. unfold lockst_eqb. simpl. intros H.
  apply andb_true_iff in H. destruct H as [H H3].
  apply andb_true_iff in H. destruct H as [H1 H2].
  apply optN_eqb_eq in H1. apply optN_eqb_eq in H2. apply listN_eqb_eq in H3. subst. reflexivity.
Qed.

Lemma list_eqb_eq : forall A (f : A -> A -> bool), (forall x y, f x y = true -> x = y) ->
  forall a b, list_eqb f a b = true -> a = b.
Proof.
  intros A f Hf. induction a as [|x a IH]; destruct b as [|y b]; simpl; intros H; try discriminate; auto.
  apply andb_true_iff in H. destruct H as [H1 H2]. apply Hf in H1. subst. f_equal. auto.
Qed.

Lemma state_eqb_eq : forall a b, state_eqb a b = true -> a = b.
Proof.
  intros [pc1 rg1 lk1 gq1 mq1] [pc2 rg2 lk2 gq2 mq2]. unfold state_eqb. simpl. intros H.
  apply andb_true_iff in H. destruct H as [H H5].
  apply andb_true_iff in H. destruct H as [H H4].
  apply andb_true_iff in H. destruct H as [H H3].
  apply andb_true_iff in H. destruct H as [H1 H2].
  apply listN_eqb_eq in H1. apply listN_eqb_eq in H2.
  apply (list_eqb_eq _ _ lockst_eqb_eq) in H3.
  apply (list_eqb_eq _ _ listN_eqb_eq) in H4.
  apply (list_eqb_eq _ _ listN_eqb_eq) in H5.
  subst. reflexivity.
Qed.

Lemma listN_eqb_refl : forall a, listN_eqb a a = true.
Proof. induction a; simpl; auto. rewrite N.eqb_refl. auto. Qed.

(* ---- the state store: whatever is found is listed (no ordering invariant needed) *)
Lemma tvalues_acc : forall t acc x, In x acc -> In x (tvalues t acc).
Proof.
  induction t as [|l IHl k s par r IHr]; simpl; intros acc x H; auto.
  apply IHl. right. apply IHr. exact H.
Qed.

Lemma tfind_in : forall t k s par acc, tfind k t = Some (s, par) -> In s (tvalues t acc).
Proof.
  induction t as [|l IHl k' s' par' r IHr]; simpl; intros k s par acc H; try discriminate.
  destruct (lex k k').
  - inversion H; subst. apply tvalues_acc. left. reflexivity.
  - eapply IHl. exact H.
  - apply tvalues_acc. right. eapply IHr. exact H.
Qed.

Lemma tmem'_in : forall s T, tmem' s T = true -> In s (tvalues T []).
Proof.
  unfold tmem'. intros s T H.
  destruct (tfind (skey s) T) as [[s' par]|] eqn:E; try discriminate.
  apply state_eqb_eq in H. subst s'. eapply tfind_in. exact E.
Qed.

(* ---- the certified explorer *)
Theorem certified_sound : forall (S : sys) (P : state -> bool) (T : tree),
  certified S P T = true -> forall s, reachable S s -> P s = true.
Proof.
  intros S P T H.
  unfold certified in H. apply andb_true_iff in H. destruct H as [Hinit Hall].
  rewrite forallb_forall in Hall.
  assert (Hmem : forall s, reachable S s -> tmem' s T = true).
  { intros s Hr. induction Hr as [|s s' Hr IH Hstep].
    - exact Hinit.
    - apply tmem'_in in IH. apply Hall in IH.
      apply andb_true_iff in IH. destruct IH as [_ Hsucc].
      rewrite forallb_forall in Hsucc. apply Hsucc. exact Hstep. }
  intros s Hr. apply Hmem in Hr. apply tmem'_in in Hr. apply Hall in Hr.
  apply andb_true_iff in Hr. destruct Hr as [HP _]. exact HP.
Qed.

Corollary certified_no_deadlock : forall S T,
  certified S (fun s => negb (deadlocked_b S s)) T = true -> no_deadlock S.
Proof.
  intros S T H s Hr. apply (certified_sound _ _ _ H) in Hr. apply negb_true_iff in Hr. exact Hr.
Qed.

Corollary certified_no_race : forall S T,
  certified S (fun s => negb (racy_b S s)) T = true -> no_race S.
Proof.
  intros S T H s Hr. apply (certified_sound _ _ _ H) in Hr. apply negb_true_iff in Hr. exact Hr.
Qed.

Corollary certified_both : forall S T,
  certified S (fun s => negb (deadlocked_b S s) && negb (racy_b S s)) T = true -> no_deadlock S /\ no_race S.
Proof.
  intros S T H. split; intros s Hr; apply (certified_sound _ _ _ H) in Hr;
    apply andb_true_iff in Hr; destruct Hr as [H1 H2]; apply negb_true_iff; assumption.
Qed.

(* ---- witnesses *)
Lemma path_ok_reachable : forall S rest cur, reachable S cur -> path_ok S cur rest = true ->
  reachable S (last_of cur rest).
Proof.
  intros S. induction rest as [|s' more IH]; simpl; intros cur Hr H; auto.
  apply andb_true_iff in H. destruct H as [H1 H2].
  apply existsb_exists in H1. destruct H1 as [x [Hin Heq]].
  apply state_eqb_eq in Heq. subst x.
  apply IH; auto. eapply reach_step; eauto.
Qed.

Theorem witness_sound : forall S P path, witness_ok S P path = true ->
  exists s, reachable S s /\ P s = true.
Proof.
  intros S P path H. unfold witness_ok in H. apply andb_true_iff in H. destruct H as [H1 H2].
  exists (last_of (init S) path). split; auto.
  apply path_ok_reachable; auto. constructor.
Qed.

Corollary witness_refutes_no_deadlock : forall S path,
  witness_ok S (deadlocked_b S) path = true -> ~ no_deadlock S.
Proof.
  intros S path H Hnd. apply witness_sound in H. destruct H as [s [Hr Hd]].
  rewrite (Hnd s Hr) in Hd. discriminate.
Qed.

Corollary witness_refutes_no_race : forall S path,
  witness_ok S (racy_b S) path = true -> ~ no_race S.
Proof.
  intros S path H Hnr. apply witness_sound in H. destruct H as [s [Hr Hd]].
  rewrite (Hnr s Hr) in Hd. discriminate.
Qed.

Theorem refuted_sound : forall S P fuel, refuted S P fuel = true -> exists s, reachable S s /\ P s = true.
Proof.
  intros S P fuel H. unfold refuted in H. destruct (search S P fuel) as [path|]; try discriminate.
  eapply witness_sound. exact H.
Qed.

Corollary refuted_no_deadlock : forall S fuel, refuted S (deadlocked_b S) fuel = true -> ~ no_deadlock S.
Proof.
  intros S fuel H Hnd. apply refuted_sound in H. destruct H as [s [Hr Hd]].
  rewrite (Hnd s Hr) in Hd. discriminate.
Qed.

Corollary refuted_no_race : forall S fuel, refuted S (racy_b S) fuel = true -> ~ no_race S.
Proof.
  intros S fuel H Hnr. apply refuted_sound in H. destruct H as [s [Hr Hd]].
  rewrite (Hnr s Hr) in Hd. discriminate.
Qed.

(* the hypotheses are satisfiable: a two-process system (a mutex, two lockers) is certified *)
Example tiny : sys :=
  {| procs := [[IOp (ALock 0) [1]; IOp (AAcc [(0, true, [])]) [2]; IOp (AUnlock 0) [3]; IHalt];
               [IOp (ALock 0) [1]; IOp (AAcc [(0, true, [])]) [2]; IOp (AUnlock 0) [3]; IHalt]];
     clients := [true; true]; nlocks := 1; gcaps := []; mcaps := [] |}.
Example tiny_certified :
  certified tiny (fun s => negb (deadlocked_b tiny s) && negb (racy_b tiny s)) (explore tiny 100) = true.
Proof. vm_compute. reflexivity. Qed.
(* ... and without the lock the race is found *)
Example tiny_racy : sys :=
  {| procs := [[IOp (AAcc [(0, true, [])]) [1]; IHalt]; [IOp (AAcc [(0, false, [])]) [1]; IHalt]];
     clients := [true; true]; nlocks := 0; gcaps := []; mcaps := [] |}.
Example tiny_race_found : ~ no_race tiny_racy.
Proof. apply (witness_refutes_no_race _ []). vm_compute. reflexivity. Qed.
(* ... and a lock-order inversion is a deadlock *)
Example tiny_dl : sys :=
  {| procs := [[IOp (ALock 0) [1]; IOp (ALock 1) [2]; IOp (AUnlock 1) [3]; IOp (AUnlock 0) [4]; IHalt];
               [IOp (ALock 1) [1]; IOp (ALock 0) [2]; IOp (AUnlock 0) [3]; IOp (AUnlock 1) [4]; IHalt]];
     clients := [true; true]; nlocks := 2; gcaps := []; mcaps := [] |}.
Example tiny_deadlock_found : ~ no_deadlock tiny_dl.
Proof. apply (refuted_no_deadlock _ 100). vm_compute. reflexivity. Qed.
