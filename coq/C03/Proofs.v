(* C03 — proofs, part 3: block hash, merkle root, the retirement witness, the
   zero-output note, and examples showing the hypotheses are satisfiable. *)
From Coq Require Import List NArith Arith Bool Lia.
From Verif Require Import Outcome Cmp Sha3.
From C04 Require Import Model ProofsBase.
From C30 Require Model Sha3Len.
From C03 Require Import Model ProofsBody ProofsTx.
Import ListNotations.
Open Scope N_scope.

(* the full statement of the property for one hash function, and for all of them *)
Definition c03_at (H : bytes -> bytes) : Prop :=
  forall t1 t2 i,
    tx_typed t1 = true -> tx_typed t2 = true -> tx_outputs t1 <> [] ->
    tx_id H t1 = Ok i -> tx_id H t2 = Ok i ->
    committed t1 = committed t2 \/ Collision H.
Definition c03_full : Prop :=
  forall H : bytes -> bytes, (forall x, length (H x) = 32%nat) -> c03_at H.

Section WithH.
  Variable H : bytes -> bytes.
  Hypothesis H_len : forall x, length (H x) = 32%nat.

  Local Notation C := (Collision H).
  Ltac orc X := apply (orC_bind H _ _ X); clear X; intros X.

  (* ------------------------------------------------------------ block hash *)

  Lemma header_entry_ok h : header_typed h = true -> entry_ok (header_entry h).
  Proof. intros T. split; [exact T | reflexivity]. Qed.

  Theorem block_hash_inj h1 h2 :
    header_typed h1 = true -> header_typed h2 = true ->
    block_hash H h1 = block_hash H h2 -> header_committed h1 = header_committed h2 \/ C.
  Proof.
    intros T1 T2 E. unfold block_hash in E.
    apply (eid_inj H H_len) in E; try (apply header_entry_ok; assumption).
    orc E. left. unfold header_entry in E. unfold header_committed. congruence.
  Qed.

  (* ----------------------------------------------------------- merkle root *)

  Import C30.Model.

  Lemma root_f_len f xs r : root_f H f xs = Some r -> length r = 32%nat.
  Proof.
    destruct f as [|f]; cbn [root_f]; [discriminate|].
    destruct xs as [|x [|x' xs']].
    - intros E. injection E as <-. apply H_len.
    - intros E. injection E as <-. apply H_len.
    - cbv zeta. destruct (root_f H f (firstn _ _)); [|discriminate].
      destruct (root_f H f (skipn _ _)); [|discriminate].
      intros E. injection E as <-. apply H_len.
  Qed.

  Lemma root_f_inj : forall f1 f2 xs ys r,
    root_f H f1 xs = Some r -> root_f H f2 ys = Some r -> xs = ys \/ C.
  Proof.
    induction f1 as [|f1 IH]; intros f2 xs ys r E1 E2; [discriminate E1|].
    destruct f2 as [|f2]; [discriminate E2|].
    cbn [root_f] in E1, E2.
    destruct xs as [|x [|x' xs']], ys as [|y [|y' ys']]; cbv zeta in E1, E2;
      repeat match type of E1 with
             | match ?a with _ => _ end = _ => let Q := fresh "L" in destruct a eqn:Q; [|discriminate E1]
             end;
      repeat match type of E2 with
             | match ?a with _ => _ end = _ => let Q := fresh "R" in destruct a eqn:Q; [|discriminate E2]
             end;
      injection E1 as E1; injection E2 as E2; rewrite <- E2 in E1; clear E2;
      unfold empty_hash, leaf_hash, interior_hash in E1;
      apply (H_inj H) in E1; orc E1; try discriminate E1.
    - left. reflexivity.
    - injection E1 as ->. left. reflexivity.
    - injection E1 as E1. apply app_eq_len in E1;
        [|rewrite (root_f_len _ _ _ L), (root_f_len _ _ _ R); reflexivity].
      destruct E1 as [-> ->].
      pose proof (IH _ _ _ _ L R) as A. orc A.
      pose proof (IH _ _ _ _ L0 R0) as B. orc B. left.
      rewrite <- (firstn_skipn (split_at (x :: x' :: xs')) (x :: x' :: xs')).
      rewrite <- (firstn_skipn (split_at (y :: y' :: ys')) (y :: y' :: ys')).
      rewrite A, B. reflexivity.
  Qed.

  Theorem merkle_root_inj xs ys r :
    merkle_root H xs = Some r -> merkle_root H ys = Some r -> xs = ys \/ C.
  Proof. unfold merkle_root. apply root_f_inj. Qed.

  (* blocks whose header carries the merkle root of their transaction ids (what block
     validation demands): equal hashes, equal id lists *)
  Theorem block_tx_ids h1 h2 ids1 ids2 :
    header_typed h1 = true -> header_typed h2 = true ->
    merkle_root H ids1 = Some (bh_merkle_root h1) ->
    merkle_root H ids2 = Some (bh_merkle_root h2) ->
    block_hash H h1 = block_hash H h2 -> ids1 = ids2 \/ C.
  Proof.
    intros T1 T2 R1 R2 E. apply block_hash_inj in E; try assumption. orc E.
    unfold header_committed in E. injection E as _ _ _ _ Er. rewrite Er in R1.
    apply (merkle_root_inj _ _ _ R1 R2).
  Qed.
End WithH.

Theorem block_hash_witness_free H h1 h2 :
  header_committed h1 = header_committed h2 -> block_hash H h1 = block_hash H h2.
Proof.
  unfold header_committed, block_hash, header_entry. intros E.
  injection E as -> -> -> -> ->. reflexivity.
Qed.

(* --------------------------------------------------- the retirement witness *)

Definition w_asset : bytes := [0;0;0;0;0;0;0;1] ++ repeat 0 24.
Definition w_source : bytes := [0;0;0;0;0;0;0;9] ++ repeat 0 24.
Definition w_tx (prog : bytes) (state : list bytes) : tx_data :=
  mkTx 1 0 0
       [mkIn 1 (Some (Spend (mkSC w_source w_asset 10 0 1 [81] []) [] [])) [] []]
       [mkOut 1 OutOriginal (Some (mkOC w_asset 10 1 prog state)) []].
(* OP_FAIL OP_DATA_4 "bcrp" OP_DATA_1 01 OP_DATA_1 <contract>: a BCRP registration *)
Definition bcrp (contract : N) : bytes := [106; 4; 98; 99; 114; 112; 1; 1; 1; contract].
Definition w1 : tx_data := w_tx (bcrp 81) [].
Definition w2 : tx_data := w_tx (bcrp 82) [[1]].

Theorem refuted_retirement :
  tx_typed w1 = true /\ tx_typed w2 = true /\ tx_outputs w1 <> [] /\
  committed w1 <> committed w2 /\
  forall H, exists i, tx_id H w1 = Ok i /\ tx_id H w2 = Ok i.
Proof.
  split; [reflexivity|]. split; [reflexivity|]. split; [discriminate|]. split; [discriminate|].
  intros H. assert (E : tx_id H w1 = tx_id H w2) by (apply tx_id_witness_free_eff; reflexivity).
  assert (K : is_ok (tx_id H w2) = true) by (vm_compute; reflexivity).
  rewrite E. destruct (tx_id H w2) as [i| |]; try discriminate K. exists i. auto.
Qed.

Theorem full_fails H : ~ Collision H -> ~ c03_at H.
Proof.
  intros NC F. destruct refuted_retirement as [T1 [T2 [NE [D I]]]].
  destruct (I H) as [i [I1 I2]].
  destruct (F w1 w2 i T1 T2 NE I1 I2) as [E|Cn]; [exact (D E) | exact (NC Cn)].
Qed.

(* the same two transactions under the real hash function: one id (the id the
   implementation reports: 2f64e955...) *)
Example refuted_retirement_sha3 :
  tx_id sha3_256 w1 = tx_id sha3_256 w2 /\
  option_map (firstn 4) (match tx_id sha3_256 w1 with Ok i => Some i | _ => None end)
  = Some [47; 100; 233; 85].
Proof. split; vm_compute; reflexivity. Qed.

(* ------------------------------------------------------ zero-output note *)

(* a transaction without outputs has an id that ignores its inputs (the header commits
   only to the result ids); such a transaction never validates (ErrEmptyResults) *)
Theorem zero_output_note H t1 t2 :
  tx_outputs t1 = [] -> tx_outputs t2 = [] ->
  tx_version t1 = tx_version t2 -> tx_time_range t1 = tx_time_range t2 ->
  is_ok (tx_id H t1) = true -> is_ok (tx_id H t2) = true ->
  tx_id H t1 = tx_id H t2.
Proof.
  intros O1 O2 Ev Et. unfold tx_id, map_tx. rewrite O1, O2, Ev, Et.
  destruct (all_some (map in_typed (tx_inputs t1))) as [tis1|]; [|discriminate].
  destruct (all_some (map in_typed (tx_inputs t2))) as [tis2|]; [|discriminate].
  destruct (tx_hashable tis1 []); [|discriminate].
  destruct (tx_hashable tis2 []); [|discriminate].
  reflexivity.
Qed.

Example zero_output_inputs_ignored :
  let a := mkTx 1 0 0 [mkIn 1 (Some (Coinbase [1])) [] []] [] in
  let b := mkTx 1 0 0 [mkIn 1 (Some (Coinbase [2])) [] []; mkIn 1 (Some (Coinbase [3])) [] []] [] in
  committed a <> committed b /\ forall H, tx_id H a = tx_id H b.
Proof.
  split; [discriminate|]. intros H. apply zero_output_note; reflexivity.
Qed.

(* ------------------------------------------- hypotheses are satisfiable *)

Example H_len_sha3 : forall x, length (sha3_256 x) = 32%nat.
Proof. exact C30.Sha3Len.sha3_256_len. Qed.

(* a transaction with all four input kinds and both output kinds, state data, a vote key:
   typed, mappable, without unspendable output *)
Definition ex_sc : spend_commitment := mkSC w_source w_asset 1000 3 1 [118; 170] [[1; 2]; []].
Definition ex_tx : tx_data :=
  mkTx 1 77 5000
       [mkIn 1 (Some (Spend ex_sc [170] [[9]])) [] [1];
        mkIn 1 (Some (Issuance [7; 7] 55 [123; 125] 1 [81] [[4]])) [] [];
        mkIn 1 (Some (Veto ex_sc [] (repeat 5 64) [])) [187] [];
        mkIn 1 (Some (Coinbase [0; 1])) [] []]
       [mkOut 1 OutOriginal (Some (mkOC w_asset 900 1 [81] [[3]])) [];
        mkOut 1 (OutVote (repeat 6 64)) (Some (mkOC btm_asset_id 100 1 [0; 20] [])) [204]].

Example ex_tx_ok :
  tx_typed ex_tx = true /\ tx_outputs ex_tx <> [] /\ no_retirement ex_tx = true /\
  is_ok (tx_id sha3_256 ex_tx) = true.
Proof. split; [reflexivity|]. split; [discriminate|]. split; [reflexivity|]. vm_compute. reflexivity. Qed.

Example ex_header_ok :
  header_typed (mkBH 1 42 w_source 1600000000000 w_asset [1; 2; 3] []) = true.
Proof. reflexivity. Qed.
