(* C03 — proofs, part 2: the transaction id determines everything MapTx hashes
   (up to an explicit collision), and depends on nothing else. *)
From Coq Require Import List NArith Arith Bool Lia.
From Verif Require Import Outcome Cmp.
From C04 Require Import Model ProofsBase.
From C03 Require Import Model ProofsBody.
Import ListNotations.
Open Scope N_scope.

Ltac bsplit :=
  repeat match goal with
         | H : _ && _ = true |- _ => apply andb_prop in H; destruct H
         end.

Ltac bgoal := repeat match goal with |- _ && _ = true => apply andb_true_intro; split end.

Local Arguments varstr_list_ok : simpl never.
Local Arguments varstr_ok : simpl never.
Local Arguments ok31 : simpl never.
Local Arguments u64 : simpl never.
Local Arguments h32 : simpl never.

(* ------------------------------------------------------------ small facts *)

Lemma all_some_map {A} (l : list (option A)) (r : list A) :
  all_some l = Some r -> l = map Some r.
Proof.
  revert r. induction l as [|[a|] l IH]; intros r E; cbn in *; try discriminate.
  - injection E as <-. reflexivity.
  - destruct (all_some l) as [t|]; [|discriminate]. injection E as <-. cbn. f_equal. auto.
Qed.

Lemma all_some_of_map {A} (r : list A) : all_some (map Some r) = Some r.
Proof. induction r as [|a r IH]; cbn; [reflexivity|rewrite IH; reflexivity]. Qed.

Lemma inputs_committed_map ins tis :
  map in_typed ins = map Some tis -> map input_committed ins = map Some (map ti_committed tis).
Proof.
  revert tis. induction ins as [|i ins IH]; intros [|ti tis] E; cbn in *; try discriminate; auto.
  injection E as E1 E2. unfold input_committed at 1. rewrite E1. cbn. f_equal. auto.
Qed.

Lemma inputs_typed_map ins tis :
  map in_typed ins = map Some tis -> forallb input_typed ins = true -> forallb ti_typed tis = true.
Proof.
  revert tis. induction ins as [|i ins IH]; intros [|ti tis] E T; cbn in *; try discriminate; auto.
  injection E as E1 E2. apply andb_prop in T. destruct T as [T1 T2].
  unfold input_typed in T1. rewrite E1 in T1. rewrite T1. cbn. auto.
Qed.

Lemma total_lt_aux outs : forall a, a < two64 ->
  fold_left (fun a o => (a + oc_amount (oc_of o)) mod two64) outs a < two64.
Proof.
  induction outs as [|o outs IH]; intros a Ha; cbn; [exact Ha|].
  apply IH. apply N.mod_lt. unfold two64. lia.
Qed.
Lemma total_u64 outs : u64 (total_out_amount outs) = true.
Proof. unfold u64. apply N.ltb_lt. apply total_lt_aux. unfold two64. lia. Qed.

Lemma h32_btm : h32 btm_asset_id = true.
Proof. reflexivity. Qed.

Lemma sc_eq (a b : spend_commitment) :
  sc_src a = sc_src b -> sc_vm_version a = sc_vm_version b -> sc_program a = sc_program b ->
  sc_state a = sc_state b -> a = b.
Proof.
  destruct a, b; unfold sc_src; cbn. intros E -> -> ->. injection E as -> -> -> ->. reflexivity.
Qed.

Section WithH.
  Variable H : bytes -> bytes.
  Hypothesis H_len : forall x, length (H x) = 32%nat.

  Local Notation C := (Collision H).
  Ltac orc X := apply (orC_bind H _ _ X); clear X; intros X.

  (* -------------------------------------------------------------- inputs *)

  Lemma im_id_eq total ti : im_id (map_input H total ti) = eid H (input_entry H ti).
  Proof. destruct ti; reflexivity. Qed.
  Lemma im_src_eq total ti :
    im_src (map_input H total ti) =
    mkVS (eid H (input_entry H ti)) (input_asset H ti) (input_amount total ti) 0.
  Proof. destruct ti; reflexivity. Qed.
  Lemma im_prevout_eq total ti :
    im_prevout (map_input H total ti) = option_map (eid H) (prevout_entry ti).
  Proof. destruct ti; reflexivity. Qed.

  Lemma prevout_ok ti e :
    ti_typed ti = true -> ti_hashable ti = true -> prevout_entry ti = Some e -> entry_ok e.
  Proof.
    destruct ti; cbn; intros T Q E; try discriminate; injection E as <-;
      unfold sc_typed in T; bsplit; split; cbn; unfold vs_typed; cbn;
      bgoal; assumption.
  Qed.

  Lemma input_entry_ok ti :
    ti_typed ti = true -> ti_hashable ti = true -> entry_ok (input_entry H ti).
  Proof.
    destruct ti; cbn; intros T Q; bsplit; split; cbn; try reflexivity;
      rewrite ?h32_H, ?h32_eid by assumption; try assumption; try reflexivity.
    unfold asset_id. rewrite h32_H by assumption. assumption.
  Qed.

  Lemma input_src_typed total ti :
    u64 total = true -> ti_typed ti = true -> vs_typed (im_src (map_input H total ti)) = true.
  Proof.
    intros Ht T. rewrite im_src_eq. unfold vs_typed. cbn.
    rewrite h32_eid by assumption. cbn.
    destruct ti; cbn in *; unfold sc_typed in *; bsplit;
      unfold asset_id; rewrite ?h32_H, ?h32_btm by assumption;
      bgoal; try assumption; reflexivity.
  Qed.

  (* equal input ids: equal commitments *)
  Lemma input_id_inj ti1 ti2 :
    ti_typed ti1 = true -> ti_typed ti2 = true -> ti_hashable ti1 = true -> ti_hashable ti2 = true ->
    eid H (input_entry H ti1) = eid H (input_entry H ti2) ->
    ti_committed ti1 = ti_committed ti2 \/ C.
  Proof.
    intros T1 T2 Q1 Q2 E.
    apply (eid_inj H H_len) in E; try (apply input_entry_ok; assumption).
    orc E.
    destruct ti1 as [n1 a1 d1 v1 p1 g1 | sc1 x1 g1 | arb1 | sc1 x1 vt1 g1],
             ti2 as [n2 a2 d2 v2 p2 g2 | sc2 x2 g2 | arb2 | sc2 x2 vt2 g2];
      cbn [input_entry] in E; try discriminate E.
    - (* issuance *)
      injection E as En Ea ->. cbn in T1, T2. bsplit.
      apply (H_inj H) in En. orc En. subst n2.
      apply (asset_id_inj H) in Ea; try assumption. orc Ea. destruct Ea as [-> [-> ->]].
      left. reflexivity.
    - (* spend *)
      injection E as E.
      assert (O1 : entry_ok (EOriginal (sc_src sc1) (sc_vm_version sc1) (sc_program sc1) (sc_state sc1)))
        by (eapply (prevout_ok (Spend sc1 x1 g1)); [exact T1|exact Q1|reflexivity]).
      assert (O2 : entry_ok (EOriginal (sc_src sc2) (sc_vm_version sc2) (sc_program sc2) (sc_state sc2)))
        by (eapply (prevout_ok (Spend sc2 x2 g2)); [exact T2|exact Q2|reflexivity]).
      apply (eid_inj H H_len) in E; try assumption. orc E.
      left. destruct sc1, sc2. cbn in E. injection E; intros; subst. reflexivity.
    - (* coinbase *)
      injection E as ->. left. reflexivity.
    - (* veto *)
      injection E as E.
      assert (O1 : entry_ok (EVote (sc_src sc1) (sc_vm_version sc1) (sc_program sc1) vt1 (sc_state sc1)))
        by (eapply (prevout_ok (Veto sc1 x1 vt1 g1)); [exact T1|exact Q1|reflexivity]).
      assert (O2 : entry_ok (EVote (sc_src sc2) (sc_vm_version sc2) (sc_program sc2) vt2 (sc_state sc2)))
        by (eapply (prevout_ok (Veto sc2 x2 vt2 g2)); [exact T2|exact Q2|reflexivity]).
      apply (eid_inj H H_len) in E; try assumption. orc E.
      left. destruct sc1, sc2. cbn in E. injection E; intros; subst. reflexivity.
  Qed.

  Lemma inputs_inj total1 total2 : forall tis1 tis2,
    forallb ti_typed tis1 = true -> forallb ti_typed tis2 = true ->
    forallb ti_hashable tis1 = true -> forallb ti_hashable tis2 = true ->
    map im_src (map (map_input H total1) tis1) = map im_src (map (map_input H total2) tis2) ->
    map ti_committed tis1 = map ti_committed tis2 \/ C.
  Proof.
    induction tis1 as [|a tis1 IH]; intros [|b tis2] T1 T2 Q1 Q2 E; cbn in *; try discriminate.
    - left. reflexivity.
    - bsplit. injection E as Ea E. rewrite !im_src_eq in Ea. injection Ea as Eid _ _.
      apply input_id_inj in Eid; try assumption. orc Eid.
      specialize (IH tis2). apply IH in E; try assumption. orc E.
      left. congruence.
  Qed.

  (* ------------------------------------------------------------- outputs *)

  Lemma output_entry_ok mux i o :
    h32 mux = true -> u64 i = true -> output_typed o = true -> output_hashable o = true ->
    entry_ok (output_entry mux i o).
  Proof.
    intros Hm Hi T Q. unfold output_typed in T. unfold output_hashable in Q. unfold output_entry.
    bsplit. destruct (unspendable (oc_program (oc_of o))).
    - split; cbn; [|reflexivity]. unfold vs_typed; cbn.
      bgoal; assumption.
    - destruct (out_typed o); bsplit; split; cbn; unfold vs_typed; cbn;
        bgoal; assumption.
  Qed.

  Lemma oc_eq (a b : output_commitment) :
    oc_asset_id a = oc_asset_id b -> oc_amount a = oc_amount b ->
    oc_vm_version a = oc_vm_version b -> oc_program a = oc_program b -> oc_state a = oc_state b ->
    a = b.
  Proof. destruct a, b; cbn; intros -> -> -> -> ->; reflexivity. Qed.

  Lemma output_id_inj mux1 mux2 i o1 o2 :
    entry_ok (output_entry mux1 i o1) -> entry_ok (output_entry mux2 i o2) ->
    eid H (output_entry mux1 i o1) = eid H (output_entry mux2 i o2) ->
    (mux1 = mux2 /\ output_effective o1 = output_effective o2) \/ C.
  Proof.
    intros O1 O2 E. apply (eid_inj H H_len) in E; try assumption. orc E. left.
    unfold output_entry in E. unfold output_effective, output_committed.
    destruct (unspendable (oc_program (oc_of o1))), (unspendable (oc_program (oc_of o2)));
      [ | destruct (out_typed o2); discriminate E | destruct (out_typed o1); discriminate E | ].
    - injection E as -> -> -> . auto.
    - destruct (out_typed o1), (out_typed o2); try discriminate E.
      + injection E as -> Ea Eb Ec Ed Ee. split; [reflexivity|]. do 2 f_equal.
        apply oc_eq; assumption.
      + injection E as -> Ea Eb Ec Ed -> Ee. split; [reflexivity|]. do 2 f_equal.
        apply oc_eq; assumption.
  Qed.

  Lemma outputs_ok mux : forall outs i,
    h32 mux = true -> i + len outs <= max_int31 + 1 ->
    forallb output_typed outs = true -> forallb (output_hashable) outs = true ->
    Forall entry_ok (output_entries mux i outs).
  Proof.
    induction outs as [|o outs IH]; intros i Hm Hi T Q; cbn [output_entries]; [constructor|].
    cbn in T, Q. bsplit. unfold len in Hi. cbn [length] in Hi.
    constructor.
    - apply output_entry_ok; try assumption. unfold u64, two64. apply N.ltb_lt.
      unfold max_int31 in Hi. lia.
    - apply IH; try assumption. unfold len. lia.
  Qed.

  Lemma outputs_inj mux1 mux2 : forall outs1 outs2 i,
    Forall entry_ok (output_entries mux1 i outs1) -> Forall entry_ok (output_entries mux2 i outs2) ->
    map (eid H) (output_entries mux1 i outs1) = map (eid H) (output_entries mux2 i outs2) ->
    ((outs1 <> [] -> mux1 = mux2) /\ map output_effective outs1 = map output_effective outs2) \/ C.
  Proof.
    induction outs1 as [|a outs1 IH]; intros [|b outs2] i O1 O2 E; cbn in *; try discriminate.
    - left. split; [intros Q; contradiction Q; reflexivity | reflexivity].
    - inversion O1 as [|? ? Oa O1']. inversion O2 as [|? ? Ob O2']. subst.
      injection E as Ea E. apply output_id_inj in Ea; try assumption. orc Ea. destruct Ea as [-> Ea].
      apply IH in E; try assumption. orc E. destruct E as [_ E]. left.
      split; [reflexivity | congruence].
  Qed.

  Lemma output_entries_length mux : forall outs i, length (output_entries mux i outs) = length outs.
  Proof. induction outs; intros i; cbn; [reflexivity | rewrite IHouts; reflexivity]. Qed.

  (* -------------------------------------------------------- transactions *)

  (* what [map_tx t = Ok m] says *)
  Lemma map_tx_ok t m :
    map_tx H t = Ok m ->
    exists tis,
      map in_typed (tx_inputs t) = map Some tis /\
      tx_hashable tis (tx_outputs t) = true /\
      let total := total_out_amount (tx_outputs t) in
      let ims := map (map_input H total) tis in
      let mux_id := eid H (mux_entry (map im_src ims)) in
      let rids := map (eid H) (output_entries mux_id 0 (tx_outputs t)) in
      m = mkMapped (eid H (ETxHeader (tx_version t) (tx_time_range t) rids))
                   (map im_id ims) (flat_map (fun m => opt_list (im_prevout m)) ims) mux_id rids.
  Proof.
    unfold map_tx. destruct (all_some (map in_typed (tx_inputs t))) as [tis|] eqn:A; [|discriminate].
    destruct (tx_hashable tis (tx_outputs t)) eqn:Q; [|discriminate].
    intros E. injection E as <-. exists tis. split; [apply all_some_map; exact A|]. split; auto.
  Qed.

  Lemma srcs_typed total tis :
    u64 total = true -> forallb ti_typed tis = true ->
    forallb vs_typed (map im_src (map (map_input H total) tis)) = true.
  Proof.
    intros Ht. induction tis as [|a tis IH]; intros T; cbn in *; [reflexivity|]. bsplit.
    rewrite input_src_typed by assumption. cbn. auto.
  Qed.

  Lemma mux_ok total tis :
    u64 total = true -> forallb ti_typed tis = true -> ok31 (len tis) = true ->
    entry_ok (mux_entry (map im_src (map (map_input H total) tis))).
  Proof.
    intros Ht T L. split; cbn.
    - rewrite srcs_typed by assumption. reflexivity.
    - unfold len in *. rewrite !map_length. rewrite L. reflexivity.
  Qed.

  Lemma forallb_h32_eids l : forallb h32 (map (eid H) l) = true.
  Proof. induction l; cbn; [reflexivity|]. rewrite h32_eid by assumption. assumption. Qed.

  Lemma header_ok v tr mux outs :
    u64 v = true -> u64 tr = true -> ok31 (len outs) = true ->
    entry_ok (ETxHeader v tr (map (eid H) (output_entries mux 0 outs))).
  Proof.
    intros Hv Ht L. split; cbn.
    - rewrite Hv, Ht, forallb_h32_eids. reflexivity.
    - unfold len in *. rewrite map_length, output_entries_length. exact L.
  Qed.

  (* c03_tx_id, in its general form: equal ids, equal effective content *)
  Theorem tx_id_effective t1 t2 i :
    tx_typed t1 = true -> tx_typed t2 = true -> tx_outputs t1 <> [] ->
    tx_id H t1 = Ok i -> tx_id H t2 = Ok i ->
    committed_eff t1 = committed_eff t2 \/ C.
  Proof.
    intros T1 T2 NE I1 I2. unfold tx_id in I1, I2.
    destruct (map_tx H t1) as [m1| |] eqn:M1; try discriminate. injection I1 as I1.
    destruct (map_tx H t2) as [m2| |] eqn:M2; try discriminate. injection I2 as I2.
    apply map_tx_ok in M1. destruct M1 as [tis1 [A1 [Q1 M1]]].
    apply map_tx_ok in M2. destruct M2 as [tis2 [A2 [Q2 M2]]].
    cbv zeta in M1, M2. subst m1 m2. cbn [m_id] in I1, I2. rewrite <- I2 in I1. clear I2 i.
    unfold tx_typed in T1, T2. unfold tx_hashable in Q1, Q2. bsplit.
    pose proof (inputs_typed_map _ _ A1 ltac:(assumption)) as Ti1.
    pose proof (inputs_typed_map _ _ A2 ltac:(assumption)) as Ti2.
    set (total1 := total_out_amount (tx_outputs t1)) in *.
    set (total2 := total_out_amount (tx_outputs t2)) in *.
    set (mux1 := eid H (mux_entry (map im_src (map (map_input H total1) tis1)))) in *.
    set (mux2 := eid H (mux_entry (map im_src (map (map_input H total2) tis2)))) in *.
    (* header *)
    apply (eid_inj H H_len) in I1; try (apply header_ok; assumption).
    orc I1. injection I1 as Ev Et Er.
    (* outputs *)
    assert (O1 : Forall entry_ok (output_entries mux1 0 (tx_outputs t1))).
    { apply outputs_ok; try assumption; [apply h32_eid; assumption|].
      match goal with L : ok31 (len (tx_outputs t1)) = true |- _ =>
        unfold ok31 in L; apply N.leb_le in L; lia end. }
    assert (O2 : Forall entry_ok (output_entries mux2 0 (tx_outputs t2))).
    { apply outputs_ok; try assumption; [apply h32_eid; assumption|].
      match goal with L : ok31 (len (tx_outputs t2)) = true |- _ =>
        unfold ok31 in L; apply N.leb_le in L; lia end. }
    apply outputs_inj in Er; try assumption. orc Er. destruct Er as [Em Eo].
    specialize (Em NE).
    (* mux *)
    unfold mux1, mux2 in Em.
    apply (eid_inj H H_len) in Em;
      try (apply mux_ok; try assumption; apply total_u64).
    orc Em. unfold mux_entry in Em. injection Em as Es.
    (* inputs *)
    apply inputs_inj in Es; try assumption. orc Es.
    left. unfold committed_eff.
    rewrite (inputs_committed_map _ _ A1), (inputs_committed_map _ _ A2).
    rewrite Ev, Et, Es, Eo. reflexivity.
  Qed.

  (* with no unspendable output in t1 the effective content is the committed content *)
  Lemma eff_committed t1 t2 :
    no_retirement t1 = true -> committed_eff t1 = committed_eff t2 -> committed t1 = committed t2.
  Proof.
    unfold committed_eff, committed, no_retirement. intros N E. injection E as Ev Et Ei Eo.
    rewrite Ev, Et, Ei. f_equal.
    revert N Eo. generalize (tx_outputs t1) (tx_outputs t2).
    induction l as [|a l IH]; intros [|b m] N E; cbn in *; try discriminate; auto.
    apply andb_prop in N. destruct N as [Na N]. injection E as Ea E.
    unfold output_effective in Ea. apply negb_true_iff in Na. rewrite Na in Ea.
    destruct (unspendable (oc_program (oc_of b))); [discriminate|].
    assert (Ea' : output_committed a = output_committed b) by congruence.
    rewrite Ea'. f_equal. auto.
  Qed.

  Theorem tx_id_committed t1 t2 i :
    tx_typed t1 = true -> tx_typed t2 = true -> tx_outputs t1 <> [] -> no_retirement t1 = true ->
    tx_id H t1 = Ok i -> tx_id H t2 = Ok i ->
    committed t1 = committed t2 \/ C.
  Proof.
    intros T1 T2 NE NR I1 I2.
    pose proof (tx_id_effective t1 t2 i T1 T2 NE I1 I2) as E. orc E.
    left. apply eff_committed; assumption.
  Qed.
End WithH.

(* ------------------------------------------------------------------------
   The id is a function of the effective (hence of the committed) content: it
   does not depend on arguments, suffixes, asset versions or SerializedSize.
   No hypothesis on H. *)

Section Independence.
  Variable H : bytes -> bytes.

  Lemma committed_eff_of_committed t1 t2 : committed t1 = committed t2 -> committed_eff t1 = committed_eff t2.
  Proof.
    unfold committed, committed_eff. intros E. injection E as -> -> -> Eo. f_equal.
    revert Eo. generalize (tx_outputs t1) (tx_outputs t2).
    induction l as [|a l IH]; intros [|b m] E; cbn in *; try discriminate; auto.
    injection E as Ea E. f_equal; auto.
    assert (Ec : output_committed a = output_committed b) by (unfold output_committed in *; congruence).
    assert (Eo : oc_of a = oc_of b) by (unfold output_committed in Ec; congruence).
    unfold output_effective. rewrite Ec, Eo. reflexivity.
  Qed.

  Lemma map_input_committed total ti1 ti2 :
    ti_committed ti1 = ti_committed ti2 -> map_input H total ti1 = map_input H total ti2.
  Proof.
    destruct ti1, ti2; cbn; intros E; try discriminate E; injection E; intros; subst; reflexivity.
  Qed.

  Lemma ti_hashable_committed ti1 ti2 :
    ti_committed ti1 = ti_committed ti2 -> ti_hashable ti1 = ti_hashable ti2.
  Proof.
    destruct ti1, ti2; cbn; intros E; try discriminate E; injection E; intros; subst; reflexivity.
  Qed.

  Lemma all_some_committed : forall ins1 ins2,
    map input_committed ins1 = map input_committed ins2 ->
    match all_some (map in_typed ins1), all_some (map in_typed ins2) with
    | Some tis1, Some tis2 => map ti_committed tis1 = map ti_committed tis2
    | None, None => True
    | _, _ => False
    end.
  Proof.
    induction ins1 as [|a l IH]; intros [|b m] E; cbn in *; try discriminate; auto.
    injection E as Ea E. specialize (IH m E). unfold input_committed in Ea.
    destruct (in_typed a), (in_typed b); cbn in Ea; try discriminate; auto.
    injection Ea as Ea.
    destruct (all_some (map in_typed l)), (all_some (map in_typed m)); try contradiction; auto.
    cbn. congruence.
  Qed.

  Lemma output_entry_eff mux i o1 o2 :
    output_effective o1 = output_effective o2 -> output_entry mux i o1 = output_entry mux i o2.
  Proof.
    unfold output_effective, output_entry, output_committed.
    destruct (unspendable (oc_program (oc_of o1))), (unspendable (oc_program (oc_of o2)));
      intros E; try discriminate E.
    - injection E as -> ->. reflexivity.
    - injection E as -> ->. reflexivity.
  Qed.

  Lemma output_hashable_eff o1 o2 :
    output_effective o1 = output_effective o2 -> output_hashable o1 = output_hashable o2.
  Proof.
    unfold output_effective, output_hashable, output_committed.
    destruct (unspendable (oc_program (oc_of o1))), (unspendable (oc_program (oc_of o2)));
      intros E; try discriminate E; [reflexivity|].
    injection E as -> ->. reflexivity.
  Qed.

  Lemma output_entries_eff mux : forall outs1 outs2 i,
    map output_effective outs1 = map output_effective outs2 ->
    output_entries mux i outs1 = output_entries mux i outs2.
  Proof.
    induction outs1 as [|a l IH]; intros [|b m] i E; cbn in *; try discriminate; auto.
    injection E as Ea E. f_equal; [apply output_entry_eff; assumption | auto].
  Qed.

  Lemma amount_eff o1 o2 :
    output_effective o1 = output_effective o2 -> oc_amount (oc_of o1) = oc_amount (oc_of o2).
  Proof.
    unfold output_effective, output_committed.
    destruct (unspendable (oc_program (oc_of o1))), (unspendable (oc_program (oc_of o2)));
      intros E; try discriminate E.
    - injection E as _ ->. reflexivity.
    - injection E as _ ->. reflexivity.
  Qed.

  Lemma total_eff : forall outs1 outs2,
    map output_effective outs1 = map output_effective outs2 ->
    total_out_amount outs1 = total_out_amount outs2.
  Proof.
    unfold total_out_amount. generalize 0.
    intros a outs1. revert a. induction outs1 as [|x l IH]; intros a [|y m] E; cbn in *;
      try discriminate; auto.
    injection E as Ea E. rewrite (amount_eff _ _ Ea). auto.
  Qed.

  Lemma forallb_map_eq {A B} (f : A -> bool) (g : A -> B) :
    (forall a b, g a = g b -> f a = f b) ->
    forall l m, map g l = map g m -> forallb f l = forallb f m.
  Proof.
    intros F. induction l as [|a l IH]; intros [|b m] E; cbn in *; try discriminate; auto.
    injection E as Ea E. rewrite (F _ _ Ea), (IH _ E). reflexivity.
  Qed.

  Lemma map_map_eq {A B D} (f : A -> D) (g : A -> B) :
    (forall a b, g a = g b -> f a = f b) ->
    forall l m, map g l = map g m -> map f l = map f m.
  Proof.
    intros F. induction l as [|a l IH]; intros [|b m] E; cbn in *; try discriminate; auto.
    injection E as Ea E. rewrite (F _ _ Ea), (IH _ E). reflexivity.
  Qed.

  (* every id MapTx produces is a function of the effective content *)
  Theorem map_tx_effective t1 t2 : committed_eff t1 = committed_eff t2 -> map_tx H t1 = map_tx H t2.
  Proof.
    unfold committed_eff. intros E. injection E as Ev Et Ei Eo.
    unfold map_tx. pose proof (all_some_committed _ _ Ei) as A.
    destruct (all_some (map in_typed (tx_inputs t1))) as [tis1|],
             (all_some (map in_typed (tx_inputs t2))) as [tis2|]; try contradiction; [|reflexivity].
    assert (Q : tx_hashable tis1 (tx_outputs t1) = tx_hashable tis2 (tx_outputs t2)).
    { unfold tx_hashable. f_equal; [f_equal; [f_equal|]|].
      - apply (forallb_map_eq _ ti_committed); [apply ti_hashable_committed | assumption].
      - unfold len. apply (f_equal (@length _)) in A. rewrite !map_length in A. rewrite A. reflexivity.
      - apply (forallb_map_eq _ output_effective); [apply output_hashable_eff | assumption].
      - unfold len. apply (f_equal (@length _)) in Eo. rewrite !map_length in Eo. rewrite Eo. reflexivity. }
    rewrite Q. destruct (tx_hashable tis2 (tx_outputs t2)); [|reflexivity].
    rewrite (total_eff _ _ Eo).
    rewrite (map_map_eq (map_input H (total_out_amount (tx_outputs t2))) ti_committed
               (map_input_committed _) _ _ A).
    rewrite (output_entries_eff _ _ _ _ Eo). rewrite Ev, Et. reflexivity.
  Qed.

  Theorem tx_id_witness_free_eff t1 t2 : committed_eff t1 = committed_eff t2 -> tx_id H t1 = tx_id H t2.
  Proof. intros E. unfold tx_id. rewrite (map_tx_effective _ _ E). reflexivity. Qed.

  (* c03_witness_free *)
  Theorem map_tx_committed t1 t2 : committed t1 = committed t2 -> map_tx H t1 = map_tx H t2.
  Proof. intros E. apply map_tx_effective. apply committed_eff_of_committed. exact E. Qed.

  Theorem tx_id_witness_free t1 t2 : committed t1 = committed t2 -> tx_id H t1 = tx_id H t2.
  Proof. intros E. unfold tx_id. rewrite (map_tx_committed _ _ E). reflexivity. Qed.
End Independence.
