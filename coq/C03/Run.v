(* C03 — running the model on the correspondence cases.  No proofs here.
   [H] is instantiated with the executable SHA3-256 of coq/lib/Sha3.v. *)
From Coq Require Import List NArith ZArith Bool Uint63.
From Verif Require Import Outcome Cmp Sha3.
From C04 Require Import Model.
From C03 Require Import Model.
Import ListNotations.
Open Scope N_scope.

(* byte-string literals of the case files: [W len words], the bytes packed big-endian
   seven to a primitive 63-bit integer (the last word holds the remaining bytes);
   primitive integers are used for nothing else *)
Fixpoint be_bytes (k : nat) (n : N) (acc : bytes) : bytes :=
  match k with
  | O => acc
  | S k' => be_bytes k' (N.shiftr n 8) (N.land n 255 :: acc)
  end.
Definition word_bytes (k : nat) (w : int) : bytes := be_bytes k (Z.to_N (Uint63.to_Z w)) [].
Fixpoint words_bytes (k : nat) (ws : list int) : bytes :=
  match ws with
  | [] => []
  | w :: t => if Nat.leb k 7 then word_bytes k w else word_bytes 7 w ++ words_bytes (k - 7) t
  end.
Definition W (k : N) (ws : list int) : bytes := words_bytes (N.to_nat k) ws.

(* observables of one transaction: Tx.ID, InputIDs, SpentOutputIDs, the mux id, ResultIds,
   separated by empty strings; [] for a panic *)
Definition obs_of (r : outcome unit mapped) : list bytes :=
  match r with
  | Ok m => m_id m :: m_input_ids m ++ [] :: m_spent_ids m ++ [] :: m_mux_id m :: m_result_ids m
  | _ => []
  end.
Definition obs_tx (t : tx_data) : list bytes := obs_of (map_tx sha3_256 t).

(* BlockHeader.Hash() *)
Definition obs_header (h : block_header) : list bytes := [block_hash sha3_256 h].

Definition obs_eqb : list bytes -> list bytes -> bool := list_eqb bytes_eqb.
