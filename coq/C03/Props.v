(* C03 — transaction and block identity commit to all consensus content.
   PROPERTY THEOREMS ONLY.

   Model: C03/Model.v mirrors protocol/bc/entry.go (EntryID, writeForHash), the
   writeForHash methods of protocol/bc/*.go, protocol/bc/types/map.go (MapTx,
   mapBlockHeader) and the issuance asset id; values are those of the codec model C04.
     tx_id H t       = types.Tx.ID              (map_tx: also InputIDs, SpentOutputIDs, ResultIds)
     block_hash H h  = types.BlockHeader.Hash()
     eid H e         = bc.EntryID(e)            body e = what e.writeForHash writes
   [H] is the hash function (SHA3-256 in the code): an ARBITRARY function with 32-byte
   results.  Where the code's correctness rests on collision resistance the conclusion is
   "... \/ Collision H" (Collision H := exists x y, x <> y /\ H x = H y), the colliding
   pair being constructed from the two transactions / headers.

     committed t      (version, time range, every input's commitment in order, every
                      output's kind + vote key, asset, amount, VM version, program, state
                      data in order)                    — the list in the property
     committed_eff t  the same, except that an output whose program starts with OP_FAIL
                      contributes only (asset, amount)  — what the code hashes
     tx_typed / header_typed: numbers are uint64, hashes and asset ids 32 bytes (Go's
                      type system), an issuance program is shorter than 2^31 bytes
     tx_id H t = Ok i: MapTx does not panic (every input has a typed body; every hashed
                      string and list is shorter than 2^31)

   OUTCOME.  The full statement [c03_full] does NOT hold for the code: an unspendable
   (retired) output's program, VM version, state data, vote key and kind never reach the
   id (finding C03-retirement-data-not-committed; BCRP contract registrations are such
   outputs).  [c03_refuted_retirement] gives two transactions with different committed
   content and the same id for EVERY H; [c03_tx_id_effective] states exactly what IS
   committed, for all transactions; [c03_holds_outside] is the full statement for
   transactions without unspendable output. *)
From Coq Require Import List NArith.
From Verif Require Import Outcome Cmp.
From C04 Require Import Model.
From C30 Require Model.
From C03 Require Import Model ProofsBody ProofsTx Proofs.
Import ListNotations.

(* the hashed body of an entry determines the entry, for each of the ten entry types
   (fixed-width, varint-prefixed and 32-byte fields: prefix-free) *)
Theorem c03_body_injective : forall e1 e2,
  entry_ok e1 -> entry_ok e2 -> etyp e1 = etyp e2 -> body e1 = body e2 -> e1 = e2.
Proof. exact body_inj. Qed.
Print Assumptions c03_body_injective.

(* an entry id determines type and hashed content of the entry, or exhibits a collision *)
Theorem c03_entry_id : forall (H : bytes -> bytes), (forall x, length (H x) = 32%nat) ->
  forall e1 e2, entry_ok e1 -> entry_ok e2 -> eid H e1 = eid H e2 -> e1 = e2 \/ Collision H.
Proof. exact eid_inj. Qed.
Print Assumptions c03_entry_id.

(* equal transaction ids: equal version, time range, input commitments (incl. order and
   number), and per output asset/amount and - unless the output is unspendable - kind,
   vote key, VM version, program, state data (incl. order and number).  Every
   transaction with at least one output. *)
Theorem c03_tx_id_effective : forall (H : bytes -> bytes), (forall x, length (H x) = 32%nat) ->
  forall t1 t2 i,
    tx_typed t1 = true -> tx_typed t2 = true -> tx_outputs t1 <> [] ->
    tx_id H t1 = Ok i -> tx_id H t2 = Ok i ->
    committed_eff t1 = committed_eff t2 \/ Collision H.
Proof. exact tx_id_effective. Qed.
Print Assumptions c03_tx_id_effective.

(* the property as stated, outside the finding: if t1 has no unspendable output, every
   transaction with the same id has the same committed content *)
Theorem c03_holds_outside : forall (H : bytes -> bytes), (forall x, length (H x) = 32%nat) ->
  forall t1 t2 i,
    tx_typed t1 = true -> tx_typed t2 = true -> tx_outputs t1 <> [] -> no_retirement t1 = true ->
    tx_id H t1 = Ok i -> tx_id H t2 = Ok i ->
    committed t1 = committed t2 \/ Collision H.
Proof. exact tx_id_committed. Qed.
Print Assumptions c03_holds_outside.

(* the finding: two BCRP registrations of different contracts (and different state data)
   with one id, whatever the hash function ... *)
Theorem c03_refuted_retirement :
  tx_typed w1 = true /\ tx_typed w2 = true /\ tx_outputs w1 <> [] /\
  committed w1 <> committed w2 /\
  forall H, exists i, tx_id H w1 = Ok i /\ tx_id H w2 = Ok i.
Proof. exact refuted_retirement. Qed.
Print Assumptions c03_refuted_retirement.

(* ... so the full statement fails for every hash function without collisions *)
Theorem c03_full_fails : forall H, ~ Collision H -> ~ c03_at H.
Proof. exact full_fails. Qed.
Print Assumptions c03_full_fails.

(* the id - and every input id, spent output id, result id - is a function of the
   committed content alone: arguments, commitment and witness suffixes, asset versions
   and SerializedSize do not reach it.  Any H. *)
Theorem c03_witness_free : forall (H : bytes -> bytes) t1 t2,
  committed t1 = committed t2 -> map_tx H t1 = map_tx H t2 /\ tx_id H t1 = tx_id H t2.
Proof. intros H t1 t2 E. split; [exact (map_tx_committed H t1 t2 E) | exact (tx_id_witness_free H t1 t2 E)]. Qed.
Print Assumptions c03_witness_free.

(* equal block hashes: equal version, height, previous block, timestamp, merkle root *)
Theorem c03_block_hash : forall (H : bytes -> bytes), (forall x, length (H x) = 32%nat) ->
  forall h1 h2, header_typed h1 = true -> header_typed h2 = true ->
  block_hash H h1 = block_hash H h2 -> header_committed h1 = header_committed h2 \/ Collision H.
Proof. exact block_hash_inj. Qed.
Print Assumptions c03_block_hash.

(* ... and nothing else: not the block witness (signature), not the sup links *)
Theorem c03_block_witness_free : forall (H : bytes -> bytes) h1 h2,
  header_committed h1 = header_committed h2 -> block_hash H h1 = block_hash H h2.
Proof. exact block_hash_witness_free. Qed.
Print Assumptions c03_block_witness_free.

(* headers that carry the merkle root of their transaction id lists (C30's merkle_root =
   TxMerkleRoot; block validation demands it): equal block hashes, equal id lists - any
   changed, added, removed or reordered transaction id changes the hash *)
Theorem c03_block_tx_ids : forall (H : bytes -> bytes), (forall x, length (H x) = 32%nat) ->
  forall h1 h2 ids1 ids2, header_typed h1 = true -> header_typed h2 = true ->
  C30.Model.merkle_root H ids1 = Some (bh_merkle_root h1) ->
  C30.Model.merkle_root H ids2 = Some (bh_merkle_root h2) ->
  block_hash H h1 = block_hash H h2 -> ids1 = ids2 \/ Collision H.
Proof. exact block_tx_ids. Qed.
Print Assumptions c03_block_tx_ids.

(* informational: a transaction without outputs has an id that ignores its inputs (the
   header commits to the result ids only); such a transaction never validates *)
Theorem c03_zero_output_note : forall (H : bytes -> bytes) t1 t2,
  tx_outputs t1 = [] -> tx_outputs t2 = [] ->
  tx_version t1 = tx_version t2 -> tx_time_range t1 = tx_time_range t2 ->
  is_ok (tx_id H t1) = true -> is_ok (tx_id H t2) = true ->
  tx_id H t1 = tx_id H t2.
Proof. exact zero_output_note. Qed.
Print Assumptions c03_zero_output_note.
