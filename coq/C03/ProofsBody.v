(* C03 — proofs, part 1: the hashed body of every entry type determines the entry
   (fixed-width ‖ varint-prefixed ‖ 32-byte fields are prefix-free), and an entry id
   determines the entry up to an explicit collision of H. *)
From Coq Require Import List NArith Arith Bool Lia.
From Verif Require Import Outcome Cmp.
From C04 Require Import Model ProofsBase.
From C03 Require Import Model.
Import ListNotations.
Open Scope N_scope.

(* ------------------------------------------------------------------ lists *)

Lemma app_eq_len {A} (a b c d : list A) : length a = length b -> a ++ c = b ++ d -> a = b /\ c = d.
Proof.
  revert b. induction a as [|x a IH]; intros [|y b] L E; cbn in *; try discriminate; auto.
  injection E as -> E. injection L as L. destruct (IH _ L E) as [-> ->]. auto.
Qed.

Lemma bytes_eq_dec (a b : bytes) : {a = b} + {a <> b}.
Proof. apply list_eq_dec. apply N.eq_dec. Qed.

Lemma len_inj {A B} (l1 : list A) (l2 : list B) : len l1 = len l2 -> length l1 = length l2.
Proof. unfold len. apply Nat2N.inj. Qed.

(* ------------------------------------------------------------ fixed width *)

Lemma le_bytes_length k x : length (le_bytes k x) = k.
Proof. revert x. induction k; intros x; cbn; [reflexivity | rewrite IHk; reflexivity]. Qed.

Lemma le_bytes_inj k : forall x y,
  x < 256 ^ N.of_nat k -> y < 256 ^ N.of_nat k -> le_bytes k x = le_bytes k y -> x = y.
Proof.
  induction k as [|k IH]; intros x y Hx Hy E.
  - cbn in Hx, Hy. lia.
  - cbn [le_bytes] in E. injection E as E0 E1.
    rewrite Nat2N.inj_succ, N.pow_succ_r' in Hx, Hy.
    assert (Q : x / 256 = y / 256).
    { apply IH; try assumption; apply N.div_lt_upper_bound; lia. }
    rewrite (N.div_mod' x 256), (N.div_mod' y 256). congruence.
Qed.

Lemma u64_lt x : u64 x = true -> x < 256 ^ N.of_nat 8.
Proof. unfold u64, two64. intros E. apply N.ltb_lt in E. exact E. Qed.

Lemma le64_app_inj x y r r' :
  u64 x = true -> u64 y = true -> le64 x ++ r = le64 y ++ r' -> x = y /\ r = r'.
Proof.
  intros Hx Hy E. apply app_eq_len in E.
  - destruct E as [E ->]. split; [|reflexivity].
    apply (le_bytes_inj 8); auto using u64_lt.
  - unfold le64. rewrite !le_bytes_length. reflexivity.
Qed.

Lemma h32_len b : h32 b = true -> length b = 32%nat.
Proof. unfold h32. apply Nat.eqb_eq. Qed.

Lemma h32_app_inj a b r r' :
  h32 a = true -> h32 b = true -> a ++ r = b ++ r' -> a = b /\ r = r'.
Proof.
  intros Ha Hb E. apply app_eq_len in E; [assumption|].
  rewrite (h32_len a), (h32_len b); auto.
Qed.

(* ------------------------------------------------------ length-prefixed *)

Lemma uv_app_inj x y r r' :
  ok31 x = true -> ok31 y = true -> put_uvarint x ++ r = put_uvarint y ++ r' -> x = y /\ r = r'.
Proof.
  intros Hx Hy E. pose proof (read_put_varint31 x r Hx) as A.
  pose proof (read_put_varint31 y r' Hy) as B. rewrite E in A. rewrite A in B.
  injection B as -> ->. auto.
Qed.

Lemma varstr_app_inj s t r r' :
  varstr_ok s = true -> varstr_ok t = true ->
  write_varstr31 s ++ r = write_varstr31 t ++ r' -> s = t /\ r = r'.
Proof.
  intros Hs Ht E. pose proof (read_write_varstr31 s r Hs) as A.
  pose proof (read_write_varstr31 t r' Ht) as B. rewrite E in A. rewrite A in B.
  injection B as -> ->. auto.
Qed.

Lemma varstr_list_app_inj l m r r' :
  varstr_list_ok l = true -> varstr_list_ok m = true ->
  write_varstr_list l ++ r = write_varstr_list m ++ r' -> l = m /\ r = r'.
Proof.
  intros Hl Hm E. pose proof (read_write_varstr_list l r Hl) as A.
  pose proof (read_write_varstr_list m r' Hm) as B. rewrite E in A. rewrite A in B.
  injection B as -> ->. auto.
Qed.

(* ------------------------------------------------------------- composites *)

Lemma vs_b_app_inj s t r r' :
  vs_typed s = true -> vs_typed t = true -> vs_b s ++ r = vs_b t ++ r' -> s = t /\ r = r'.
Proof.
  unfold vs_typed, vs_b. intros Hs Ht E.
  repeat (apply andb_prop in Hs; destruct Hs as [Hs ?]).
  repeat (apply andb_prop in Ht; destruct Ht as [Ht ?]).
  repeat rewrite <- app_assoc in E.
  apply h32_app_inj in E; try assumption. destruct E as [E1 E].
  apply h32_app_inj in E; try assumption. destruct E as [E2 E].
  apply le64_app_inj in E; try assumption. destruct E as [E3 E].
  apply le64_app_inj in E; try assumption. destruct E as [E4 E].
  destruct s, t; cbn in *; subst; auto.
Qed.

Lemma program_b_app_inj vm code vm' code' r r' :
  u64 vm = true -> u64 vm' = true -> varstr_ok code = true -> varstr_ok code' = true ->
  program_b vm code ++ r = program_b vm' code' ++ r' -> vm = vm' /\ code = code' /\ r = r'.
Proof.
  unfold program_b. intros H1 H2 H3 H4 E. repeat rewrite <- app_assoc in E.
  apply le64_app_inj in E; try assumption. destruct E as [-> E].
  apply varstr_app_inj in E; try assumption. destruct E as [-> ->]. auto.
Qed.

Lemma concat_h32_inj : forall l1 l2 r1 r2,
  forallb h32 l1 = true -> forallb h32 l2 = true -> length l1 = length l2 ->
  concat l1 ++ r1 = concat l2 ++ r2 -> l1 = l2 /\ r1 = r2.
Proof.
  induction l1 as [|a l1 IH]; intros [|b l2] r1 r2 H1 H2 L E; cbn in *; try discriminate; auto.
  apply andb_prop in H1. destruct H1 as [Ha H1]. apply andb_prop in H2. destruct H2 as [Hb H2].
  repeat rewrite <- app_assoc in E. apply h32_app_inj in E; try assumption. destruct E as [-> E].
  injection L as L. destruct (IH _ _ _ H1 H2 L E) as [-> ->]. auto.
Qed.

Lemma concat_vs_inj : forall l1 l2 r1 r2,
  forallb vs_typed l1 = true -> forallb vs_typed l2 = true -> length l1 = length l2 ->
  concat (map vs_b l1) ++ r1 = concat (map vs_b l2) ++ r2 -> l1 = l2 /\ r1 = r2.
Proof.
  induction l1 as [|a l1 IH]; intros [|b l2] r1 r2 H1 H2 L E; cbn in *; try discriminate; auto.
  apply andb_prop in H1. destruct H1 as [Ha H1]. apply andb_prop in H2. destruct H2 as [Hb H2].
  repeat rewrite <- app_assoc in E. apply vs_b_app_inj in E; try assumption. destruct E as [-> E].
  injection L as L. destruct (IH _ _ _ H1 H2 L E) as [-> ->]. auto.
Qed.

(* --------------------------------------------------------- entry bodies *)

Definition entry_ok (e : entry) : Prop := entry_typed e = true /\ entry_hashable e = true.

Ltac bsplit :=
  repeat match goal with
         | H : _ && _ = true |- _ => apply andb_prop in H; destruct H
         end.

Ltac norm E := apply (f_equal (fun l => l ++ @nil N)) in E; cbn [body] in E;
               repeat rewrite <- app_assoc in E.

(* c03_body_injective *)
Lemma body_inj e1 e2 :
  entry_ok e1 -> entry_ok e2 -> etyp e1 = etyp e2 -> body e1 = body e2 -> e1 = e2.
Proof.
  intros [T1 Q1] [T2 Q2] Ety E.
  destruct e1, e2; try discriminate Ety; clear Ety; cbn [entry_typed entry_hashable] in *; bsplit;
    norm E.
  - (* tx header *)
    apply le64_app_inj in E; try assumption. destruct E as [-> E].
    apply le64_app_inj in E; try assumption. destruct E as [-> E].
    apply uv_app_inj in E; try assumption. destruct E as [L E].
    apply concat_h32_inj in E; try assumption; [|apply len_inj; assumption].
    destruct E as [-> _]. reflexivity.
  - (* mux *)
    apply uv_app_inj in E; try assumption. destruct E as [L E].
    apply concat_vs_inj in E; try assumption; [|apply len_inj; assumption].
    destruct E as [-> E].
    apply program_b_app_inj in E; try assumption. destruct E as [-> [-> _]]. reflexivity.
  - (* spend *)
    rewrite !app_nil_r in E. congruence.
  - (* veto *)
    rewrite !app_nil_r in E. congruence.
  - (* issuance *)
    apply h32_app_inj in E; try assumption. destruct E as [-> E].
    apply h32_app_inj in E; try assumption. destruct E as [-> E].
    apply le64_app_inj in E; try assumption. destruct E as [-> _]. reflexivity.
  - (* coinbase *)
    apply varstr_app_inj in E; try assumption. destruct E as [-> _]. reflexivity.
  - (* original output *)
    apply vs_b_app_inj in E; try assumption. destruct E as [-> E].
    apply program_b_app_inj in E; try assumption. destruct E as [-> [-> E]].
    apply varstr_list_app_inj in E; try assumption. destruct E as [-> _]. reflexivity.
  - (* vote output *)
    apply vs_b_app_inj in E; try assumption. destruct E as [-> E].
    apply program_b_app_inj in E; try assumption. destruct E as [-> [-> E]].
    apply varstr_app_inj in E; try assumption. destruct E as [-> E].
    apply varstr_list_app_inj in E; try assumption. destruct E as [-> _]. reflexivity.
  - (* retirement *)
    apply vs_b_app_inj in E; try assumption. destruct E as [-> _]. reflexivity.
  - (* block header *)
    apply le64_app_inj in E; try assumption. destruct E as [-> E].
    apply le64_app_inj in E; try assumption. destruct E as [-> E].
    apply h32_app_inj in E; try assumption. destruct E as [-> E].
    apply le64_app_inj in E; try assumption. destruct E as [-> E].
    apply h32_app_inj in E; try assumption. destruct E as [-> _]. reflexivity.
Qed.

Lemma typ_str_inj t1 t2 : typ_str t1 = typ_str t2 -> t1 = t2.
Proof. destruct t1, t2; intros E; try reflexivity; discriminate E. Qed.

(* ------------------------------------------------------------ entry ids *)

Section WithH.
  Variable H : bytes -> bytes.
  Hypothesis H_len : forall x, length (H x) = 32%nat.

  Definition Collision : Prop := exists x y : bytes, x <> y /\ H x = H y.

  Lemma H_inj x y : H x = H y -> x = y \/ Collision.
  Proof.
    intros E. destruct (bytes_eq_dec x y) as [Q|Q]; [left; exact Q|].
    right. exists x, y. auto.
  Qed.

  Lemma orC_bind (A B : Prop) : A \/ Collision -> (A -> B \/ Collision) -> B \/ Collision.
  Proof. intros [a|c] F; [apply F; exact a | right; exact c]. Qed.

  Lemma h32_H x : h32 (H x) = true.
  Proof. unfold h32. rewrite H_len. reflexivity. Qed.

  Lemma h32_entry_id t b : h32 (entry_id H t b) = true.
  Proof. apply h32_H. Qed.
  Lemma h32_eid e : h32 (eid H e) = true.
  Proof. apply h32_H. Qed.

  Lemma entry_id_inj t1 b1 t2 b2 :
    entry_id H t1 b1 = entry_id H t2 b2 -> (t1 = t2 /\ b1 = b2) \/ Collision.
  Proof.
    unfold entry_id. intros E. apply H_inj in E. apply (orC_bind _ _ E). clear E. intros E.
    rewrite !app_assoc in E.
    change (colon :: H b1) with ([colon] ++ H b1) in E.
    change (colon :: H b2) with ([colon] ++ H b2) in E.
    rewrite !app_assoc in E.
    assert (L : length (H b1) = length (H b2)) by (rewrite !H_len; reflexivity).
    assert (E' : ((entryid_tag ++ typ_str t1) ++ [colon]) = ((entryid_tag ++ typ_str t2) ++ [colon])
                 /\ H b1 = H b2).
    { revert E L. generalize (H b1) (H b2). generalize ((entryid_tag ++ typ_str t1) ++ [colon]).
      generalize ((entryid_tag ++ typ_str t2) ++ [colon]). intros p2 p1 h1 h2 E L.
      assert (Lp : length p1 = length p2).
      { apply (f_equal (@length N)) in E. rewrite !app_length in E. lia. }
      apply app_eq_len; assumption. }
    destruct E' as [Ep Eh].
    apply app_inv_tail in Ep. apply app_inv_head in Ep. apply typ_str_inj in Ep.
    apply H_inj in Eh. apply (orC_bind _ _ Eh). intros ->. left. auto.
  Qed.

  (* an entry id determines the entry, or exhibits a collision *)
  Lemma eid_inj e1 e2 : entry_ok e1 -> entry_ok e2 -> eid H e1 = eid H e2 -> e1 = e2 \/ Collision.
  Proof.
    intros O1 O2 E. unfold eid in E. apply entry_id_inj in E. apply (orC_bind _ _ E).
    intros [Et Eb]. left. apply body_inj; assumption.
  Qed.

  (* the asset id of an issuance *)
  Lemma asset_id_inj prog vm def prog' vm' def' :
    u64 vm = true -> u64 vm' = true -> varstr_ok prog = true -> varstr_ok prog' = true ->
    asset_id H prog vm def = asset_id H prog' vm' def' ->
    (prog = prog' /\ vm = vm' /\ def = def') \/ Collision.
  Proof.
    intros V V' P P' E. unfold asset_id in E. apply H_inj in E. apply (orC_bind _ _ E). clear E.
    unfold assetdef_b. rewrite P, P'. intros E.
    apply (f_equal (fun l => l ++ @nil N)) in E. repeat rewrite <- app_assoc in E.
    apply program_b_app_inj in E; try assumption. destruct E as [-> [-> E]].
    rewrite !app_nil_r in E. apply H_inj in E. apply (orC_bind _ _ E). intros ->. left. auto.
  Qed.
End WithH.
