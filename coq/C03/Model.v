(* C03 — executable model of transaction and block identity.  NO PROOFS HERE.

   Mirrors
     protocol/bc/entry.go        EntryID, writeForHash (byte, uint64, []byte, [][]byte,
                                 *Hash, *AssetID, pointer, slice, struct)
     protocol/bc/*.go            typ() and writeForHash of TxHeader, Mux, Spend, VetoInput,
                                 Issuance, Coinbase, OriginalOutput, VoteOutput, Retirement,
                                 BlockHeader; AssetDefinition.ComputeAssetID
     protocol/bc/types/map.go    MapTx (mapInputs, initMux, mapOutputs, generateTx),
                                 mapBlockHeader
     protocol/bc/types/issuance.go   NonceHash, AssetDefinitionHash, AssetID

   The value types (tx_data, tx_input, typed_input, spend_commitment, tx_output,
   output_commitment, block_header) and the uvarint / varstr writers are those of the
   codec model C04/Model.v.  A bc.Hash / bc.AssetID is its 32-byte serialisation.

   Conventions.
   * The hash function (SHA3-256 in the code) is the Section variable [H]; the
     correspondence run instantiates it with Verif.Sha3.sha3_256.
   * writeForHash of a value:
       uint64           8 bytes little endian                      [le64]
       []byte / string  WriteVarstr31 (uvarint length, bytes)      [write_varstr31]
       [][]byte         WriteVarstrList                            [write_varstr_list]
       *Hash, *AssetID  the 32 bytes (32 zero bytes for nil)
       pointer          the pointee (nothing for nil; MapTx never leaves one nil)
       struct           its fields in declaration order
       slice            WriteVarint31(len), then the elements
     WriteVarint31 refuses a length above MaxInt32 and mustWriteForHash panics with that
     error: [entry_hashable] is the condition under which no such panic occurs, and the
     entry points return [Panic ExplicitPanic] otherwise.
   * An entry is a value of [entry]; only the fields that writeForHash reads are kept
     (Ordinal, WitnessDestination, WitnessArguments, WitnessAssetDefinition,
     SerializedSize are never written: they are not part of the model at all).
   * MapTx panics ("fail on handle transaction input") on an input whose TypedInput is
     nil ([in_typed = None]).  An output without commitment ([out_commit = None], what
     decoding leaves for an unknown asset version) is the zero OutputCommitment: nil
     AssetId (hashed as 32 zero bytes), amount 0, VM version 0, no program, no state.
   * The asset versions, every commitment/witness suffix, the arguments and
     SerializedSize are not read by MapTx. *)
From Coq Require Import List NArith Bool.
From Verif Require Import Outcome Cmp.
From C04 Require Import Model.
Import ListNotations.
Open Scope N_scope.

(* binary.LittleEndian.PutUint64 (k = 8) *)
Fixpoint le_bytes (k : nat) (n : N) : bytes :=
  match k with
  | O => []
  | S k' => n mod 256 :: le_bytes k' (n / 256)
  end.
Definition le64 (n : N) : bytes := le_bytes 8 n.

Definition two64 : N := 18446744073709551616.

(* ---------------------------------------------------------------- entries *)

Inductive etype :=
| TTxHeader | TMux | TSpend | TVeto | TIssuance | TCoinbase
| TOriginal | TVote | TRetire | TBlockHeader.

(* typ(): "txheader" "mux1" "spend1" "vetoInput1" "issuance1" "coinbase1"
   "originalOutput1" "voteOutput1" "retirement1" "blockheader" *)
Definition typ_str (t : etype) : bytes :=
  match t with
  | TTxHeader => [116;120;104;101;97;100;101;114]
  | TMux => [109;117;120;49]
  | TSpend => [115;112;101;110;100;49]
  | TVeto => [118;101;116;111;73;110;112;117;116;49]
  | TIssuance => [105;115;115;117;97;110;99;101;49]
  | TCoinbase => [99;111;105;110;98;97;115;101;49]
  | TOriginal => [111;114;105;103;105;110;97;108;79;117;116;112;117;116;49]
  | TVote => [118;111;116;101;79;117;116;112;117;116;49]
  | TRetire => [114;101;116;105;114;101;109;101;110;116;49]
  | TBlockHeader => [98;108;111;99;107;104;101;97;100;101;114]
  end.

(* "entryid:" *)
Definition entryid_tag : bytes := [101;110;116;114;121;105;100;58].
Definition colon : N := 58.

(* bc.ValueSource{Ref *Hash; Value *AssetAmount{AssetId *AssetID; Amount uint64}; Position uint64} *)
Record vsrc := mkVS { vs_ref : bytes; vs_asset : bytes; vs_amount : N; vs_pos : N }.

Definition vs_b (s : vsrc) : bytes :=
  vs_ref s ++ vs_asset s ++ le64 (vs_amount s) ++ le64 (vs_pos s).

(* bc.Program{VmVersion uint64; Code []byte} *)
Definition program_b (vm : N) (code : bytes) : bytes := le64 vm ++ write_varstr31 code.

Inductive entry :=
| ETxHeader (version time_range : N) (result_ids : list bytes)
| EMux (sources : list vsrc) (vm : N) (code : bytes)
| ESpend (spent_output_id : bytes)
| EVeto (spent_output_id : bytes)
| EIssuance (nonce_hash asset_id : bytes) (amount : N)
| ECoinbase (arbitrary : bytes)
| EOriginal (src : vsrc) (vm : N) (code : bytes) (state : list bytes)
| EVote (src : vsrc) (vm : N) (code : bytes) (vote : bytes) (state : list bytes)
| ERetire (src : vsrc)
| EBlockHeader (version height : N) (prev : bytes) (timestamp : N) (root : bytes).

Definition etyp (e : entry) : etype :=
  match e with
  | ETxHeader _ _ _ => TTxHeader
  | EMux _ _ _ => TMux
  | ESpend _ => TSpend
  | EVeto _ => TVeto
  | EIssuance _ _ _ => TIssuance
  | ECoinbase _ => TCoinbase
  | EOriginal _ _ _ _ => TOriginal
  | EVote _ _ _ _ _ => TVote
  | ERetire _ => TRetire
  | EBlockHeader _ _ _ _ _ => TBlockHeader
  end.

(* the writeForHash methods *)
Definition body (e : entry) : bytes :=
  match e with
  | ETxHeader v tr ids => le64 v ++ le64 tr ++ put_uvarint (len ids) ++ concat ids
  | EMux srcs vm code => put_uvarint (len srcs) ++ concat (map vs_b srcs) ++ program_b vm code
  | ESpend id => id
  | EVeto id => id
  | EIssuance nh asset amount => nh ++ asset ++ le64 amount
  | ECoinbase arb => write_varstr31 arb
  | EOriginal s vm code st => vs_b s ++ program_b vm code ++ write_varstr_list st
  | EVote s vm code vote st =>
    vs_b s ++ program_b vm code ++ write_varstr31 vote ++ write_varstr_list st
  | ERetire s => vs_b s
  | EBlockHeader v h prev ts root => le64 v ++ le64 h ++ prev ++ le64 ts ++ root
  end.

(* no WriteVarint31 range error while writing the body *)
Definition entry_hashable (e : entry) : bool :=
  match e with
  | ETxHeader _ _ ids => ok31 (len ids)
  | EMux srcs _ code => ok31 (len srcs) && varstr_ok code
  | ECoinbase arb => varstr_ok arb
  | EOriginal _ _ code st => varstr_ok code && varstr_list_ok st
  | EVote _ _ code vote st => varstr_ok code && varstr_ok vote && varstr_list_ok st
  | _ => true
  end.

(* vmutil.IsUnspendable: len(prog) > 0 && prog[0] == OP_FAIL *)
Definition OP_FAIL : N := 106.
Definition OP_TRUE : N := 81.
Definition unspendable (prog : bytes) : bool :=
  match prog with
  | b :: _ => b =? OP_FAIL
  | [] => false
  end.

(* consensus.BTMAssetID: 32 bytes 0xff *)
Definition btm_asset_id : bytes := repeat 255 32.

Definition zero_oc : output_commitment := mkOC zero32 0 0 [] [].
Definition oc_of (o : tx_output) : output_commitment :=
  match out_commit o with Some c => c | None => zero_oc end.

(* mapCoinbaseInput: var totalAmount uint64; totalAmount += output.Amount (wraps) *)
Definition total_out_amount (outs : list tx_output) : N :=
  fold_left (fun a o => (a + oc_amount (oc_of o)) mod two64) outs 0.

Section Ident.
  Variable H : bytes -> bytes.

  (* EntryID: H("entryid:" ++ typ ++ ":" ++ H(body)) *)
  Definition entry_id (t : etype) (b : bytes) : bytes :=
    H (entryid_tag ++ typ_str t ++ colon :: H b).
  Definition eid (e : entry) : bytes := entry_id (etyp e) (body e).

  (* AssetDefinition{IssuanceProgram *Program; Data *Hash}.ComputeAssetID, with
     Data = SHA3(asset definition bytes).  ComputeAssetID ignores the error of writeForHash
     ("error is impossible"): for a program of 2^31 bytes or more WriteVarstr31 fails before
     writing anything and the struct walk stops there, so only the VM version is hashed. *)
  Definition assetdef_b (vm : N) (prog def_hash : bytes) : bytes :=
    if varstr_ok prog then program_b vm prog ++ def_hash else le64 vm.
  Definition asset_id (prog : bytes) (vm : N) (def : bytes) : bytes :=
    H (assetdef_b vm prog (H def)).

  Definition sc_src (sc : spend_commitment) : vsrc :=
    mkVS (sc_source_id sc) (sc_asset_id sc) (sc_amount sc) (sc_source_pos sc).

  (* the entries MapTx makes for one input: the spent output (spend, veto) ... *)
  Definition prevout_entry (ti : typed_input) : option entry :=
    match ti with
    | Spend sc _ _ => Some (EOriginal (sc_src sc) (sc_vm_version sc) (sc_program sc) (sc_state sc))
    | Veto sc _ vote _ =>
      Some (EVote (sc_src sc) (sc_vm_version sc) (sc_program sc) vote (sc_state sc))
    | _ => None
    end.

  (* ... and the input entry itself *)
  Definition input_entry (ti : typed_input) : entry :=
    match ti with
    | Issuance nonce amount def vm prog _ => EIssuance (H nonce) (asset_id prog vm def) amount
    | Spend sc _ _ =>
      ESpend (eid (EOriginal (sc_src sc) (sc_vm_version sc) (sc_program sc) (sc_state sc)))
    | Coinbase arb => ECoinbase arb
    | Veto sc _ vote _ =>
      EVeto (eid (EVote (sc_src sc) (sc_vm_version sc) (sc_program sc) vote (sc_state sc)))
    end.

  (* the asset amount an input feeds into the mux (a coinbase carries the sum of all
     output amounts in BTM) *)
  Definition input_asset (ti : typed_input) : bytes :=
    match ti with
    | Issuance _ _ def vm prog _ => asset_id prog vm def
    | Spend sc _ _ => sc_asset_id sc
    | Coinbase _ => btm_asset_id
    | Veto sc _ _ _ => sc_asset_id sc
    end.
  Definition input_amount (total : N) (ti : typed_input) : N :=
    match ti with
    | Issuance _ amount _ _ _ _ => amount
    | Spend sc _ _ => sc_amount sc
    | Coinbase _ => total
    | Veto sc _ _ _ => sc_amount sc
    end.

  (* mapIssuanceInput / mapSpendInput / mapVetoInput / mapCoinbaseInput: the spent output
     id (appended to SpentOutputIDs), the input id, and muxSources[i] (Ref = the input's
     id, Position 0).  Each hash is computed once, as in the code. *)
  Record in_mapped := mkIM { im_prevout : option bytes; im_id : bytes; im_src : vsrc }.

  Definition map_input (total : N) (ti : typed_input) : in_mapped :=
    match ti with
    | Issuance nonce amount def vm prog _ =>
      let a := asset_id prog vm def in
      let id := eid (EIssuance (H nonce) a amount) in
      mkIM None id (mkVS id a amount 0)
    | Spend sc _ _ =>
      let p := eid (EOriginal (sc_src sc) (sc_vm_version sc) (sc_program sc) (sc_state sc)) in
      let id := eid (ESpend p) in
      mkIM (Some p) id (mkVS id (sc_asset_id sc) (sc_amount sc) 0)
    | Coinbase arb =>
      let id := eid (ECoinbase arb) in
      mkIM None id (mkVS id btm_asset_id total 0)
    | Veto sc _ vote _ =>
      let p := eid (EVote (sc_src sc) (sc_vm_version sc) (sc_program sc) vote (sc_state sc)) in
      let id := eid (EVeto p) in
      mkIM (Some p) id (mkVS id (sc_asset_id sc) (sc_amount sc) 0)
    end.

  (* mapOutputs, output number [i] *)
  Definition output_entry (mux_id : bytes) (i : N) (o : tx_output) : entry :=
    let c := oc_of o in
    let src := mkVS mux_id (oc_asset_id c) (oc_amount c) i in
    if unspendable (oc_program c) then ERetire src
    else
      match out_typed o with
      | OutOriginal => EOriginal src (oc_vm_version c) (oc_program c) (oc_state c)
      | OutVote vote => EVote src (oc_vm_version c) (oc_program c) vote (oc_state c)
      end.

  Fixpoint output_entries (mux_id : bytes) (i : N) (outs : list tx_output) : list entry :=
    match outs with
    | [] => []
    | o :: r => output_entry mux_id i o :: output_entries mux_id (i + 1) r
    end.

  Fixpoint all_some {A} (l : list (option A)) : option (list A) :=
    match l with
    | [] => Some []
    | None :: _ => None
    | Some a :: r => match all_some r with Some t => Some (a :: t) | None => None end
    end.

  Definition opt_list {A} (o : option A) : list A :=
    match o with Some a => [a] | None => [] end.

  (* bc.Tx as far as ids go *)
  Record mapped := mkMapped {
    m_id : bytes;                 (* Tx.ID *)
    m_input_ids : list bytes;     (* Tx.InputIDs *)
    m_spent_ids : list bytes;     (* Tx.SpentOutputIDs *)
    m_mux_id : bytes;
    m_result_ids : list bytes }.  (* TxHeader.ResultIds *)

  (* initMux: NewMux(muxSources, &Program{VmVersion: 1, Code: {OP_TRUE}}) *)
  Definition mux_entry (srcs : list vsrc) : entry := EMux srcs 1 [OP_TRUE].

  (* no mustWriteForHash panic (a WriteVarint31 range error) in any entry of the
     transaction; stated on the fields so that evaluating it computes no hash *)
  Definition ti_hashable (ti : typed_input) : bool :=
    match ti with
    | Issuance _ _ _ _ _ _ => true
    | Spend sc _ _ => varstr_ok (sc_program sc) && varstr_list_ok (sc_state sc)
    | Coinbase arb => varstr_ok arb
    | Veto sc _ vote _ =>
      varstr_ok (sc_program sc) && varstr_ok vote && varstr_list_ok (sc_state sc)
    end.
  Definition output_hashable (o : tx_output) : bool :=
    let c := oc_of o in
    if unspendable (oc_program c) then true
    else
      match out_typed o with
      | OutOriginal => varstr_ok (oc_program c) && varstr_list_ok (oc_state c)
      | OutVote vote => varstr_ok (oc_program c) && varstr_ok vote && varstr_list_ok (oc_state c)
      end.
  Definition tx_hashable (tis : list typed_input) (outs : list tx_output) : bool :=
    forallb ti_hashable tis && ok31 (len tis) && forallb output_hashable outs && ok31 (len outs).

  (* MapTx *)
  Definition map_tx (t : tx_data) : outcome unit mapped :=
    match all_some (map in_typed (tx_inputs t)) with
    | None => Panic ExplicitPanic              (* "fail on handle transaction input" *)
    | Some tis =>
      if tx_hashable tis (tx_outputs t) then
        let total := total_out_amount (tx_outputs t) in
        let ims := map (map_input total) tis in
        let mux_id := eid (mux_entry (map im_src ims)) in
        let rids := map eid (output_entries mux_id 0 (tx_outputs t)) in
        Ok (mkMapped (eid (ETxHeader (tx_version t) (tx_time_range t) rids))
                     (map im_id ims)
                     (flat_map (fun m => opt_list (im_prevout m)) ims)
                     mux_id rids)
      else Panic ExplicitPanic                 (* mustWriteForHash: ErrRange *)
    end.

  (* types.Tx.ID *)
  Definition tx_id (t : tx_data) : outcome unit bytes :=
    match map_tx t with
    | Ok m => Ok (m_id m)
    | Err e => Err e
    | Panic p => Panic p
    end.

  (* mapBlockHeader / BlockHeader.Hash() *)
  Definition header_entry (h : block_header) : entry :=
    EBlockHeader (bh_version h) (bh_height h) (bh_prev h) (bh_timestamp h) (bh_merkle_root h).
  Definition block_hash (h : block_header) : bytes := eid (header_entry h).
End Ident.

(* ------------------------------------------------- what the property lists *)

(* an input's commitment: everything but arguments and suffixes.  (For an issuance the
   asset definition, VM version and issuance program are serialised in the witness part
   but are bound by the asset id of the commitment.) *)
Inductive in_committed :=
| KIssuance (nonce : bytes) (amount : N) (asset_def : bytes) (vm : N) (prog : bytes)
| KSpend (sc : spend_commitment)
| KCoinbase (arbitrary : bytes)
| KVeto (sc : spend_commitment) (vote : bytes).

Definition ti_committed (ti : typed_input) : in_committed :=
  match ti with
  | Issuance nonce amount def vm prog _ => KIssuance nonce amount def vm prog
  | Spend sc _ _ => KSpend sc
  | Coinbase arb => KCoinbase arb
  | Veto sc _ vote _ => KVeto sc vote
  end.

Definition input_committed (i : tx_input) : option in_committed :=
  option_map ti_committed (in_typed i).

(* an output's asset, amount, program (with VM version), state data, kind and vote key *)
Definition output_committed (o : tx_output) : typed_output * output_commitment :=
  (out_typed o, oc_of o).

Definition committed (t : tx_data) :=
  (tx_version t, tx_time_range t, map input_committed (tx_inputs t),
   map output_committed (tx_outputs t)).

(* what actually reaches the id: of an output with an unspendable program only asset and
   amount *)
Inductive out_effective :=
| XRetired (asset : bytes) (amount : N)
| XKept (c : typed_output * output_commitment).

Definition output_effective (o : tx_output) : out_effective :=
  if unspendable (oc_program (oc_of o)) then XRetired (oc_asset_id (oc_of o)) (oc_amount (oc_of o))
  else XKept (output_committed o).

Definition committed_eff (t : tx_data) :=
  (tx_version t, tx_time_range t, map input_committed (tx_inputs t),
   map output_effective (tx_outputs t)).

Definition no_retirement (t : tx_data) : bool :=
  forallb (fun o => negb (unspendable (oc_program (oc_of o)))) (tx_outputs t).

Definition header_committed (h : block_header) :=
  (bh_version h, bh_height h, bh_prev h, bh_timestamp h, bh_merkle_root h).

(* ------------------------------------------------- typing (Go's type system) *)

Definition u64 (x : N) : bool := x <? two64.
Definition h32 (b : bytes) : bool := Nat.eqb (length b) 32.

Definition sc_typed (sc : spend_commitment) : bool :=
  h32 (sc_source_id sc) && h32 (sc_asset_id sc) && u64 (sc_amount sc) && u64 (sc_source_pos sc) &&
  u64 (sc_vm_version sc).

Definition ti_typed (ti : typed_input) : bool :=
  match ti with
  | Issuance _ amount _ vm prog _ => u64 amount && u64 vm && varstr_ok prog
  | Spend sc _ _ => sc_typed sc
  | Coinbase _ => true
  | Veto sc _ _ _ => sc_typed sc
  end.

Definition input_typed (i : tx_input) : bool :=
  match in_typed i with Some ti => ti_typed ti | None => true end.

Definition output_typed (o : tx_output) : bool :=
  let c := oc_of o in h32 (oc_asset_id c) && u64 (oc_amount c) && u64 (oc_vm_version c).

(* uint64 numbers, 32-byte hashes and asset ids; an issuance program shorter than 2^31
   bytes (a longer one cannot be serialised, and ComputeAssetID would hash a truncated
   definition) *)
Definition tx_typed (t : tx_data) : bool :=
  u64 (tx_version t) && u64 (tx_time_range t) &&
  forallb input_typed (tx_inputs t) && forallb output_typed (tx_outputs t).

Definition header_typed (h : block_header) : bool :=
  u64 (bh_version h) && u64 (bh_height h) && h32 (bh_prev h) && u64 (bh_timestamp h) &&
  h32 (bh_merkle_root h).

Definition vs_typed (s : vsrc) : bool :=
  h32 (vs_ref s) && h32 (vs_asset s) && u64 (vs_amount s) && u64 (vs_pos s).

(* the entry's numbers are uint64, its hashes 32 bytes *)
Definition entry_typed (e : entry) : bool :=
  match e with
  | ETxHeader v tr ids => u64 v && u64 tr && forallb h32 ids
  | EMux srcs vm _ => forallb vs_typed srcs && u64 vm
  | ESpend id => h32 id
  | EVeto id => h32 id
  | EIssuance nh asset amount => h32 nh && h32 asset && u64 amount
  | ECoinbase _ => true
  | EOriginal s vm _ _ => vs_typed s && u64 vm
  | EVote s vm _ _ _ => vs_typed s && u64 vm
  | ERetire s => vs_typed s
  | EBlockHeader v h prev ts root => u64 v && u64 h && h32 prev && u64 ts && h32 root
  end.
