#!/usr/bin/env python3
"""confirmseed.py <seed dir> [...] : coordinator's own confirmation of a seeded change.

For each directory (patch.diff, demo file(s), meta.json) in a scratch worktree of /repo HEAD:
  1. demo on the unchanged tree            -> must PASS
  2. apply patch; go build touched pkgs    -> must build
  3. existing tests of the touched pkgs    -> must pass (known baseline failures excepted)
  4. demo with the patch                   -> must FAIL
Writes the outcome into meta.json ("coordinator_confirmed") and prints one line per seed.
Scratch worktrees live under /tmp/seedconfirm and are removed afterwards.
"""
import json, os, re, shutil, subprocess, sys

ENV = dict(os.environ, GOFLAGS="-mod=mod", GOPROXY="off", GOSUMDB="off", GOTOOLCHAIN="local")
BASELINE_FAIL = {"account": "TestOptUTXOs"}   # fails identically on the unchanged tree


def sh(cmd, cwd, timeout=1500):
    try:
        p = subprocess.run(cmd, cwd=cwd, env=ENV, shell=True, text=True, timeout=timeout,
                           stdout=subprocess.PIPE, stderr=subprocess.STDOUT)
        return p.returncode, p.stdout
    except subprocess.TimeoutExpired as e:
        return 124, (e.stdout or "") if isinstance(e.stdout, str) else "[timeout]"


def demo_pkgs(d, meta, wt):
    """(demo file, package dir) pairs"""
    out = []
    cands = [os.path.dirname(f) for f in meta.get("files_changed", [])]
    cands += re.findall(r"\./([\w/\-]+?)/?(?:\s|$|\))", meta.get("demo", ""))
    cands += re.findall(r"<repo>/([\w/\-]+?)/?(?:\s|$)", meta.get("demo", ""))
    cands += re.findall(r"\(in `?([\w/\-]+?)/?`?\)", meta.get("demo", ""))
    for root, _, files in os.walk(d):
        rel = os.path.relpath(root, d)
        for f in sorted(files):
            if f.endswith("_test.go") and rel != ".":
                pkg = rel if os.path.isdir(os.path.join(wt, rel)) else rel.replace("_", "/")
                out.append((os.path.join(rel, f), pkg))   # the demo sits in a mirror of its package directory
    for f in sorted(os.listdir(d)):
        if not f.endswith("_test.go"):
            continue
        m = re.search(r"^package (\w+)", open(os.path.join(d, f)).read(), re.M)
        pk = m.group(1) if m else ""
        base = pk[:-5] if pk.endswith("_test") else pk
        pick = None
        for c in cands:
            c = c.strip("/")
            if os.path.isdir(os.path.join(wt, c)) and os.path.basename(c) == base:
                pick = c
                break
        if pick is None:
            for c in cands:
                c = c.strip("/")
                if os.path.isdir(os.path.join(wt, c)):
                    # package name may differ from its directory name
                    rc, o = sh("go list -f '{{.Name}}' ./%s/" % c, wt, 120)
                    if rc == 0 and o.strip().splitlines()[-1] == base:
                        pick = c
                        break
        out.append((f, pick))
    return out


def confirm(d):
    d = os.path.abspath(d)
    sid = os.path.basename(d)
    meta = json.load(open(os.path.join(d, "meta.json")))
    wt = "/tmp/seedconfirm/%s" % sid
    shutil.rmtree(wt, ignore_errors=True)
    os.makedirs("/tmp/seedconfirm", exist_ok=True)
    subprocess.run(["git", "-C", "/repo", "worktree", "prune"])
    subprocess.check_call(["git", "-C", "/repo", "worktree", "add", "-f", "--detach", wt, "HEAD"],
                          stdout=subprocess.DEVNULL, stderr=subprocess.DEVNULL)
    res = {"head": subprocess.check_output(["git", "-C", "/repo", "rev-parse", "--short", "HEAD"], text=True).strip()}
    try:
        demos = demo_pkgs(d, meta, wt)
        if not demos or any(p is None for _, p in demos):
            res["error"] = "cannot place demo files: %s" % demos
            return res
        race = "-race " if "-race" in meta.get("demo", "") else ""

        def run_demo():
            ok = True
            outs = []
            for f, p in demos:
                rc, o = sh("CGO_ENABLED=%s go test -vet=off %s-count=1 -run 'TestSeed|Seed' ./%s/" % ("1" if race else "0", race, p), wt)
                outs.append(o[-400:])
                ok = ok and rc == 0
            return ok, outs
        for f, p in demos:
            shutil.copy(os.path.join(d, f), os.path.join(wt, p, os.path.basename(f)))
        ok, o = run_demo()
        res["demo_passes_unchanged"] = ok
        if not ok:
            res["demo_unchanged_output"] = o
        rc, o = sh("git apply --3way %s || git apply %s" % (os.path.join(d, "patch.diff"), os.path.join(d, "patch.diff")), wt)
        if rc != 0:
            rc, o = sh("patch -p1 < %s" % os.path.join(d, "patch.diff"), wt)
        res["patch_applies"] = rc == 0
        if rc != 0:
            res["error"] = o[-400:]
            return res
        pkgs = sorted({os.path.dirname(f) for f in meta.get("files_changed", []) if f.endswith(".go")})
        rc, o = sh("go build " + " ".join("./%s/" % p for p in pkgs), wt)
        res["builds"] = rc == 0
        # existing tests, demo files moved away
        for f, p in demos:
            os.remove(os.path.join(wt, p, os.path.basename(f)))
        fails = []
        for p in pkgs:
            rc, o = sh("go test -count=1 ./%s/" % p, wt)
            if rc != 0:
                failed = set(re.findall(r"^--- FAIL: (\w+)", o, re.M))
                if not failed:  # e.g. a vet complaint about the existing test file: retry without vet
                    rc, o = sh("go test -vet=off -count=1 ./%s/" % p, wt)
                    failed = set(re.findall(r"^--- FAIL: (\w+)", o, re.M))
                    if rc == 0:
                        continue
                if failed and failed <= {BASELINE_FAIL.get(p, "")}:
                    continue
                fails.append("%s: %s" % (p, sorted(failed) or o[-300:]))
        res["existing_tests_pass"] = not fails
        if fails:
            res["existing_test_failures"] = fails
        for f, p in demos:
            shutil.copy(os.path.join(d, f), os.path.join(wt, p, os.path.basename(f)))
        ok, o = run_demo()
        res["demo_fails_with_patch"] = not ok
        return res
    finally:
        subprocess.run(["git", "-C", "/repo", "worktree", "remove", "--force", wt], stdout=subprocess.DEVNULL, stderr=subprocess.DEVNULL)
        shutil.rmtree(wt, ignore_errors=True)
        gocache_note = None


def main():
    for d in sys.argv[1:]:
        try:
            res = confirm(d)
        except Exception as e:  # noqa
            res = {"error": repr(e)}
        good = all(res.get(k) for k in ("demo_passes_unchanged", "patch_applies", "builds", "existing_tests_pass", "demo_fails_with_patch"))
        res["confirmed"] = good
        mp = os.path.join(d, "meta.json")
        meta = json.load(open(mp))
        meta["coordinator_confirmed"] = res
        json.dump(meta, open(mp, "w"), indent=1)
        print(os.path.basename(os.path.abspath(d)), "CONFIRMED" if good else "NOT-CONFIRMED", json.dumps({k: v for k, v in res.items() if k != "head"})[:600], flush=True)


if __name__ == "__main__":
    main()
