#!/usr/bin/env python3
"""Regenerate MANIFEST.json from vlib/claims.json (claimed properties) and properties.jsonl."""
import json, os, subprocess
V = os.path.dirname(os.path.dirname(os.path.abspath(__file__)))
props = [json.loads(l) for l in open(os.path.join(V, "properties.jsonl"))]
claims = json.load(open(os.path.join(V, "vlib", "claims.json")))
hooks = [l.split()[0] for l in open(os.path.join(V, "MANIFEST.hooks")) if l.strip() and not l.startswith("#")]
checks = []
for p in props:
    c = claims.get(p["id"])
    if not c or not c.get("claimed", True):
        continue
    checks.append({
        "property_id": p["id"],
        "quick_cmd": "./check %s --tier quick" % p["id"],
        "thorough_cmd": "./check %s --tier thorough" % p["id"],
        "evidence_file": "/verif/evidence/%s.json" % p["id"],
        "replay_cmd_template": "./check %s --replay {path}" % p["id"],
        "engine": "coq-proof+correspondence",
        "level_claimed": {"category": "proof", "text": c["text"], "design_ref": "DESIGN.md §%s and Part IV" % p["id"]},
        "level_note": c["note"],
        "technique": c["technique"],
    })
na = [{"property_id": p["id"], "reason": claims.get(p["id"], {}).get("reason", "not claimed yet: pipeline (model + theorems + correspondence) still being built; the technique applies (DESIGN.md)")}
      for p in props if p["id"] not in [c["property_id"] for c in checks]]
m = {"version": 1, "setup_cmd": "./setup.sh",
     "hooks": {"guard": "verif", "enable": "go build -tags verif (harness module verifharness replaces github.com/bytom/bytom => /repo); hook files are *_verif.go with //go:build verif",
               "baseline_off_cmd": "./baseline_off.sh", "source_commits": hooks, "add_only": True},
     "engines": [{"name": "coq-proof+correspondence", "path": "check", "serves_properties": [c["property_id"] for c in checks],
                  "kind_free_text": "Coq 8.16 theorems about an executable model (translator-generated or hand-written) + differential correspondence of the model (evaluated by vm_compute inside Coq) against the Go implementation built from /repo with -tags verif + direct-oracle search for a failing input"}],
     "checks": checks,
     "notes": "See DESIGN.md (Part IV: as built) and GUIDE.md. known_findings.json lists open findings and fixed defects.",
     "not_applicable": na}
json.dump(m, open(os.path.join(V, "MANIFEST.json"), "w"), indent=1)
print("claimed", len(checks), "not claimed", len(na))
