#!/usr/bin/env python3
"""storeseed.py <id> <detected_by text> : copy /tmp/seed/Cxx/out/<id> into /verif/seeded/<id> with the coordinator's fields."""
import json, os, shutil, sys
sid, det = sys.argv[1], sys.argv[2]
pid = sid.split("-")[0]
src = "/tmp/seed/%s/out/%s" % (pid, sid)
dst = "/verif/seeded/%s" % sid
shutil.rmtree(dst, ignore_errors=True)
shutil.copytree(src, dst)
m = json.load(open(dst + "/meta.json"))
m["coordinator_ran"] = "vlib/seedtest.sh %s patch.diff (scratch worktree of /repo HEAD + scratch copy of /verif, quick tier); vlib/confirmseed.py (build, existing tests, demo both ways)" % pid
m["detected_by"] = det
json.dump(m, open(dst + "/meta.json", "w"), indent=1)
