#!/usr/bin/env python3
"""mkseed.py Cxx N : create a scratch worktree and print the seeder prompt."""
import json,sys,subprocess,os
pid,n=sys.argv[1],sys.argv[2]
start=int(sys.argv[3]) if len(sys.argv)>3 else 1
p=[json.loads(l) for l in open('/verif/properties.jsonl') if json.loads(l)['id']==pid][0]
wt="/tmp/seed/%s/repo"%pid; out="/tmp/seed/%s/out"%pid
os.makedirs(out,exist_ok=True)
if not os.path.exists(wt):
    subprocess.check_call(["git","-C","/repo","worktree","add","--detach",wt,"HEAD"],stdout=subprocess.DEVNULL,stderr=subprocess.DEVNULL)
t=open('/verif/vlib/seeder_prompt.txt').read()
for k,v in {"{ID}":pid,"{TITLE}":p['title'],"{STATEMENT}":p['statement'],"{QUANT}":p['quantifier']['text'],"{FILES}":", ".join(p['anchors']['files']),"{WT}":wt,"{OUT}":out,"{N}":n}.items():
    t=t.replace(k,v)
if start>1:
    import glob
    prior=[]
    for f in sorted(glob.glob('/verif/seeded/%s-*/meta.json'%pid)):
        m=json.load(open(f)); prior.append("  - "+m.get("summary","")[:400])
    t=t.replace("for k = 1..%s"%n,"for k = %d..%d"%(start,start+int(n)-1))
    t+="\n\nNumber your changes %d..%d (directories %s-%d ...). Earlier rounds already produced the changes below; do NOT repeat them or close variants - pick other functions, other mechanisms and other kinds of mistakes (including ones in callers/callees of the anchored files that the property depends on):\n%s\n"%(start,start+int(n)-1,pid,start,"\n".join(prior))
open("/tmp/seed/%s/prompt.txt"%pid,"w").write(t)
print("/tmp/seed/%s/prompt.txt"%pid)
