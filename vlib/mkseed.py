#!/usr/bin/env python3
"""mkseed.py Cxx N : create a scratch worktree and print the seeder prompt."""
import json,sys,subprocess,os
pid,n=sys.argv[1],sys.argv[2]
p=[json.loads(l) for l in open('/verif/properties.jsonl') if json.loads(l)['id']==pid][0]
wt="/tmp/seed/%s/repo"%pid; out="/tmp/seed/%s/out"%pid
os.makedirs(out,exist_ok=True)
if not os.path.exists(wt):
    subprocess.check_call(["git","-C","/repo","worktree","add","--detach",wt,"HEAD"],stdout=subprocess.DEVNULL,stderr=subprocess.DEVNULL)
t=open('/verif/vlib/seeder_prompt.txt').read()
for k,v in {"{ID}":pid,"{TITLE}":p['title'],"{STATEMENT}":p['statement'],"{QUANT}":p['quantifier']['text'],"{FILES}":", ".join(p['anchors']['files']),"{WT}":wt,"{OUT}":out,"{N}":n}.items():
    t=t.replace(k,v)
open("/tmp/seed/%s/prompt.txt"%pid,"w").write(t)
print("/tmp/seed/%s/prompt.txt"%pid)
