#!/usr/bin/env python3
"""showcase.py <rundir> <id> : print model value vs observed for one case (debugging aid)."""
import sys,re,glob,subprocess,os
rundir,cid=sys.argv[1],int(sys.argv[2])
sys.path.insert(0,os.path.dirname(__file__))
import driver
for f in sorted(glob.glob(os.path.join(rundir,"cases_*.v"))):
    src=open(f).read()
    m=re.search(r"^ \(%d%%(?:nat|N), (.*)\) ::$"%cid,src,re.M)
    if m:
        hdr=src[:src.index("Definition chunk0")]
        body=m.group(1)
        # split model / observed at top-level ", " : observed starts at last "{|" or use depth scan
        depth=0;cut=None
        for i,ch in enumerate(body):
            if ch in "([{": depth+=1
            elif ch in ")]}": depth-=1
            elif ch=="," and depth==0: cut=i
        model,obs=body[:cut],body[cut+1:]
        open("/tmp/showcase.v","w").write(hdr+"\nEval vm_compute in (%s).\nEval vm_compute in (%s).\n"%(model,obs))
        print(subprocess.run(["coqc"]+driver.coq_flags()+["/tmp/showcase.v"],capture_output=True,text=True,cwd=driver.COQ).stdout[-6000:])
        break
