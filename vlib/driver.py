#!/usr/bin/env python3
"""Driver for one property check.  See DESIGN.md §1.

  ./check Cxx [--tier quick|thorough] [--replay FILE]

Stages: regenerate (translators) -> prove (make + Print Assumptions scan)
-> correspond (Go harness on /repo's working tree vs the Coq model evaluated
by vm_compute) -> decide -> search (direct oracle) -> evidence.
Exit 0 = property held on everything explored; exit 1 = VIOLATION line printed.
"""
import fcntl
import glob
import json
import os
import re
import shutil
import subprocess
import sys
import time
from concurrent.futures import ThreadPoolExecutor

VERIF = os.path.dirname(os.path.dirname(os.path.abspath(__file__)))
COQ = os.path.join(VERIF, "coq")
BUILD = os.path.join(VERIF, "build")
REPO = os.environ.get("VERIF_REPO", "/repo")   # default: the real tree; a scratch worktree for mutation self-tests
GOENV = dict(os.environ, GOFLAGS="-mod=mod", GOPROXY="off", GOSUMDB="off",
             GOTOOLCHAIN="local", CGO_ENABLED="0")

FORBIDDEN = re.compile(
    r"\b(Admitted|admit|Axiom|Axioms|Parameter|Parameters|Conjecture|Conjectures|Abort All|"
    r"Admit Obligations|bypass_check|native_compute)\b|Unset\s+Guard|Unset\s+Positivity|"
    r"Unset\s+Universe|type-in-type|impredicative-set")


def log(*a):
    print("[check]", *a, file=sys.stderr, flush=True)


def run(cmd, cwd=None, env=None, timeout=None, capture=True):
    t0 = time.time()
    try:
        p = subprocess.run(cmd, cwd=cwd, env=env, timeout=timeout,
                           stdout=subprocess.PIPE if capture else None,
                           stderr=subprocess.STDOUT if capture else None, text=True)
        return p.returncode, p.stdout or "", time.time() - t0
    except subprocess.TimeoutExpired as e:
        out = e.stdout if isinstance(e.stdout, str) else (e.stdout or b"").decode("utf8", "replace")
        return 124, out + "\n[timeout]", time.time() - t0


class Lock:
    """One build at a time per tree (translators, make, go build)."""

    def __init__(self, name="build"):
        os.makedirs(BUILD, exist_ok=True)
        self.path = os.path.join(BUILD, "." + name + ".lock")

    def __enter__(self):
        self.f = open(self.path, "w")
        fcntl.flock(self.f, fcntl.LOCK_EX)
        return self

    def __exit__(self, *a):
        fcntl.flock(self.f, fcntl.LOCK_UN)
        self.f.close()


def coq_flags():
    flags = []
    for line in open(os.path.join(COQ, "_CoqProject")):
        parts = line.split()
        if len(parts) == 3 and parts[0] in ("-Q", "-R"):
            flags += [parts[0], os.path.join(COQ, parts[1]), parts[2]]
    return flags


def write_if_changed(path, content):
    try:
        if open(path).read() == content:
            return False
    except OSError:
        pass
    os.makedirs(os.path.dirname(path), exist_ok=True)
    with open(path, "w") as f:
        f.write(content)
    return True


# ---------------------------------------------------------------- translators

def build_tools():
    """Build translators (Go programs under tools/) if sources are newer."""
    os.makedirs(os.path.join(BUILD, "bin"), exist_ok=True)
    for tool in sorted(os.listdir(os.path.join(VERIF, "tools"))):
        src = os.path.join(VERIF, "tools", tool)
        if not os.path.exists(os.path.join(src, "go.mod")):
            continue
        out = os.path.join(BUILD, "bin", tool)
        newest = max(os.path.getmtime(p) for p in glob.glob(os.path.join(src, "*.go")))
        if os.path.exists(out) and os.path.getmtime(out) >= newest:
            continue
        rc, o, _ = run(["go", "build", "-o", out, "."], cwd=src, env=GOENV, timeout=600)
        if rc != 0:
            raise RuntimeError("building translator %s failed:\n%s" % (tool, o))


def regenerate():
    """Run every translator against /repo's working tree.  Returns a list of
    (name, ok, output).  Generated files are only rewritten when they change,
    so an unchanged source costs no Coq rebuild."""
    build_tools()
    results = []
    gen = os.path.join(COQ, "gen")
    os.makedirs(gen, exist_ok=True)
    jobs = json.load(open(os.path.join(VERIF, "tools", "translators.json")))
    for j in jobs:
        tmp = os.path.join(BUILD, "gen_tmp_" + os.path.basename(j["out"]))
        cmd = [os.path.join(BUILD, "bin", j["tool"])] + [a.replace("{repo}", REPO) for a in j["args"]] + [tmp]
        rc, o, _ = run(cmd, timeout=300)
        ok = rc == 0
        if ok:
            write_if_changed(os.path.join(COQ, j["out"]), open(tmp).read())
        else:
            # keep no stale model: a failing translator must break the build
            write_if_changed(os.path.join(COQ, j["out"]),
                             "(* translator %s failed: see check output *)\nDefinition translator_failed := tt.\n" % j["tool"])
        results.append((j["tool"] + ":" + j["out"], ok, o))
    return results


# ------------------------------------------------------------------------ coq

def ensure_coqproject():
    """_CoqProject is generated: lib/ (-Q Verif), gen/ (-Q VerifGen, translator outputs),
    and one logical root per property directory C??/ (-Q Cxx Cxx)."""
    dirs = sorted(d for d in os.listdir(COQ) if re.fullmatch(r"C\d\d", d) and os.path.isdir(os.path.join(COQ, d)))
    lines = ["-Q lib Verif", "-Q gen VerifGen"] + ["-Q %s %s" % (d, d) for d in dirs]
    lines += sorted("lib/" + f for f in os.listdir(os.path.join(COQ, "lib")) if f.endswith(".v"))
    lines += sorted(j["out"] for j in json.load(open(os.path.join(VERIF, "tools", "translators.json"))))
    for d in dirs:
        lines += sorted(d + "/" + f for f in os.listdir(os.path.join(COQ, d)) if f.endswith(".v") and not f.startswith("."))
    write_if_changed(os.path.join(COQ, "_CoqProject"), "\n".join(lines) + "\n")


def ensure_makefile():
    ensure_coqproject()
    mk = os.path.join(COQ, "Makefile")
    cp = os.path.join(COQ, "_CoqProject")
    if not os.path.exists(mk) or os.path.getmtime(mk) < os.path.getmtime(cp):
        rc, o, _ = run(["coq_makefile", "-f", "_CoqProject", "-o", "Makefile"], cwd=COQ)
        if rc != 0:
            raise RuntimeError("coq_makefile failed: " + o)


def make(targets, timeout=3000):
    ensure_makefile()
    return run(["make", "-j16"] + targets, cwd=COQ, timeout=timeout)


def snapshot_vo(prop):
    """Copy every compiled .vo of the Coq tree into build/chk/<prop>/ (called under the build lock:
    31 MB, well under a second) so that coqchk can re-check them without holding the lock."""
    dst = os.path.join(BUILD, "chk", prop)
    shutil.rmtree(dst, ignore_errors=True)
    for root, _, files in os.walk(COQ):
        for f in files:
            if f.endswith(".vo"):
                rel = os.path.relpath(root, COQ)
                os.makedirs(os.path.join(dst, rel), exist_ok=True)
                shutil.copy2(os.path.join(root, f), os.path.join(dst, rel, f))
    return dst


def coqchk(targets, snap, timeout=2400):
    """Independent re-check (coqchk) of the compiled closure of the proof files, on the snapshot
    `snap` of the .vo files taken under the build lock.
    Returns (ok, axioms, text).  coqchk lists the axioms of every library it
    loads, used by the theorems or not; they are recorded, not judged (the
    per-theorem Print Assumptions allow-list is what judges)."""
    mods = []
    for t in targets:
        d, f = os.path.split(t[:-3] if t.endswith(".vo") else t)
        lp = {"lib": "Verif", "gen": "VerifGen"}.get(d, d)
        mods.append(lp + "." + f)
    flags = []
    fl = coq_flags()
    for i in range(0, len(fl), 3):
        flags += [fl[i], os.path.join(snap, os.path.relpath(fl[i + 1], COQ)), fl[i + 2]]
    rc, o, dt = run(["coqchk", "-silent", "-o"] + flags + mods, cwd=snap, timeout=timeout)
    if rc == 124 or "TIMEOUT" in o[-200:]:
        return None, [], "coqchk timed out after %ds" % timeout
    axioms, bad = [], []
    sect = None
    for line in o.splitlines():
        m = re.match(r"\* (Axioms|Theory|Constants/Inductives relying on type-in-type|Constants/Inductives relying on unsafe \(co\)fixpoints|Inductives whose positivity is assumed):\s*(.*)", line)
        if m:
            sect = m.group(1)
            rest = m.group(2).strip()
            if sect == "Axioms" and rest and rest != "<none>":
                axioms.append(rest)
            elif sect not in ("Axioms", "Theory") and rest != "<none>":
                bad.append(sect + ": " + rest)
            continue
        t = line.strip()
        if sect and t and not t.startswith("*") and not t.startswith("="):
            if sect == "Axioms":
                axioms.append(t)
            elif sect != "Theory":
                bad.append(sect + ": " + t)
    ok = rc == 0 and not bad
    return ok, axioms, (o.strip()[-1200:] if not ok else "%d modules re-checked in %.0fs" % (len(mods), dt))


def strip_comments(src):
    out, depth, i = [], 0, 0
    while i < len(src):
        if src.startswith("(*", i):
            depth += 1
            i += 2
        elif src.startswith("*)", i) and depth:
            depth -= 1
            i += 2
        else:
            if not depth:
                out.append(src[i])
            i += 1
    return "".join(out)


def scan_forbidden(files):
    bad = []
    for f in files:
        try:
            src = strip_comments(open(f).read())
        except OSError:
            continue
        for m in FORBIDDEN.finditer(src):
            bad.append("%s: %s" % (os.path.relpath(f, VERIF), m.group(0)))
    return bad


def props_obligations(props_v):
    src = strip_comments(open(props_v).read())
    thms = re.findall(r"\b(?:Theorem|Lemma|Corollary)\s+([A-Za-z0-9_']+)", src)
    pas = re.findall(r"Print\s+Assumptions\s+([A-Za-z0-9_'.]+)\s*\.", src)
    return thms, pas


def compile_props(props_v):
    """Compile the property file itself, capturing the Print Assumptions output.
    Returns (ok, {theorem: [axioms]} , raw)."""
    out_vo = os.path.join(BUILD, "pa", os.path.basename(os.path.dirname(props_v)), os.path.basename(props_v) + "o")
    os.makedirs(os.path.dirname(out_vo), exist_ok=True)
    rc, o, _ = run(["coqc"] + coq_flags() + ["-o", out_vo, props_v], cwd=COQ, timeout=1800)
    thms, pas = props_obligations(props_v)
    blocks = re.split(r"(?m)^(?=Closed under the global context|Axioms:)", o)
    blocks = [b for b in blocks if b.startswith("Closed under") or b.startswith("Axioms:")]
    res = {}
    for name, b in zip(pas, blocks):
        if b.startswith("Closed under"):
            res[name] = []
        else:
            res[name] = re.findall(r"(?m)^([A-Za-z0-9_.']+)\s*:", b[len("Axioms:"):])
    return rc == 0 and len(blocks) == len(pas), res, o


# -------------------------------------------------------------------- harness

def harness_bin(pkg):
    return os.path.join(BUILD, "bin", "h_" + pkg)


def build_harness(pkg):
    """Each property has its own main package harness/<pkg> (shared code in harness/hlib)."""
    h = os.path.join(VERIF, "harness")
    write_if_changed(os.path.join(h, "go.sum"), open(os.path.join(REPO, "go.sum")).read())
    extra = []
    if REPO != "/repo":
        alt = os.path.join(BUILD, "go.alt.mod")
        write_if_changed(alt, open(os.path.join(h, "go.mod")).read().replace("/repo", REPO))
        write_if_changed(os.path.join(BUILD, "go.alt.sum"), open(os.path.join(REPO, "go.sum")).read())
        extra = ["-modfile=" + alt]
    return run(["go", "build"] + extra + ["-tags", "verif", "-o", harness_bin(pkg), "./" + pkg],
               cwd=h, env=GOENV, timeout=1800)


def eval_shard(path):
    rc, o, dt = run(["coqc"] + coq_flags() + ["-o", path[:-2] + ".vo", path], cwd=COQ, timeout=3000)
    m = re.search(r"mismatches\s*=\s*(\[[^\]]*\]|nil)", o.replace("\n", " "))
    if rc != 0 or not m:
        return None, o
    body = m.group(1)
    if body == "nil":
        return [], o
    ids = [int(x.replace("%nat", "").replace("%N", "").strip()) for x in body.strip("[]").split(";") if x.strip()]
    return ids, o


def eval_cases(rundir):
    shards = sorted(glob.glob(os.path.join(rundir, "cases_*.v")))
    mism, broken = [], []
    with ThreadPoolExecutor(max_workers=int(os.environ.get("VERIF_JOBS", "14"))) as ex:
        for path, (ids, o) in zip(shards, ex.map(eval_shard, shards)):
            if ids is None:
                broken.append((path, o[-2000:]))
            else:
                mism += ids
    return shards, sorted(mism), broken


# ----------------------------------------------------------------- the check

def load_known(prop):
    path = os.path.join(VERIF, "known_findings.json")
    try:
        kf = json.load(open(path))
    except OSError:
        return []
    return [f for f in kf.get("findings", []) if f["property"] == prop]


def main(argv):
    prop = argv[1]
    tier = os.environ.get("VERIF_TIER", "quick")
    replay = None
    i = 2
    while i < len(argv):
        if argv[i] == "--tier":
            tier = argv[i + 1]; i += 2
        elif argv[i] == "--replay":
            replay = argv[i + 1]; i += 2
        else:
            i += 1
    seed = int(os.environ.get("VERIF_SEED", "1") or "1")
    if replay:
        rj = json.load(open(replay))
        seed, tier = rj.get("seed", seed), rj.get("tier", tier)
        # a failure found in a later thorough round carries the seed of that round
        first = rj.get("failure") or (rj.get("mismatches") or rj.get("correspondence_mismatches") or [{}])[0]
        if isinstance(first, dict) and first.get("seed"):
            seed = first["seed"]
    cfg = json.load(open(os.path.join(VERIF, "checks", prop + ".json")))
    t0 = time.time()
    problems = []       # broken obligations / correspondence (names)
    notes = []
    rundir = os.path.join(BUILD, "run", prop)
    os.makedirs(rundir, exist_ok=True)
    # two runs of one property share rundir, replay and evidence files: serialise
    # them (held until the process exits)
    proplock = Lock("run-" + prop)
    proplock.__enter__()
    os.makedirs(os.path.join(BUILD, "replay"), exist_ok=True)
    for f in glob.glob(os.path.join(BUILD, "replay", prop + "-*.json")):
        if not replay or os.path.abspath(replay) != f:
            os.remove(f)
    os.makedirs(os.path.join(VERIF, "evidence"), exist_ok=True)

    # ---- stage 1+2: regenerate, prove
    props_v = os.path.join(COQ, cfg["props_file"])
    with Lock():
        tr = regenerate()
        for name, ok, o in tr:
            if not ok and any(name.endswith(g) for g in cfg.get("generated", [])):
                problems.append("translator " + name + " failed: " + o.strip()[-400:])
        rc, o, dt = make(cfg["coq_targets"])
        make_ok = rc == 0
        if not make_ok:
            problems.append("coq build failed: " + o.strip()[-1500:])
        snap = None
        if make_ok and tier == "thorough" and not os.environ.get("VERIF_NO_COQCHK"):
            snap = snapshot_vo(prop)
    chk = None
    if snap:
        chk = coqchk(cfg["coq_targets"], snap)
        shutil.rmtree(snap, ignore_errors=True)
    if chk is not None:
        if True:
            if chk[0] is False:
                problems.append("coqchk rejects the compiled proofs: " + chk[2])
            elif chk[0] is None:
                notes.append(chk[2] + " (not a failure: the kernel accepted the build; re-run with more time)")
            else:
                notes.append("coqchk -o: %s; axioms in the loaded libraries (used by the theorems or not): %s"
                             % (chk[2], ", ".join(chk[1]) or "<none>"))
    hrc, ho, hdt = build_harness(cfg["harness"]) if cfg.get("harness") else (0, "", 0)
    thms, pas = props_obligations(props_v)
    assumptions = {}
    discharged = 0
    if make_ok:
        ok, assumptions, raw = compile_props(props_v)
        if not ok:
            problems.append("property file does not compile: " + raw.strip()[-1500:])
        allowed = set(cfg.get("allowed_axioms", []))
        for t in pas:
            if t in assumptions and all(a in allowed for a in assumptions[t]):
                discharged += 1
            elif t in assumptions:
                problems.append("theorem %s depends on axioms outside the allow-list: %s" % (t, assumptions[t]))
        if set(thms) - set(pas):
            problems.append("theorems without Print Assumptions: %s" % sorted(set(thms) - set(pas)))
    srcs = [os.path.join(COQ, f) for f in cfg.get("sources", [])] or glob.glob(os.path.join(COQ, "lib", "*.v")) + glob.glob(os.path.join(COQ, prop, "*.v"))
    bad = scan_forbidden(srcs)
    if bad:
        problems.append("forbidden constructs: " + "; ".join(bad[:10]))
        discharged = 0
    obligations = len(pas)

    # ---- stage 3: correspond
    stats = {"evaluations": 0, "distinct_nontrivial": 0, "samples": [], "oracle_failures": None,
             "rule": "", "distribution": {}, "case_index": {}}
    mism, shards, broken_shards = [], [], []
    if cfg.get("harness"):
        if hrc != 0:
            problems.append("harness does not build against /repo: " + ho.strip()[-1500:])
        else:
            rounds = int(cfg.get("thorough_rounds", 1)) if (tier == "thorough" and not replay) else 1
            rounds = int(os.environ.get("VERIF_ROUNDS", rounds))
            for old in glob.glob(os.path.join(rundir, "r[0-9]*")):
                if os.path.isdir(old):
                    shutil.rmtree(old, ignore_errors=True)   # also coqc's .cases_<k>.aux dot files
            merged = None
            for r in range(rounds):
                # round 0 is the registered seed; further rounds (thorough tier) re-run the
                # generators from other seeds and are decided exactly like round 0
                rdir = rundir if r == 0 else os.path.join(rundir, "r%d" % r)
                rseed = seed + r * 1000003
                os.makedirs(rdir, exist_ok=True)
                for f in glob.glob(os.path.join(rdir, "*")):
                    if os.path.isfile(f):
                        os.remove(f)
                cmd = [harness_bin(cfg["harness"]), "--seed", str(rseed),
                       "--tier", tier, "--out", rdir]
                if replay:
                    cmd += ["--replay", replay]
                rc, o, dt = run(cmd, cwd=rdir, env=GOENV, timeout=cfg.get("harness_timeout", 3000))
                if rc != 0:
                    problems.append("harness run failed (rc=%d, seed=%d): %s" % (rc, rseed, o.strip()[-1500:]))
                    break
                st = json.load(open(os.path.join(rdir, "stats.json")))
                for f in st.get("oracle_failures") or []:
                    f.setdefault("seed", rseed)
                rmism = []
                if make_ok:
                    sh, rmism, br = eval_cases(rdir)
                    shards += sh
                    broken_shards += br
                    for p, o in br:
                        problems.append("model evaluation failed on %s (seed=%d): %s" % (os.path.basename(p), rseed, o[-600:]))
                    mism += [{"id": i, "seed": rseed, "case": st.get("case_index", {}).get(str(i))} for i in rmism]
                if merged is None:
                    merged = st
                    merged["oracle_failures"] = list(st.get("oracle_failures") or [])
                else:
                    merged["evaluations"] = merged.get("evaluations", 0) + st.get("evaluations", 0)
                    merged["distinct_nontrivial"] = merged.get("distinct_nontrivial", 0) + st.get("distinct_nontrivial", 0)
                    merged["oracle_failures"] += st.get("oracle_failures") or []
                    for k, v in (st.get("distribution") or {}).items():
                        if isinstance(v, (int, float)) and isinstance(merged["distribution"].get(k, 0), (int, float)):
                            merged["distribution"][k] = merged["distribution"].get(k, 0) + v
                    merged["exhaustive"] = bool(merged.get("exhaustive")) and bool(st.get("exhaustive"))
            if merged is not None:
                stats = merged
                stats.setdefault("extra", {})
                if rounds > 1:
                    stats["extra"]["thorough_rounds"] = rounds
    oracle_failures = stats.get("oracle_failures") or []

    # ---- stage 4/5: decide, search
    known = load_known(prop)
    violations = []
    known_seen = []
    for f in oracle_failures:
        k = next((k for k in known if k.get("status", "open") == "open" and k["match"] in f["what"]), None)
        if k:
            if k["id"] not in [x["id"] for x in known_seen]:
                known_seen.append(k)
        else:
            violations.append(f)
    out_lines = []
    exit_code = 0
    for k in known_seen:
        out_lines.append("KNOWN-FINDING: property=%s %s" % (prop, k["what_fails"]))
    # a known finding listed as open must still be reproducible by its recorded witness;
    # if the witness no longer fails, say so (the defect is gone) without raising an alarm
    for k in known:
        if k.get("status", "open") == "open" and k["id"] not in [x["id"] for x in known_seen]:
            notes.append("known finding %s not reproduced on this run" % k["id"])
    if violations:
        rp = os.path.join(BUILD, "replay", "%s-oracle.json" % prop)
        json.dump({"property": prop, "seed": seed, "tier": tier, "kind": "oracle",
                   "failure": violations[0], "all": violations}, open(rp, "w"), indent=1)
        out_lines.append("VIOLATION property=%s replay=%s" % (prop, rp))
        exit_code = 1
    elif mism and cfg.get("mismatch_is_witness") and not problems:
        # the model is the reference semantics of the property itself: a case on which the
        # implementation differs from it is a concrete failing input
        rp = os.path.join(BUILD, "replay", "%s-mismatch.json" % prop)
        json.dump({"property": prop, "seed": seed, "tier": tier, "kind": "implementation-differs-from-reference-model",
                   "mismatches": mism[:20]},
                  open(rp, "w"), indent=1)
        out_lines.append("VIOLATION property=%s replay=%s" % (prop, rp))
        exit_code = 1
    elif mism or problems:
        # the proof or the correspondence is broken and the oracle found no failing input
        # on this run's cases: widen the search once (thorough generator, other seed)
        found = None
        if cfg.get("harness") and hrc == 0 and tier != "thorough" and not replay:
            sdir = os.path.join(BUILD, "run", prop + "-search")
            os.makedirs(sdir, exist_ok=True)
            rc, o, dt = run([harness_bin(cfg["harness"]), "--seed", str(seed + 7919),
                             "--tier", "thorough", "--out", sdir], cwd=sdir, env=GOENV,
                            timeout=cfg.get("harness_timeout", 3000))
            if rc == 0:
                st2 = json.load(open(os.path.join(sdir, "stats.json")))
                for f in st2.get("oracle_failures") or []:
                    if not any(k.get("status", "open") == "open" and k["match"] in f["what"] for k in known):
                        found = f
                        break
        rp = os.path.join(BUILD, "replay", "%s-broken.json" % prop)
        body = {"property": prop, "seed": seed, "tier": tier}
        if found:
            body.update(kind="oracle", failure=found)
            json.dump(body, open(rp, "w"), indent=1)
            out_lines.append("VIOLATION property=%s replay=%s" % (prop, rp))
        else:
            body.update(kind="broken-obligation-or-correspondence", no_longer_checks=problems,
                        correspondence_mismatches=mism[:20])
            json.dump(body, open(rp, "w"), indent=1)
            out_lines.append("VIOLATION property=%s replay=%s no-failing-input-found" % (prop, rp))
        exit_code = 1

    # ---- evidence
    wall = time.time() - t0
    cov = {
        "obligations": obligations,
        "discharged": discharged if not (problems and not make_ok) else 0,
        "checker_cmd": "make -C coq -j16 %s && coqc %s (Print Assumptions scan; forbidden-construct scan)%s" % (" ".join(cfg["coq_targets"]), cfg["props_file"], "; coqchk -silent -o on the same closure" if tier == "thorough" else ""),
        "trusted_base": cfg.get("trusted_base", []),
        "theorems": pas,
        "assumptions_reported": {t: (a or "Closed under the global context") for t, a in assumptions.items()},
        "evaluations": stats.get("evaluations", 0),
        "distinct_nontrivial": stats.get("distinct_nontrivial", 0),
        "rule": stats.get("rule", ""),
        "samples": stats.get("samples") or [],
        "distribution": stats.get("distribution", {}),
        "traces_validated_against_impl": sum(1 for _ in stats.get("case_index", {})) if stats.get("case_index") else stats.get("distribution", {}).get("model_evaluated", 0),
        "model_cases_evaluated_in_coq": stats.get("distribution", {}).get("model_evaluated", len(stats.get("case_index", {}))),
        "correspondence_mismatches": len(mism),
        "disagreements_checked": len(mism),
        "oracle_failures": len(oracle_failures),
        "known_findings_seen": [k["id"] for k in known_seen],
        "broken": problems,
        "notes": notes,
        "exhaustive": bool(stats.get("exhaustive", False)),
        "extra": stats.get("extra", {}),
    }
    ev = {"property_id": prop, "tier": tier, "seed": seed, "level": "proof", "coverage": cov,
          "assumptions": cfg.get("assumptions", []), "wall_s": round(wall, 2),
          "violations": len(violations) + (1 if (exit_code and not violations) else 0)}
    json.dump(ev, open(os.path.join(VERIF, "evidence", prop + ".json"), "w"), indent=1)
    for l in out_lines:
        print(l)
    if problems:
        for p in problems:
            log("BROKEN:", p[:3000])
    log("%s tier=%s seed=%d obligations=%d discharged=%d cases=%d model-evaluated=%d mismatches=%d oracle-failures=%d wall=%.1fs exit=%d"
        % (prop, tier, seed, obligations, cov["discharged"], cov["evaluations"], cov["model_cases_evaluated_in_coq"], len(mism), len(oracle_failures), wall, exit_code))
    return exit_code


if __name__ == "__main__":
    sys.exit(main(sys.argv))
