#!/usr/bin/env python3
import sys
t=open('/verif/vlib/builder_prompt.txt').read()
ID=sys.argv[1]; extra=sys.argv[2] if len(sys.argv)>2 else ""
print(t.replace("{ID}",ID).replace("{id}",ID.lower()).replace("{EXTRA}",("Notes from the coordinator for this property:\n"+extra) if extra else ""))
