#!/bin/bash
# seedtest.sh <Cxx> <patch.diff> : apply a seeded change to a scratch worktree of /repo HEAD and run
# the property's quick check against it from a scratch copy of /verif. Prints the check's last lines.
set -e
P=$1; PATCH=$2; TAG=$(basename $(dirname $PATCH))
R=/tmp/seedrun/$TAG
rm -rf $R; mkdir -p $R
git -C /repo worktree prune; git -C /repo worktree add -f --detach $R/repo HEAD >/dev/null 2>&1
# uncommitted hook files / fixes of builders still at work are part of the tree under test
(cd /repo && git diff) | (cd $R/repo && git apply --allow-empty 2>/dev/null || true)
(cd /repo && git ls-files --others --exclude-standard | grep '_verif.go$' | while read f; do mkdir -p $R/repo/$(dirname $f); cp $f $R/repo/$f; done)
(cd $R/repo && git apply $PATCH)
rsync -a --exclude build/run --exclude build/replay --exclude .git /verif/ $R/verif/
set +e
(cd $R/verif && VERIF_JOBS=${VERIF_JOBS:-8} VERIF_REPO=$R/repo timeout 1800 ./check $P 2>&1 | grep -v "^\[check\] BROKEN" | tail -4)
RC=${PIPESTATUS[0]}
ls $R/verif/build/replay/ 2>/dev/null | head -3
git -C /repo worktree remove --force $R/repo; rm -rf $R
