#!/usr/bin/env python3
"""Validate MANIFEST.json and evidence files against the schemas (uses the tooling venv's jsonschema if present)."""
import json, sys, glob
try:
    import jsonschema
except ImportError:
    sys.path.insert(0, glob.glob("/opt/veriftools/pyvenv/lib/python*/site-packages")[0])
    import jsonschema
ms = json.load(open("/root/.vp/MANIFEST.schema.json"))
es = json.load(open("/root/.vp/EVIDENCE.schema.json"))
m = json.load(open("/verif/MANIFEST.json"))
jsonschema.validate(m, ms)
ids = [json.loads(l)["id"] for l in open("/verif/properties.jsonl")]
claimed = [c["property_id"] for c in m["checks"]]
na = [c["property_id"] for c in m.get("not_applicable", [])]
assert sorted(claimed + na) == sorted(ids), (set(ids) - set(claimed) - set(na), set(claimed) & set(na))
for c in m["checks"]:
    p = c["evidence_file"]
    try:
        jsonschema.validate(json.load(open(p)), es)
    except FileNotFoundError:
        print("missing evidence", p)
print("manifest ok: %d claimed, %d not claimed" % (len(claimed), len(na)))
