#!/bin/sh
# The repository's stable baseline with the verif build tag OFF (no -tags).
# Same command as /root/.vp/BASELINE.json "cmd".
mods="$(cat /w/out/gomods.txt 2>/dev/null || printf '.\n./lib/github.com/tendermint/ed25519\n./lib/golang.org/x/crypto\n./lib/golang.org/x/net\n')"
rc=0
for m in $mods; do
  (cd /repo/$m && GOFLAGS=-mod=mod go test -json -vet=off -count=1 -timeout 25m ./...) || rc=1
done
exit $rc
