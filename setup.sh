#!/bin/sh
# Build the framework from files on disk only (offline): translators, the Coq
# development (full .vo build), the Go harness against /repo with -tags verif.
set -e
cd "$(dirname "$0")"
export GOFLAGS=-mod=mod GOPROXY=off GOSUMDB=off GOTOOLCHAIN=local CGO_ENABLED=0
mkdir -p build/bin coq/gen evidence
python3 - <<'PY'
import sys
sys.path.insert(0, "vlib")
import driver
with driver.Lock():
    for name, ok, o in driver.regenerate():
        print("translator", name, "ok" if ok else "FAILED", o.strip()[-300:])
    driver.ensure_makefile()
PY
(cd coq && timeout 7200 make -j16 > ../build/setup_make.log 2>&1) || { tail -50 build/setup_make.log; echo "coq build failed"; exit 1; }
cp /repo/go.sum harness/go.sum
for d in harness/c[0-9][0-9]; do
  p=$(basename $d)
  (cd harness && go build -tags verif -o ../build/bin/h_$p ./$p) || echo "warning: harness $p does not build"
done
echo setup ok
