#!/bin/sh
# Build the framework from files on disk only (offline): translators, the Coq
# development (full .vo build), the Go harness against /repo with -tags verif.
set -e
cd "$(dirname "$0")"
export GOFLAGS=-mod=mod GOPROXY=off GOSUMDB=off GOTOOLCHAIN=local CGO_ENABLED=0
mkdir -p build/bin coq/gen evidence
python3 - <<'PY'
import sys
sys.path.insert(0, "vlib")
import driver
with driver.Lock():
    for name, ok, o in driver.regenerate():
        print("translator", name, "ok" if ok else "FAILED", o.strip()[-300:])
    driver.ensure_makefile()
PY
# -k: one property's broken file must not keep the others from being built; every check
# re-runs make on its own targets and reports a broken build for its property
(cd coq && timeout 7200 make -k -j16 > ../build/setup_make.log 2>&1) || { grep -B2 -A12 "Error" build/setup_make.log | tail -60; echo "warning: some Coq files did not build (see build/setup_make.log)"; }
cp /repo/go.sum harness/go.sum
for d in harness/c[0-9][0-9]; do
  p=$(basename $d)
  (cd harness && go build -tags verif -o ../build/bin/h_$p ./$p) || echo "warning: harness $p does not build"
done
echo setup ok
