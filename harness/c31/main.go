package main

// C31 — correspondence for the translator: the Go compiler's results of every
// function in math/checked on a boundary grid, against the generated Gallina
// model; plus the direct oracle (math/big).

import (
	"fmt"
	"math"
	"math/big"

	"github.com/bytom/bytom/math/checked"
	. "verifharness/hlib"
)

func main() { Main("C31", runC31, nil) }

type c31fn struct {
	name  string
	bits  int
	sgn   bool
	arity int
	call  func(a, b *big.Int) (*big.Int, bool)
	exact func(a, b *big.Int) (*big.Int, bool) // exact result, domain-valid
}

func bi(x int64) *big.Int   { return big.NewInt(x) }
func bu(x uint64) *big.Int  { return new(big.Int).SetUint64(x) }
func quoOK(a, b *big.Int) (*big.Int, bool) {
	if b.Sign() == 0 {
		return nil, false
	}
	return new(big.Int).Quo(a, b), true
}

func c31fns() []c31fn {
	add := func(a, b *big.Int) (*big.Int, bool) { return new(big.Int).Add(a, b), true }
	sub := func(a, b *big.Int) (*big.Int, bool) { return new(big.Int).Sub(a, b), true }
	mul := func(a, b *big.Int) (*big.Int, bool) { return new(big.Int).Mul(a, b), true }
	neg := func(a, b *big.Int) (*big.Int, bool) { return new(big.Int).Neg(a), true }
	shl := func(w int) func(a, b *big.Int) (*big.Int, bool) {
		return func(a, b *big.Int) (*big.Int, bool) {
			if b.Sign() < 0 || b.Cmp(bi(int64(w))) >= 0 {
				return nil, false
			}
			return new(big.Int).Lsh(a, uint(b.Int64())), true
		}
	}
	i64 := func(f func(a, b int64) (int64, bool)) func(a, b *big.Int) (*big.Int, bool) {
		return func(a, b *big.Int) (*big.Int, bool) { r, ok := f(a.Int64(), b.Int64()); return bi(r), ok }
	}
	i32 := func(f func(a, b int32) (int32, bool)) func(a, b *big.Int) (*big.Int, bool) {
		return func(a, b *big.Int) (*big.Int, bool) {
			r, ok := f(int32(a.Int64()), int32(b.Int64()))
			return bi(int64(r)), ok
		}
	}
	u64 := func(f func(a, b uint64) (uint64, bool)) func(a, b *big.Int) (*big.Int, bool) {
		return func(a, b *big.Int) (*big.Int, bool) { r, ok := f(a.Uint64(), b.Uint64()); return bu(r), ok }
	}
	u32 := func(f func(a, b uint32) (uint32, bool)) func(a, b *big.Int) (*big.Int, bool) {
		return func(a, b *big.Int) (*big.Int, bool) {
			r, ok := f(uint32(a.Uint64()), uint32(b.Uint64()))
			return bu(uint64(r)), ok
		}
	}
	// remainder: fails together with the quotient
	rem := func(a, b *big.Int) (*big.Int, bool) {
		if b.Sign() == 0 {
			return nil, false
		}
		return new(big.Int).Rem(a, b), true
	}
	return []c31fn{
		{"AddInt64", 64, true, 2, i64(checked.AddInt64), add},
		{"SubInt64", 64, true, 2, i64(checked.SubInt64), sub},
		{"MulInt64", 64, true, 2, i64(checked.MulInt64), mul},
		{"DivInt64", 64, true, 2, i64(checked.DivInt64), quoOK},
		{"ModInt64", 64, true, 2, i64(checked.ModInt64), rem},
		{"NegateInt64", 64, true, 1, i64(func(a, _ int64) (int64, bool) { return checked.NegateInt64(a) }), neg},
		{"LshiftInt64", 64, true, 2, i64(checked.LshiftInt64), shl(64)},
		{"AddInt32", 32, true, 2, i32(checked.AddInt32), add},
		{"SubInt32", 32, true, 2, i32(checked.SubInt32), sub},
		{"MulInt32", 32, true, 2, i32(checked.MulInt32), mul},
		{"DivInt32", 32, true, 2, i32(checked.DivInt32), quoOK},
		{"ModInt32", 32, true, 2, i32(checked.ModInt32), rem},
		{"NegateInt32", 32, true, 1, i32(func(a, _ int32) (int32, bool) { return checked.NegateInt32(a) }), neg},
		{"LshiftInt32", 32, true, 2, i32(checked.LshiftInt32), shl(32)},
		{"AddUint64", 64, false, 2, u64(checked.AddUint64), add},
		{"SubUint64", 64, false, 2, u64(checked.SubUint64), sub},
		{"MulUint64", 64, false, 2, u64(checked.MulUint64), mul},
		{"DivUint64", 64, false, 2, u64(checked.DivUint64), quoOK},
		{"ModUint64", 64, false, 2, u64(checked.ModUint64), rem},
		{"LshiftUint64", 64, false, 2, u64(checked.LshiftUint64), shl(64)},
		{"AddUint32", 32, false, 2, u32(checked.AddUint32), add},
		{"SubUint32", 32, false, 2, u32(checked.SubUint32), sub},
		{"MulUint32", 32, false, 2, u32(checked.MulUint32), mul},
		{"DivUint32", 32, false, 2, u32(checked.DivUint32), quoOK},
		{"ModUint32", 32, false, 2, u32(checked.ModUint32), rem},
		{"LshiftUint32", 32, false, 2, u32(checked.LshiftUint32), shl(32)},
	}
}

func c31grid(bits int, sgn bool, rng *Rng, extra int) []*big.Int {
	var lo, hi *big.Int
	if sgn {
		lo = new(big.Int).Neg(new(big.Int).Lsh(bi(1), uint(bits-1)))
		hi = new(big.Int).Sub(new(big.Int).Lsh(bi(1), uint(bits-1)), bi(1))
	} else {
		lo = bi(0)
		hi = new(big.Int).Sub(new(big.Int).Lsh(bi(1), uint(bits)), bi(1))
	}
	set := map[string]*big.Int{}
	add := func(x *big.Int) {
		if x.Cmp(lo) >= 0 && x.Cmp(hi) <= 0 {
			set[x.String()] = x
		}
	}
	for _, d := range []int64{0, 1, 2, 3} {
		add(new(big.Int).Add(lo, bi(d)))
		add(new(big.Int).Sub(hi, bi(d)))
		add(bi(d))
		add(bi(-d))
	}
	for _, k := range []uint{15, 16, 31, 32, 33, 62, 63} {
		p := new(big.Int).Lsh(bi(1), k)
		for _, d := range []int64{-1, 0, 1} {
			add(new(big.Int).Add(p, bi(d)))
			add(new(big.Int).Neg(new(big.Int).Add(p, bi(d))))
		}
	}
	// around the square root of the maximum and small shift counts
	sq := new(big.Int).Sqrt(hi)
	for _, d := range []int64{-1, 0, 1} {
		add(new(big.Int).Add(sq, bi(d)))
		add(new(big.Int).Neg(new(big.Int).Add(sq, bi(d))))
	}
	for _, d := range []int64{5, 7, 30, 31, 32, 33, 62, 63, 64, 65, 100} {
		add(bi(d))
		add(bi(-d))
	}
	for i := 0; i < extra; i++ {
		w := uint(rng.Intn(bits)) + 1
		x := new(big.Int).SetUint64(rng.Next() >> (64 - w))
		if sgn && rng.Bool() {
			x.Neg(x)
		}
		add(x)
	}
	var out []*big.Int
	for _, v := range set {
		out = append(out, v)
	}
	// deterministic order
	for i := 0; i < len(out); i++ {
		for j := i + 1; j < len(out); j++ {
			if out[j].Cmp(out[i]) < 0 {
				out[i], out[j] = out[j], out[i]
			}
		}
	}
	return out
}

func runC31(c *Ctx) error {
	_ = math.MaxInt64
	extra := c.N(4, 12)
	fits := func(x *big.Int, bits int, sgn bool) bool {
		if sgn {
			lo := new(big.Int).Neg(new(big.Int).Lsh(bi(1), uint(bits-1)))
			hi := new(big.Int).Sub(new(big.Int).Lsh(bi(1), uint(bits-1)), bi(1))
			return x.Cmp(lo) >= 0 && x.Cmp(hi) <= 0
		}
		return x.Sign() >= 0 && x.BitLen() <= bits
	}
	for _, f := range c31fns() {
		grid := c31grid(f.bits, f.sgn, c.Rng, extra)
		bs := grid
		if f.arity == 1 {
			bs = []*big.Int{bi(0)}
		}
		// thin the grid for the Coq-side evaluation in the quick tier
		for ia, a := range grid {
			for ib, b := range bs {
				got, ok := f.call(a, b)
				// direct oracle (exact integer arithmetic)
				ex, valid := f.exact(a, b)
				wantOK := valid && fits(ex, f.bits, f.sgn)
				if f.name[:3] == "Mod" && valid {
					q, _ := quoOK(a, b)
					wantOK = fits(q, f.bits, f.sgn)
				}
				var bad string
				if ok != wantOK {
					bad = fmt.Sprintf("success flag %v, exact arithmetic says %v", ok, wantOK)
				} else if ok && got.Cmp(ex) != 0 {
					bad = fmt.Sprintf("value %v, exact result %v", got, ex)
				} else if !ok && got.Sign() != 0 {
					bad = fmt.Sprintf("failure with non-zero value %v", got)
				}
				desc := map[string]interface{}{"fn": f.name, "a": a.String(), "b": b.String(), "got": got.String(), "ok": ok}
				if bad != "" {
					c.Stats.Fail(f.name+": "+bad, desc)
				}
				key := fmt.Sprintf("%s(%s,%s)", f.name, a, b)
				c.Stats.Case(key, true)
				if ok {
					c.Stats.Count("success")
				} else {
					c.Stats.Count("failure")
				}
				if (ia*31+ib*17)%97 == 0 {
					c.Stats.Sample(desc)
				}
				// model side: every case in thorough, a deterministic third in quick
				mod := 29
				if c.Thorough() {
					mod = 5
				}
				if (ia*7+ib*13)%mod == 0 || bad != "" {
					var model string
					if f.arity == 1 {
						model = fmt.Sprintf("%s %s", f.name, CoqZ(a))
					} else {
						model = fmt.Sprintf("%s %s %s", f.name, CoqZ(a), CoqZ(b))
					}
					id := c.Cases.Add(model, fmt.Sprintf("Some (%s, %s)", CoqZ(got), CoqBool(ok)))
					c.Stats.CaseIndex[fmt.Sprint(id)] = desc
					c.Stats.Count("model_evaluated")
				}
			}
		}
	}
	c.Stats.Rule = "every function of math/checked on the cross product of a boundary grid (type min/max +-3, 0, +-1..3, 2^k+-1, sqrt(max)+-1, shift counts around the word size) and seeded random values; every case is distinct (function, a, b) and non-trivial (it exercises the guard and the arithmetic); the Go result is compared with exact math/big arithmetic (oracle) and with the generated Gallina model (vm_compute)"
	header := "From Coq Require Import ZArith List Bool.\nFrom Verif Require Import GoInt.\nFrom VerifGen Require Import Checked.\nImport ListNotations.\nOpen Scope Z_scope.\n" +
		"Definition cres_eqb (x y : cres) : bool := match x, y with Some (a,b), Some (c,d) => Z.eqb a c && Bool.eqb b d | None, None => true | _, _ => false end.\n"
	return c.Cases.Write(c.Out, header, "cres", "cres_eqb")
}
