// C33 on a real node: the same requests served by a real protocol.Chain (LevelDB store with its
// caches, casper's fork choice), before and after reorganisations, with stored side blocks of every
// relation to the tip.  Oracle on the implementation's answers only: no panic, every item on the
// main chain (as read from the best block back through the parent links, not from the node's index),
// heights strictly increasing, at most the maximum, not beyond the stop block.
package main

import (
	"fmt"
	"os"

	"github.com/bytom/bytom/netsync/chainmgr"
	"github.com/bytom/bytom/protocol/bc"
	"github.com/bytom/bytom/protocol/bc/types"

	cl "verifharness/chainlib"
	. "verifharness/hlib"
)

func realChainStage(c *Ctx) error {
	r := c.Rng
	w := cl.Init(cl.DefaultOptions())
	_, maxHeaders := chainmgr.VerifMaxima()
	rounds := c.N(5, 25)
	served := 0
	for round := 0; round < rounds; round++ {
		dir, err := os.MkdirTemp("", "c33real")
		if err != nil {
			return err
		}
		node, err := cl.NewNode(dir)
		if err != nil {
			os.RemoveAll(dir)
			return fmt.Errorf("chainlib.NewNode: %v", err)
		}
		var all []*cl.BlockInfo
		var hist []string
		deliver := func(b *cl.BlockInfo) bool {
			all = append(all, b)
			hist = append(hist, fmt.Sprintf("block h%d %x", b.Block.Height, b.Hash.Bytes()[:3]))
			_, err := node.Process(b.Block)
			return err == nil
		}
		fail := func(class, what string) {
			c.Stats.Fail("class="+class+": "+what, map[string]interface{}{"kind": "real-chain", "round": round, "history": hist})
		}
		// the truth: walk back from the best block
		mainSet := func() map[bc.Hash]uint64 {
			m := map[bc.Hash]uint64{}
			h := node.Chain.BestBlockHeader()
			for {
				m[h.Hash()] = h.Height
				if h.Height == 0 {
					return m
				}
				p, err := node.Chain.GetHeaderByHash(&h.PreviousBlockHash)
				if err != nil {
					return m
				}
				h = p
			}
		}
		serve := func(tag string) bool {
			main := mainSet()
			for q := 0; q < 12; q++ {
				// locator: a few blocks of any relation, newest first or shuffled
				var loc []*bc.Hash
				for k := 0; k < 1+r.Intn(5); k++ {
					h := all[r.Intn(len(all))].Hash
					loc = append(loc, &h)
				}
				if r.Chance(60) {
					g := w.Genesis.Hash
					loc = append(loc, &g)
				}
				stop := all[r.Intn(len(all))].Hash
				if r.Chance(50) {
					stop = node.Chain.BestBlockHeader().Hash()
				}
				skip := uint64(r.Intn(4))
				if r.Chance(10) {
					skip = ^uint64(0) - uint64(r.Intn(3))
				}
				desc := fmt.Sprintf("%s: locator of %d entries, stop %x, skip %d", tag, len(loc), stop.Bytes()[:3], skip)
				var hs []*types.BlockHeader
				var bs []*types.Block
				panicked := ""
				func() {
					defer func() {
						if p := recover(); p != nil {
							panicked = fmt.Sprint(p)
						}
					}()
					hs, _ = chainmgr.VerifLocateHeaders(node.Chain, loc, &stop, skip, maxHeaders)
					bs, _ = chainmgr.VerifLocateBlocks(node.Chain, loc, &stop, func() bool { return false })
				}()
				served++
				if panicked != "" {
					fail("panic", "serving a request panics ("+desc+"): "+panicked)
					return false
				}
				check := func(kind string, n int, at func(i int) (bc.Hash, uint64)) bool {
					if uint64(n) > maxHeaders {
						fail("too-many", fmt.Sprintf("%s response of %d items (%s)", kind, n, desc))
						return false
					}
					var last uint64
					for i := 0; i < n; i++ {
						h, ht := at(i)
						if mh, ok := main[h]; !ok || mh != ht {
							fail("not-on-main-chain", fmt.Sprintf("%s response item %d (height %d, %x) is not on the main chain the best block's parent links define (%s)", kind, i, ht, h.Bytes()[:3], desc))
							return false
						}
						if i > 0 && ht <= last {
							fail("not-increasing", fmt.Sprintf("%s response heights %d then %d (%s)", kind, last, ht, desc))
							return false
						}
						last = ht
					}
					if sh, ok := main[stop]; ok && n > 0 && last > sh {
						fail("beyond-stop", fmt.Sprintf("%s response ends at height %d beyond the stop block at %d (%s)", kind, last, sh, desc))
						return false
					}
					return true
				}
				if !check("header", len(hs), func(i int) (bc.Hash, uint64) { return hs[i].Hash(), hs[i].Height }) {
					return false
				}
				if !check("block", len(bs), func(i int) (bc.Hash, uint64) { return bs[i].Hash(), bs[i].Height }) {
					return false
				}
			}
			return true
		}
		// main chain, then a fork that overtakes it by two or more blocks at once (orphans first), then
		// a stored side block above and below the tip
		trunk := w.Trunk(w.Genesis, 3+r.Intn(3))
		okc := true
		for _, b := range trunk {
			okc = okc && deliver(b)
		}
		tip := trunk[len(trunk)-1]
		a := tip
		for k := 0; k < 2+r.Intn(3) && okc; k++ {
			a = w.NewBlock(a, nil, cl.BlockOpt{})
			okc = okc && deliver(a)
		}
		if okc && serve("before the reorganisation") {
			// branch B from tip, delivered child-first so that several blocks attach in one reorganisation
			var bb []*cl.BlockInfo
			b := tip
			for k := uint64(0); k < a.Block.Height-tip.Block.Height+1+uint64(r.Intn(2)); k++ {
				b = w.NewBlock(b, nil, cl.BlockOpt{Skip: 1})
				bb = append(bb, b)
			}
			for i := len(bb) - 1; i >= 0; i-- {
				deliver(bb[i])
			}
			if serve("after the reorganisation") {
				// one more block on the abandoned branch (stored side block at the tip's height or above)
				a2 := w.NewBlock(a, nil, cl.BlockOpt{})
				deliver(a2)
				serve("with a stored side block")
			}
		}
		node.CloseSettled()
		os.RemoveAll(dir)
	}
	c.Stats.Distribution["real-chain.requests"] = served
	return nil
}
