package main

// C33 — header/block sync responses are well-formed.
//
// Drives netsync/chainmgr's locateHeaders / locateBlocks (through the verif hook
// netsync/chainmgr/locate_verif.go) and the two request handlers over a mock chain
// (a header store keyed by the real header hash plus a main-chain index, which is
// exactly what protocol.Chain offers to the sync code).  Every case goes through
//   * the direct oracle: the property predicate evaluated on the implementation's
//     response only (size, membership in the main chain, strictly increasing heights,
//     start rule, stop rule, no panic), and
//   * the correspondence: the same call evaluated by the Coq model (C33/Model.v).
// The protocol maxima are read from the package at run time (VerifMaxima).

import (
	"errors"
	"fmt"
	"io/ioutil"
	"math"
	"net"
	"sort"
	"strings"

	log "github.com/sirupsen/logrus"
	"github.com/tendermint/tmlibs/flowrate"

	"github.com/bytom/bytom/consensus"
	"github.com/bytom/bytom/netsync/chainmgr"
	msgs "github.com/bytom/bytom/netsync/messages"
	"github.com/bytom/bytom/protocol/bc"
	"github.com/bytom/bytom/protocol/bc/types"
	. "verifharness/hlib"
)

func main() { Main("C33", runC33, nil) }

// ---- mock chain -----------------------------------------------------------

type mchain struct {
	name     string
	headers  map[bc.Hash]*types.BlockHeader // header store (main and side chains)
	main     []bc.Hash                      // main-chain index: height -> hash
	noblock  map[bc.Hash]bool               // block body not available
	label    map[bc.Hash]int                // label used on the Coq side
	sideList []bc.Hash                      // stored headers not on the main chain
	nextLbl  int
	coq      string
}

var errNotFound = errors.New("not found")

func (c *mchain) BestBlockHeader() *types.BlockHeader {
	return c.headers[c.main[len(c.main)-1]]
}
func (c *mchain) LastJustifiedHeader() (*types.BlockHeader, error) { return nil, nil }
func (c *mchain) BestBlockHeight() uint64                          { return uint64(len(c.main) - 1) }
func (c *mchain) GetBlockByHash(h *bc.Hash) (*types.Block, error) {
	hd, ok := c.headers[*h]
	if !ok || c.noblock[*h] {
		return nil, errNotFound
	}
	return &types.Block{BlockHeader: *hd}, nil
}
func (c *mchain) GetBlockByHeight(height uint64) (*types.Block, error) {
	if height >= uint64(len(c.main)) {
		return nil, errNotFound
	}
	return c.GetBlockByHash(&c.main[height])
}
func (c *mchain) GetHeaderByHash(h *bc.Hash) (*types.BlockHeader, error) {
	hd, ok := c.headers[*h]
	if !ok {
		return nil, errNotFound
	}
	cp := *hd
	return &cp, nil
}
func (c *mchain) GetHeaderByHeight(height uint64) (*types.BlockHeader, error) {
	if height >= uint64(len(c.main)) {
		return nil, errNotFound
	}
	return c.GetHeaderByHash(&c.main[height])
}
func (c *mchain) InMainChain(h bc.Hash) bool {
	hd, ok := c.headers[h]
	if !ok {
		return false
	}
	return hd.Height < uint64(len(c.main)) && c.main[hd.Height] == h
}
func (c *mchain) ProcessBlock(*types.Block) (bool, error) { return false, nil }
func (c *mchain) ValidateTx(*types.Tx) (bool, error)      { return false, nil }

// buildChain makes a main chain of n headers (heights 0..n-1) and nside stored
// side-chain headers; labels are a random permutation so that nothing depends on
// their order.
func buildChain(rng *Rng, name string, n, nside int, missingBodies bool) *mchain {
	return buildChainL(rng, name, n, nside, missingBodies, false)
}

// buildChainL: with seqLabels the main-chain header of height h gets label h+1 and the Coq
// literal is the compact "seq_chain n side" (long chains: parsing thousands of literal pairs
// in every shard would dominate the run time).
func buildChainL(rng *Rng, name string, n, nside int, missingBodies, seqLabels bool) *mchain {
	c := &mchain{name: name, headers: map[bc.Hash]*types.BlockHeader{}, noblock: map[bc.Hash]bool{}, label: map[bc.Hash]int{}}
	prev := bc.Hash{}
	for h := 0; h < n; h++ {
		hd := &types.BlockHeader{Version: 1, Height: uint64(h), PreviousBlockHash: prev, Timestamp: 1600000000000 + uint64(h)*6000 + rng.Next()%1000}
		hash := hd.Hash()
		c.headers[hash] = hd
		c.main = append(c.main, hash)
		prev = hash
	}
	for k := 0; k < nside; k++ {
		// fork from a random main-chain header; branch length 1..3 (heights may exceed the best height)
		at := rng.Intn(n)
		parent := c.main[at]
		ln := 1 + rng.Intn(3)
		for j := 1; j <= ln; j++ {
			hd := &types.BlockHeader{Version: 1, Height: uint64(at + j), PreviousBlockHash: parent, Timestamp: 1700000000000 + rng.Next()%100000}
			hash := hd.Hash()
			if _, dup := c.headers[hash]; dup {
				break
			}
			c.headers[hash] = hd
			c.sideList = append(c.sideList, hash)
			parent = hash
		}
	}
	// labels: random permutation of 1..total
	var all []bc.Hash
	all = append(all, c.main...)
	all = append(all, c.sideList...)
	perm := make([]int, len(all))
	for i := range perm {
		perm[i] = i + 1
	}
	for i := len(perm) - 1; i > 0; i-- {
		j := rng.Intn(i + 1)
		perm[i], perm[j] = perm[j], perm[i]
	}
	for i, h := range all {
		c.label[h] = perm[i]
		if seqLabels {
			c.label[h] = i + 1
		}
	}
	c.nextLbl = len(all) + 1
	if missingBodies {
		for i := 0; i < 1+n/6; i++ {
			c.noblock[c.main[rng.Intn(n)]] = true
		}
	}
	// Coq literal: store in label order (an order unrelated to heights), main index by height
	type ent struct {
		l int
		h uint64
	}
	var ents []ent
	for h, hd := range c.headers {
		ents = append(ents, ent{c.label[h], hd.Height})
	}
	sort.Slice(ents, func(i, j int) bool { return ents[i].l < ents[j].l })
	var sb strings.Builder
	if seqLabels {
		sb.WriteString(fmt.Sprintf("Eval vm_compute in (seq_chain %d [", n))
		k := 0
		for _, e := range ents {
			if e.l > n {
				if k > 0 {
					sb.WriteString(";")
				}
				fmt.Fprintf(&sb, "(%d%%N,%d)", e.l, e.h)
				k++
			}
		}
		sb.WriteString("])")
		c.coq = sb.String()
		return c
	}
	sb.WriteString("(mkChain [")
	for i, e := range ents {
		if i > 0 {
			sb.WriteString(";")
		}
		fmt.Fprintf(&sb, "(%d%%N,%d)", e.l, e.h)
	}
	sb.WriteString("] [")
	for i, h := range c.main {
		if i > 0 {
			sb.WriteString(";")
		}
		fmt.Fprintf(&sb, "%d", c.label[h])
	}
	sb.WriteString("]%N [")
	var nb []int
	for h := range c.noblock {
		nb = append(nb, c.label[h])
	}
	sort.Ints(nb)
	for i, l := range nb {
		if i > 0 {
			sb.WriteString(";")
		}
		fmt.Fprintf(&sb, "%d", l)
	}
	sb.WriteString("]%N)")
	c.coq = sb.String()
	return c
}

// ---- capturing peer ---------------------------------------------------------

type capPeer struct {
	sent []interface{}
}

func (p *capPeer) Moniker() string                                     { return "" }
func (p *capPeer) Addr() net.Addr                                      { return &net.IPAddr{IP: net.ParseIP("10.0.0.1")} }
func (p *capPeer) ID() string                                          { return "verif-peer" }
func (p *capPeer) RemoteAddrHost() string                              { return "10.0.0.1" }
func (p *capPeer) ServiceFlag() consensus.ServiceFlag                  { return consensus.SFFullNode }
func (p *capPeer) TrafficStatus() (*flowrate.Status, *flowrate.Status) { return nil, nil }
func (p *capPeer) IsLAN() bool                                         { return false }
func (p *capPeer) TrySend(ch byte, msg interface{}) bool {
	p.sent = append(p.sent, msg)
	return true
}

// ---- a query ------------------------------------------------------------------

type hashRef struct {
	Kind   string `json:"kind"` // main | side | unknown
	Height uint64 `json:"height"`
	Label  int    `json:"label"`
	hash   bc.Hash
}

type item struct {
	label  int
	height uint64
	hash   bc.Hash
}

type query struct {
	ch       *mchain
	kind     string // headers | blocks | handle-headers | handle-blocks
	locator  []hashRef
	stop     hashRef
	skip     uint64
	max      uint64
	timeouts []bool
}

func (c *mchain) ref(h bc.Hash) hashRef {
	hd, ok := c.headers[h]
	if !ok {
		l, seen := c.label[h]
		if !seen {
			l = c.nextLbl
			c.nextLbl++
			c.label[h] = l
		}
		return hashRef{"unknown", 0, l, h}
	}
	k := "side"
	if c.InMainChain(h) {
		k = "main"
	}
	return hashRef{k, hd.Height, c.label[h], h}
}

func (c *mchain) randMain(rng *Rng) hashRef { return c.ref(c.main[rng.Intn(len(c.main))]) }
func (c *mchain) randSide(rng *Rng) hashRef {
	if len(c.sideList) == 0 {
		return c.randUnknown(rng)
	}
	return c.ref(c.sideList[rng.Intn(len(c.sideList))])
}
func (c *mchain) randUnknown(rng *Rng) hashRef {
	var b [32]byte
	copy(b[:], rng.Bytes(32))
	return c.ref(bc.NewHash(b))
}

// genLocator: mostly what an honest peer sends (main-chain and a few side-chain hashes,
// descending heights, dense near the tip then sparser), otherwise a malformed mix.
func genLocator(c *Ctx, ch *mchain) ([]hashRef, string) {
	rng := c.Rng
	var loc []hashRef
	shape := ""
	switch r := rng.Intn(100); {
	case r < 8:
		shape = "empty"
	case r < 55:
		shape = "honest"
		// peer's tip is a random main-chain height, possibly continued on a side branch
		tip := rng.Intn(len(ch.main))
		if rng.Chance(35) {
			for i := 0; i < 1+rng.Intn(2); i++ {
				loc = append(loc, ch.randSide(rng))
			}
			if rng.Chance(30) {
				loc = append(loc, ch.randUnknown(rng))
			}
		}
		step := 1
		for h := tip; h >= 0; h -= step {
			loc = append(loc, ch.ref(ch.main[h]))
			if len(loc) > 6 {
				step *= 2
			}
			if len(loc) > 14 {
				break
			}
		}
		// honest locators are sorted by descending height over their known entries
		sort.SliceStable(loc, func(i, j int) bool {
			hi, hj := loc[i].Height, loc[j].Height
			if loc[i].Kind == "unknown" {
				hi = math.MaxUint64
			}
			if loc[j].Kind == "unknown" {
				hj = math.MaxUint64
			}
			return hi > hj
		})
	case r < 70:
		shape = "single"
		switch rng.Intn(4) {
		case 0:
			loc = append(loc, ch.randSide(rng))
		case 1:
			loc = append(loc, ch.randUnknown(rng))
		default:
			loc = append(loc, ch.randMain(rng))
		}
	case r < 80:
		shape = "no-main"
		for i := 0; i < 1+rng.Intn(4); i++ {
			if rng.Bool() {
				loc = append(loc, ch.randSide(rng))
			} else {
				loc = append(loc, ch.randUnknown(rng))
			}
		}
	default:
		shape = "mixed-unsorted"
		n := 1 + rng.Intn(10)
		for i := 0; i < n; i++ {
			switch rng.Intn(5) {
			case 0:
				loc = append(loc, ch.randSide(rng))
			case 1:
				loc = append(loc, ch.randUnknown(rng))
			default:
				loc = append(loc, ch.randMain(rng))
			}
		}
		if rng.Chance(20) && len(loc) > 1 { // duplicates
			loc = append(loc, loc[rng.Intn(len(loc))])
		}
	}
	return loc, shape
}

// startOf: the start header the code's rule yields (first main-chain locator entry, else genesis).
func startHeight(ch *mchain, loc []hashRef) uint64 {
	for _, r := range loc {
		if r.Kind == "main" {
			return r.Height
		}
	}
	return 0
}

func genStop(c *Ctx, ch *mchain, start uint64) (hashRef, string) {
	rng := c.Rng
	best := uint64(len(ch.main) - 1)
	switch r := rng.Intn(100); {
	case r < 30:
		return ch.ref(ch.main[best]), "best"
	case r < 60: // above (or at) the start
		h := start + uint64(rng.Intn(int(best-start)+1))
		return ch.ref(ch.main[h]), "main-at-or-above-start"
	case r < 70:
		return ch.randMain(rng), "main-any"
	case r < 76:
		return ch.ref(ch.main[start]), "equals-start"
	case r < 80:
		return ch.ref(ch.main[0]), "genesis"
	case r < 90:
		return ch.randSide(rng), "side"
	default:
		return ch.randUnknown(rng), "unknown"
	}
}

func genSkip(c *Ctx, ch *mchain, start, stop uint64) (uint64, string) {
	rng := c.Rng
	gap := uint64(0)
	if stop > start {
		gap = stop - start
	}
	switch r := rng.Intn(100); {
	case r < 30:
		return 0, "0"
	case r < 50:
		return uint64(1 + rng.Intn(5)), "1..5"
	case r < 60: // lands exactly on / just before / just after the stop block
		return gap - 2 + uint64(rng.Intn(3)), "around-gap" // may wrap for gap<2: intended (a boundary value)
	case r < 66:
		return uint64(rng.Intn(int(gap) + 3)), "below-gap"
	case r < 76: // 2^64-1-k: skip+1 wraps to -k
		return math.MaxUint64 - uint64(rng.Intn(len(ch.main)+3)), "2^64-1-k"
	case r < 84: // index+skip+1 wraps around to a small height
		return math.MaxUint64 - start - 1 + uint64(rng.Intn(len(ch.main)+2)), "wrap-to-low-height"
	case r < 92:
		b := []uint64{1 << 31, 1<<31 - 1, 1 << 32, 1<<32 - 1, 1<<32 + 1, 1 << 62, 1<<63 - 1, 1 << 63, 1<<63 + 1, math.MaxUint64 - 1, math.MaxUint64}
		return b[rng.Intn(len(b))], "boundary"
	default:
		return rng.Next() >> uint(rng.Intn(64)), "random-width"
	}
}

// ---- observation ---------------------------------------------------------------

const (
	tagOk    = 0
	tagErr   = 1
	tagNone  = 2
	tagPanic = 3
)

type observed struct {
	tag   int
	items []item
	panic string
}

func (o observed) coq() string {
	var sb strings.Builder
	fmt.Fprintf(&sb, "(%d%%nat, [", o.tag)
	for i, it := range o.items {
		if i > 0 {
			sb.WriteString(";")
		}
		fmt.Fprintf(&sb, "(%d%%N,%d)", it.label, it.height)
	}
	sb.WriteString("])")
	return sb.String()
}

func hashPtrs(loc []hashRef) []*bc.Hash {
	out := []*bc.Hash{}
	for i := range loc {
		h := loc[i].hash
		out = append(out, &h)
	}
	return out
}

func (q *query) headerItems(hs []*types.BlockHeader) []item {
	var out []item
	for _, h := range hs {
		hash := h.Hash()
		out = append(out, item{q.ch.ref(hash).Label, h.Height, hash})
	}
	return out
}

func (q *query) run() (o observed) {
	defer func() {
		if r := recover(); r != nil {
			o = observed{tag: tagPanic, panic: fmt.Sprint(r)}
		}
	}()
	stop := q.stop.hash
	switch q.kind {
	case "headers":
		hs, err := chainmgr.VerifLocateHeaders(q.ch, hashPtrs(q.locator), &stop, q.skip, q.max)
		if err != nil {
			return observed{tag: tagErr}
		}
		return observed{tag: tagOk, items: q.headerItems(hs)}
	case "blocks":
		calls := 0
		isTimeout := func() bool {
			calls++
			return calls <= len(q.timeouts) && q.timeouts[calls-1]
		}
		bs, err := chainmgr.VerifLocateBlocks(q.ch, hashPtrs(q.locator), &stop, isTimeout)
		if err != nil {
			return observed{tag: tagErr}
		}
		var hs []*types.BlockHeader
		for _, b := range bs {
			hs = append(hs, &b.BlockHeader)
		}
		return observed{tag: tagOk, items: q.headerItems(hs)}
	case "handle-headers":
		p := &capPeer{}
		chainmgr.VerifHandleGetHeaders(q.ch, p, msgs.NewGetHeadersMessage(hashPtrs(q.locator), &stop, q.skip))
		if len(p.sent) == 0 {
			return observed{tag: tagNone}
		}
		m, ok := p.sent[0].(struct{ msgs.BlockchainMessage })
		if !ok || len(p.sent) != 1 {
			panic("unexpected message sent by handleGetHeadersMsg")
		}
		hs, err := m.BlockchainMessage.(*msgs.HeadersMessage).GetHeaders()
		if err != nil {
			panic("undecodable headers message: " + err.Error())
		}
		return observed{tag: tagOk, items: q.headerItems(hs)}
	case "handle-blocks":
		p := &capPeer{}
		chainmgr.VerifHandleGetBlocks(q.ch, p, msgs.NewGetBlocksMessage(hashPtrs(q.locator), &stop))
		if len(p.sent) == 0 {
			return observed{tag: tagNone}
		}
		m, ok := p.sent[0].(struct{ msgs.BlockchainMessage })
		if !ok || len(p.sent) != 1 {
			panic("unexpected message sent by handleGetBlocksMsg")
		}
		bs, err := m.BlockchainMessage.(*msgs.BlocksMessage).GetBlocks()
		if err != nil {
			panic("undecodable blocks message: " + err.Error())
		}
		var hs []*types.BlockHeader
		for _, b := range bs {
			hs = append(hs, &b.BlockHeader)
		}
		return observed{tag: tagOk, items: q.headerItems(hs)}
	}
	panic("bad kind")
}

// oracle: the property, evaluated on the implementation's response and the chain only.
func (q *query) oracle(o observed) string {
	if o.tag == tagPanic {
		return "class=panic: handling panicked: " + o.panic
	}
	if o.tag != tagOk {
		return ""
	}
	ch := q.ch
	if uint64(len(o.items)) > q.max {
		return fmt.Sprintf("class=too-many: response holds %d items, protocol maximum %d", len(o.items), q.max)
	}
	for i, it := range o.items {
		if !ch.InMainChain(it.hash) {
			return fmt.Sprintf("class=off-main-chain: item %d (height %d) is not on the main chain", i, it.height)
		}
		if i > 0 && it.height <= o.items[i-1].height {
			return fmt.Sprintf("class=not-increasing: heights do not strictly increase (item %d has height %d after %d)", i, it.height, o.items[i-1].height)
		}
	}
	if len(o.items) == 0 {
		return ""
	}
	// stop rule
	if st, ok := ch.headers[q.stop.hash]; ok {
		for i, it := range o.items {
			if it.height > st.Height {
				return fmt.Sprintf("class=past-stop: item %d has height %d above the stop block's height %d", i, it.height, st.Height)
			}
		}
	} else {
		return "class=past-stop: non-empty response for an unknown stop hash"
	}
	// start rule.  The property names the highest main-chain locator entry; the code takes the
	// first one.  They coincide for locators sorted by descending height, so "highest" is demanded
	// only then; for other locators the start must still be a main-chain locator entry (or genesis
	// when the locator has none).
	first := o.items[0]
	var mainEntries []hashRef
	sorted := true
	var last uint64 = math.MaxUint64
	for _, r := range q.locator {
		if r.Kind == "unknown" {
			continue
		}
		if r.Height > last {
			sorted = false
		}
		last = r.Height
		if r.Kind == "main" {
			mainEntries = append(mainEntries, r)
		}
	}
	if len(mainEntries) == 0 {
		if first.hash != ch.main[0] {
			return fmt.Sprintf("class=wrong-start: locator has no main-chain entry but the response starts at height %d, not at genesis", first.height)
		}
		return ""
	}
	isEntry := false
	var highest uint64
	for _, r := range mainEntries {
		if r.hash == first.hash {
			isEntry = true
		}
		if r.Height > highest {
			highest = r.Height
		}
	}
	if !isEntry {
		return fmt.Sprintf("class=wrong-start: response starts at height %d which is not a main-chain locator entry", first.height)
	}
	if sorted && first.height != highest {
		return fmt.Sprintf("class=wrong-start: sorted locator, response starts at height %d, highest main-chain locator entry is %d", first.height, highest)
	}
	return ""
}

func (q *query) model() string {
	var ls []string
	for _, r := range q.locator {
		ls = append(ls, fmt.Sprint(r.Label))
	}
	loc := "[" + strings.Join(ls, ";") + "]%N"
	switch q.kind {
	case "headers":
		return fmt.Sprintf("run_headers %s %s %d%%N %d %d", q.ch.name, loc, q.stop.Label, q.skip, q.max)
	case "blocks":
		var ts []string
		for _, t := range q.timeouts {
			ts = append(ts, CoqBool(t))
		}
		return fmt.Sprintf("run_blocks %s %s %d%%N %d [%s]", q.ch.name, loc, q.stop.Label, q.max, strings.Join(ts, ";"))
	case "handle-headers":
		return fmt.Sprintf("run_handle_headers %s %s %d%%N %d %d", q.ch.name, loc, q.stop.Label, q.skip, q.max)
	}
	return ""
}

func (q *query) describe(o observed) map[string]interface{} {
	hs := []uint64{}
	for _, it := range o.items {
		hs = append(hs, it.height)
	}
	res := map[int]string{tagOk: "ok", tagErr: "error", tagNone: "nothing-sent", tagPanic: "panic"}[o.tag]
	return map[string]interface{}{"call": q.kind, "chain": q.ch.name, "main_len": len(q.ch.main), "side_headers": len(q.ch.sideList),
		"locator": q.locator, "stop": q.stop, "skip": fmt.Sprint(q.skip), "max": q.max, "timeouts": q.timeouts,
		"result": res, "got_heights": hs}
}

func sizeBucket(n int) string {
	switch {
	case n == 0:
		return "0"
	case n == 1:
		return "1"
	case n <= 8:
		return "2-8"
	case n <= 64:
		return "9-64"
	case n <= 1000:
		return "65-1000"
	}
	return ">1000"
}

func runC33(c *Ctx) error {
	log.SetOutput(ioutil.Discard)
	maxBlocks, maxHeaders := chainmgr.VerifMaxima()
	c.Stats.Extra["maxNumOfBlocksPerMsg"] = maxBlocks
	c.Stats.Extra["maxNumOfHeadersPerMsg"] = maxHeaders
	if maxBlocks == 0 || maxHeaders == 0 {
		return fmt.Errorf("protocol maxima must be positive (blocks %d, headers %d)", maxBlocks, maxHeaders)
	}
	rng := c.Rng

	// chains
	nch := c.N(36, 90)
	var chains []*mchain
	var longs []*mchain
	for i := 0; i < nch; i++ {
		var n int
		switch r := rng.Intn(100); {
		case r < 10:
			n = 1 + rng.Intn(2)
		case r < 35:
			n = 3 + rng.Intn(8)
		case r < 70:
			n = 11 + rng.Intn(40)
		default:
			n = int(maxBlocks) + 1 + rng.Intn(140) // longer than a block response
		}
		nside := 0
		if rng.Chance(75) {
			nside = 1 + rng.Intn(5)
		}
		ch := buildChain(rng, fmt.Sprintf("ch%d", i), n, nside, rng.Chance(15))
		chains = append(chains, ch)
		c.Stats.Count("chain.main_len." + sizeBucket(n))
	}
	// a few chains longer than a full header response
	for i := 0; i < c.N(2, 4); i++ {
		ch := buildChainL(rng, fmt.Sprintf("long%d", i), int(maxHeaders)+1+rng.Intn(300), 3, false, true)
		longs = append(longs, ch)
		c.Stats.Count("chain.main_len." + sizeBucket(len(ch.main)))
	}

	total := c.N(3000, 24000)
	nlong := c.N(30, 200)
	for i := 0; i < total; i++ {
		var ch *mchain
		isLong := i%(total/nlong) == 3 // spread over the shards
		if isLong {
			ch = longs[rng.Intn(len(longs))]
		} else {
			ch = chains[rng.Intn(len(chains))]
		}
		q := &query{ch: ch}
		var shape string
		q.locator, shape = genLocator(c, ch)
		start := startHeight(ch, q.locator)
		var stopShape, skipShape string
		q.stop, stopShape = genStop(c, ch, start)
		switch r := rng.Intn(100); {
		case r < 50:
			q.kind = "headers"
		case r < 72:
			q.kind = "blocks"
		case r < 90:
			q.kind = "handle-headers"
		default:
			q.kind = "handle-blocks"
		}
		if isLong { // long chains are there to fill a header response, also at handler level
			switch r := rng.Intn(100); {
			case r < 40:
				q.kind = "headers"
			case r < 80:
				q.kind = "handle-headers"
			}
		}
		switch q.kind {
		case "headers":
			q.skip, skipShape = genSkip(c, ch, start, q.stop.Height)
			switch r := rng.Intn(100); {
			case r < 45:
				q.max = maxHeaders
			case r < 60:
				q.max = maxBlocks
			default:
				q.max = uint64(1 + rng.Intn(9))
			}
		case "handle-headers":
			q.skip, skipShape = genSkip(c, ch, start, q.stop.Height)
			q.max = maxHeaders
		case "blocks":
			q.max = maxBlocks
			if rng.Chance(40) {
				n := 1 + rng.Intn(int(maxBlocks)+4)
				if rng.Bool() {
					n = 1 + rng.Intn(6)
				}
				for j := 0; j < n; j++ {
					q.timeouts = append(q.timeouts, j == n-1 || rng.Chance(3))
				}
			}
		default:
			q.max = maxBlocks
		}
		if isLong && q.kind != "blocks" && q.kind != "handle-blocks" && rng.Chance(50) {
			// make the long chains actually fill a header response
			q.locator = []hashRef{ch.ref(ch.main[rng.Intn(5)])}
			q.stop = ch.ref(ch.main[len(ch.main)-1])
			q.skip, skipShape = 0, "0"
			shape, stopShape = "single", "best"
		}

		o := q.run()
		desc := q.describe(o)
		if bad := q.oracle(o); bad != "" {
			c.Stats.Fail(bad, desc)
		}
		c.Stats.Count("call." + q.kind)
		c.Stats.Count("locator." + shape)
		c.Stats.Count("locator.len." + sizeBucket(len(q.locator)))
		c.Stats.Count("stop." + stopShape)
		if skipShape != "" {
			c.Stats.Count("skip." + skipShape)
		}
		c.Stats.Count("result." + desc["result"].(string))
		if o.tag == tagOk {
			c.Stats.Count("response.len." + sizeBucket(len(o.items)))
			if uint64(len(o.items)) == q.max {
				c.Stats.Count("response.full")
			}
		}
		key := fmt.Sprintf("%s|%s|%v|%d|%d|%d|%v", q.kind, ch.name, q.model(), q.stop.Label, q.skip, q.max, q.timeouts)
		c.Stats.Case(key, o.tag == tagOk && len(o.items) >= 2 || q.skip >= 1<<63)
		if i%211 == 7 || (len(c.Stats.Samples) < 2 && len(o.items) >= 3) {
			c.Stats.Sample(desc)
		}
		if m := q.model(); m != "" {
			id := c.Cases.Add(m, o.coq())
			c.Stats.CaseIndex[fmt.Sprint(id)] = desc
			c.Stats.Count("model_evaluated")
		}
	}
	// degenerate-stream guard (a broken check, not a violation)
	d := c.Stats.Distribution
	if d["result.ok"]*5 < total || d["result.error"]+d["result.nothing-sent"] == 0 || d["response.len.9-64"]+d["response.len.65-1000"] == 0 {
		return fmt.Errorf("degenerate input stream: %v", d)
	}

	c.Stats.Rule = "locateHeaders / locateBlocks / handleGetHeadersMsg / handleGetBlocksMsg of netsync/chainmgr over mock chains (header store + main-chain index; lengths 1..maxNumOfHeadersPerMsg+300, side-chain forks, missing block bodies); locators: honest (descending, with side/unknown entries), single, no-main-chain-entry, mixed unsorted with duplicates, empty; stop: best/main/equal-to-start/genesis/side/unknown; skip: 0, small, around the start-stop gap, 2^64-1-k, values that wrap index+skip+1 to a low height, 2^31/2^32/2^63 boundaries, random widths; max: the package's real maxima and 1..9.  A case is non-trivial when the response has at least two items or skip >= 2^63.  Oracle: size <= max, every item on the main chain, heights strictly increasing, start = first/highest main-chain locator entry (highest demanded for sorted locators) or genesis, no item above the stop block, no panic."
	var defs strings.Builder
	defs.WriteString("From Coq Require Import ZArith NArith List Bool.\nFrom Verif Require Import Outcome.\nFrom C33 Require Import Model Run.\nImport ListNotations.\nOpen Scope Z_scope.\n")
	for _, ch := range append(append([]*mchain{}, chains...), longs...) {
		defs.WriteString("Definition " + ch.name + " : chain := " + ch.coq + ".\n")
	}
	if err := c.Cases.Write(c.Out, defs.String(), "obs", "obs_eqb"); err != nil {
		return err
	}
	// last: chainlib.Init sets the global consensus parameters
	return realChainStage(c)
}
