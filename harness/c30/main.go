package main

// C30 — merkle inclusion proofs (protocol/bc/types/merkle.go).
//
// Implementation under test (public API only, no hook):
//   types.TxMerkleRoot, types.GetTxMerkleTreeProof, types.ValidateTxMerkleTreeProof.
//
// Direct oracle (property predicate on the implementation's outputs, no model):
//   O1 complete      : distinct ids, related = in-order sub-list  => generated proof validates against the root
//   O2 wrong root    : a generated proof that validates does not validate against any other root
//   O3 sound         : no proof whatsoever (generated, tampered, alternative, random) validates against
//                      root(ids) when the related list contains an id that is not in ids
//   O4 tamper        : replacing ONE hash or ONE flag of the generated proof (distinct ids, sub-list) by a
//                      different value makes validation fail
//   a Go panic in any of the three functions is reported as well.
// Correspondence: a budgeted sample of the cases is written as Coq terms
//   (C30.Run.run_case, H := SHA3-256 evaluated by vm_compute) and compared bit-exactly: root, proof
//   hashes, proof flags, validation result, and the result of every derived validation.

import (
	"fmt"
	"sort"
	"strings"

	"github.com/bytom/bytom/protocol/bc"
	"github.com/bytom/bytom/protocol/bc/types"
	. "verifharness/hlib"
)

func main() { Main("C30", run, nil) }

type hash = bc.Hash

func mkHash(b []byte) hash {
	var a [32]byte
	copy(a[:], b)
	return bc.NewHash(a)
}

// ---- the implementation, wrapped (panic => class) --------------------------

func implRoot(ids []hash) (r hash, pan string) {
	defer func() {
		if e := recover(); e != nil {
			pan = fmt.Sprint(e)
		}
	}()
	txs := make([]*bc.Tx, len(ids))
	for i := range ids {
		txs[i] = &bc.Tx{ID: ids[i]}
	}
	r, err := types.TxMerkleRoot(txs)
	if err != nil {
		pan = "error: " + err.Error()
	}
	return r, pan
}

func toTxs(ids []hash) []*types.Tx {
	txs := make([]*types.Tx, len(ids))
	for i := range ids {
		txs[i] = &types.Tx{Tx: &bc.Tx{ID: ids[i]}}
	}
	return txs
}

func implProof(ids, rel []hash) (hs []hash, fs []uint8, pan string) {
	defer func() {
		if e := recover(); e != nil {
			pan = fmt.Sprint(e)
		}
	}()
	ph, pf := types.GetTxMerkleTreeProof(toTxs(ids), toTxs(rel))
	for _, p := range ph {
		hs = append(hs, *p)
	}
	fs = append(fs, pf...)
	return hs, fs, ""
}

func implValidate(hs []hash, fs []uint8, rel []hash, root hash) (ok bool, pan string) {
	defer func() {
		if e := recover(); e != nil {
			pan = fmt.Sprint(e)
		}
	}()
	ph := make([]*bc.Hash, len(hs))
	for i := range hs {
		h := hs[i]
		ph[i] = &h
	}
	pr := make([]*bc.Hash, len(rel))
	for i := range rel {
		h := rel[i]
		pr[i] = &h
	}
	ff := append([]uint8{}, fs...)
	return types.ValidateTxMerkleTreeProof(ph, ff, pr, root), ""
}

// ---- shadow tree (node hashes through the public root function) -----------

func ppow2(n int) int { // largest power of two strictly below n (n >= 2)
	k := 1
	for 2*k < n {
		k *= 2
	}
	return k
}

type node struct {
	lo, hi int
	h      hash
	l, r   *node
}

func shadow(ids []hash, lo, hi int) *node {
	h, _ := implRoot(ids[lo:hi])
	n := &node{lo: lo, hi: hi, h: h}
	if hi-lo >= 2 {
		k := ppow2(hi - lo)
		n.l = shadow(ids, lo, lo+k)
		n.r = shadow(ids, lo+k, hi)
	}
	return n
}

func (n *node) all(out *[]hash) {
	if n == nil {
		return
	}
	*out = append(*out, n.h)
	n.l.all(out)
	n.r.all(out)
}

// alternative proof: like the generated one, but subtrees without related leaves may be
// expanded further (Assist at a finer granularity)
func (n *node) alt(rng *Rng, inRel []bool, expand int) (hs []hash, fs []uint8) {
	has := false
	for i := n.lo; i < n.hi; i++ {
		if inRel[i] {
			has = true
		}
	}
	if n.l == nil {
		if has {
			return []hash{n.h}, []uint8{2}
		}
		return []hash{n.h}, []uint8{0}
	}
	if !has && !rng.Chance(expand) {
		return []hash{n.h}, []uint8{0}
	}
	lh, lf := n.l.alt(rng, inRel, expand)
	rh, rf := n.r.alt(rng, inRel, expand)
	hs = append(append(hs, lh...), rh...)
	fs = append(append(append(fs, 1), lf...), rf...)
	return hs, fs
}

// ---- derived validations ---------------------------------------------------

type op struct {
	kind string // hash, flag, root, rel, raw
	i    int
	h    hash
	b    uint8
	rel  []hash
	hs   []hash
	fs   []uint8
	note string
}

func (o op) apply(ph []hash, pf []uint8, rel []hash, root hash) ([]hash, []uint8, []hash, hash) {
	switch o.kind {
	case "hash":
		hs := append([]hash{}, ph...)
		hs[o.i] = o.h
		return hs, pf, rel, root
	case "flag":
		fs := append([]uint8{}, pf...)
		fs[o.i] = o.b
		return ph, fs, rel, root
	case "root":
		return ph, pf, rel, o.h
	case "rel":
		return ph, pf, o.rel, root
	default:
		return o.hs, o.fs, o.rel, root
	}
}

func coqHash(h hash) string { return "(B 0x" + h.String() + ")" } // C30.Run.B: big-endian bytes of the number
func coqHashes(hs []hash) string {
	it := make([]string, len(hs))
	for i, h := range hs {
		it[i] = coqHash(h)
	}
	return CoqList(it)
}
func coqFlags(fs []uint8) string {
	it := make([]string, len(fs))
	for i, f := range fs {
		it[i] = fmt.Sprint(f)
	}
	return "[" + strings.Join(it, ";") + "]%N"
}

func (o op) coq() string {
	switch o.kind {
	case "hash":
		return fmt.Sprintf("OHash %d %s", o.i, coqHash(o.h))
	case "flag":
		return fmt.Sprintf("OFlag %d %d%%N", o.i, o.b)
	case "root":
		return "ORoot " + coqHash(o.h)
	case "rel":
		return "ORel " + coqHashes(o.rel)
	default:
		return fmt.Sprintf("ORaw %s %s %s", coqHashes(o.hs), coqFlags(o.fs), coqHashes(o.rel))
	}
}

func hexes(hs []hash) []string {
	out := make([]string, len(hs))
	for i, h := range hs {
		out[i] = h.String()
	}
	return out
}

func (o op) desc() map[string]interface{} {
	d := map[string]interface{}{"kind": o.kind, "note": o.note}
	switch o.kind {
	case "hash":
		d["index"], d["hash"] = o.i, o.h.String()
	case "flag":
		d["index"], d["flag"] = o.i, o.b
	case "root":
		d["root"] = o.h.String()
	case "rel":
		d["related"] = hexes(o.rel)
	default:
		d["hashes"], d["flags"], d["related"] = hexes(o.hs), o.fs, hexes(o.rel)
	}
	return d
}

// ---- one case --------------------------------------------------------------

type pend struct {
	cost            int
	model, observed string
	desc            interface{}
}

type env struct {
	c          *Ctx
	pending    []pend
	budget     int // remaining model-evaluation budget (estimated hash computations)
	hashesEst  int
	panicsSeen int
}

func sizeBucket(n int) string {
	switch {
	case n == 0:
		return "n=0"
	case n == 1:
		return "n=1"
	case n <= 4:
		return "n=2..4"
	case n <= 8:
		return "n=5..8"
	case n <= 16:
		return "n=9..16"
	case n <= 32:
		return "n=17..32"
	case n <= 64:
		return "n=33..64"
	default:
		return "n>64"
	}
}

func (e *env) freshHash() hash { return mkHash(e.c.Rng.Bytes(32)) }

func flipBit(h hash, rng *Rng) hash {
	b := h.Bytes()
	k := rng.Intn(256)
	b[k/8] ^= 1 << uint(k%8)
	return mkHash(b)
}

// doCase runs the implementation on (ids, rel), applies the oracle to the generated proof and to
// every derived validation, and (if toCoq) writes the case for the model with at most maxOps
// derived validations.  kind names the generator stream.
func (e *env) doCase(kind string, ids, rel []hash, toCoq bool, maxOps int, fullOps bool) {
	c := e.c
	rng := c.Rng
	n := len(ids)
	pos := map[hash]int{}
	distinct := true
	for i, x := range ids {
		if _, dup := pos[x]; dup {
			distinct = false
		}
		pos[x] = i
	}
	// rel: all in ids?  in-order sub-list (strictly increasing positions)?
	allIn, sub := true, true
	last := -1
	for _, x := range rel {
		p, ok := pos[x]
		if !ok {
			allIn, sub = false, false
			continue
		}
		if p <= last {
			sub = false
		}
		last = p
	}
	if !distinct {
		sub = false
	}
	base := map[string]interface{}{"stream": kind, "ids": hexes(ids), "related": hexes(rel)}
	fail := func(what string, o *op) {
		d := map[string]interface{}{}
		for k, v := range base {
			d[k] = v
		}
		if o != nil {
			d["derived"] = o.desc()
		}
		c.Stats.Fail(what, d)
	}

	root, pan := implRoot(ids)
	if pan != "" {
		fail("class=panic: TxMerkleRoot: "+pan, nil)
		return
	}
	ph, pf, pan := implProof(ids, rel)
	if pan != "" {
		fail("class=panic: GetTxMerkleTreeProof: "+pan, nil)
		return
	}
	ok, pan := implValidate(ph, pf, rel, root)
	if pan != "" {
		fail("class=panic: ValidateTxMerkleTreeProof on the generated proof: "+pan, nil)
		return
	}
	c.Stats.Count("stream:" + kind)
	c.Stats.Count(sizeBucket(n))
	switch {
	case !distinct:
		c.Stats.Count("related:ids-with-duplicates")
	case !allIn:
		c.Stats.Count("related:contains-foreign-id")
	case !sub:
		c.Stats.Count("related:not-in-list-order")
	case len(rel) == 0:
		c.Stats.Count("related:empty")
	case len(rel) == n:
		c.Stats.Count("related:all")
	default:
		c.Stats.Count("related:proper-sublist")
	}
	c.Stats.Count(fmt.Sprintf("generated-proof-validates:%v", ok))
	// O1
	if sub && !ok {
		fail(fmt.Sprintf("class=incomplete: generated proof of %d of %d ids does not validate against the transaction root", len(rel), n), nil)
	}
	// O3 on the generated proof
	if !allIn && ok {
		fail("class=unsound: generated proof validates a related id that is not in the list", nil)
	}

	// ---- derived validations
	var ops []op
	add := func(o op) { ops = append(ops, o) }
	var tree *node
	var pool []hash
	if n > 0 && n <= 64 {
		tree = shadow(ids, 0, n)
		tree.all(&pool)
	}
	pool = append(pool, bc.EmptyStringHash, root)
	foreign := e.freshHash()
	foreignLeaf, _ := implRoot([]hash{foreign})
	pool = append(pool, foreignLeaf)
	// positions to tamper: all when small / fullOps, a sample otherwise
	pick := func(m int) []int {
		var out []int
		if m <= 16 || fullOps {
			for i := 0; i < m; i++ {
				out = append(out, i)
			}
			return out
		}
		out = append(out, 0, m-1)
		for k := 0; k < 12; k++ {
			out = append(out, rng.Intn(m))
		}
		return out
	}
	for _, i := range pick(len(ph)) {
		cands := []hash{e.freshHash(), flipBit(ph[i], rng), pool[rng.Intn(len(pool))], ph[rng.Intn(len(ph))], bc.EmptyStringHash}
		notes := []string{"random", "bit-flip", "tree-node", "other-proof-hash", "empty-string-hash"}
		for k, h := range cands {
			if h != ph[i] {
				add(op{kind: "hash", i: i, h: h, note: notes[k]})
			}
		}
	}
	for _, i := range pick(len(pf)) {
		for _, b := range []uint8{0, 1, 2, 3, 255, uint8(4 + rng.Intn(251))} {
			if b != pf[i] {
				add(op{kind: "flag", i: i, b: b, note: "replace"})
			}
		}
	}
	// other roots
	add(op{kind: "root", h: e.freshHash(), note: "random"})
	add(op{kind: "root", h: flipBit(root, rng), note: "bit-flip"})
	if root != bc.EmptyStringHash {
		add(op{kind: "root", h: bc.EmptyStringHash, note: "empty-string-hash"})
	}
	if n >= 2 {
		r2, _ := implRoot(ids[:n-1])
		if r2 != root {
			add(op{kind: "root", h: r2, note: "root-of-prefix"})
		}
		if h := pool[rng.Intn(len(pool))]; h != root {
			add(op{kind: "root", h: h, note: "tree-node"})
		}
	}
	// other related lists against the generated proof
	withForeign := func(at int, replace bool) []hash {
		out := append([]hash{}, rel[:at]...)
		out = append(out, foreign)
		if replace {
			return append(out, rel[at+1:]...)
		}
		return append(out, rel[at:]...)
	}
	add(op{kind: "rel", rel: withForeign(len(rel), false), note: "foreign-appended"})
	add(op{kind: "rel", rel: withForeign(0, false), note: "foreign-prepended"})
	if len(rel) > 0 {
		k := rng.Intn(len(rel))
		add(op{kind: "rel", rel: withForeign(k, true), note: "foreign-replaces-one"})
		add(op{kind: "rel", rel: withForeign(k, false), note: "foreign-inserted"})
		add(op{kind: "rel", rel: append(append([]hash{}, rel[:k]...), rel[k+1:]...), note: "one-dropped"})
		add(op{kind: "rel", rel: append(append([]hash{}, rel...), rel[k]), note: "one-repeated"})
		if len(rel) >= 2 {
			sw := append([]hash{}, rel...)
			j := (k + 1 + rng.Intn(len(rel)-1)) % len(rel)
			sw[k], sw[j] = sw[j], sw[k]
			add(op{kind: "rel", rel: sw, note: "two-swapped"})
		}
	}
	if n > 0 {
		add(op{kind: "rel", rel: append(append([]hash{}, rel...), ids[rng.Intn(n)]), note: "list-member-appended"})
	}
	// arbitrary proofs against the real root
	if len(ph) > 0 {
		add(op{kind: "raw", hs: ph[:len(ph)-1], fs: pf, rel: rel, note: "last-hash-dropped"})
		add(op{kind: "raw", hs: ph, fs: pf[:len(pf)-1], rel: rel, note: "last-flag-dropped"})
		add(op{kind: "raw", hs: ph[1:], fs: pf[1:], rel: rel, note: "first-dropped"})
	}
	add(op{kind: "raw", hs: append(append([]hash{}, ph...), e.freshHash()), fs: append(append([]uint8{}, pf...), uint8(rng.Intn(3))), rel: rel, note: "trailing-extra"})
	if tree != nil {
		inRel := make([]bool, n)
		for _, x := range rel {
			if p, ok := pos[x]; ok {
				inRel[p] = true
			}
		}
		ah, af := tree.alt(rng, inRel, 60)
		add(op{kind: "raw", hs: ah, fs: af, rel: rel, note: "alternative-proof"})
		add(op{kind: "raw", hs: ah, fs: af, rel: withForeign(rng.Intn(len(rel)+1), false), note: "alternative-proof+foreign"})
		// forged leaf: an Assist position turned into a TxLeaf carrying the foreign id's leaf hash
		var assist []int
		hi := 0
		hidx := make([]int, len(af))
		for i, f := range af {
			hidx[i] = hi
			if f == 0 {
				assist = append(assist, i)
			}
			if f != 1 {
				hi++
			}
		}
		if len(assist) > 0 {
			a := assist[rng.Intn(len(assist))]
			fh := append([]hash{}, ah...)
			ff := append([]uint8{}, af...)
			fh[hidx[a]] = foreignLeaf
			ff[a] = 2
			// the foreign id goes where the traversal meets it: after the related ids left of it
			cnt := 0
			for i := 0; i < a; i++ {
				if af[i] == 2 {
					cnt++
				}
			}
			add(op{kind: "raw", hs: fh, fs: ff, rel: withForeign(cnt, false), note: "forged-leaf"})
		}
	}
	// random proof over the tree's own hashes
	{
		m := 1 + rng.Intn(2*n+3)
		var rh []hash
		var rf []uint8
		for i := 0; i < m; i++ {
			f := uint8(rng.Intn(3))
			if rng.Chance(5) {
				f = uint8(rng.Intn(256))
			}
			rf = append(rf, f)
			if rng.Chance(70) {
				rh = append(rh, pool[rng.Intn(len(pool))])
			}
		}
		rr := rel
		if rng.Bool() {
			rr = withForeign(rng.Intn(len(rel)+1), false)
		}
		add(op{kind: "raw", hs: rh, fs: rf, rel: rr, note: "random"})
	}
	add(op{kind: "raw", hs: nil, fs: nil, rel: rel, note: "empty-proof"})
	add(op{kind: "raw", hs: nil, fs: nil, rel: []hash{foreign}, note: "empty-proof+foreign"})

	results := make([]bool, len(ops))
	panicsBefore := e.panicsSeen
	for k := range ops {
		o := &ops[k]
		hs2, fs2, rel2, root2 := o.apply(ph, pf, rel, root)
		res, pan := implValidate(hs2, fs2, rel2, root2)
		if pan != "" {
			fail("class=panic: ValidateTxMerkleTreeProof ("+o.kind+" "+o.note+"): "+pan, o)
			e.panicsSeen++
			continue
		}
		results[k] = res
		c.Stats.Count(fmt.Sprintf("derived:%s:%v", o.kind, res))
		if !res {
			continue
		}
		switch o.kind {
		case "hash":
			if sub {
				fail(fmt.Sprintf("class=tamper-hash-accepted: proof hash %d of %d replaced (%s) and the proof still validates", o.i, len(ph), o.note), o)
			}
		case "flag":
			if sub {
				fail(fmt.Sprintf("class=tamper-flag-accepted: proof flag %d of %d changed from %d to %d and the proof still validates", o.i, len(pf), pf[o.i], o.b), o)
			}
		case "root":
			if ok {
				fail("class=wrong-root-accepted: the generated proof validates against a different root ("+o.note+")", o)
			}
		default:
			for _, x := range rel2 {
				if _, in := pos[x]; !in {
					fail("class=unsound: a proof validates against the transaction root for a related id that is not in the list ("+o.kind+" "+o.note+")", o)
					break
				}
			}
		}
	}
	key := strings.Join(hexes(ids), ",") + "|" + strings.Join(hexes(rel), ",")
	c.Stats.Case(key, n >= 2 && len(rel) > 0)
	if n >= 3 && len(rel) > 0 && sub {
		c.Stats.Sample(map[string]interface{}{"ids": hexes(ids), "related": hexes(rel), "root": root.String(),
			"proof_hashes": hexes(ph), "proof_flags": pf, "validates": ok, "derived_validations": len(ops)})
	}

	// ---- model side
	if !toCoq || e.panicsSeen > panicsBefore { // a panicking case has no observable to compare
		return
	}
	sel := make([]int, 0, len(ops))
	if len(ops) <= maxOps {
		for k := range ops {
			sel = append(sel, k)
		}
	} else {
		// keep every accepted derived validation and a spread over the kinds
		seen := map[int]bool{}
		for k := range ops {
			if results[k] && len(sel) < maxOps/2 {
				sel = append(sel, k)
				seen[k] = true
			}
		}
		for len(sel) < maxOps {
			k := rng.Intn(len(ops))
			if !seen[k] {
				seen[k] = true
				sel = append(sel, k)
			}
		}
	}
	ones := 0
	for _, f := range pf {
		if f == 1 {
			ones++
		}
	}
	cost := 2*(2*n) + len(rel) + ones
	var coqOps, obsRes []string
	for _, k := range sel {
		o := ops[k]
		coqOps = append(coqOps, o.coq())
		obsRes = append(obsRes, "Some "+CoqBool(results[k]))
		cost += ones + 1
		if o.kind == "rel" || o.kind == "raw" {
			cost += len(o.rel) + len(o.fs)/2
		}
	}
	if cost > e.budget {
		c.Stats.Count("model_skipped_over_budget")
		return
	}
	e.budget -= cost
	e.hashesEst += cost
	model := fmt.Sprintf("run_case %s %s %s", coqHashes(ids), coqHashes(rel), CoqList(coqOps))
	observed := fmt.Sprintf("Some (%s, (%s, %s), %s, %s)", coqHash(root), coqHashes(ph), coqFlags(pf), CoqBool(ok), CoqList(obsRes))
	d := map[string]interface{}{"stream": kind, "ids": hexes(ids), "related": hexes(rel)}
	var od []interface{}
	for _, k := range sel {
		od = append(od, ops[k].desc())
	}
	d["derived"] = od
	e.pending = append(e.pending, pend{cost, model, observed, d})
	c.Stats.Count("model_evaluated")
	c.Stats.Count("model_evaluated_derived_validations+" + fmt.Sprint(len(sel)/8*8))
}

// ---- generators --------------------------------------------------------------

func (e *env) ids(n int) []hash {
	out := make([]hash, n)
	seen := map[hash]bool{}
	for i := range out {
		for {
			h := e.freshHash()
			// boundary ids now and then: zero, all ones, the empty-string hash, a small integer
			switch e.c.Rng.Intn(40) {
			case 0:
				h = hash{}
			case 1:
				h = hash{V0: ^uint64(0), V1: ^uint64(0), V2: ^uint64(0), V3: ^uint64(0)}
			case 2:
				h = bc.EmptyStringHash
			case 3:
				h = hash{V3: uint64(e.c.Rng.Intn(4))}
			}
			if !seen[h] {
				seen[h] = true
				out[i] = h
				break
			}
		}
	}
	return out
}

func (e *env) sublist(ids []hash) []hash {
	rng := e.c.Rng
	dens := []int{0, 10, 30, 50, 80, 100}[rng.Intn(6)]
	var rel []hash
	for _, x := range ids {
		if rng.Chance(dens) {
			rel = append(rel, x)
		}
	}
	if dens > 0 && len(rel) == 0 && len(ids) > 0 {
		rel = append(rel, ids[rng.Intn(len(ids))])
	}
	return rel
}

// malformed: inputs outside the property's hypotheses
func (e *env) malformed(k, maxN int) (ids, rel []hash) {
	rng := e.c.Rng
	n := 1 + rng.Intn(maxN)
	ids = e.ids(n)
	rel = e.sublist(ids)
	switch k % 4 {
	case 0: // duplicate id in the list
		ids = append(ids, ids[rng.Intn(n)])
		j := rng.Intn(len(ids))
		ids[j], ids[len(ids)-1] = ids[len(ids)-1], ids[j]
	case 1: // foreign id among the related
		at := rng.Intn(len(rel) + 1)
		rel = append(append(append([]hash{}, rel[:at]...), e.freshHash()), rel[at:]...)
	case 2: // related reversed
		for i, j := 0, len(rel)-1; i < j; i, j = i+1, j-1 {
			rel[i], rel[j] = rel[j], rel[i]
		}
	case 3: // related with a repetition
		if len(rel) > 0 {
			rel = append(rel, rel[rng.Intn(len(rel))])
		}
	}
	return ids, rel
}

func run(c *Ctx) error {
	e := &env{c: c, budget: c.N(7000, 30000)}
	rng := c.Rng

	// (A) cases for the model AND the oracle (budgeted: ~18 ms per hash in Coq): a few long lists
	// first, then the malformed stream, then every size 0..16 (small sizes densely)
	reps := c.N(1, 5)
	bigSizes := []int{64, 33, 32, 17, 63, 48, 31, 24, 20, 19, 18, 40}
	for rep := 0; rep < reps; rep++ {
		for k := 0; k < 4; k++ {
			ids := e.ids(bigSizes[(4*rep+k)%len(bigSizes)])
			e.doCase("structured", ids, e.sublist(ids), true, 3, false)
		}
		// malformed / outside the property's hypotheses: duplicates in the list, related ids that are
		// foreign, repeated or out of order
		for k := 0; k < 12; k++ {
			ids, rel := e.malformed(k, 9)
			e.doCase("malformed", ids, rel, true, 6, false)
		}
		for n := 0; n <= 8; n++ {
			for k := 0; k < 4; k++ {
				ids := e.ids(n)
				e.doCase("structured", ids, e.sublist(ids), true, 8, false)
			}
		}
		for n := 9; n <= 16; n++ {
			ids := e.ids(n)
			e.doCase("structured", ids, e.sublist(ids), true, 6, false)
		}
	}

	// (B) oracle only (the implementation is cheap): all subsets of small lists with every
	// single-element tampering, random lists of 0..64 ids, and a few long lists
	maxAll := c.N(7, 10)
	for n := 0; n <= maxAll; n++ {
		ids := e.ids(n)
		for mask := 0; mask < 1<<uint(n); mask++ {
			var rel []hash
			for i := 0; i < n; i++ {
				if mask>>uint(i)&1 == 1 {
					rel = append(rel, ids[i])
				}
			}
			e.doCase("all-subsets", ids, rel, false, 0, true)
		}
	}
	for k := 0; k < c.N(400, 2500); k++ {
		ids := e.ids(rng.Intn(65))
		e.doCase("random-0..64", ids, e.sublist(ids), false, 0, k%10 == 0)
	}
	for k := 0; k < c.N(120, 1200); k++ {
		ids, rel := e.malformed(k, 40)
		e.doCase("malformed", ids, rel, false, 0, false)
	}
	for _, n := range []int{65, 100, 127, 128, 129, 255, 257, 1000, 1023, 1025, 4097} {
		if n > 300 && !c.Thorough() {
			continue
		}
		ids := e.ids(n)
		e.doCase("long", ids, e.sublist(ids), false, 0, false)
	}
	c.Stats.Exhaustive = false
	c.Stats.Extra["model_hash_computations_estimated"] = e.hashesEst
	// (Z) concurrent use: roots, proofs and validations computed by several goroutines at once must
	// equal the results computed sequentially beforehand (the functions are called from the block
	// validator's worker goroutines and from RPC handlers); verdict is schedule-independent:
	// any divergence or panic is a violation, agreement proves nothing
	{
		type job struct {
			ids, rel []hash
			root     hash
			hs       []hash
			fs       []uint8
		}
		workers, rounds := 8, c.N(40, 200)
		jobs := make([]*job, workers)
		for i := range jobs {
			ids := e.ids(24 + i)
			rel := e.sublist(ids)
			j := &job{ids: ids, rel: rel}
			j.root, _ = implRoot(ids)
			j.hs, j.fs, _ = implProof(ids, rel)
			jobs[i] = j
		}
		errs := make(chan string, workers*rounds)
		done := make(chan struct{}, workers)
		for i := range jobs {
			go func(j *job) {
				defer func() {
					if r := recover(); r != nil {
						errs <- fmt.Sprintf("panic: %v", r)
					}
					done <- struct{}{}
				}()
				for k := 0; k < rounds; k++ {
					if r, pan := implRoot(j.ids); pan != "" || r != j.root {
						errs <- "merkle root differs from the sequential result " + pan
						return
					}
					hs, fs, pan := implProof(j.ids, j.rel)
					if pan != "" || len(hs) != len(j.hs) || len(fs) != len(j.fs) {
						errs <- "generated proof differs from the sequential result " + pan
						return
					}
					for x := range hs {
						if hs[x] != j.hs[x] {
							errs <- "generated proof hash differs from the sequential result"
							return
						}
					}
					if ok, pan := implValidate(j.hs, j.fs, j.rel, j.root); pan != "" || !ok {
						errs <- "a proof that validates sequentially does not validate " + pan
						return
					}
				}
			}(jobs[i])
		}
		for i := 0; i < workers; i++ {
			<-done
		}
		close(errs)
		c.Stats.Count("concurrent-rounds")
		c.Stats.Distribution["concurrent-rounds"] = workers * rounds
		for m := range errs {
			c.Stats.Fail("class=concurrent-divergence: with 8 goroutines using the merkle functions at once: "+m, map[string]interface{}{"workers": workers, "rounds": rounds, "list_sizes": "24..31"})
			break
		}
	}

	c.Stats.Rule = "a case is (list of transaction ids, related list); distinct = distinct (ids, related) pair; non-trivial = at least 2 ids and a non-empty related list. " +
		"For every case the implementation computes the root, generates the proof and validates it, and then validates every derived attempt: " +
		"each proof hash replaced (random, one bit flipped, another tree node, another proof hash, the empty-string hash), each flag replaced (0,1,2,3,255,random), " +
		"other roots, related lists with a foreign id appended/prepended/inserted/replacing, dropped/repeated/swapped related ids, truncated and extended proofs, " +
		"alternative proofs with finer Assist granularity, forged leaves, random proofs. The oracle checks completeness, wrong-root rejection, soundness for foreign ids and single-element tampering on all of them; " +
		"a budgeted sample (all sizes 0..16, some of 17..64, and the malformed stream) is evaluated by the Coq model with real SHA3-256 and compared bit-exactly (root, proof, every validation result)."
	// spread the expensive cases evenly over the shards (they are evaluated in parallel):
	// sort by estimated cost and deal them round-robin
	sort.SliceStable(e.pending, func(i, j int) bool { return e.pending[i].cost > e.pending[j].cost })
	shards := c.N(14, 28)
	per := (len(e.pending) + shards - 1) / shards
	if per < 1 {
		per = 1
	}
	for k := 0; k < shards; k++ {
		for j := 0; j < per; j++ {
			if i := j*shards + k; i < len(e.pending) {
				p := e.pending[i]
				id := c.Cases.Add(p.model, p.observed)
				c.Stats.CaseIndex[fmt.Sprint(id)] = p.desc
			}
		}
	}
	c.Cases.Shard = per
	header := "From Coq Require Import List NArith Bool.\nFrom Verif Require Import Outcome Cmp Sha3.\nFrom C30 Require Import Model Run.\nImport ListNotations.\n"
	return c.Cases.Write(c.Out, header, "obs", "obs_eqb")
}
