package main

// C21 — store caches are transparent (database/cache.go, store.go, store_checkpoint.go).
//
// Each case: a small universe of block identities (hashes; several share a
// height), per identity several header variants (witness and suplinks are not
// committed to by the hash), transaction-list variants and checkpoint
// variants; a real database.Store over a fresh MemDB or LevelDB with chosen
// cache capacities (hook store_verif.go; 0 = unlimited, 1..3 = constant
// eviction, or the production constants through NewStore); and a history of
// SaveBlock / SaveBlockHeader / SaveChainStatus / SaveCheckpoints interleaved
// with GetBlockHeader / BlockExist / GetBlockTransactions / GetBlock /
// GetBlockHashesByHeight / GetMainChainHash / GetCheckpoint /
// GetCheckpointsByHeight / CheckpointsFromNode, biased towards re-saving what
// was just read and re-reading what was just saved.
//
// Direct oracle (implementation only), on every read:
//   - the value returned by the Store equals (canonical serialisation) the
//     value read fresh from the same database: the package-level getters
//     database.GetBlockHeader / GetBlockTransactions / GetBlockHashesByHeight /
//     GetMainChainHash, the uncached checkpoint reader plus the suplinks of the
//     uncached header, and for CheckpointsFromNode a new Store with empty caches;
//   - the same read repeated with no write in between returns the same value;
//   - a read leaves the database byte-for-byte unchanged.
//
// Correspondence: the projected result of every operation against the Coq
// model C21.Run.rc (hash labels = rank of the hash bytes, heights as numbers).
//
// Concurrent stage (conc.go): the same property when the operations overlap.
// The store runs over a gated database; a scheduler makes the interleavings
// (all ordered pairs of operations x every gate position x cache temperature,
// and seeded random mixes of 2-4 goroutines); after everything has returned
// every getter is compared with the fresh read; a panic or an operation that
// never returns is an oracle failure too.  Its cases are also cases of the
// protocol model C21/Conc.v (cases_conc_*.v).

import (
	"bytes"
	"crypto/sha256"
	"encoding/hex"
	"encoding/json"
	"fmt"
	"os"
	"path/filepath"
	"sort"
	"strings"

	"github.com/sirupsen/logrus"

	"github.com/bytom/bytom/database"
	dbm "github.com/bytom/bytom/database/leveldb"
	"github.com/bytom/bytom/protocol/bc"
	"github.com/bytom/bytom/protocol/bc/types"
	"github.com/bytom/bytom/protocol/state"
	. "verifharness/hlib"
)

func main() { Main("C21", runC21, nil) }

const unknownLabel = 1 << 30

// ---- the universe of a case ----------------------------------------------------

type ident struct {
	base  types.BlockHeader // version, height, previous hash, timestamp, commitment: what the hash commits to
	hash  bc.Hash
	label int
}

type hdrVar struct {
	wit int   // 0 = no witness, else first witness byte
	sup []int // suplink labels (SourceHeight)
}

type cpVar struct {
	height uint64
	id     int // identity
	status int
	v      int   // label of the other persisted fields
	sup    []int // in-memory suplinks of the object handed to SaveCheckpoints (not persisted)
	parent bool  // in-memory Parent pointer set (not persisted)
}

type opSpec struct {
	kind   string
	id     int // identity
	height uint64
	hv     hdrVar
	txs    []int
	main   []int // identities (SaveChainStatus)
	cps    []cpVar
}

type genCase struct {
	ids     []*ident
	heights []uint64
	caps    [5]int
	plain   bool // database.NewStore (production capacities)
	backend string
	ops     []opSpec
	hot     int
}

func mkSupLink(s int) *types.SupLink {
	sl := &types.SupLink{SourceHeight: uint64(s), SourceHash: bc.Hash{V0: uint64(s), V3: 7}}
	sl.Signatures[s%len(sl.Signatures)] = []byte{byte(s), 0xee}
	return sl
}

func mkHeader(id *ident, hv hdrVar) *types.BlockHeader {
	h := id.base
	if hv.wit != 0 {
		h.BlockWitness = types.BlockWitness{byte(hv.wit), 0x77}
	}
	for _, s := range hv.sup {
		h.SupLinks = append(h.SupLinks, mkSupLink(s))
	}
	return &h
}

func mkTx(t int) *types.Tx {
	return types.NewTx(types.TxData{
		Version:        1,
		SerializedSize: 1,
		Inputs:         []*types.TxInput{types.NewCoinbaseInput([]byte{byte(t), byte(t >> 8), 0x01})},
		Outputs:        []*types.TxOutput{types.NewOriginalTxOutput(bc.AssetID{V0: 1}, uint64(t), []byte{0x51}, nil)},
	})
}

func mkCheckpoint(g *genCase, cv cpVar) *state.Checkpoint {
	c := &state.Checkpoint{
		Height:     cv.height,
		Hash:       g.ids[cv.id].hash,
		ParentHash: bc.Hash{V1: uint64(cv.v)},
		Timestamp:  uint64(cv.v),
		Status:     state.CheckpointStatus(cv.status),
		Rewards:    map[string]uint64{fmt.Sprintf("r%d", cv.v): uint64(cv.v), "51": 3},
		Votes:      map[string]uint64{"v": uint64(cv.v)},
	}
	for _, s := range cv.sup {
		c.SupLinks = append(c.SupLinks, mkSupLink(s))
	}
	if cv.parent {
		c.Parent = &state.Checkpoint{Height: 1, Timestamp: 99}
	}
	return c
}

var boundaryHeights = []uint64{0, 1, 255, 256, 65535, 65536, 1 << 32, 1<<63 - 1}

func genUniverse(r *Rng, c *Ctx) *genCase {
	g := &genCase{}
	// heights: mostly a few adjacent ones, sometimes byte-order boundaries
	nh := 1 + r.Intn(3)
	if r.Chance(20) {
		for len(g.heights) < nh {
			g.heights = append(g.heights, boundaryHeights[r.Intn(len(boundaryHeights))])
		}
		c.Stats.Count("heights_boundary")
	} else {
		h0 := uint64(1 + r.Intn(300))
		for i := 0; i < nh; i++ {
			g.heights = append(g.heights, h0+uint64(i))
		}
		c.Stats.Count("heights_adjacent")
	}
	ni := 2 + r.Intn(4)
	seen := map[bc.Hash]bool{}
	for len(g.ids) < ni {
		id := &ident{}
		id.base = types.BlockHeader{Version: 1, Height: g.heights[r.Intn(len(g.heights))], Timestamp: 1000 + uint64(r.Intn(1<<20)),
			PreviousBlockHash: bc.Hash{V0: r.Next()}}
		id.base.TransactionsMerkleRoot = bc.Hash{V2: r.Next()}
		id.hash = id.base.Hash()
		if seen[id.hash] {
			continue
		}
		seen[id.hash] = true
		g.ids = append(g.ids, id)
	}
	// labels: rank of the hash bytes (the order of the checkpoint keys)
	order := make([]int, ni)
	for i := range order {
		order[i] = i
	}
	sort.Slice(order, func(a, b int) bool {
		x, y := g.ids[order[a]].hash.Byte32(), g.ids[order[b]].hash.Byte32()
		return bytes.Compare(x[:], y[:]) < 0
	})
	for rank, i := range order {
		g.ids[i].label = rank + 1
	}
	g.hot = r.Intn(ni)
	// cache capacities
	switch x := r.Intn(100); {
	case x < 15:
		g.plain = true
		g.caps = [5]int{2048, 1024, 1024, 1024, 256}
		c.Stats.Count("caps_production")
	case x < 30:
		g.caps = [5]int{0, 0, 0, 0, 0}
		c.Stats.Count("caps_unlimited")
	case x < 55:
		g.caps = [5]int{1, 1, 1, 1, 1}
		c.Stats.Count("caps_all_one")
	default:
		for i := range g.caps {
			g.caps[i] = r.Intn(4)
		}
		c.Stats.Count("caps_mixed_0_to_3")
	}
	if r.Chance(12) {
		g.backend = "leveldb"
	} else {
		g.backend = "memdb"
	}
	return g
}

func (g *genCase) pickID(r *Rng) int {
	if r.Chance(55) {
		return g.hot
	}
	return r.Intn(len(g.ids))
}

// another identity at the same height if there is one (so that re-pointing the height changes its value)
func (g *genCase) otherAtHeight(r *Rng, i int) int {
	var l []int
	for j, id := range g.ids {
		if j != i && id.base.Height == g.ids[i].base.Height {
			l = append(l, j)
		}
	}
	if len(l) == 0 {
		return i
	}
	return l[r.Intn(len(l))]
}

func (g *genCase) pickHeight(r *Rng) uint64 {
	switch x := r.Intn(100); {
	case x < 60:
		return g.ids[g.pickID(r)].base.Height
	case x < 90:
		return g.heights[r.Intn(len(g.heights))]
	default:
		return boundaryHeights[r.Intn(len(boundaryHeights))]
	}
}

func genSup(r *Rng) []int {
	n := 0
	switch x := r.Intn(100); {
	case x < 25:
		n = 0
	case x < 65:
		n = 1
	case x < 90:
		n = 2
	default:
		n = 3 + r.Intn(2)
	}
	var l []int
	for i := 0; i < n; i++ {
		l = append(l, 1+r.Intn(6))
	}
	return l
}

func genHdrVar(r *Rng) hdrVar { return hdrVar{wit: r.Intn(4), sup: genSup(r)} }

func genTxs(r *Rng) []int {
	n := r.Intn(4)
	var l []int
	for i := 0; i < n; i++ {
		l = append(l, 1+r.Intn(9))
	}
	return l
}

func (g *genCase) genCpVar(r *Rng) cpVar {
	id := g.pickID(r)
	cv := cpVar{height: g.ids[id].base.Height, id: id, status: r.Intn(4), v: 1 + r.Intn(5)}
	if r.Chance(8) { // malformed: stored under a height that is not the block's height
		cv.height = g.pickHeight(r)
	}
	if r.Chance(25) {
		cv.sup = genSup(r)
	}
	cv.parent = r.Chance(20)
	return cv
}

func (g *genCase) genOps(r *Rng, c *Ctx) {
	var target int
	switch x := r.Intn(100); {
	case x < 20:
		target = 3 + r.Intn(8)
	case x < 80:
		target = 12 + r.Intn(30)
	default:
		target = 40 + r.Intn(c.N(40, 80))
	}
	push := func(o opSpec) { g.ops = append(g.ops, o) }
	read := func(id int) {
		switch r.Intn(6) {
		case 0:
			push(opSpec{kind: "GetBlockHeader", id: id})
		case 1:
			push(opSpec{kind: "GetCheckpoint", id: id})
		case 2:
			push(opSpec{kind: "GetBlock", id: id})
		case 3:
			push(opSpec{kind: "GetBlockTransactions", id: id})
		case 4:
			push(opSpec{kind: "GetCheckpointsByHeight", height: g.ids[id].base.Height})
		default:
			push(opSpec{kind: "GetBlockHashesByHeight", height: g.ids[id].base.Height})
		}
	}
	// setup phase: most cases start with a few blocks and checkpoints on disk
	if r.Chance(80) {
		for i := range g.ids {
			if r.Chance(70) {
				push(opSpec{kind: "SaveBlock", id: i, hv: genHdrVar(r), txs: genTxs(r)})
				if r.Chance(60) {
					push(opSpec{kind: "SaveCheckpoints", cps: []cpVar{{height: g.ids[i].base.Height, id: i, status: r.Intn(4), v: 1 + r.Intn(5)}}})
				}
			}
		}
	}
	for len(g.ops) < target {
		switch x := r.Intn(100); {
		case x < 6:
			push(opSpec{kind: "SaveBlock", id: g.pickID(r), hv: genHdrVar(r), txs: genTxs(r)})
		case x < 16:
			push(opSpec{kind: "SaveBlockHeader", id: g.pickID(r), hv: genHdrVar(r)})
		case x < 23:
			n := r.Intn(4)
			var l []int
			for i := 0; i < n; i++ {
				l = append(l, r.Intn(len(g.ids)))
			}
			push(opSpec{kind: "SaveChainStatus", main: l})
		case x < 31:
			n := 1 + r.Intn(3)
			if r.Chance(5) {
				n = 0
			}
			var l []cpVar
			for i := 0; i < n; i++ {
				l = append(l, g.genCpVar(r))
			}
			push(opSpec{kind: "SaveCheckpoints", cps: l})
		case x < 41:
			push(opSpec{kind: "GetBlockHeader", id: g.pickID(r)})
		case x < 44:
			push(opSpec{kind: "BlockExist", id: g.pickID(r)})
		case x < 50:
			push(opSpec{kind: "GetBlockTransactions", id: g.pickID(r)})
		case x < 55:
			push(opSpec{kind: "GetBlock", id: g.pickID(r)})
		case x < 61:
			push(opSpec{kind: "GetBlockHashesByHeight", height: g.pickHeight(r)})
		case x < 68:
			push(opSpec{kind: "GetMainChainHash", height: g.pickHeight(r)})
		case x < 80:
			id := g.pickID(r)
			for k := 1 + r.Intn(3); k > 0; k-- { // repeated reads of one checkpoint
				push(opSpec{kind: "GetCheckpoint", id: id})
			}
		case x < 85:
			push(opSpec{kind: "GetCheckpointsByHeight", height: g.pickHeight(r)})
		case x < 89:
			// (only on LevelDB: MemDB's start-bounded iterator is property C20's subject)
			if g.backend == "leveldb" {
				push(opSpec{kind: "CheckpointsFromNode", height: g.pickHeight(r), id: g.pickID(r)})
			} else {
				push(opSpec{kind: "GetCheckpointsByHeight", height: g.pickHeight(r)})
			}
		default:
			// read, overwrite what was read, read again
			id := g.pickID(r)
			switch r.Intn(7) {
			case 5:
				// one SaveChainStatus re-pointing several heights that were all read before
				a1, b1 := r.Intn(len(g.ids)), r.Intn(len(g.ids))
				a2, b2 := g.otherAtHeight(r, a1), g.otherAtHeight(r, b1)
				push(opSpec{kind: "SaveChainStatus", main: []int{a1, b1}})
				push(opSpec{kind: "GetMainChainHash", height: g.ids[a1].base.Height})
				push(opSpec{kind: "GetMainChainHash", height: g.ids[b1].base.Height})
				if r.Bool() {
					push(opSpec{kind: "SaveChainStatus", main: []int{a2, b2}})
				} else {
					push(opSpec{kind: "SaveChainStatus", main: []int{b2, a2, r.Intn(len(g.ids))}})
				}
				push(opSpec{kind: "GetMainChainHash", height: g.ids[a1].base.Height})
				push(opSpec{kind: "GetMainChainHash", height: g.ids[b1].base.Height})
			case 6:
				// one SaveCheckpoints rewriting several checkpoints that were all read before
				a, b := r.Intn(len(g.ids)), r.Intn(len(g.ids))
				for _, x := range []int{a, b} {
					if r.Chance(50) {
						push(opSpec{kind: "SaveBlock", id: x, hv: genHdrVar(r), txs: genTxs(r)})
					}
				}
				mk := func(x int) cpVar {
					return cpVar{height: g.ids[x].base.Height, id: x, status: r.Intn(4), v: 1 + r.Intn(5)}
				}
				push(opSpec{kind: "SaveCheckpoints", cps: []cpVar{mk(a), mk(b)}})
				push(opSpec{kind: "GetCheckpoint", id: a})
				push(opSpec{kind: "GetCheckpoint", id: b})
				push(opSpec{kind: "SaveCheckpoints", cps: []cpVar{mk(a), mk(b)}})
				push(opSpec{kind: "GetCheckpoint", id: a})
				push(opSpec{kind: "GetCheckpoint", id: b})
			case 0:
				push(opSpec{kind: "GetBlockHeader", id: id})
				push(opSpec{kind: "SaveBlockHeader", id: id, hv: genHdrVar(r)})
				read(id)
			case 1:
				push(opSpec{kind: "GetCheckpoint", id: id})
				push(opSpec{kind: "SaveCheckpoints", cps: []cpVar{{height: g.ids[id].base.Height, id: id, status: r.Intn(4), v: 1 + r.Intn(5)}}})
				push(opSpec{kind: "GetCheckpoint", id: id})
			case 2:
				push(opSpec{kind: "GetMainChainHash", height: g.ids[id].base.Height})
				push(opSpec{kind: "SaveChainStatus", main: []int{id}})
				push(opSpec{kind: "GetMainChainHash", height: g.ids[id].base.Height})
			case 3:
				push(opSpec{kind: "GetBlock", id: id})
				push(opSpec{kind: "SaveBlock", id: id, hv: genHdrVar(r), txs: genTxs(r)})
				read(id)
			default:
				push(opSpec{kind: "GetCheckpoint", id: id})
				push(opSpec{kind: "SaveBlockHeader", id: id, hv: genHdrVar(r)})
				push(opSpec{kind: "GetCheckpoint", id: id})
			}
		}
	}
}

// ---- canonical values (oracle) and projections (model) ---------------------------

func canonSup(l []*types.SupLink) string {
	var sb strings.Builder
	for _, s := range l {
		if s == nil {
			sb.WriteString("<nil>;")
			continue
		}
		fmt.Fprintf(&sb, "%d/%s/", s.SourceHeight, s.SourceHash.String())
		for _, sig := range s.Signatures {
			sb.WriteString(hex.EncodeToString(sig) + ",")
		}
		sb.WriteString(";")
	}
	return sb.String()
}

func canonHeader(h *types.BlockHeader, err error) string {
	if err != nil {
		return "ERR"
	}
	if h == nil {
		return "NIL"
	}
	b, e := h.MarshalText()
	if e != nil {
		return "UNMARSHALABLE"
	}
	return string(b)
}

func canonTxs(l []*types.Tx, err error) string {
	if err != nil {
		return "ERR"
	}
	var sb strings.Builder
	fmt.Fprintf(&sb, "%d:", len(l))
	for _, t := range l {
		b, e := t.MarshalText()
		if e != nil {
			return "UNMARSHALABLE"
		}
		sb.Write(b)
		sb.WriteString(";")
	}
	return sb.String()
}

func canonHashes(l []*bc.Hash, err error) string {
	if err != nil {
		return "ERR"
	}
	var sb strings.Builder
	for _, h := range l {
		if h == nil {
			sb.WriteString("<nil>;")
			continue
		}
		sb.WriteString(h.String() + ";")
	}
	return sb.String()
}

func canonHash(h *bc.Hash, err error) string {
	if err != nil {
		return "ERR"
	}
	if h == nil {
		return "NIL"
	}
	return h.String()
}

func canonCp(c *state.Checkpoint) string {
	if c == nil {
		return "NIL"
	}
	b, _ := json.Marshal(c) // persisted fields; maps are written in key order
	return string(b) + "|" + canonSup(c.SupLinks)
}

func canonCps(l []*state.Checkpoint, err error) string {
	if err != nil {
		return "ERR"
	}
	var sb strings.Builder
	for _, c := range l {
		sb.WriteString(canonCp(c) + "\n")
	}
	return sb.String()
}

// reading fresh from the database, without any Store
func refCheckpoint(db dbm.DB, h *bc.Hash) (*state.Checkpoint, error) {
	hd, err := database.GetBlockHeader(db, h)
	if err != nil {
		return nil, err
	}
	cp, err := database.VerifCheckpointFromDB(db, database.VerifCheckpointKey(hd.Height, h))
	if err != nil {
		return nil, err
	}
	cp.SupLinks = append(cp.SupLinks, hd.SupLinks...)
	return cp, nil
}

func refCheckpointsByHeight(db dbm.DB, height uint64) ([]*state.Checkpoint, error) {
	it := db.IteratorPrefix(database.VerifCheckpointKey(height, nil))
	defer it.Release()
	var out []*state.Checkpoint
	for it.Next() {
		cp := &state.Checkpoint{}
		if err := json.Unmarshal(it.Value(), cp); err != nil {
			return nil, err
		}
		hd, err := database.GetBlockHeader(db, &cp.Hash)
		if err != nil {
			return nil, err
		}
		cp.SupLinks = append(cp.SupLinks, hd.SupLinks...)
		out = append(out, cp)
	}
	return out, nil
}

func dumpDB(db dbm.DB) string {
	it := db.Iterator()
	defer it.Release()
	var sb strings.Builder
	for it.Next() {
		sb.WriteString(hex.EncodeToString(it.Key()) + "=" + hex.EncodeToString(it.Value()) + "\n")
	}
	return sb.String()
}

func nlist(l []int) string {
	if len(l) == 0 {
		return "[]"
	}
	s := make([]string, len(l))
	for i, x := range l {
		s[i] = fmt.Sprint(x)
	}
	return "[" + strings.Join(s, "; ") + "]"
}

func ulist(l []uint64) string {
	if len(l) == 0 {
		return "[]"
	}
	s := make([]string, len(l))
	for i, x := range l {
		s[i] = fmt.Sprint(x)
	}
	return "[" + strings.Join(s, "; ") + "]"
}

func (g *genCase) labelOf(h bc.Hash) uint64 {
	for _, id := range g.ids {
		if id.hash == h {
			return uint64(id.label)
		}
	}
	return unknownLabel
}

func supLabels(l []*types.SupLink) []uint64 {
	var out []uint64
	for _, s := range l {
		if s == nil {
			out = append(out, unknownLabel)
			continue
		}
		out = append(out, s.SourceHeight)
	}
	return out
}

func witLabel(w types.BlockWitness) uint64 {
	if len(w) == 0 {
		return 0
	}
	return uint64(w[0])
}

func txLabels(l []*types.Tx) []uint64 {
	var out []uint64
	for _, t := range l {
		if t == nil || len(t.Outputs) == 0 {
			out = append(out, unknownLabel)
			continue
		}
		out = append(out, t.Outputs[0].Amount)
	}
	return out
}

func (g *genCase) obsCpFields(c *state.Checkpoint) string {
	return fmt.Sprintf("[%d; %d; %d; %d]; %s", c.Height, g.labelOf(c.Hash), uint8(c.Status), c.Timestamp, ulist(supLabels(c.SupLinks)))
}

const obsErr = "[[0]]"
const obsUnit = "[[1]]"

// ---- running one case -----------------------------------------------------------------

type caseResult struct {
	obs      []string
	failed   string
	failedAt int
	events   map[string]bool
}

func (g *genCase) describe(upto int) map[string]interface{} {
	var ids []string
	for i, id := range g.ids {
		ids = append(ids, fmt.Sprintf("%d: label=%d height=%d hash=%s", i, id.label, id.base.Height, id.hash.String()))
	}
	var ops []string
	for k, o := range g.ops {
		if k >= upto {
			break
		}
		ops = append(ops, g.opString(o))
	}
	return map[string]interface{}{"backend": g.backend, "caps_headers_txs_hashes_main_checkpoints": g.caps,
		"production_store": g.plain, "identities": ids, "ops": ops}
}

func (g *genCase) opString(o opSpec) string {
	switch o.kind {
	case "SaveBlock":
		return fmt.Sprintf("SaveBlock(id %d, witness %d, suplinks %v, txs %v)", o.id, o.hv.wit, o.hv.sup, o.txs)
	case "SaveBlockHeader":
		return fmt.Sprintf("SaveBlockHeader(id %d, witness %d, suplinks %v)", o.id, o.hv.wit, o.hv.sup)
	case "SaveChainStatus":
		return fmt.Sprintf("SaveChainStatus(main ids %v)", o.main)
	case "SaveCheckpoints":
		var l []string
		for _, c := range o.cps {
			l = append(l, fmt.Sprintf("{height %d id %d status %d var %d memsup %v parent %v}", c.height, c.id, c.status, c.v, c.sup, c.parent))
		}
		return "SaveCheckpoints(" + strings.Join(l, ", ") + ")"
	case "GetBlockHashesByHeight", "GetMainChainHash", "GetCheckpointsByHeight":
		return fmt.Sprintf("%s(%d)", o.kind, o.height)
	case "CheckpointsFromNode":
		return fmt.Sprintf("CheckpointsFromNode(%d, id %d)", o.height, o.id)
	}
	return fmt.Sprintf("%s(id %d)", o.kind, o.id)
}

func (g *genCase) modelOp(o opSpec) string {
	switch o.kind {
	case "SaveBlock":
		return fmt.Sprintf("SB %d %d %d %s %s", g.ids[o.id].label, g.ids[o.id].base.Height, o.hv.wit, nlist(o.hv.sup), nlist(o.txs))
	case "SaveBlockHeader":
		return fmt.Sprintf("SH %d %d %d %s", g.ids[o.id].label, g.ids[o.id].base.Height, o.hv.wit, nlist(o.hv.sup))
	case "SaveChainStatus":
		var l []string
		for _, i := range o.main {
			l = append(l, fmt.Sprintf("(%d, %d)", g.ids[i].base.Height, g.ids[i].label))
		}
		return "SC " + CoqList(l)
	case "SaveCheckpoints":
		var l []string
		for _, c := range o.cps {
			l = append(l, fmt.Sprintf("CP %d %d %d %d %s", c.height, g.ids[c.id].label, c.status, c.v, nlist(c.sup)))
		}
		return "SP " + CoqList(l)
	case "GetBlockHeader":
		return fmt.Sprintf("GH %d", g.ids[o.id].label)
	case "BlockExist":
		return fmt.Sprintf("BE %d", g.ids[o.id].label)
	case "GetBlockTransactions":
		return fmt.Sprintf("GT %d", g.ids[o.id].label)
	case "GetBlock":
		return fmt.Sprintf("GB %d", g.ids[o.id].label)
	case "GetBlockHashesByHeight":
		return fmt.Sprintf("GS %d", o.height)
	case "GetMainChainHash":
		return fmt.Sprintf("GM %d", o.height)
	case "GetCheckpoint":
		return fmt.Sprintf("GC %d", g.ids[o.id].label)
	case "GetCheckpointsByHeight":
		return fmt.Sprintf("GL %d", o.height)
	case "CheckpointsFromNode":
		return fmt.Sprintf("GF %d %d", o.height, g.ids[o.id].label)
	}
	panic("unknown op " + o.kind)
}

func isWrite(kind string) bool { return strings.HasPrefix(kind, "Save") }

func runCase(c *Ctx, g *genCase, caseNo int) (res caseResult) {
	res.events = map[string]bool{}
	res.failedAt = -1
	var db dbm.DB
	if g.backend == "leveldb" {
		dir := filepath.Join(c.Out, fmt.Sprintf("ldb-%d", caseNo))
		os.RemoveAll(dir)
		db = dbm.NewDB("c21", "leveldb", dir)
		defer func() {
			db.Close()
			os.RemoveAll(dir)
		}()
	} else {
		db = dbm.NewMemDB()
	}
	var s *database.Store
	if g.plain {
		s = database.NewStore(db)
	} else {
		s = database.VerifNewStore(db, g.caps[0], g.caps[1], g.caps[2], g.caps[3], g.caps[4])
	}
	fail := func(k int, what string) {
		if res.failed == "" {
			res.failed = what
			res.failedAt = k
		}
	}
	lastRead := map[string]string{} // op -> canonical value, since the last write
	readIDs := map[string]bool{}    // what has been read successfully so far (input-distribution events)
	for k, o := range g.ops {
		c.Stats.Count("op_" + o.kind)
		var h bc.Hash
		if o.id < len(g.ids) {
			h = g.ids[o.id].hash
		}
		key := g.opString(o)
		var got, want, obs string
		var before string
		if !isWrite(o.kind) {
			before = dumpDB(db)
		}
		panicked := func() (p interface{}) {
			defer func() { p = recover() }()
			switch o.kind {
			case "SaveBlock":
				b := &types.Block{BlockHeader: *mkHeader(g.ids[o.id], o.hv)}
				for _, t := range o.txs {
					b.Transactions = append(b.Transactions, mkTx(t))
				}
				if readIDs[fmt.Sprintf("hdr-%d", o.id)] || readIDs[fmt.Sprintf("txs-%d", o.id)] {
					res.events["ev_saveblock_over_previously_read_block"] = true
				}
				if err := s.SaveBlock(b); err != nil {
					obs = obsErr
				} else {
					obs = obsUnit
				}
			case "SaveBlockHeader":
				if readIDs[fmt.Sprintf("hdr-%d", o.id)] {
					res.events["ev_saveheader_of_previously_read_header"] = true
				}
				if err := s.SaveBlockHeader(mkHeader(g.ids[o.id], o.hv)); err != nil {
					obs = obsErr
				} else {
					obs = obsUnit
				}
			case "SaveChainStatus":
				var l []*types.BlockHeader
				for _, i := range o.main {
					l = append(l, mkHeader(g.ids[i], hdrVar{}))
					if readIDs[fmt.Sprintf("main-%d", g.ids[i].base.Height)] {
						res.events["ev_repoint_of_previously_read_height"] = true
					}
				}
				best := mkHeader(g.ids[0], hdrVar{})
				if err := s.SaveChainStatus(best, l, state.NewUtxoViewpoint(), state.NewContractViewpoint(), 0, &bc.Hash{}); err != nil {
					obs = obsErr
				} else {
					obs = obsUnit
				}
			case "SaveCheckpoints":
				var l []*state.Checkpoint
				for _, cv := range o.cps {
					l = append(l, mkCheckpoint(g, cv))
					if readIDs[fmt.Sprintf("cp-%d", cv.id)] {
						res.events["ev_savecheckpoint_of_previously_read_checkpoint"] = true
					}
				}
				if err := s.SaveCheckpoints(l); err != nil {
					obs = obsErr
				} else {
					obs = obsUnit
				}
			case "GetBlockHeader":
				hd, err := s.GetBlockHeader(&h)
				got = canonHeader(hd, err)
				want = canonHeader(database.GetBlockHeader(db, &h))
				if err != nil {
					obs = obsErr
				} else {
					readIDs[fmt.Sprintf("hdr-%d", o.id)] = true
					obs = fmt.Sprintf("[[2; %d; %d]; %s]", hd.Height, witLabel(hd.BlockWitness), ulist(supLabels(hd.SupLinks)))
					if hh := hd.Hash(); hh != h {
						fail(k, fmt.Sprintf("class=wrong-block: GetBlockHeader(%s) returned the header of %s", h.String(), hh.String()))
					}
				}
			case "BlockExist":
				ok := s.BlockExist(&h)
				_, err := database.GetBlockHeader(db, &h)
				got, want = fmt.Sprint(ok), fmt.Sprint(err == nil)
				if ok {
					obs = "[[9; 1]]"
				} else {
					obs = "[[9; 0]]"
				}
			case "GetBlockTransactions":
				txs, err := s.GetBlockTransactions(&h)
				got = canonTxs(txs, err)
				want = canonTxs(database.GetBlockTransactions(db, &h))
				if err != nil {
					obs = obsErr
				} else {
					readIDs[fmt.Sprintf("txs-%d", o.id)] = true
					obs = fmt.Sprintf("[[3]; %s]", ulist(txLabels(txs)))
				}
			case "GetBlock":
				b, err := s.GetBlock(&h)
				rh, e1 := database.GetBlockHeader(db, &h)
				rt, e2 := database.GetBlockTransactions(db, &h)
				if e1 != nil || e2 != nil {
					want = "ERR"
				} else {
					want = canonHeader(rh, nil) + "#" + canonTxs(rt, nil)
				}
				if err != nil {
					got = "ERR"
					obs = obsErr
				} else {
					got = canonHeader(&b.BlockHeader, nil) + "#" + canonTxs(b.Transactions, nil)
					readIDs[fmt.Sprintf("hdr-%d", o.id)] = true
					readIDs[fmt.Sprintf("txs-%d", o.id)] = true
					obs = fmt.Sprintf("[[8; %d; %d]; %s; %s]", b.Height, witLabel(b.BlockWitness), ulist(supLabels(b.SupLinks)), ulist(txLabels(b.Transactions)))
				}
			case "GetBlockHashesByHeight":
				hs, err := s.GetBlockHashesByHeight(o.height)
				got = canonHashes(hs, err)
				want = canonHashes(database.GetBlockHashesByHeight(db, o.height))
				if err != nil {
					obs = obsErr
				} else {
					var l []uint64
					for _, x := range hs {
						if x == nil {
							l = append(l, unknownLabel)
						} else {
							l = append(l, g.labelOf(*x))
						}
					}
					obs = fmt.Sprintf("[[4]; %s]", ulist(l))
				}
			case "GetMainChainHash":
				mh, err := s.GetMainChainHash(o.height)
				got = canonHash(mh, err)
				want = canonHash(database.GetMainChainHash(db, o.height))
				if err != nil {
					obs = obsErr
				} else {
					readIDs[fmt.Sprintf("main-%d", o.height)] = true
					obs = fmt.Sprintf("[[5; %d]]", g.labelOf(*mh))
				}
			case "GetCheckpoint":
				cp, err := s.GetCheckpoint(&h)
				if err != nil {
					got = "ERR"
					obs = obsErr
				} else {
					got = canonCp(cp)
					if readIDs[fmt.Sprintf("cp-%d", o.id)] {
						res.events["ev_checkpoint_read_again"] = true
					}
					readIDs[fmt.Sprintf("cp-%d", o.id)] = true
					readIDs[fmt.Sprintf("hdr-%d", o.id)] = true
					obs = fmt.Sprintf("[[6; %d; %d; %d; %d]; %s]", cp.Height, g.labelOf(cp.Hash), uint8(cp.Status), cp.Timestamp, ulist(supLabels(cp.SupLinks)))
				}
				if rc, rerr := refCheckpoint(db, &h); rerr != nil {
					want = "ERR"
				} else {
					want = canonCp(rc)
				}
			case "GetCheckpointsByHeight":
				cps, err := s.GetCheckpointsByHeight(o.height)
				got = canonCps(cps, err)
				want = canonCps(refCheckpointsByHeight(db, o.height))
				if err != nil {
					obs = obsErr
				} else {
					l := []string{"[7]"}
					for _, cp := range cps {
						l = append(l, g.obsCpFields(cp))
					}
					obs = CoqList(l)
				}
			case "CheckpointsFromNode":
				cps, err := s.CheckpointsFromNode(o.height, &h)
				got = canonCps(cps, err)
				want = canonCps(database.NewStore(db).CheckpointsFromNode(o.height, &h)) // a store with empty caches
				if err != nil {
					obs = obsErr
				} else {
					l := []string{"[7]"}
					for _, cp := range cps {
						l = append(l, g.obsCpFields(cp))
					}
					obs = CoqList(l)
				}
			}
			return nil
		}()
		if panicked != nil {
			fail(k, fmt.Sprintf("class=panic: %s panicked: %v", key, panicked))
			res.obs = append(res.obs, "[[99]]")
			break
		}
		res.obs = append(res.obs, obs)
		if isWrite(o.kind) {
			lastRead = map[string]string{}
			continue
		}
		if got == "ERR" {
			c.Stats.Count("read_err_" + o.kind)
		} else {
			c.Stats.Count("read_ok_" + o.kind)
		}
		// the property, on the implementation's outputs only
		if got != want {
			fail(k, fmt.Sprintf("class=stale-or-altered-read: %s through the store differs from the value read fresh from the database (operation %d; store: %.300s | fresh: %.300s)", o.kind, k, got, want))
		}
		if prev, ok := lastRead[key]; ok {
			res.events["ev_same_read_repeated_without_write"] = true
			if prev != got {
				fail(k, fmt.Sprintf("class=read-not-idempotent: %s repeated with no write in between returned a different value (operation %d; before: %.300s | now: %.300s)", o.kind, k, prev, got))
			}
		}
		lastRead[key] = got
		if after := dumpDB(db); after != before {
			fail(k, fmt.Sprintf("class=read-wrote-database: %s changed the database (operation %d)", o.kind, k))
		}
		if !g.plain {
			lens := s.VerifCacheLens()
			for i, n := range lens {
				if g.caps[i] != 0 && n == g.caps[i] {
					res.events[fmt.Sprintf("ev_cache_%d_at_capacity", i)] = true
				}
				if g.caps[i] != 0 && n > g.caps[i] {
					res.events["ev_cache_over_capacity"] = true
				}
			}
		}
	}
	return res
}

func sizeClass(n int) string {
	switch {
	case n <= 10:
		return "le10"
	case n <= 25:
		return "11-25"
	case n <= 45:
		return "26-45"
	default:
		return "gt45"
	}
}

func runC21(c *Ctx) error {
	logrus.SetLevel(logrus.PanicLevel) // the store logs every save
	c.Stats.Rule = "a case counts as non-trivial when a block header, main-chain height or checkpoint that had been read through the store was overwritten later in the same history, or one checkpoint was read more than once; distinct by the full case (universe, capacities, history); a case of the concurrent stage counts as non-trivial when a database call on a key ran while another goroutine was inside a database call on the same key, or an operation had to wait inside the store for another one (singleflight); distinct by operations, cache temperature and schedule"
	c.Cases.Shard = 150
	n := c.N(900, 6000)
	if os.Getenv("C21_STAGE") == "conc" { // development aid: only the concurrent stage
		n = 0
	}
	for i := 0; i < n; i++ {
		g := genUniverse(c.Rng, c)
		g.genOps(c.Rng, c)
		res := runCase(c, g, i)
		ops := make([]string, 0, len(g.ops))
		for k, o := range g.ops {
			if k >= len(res.obs) {
				break
			}
			ops = append(ops, g.modelOp(o))
		}
		caps := make([]int, 5)
		copy(caps, g.caps[:])
		model := fmt.Sprintf("rc %s%%N %s%%N", nlist(caps), CoqList(ops))
		observed := CoqList(res.obs) + "%N"
		id := c.Cases.Add(model, observed)
		c.Stats.Count("model_evaluated")
		if res.failed != "" {
			desc := g.describe(res.failedAt + 1)
			desc["failed_at_op"] = res.failedAt
			desc["case"] = id
			c.Stats.Fail(res.failed, desc)
			c.Stats.Count("oracle_failure")
		}
		nontrivial := false
		for e := range res.events {
			c.Stats.Count(e)
			if strings.HasPrefix(e, "ev_save") || e == "ev_repoint_of_previously_read_height" || e == "ev_checkpoint_read_again" {
				nontrivial = true
			}
		}
		hsum := sha256.Sum256([]byte(model))
		c.Stats.Case(hex.EncodeToString(hsum[:8]), nontrivial)
		c.Stats.Count("backend_" + g.backend)
		c.Stats.Count("ops_len_" + sizeClass(len(g.ops)))
		c.Stats.Count(fmt.Sprintf("identities_%d", len(g.ids)))
		c.Stats.Count(fmt.Sprintf("heights_%d", len(g.heights)))
		if i < 3 {
			d := g.describe(12)
			d["results_projected"] = res.obs[:min(len(res.obs), 12)]
			c.Stats.Sample(d)
		}
	}
	runConcurrentStage(c)
	header := "From Coq Require Import List NArith Bool.\nFrom Verif Require Import Cmp.\nFrom C21 Require Import Model Run.\nImport ListNotations."
	if err := c.Cases.Write(c.Out, header, "cres", "cres_eqb"); err != nil {
		return err
	}
	concHeader := "From Coq Require Import List NArith Bool.\nFrom C21 Require Import Conc.\nImport ListNotations.\nLocal Open Scope N_scope."
	return concCases.WriteNamed(c.Out, "conc", concHeader, "list N", "nlist_eqb")
}

func min(a, b int) int {
	if a < b {
		return a
	}
	return b
}
