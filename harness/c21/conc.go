package main

// C21, concurrent stage: the store caches stay transparent under concurrent use.
//
// The property, stated on the implementation's outputs only: after ANY mix of
// reads and writes through one database.Store has finished -- the operations
// may overlap in any way -- every read through the store (GetBlockHeader,
// BlockExist, GetBlockTransactions, GetBlock, GetBlockHashesByHeight,
// GetMainChainHash, GetCheckpoint, GetCheckpointsByHeight) returns exactly
// what a fresh, uncached read of the same database returns, a read repeated
// returns the same value, and no call panics or never returns.  While only
// reads overlap (no write in flight) every one of them must already return the
// fresh value.
//
// Interleavings are made, not hoped for: the dbm.DB handed to
// database.NewStore is a gateDB.  Every database call of an operation that runs
// in a registered goroutine (an "actor") stops at two gates -- before the
// underlying call and after it, still inside db.Get / db.Set / batch.Write /
// iterator creation / iterator Value -- and at a gate in front of every store
// operation.  A scheduler releases exactly one actor at a time and waits until
// every actor is parked at a gate, finished, or blocked on a lock / WaitGroup
// (read off the runtime's goroutine states: an actor that joined another
// actor's singleflight call is "blocked", not lost).  A schedule is therefore a
// sequence of actor numbers; the segments between two gates (cache lookups,
// cache Add / Remove, singleflight bookkeeping) are the atomic steps.
//
// Streams:
//   pair    for every ordered pair (X, Y) of store operations on one block /
//           one height (8 readers, 7 writers), every gate position p of X and
//           four cache temperatures: X runs up to its p-th gate, Y runs until it
//           finishes or blocks on X, X finishes, Y finishes.  With X, Y both
//           readers this is "a second uncached read of a related key starts while
//           the first is inside db.Get" for every pair in both orders; with X a
//           writer, "a read of K runs between any two steps of a writer of K";
//           with X a reader and Y a writer, "a write completes while a read is
//           in flight"; with both writers, overlapping saves.
//   mix     seeded random universes, histories and capacities; 2-4 actors with
//           1-3 operations each; the schedule is drawn from the case PRNG.
//
// A failing case carries its full replay: universe, set-up, the operations of
// every actor and the schedule as the list of gates in the order they were
// passed.

import (
	"bytes"
	"encoding/binary"
	"encoding/hex"
	"fmt"
	"runtime"
	"sort"
	"strconv"
	"strings"
	"sync"
	"sync/atomic"
	"time"

	"github.com/bytom/bytom/database"
	dbm "github.com/bytom/bytom/database/leveldb"
	"github.com/bytom/bytom/protocol/bc"
	"github.com/bytom/bytom/protocol/bc/types"
	"github.com/bytom/bytom/protocol/state"
	. "verifharness/hlib"
)

// ---- goroutine identity and states (runtime.Stack is the only portable source) ----

func goid() int64 {
	var buf [64]byte
	n := runtime.Stack(buf[:], false)
	// "goroutine 123 [running]:"
	f := bytes.Fields(buf[:n])
	if len(f) < 2 {
		return -1
	}
	id, _ := strconv.ParseInt(string(f[1]), 10, 64)
	return id
}

// goroutineStates: id -> state text of every goroutine ("running", "semacquire", "sync.WaitGroup.Wait", "chan receive" ...)
func goroutineStates() map[int64]string {
	buf := make([]byte, 1<<16)
	for {
		n := runtime.Stack(buf, true)
		if n < len(buf) {
			buf = buf[:n]
			break
		}
		buf = make([]byte, 2*len(buf))
	}
	out := map[int64]string{}
	for _, blk := range bytes.Split(buf, []byte("\n\n")) {
		if !bytes.HasPrefix(blk, []byte("goroutine ")) {
			continue
		}
		line := blk
		if i := bytes.IndexByte(blk, '\n'); i >= 0 {
			line = blk[:i]
		}
		rest := line[len("goroutine "):]
		sp := bytes.IndexByte(rest, ' ')
		lb := bytes.IndexByte(rest, '[')
		rb := bytes.LastIndexByte(rest, ']')
		if sp < 0 || lb < 0 || rb < lb {
			continue
		}
		id, err := strconv.ParseInt(string(rest[:sp]), 10, 64)
		if err != nil {
			continue
		}
		st := string(rest[lb+1 : rb])
		if i := strings.IndexByte(st, ','); i >= 0 { // "semacquire, 2 minutes"
			st = st[:i]
		}
		out[id] = st
	}
	return out
}

// a goroutine in one of these states waits for another goroutine (mutex, RWMutex, WaitGroup, Cond)
func isSyncWait(st string) bool {
	return strings.HasPrefix(st, "sync.") || strings.HasPrefix(st, "semacquire")
}

// ---- scheduler ---------------------------------------------------------------------

const (
	aRunning = iota
	aParked
	aBlocked
	aDone
)

type dbEvent struct {
	actor   int
	op      int
	kind    string
	write   bool
	keys    []string // raw key bytes
	vals    []string // writes: the bytes written per key (deleted = absentValue)
	execSeq int64    // position of the underlying database call in the total order of the case (0 = not executed)
	relSeq  int64    // when the actor left the gate behind the call (0 = never)
}

type actor struct {
	idx     int
	ops     []opSpec
	goid    int64
	resume  chan struct{}
	state   int
	at      string
	cur     int32 // operation in progress
	results []string
	panicAt int
	panicV  string
	steps   int
}

type schedEvent struct {
	actor int
	done  bool
	at    string
}

type sched struct {
	g        *genCase
	actors   []*actor
	mu       sync.Mutex
	byGoid   map[int64]*actor
	ev       chan schedEvent
	seq      int64
	dbEvents []*dbEvent
	trace    []string
	picks    []int
	sawJoin  bool // an actor was blocked on another actor (singleflight join, lock)
	wedged   string
}

func (sc *sched) current() *actor {
	id := goid()
	sc.mu.Lock()
	a := sc.byGoid[id]
	sc.mu.Unlock()
	return a
}

// park: called by the actor's goroutine.
func (sc *sched) park(a *actor, at string) {
	sc.ev <- schedEvent{actor: a.idx, at: at}
	<-a.resume
}

func (sc *sched) apply(e schedEvent) {
	a := sc.actors[e.actor]
	if e.done {
		a.state = aDone
		sc.trace = append(sc.trace, fmt.Sprintf("actor %d finished", a.idx))
		return
	}
	a.state = aParked
	a.at = e.at
	sc.trace = append(sc.trace, fmt.Sprintf("actor %d at gate: %s", a.idx, e.at))
}

// settle waits until every actor is parked, finished or blocked on another goroutine.
func (sc *sched) settle() bool {
	deadline := time.Now().Add(20 * time.Second)
	waitCount := map[int]int{}
	for {
		for drained := false; !drained; {
			select {
			case e := <-sc.ev:
				sc.apply(e)
			default:
				drained = true
			}
		}
		var pending []*actor
		for _, a := range sc.actors {
			if a.state == aRunning || (a.state == aBlocked && waitCount[a.idx] < 2) {
				pending = append(pending, a)
			}
		}
		if len(pending) == 0 {
			return true
		}
		// the usual case: the running actor reaches its next gate within microseconds
		got := false
		for spin := 0; spin < 200 && !got; spin++ {
			select {
			case e := <-sc.ev:
				sc.apply(e)
				got = true
			default:
				runtime.Gosched()
			}
		}
		if got {
			continue
		}
		states := goroutineStates()
		for _, a := range pending {
			st, ok := states[a.goid]
			if ok && isSyncWait(st) {
				waitCount[a.idx]++
				if waitCount[a.idx] >= 2 {
					if a.state != aBlocked {
						sc.trace = append(sc.trace, fmt.Sprintf("actor %d blocked inside the store (%s): waits for another operation", a.idx, st))
					}
					a.state = aBlocked
					sc.sawJoin = true
				}
			} else {
				if a.state == aBlocked {
					a.state = aRunning
				}
				waitCount[a.idx] = 0
			}
		}
		if time.Now().After(deadline) {
			var l []string
			for _, a := range pending {
				l = append(l, fmt.Sprintf("actor %d: %s", a.idx, states[a.goid]))
			}
			sc.wedged = strings.Join(l, "; ")
			return false
		}
		time.Sleep(20 * time.Microsecond)
	}
}

// step releases one parked actor and waits for the system to settle.
func (sc *sched) step(i int) bool {
	a := sc.actors[i]
	if a.state != aParked {
		return false
	}
	sc.picks = append(sc.picks, i)
	a.steps++
	a.state = aRunning
	for _, b := range sc.actors { // a blocked actor may be woken by this step: look again
		if b.state == aBlocked {
			b.state = aRunning
		}
	}
	a.resume <- struct{}{}
	return sc.settle()
}

// confirmStuck: nobody is parked and not everybody has returned.  Look long enough to be sure that
// the remaining actors wait for a lock / WaitGroup that no one is going to release (a loaded machine
// can keep a goroutine off the CPU for a while: two samples are not enough to call it a hang).
func (sc *sched) confirmStuck() bool {
	for round := 0; round < 40; round++ {
		time.Sleep(2 * time.Millisecond)
		select {
		case e := <-sc.ev:
			sc.apply(e)
			sc.settle()
			return false
		default:
		}
		states := goroutineStates()
		for _, a := range sc.actors {
			if a.state == aDone || a.state == aParked {
				continue
			}
			if st, ok := states[a.goid]; !ok || !isSyncWait(st) {
				sc.settle()
				return false
			}
		}
	}
	return true
}

func (sc *sched) parked() []int {
	var l []int
	for _, a := range sc.actors {
		if a.state == aParked {
			l = append(l, a.idx)
		}
	}
	return l
}

func (sc *sched) allDone() bool {
	for _, a := range sc.actors {
		if a.state != aDone {
			return false
		}
	}
	return true
}

// finish: run everything to completion, preferring the given order.
func (sc *sched) finish(order []int) {
	for {
		progressed := false
		for _, i := range order {
			if sc.actors[i].state == aParked {
				if !sc.step(i) {
					return
				}
				progressed = true
				break
			}
		}
		if !progressed {
			return
		}
	}
}

// ---- the gated database ------------------------------------------------------------

type gateDB struct {
	inner dbm.DB
	sc    atomic.Value // *sched; gates are open for goroutines that are not actors
}

func (d *gateDB) sched() *sched {
	v := d.sc.Load()
	if v == nil {
		return nil
	}
	return v.(*sched)
}

const absentValue = "\x00<absent>"

func (d *gateDB) around(kind string, write bool, keys [][]byte, f func(), vals ...[]byte) {
	sc := d.sched()
	if sc == nil {
		f()
		return
	}
	a := sc.current()
	if a == nil {
		f()
		return
	}
	e := &dbEvent{actor: a.idx, op: int(atomic.LoadInt32(&a.cur)), kind: kind, write: write}
	var names []string
	for i, k := range keys {
		e.keys = append(e.keys, string(k))
		names = append(names, keyName(sc.g, k))
		if write {
			if i < len(vals) && vals[i] != nil {
				e.vals = append(e.vals, string(vals[i]))
			} else {
				e.vals = append(e.vals, absentValue)
			}
		}
	}
	sc.mu.Lock()
	sc.dbEvents = append(sc.dbEvents, e)
	sc.mu.Unlock()
	desc := fmt.Sprintf("op %d, %s %s", e.op, kind, strings.Join(names, ","))
	sc.park(a, "before "+desc)
	e.execSeq = atomic.AddInt64(&sc.seq, 1)
	f()
	sc.park(a, "inside "+desc+" (database call done, not yet returned)")
	e.relSeq = atomic.AddInt64(&sc.seq, 1)
}

func (d *gateDB) Get(key []byte) (v []byte) {
	d.around("db.Get", false, [][]byte{key}, func() { v = d.inner.Get(key) })
	return v
}
func (d *gateDB) Set(key, value []byte) {
	d.around("db.Set", true, [][]byte{key}, func() { d.inner.Set(key, value) }, nonNil(value))
}
func (d *gateDB) SetSync(key, value []byte) {
	d.around("db.SetSync", true, [][]byte{key}, func() { d.inner.SetSync(key, value) }, nonNil(value))
}
func (d *gateDB) Delete(key []byte) {
	d.around("db.Delete", true, [][]byte{key}, func() { d.inner.Delete(key) })
}
func (d *gateDB) DeleteSync(key []byte) {
	d.around("db.DeleteSync", true, [][]byte{key}, func() { d.inner.DeleteSync(key) })
}
func (d *gateDB) Close()                   { d.inner.Close() }
func (d *gateDB) Print()                   { d.inner.Print() }
func (d *gateDB) Stats() map[string]string { return d.inner.Stats() }
func (d *gateDB) NewBatch() dbm.Batch      { return &gateBatch{d: d, inner: d.inner.NewBatch()} }
func (d *gateDB) Iterator() dbm.Iterator   { return d.IteratorPrefix([]byte{}) }
func (d *gateDB) IteratorPrefix(prefix []byte) (it dbm.Iterator) {
	d.around("db.IteratorPrefix", false, [][]byte{prefix}, func() { it = d.inner.IteratorPrefix(prefix) })
	return &gateIter{Iterator: it, d: d}
}
func (d *gateDB) IteratorPrefixWithStart(prefix, start []byte, rev bool) (it dbm.Iterator) {
	d.around("db.IteratorPrefixWithStart", false, [][]byte{start}, func() { it = d.inner.IteratorPrefixWithStart(prefix, start, rev) })
	return &gateIter{Iterator: it, d: d}
}

func nonNil(b []byte) []byte {
	if b == nil {
		return []byte{}
	}
	return b
}

type gateBatch struct {
	d     *gateDB
	inner dbm.Batch
	keys  [][]byte
	vals  [][]byte // nil = delete
}

func (b *gateBatch) Set(key, value []byte) {
	b.keys = append(b.keys, append([]byte{}, key...))
	b.vals = append(b.vals, append([]byte{}, value...))
	b.inner.Set(key, value)
}
func (b *gateBatch) Delete(key []byte) {
	b.keys = append(b.keys, append([]byte{}, key...))
	b.vals = append(b.vals, nil)
	b.inner.Delete(key)
}
func (b *gateBatch) Write() {
	b.d.around("batch.Write", true, b.keys, func() { b.inner.Write() }, b.vals...)
}

type gateIter struct {
	dbm.Iterator
	d *gateDB
}

func (it *gateIter) Value() (v []byte) {
	it.d.around("iterator.Value", false, [][]byte{it.Iterator.Key()}, func() { v = it.Iterator.Value() })
	return v
}

// recDB records which keys a fresh read depends on.
type recDB struct {
	dbm.DB
	keys map[string]bool
}

func (r *recDB) Get(key []byte) []byte {
	r.keys[string(key)] = true
	return r.DB.Get(key)
}
func (r *recDB) IteratorPrefix(prefix []byte) dbm.Iterator {
	r.keys[string(prefix)] = true
	return &recIter{Iterator: r.DB.IteratorPrefix(prefix), r: r}
}

type recIter struct {
	dbm.Iterator
	r *recDB
}

func (it *recIter) Value() []byte {
	it.r.keys[string(it.Iterator.Key())] = true
	return it.Iterator.Value()
}

// keyName: a readable name of a database key in terms of the case's universe.
func keyName(g *genCase, key []byte) string {
	if bytes.Equal(key, database.BlockStoreKey) {
		return "chain-status"
	}
	if len(key) < 2 || key[1] != ':' {
		return "key-" + hex.EncodeToString(key)
	}
	idOf := func(b []byte) string {
		for i, id := range g.ids {
			if bytes.Equal(id.hash.Bytes(), b) {
				return fmt.Sprintf("id %d", i)
			}
		}
		return "hash " + hex.EncodeToString(b)
	}
	body := key[2:]
	switch key[0] { // store_geter.go: blockHashes = 2 ... checkpoint = 6
	case 2:
		if len(body) == 8 {
			return fmt.Sprintf("hashes-by-height(%d)", binary.BigEndian.Uint64(body))
		}
	case 3:
		return "header(" + idOf(body) + ")"
	case 4:
		return "transactions(" + idOf(body) + ")"
	case 5:
		if len(body) == 8 {
			return fmt.Sprintf("main-chain-hash(%d)", binary.BigEndian.Uint64(body))
		}
	case 6:
		if len(body) == 8 {
			return fmt.Sprintf("checkpoints(%d, *)", binary.BigEndian.Uint64(body))
		}
		if len(body) == 40 {
			return fmt.Sprintf("checkpoint(%d, %s)", binary.BigEndian.Uint64(body[:8]), idOf(body[8:]))
		}
	}
	return "key-" + hex.EncodeToString(key)
}

// ---- running one store operation, and its fresh counterpart -------------------------

func concHash(g *genCase, o opSpec) bc.Hash {
	if o.id < len(g.ids) {
		return g.ids[o.id].hash
	}
	return bc.Hash{}
}

// doOp runs one operation through the store and returns its canonical result.
func doOp(s *database.Store, g *genCase, o opSpec) string {
	h := concHash(g, o)
	res := func(err error) string {
		if err != nil {
			return "ERR"
		}
		return "ok"
	}
	switch o.kind {
	case "SaveBlock":
		b := &types.Block{BlockHeader: *mkHeader(g.ids[o.id], o.hv)}
		for _, t := range o.txs {
			b.Transactions = append(b.Transactions, mkTx(t))
		}
		return res(s.SaveBlock(b))
	case "SaveBlockHeader":
		return res(s.SaveBlockHeader(mkHeader(g.ids[o.id], o.hv)))
	case "SaveChainStatus":
		var l []*types.BlockHeader
		for _, i := range o.main {
			l = append(l, mkHeader(g.ids[i], hdrVar{}))
		}
		best := mkHeader(g.ids[0], hdrVar{})
		if len(l) > 0 && g.heightSpread() <= 16 {
			// the new best block is the last main-chain header: a shorter chain deletes index entries
			// (SaveChainStatus walks every height between the new and the old best: not across 2^32 heights)
			best = l[len(l)-1]
		}
		return res(s.SaveChainStatus(best, l, state.NewUtxoViewpoint(), state.NewContractViewpoint(), 0, &bc.Hash{}))
	case "SaveCheckpoints":
		var l []*state.Checkpoint
		for _, cv := range o.cps {
			l = append(l, mkCheckpoint(g, cv))
		}
		return res(s.SaveCheckpoints(l))
	case "GetBlockHeader":
		return canonHeader(s.GetBlockHeader(&h))
	case "BlockExist":
		return fmt.Sprint(s.BlockExist(&h))
	case "GetBlockTransactions":
		return canonTxs(s.GetBlockTransactions(&h))
	case "GetBlock":
		b, err := s.GetBlock(&h)
		if err != nil {
			return "ERR"
		}
		return canonHeader(&b.BlockHeader, nil) + "#" + canonTxs(b.Transactions, nil)
	case "GetBlockHashesByHeight":
		return canonHashes(s.GetBlockHashesByHeight(o.height))
	case "GetMainChainHash":
		return canonHash(s.GetMainChainHash(o.height))
	case "GetCheckpoint":
		cp, err := s.GetCheckpoint(&h)
		if err != nil {
			return "ERR"
		}
		return canonCp(cp)
	case "GetCheckpointsByHeight":
		return canonCps(s.GetCheckpointsByHeight(o.height))
	}
	panic("conc: unknown op " + o.kind)
}

func (g *genCase) heightSpread() uint64 {
	lo, hi := g.ids[0].base.Height, g.ids[0].base.Height
	for _, id := range g.ids {
		if id.base.Height < lo {
			lo = id.base.Height
		}
		if id.base.Height > hi {
			hi = id.base.Height
		}
	}
	return hi - lo
}

// freshOp: the same read, straight from the database, no Store involved.
func freshOp(db dbm.DB, g *genCase, o opSpec) string {
	h := concHash(g, o)
	switch o.kind {
	case "GetBlockHeader":
		return canonHeader(database.GetBlockHeader(db, &h))
	case "BlockExist":
		_, err := database.GetBlockHeader(db, &h)
		return fmt.Sprint(err == nil)
	case "GetBlockTransactions":
		return canonTxs(database.GetBlockTransactions(db, &h))
	case "GetBlock":
		rh, e1 := database.GetBlockHeader(db, &h)
		rt, e2 := database.GetBlockTransactions(db, &h)
		if e1 != nil || e2 != nil {
			return "ERR"
		}
		return canonHeader(rh, nil) + "#" + canonTxs(rt, nil)
	case "GetBlockHashesByHeight":
		return canonHashes(database.GetBlockHashesByHeight(db, o.height))
	case "GetMainChainHash":
		return canonHash(database.GetMainChainHash(db, o.height))
	case "GetCheckpoint":
		rc, err := refCheckpoint(db, &h)
		if err != nil {
			return "ERR"
		}
		return canonCp(rc)
	case "GetCheckpointsByHeight":
		return canonCps(refCheckpointsByHeight(db, o.height))
	}
	panic("conc: no fresh read for " + o.kind)
}

// every read of the universe (the final inspection)
func (g *genCase) allReads() []opSpec {
	var l []opSpec
	for i := range g.ids {
		for _, k := range []string{"GetBlockHeader", "BlockExist", "GetBlockTransactions", "GetBlock", "GetCheckpoint"} {
			l = append(l, opSpec{kind: k, id: i})
		}
	}
	hs := map[uint64]bool{}
	for _, id := range g.ids {
		hs[id.base.Height] = true
	}
	for _, h := range g.heights {
		hs[h] = true
	}
	var hl []uint64
	for h := range hs {
		hl = append(hl, h)
	}
	sort.Slice(hl, func(a, b int) bool { return hl[a] < hl[b] })
	hl = append(hl, hl[len(hl)-1]+1) // and a height nothing was stored at
	for _, h := range hl {
		for _, k := range []string{"GetBlockHashesByHeight", "GetMainChainHash", "GetCheckpointsByHeight"} {
			l = append(l, opSpec{kind: k, height: h})
		}
	}
	return l
}

// ---- one concurrent case -------------------------------------------------------------

type concCase struct {
	stream string
	g      *genCase
	setup  []opSpec
	warm   []opSpec   // reads executed one after the other before the actors start (cache temperature)
	actors [][]opSpec // operations of each actor
	note   string
}

type concFailure struct {
	what string
}

type concResult struct {
	fails     []concFailure
	trace     []string
	picks     []int
	sawJoin   bool
	overlap   bool // an actor ran a database call on a key while another actor was inside an operation touching that key
	stepsOf   []int
	doneEarly bool
	model     string // Coq expression: the protocol model's prediction of the keys that are stale at the end
	observed  string // the keys found stale through the store
	nFills    int
	nWrites   int
}

func safely(f func()) (pv string) {
	defer func() {
		if p := recover(); p != nil {
			pv = fmt.Sprint(p)
		}
	}()
	f()
	return ""
}

// runGuarded runs f in a goroutine; reports a panic, or that f is blocked on another goroutine for good.
func runGuarded(f func()) (panicV string, hung string) {
	done := make(chan string, 1)
	var id int64
	ready := make(chan struct{})
	go func() {
		id = goid()
		close(ready)
		done <- safely(f)
	}()
	<-ready
	waits := 0
	deadline := time.Now().Add(30 * time.Second)
	for {
		select {
		case pv := <-done:
			return pv, ""
		case <-time.After(2 * time.Millisecond):
		}
		st := goroutineStates()[id]
		if isSyncWait(st) {
			waits++
		} else {
			waits = 0
		}
		// nothing else runs in this case any more: a goroutine that waits on a lock / WaitGroup stays there
		if waits >= 25 || time.Now().After(deadline) {
			return "", st
		}
	}
}

func isWriteOp(o opSpec) bool { return isWrite(o.kind) }

func newConcStore(g *genCase, db dbm.DB) *database.Store {
	if g.plain {
		return database.NewStore(db)
	}
	return database.VerifNewStore(db, g.caps[0], g.caps[1], g.caps[2], g.caps[3], g.caps[4])
}

// runConc executes a case; drive makes the schedule (it may leave actors unfinished: they are then run to completion in order).
func runConc(cc *concCase, drive func(sc *sched)) *concResult {
	g := cc.g
	res := &concResult{}
	fail := func(format string, a ...interface{}) {
		res.fails = append(res.fails, concFailure{fmt.Sprintf(format, a...)})
	}
	inner := dbm.NewMemDB()
	gdb := &gateDB{inner: inner}
	s := newConcStore(g, gdb)

	// set-up and warm-up: sequential, gates open (this goroutine is no actor)
	if pv := safely(func() {
		for _, o := range cc.setup {
			doOp(s, g, o)
		}
		for _, o := range cc.warm {
			doOp(s, g, o)
		}
	}); pv != "" {
		fail("class=panic: set-up panicked: %s", pv)
		return res
	}

	sc := &sched{g: g, byGoid: map[int64]*actor{}, ev: make(chan schedEvent, 1024)}
	anyWrite := false
	for i, ops := range cc.actors {
		a := &actor{idx: i, ops: ops, resume: make(chan struct{}), state: aRunning, panicAt: -1}
		sc.actors = append(sc.actors, a)
		for _, o := range ops {
			if isWriteOp(o) {
				anyWrite = true
			}
		}
	}
	freshBefore := map[string]string{} // for read-only phases: the value every overlapping read must return
	if !anyWrite {
		for _, ops := range cc.actors {
			for _, o := range ops {
				freshBefore[g.opString(o)] = freshOp(inner, g, o)
			}
		}
	}
	snapshot := map[string]string{} // the database when the actors start
	func() {
		it := inner.Iterator()
		defer it.Release()
		for it.Next() {
			snapshot[string(it.Key())] = string(it.Value())
		}
	}()
	gdb.sc.Store(sc)
	var started sync.WaitGroup
	for _, a := range sc.actors {
		a := a
		started.Add(1)
		go func() {
			a.goid = goid()
			sc.mu.Lock()
			sc.byGoid[a.goid] = a
			sc.mu.Unlock()
			started.Done()
			defer func() {
				if p := recover(); p != nil {
					a.panicAt = int(atomic.LoadInt32(&a.cur))
					a.panicV = fmt.Sprint(p)
				}
				sc.ev <- schedEvent{actor: a.idx, done: true}
			}()
			for k, o := range a.ops {
				atomic.StoreInt32(&a.cur, int32(k))
				sc.park(a, fmt.Sprintf("op %d, about to call %s", k, g.opString(o)))
				r := doOp(s, g, o)
				a.results = append(a.results, r)
			}
		}()
	}
	started.Wait()
	ok := sc.settle() // every actor at its first gate
	if ok {
		drive(sc)
		var order []int
		for i := range sc.actors {
			order = append(order, i)
		}
		for sc.wedged == "" {
			sc.finish(order)
			if sc.allDone() || sc.wedged != "" || sc.confirmStuck() {
				break
			}
		}
	}
	gdb.sc.Store((*sched)(nil)) // gates open from here on
	res.trace, res.picks, res.sawJoin = sc.trace, sc.picks, sc.sawJoin
	for _, a := range sc.actors {
		res.stepsOf = append(res.stepsOf, a.steps)
	}

	// no call panics, every call returns
	for _, a := range sc.actors {
		if a.panicAt >= 0 {
			fail("class=panic: %s panicked while other store operations were in flight: %s", g.opString(a.ops[a.panicAt]), a.panicV)
		}
	}
	if !sc.allDone() {
		var l []string
		for _, a := range sc.actors {
			switch a.state {
			case aBlocked:
				l = append(l, fmt.Sprintf("actor %d never returns from %s (blocked on a lock / WaitGroup that nobody will release)", a.idx, g.opString(a.ops[atomic.LoadInt32(&a.cur)])))
			case aRunning:
				l = append(l, fmt.Sprintf("actor %d neither returns from %s nor reaches a database call (%s)", a.idx, g.opString(a.ops[atomic.LoadInt32(&a.cur)]), sc.wedged))
			}
		}
		if len(l) > 0 {
			fail("class=hang: %s", strings.Join(l, "; "))
		}
		// release whatever is still parked so that the goroutines can go away
		for _, a := range sc.actors {
			if a.state == aParked {
				a := a
				go func() {
					for {
						select {
						case a.resume <- struct{}{}:
						case <-time.After(time.Second):
							return
						}
					}
				}()
			}
		}
	}
	if len(res.fails) > 0 && !sc.allDone() {
		return res
	}

	// reads that overlapped only reads: each returns the fresh value already
	if !anyWrite {
		for _, a := range sc.actors {
			for k, r := range a.results {
				if want := freshBefore[g.opString(a.ops[k])]; r != want {
					fail("class=wrong-result-of-overlapping-read: %s, overlapping only other reads, returned a value that is not in the database (store: %.200s | fresh: %.200s)", g.opString(a.ops[k]), r, want)
				}
			}
		}
	}

	// overlap (input-distribution event): two actors touched one key while both were inside an operation
	res.overlap = overlapped(sc)

	// the property: everything has finished; every read through the store = fresh read of the database
	var stale []string
	final := map[string][2]string{}
	pv, hung := runGuarded(func() {
		for _, o := range g.allReads() {
			rec := &recDB{DB: inner, keys: map[string]bool{}}
			want := freshOp(rec, g, o)
			got := doOp(s, g, o)
			again := doOp(s, g, o)
			final[g.opString(o)] = [2]string{got, want}
			if got != want {
				shape := "no-read-in-flight-across-a-write"
				if k := straddled(sc, rec.keys); k != "" {
					shape = "read-in-flight-across-a-write"
					stale = append(stale, fmt.Sprintf("class=stale-fill-across-write: after all operations returned, %s through the store differs from the value read fresh from the database; a read of %s was inside its cache fill (database value already fetched, cache entry not yet added) while a complete write of that key -- database write and cache invalidation -- went by (store: %.200s | fresh: %.200s)", g.opString(o), keyName(g, []byte(k)), got, want))
					continue
				}
				stale = append(stale, fmt.Sprintf("class=stale-after-concurrent-ops shape=%s: after all operations returned, %s through the store differs from the value read fresh from the database (store: %.200s | fresh: %.200s)", shape, g.opString(o), got, want))
			} else if again != got {
				stale = append(stale, fmt.Sprintf("class=read-not-idempotent-after-concurrent-ops: %s repeated returned a different value (first: %.200s | second: %.200s)", g.opString(o), got, again))
			}
		}
	})
	if pv != "" {
		fail("class=panic: a read after all operations had returned panicked: %s", pv)
	}
	if hung != "" {
		fail("class=hang: a read issued after all operations had returned never returns (%s): an entry of the singleflight group was left behind", hung)
	}
	if pv == "" && hung == "" && noEviction(g) {
		res.model, res.observed, res.nFills, res.nWrites = protocolCase(sc, snapshot, final)
	}
	// one failure per class and case: the first stale read, the others by name
	byClass := map[string][]string{}
	var classes []string
	for _, w := range stale {
		cls := w[:strings.IndexAny(w, ": ")]
		if byClass[cls] == nil {
			classes = append(classes, cls)
		}
		byClass[cls] = append(byClass[cls], w)
	}
	for _, cls := range classes {
		l := byClass[cls]
		w := l[0]
		if len(l) > 1 {
			w += fmt.Sprintf(" [and %d more reads of this case differ in the same way]", len(l)-1)
		}
		res.fails = append(res.fails, concFailure{w})
	}
	return res
}

// ---- the case as a schedule of the protocol model C21/Conc.v -------------------------------------

// the five cached tables of store_geter.go: 2 hashes by height, 3 header, 4 transactions, 5 main-chain hash, 6 checkpoint
func cachedTable(k string) bool { return len(k) >= 2 && k[1] == ':' && k[0] >= 2 && k[0] <= 6 }

// LRU eviction is not part of the protocol model: only stores whose caches cannot fill up are compared
func noEviction(g *genCase) bool {
	if g.plain {
		return true
	}
	for _, c := range g.caps {
		if c != 0 && c < 64 {
			return false
		}
	}
	return true
}

// protocolCase translates the database calls of the case, in the order they happened, into steps
// of the model: a db.Get of a cached table is a fill (RB when the call ran, RE when the operation
// left the gate behind it: the lru.Add is the next thing it does), a database write is WS for every
// key when the call ran and WR for every key when the operation left the gate behind it.  The
// model predicts which keys are stale at the end; observed is read off the final inspection
// through the single-key getter of each key.
func protocolCase(sc *sched, snapshot map[string]string, final map[string][2]string) (model, observed string, nFills, nWrites int) {
	g := sc.g
	type mstep struct {
		seq int64
		sub int
		f   func(key func(string) int, val func(string, string) int) string
	}
	var steps []mstep
	keySet := map[string]bool{}
	for _, e := range sc.dbEvents {
		e := e
		if e.execSeq == 0 {
			continue
		}
		if !e.write {
			if e.kind != "db.Get" || !cachedTable(e.keys[0]) {
				continue
			}
			k := e.keys[0]
			keySet[k] = true
			nFills++
			steps = append(steps, mstep{e.execSeq, 0, func(key func(string) int, _ func(string, string) int) string {
				return fmt.Sprintf("RB %d %d", e.actor, key(k))
			}})
			if e.relSeq != 0 {
				steps = append(steps, mstep{e.relSeq, 0, func(_ func(string) int, _ func(string, string) int) string {
					return fmt.Sprintf("RE %d", e.actor)
				}})
			}
			continue
		}
		nWrites++
		for i, k := range e.keys {
			if !cachedTable(k) {
				continue
			}
			i, k := i, k
			keySet[k] = true
			steps = append(steps, mstep{e.execSeq, i, func(key func(string) int, val func(string, string) int) string {
				return fmt.Sprintf("WS %d %d %d", e.actor, key(k), val(k, e.vals[i]))
			}})
			if e.relSeq != 0 {
				steps = append(steps, mstep{e.relSeq, i, func(key func(string) int, _ func(string, string) int) string {
					return fmt.Sprintf("WR %d %d", e.actor, key(k))
				}})
			}
		}
	}
	sort.SliceStable(steps, func(a, b int) bool {
		if steps[a].seq != steps[b].seq {
			return steps[a].seq < steps[b].seq
		}
		return steps[a].sub < steps[b].sub
	})
	var keys []string
	for k := range keySet {
		keys = append(keys, k)
	}
	sort.Strings(keys)
	keyLabel := map[string]int{}
	for i, k := range keys {
		keyLabel[k] = i + 1
	}
	key := func(k string) int { return keyLabel[k] }
	valLabel := map[string]int{}
	val := func(k, v string) int {
		if v == absentValue {
			if k[0] != 2 {
				return 0 // a fill that finds nothing fails and caches nothing ...
			}
			v = "\x00<no height index>" // ... except the height index: an absent entry reads (and is cached) as the empty list
		}
		if l, ok := valLabel[v]; ok {
			return l
		}
		valLabel[v] = len(valLabel) + 1
		return valLabel[v]
	}
	var init, sl, probes, stale []string
	for _, k := range keys {
		v, ok := snapshot[k]
		if !ok {
			v = absentValue
		}
		init = append(init, fmt.Sprintf("(%d, %d)", key(k), val(k, v)))
	}
	for _, st := range steps {
		sl = append(sl, st.f(key, val))
	}
	idOf := func(b string) int {
		for i, id := range g.ids {
			if string(id.hash.Bytes()) == b {
				return i
			}
		}
		return -1
	}
	for _, k := range keys {
		body := k[2:]
		var o opSpec
		switch k[0] {
		case 2, 5:
			if len(body) != 8 {
				continue
			}
			o = opSpec{kind: "GetBlockHashesByHeight", height: binary.BigEndian.Uint64([]byte(body))}
			if k[0] == 5 {
				o.kind = "GetMainChainHash"
			}
		case 3, 4:
			i := idOf(body)
			if i < 0 {
				continue
			}
			o = opSpec{kind: "GetBlockHeader", id: i}
			if k[0] == 4 {
				o.kind = "GetBlockTransactions"
			}
		case 6:
			if len(body) != 40 {
				continue
			}
			i := idOf(body[8:])
			if i < 0 || g.ids[i].base.Height != binary.BigEndian.Uint64([]byte(body[:8])) {
				continue
			}
			o = opSpec{kind: "GetCheckpoint", id: i}
		}
		r, ok := final[g.opString(o)]
		if !ok {
			continue
		}
		got, want := r[0], r[1]
		if k[0] == 6 {
			// the cached checkpoint is visible only when the block header exists; its persisted fields are the part before '|'
			if want == "ERR" {
				continue
			}
			cut := func(x string) string {
				if i := strings.LastIndexByte(x, '|'); i >= 0 {
					return x[:i]
				}
				return x
			}
			got, want = cut(got), cut(want)
		}
		probes = append(probes, fmt.Sprint(key(k)))
		if got != want {
			stale = append(stale, fmt.Sprint(key(k)))
		}
	}
	return fmt.Sprintf("cstale %s %s %s", CoqList(init), CoqList(sl), CoqList(probes)), CoqList(stale), nFills, nWrites
}

// straddled: is there a read of one of the keys whose database call ran before, and whose return
// ran after, a complete write of that key by another actor?  Returns the key.
func straddled(sc *sched, deps map[string]bool) string {
	for _, r := range sc.dbEvents {
		if r.write || r.execSeq == 0 {
			continue
		}
		for _, w := range sc.dbEvents {
			if !w.write || w.actor == r.actor || w.execSeq == 0 || w.relSeq == 0 {
				continue
			}
			if !(r.execSeq < w.execSeq && (r.relSeq == 0 || w.relSeq < r.relSeq)) {
				continue
			}
			for _, rk := range r.keys {
				if !deps[rk] {
					continue
				}
				for _, wk := range w.keys {
					if wk == rk {
						return rk
					}
				}
			}
		}
	}
	return ""
}

func overlapped(sc *sched) bool {
	for _, x := range sc.dbEvents {
		for _, y := range sc.dbEvents {
			if x.actor >= y.actor || x.execSeq == 0 || y.execSeq == 0 {
				continue
			}
			shared := false
			for _, a := range x.keys {
				for _, b := range y.keys {
					if a == b {
						shared = true
					}
				}
			}
			if !shared {
				continue
			}
			// y's call ran while x was between its call and its return, or the other way round
			if (x.execSeq < y.execSeq && (x.relSeq == 0 || y.execSeq < x.relSeq)) || (y.execSeq < x.execSeq && (y.relSeq == 0 || x.execSeq < y.relSeq)) {
				return true
			}
		}
	}
	return false
}

func (cc *concCase) describe(res *concResult) map[string]interface{} {
	g := cc.g
	var ids []string
	for i, id := range g.ids {
		ids = append(ids, fmt.Sprintf("%d: height=%d hash=%s", i, id.base.Height, id.hash.String()))
	}
	str := func(l []opSpec) []string {
		out := []string{}
		for _, o := range l {
			out = append(out, g.opString(o))
		}
		return out
	}
	var actors []interface{}
	for _, ops := range cc.actors {
		actors = append(actors, str(ops))
	}
	d := map[string]interface{}{
		"stream": cc.stream, "backend": "memdb behind the gated DB", "production_store": g.plain,
		"caps_headers_txs_hashes_main_checkpoints": g.caps, "identities": ids,
		"setup_sequential": str(cc.setup), "then_read_sequentially": str(cc.warm), "actors": actors,
		"schedule_actor_released_at_each_step": res.picks, "gates_in_the_order_passed": res.trace,
	}
	if cc.note != "" {
		d["note"] = cc.note
	}
	return d
}

// ---- stream "pair": all ordered pairs of operations x gate positions x cache temperatures ----

func pairUniverse() *genCase {
	g := &genCase{plain: true, backend: "memdb", caps: [5]int{2048, 1024, 1024, 1024, 256}}
	const H = 100
	g.heights = []uint64{H, H + 1}
	for i, h := range []uint64{H, H, H + 1, H} {
		id := &ident{}
		id.base = types.BlockHeader{Version: 1, Height: h, Timestamp: 5000 + uint64(i), PreviousBlockHash: bc.Hash{V0: uint64(77 + i)}}
		id.base.TransactionsMerkleRoot = bc.Hash{V2: uint64(i + 1)}
		id.hash = id.base.Hash()
		id.label = i + 1
		g.ids = append(g.ids, id)
	}
	return g
}

func pairSetup(g *genCase) []opSpec {
	H := g.ids[0].base.Height
	return []opSpec{
		{kind: "SaveBlock", id: 0, hv: hdrVar{wit: 1, sup: []int{1}}, txs: []int{1, 2}},
		{kind: "SaveBlock", id: 1, hv: hdrVar{}, txs: []int{3}},
		{kind: "SaveBlock", id: 2, hv: hdrVar{wit: 2}, txs: nil},
		{kind: "SaveCheckpoints", cps: []cpVar{{height: H, id: 0, status: 1, v: 1}}},
		{kind: "SaveCheckpoints", cps: []cpVar{{height: H, id: 1, status: 0, v: 2}, {height: H + 1, id: 2, status: 1, v: 3}}},
		{kind: "SaveChainStatus", main: []int{0, 2}},
	}
}

func pairOps(g *genCase, thorough bool) []opSpec {
	H := g.ids[0].base.Height
	l := pairOpsBase(g)
	if thorough { // the neighbours: the other block of the height, the next height (other keys of the same singleflight group)
		l = append(l,
			opSpec{kind: "GetBlockHeader", id: 1},
			opSpec{kind: "GetBlock", id: 1},
			opSpec{kind: "GetCheckpoint", id: 1},
			opSpec{kind: "GetBlockHashesByHeight", height: H + 1},
			opSpec{kind: "GetMainChainHash", height: H + 1},
			opSpec{kind: "GetCheckpointsByHeight", height: H + 1},
			opSpec{kind: "SaveBlockHeader", id: 1, hv: hdrVar{wit: 1, sup: []int{4}}},
			opSpec{kind: "SaveCheckpoints", cps: []cpVar{{height: H, id: 1, status: 2, v: 5}}},
		)
	}
	return l
}

func pairOpsBase(g *genCase) []opSpec {
	H := g.ids[0].base.Height
	return []opSpec{
		{kind: "GetBlockHeader", id: 0},
		{kind: "BlockExist", id: 0},
		{kind: "GetBlockTransactions", id: 0},
		{kind: "GetBlock", id: 0},
		{kind: "GetBlockHashesByHeight", height: H},
		{kind: "GetMainChainHash", height: H},
		{kind: "GetCheckpoint", id: 0},
		{kind: "GetCheckpointsByHeight", height: H},
		{kind: "SaveBlockHeader", id: 0, hv: hdrVar{wit: 2, sup: []int{1, 2}}},
		{kind: "SaveBlock", id: 0, hv: hdrVar{wit: 3, sup: []int{3}}, txs: []int{4}},
		{kind: "SaveBlock", id: 3, hv: hdrVar{wit: 1}, txs: []int{5}},
		{kind: "SaveChainStatus", main: []int{1}},
		{kind: "SaveChainStatus", main: []int{1, 2}},
		{kind: "SaveCheckpoints", cps: []cpVar{{height: H, id: 0, status: 2, v: 4}}},
		{kind: "SaveCheckpoints", cps: []cpVar{{height: H, id: 0, status: 3, v: 5}, {height: H + 1, id: 2, status: 2, v: 1}}},
	}
}

var warmNames = []string{"cold", "all-cached", "second-op-cached", "first-op-cached"}

func rw(o opSpec) string {
	if isWriteOp(o) {
		return "write"
	}
	return "read"
}

// the cases of the concurrent stage for the protocol model (C21/Conc.v): a case file of its own
var concCases = NewCaseFile(1000000)

func emitProtocolCase(c *Ctx, cc *concCase, res *concResult) {
	if res.model == "" {
		c.Stats.Count("conc_model_case_skipped_eviction_possible_or_case_failed")
		return
	}
	id := concCases.Add(res.model, res.observed)
	c.Stats.Count("model_evaluated")
	c.Stats.Count("conc_model_cases")
	if res.nFills > 0 && res.nWrites > 0 {
		c.Stats.Count("conc_model_cases_with_fills_and_writes")
	}
	if res.observed != "[]" {
		c.Stats.Count("conc_model_cases_with_a_stale_key_observed")
	}
	g := cc.g
	str := func(l []opSpec) []string {
		out := []string{}
		for _, o := range l {
			out = append(out, g.opString(o))
		}
		return out
	}
	var actors []interface{}
	for _, ops := range cc.actors {
		actors = append(actors, str(ops))
	}
	c.Stats.CaseIndex[fmt.Sprint(id)] = map[string]interface{}{"stream": cc.stream, "setup": str(cc.setup), "reads_before": len(cc.warm),
		"actors": actors, "schedule": res.picks, "caps": g.caps, "production_store": g.plain, "note": cc.note}
}

// reportConc records the failures of one case (at most a few per class, so that no class crowds out another).
func reportConc(c *Ctx, cc *concCase, res *concResult, perClass map[string]int) {
	for _, f := range res.fails {
		cls := f.what
		if i := strings.IndexAny(cls, ": "); i > 0 {
			cls = cls[:i]
		}
		c.Stats.Count("conc_oracle_failure_" + strings.TrimPrefix(cls, "class="))
		if cc.stream == "pair" {
			c.Stats.Count(fmt.Sprintf("conc_oracle_failure_%s_%s_paused_%s_runs", strings.TrimPrefix(cls, "class="), cc.actors[0][0].kind, cc.actors[1][0].kind))
		}
		if perClass[cls] >= 2 {
			continue
		}
		perClass[cls]++
		c.Stats.Fail(f.what, cc.describe(res))
		c.Stats.Count("oracle_failure")
	}
}

func runPairStream(c *Ctx, perClass map[string]int) {
	g := pairUniverse()
	ops := pairOps(g, c.Thorough())
	setup := pairSetup(g)
	for xi, x := range ops {
		for yi, y := range ops {
			for warm := 0; warm < 4; warm++ {
				if (warm == 2 && isWriteOp(y)) || (warm == 3 && isWriteOp(x)) {
					continue
				}
				var warmOps []opSpec
				switch warm {
				case 1:
					warmOps = g.allReads()
				case 2:
					warmOps = []opSpec{y}
				case 3:
					warmOps = []opSpec{x}
				}
				for p := 1; ; p++ {
					cc := &concCase{stream: "pair", g: g, setup: setup, warm: warmOps, actors: [][]opSpec{{x}, {y}},
						note: fmt.Sprintf("actor 0 runs up to its gate number %d, actor 1 runs until it returns or waits for actor 0, actor 0 returns, actor 1 returns; caches: %s", p, warmNames[warm])}
					reached := 0
					res := runConc(cc, func(sc *sched) {
						for reached < p && sc.actors[0].state == aParked {
							if !sc.step(0) {
								return
							}
							reached++
						}
						if sc.actors[0].state != aParked { // X returned (or blocked) before its p-th gate: no further position
							return
						}
						for sc.actors[1].state == aParked {
							if !sc.step(1) {
								return
							}
						}
						sc.finish([]int{0, 1})
					})
					exhausted := reached < p || res.stepsOf[0] <= p
					c.Stats.Count("conc_pair_cases")
					c.Stats.Count(fmt.Sprintf("conc_pair_%s_paused_%s_runs", rw(x), rw(y)))
					c.Stats.Count("conc_pair_caches_" + warmNames[warm])
					if res.sawJoin {
						c.Stats.Count("conc_ev_operation_waited_for_another_inside_the_store")
					}
					if res.overlap {
						c.Stats.Count("conc_ev_database_call_on_a_key_while_other_op_inside_call_on_same_key")
					}
					c.Stats.Case(fmt.Sprintf("conc-pair-%d-%d-%d-%d", xi, yi, warm, p), res.overlap || res.sawJoin)
					reportConc(c, cc, res, perClass)
					emitProtocolCase(c, cc, res)
					if exhausted || p > 64 {
						break
					}
				}
			}
		}
	}
}

// ---- stream "mix": random universes, histories, actors and schedules ------------------------

func (g *genCase) genOneOp(r *Rng) opSpec {
	switch x := r.Intn(100); {
	case x < 8:
		return opSpec{kind: "SaveBlock", id: g.pickID(r), hv: genHdrVar(r), txs: genTxs(r)}
	case x < 22:
		return opSpec{kind: "SaveBlockHeader", id: g.pickID(r), hv: genHdrVar(r)}
	case x < 31:
		n := 1 + r.Intn(3)
		l := []int{g.pickID(r)}
		for i := 1; i < n; i++ {
			l = append(l, r.Intn(len(g.ids)))
		}
		return opSpec{kind: "SaveChainStatus", main: l}
	case x < 41:
		n := 1 + r.Intn(2)
		var l []cpVar
		for i := 0; i < n; i++ {
			cv := g.genCpVar(r)
			cv.height = g.ids[cv.id].base.Height
			l = append(l, cv)
		}
		return opSpec{kind: "SaveCheckpoints", cps: l}
	case x < 51:
		return opSpec{kind: "GetBlockHeader", id: g.pickID(r)}
	case x < 54:
		return opSpec{kind: "BlockExist", id: g.pickID(r)}
	case x < 61:
		return opSpec{kind: "GetBlockTransactions", id: g.pickID(r)}
	case x < 68:
		return opSpec{kind: "GetBlock", id: g.pickID(r)}
	case x < 76:
		return opSpec{kind: "GetBlockHashesByHeight", height: g.ids[g.pickID(r)].base.Height}
	case x < 84:
		return opSpec{kind: "GetMainChainHash", height: g.ids[g.pickID(r)].base.Height}
	case x < 94:
		return opSpec{kind: "GetCheckpoint", id: g.pickID(r)}
	default:
		return opSpec{kind: "GetCheckpointsByHeight", height: g.ids[g.pickID(r)].base.Height}
	}
}

func runMixStream(c *Ctx, perClass map[string]int) {
	n := c.N(500, 6000)
	r := c.Rng
	for i := 0; i < n; i++ {
		g := genUniverse(r, c)
		g.backend = "memdb"
		if r.Chance(40) { // caches that cannot fill up: the case is also a case of the protocol model
			g.plain, g.caps = false, [5]int{}
		}
		cc := &concCase{stream: "mix", g: g}
		// set-up: most identities stored, some checkpoints, a main chain; then a few reads (partly warm caches)
		for j := range g.ids {
			if r.Chance(85) {
				cc.setup = append(cc.setup, opSpec{kind: "SaveBlock", id: j, hv: genHdrVar(r), txs: genTxs(r)})
				if r.Chance(70) {
					cc.setup = append(cc.setup, opSpec{kind: "SaveCheckpoints", cps: []cpVar{{height: g.ids[j].base.Height, id: j, status: r.Intn(4), v: 1 + r.Intn(5)}}})
				}
			}
		}
		if r.Chance(80) {
			cc.setup = append(cc.setup, opSpec{kind: "SaveChainStatus", main: []int{g.pickID(r), r.Intn(len(g.ids))}})
		}
		switch r.Intn(3) {
		case 0:
		case 1:
			cc.warm = g.allReads()
		default:
			for k := r.Intn(5); k > 0; k-- {
				o := g.genOneOp(r)
				if !isWriteOp(o) {
					cc.warm = append(cc.warm, o)
				}
			}
		}
		na := 2 + r.Intn(3)
		readOnly := r.Chance(15)
		for a := 0; a < na; a++ {
			var ops []opSpec
			for k := 1 + r.Intn(3); k > 0; k-- {
				o := g.genOneOp(r)
				for readOnly && isWriteOp(o) {
					o = g.genOneOp(r)
				}
				ops = append(ops, o)
			}
			cc.actors = append(cc.actors, ops)
		}
		res := runConc(cc, func(sc *sched) {
			for {
				l := sc.parked()
				if len(l) == 0 {
					return
				}
				// mostly stay with one actor for a few steps, then switch: long overlaps and quick ones
				pick := l[r.Intn(len(l))]
				for k := 1 + r.Intn(3); k > 0 && sc.actors[pick].state == aParked; k-- {
					if !sc.step(pick) {
						return
					}
				}
			}
		})
		c.Stats.Count("conc_mix_cases")
		c.Stats.Count(fmt.Sprintf("conc_mix_actors_%d", na))
		if readOnly {
			c.Stats.Count("conc_mix_reads_only")
		}
		if res.sawJoin {
			c.Stats.Count("conc_ev_operation_waited_for_another_inside_the_store")
		}
		if res.overlap {
			c.Stats.Count("conc_ev_database_call_on_a_key_while_other_op_inside_call_on_same_key")
		}
		c.Stats.Case(fmt.Sprintf("conc-mix-%d", i), res.overlap || res.sawJoin)
		reportConc(c, cc, res, perClass)
		emitProtocolCase(c, cc, res)
	}
}

func runConcurrentStage(c *Ctx) {
	perClass := map[string]int{}
	t0 := time.Now()
	runPairStream(c, perClass)
	t1 := time.Now()
	runMixStream(c, perClass)
	c.Stats.Extra["concurrent_stage_seconds_pair_mix"] = []float64{t1.Sub(t0).Seconds(), time.Since(t1).Seconds()}
}
