// Package hlib: shared pieces of the verification harness. Each property has its own
// main package (harness/cXX) that calls hlib.Main.  The harness runs the implementation (/repo, built with -tags verif) on
// generated cases and writes, per property, a Coq file of cases (model
// expression + observed value) and a stats file.  One sub-command per property.
package hlib

import (
	"encoding/json"
	"flag"
	"fmt"
	"os"
	"path/filepath"
		"strings"
)

// ---- one PRNG for everything: splitmix64 seeded by VERIF_SEED -------------

type Rng struct{ s uint64 }

func (r *Rng) Next() uint64 {
	r.s += 0x9e3779b97f4a7c15
	z := r.s
	z = (z ^ (z >> 30)) * 0xbf58476d1ce4e5b9
	z = (z ^ (z >> 27)) * 0x94d049bb133111eb
	return z ^ (z >> 31)
}
func (r *Rng) Intn(n int) int {
	if n <= 0 {
		return 0
	}
	return int(r.Next() % uint64(n))
}
func (r *Rng) Bool() bool      { return r.Next()&1 == 1 }
func (r *Rng) Chance(p int) bool { return r.Intn(100) < p } // p percent
func (r *Rng) Bytes(n int) []byte {
	b := make([]byte, n)
	for i := range b {
		b[i] = byte(r.Next())
	}
	return b
}

// ---- stats written for the evidence --------------------------------------

type OracleFailure struct {
	What string      `json:"what"`
	Case interface{} `json:"case"`
}

type Stats struct {
	Property           string                 `json:"property"`
	Seed               uint64                 `json:"seed"`
	Tier               string                 `json:"tier"`
	Evaluations        int                    `json:"evaluations"`
	DistinctNontrivial int                    `json:"distinct_nontrivial"`
	Rule               string                 `json:"rule"`
	Distribution       map[string]int         `json:"distribution"`
	Samples            []interface{}          `json:"samples"`
	OracleFailures     []OracleFailure        `json:"oracle_failures"`
	CaseIndex          map[string]interface{} `json:"case_index,omitempty"` // id -> replayable description
	Exhaustive         bool                   `json:"exhaustive"`
	Extra              map[string]interface{} `json:"extra,omitempty"`
	distinct           map[string]bool
}

func NewStats(prop string, seed uint64, tier string) *Stats {
	return &Stats{Property: prop, Seed: seed, Tier: tier, Distribution: map[string]int{},
		CaseIndex: map[string]interface{}{}, distinct: map[string]bool{}, Extra: map[string]interface{}{}}
}
func (s *Stats) Count(k string) { s.Distribution[k]++ }

// Case records one evaluation. key = canonical input (for distinctness);
// nontrivial = by the property's stated rule.
func (s *Stats) Case(key string, nontrivial bool) {
	s.Evaluations++
	if nontrivial && !s.distinct[key] {
		s.distinct[key] = true
		s.DistinctNontrivial++
	}
}
func (s *Stats) Sample(v interface{}) {
	if len(s.Samples) < 5 {
		s.Samples = append(s.Samples, v)
	}
}
func (s *Stats) Fail(what string, c interface{}) {
	if len(s.OracleFailures) < 20 {
		s.OracleFailures = append(s.OracleFailures, OracleFailure{what, c})
	}
}

// ---- Coq case file --------------------------------------------------------

type CaseFile struct {
	entries []string
	descr   map[int]interface{}
	Shard   int // cases per shard file (default 300)
	Base    int // id of the first case (0 for the main file of a run; see NewCaseFile)
}

// NewCaseFile: a further case file of the same run, with its own header / type / equality
// (WriteNamed).  Its ids start at base so that they do not collide with the main file's.
func NewCaseFile(base int) *CaseFile { return &CaseFile{descr: map[int]interface{}{}, Base: base} }

func CoqZ(x interface{}) string {
	s := fmt.Sprint(x)
	if strings.HasPrefix(s, "-") {
		return "(" + s + ")"
	}
	return s
}
func CoqN(x interface{}) string { return fmt.Sprint(x) + "%N" }
func CoqBool(b bool) string {
	if b {
		return "true"
	}
	return "false"
}
func CoqBytes(b []byte) string {
	var sb strings.Builder
	sb.WriteString("[")
	for i, x := range b {
		if i > 0 {
			sb.WriteString(";")
		}
		fmt.Fprintf(&sb, "%d", x)
	}
	sb.WriteString("]%N")
	return sb.String()
}
func CoqList(items []string) string { return "[" + strings.Join(items, "; ") + "]" }
func CoqOpt(some bool, v string) string {
	if !some {
		return "None"
	}
	return "(Some " + v + ")"
}

// Add appends (id, model expression, observed value) and returns the id.
func (c *CaseFile) Add(model, observed string) int {
	id := c.Base + len(c.entries)
	c.entries = append(c.entries, fmt.Sprintf(" (%d%%N, %s, %s) ::", id, model, observed)) // ids in N: unary nat literals are slow to parse
	return id
}
func (c *CaseFile) Len() int { return len(c.entries) }

// Write emits shard files cases_<k>.v: header lines (imports), the cases at
// type ty (the type of both the model expression and the observed value), and
// the mismatch computation with the boolean equality eqb.  Definitions are
// chunked (50 entries) because Coq's front end is quadratic in list depth;
// shards are evaluated in parallel by the driver.
func (c *CaseFile) Write(dir, header, ty, eqb string) error {
	return c.write(dir, "cases_", header, ty, eqb)
}

// WriteNamed emits the shards cases_<name>_<k>.v of an additional case file.  Call it AFTER the
// main file's Write (which clears every cases_*.v of the directory); the driver evaluates all
// cases_*.v shards alike.
func (c *CaseFile) WriteNamed(dir, name, header, ty, eqb string) error {
	return c.write(dir, "cases_"+name+"_", header, ty, eqb)
}

func (c *CaseFile) write(dir, prefix, header, ty, eqb string) error {
	old, _ := filepath.Glob(filepath.Join(dir, prefix+"*.v"))
	for _, f := range old {
		os.Remove(f)
	}
	shard := c.Shard
	if shard == 0 {
		shard = 300
	}
	for k, lo := 0, 0; lo < len(c.entries) || k == 0; k, lo = k+1, lo+shard {
		hi := lo + shard
		if hi > len(c.entries) {
			hi = len(c.entries)
		}
		var out strings.Builder
		out.WriteString(header + "\n")
		var names []string
		for ck, a := 0, lo; a < hi; ck, a = ck+1, a+50 {
			b := a + 50
			if b > hi {
				b = hi
			}
			name := fmt.Sprintf("chunk%d", ck)
			names = append(names, name)
			out.WriteString("Definition " + name + " : list (BinNums.N * (" + ty + ") * (" + ty + ")) :=\n")
			out.WriteString(strings.Join(c.entries[a:b], "\n"))
			out.WriteString(" nil.\n")
		}
		names = append(names, "nil")
		out.WriteString("Definition mismatches := Eval vm_compute in\n  map (fun c => fst (fst c)) (filter (fun c => negb (" + eqb + " (snd (fst c)) (snd c))) (" + strings.Join(names, " ++ ") + ")).\n")
		out.WriteString("Print mismatches.\n")
		if err := os.WriteFile(filepath.Join(dir, fmt.Sprintf("%s%d.v", prefix, k)), []byte(out.String()), 0644); err != nil {
			return err
		}
	}
	return nil
}

// ---- dispatch ------------------------------------------------------------

type Ctx struct {
	Prop   string
	Seed   uint64
	Tier   string
	Out    string
	Replay string
	Rng    *Rng
	Stats  *Stats
	Cases  *CaseFile
}

func (c *Ctx) Thorough() bool { return c.Tier == "thorough" }
func (c *Ctx) N(quick, thorough int) int {
	if c.Thorough() {
		return thorough
	}
	return quick
}

// Main parses the common flags and runs one property's harness.
//   <bin> --seed N --tier quick|thorough --out DIR [--replay FILE]
//   <bin> child <name> args...      (chain-level cases run in child processes)
func Main(prop string, f func(*Ctx) error, children map[string]func([]string) int) {
	if len(os.Args) >= 2 && os.Args[1] == "child" {
		if len(os.Args) < 3 || children == nil || children[os.Args[2]] == nil {
			fmt.Fprintln(os.Stderr, "unknown child")
			os.Exit(2)
		}
		os.Exit(children[os.Args[2]](os.Args[3:]))
	}
	fs := flag.NewFlagSet(prop, flag.ExitOnError)
	seed := fs.Uint64("seed", 1, "")
	tier := fs.String("tier", "quick", "")
	out := fs.String("out", "", "")
	replay := fs.String("replay", "", "")
	fs.Parse(os.Args[1:])
	if *out == "" {
		fmt.Fprintln(os.Stderr, "usage: --seed N --tier quick|thorough --out DIR [--replay FILE]")
		os.Exit(2)
	}
	os.MkdirAll(*out, 0755)
	ctx := &Ctx{Prop: prop, Seed: *seed, Tier: *tier, Out: *out, Replay: *replay,
		Rng: &Rng{s: *seed*0x9e3779b97f4a7c15 + 0x1234567}, Stats: NewStats(prop, *seed, *tier),
		Cases: &CaseFile{descr: map[int]interface{}{}}}
	if err := f(ctx); err != nil {
		fmt.Fprintln(os.Stderr, "harness error:", err)
		os.Exit(3)
	}
	js, _ := json.MarshalIndent(ctx.Stats, "", " ")
	if err := os.WriteFile(filepath.Join(*out, "stats.json"), js, 0644); err != nil {
		fmt.Fprintln(os.Stderr, err)
		os.Exit(3)
	}
}

// NewRng gives an independent stream derived from a seed (e.g. per case).
func NewRng(seed uint64) *Rng { return &Rng{s: seed*0x9e3779b97f4a7c15 + 0x1234567} }
