// C19 — the node restarts cleanly from a crash at any storage write boundary.
//
// A case is a bounded history (trunk, a fork with a reorganisation, sup links carried by epoch-closing
// blocks, verification messages) delivered to a real node (protocol.Chain, 4-key federation, epoch
// length 4) whose database is a write-logging wrapper: every Set/SetSync/Delete/DeleteSync/batch Write
// that changes something is one numbered WRITE UNIT.  For every boundary k (quick tier: a sample that
// always contains the boundaries inside the interesting steps) the database state after the first k
// units is rebuilt in a fresh store, the node is started on it, its state is dumped, the remaining
// steps (from the interrupted one on) are delivered again and the final state is dumped.
//
// Stream "epochfork" (two corpus cases that run first, then seeded random histories drawn until both hash orders
// occurred): a fork that spans an epoch boundary and is stored before the finalization, so that TWO checkpoint
// records exist at the height of the checkpoint that is finalized afterwards (by carried links or verification
// messages); every restart after that has to root the checkpoint tree at the finalized record and not at its
// sibling, whichever of the two hashes sorts first (buckets epochfork-history:* and restart-on-finalized-checkpoint:*).
//
// Oracle (Go only, independent of the model):
//
//	O1 startup succeeds (no error, no panic);
//	O2 the restarted node's state is one the crash-free node passed through: its ledger part (best block,
//	   main-chain index, tracked utxo entries, InMainChain), its finality part (last justified, last
//	   finalized) and the statuses of the stored checkpoint records each equal the crash-free node's before or
//	   after the interrupted step;
//	O3 after re-delivery the dump (with the checkpoint statuses) equals the crash-free run's final dump.
//
// Oracle failures are classified structurally from the database at the crash point and the history; the
// recorded classes (known_findings.json) are checkpoint-before-block (a checkpoint record without its block:
// startup error), growing-checkpoint-lost (the crash-free winner is a stored block of an unfinished epoch that
// the restarted node never re-applies), stored-block-not-adopted (the interrupted epoch-closing block is stored,
// wins by its sup link, is not higher than the persisted best block), finalization-in-flight (a stored checkpoint
// above the persisted finalized pointer already has status Finalized) and own-vote-erased (the re-delivered copy
// of the stored interrupted block overwrote the header with fewer signatures).  Anything else — startup error or
// panic without a dangling checkpoint, ledger or finality part off the crash-free path, hang, any other
// difference after re-delivery — is an unknown class and fails the check.
// The Coq model C19/Model.v is evaluated on every (history, k) and compared with the node on the
// projected observables (startup class; best/justified/finalized after restart and after re-delivery;
// the main-chain index after re-delivery).
package main

import (
	"bufio"
	"bytes"
	"encoding/json"
	"fmt"
	"os"
	"os/exec"
	"reflect"
	"sort"
	"strings"
	"time"

	dbm "github.com/bytom/bytom/database/leveldb"
	"github.com/bytom/bytom/protocol/bc"
	"github.com/bytom/bytom/protocol/bc/types"
	"github.com/bytom/bytom/protocol/state"
	cl "verifharness/chainlib"
	. "verifharness/hlib"
)

func main() { Main("C19", run, map[string]func([]string) int{"hist": childHist}) }

// ---------------------------------------------------------------- write-logging database

type wop struct {
	Del bool
	K   string
	V   []byte
}

type unit struct{ Ops []wop }

// logDB delegates reads and iteration to an in-memory backend and records every write as one unit.
type logDB struct {
	inner dbm.DB
	log   *[]unit
}

func newLogDB(log *[]unit) *logDB { return &logDB{inner: dbm.NewMemDB(), log: log} }

func (d *logDB) commit(ops []wop) {
	// a unit that cannot change the database (an empty batch) is not a boundary
	if len(ops) == 0 {
		return
	}
	if d.log != nil {
		*d.log = append(*d.log, unit{ops})
	}
	apply(d.inner, ops)
}

func apply(db dbm.DB, ops []wop) {
	for _, o := range ops {
		if o.Del {
			db.Delete([]byte(o.K))
		} else {
			db.Set([]byte(o.K), append([]byte{}, o.V...))
		}
	}
}

func (d *logDB) Get(k []byte) []byte    { return d.inner.Get(k) }
func (d *logDB) Set(k, v []byte)        { d.commit([]wop{{false, string(k), append([]byte{}, v...)}}) }
func (d *logDB) SetSync(k, v []byte)    { d.Set(k, v) }
func (d *logDB) Delete(k []byte)        { d.commit([]wop{{true, string(k), nil}}) }
func (d *logDB) DeleteSync(k []byte)    { d.Delete(k) }
func (d *logDB) Close()                 {}
func (d *logDB) Iterator() dbm.Iterator { return d.inner.Iterator() }
func (d *logDB) IteratorPrefix(p []byte) dbm.Iterator {
	return d.inner.IteratorPrefix(p)
}
func (d *logDB) IteratorPrefixWithStart(p, s []byte, r bool) dbm.Iterator {
	return d.inner.IteratorPrefixWithStart(p, s, r)
}
func (d *logDB) Print()                   {}
func (d *logDB) Stats() map[string]string { return nil }
func (d *logDB) NewBatch() dbm.Batch      { return &logBatch{d: d} }

type logBatch struct {
	d   *logDB
	ops []wop
}

func (b *logBatch) Set(k, v []byte) {
	b.ops = append(b.ops, wop{false, string(k), append([]byte{}, v...)})
}
func (b *logBatch) Delete(k []byte) { b.ops = append(b.ops, wop{true, string(k), nil}) }
func (b *logBatch) Write()          { b.d.commit(b.ops); b.ops = nil }

// key prefixes of database/store_geter.go
const (
	pfxHashes = 2
	pfxHeader = 3
	pfxTxs    = 4
	pfxIndex  = 5
	pfxCkpt   = 6
	pfxUtxo   = 7
)

func unitKind(u unit) string {
	has := map[string]bool{}
	for _, o := range u.Ops {
		switch {
		case o.K == "blockStore":
			has["status"] = true
		case len(o.K) > 1 && o.K[1] == ':':
			switch o.K[0] {
			case pfxCkpt:
				has["ckpt"] = true
			case pfxTxs:
				has["block"] = true
			case pfxHeader:
				has["header"] = true
			}
		}
	}
	switch {
	case has["status"]:
		return "status"
	case has["ckpt"]:
		return "ckpt"
	case has["block"]:
		return "block"
	case has["header"]:
		return "header"
	}
	return "other"
}

// danglingCheckpoints lists the checkpoint records whose block header is absent.
func danglingCheckpoints(db dbm.DB) []string {
	var r []string
	it := db.IteratorPrefix([]byte{pfxCkpt, ':'})
	defer it.Release()
	for it.Next() {
		k := it.Key()
		if len(k) < 2+8+32 {
			continue
		}
		h := k[10:42]
		if db.Get(append([]byte{pfxHeader, ':'}, h...)) == nil {
			r = append(r, fmt.Sprintf("%x", h))
		}
	}
	return r
}

// finalizationInFlight: some stored checkpoint above the persisted finalized pointer has status Finalized
// (the finalization was written by SaveCheckpoints, the pointer waits for the next SaveChainStatus).
func finalizationInFlight(db dbm.DB) bool {
	raw := db.Get([]byte("blockStore"))
	if raw == nil {
		return false
	}
	var st state.BlockStoreState
	if json.Unmarshal(raw, &st) != nil {
		return false
	}
	it := db.IteratorPrefix([]byte{pfxCkpt, ':'})
	defer it.Release()
	for it.Next() {
		var c state.Checkpoint
		if json.Unmarshal(it.Value(), &c) != nil {
			continue
		}
		if c.Status == state.Finalized && c.Height > st.FinalizedHeight {
			return true
		}
	}
	return false
}

// ---------------------------------------------------------------- case description

// Spec is what the parent draws from the PRNG; the child expands it deterministically.
type Spec struct {
	ID     int
	Stream string
	Seed   uint64
	Trunk  int   // blocks on branch A
	ForkAt int   // height of the last common block of A and B (0 = genesis); -1: no fork
	ForkLn int   // blocks on branch B
	Carry  []int // per mille chance etc. are resolved by the parent: heights (A: h, B: 100+h) whose block carries sup links
	CarryN []int // how many foreign signatures the carried sup link has (same order as Carry)
	Votes  []int // heights on A after which verification messages for that block are sent
	VoteN  []int // how many keys vote
	Inter  int   // interleaving mode of A and B: 0 = A first, 1 = alternate, 2 = B as early as possible
	SkipA  []int // epochfork stream: extra time slots skipped by the i-th block of A (absent: 0)
	SkipB  []int // epochfork stream: the same for B (nil: the first block of B skips 1 or 2 slots drawn from Seed)
	// which boundaries to test
	From   int
	Stride int   // 1 = all
	Extra  []int // always test the boundaries of these step kinds (filled by child)
}

type stepT struct {
	Kind  string   // "block" | "vote"
	Block int      // label of the block (delivered block, or target of the vote)
	Src   int      // vote: label of the source
	Key   int      // vote: which key
	Links [][2]int // block: carried sup links as (source label, number of foreign signatures)
}

type proj struct {
	Best, Just, Fin int
	Height          uint64
	Index           []int
	Utxos           []int // per tracked output: -1 absent, else height*2+spent
	InMain          []int // labels in main chain
	Ckpt            []int // per epoch-closing block (label order): status of its stored checkpoint record, -1 absent
}

type histOut struct {
	T       string `json:"t"`
	NBlocks int
	Parent  []int
	Height  []uint64
	Rank    []int
	Steps   []stepT
	Effect  []string // per step: what the crash-free node did ("", "justify:<t>:<s>", "err", "orphan")
	Bounds  []int    // Bounds[i] = number of units after step i (Bounds[0] = after startup on the empty store)
	Kinds   []string // kind of every unit
	Dumps   []proj   // Dumps[i] = state after step i (0 = fresh node)
	Skipped int      // votes withheld because they were predicted to move the best chain
}

type resOut struct {
	T        string `json:"t"`
	K        int
	Step     int    // the interrupted step (1-based index into Steps; K == Bounds[Step-1] means a clean restart before it)
	Startup  string // "ok" | "err" | "panic"
	ErrText  string
	Dangling []string
	FinLag   bool  // a stored checkpoint above the persisted finalized pointer already has status Finalized
	Stored   []int // labels of the blocks whose header is stored at the crash point
	SigLost  bool  // after re-delivery the stored header of the interrupted block has fewer sup-link signatures than the crash-free node's
	State    *proj
	Final    *proj
	Hang     bool
	ReErr    []string
}

// ---------------------------------------------------------------- child

type world struct {
	w      *cl.World
	blocks []*cl.BlockInfo // label -> block (0 = genesis)
	label  map[bc.Hash]int
	outs   []bc.Hash
	links  map[int]types.SupLinks // label -> sup links attached to the delivered copy
}

func (x *world) add(b *cl.BlockInfo) int {
	x.blocks = append(x.blocks, b)
	x.label[b.Hash] = len(x.blocks) - 1
	for _, o := range b.RewardOuts() {
		x.outs = append(x.outs, o.ID())
	}
	return len(x.blocks) - 1
}

func (x *world) lab(h string) int {
	for i, b := range x.blocks {
		if b.Hash.String() == h {
			return i
		}
	}
	return -1
}

func (x *world) project(n *cl.Node) proj {
	var hashes []bc.Hash
	maxH := uint64(0)
	for _, b := range x.blocks {
		hashes = append(hashes, b.Hash)
		if b.Block.Height > maxH {
			maxH = b.Block.Height
		}
	}
	d := n.Dump(x.outs, hashes, maxH+1)
	p := proj{Best: x.lab(d.Best), Just: x.lab(d.Justified), Fin: x.lab(d.Finalized), Height: d.Height}
	for _, s := range d.Index {
		if s == "" {
			p.Index = append(p.Index, -1)
		} else {
			p.Index = append(p.Index, x.lab(s))
		}
	}
	for _, o := range x.outs {
		u := d.Utxos[o.String()]
		if u == nil {
			p.Utxos = append(p.Utxos, -1)
		} else {
			v := int(u.Height) * 2
			if u.Spent {
				v++
			}
			p.Utxos = append(p.Utxos, v)
		}
	}
	for i, b := range x.blocks {
		if d.InMain[b.Hash.String()] {
			p.InMain = append(p.InMain, i)
		}
	}
	for i, b := range x.blocks {
		if b.Block.Height%x.w.Opt.BlocksOfEpoch == 0 {
			p.Ckpt = append(p.Ckpt, x.status(n, i))
		}
	}
	return p
}

func ledgerEq(a, b *proj) bool {
	return a.Best == b.Best && a.Height == b.Height && fmt.Sprint(a.Index) == fmt.Sprint(b.Index) &&
		fmt.Sprint(a.Utxos) == fmt.Sprint(b.Utxos) && fmt.Sprint(a.InMain) == fmt.Sprint(b.InMain)
}

// deliver runs one step on a node with a timeout; hang = the node did not answer.
func (x *world) deliver(n *cl.Node, s stepT) (res string, hang bool) {
	done := make(chan string, 1)
	go func() {
		switch s.Kind {
		case "block":
			b := cl.CloneBlock(x.blocks[s.Block].Block)
			if l, ok := x.links[s.Block]; ok {
				b.SupLinks = cloneLinks(l)
			}
			orphan, err := n.Chain.ProcessBlock(b)
			switch {
			case err != nil:
				done <- "err"
			case orphan:
				done <- "orphan"
			default:
				done <- "ok"
			}
		case "vote":
			err := n.Chain.ProcessBlockVerification(x.w.Vote(s.Key, x.blocks[s.Src].Hash, x.blocks[s.Block].Hash))
			if err != nil {
				done <- "err"
			} else {
				done <- "ok"
			}
		}
	}()
	select {
	case r := <-done:
		return r, false
	case <-time.After(20 * time.Second):
		return "hang", true
	}
}

// panicText: log.Panic panics with its *logrus.Entry (time stamp, pointers): keep the message only
func panicText(e interface{}) string {
	if v := reflect.ValueOf(e); v.Kind() == reflect.Ptr && !v.IsNil() && v.Elem().Kind() == reflect.Struct {
		if m := v.Elem().FieldByName("Message"); m.IsValid() && m.Kind() == reflect.String {
			return "panic: " + m.String()
		}
	}
	return fmt.Sprint(e)
}

func cloneLinks(l types.SupLinks) types.SupLinks {
	var r types.SupLinks
	for _, s := range l {
		c := *s
		r = append(r, &c)
	}
	return r
}

// nearest ancestor checkpoint (epoch-closing block or genesis) of label t whose stored status is Justified
func (x *world) justifiedSource(n *cl.Node, t int) int {
	E := x.w.Opt.BlocksOfEpoch
	for b := x.blocks[t].Parent; b != nil; b = b.Parent {
		if b.Block.Height%E != 0 {
			continue
		}
		h := b.Hash
		c, err := n.Store.GetCheckpoint(&h)
		if err != nil {
			return -1
		}
		if c.Status == state.Justified {
			return x.label[b.Hash]
		}
		if c.Status == state.Finalized {
			return -1
		}
	}
	return -1
}

func (x *world) status(n *cl.Node, t int) int {
	h := x.blocks[t].Hash
	c, err := n.Store.GetCheckpoint(&h)
	if err != nil {
		return -1
	}
	return int(c.Status)
}

// countSigs: number of sup-link signatures in the stored header of a block (-1: not stored)
func countSigs(n *cl.Node, h bc.Hash) int {
	hd, err := n.Store.GetBlockHeader(&h)
	if err != nil {
		return -1
	}
	k := 0
	for _, sl := range hd.SupLinks {
		for _, sig := range sl.Signatures {
			if len(sig) != 0 {
				k++
			}
		}
	}
	return k
}

func emit(v interface{}) {
	b, _ := json.Marshal(v)
	os.Stdout.Write(append(b, '\n'))
}

func containsI(l []int, v int) int {
	for i, x := range l {
		if x == v {
			return i
		}
	}
	return -1
}

func childHist(args []string) int {
	var sp Spec
	if err := json.Unmarshal([]byte(args[0]), &sp); err != nil {
		fmt.Fprintln(os.Stderr, err)
		return 2
	}
	rng := NewRng(sp.Seed)
	w := cl.Init(cl.DefaultOptions())
	x := &world{w: w, label: map[bc.Hash]int{}, links: map[int]types.SupLinks{}}
	x.add(w.Genesis)
	E := int(w.Opt.BlocksOfEpoch)

	// ---- the block tree: branch A (labels 1..Trunk), branch B from the block of height ForkAt
	var A, B []int
	tip := w.Genesis
	for i := 0; i < sp.Trunk; i++ {
		skip := 0
		if i < len(sp.SkipA) {
			skip = sp.SkipA[i]
		}
		tip = w.NewBlock(tip, nil, cl.BlockOpt{Skip: skip})
		A = append(A, x.add(tip))
	}
	if sp.ForkAt >= 0 && sp.ForkLn > 0 {
		tip = w.Genesis
		if sp.ForkAt > 0 {
			tip = x.blocks[A[sp.ForkAt-1]]
		}
		for i := 0; i < sp.ForkLn; i++ {
			skip := 0
			if sp.SkipB != nil {
				if i < len(sp.SkipB) {
					skip = sp.SkipB[i]
				}
			} else if i == 0 {
				skip = 1 + rng.Intn(2)
			}
			tip = w.NewBlock(tip, nil, cl.BlockOpt{Skip: skip})
			B = append(B, x.add(tip))
		}
	}
	// delivery order (parents first)
	var order []int
	switch sp.Inter {
	case 0:
		order = append(append(order, A...), B...)
	case 1:
		i, j := 0, 0
		for i < len(A) || j < len(B) {
			if i < len(A) && (j >= len(B) || i < sp.ForkAt || (i+j)%2 == 0) {
				order = append(order, A[i])
				i++
			} else {
				order = append(order, B[j])
				j++
			}
		}
	default:
		i, j := 0, 0
		for i < len(A) || j < len(B) {
			if i < sp.ForkAt || j >= len(B) {
				order = append(order, A[i])
				i++
			} else {
				order = append(order, B[j])
				j++
			}
		}
	}

	// ---- crash-free run on a logging database; sup links and votes are chosen against the node's state
	var log []unit
	db := newLogDB(&log)
	n, err := cl.NewNodeOnDB("", db)
	if err != nil {
		emit(map[string]interface{}{"t": "fresh-fail", "Err": err.Error()})
		emit(map[string]interface{}{"t": "done"})
		return 0
	}
	ho := histOut{T: "hist", NBlocks: len(x.blocks)}
	ho.Bounds = append(ho.Bounds, len(log))
	ho.Dumps = append(ho.Dumps, x.project(n))
	runStep := func(s stepT) bool {
		before := map[int]int{}
		for i, b := range x.blocks {
			if int(b.Block.Height)%E == 0 {
				before[i] = x.status(n, i)
			}
		}
		r, hang := x.deliver(n, s)
		if hang {
			emit(map[string]interface{}{"t": "fresh-fail", "Err": fmt.Sprintf("crash-free run hangs at step %d", len(ho.Steps)+1)})
			emit(map[string]interface{}{"t": "done"})
			os.Exit(0)
			return false
		}
		eff := ""
		if r != "ok" {
			eff = r
		}
		// which checkpoint became justified through which source during this step
		for i := range before {
			if before[i] == int(state.Unjustified) || before[i] == -1 {
				if st := x.status(n, i); st == int(state.Justified) || (st == int(state.Finalized) && before[i] != st) {
					src := -1
					if s.Kind == "vote" {
						src = s.Src
					} else if len(s.Links) > 0 {
						src = s.Links[0][0]
					}
					eff = fmt.Sprintf("justify:%d:%d", i, src)
				}
			}
		}
		ho.Steps = append(ho.Steps, s)
		ho.Effect = append(ho.Effect, eff)
		ho.Bounds = append(ho.Bounds, len(log))
		ho.Dumps = append(ho.Dumps, x.project(n))
		return true
	}
	for _, lb := range order {
		b := x.blocks[lb]
		h := int(b.Block.Height)
		code := h
		if containsI(B, lb) >= 0 {
			code = 100 + h
		}
		s := stepT{Kind: "block", Block: lb}
		if ci := containsI(sp.Carry, code); ci >= 0 && h%E == 0 {
			if src := x.justifiedSource(n, lb); src >= 0 {
				nsig := sp.CarryN[ci]
				var sl types.SupLinks
				for k := 1; k <= nsig && k < 4; k++ {
					sl.AddSupLink(x.blocks[src].Block.Height, x.blocks[src].Hash, cl.SignVote(w.Keys[k], x.blocks[src].Hash, b.Hash), k)
				}
				x.links[lb] = sl
				s.Links = append(s.Links, [2]int{src, nsig})
			}
		}
		if !runStep(s) {
			return 2
		}
		if vi := containsI(sp.Votes, code); vi >= 0 && h%E == 0 {
			for k := 1; k <= sp.VoteN[vi] && k < 4; k++ {
				// only targets on the main chain: such a vote cannot move the best chain (a vote that does deadlocks the pinned node, C37)
				if !n.Chain.InMainChain(b.Hash) || n.Chain.FinalizedHeight() >= b.Block.Height {
					ho.Skipped++
					continue
				}
				src := x.justifiedSource(n, lb)
				if src < 0 {
					ho.Skipped++
					continue
				}
				if !runStep(stepT{Kind: "vote", Block: lb, Src: src, Key: k}) {
					return 2
				}
			}
		}
	}
	for _, u := range log {
		ho.Kinds = append(ho.Kinds, unitKind(u))
	}
	for i, b := range x.blocks {
		p := -1
		if b.Parent != nil {
			p = x.label[b.Parent.Hash]
		}
		ho.Parent = append(ho.Parent, p)
		ho.Height = append(ho.Height, b.Block.Height)
		_ = i
	}
	// rank of the hexadecimal hash strings
	idx := make([]int, len(x.blocks))
	for i := range idx {
		idx[i] = i
	}
	sort.Slice(idx, func(a, b int) bool { return x.blocks[idx[a]].Hash.String() < x.blocks[idx[b]].Hash.String() })
	ho.Rank = make([]int, len(x.blocks))
	for r, i := range idx {
		ho.Rank[i] = r
	}
	emit(ho)

	// ---- every selected boundary
	total := len(log)
	for k := sp.From; k <= total; k++ {
		step := 1
		for step < len(ho.Bounds) && ho.Bounds[step] <= k {
			step++
		}
		// step = index of the first step with Bounds[step] > k: the interrupted one (len(Steps)+1: none)
		inside := step < len(ho.Bounds) && k > ho.Bounds[step-1]
		if sp.Stride > 1 && !inside && k%sp.Stride != 0 && k != total {
			continue
		}
		if sp.Stride > 1 && inside && ho.Bounds[step]-ho.Bounds[step-1] <= 2 && ho.Kinds[k-1] == "block" && ho.Effect[step-1] == "" &&
			len(ho.Steps[step-1].Links) == 0 && k%sp.Stride != 0 {
			continue // plain block, crash between SaveBlock and SaveChainStatus: sampled
		}
		emit(map[string]interface{}{"t": "at", "K": k})
		r := resOut{T: "res", K: k, Step: step}
		mem := dbm.NewMemDB()
		for _, u := range log[:k] {
			apply(mem, u.Ops)
		}
		r.Dangling = danglingCheckpoints(mem)
		r.FinLag = finalizationInFlight(mem)
		for i, b := range x.blocks {
			if mem.Get(append([]byte{pfxHeader, ':'}, b.Hash.Bytes()...)) != nil {
				r.Stored = append(r.Stored, i)
			}
		}
		var rn *cl.Node
		func() {
			defer func() {
				if e := recover(); e != nil {
					r.Startup, r.ErrText = "panic", panicText(e)
				}
			}()
			var err error
			rn, err = cl.NewNodeOnDB("", &logDB{inner: mem})
			if err != nil {
				r.Startup, r.ErrText = "err", err.Error()
			} else {
				r.Startup = "ok"
			}
		}()
		if r.Startup == "ok" {
			p := x.project(rn)
			r.State = &p
			for i := step; i <= len(ho.Steps); i++ {
				res, hang := x.deliver(rn, ho.Steps[i-1])
				if hang {
					r.Hang = true
					break
				}
				if res != "ok" {
					r.ReErr = append(r.ReErr, fmt.Sprintf("%d:%s", i, res))
				}
			}
			if !r.Hang {
				f := x.project(rn)
				r.Final = &f
				if step <= len(ho.Steps) && ho.Steps[step-1].Kind == "block" {
					hh := x.blocks[ho.Steps[step-1].Block].Hash
					r.SigLost = countSigs(rn, hh) < countSigs(n, hh)
				}
			}
		}
		emit(r)
	}
	emit(map[string]interface{}{"t": "done"})
	return 0
}

// ---------------------------------------------------------------- parent

type caseResult struct {
	FreshFail string
	Hist      histOut
	Res       []resOut
	Err       string
}

func runChild(sp Spec, timeout time.Duration) caseResult {
	var cr caseResult
	from := sp.From
	for attempt := 0; attempt < 40; attempt++ {
		sp.From = from
		js, _ := json.Marshal(sp)
		cmd := exec.Command(os.Args[0], "child", "hist", string(js))
		var stderr bytes.Buffer
		cmd.Stderr = &stderr
		out, err := cmd.StdoutPipe()
		if err != nil {
			cr.Err = err.Error()
			return cr
		}
		if err := cmd.Start(); err != nil {
			cr.Err = err.Error()
			return cr
		}
		timer := time.AfterFunc(timeout, func() { cmd.Process.Kill() })
		sc := bufio.NewScanner(out)
		sc.Buffer(make([]byte, 1<<20), 1<<26)
		at, done := -1, false
		for sc.Scan() {
			line := sc.Bytes()
			var t struct {
				T string `json:"t"`
				K int
			}
			if json.Unmarshal(line, &t) != nil {
				continue
			}
			switch t.T {
			case "fresh-fail":
				var ff struct{ Err string }
				json.Unmarshal(line, &ff)
				cr.FreshFail = "error: " + ff.Err
			case "hist":
				json.Unmarshal(line, &cr.Hist)
			case "at":
				at = t.K
			case "res":
				var r resOut
				json.Unmarshal(line, &r)
				cr.Res = append(cr.Res, r)
				at = -1
			case "done":
				done = true
			}
		}
		cmd.Wait()
		timer.Stop()
		if done {
			return cr
		}
		if at < 0 {
			cr.Err = "child died outside a crash point: " + tail(stderr.String())
			return cr
		}
		// the child died (panic in the chain's goroutine) or was killed while testing boundary `at`
		step := 1
		for step < len(cr.Hist.Bounds) && cr.Hist.Bounds[step] <= at {
			step++
		}
		cr.Res = append(cr.Res, resOut{T: "res", K: at, Step: step, Startup: "died", ErrText: tail(stderr.String())})
		from = at + 1
	}
	return cr
}

func tail(s string) string {
	if len(s) > 600 {
		return s[len(s)-600:]
	}
	return s
}

func drawSpec(r *Rng, id int, stream string) Spec {
	sp := Spec{ID: id, Stream: stream, Seed: r.Next(), Stride: 1}
	if stream == "epochfork" {
		return drawEpochFork(r, sp)
	}
	switch stream {
	case "trunk":
		sp.Trunk, sp.ForkAt = 5+r.Intn(8), -1
	case "reorg":
		sp.Trunk = 5 + r.Intn(8)
		sp.ForkAt = r.Intn(sp.Trunk)
		sp.ForkLn = 1 + r.Intn(sp.Trunk-sp.ForkAt+2)
		sp.Inter = r.Intn(3)
	default: // finality
		sp.Trunk = 8 + r.Intn(6)
		if r.Chance(70) {
			sp.ForkAt = r.Intn(sp.Trunk)
			sp.ForkLn = 1 + r.Intn(sp.Trunk-sp.ForkAt+2)
			sp.Inter = r.Intn(3)
		} else {
			sp.ForkAt = -1
		}
	}
	if stream != "trunk" || r.Chance(50) {
		for _, h := range []int{4, 8, 12, 104, 108, 112} {
			switch r.Intn(5) {
			case 0, 1:
				sp.Carry = append(sp.Carry, h)
				sp.CarryN = append(sp.CarryN, []int{3, 3, 2, 1}[r.Intn(4)])
			case 2:
				if h < 100 {
					sp.Votes = append(sp.Votes, h)
					sp.VoteN = append(sp.VoteN, []int{3, 2, 2, 1}[r.Intn(4)])
				}
			}
		}
	}
	return sp
}

// drawEpochFork: a fork that spans an epoch boundary, so that two checkpoints exist at one height, and the
// finalization of one of them: branch B leaves A below height 4 and reaches at least height 4 (sometimes 8);
// B is delivered before or interleaved with A (a block forking below the finalized checkpoint is rejected, so
// the sibling must be stored before the finalization); A4 carries the link genesis -> A4 signed by keys 1,2,3
// (justified whether or not the node's own vote went to B4); A8 is justified through A4, which finalizes A4,
// either by a carried link or by verification messages; A12 likewise (finalizes A8) in part of the cases.
// The time slots skipped by single blocks vary the hashes, so that both hash orders of the two sibling
// checkpoints occur (the parent draws until they do).
func drawEpochFork(r *Rng, sp Spec) Spec {
	sp.Trunk = 9 + r.Intn(5)
	sp.ForkAt = r.Intn(4)
	sp.ForkLn = 4 - sp.ForkAt + []int{0, 0, 1, 1, 2, 4, 5}[r.Intn(7)]
	sp.Inter = 1 + r.Intn(2)
	for i := 0; i < 8; i++ {
		k := 0
		if r.Chance(25) {
			k = 1
		}
		sp.SkipA = append(sp.SkipA, k)
	}
	sp.SkipB = []int{sp.SkipA[sp.ForkAt] + 1 + r.Intn(2)} // differs from A's block on the same parent
	for i := 1; i < sp.ForkLn; i++ {
		k := 0
		if r.Chance(25) {
			k = 1
		}
		sp.SkipB = append(sp.SkipB, k)
	}
	sp.Carry, sp.CarryN = []int{4}, []int{3}
	for _, h := range []int{8, 12} {
		switch {
		case h == 12 && r.Chance(40):
		case r.Chance(70):
			sp.Carry, sp.CarryN = append(sp.Carry, h), append(sp.CarryN, 3)
		default:
			sp.Votes, sp.VoteN = append(sp.Votes, h), append(sp.VoteN, 3)
		}
	}
	if r.Chance(30) { // the abandoned checkpoint carries a link that stays below the supermajority
		sp.Carry, sp.CarryN = append(sp.Carry, 104), append(sp.CarryN, 1+r.Intn(2))
	}
	return sp
}

// siblingOrders: for every non-genesis checkpoint the crash-free node reported as last finalized and every stored
// block of the same height (a sibling checkpoint), whether the sibling's hash sorts before or after it.
func siblingOrders(h histOut) map[string]bool {
	r := map[string]bool{}
	if len(h.Dumps) == 0 {
		return r
	}
	stored := map[int]bool{}
	for i, s := range h.Steps {
		if s.Kind == "block" && h.Effect[i] != "err" && h.Effect[i] != "orphan" {
			stored[s.Block] = true
		}
	}
	seen := map[int]bool{}
	for _, d := range h.Dumps {
		f := d.Fin
		if f <= 0 || seen[f] {
			continue
		}
		seen[f] = true
		for b := range stored {
			if b != f && h.Height[b] == h.Height[f] {
				if h.Rank[b] < h.Rank[f] {
					r["sibling-sorts-before-finalized"] = true
				} else {
					r["sibling-sorts-after-finalized"] = true
				}
			}
		}
	}
	return r
}

type failure struct {
	known bool
	class string
	what  string
	c     interface{}
}

func run(c *Ctx) error {
	var specs []Spec
	id := 0
	// corpus: the witnesses of the recorded classes run first on every check
	corpus := []Spec{
		// a fork across the first epoch boundary (B3..B5 from A2, delivered before A3..), A4 finalized by A8's carried
		// link, restarts from every boundary up to A10: B4's hash sorts before A4's (first case), after it (second)
		{Stream: "corpus-epochfork-sibling-before", Seed: 2, Trunk: 10, ForkAt: 2, ForkLn: 3, Carry: []int{4, 8}, CarryN: []int{3, 3}, Inter: 2},
		{Stream: "corpus-epochfork-sibling-after", Seed: 2, Trunk: 10, ForkAt: 1, ForkLn: 4, Carry: []int{4, 8}, CarryN: []int{3, 3}, Inter: 2},
		{Stream: "corpus-checkpoint-before-block", Seed: 5, Trunk: 5, ForkAt: -1},
		{Stream: "corpus-growing-lost", Seed: 5, Trunk: 6, ForkAt: 4, ForkLn: 1},
		{Stream: "corpus-stored-not-adopted", Seed: 5, Trunk: 10, ForkAt: 5, ForkLn: 3, Carry: []int{108}, CarryN: []int{3}},
		{Stream: "corpus-finalization-in-flight", Seed: 5, Trunk: 9, ForkAt: 3, ForkLn: 7, Carry: []int{4, 108}, CarryN: []int{3, 3}, Votes: []int{8}, VoteN: []int{3}},
	}
	corpus = append(corpus, Spec{Stream: "corpus-own-vote-erased", Seed: 7773590968004101420, Trunk: 5, ForkAt: 1, ForkLn: 3,
		Carry: []int{4, 104, 112}, CarryN: []int{3, 1, 2}, Inter: 2})
	for _, sp := range corpus {
		sp.ID, sp.Stride = id, 1
		specs = append(specs, sp)
		id++
	}
	add := func(stream string, n int) {
		for i := 0; i < n; i++ {
			specs = append(specs, drawSpec(c.Rng, id, stream))
			id++
		}
	}
	add("trunk", c.N(2, 8))
	add("reorg", c.N(8, 45))
	add("finality", c.N(10, 60))
	stride := c.N(2, 1)
	for i := range specs {
		if i >= len(corpus) {
			specs[i].Stride = stride
		}
	}
	replaying := false
	if c.Replay != "" { // --replay FILE: only the history of the recorded failure, every boundary
		var rj struct {
			Failure struct{ Case struct{ Spec *Spec } }
		}
		if raw, err := os.ReadFile(c.Replay); err == nil && json.Unmarshal(raw, &rj) == nil && rj.Failure.Case.Spec != nil {
			sp := *rj.Failure.Case.Spec
			sp.From, sp.Stride = 0, 1
			specs, replaying = []Spec{sp}, true
		}
	}
	c.Stats.Rule = "a case (history, crash point k) counts as non-trivial when k lies strictly inside a step (between two write units of one block delivery or verification message)"
	var fails []failure
	orders := map[string]int{}
	runSpec := func(sp Spec) error {
		cr := runChild(sp, 10*time.Minute)
		if cr.Err != "" {
			return fmt.Errorf("case %d: %s", sp.ID, cr.Err)
		}
		for o := range siblingOrders(cr.Hist) {
			c.Stats.Count("history-finalized-checkpoint:" + o)
			if strings.Contains(sp.Stream, "epochfork") {
				orders[o]++
				c.Stats.Count("epochfork-history:" + o)
			}
		}
		fails = append(fails, judge(c, sp, cr)...)
		return nil
	}
	for _, sp := range specs {
		if err := runSpec(sp); err != nil {
			return err
		}
	}
	// epochfork: drawn until each hash order of (finalized checkpoint, sibling checkpoint) occurred in `want` histories
	want, most := c.N(3, 6), c.N(12, 40)
	for i := 0; !replaying && i < most && (i < c.N(6, 16) || orders["sibling-sorts-before-finalized"] < want || orders["sibling-sorts-after-finalized"] < want); i++ {
		sp := drawSpec(c.Rng, id, "epochfork")
		sp.Stride = stride
		id++
		if err := runSpec(sp); err != nil {
			return err
		}
	}
	if !replaying && (orders["sibling-sorts-before-finalized"] == 0 || orders["sibling-sorts-after-finalized"] == 0) {
		return fmt.Errorf("epochfork stream: the two hash orders of sibling checkpoints did not both occur: %v", orders)
	}
	// unknown classes first; at most 3 witnesses per class (hlib keeps 20 failures)
	per := map[string]int{}
	for pass := 0; pass < 2; pass++ {
		for _, f := range fails {
			if f.known != (pass == 1) {
				continue
			}
			per[f.class]++
			if per[f.class] <= 3 {
				c.Stats.Fail(f.what, f.c)
			}
		}
	}
	for cl, n := range per {
		c.Stats.Extra["failures:"+cl] = n
	}
	c.Cases.Shard = 60
	return c.Cases.Write(c.Out, "From Coq Require Import List NArith.\nFrom C19 Require Import Model Run.\nImport ListNotations.\nOpen Scope N_scope.", "obs", "obs_eqb")
}

func kindCode(k string) int {
	switch k {
	case "ckpt":
		return 1
	case "block":
		return 2
	case "header":
		return 3
	case "status":
		return 4
	}
	return 9
}

func judge(c *Ctx, sp Spec, cr caseResult) []failure {
	h := cr.Hist
	if cr.FreshFail != "" {
		c.Stats.Count("oracle-failure:fresh-node-fails")
		return []failure{{false, "fresh-node-fails", "class=fresh-node-fails: NewChain on an empty store: " + cr.FreshFail, map[string]interface{}{"spec": sp}}}
	}
	if len(h.Dumps) == 0 {
		c.Stats.Count("oracle-failure:crash-free-run-fails")
		return []failure{{false, "crash-free-run-fails", "class=crash-free-run-fails: the crash-free run did not complete", map[string]interface{}{"spec": sp}}}
	}
	E := uint64(4)
	c.Stats.Count("stream:" + sp.Stream)
	c.Stats.Count(fmt.Sprintf("history-steps:%02d-%02d", len(h.Steps)/5*5, len(h.Steps)/5*5+4))
	c.Stats.Count(fmt.Sprintf("history-units:%02d-%02d", len(h.Kinds)/10*10, len(h.Kinds)/10*10+9))
	for _, e := range h.Effect {
		if e == "" {
			e = "plain"
		}
		c.Stats.Count("step-effect:" + strings.SplitN(e, ":", 2)[0])
	}
	for _, s := range h.Steps {
		c.Stats.Count("step-kind:" + s.Kind)
	}
	reorgs := 0
	for i := 1; i < len(h.Dumps); i++ {
		if pb := h.Dumps[i-1].Best; h.Dumps[i].Best != pb && h.Parent[h.Dumps[i].Best] != pb {
			reorgs++
		}
	}
	c.Stats.Count(fmt.Sprintf("history-reorgs:%d", reorgs))
	final := h.Dumps[len(h.Dumps)-1]
	lab := func(i int) int { return h.Rank[i] + 1 } // model label = rank of the hash string + 1
	// ---- model inputs
	var blocks []string
	for i := 0; i < h.NBlocks; i++ {
		p := 0
		if h.Parent[i] >= 0 {
			p = lab(h.Parent[i])
		}
		blocks = append(blocks, fmt.Sprintf("(%d, (%d, %d))", lab(i), p, h.Height[i]))
	}
	var steps []string
	for i, s := range h.Steps {
		justified := strings.HasPrefix(h.Effect[i], "justify:")
		if s.Kind == "block" {
			carry := "None"
			if len(s.Links) > 0 && justified { // the count is an input of the model: observed on the crash-free run (signatures of keys that already voted at this height are dropped)
				carry = fmt.Sprintf("(Some %d)", lab(s.Links[0][0]))
			}
			steps = append(steps, fmt.Sprintf("SBlock %d %s", lab(s.Block), carry))
		} else if h.Effect[i] == "err" && h.Bounds[i+1] == h.Bounds[i] {
			// the crash-free node rejected the message without writing anything (its key already signed another block of
			// this height: verifySameHeight, C18). Like the vote count this is an input of the model: label 0 is no block,
			// so the step is "target not in the tree", which writes nothing
			steps = append(steps, "SVote 0 0 false")
			c.Stats.Count("vote-rejected-by-crash-free-node")
		} else {
			steps = append(steps, fmt.Sprintf("SVote %d %d %s", lab(s.Block), lab(s.Src), CoqBool(justified)))
		}
	}
	maxH := uint64(0)
	for _, x := range h.Height {
		if x > maxH {
			maxH = x
		}
	}
	tri := func(p *proj) string { return fmt.Sprintf("(%d, %d, %d)", lab(p.Best), lab(p.Just), lab(p.Fin)) }
	var fails []failure
	fail := func(known bool, class, detail string, r resOut) {
		c.Stats.Count("oracle-failure:" + class)
		fails = append(fails, failure{known, class, "class=" + class + ": " + detail,
			map[string]interface{}{"spec": sp, "crash_after_units": r.K, "interrupted_step": r.Step, "steps": h.Steps,
				"parent": h.Parent, "height": h.Height, "hash_rank": h.Rank, "unit_kinds": h.Kinds, "bounds": h.Bounds, "result": r}})
	}
	isDesc := func(x, anc int) bool {
		for ; x >= 0; x = h.Parent[x] {
			if x == anc {
				return true
			}
		}
		return false
	}
	for _, r := range cr.Res {
		inside := r.Step < len(h.Bounds) && r.K > h.Bounds[r.Step-1]
		kind := "none"
		if r.K > 0 {
			kind = h.Kinds[r.K-1]
		}
		c.Stats.Case(fmt.Sprintf("%d/%d", sp.ID, r.K), inside)
		c.Stats.Count("crash-after-unit:" + kind)
		c.Stats.Count("startup:" + r.Startup)
		if inside {
			c.Stats.Count("crash-inside-step:" + h.Steps[r.Step-1].Kind)
		} else {
			c.Stats.Count("crash-at-step-boundary")
		}
		pre := h.Dumps[r.Step-1]
		post := pre
		if r.Step < len(h.Dumps) {
			post = h.Dumps[r.Step]
		}
		stored := map[int]bool{}
		for _, b := range r.Stored {
			stored[b] = true
		}
		voteErased := false
		// ---- O1 startup
		switch {
		case r.Startup == "ok":
		case r.Startup == "err" && len(r.Dangling) > 0:
			fail(true, "checkpoint-before-block", fmt.Sprintf("NewChain fails on the database after %d write units: checkpoint record %s is stored, its block is not (crash between SaveCheckpoints and SaveBlock of one block)", r.K, r.Dangling[0][:8]), r)
		default:
			fail(false, "startup-"+r.Startup, fmt.Sprintf("NewChain on the database after %d write units: %s", r.K, r.ErrText), r)
		}
		// ---- O2 / O3
		if r.Startup == "ok" {
			s := r.State
			if !ledgerEq(s, &pre) && !ledgerEq(s, &post) {
				fail(false, "ledger-off-path", fmt.Sprintf("after restart at unit %d the ledger part (best %d) is neither the crash-free node's before nor after step %d", r.K, s.Best, r.Step), r)
			}
			if (s.Just != pre.Just && s.Just != post.Just) || (s.Fin != pre.Fin && s.Fin != post.Fin) {
				if r.FinLag {
					fail(true, "finalization-in-flight", fmt.Sprintf("after restart at unit %d last finalized = block %d, the crash-free node reported %d (finalized checkpoint stored, pointer not yet)", r.K, s.Fin, pre.Fin), r)
				} else {
					fail(false, "finality-off-path", fmt.Sprintf("after restart at unit %d justified/finalized = %d/%d, crash-free %d/%d before and %d/%d after the step", r.K, s.Just, s.Fin, pre.Just, pre.Fin, post.Just, post.Fin), r)
				}
			}
			if ck := fmt.Sprint(s.Ckpt); ck != fmt.Sprint(pre.Ckpt) && ck != fmt.Sprint(post.Ckpt) {
				fail(false, "checkpoints-off-path", fmt.Sprintf("after restart at unit %d the stored checkpoint statuses %v are neither the crash-free node's before (%v) nor after (%v) step %d", r.K, s.Ckpt, pre.Ckpt, post.Ckpt, r.Step), r)
			}
			if s.Fin > 0 {
				for _, b := range r.Stored {
					if b != s.Fin && h.Height[b] == h.Height[s.Fin] {
						if h.Rank[b] < h.Rank[s.Fin] {
							c.Stats.Count("restart-on-finalized-checkpoint:sibling-sorts-before")
						} else {
							c.Stats.Count("restart-on-finalized-checkpoint:sibling-sorts-after")
						}
					}
				}
			}
			switch {
			case r.Hang:
				fail(false, "hang-after-restart", fmt.Sprintf("re-delivery after restart at unit %d does not return", r.K), r)
			case r.Final == nil:
				fail(false, "no-final-state", "", r)
			case ledgerEq(r.Final, &final) && r.Final.Just == final.Just && r.Final.Fin == final.Fin && fmt.Sprint(r.Final.Ckpt) == fmt.Sprint(final.Ckpt):
				c.Stats.Count("converged")
			default:
				f := r.Final
				detail := fmt.Sprintf("after restart at unit %d and re-delivery from step %d: best/justified/finalized = %d/%d/%d, crash-free run %d/%d/%d", r.K, r.Step, f.Best, f.Just, f.Fin, final.Best, final.Just, final.Fin)
				// only the stored checkpoint statuses differ (the recorded classes are recognised by the same structural conditions)
				ckptOnly := ledgerEq(f, &final) && f.Just == final.Just && f.Fin == final.Fin
				if ckptOnly {
					detail += fmt.Sprintf("; statuses of the stored checkpoint records %v, crash-free run %v", f.Ckpt, final.Ckpt)
					c.Stats.Count("differs-in-checkpoint-statuses-only")
				}
				W := final.Best
				reapplied := false
				for i := r.Step; i <= len(h.Steps); i++ {
					if st := h.Steps[i-1]; st.Kind == "block" && isDesc(st.Block, W) {
						reapplied = true
					}
				}
				cur := -1
				if inside && h.Steps[r.Step-1].Kind == "block" {
					cur = h.Steps[r.Step-1].Block
				}
				switch {
				case r.FinLag:
					fail(true, "finalization-in-flight", detail, r)
				case r.SigLost && cur >= 0 && stored[cur] && h.Height[cur]%E == 0:
					voteErased = !ckptOnly // best/justified/finalized and the index agree: the model is still evaluated
					fail(true, "own-vote-erased", detail+fmt.Sprintf(" (block %d was stored with the node's own vote; the re-delivered copy overwrote the header without it)", cur), r)
				case cur >= 0 && stored[cur] && post.Best == cur && h.Height[cur] <= s.Height && f.Best != final.Best:
					fail(true, "stored-block-not-adopted", detail+fmt.Sprintf(" (block %d was stored, the chain status was not; re-delivery returns 'already processed')", cur), r)
				case h.Height[W]%E != 0 && stored[W] && !reapplied && f.Best != W:
					fail(true, "growing-checkpoint-lost", detail+fmt.Sprintf(" (block %d of an unfinished epoch is stored but is no candidate of the rebuilt checkpoint tree)", W), r)
				case ckptOnly:
					fail(false, "checkpoint-status-differs", detail, r)
				default:
					fail(false, "no-convergence", detail, r)
				}
			}
		} else if r.Startup == "died" {
			// already reported by O1
		}
		// ---- model case
		su := map[string]int{"ok": 0, "err": 1, "panic": 2}
		code, okc := su[r.Startup]
		if !okc || r.Hang {
			continue // a dead or hung node has no projected state: judged by the oracle only
		}
		if voteErased {
			c.Stats.Count("model-skipped:signature-lost")
			continue // stored signatures changed: the model's input "this link reaches a supermajority" (observed on the crash-free run) does not describe the re-delivery
		}
		obs := fmt.Sprintf("(%d, %d, %d, ", code, kindCode(kind)%9, len(h.Kinds))
		if kind == "none" {
			obs = fmt.Sprintf("(%d, 0, %d, ", code, len(h.Kinds))
		}
		if r.State != nil {
			obs += "Some " + tri(r.State) + ", "
		} else {
			obs += "None, "
		}
		if r.Final != nil {
			var idx []string
			for _, x := range r.Final.Index {
				if x < 0 {
					idx = append(idx, "0")
				} else {
					idx = append(idx, fmt.Sprint(lab(x)))
				}
			}
			obs += "Some (" + tri(r.Final) + ", " + CoqList(idx) + "))"
		} else {
			obs += "None)"
		}
		model := fmt.Sprintf("run_case %s %d %s %d%%nat %d", CoqList(blocks), lab(0), CoqList(steps), r.K, maxH+1)
		cid := c.Cases.Add(model, obs)
		c.Stats.Count("model_evaluated")
		c.Stats.CaseIndex[fmt.Sprint(cid)] = map[string]interface{}{"spec": sp, "crash_after_units": r.K}
	}
	if len(cr.Res) > 0 {
		c.Stats.Sample(map[string]interface{}{"spec": sp, "steps": len(h.Steps), "units": len(h.Kinds), "crash_points": len(cr.Res), "unit_kinds": h.Kinds})
	}
	return fails
}
