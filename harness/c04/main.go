package main

// C04 — encoding round-trips every well-formed ledger value.
//
// Generates well-formed transactions, block headers and blocks (all input and output types,
// nil vs empty slices, 0-5 suffix bytes on every suffix field, vote outputs with state data,
// unknown asset versions, 0-12 sup links, boundary integers), sends them through the real
// MarshalText / UnmarshalText (and encoding/json for headers and blocks) and applies
//   * the direct oracle: decode(encode x) equals x field by field (nil and empty slices are the
//     same value, SerializedSize = number of bytes), same transaction ID / block hash,
//     encode(decode(encode x)) = encode x, size stable — on the implementation alone;
//   * the correspondence: the same value run through the Coq model (C04/Model.v, C04/Run.v):
//     bytes and decoded value must agree.
// A second stream mutates valid encodings (byte flips, non-canonical but legal forms) and feeds
// every value the implementation still decodes back into the oracle; a third one holds values the
// writer must refuse (integers above MaxInt64).  The historical witness (spend input with
// SpendCommitmentSuffix aabb, formerly written twice) is a fixed regression case.

import (
	"bytes"
	"encoding/hex"
	"encoding/json"
	"fmt"
	"hash/fnv"
	"io"
	"math"
	"os"
	"runtime"
	"strings"
	"sync"

	"github.com/bytom/bytom/blockchain/txbuilder"
	"github.com/bytom/bytom/consensus"
	"github.com/bytom/bytom/errors"
	"github.com/bytom/bytom/protocol/bc"
	"github.com/bytom/bytom/protocol/bc/types"
	"verifharness/chainlib"
	. "verifharness/hlib"
)

func main() { Main("C04", runC04, nil) }

// short key for the distinctness bookkeeping
func hk(s string) string {
	h := fnv.New64a()
	h.Write([]byte(s))
	return fmt.Sprintf("%d:%x", len(s), h.Sum64())
}

// ---------------------------------------------------------------- generator

type gen struct {
	c   *Ctx
	rng *Rng
	big bool // allow a few long byte strings (2- and 3-byte length prefixes)
}

// nil vs empty vs short vs (rarely) long
func (g *gen) bytes(max int) []byte {
	r := g.rng
	switch x := r.Intn(100); {
	case x < 12:
		return nil
	case x < 20:
		return []byte{}
	case x < 93:
		return r.Bytes(1 + r.Intn(max))
	case x < 98 || !g.big:
		return r.Bytes(120 + r.Intn(20)) // around the 1-byte/2-byte length prefix boundary (127/128)
	default:
		return r.Bytes(16380 + r.Intn(8)) // around the 2-byte/3-byte boundary (16383/16384)
	}
}

func (g *gen) suffix() []byte {
	r := g.rng
	switch x := r.Intn(100); {
	case x < 45:
		return nil
	case x < 50:
		return []byte{}
	default:
		return r.Bytes(1 + r.Intn(5))
	}
}

func (g *gen) list() [][]byte {
	r := g.rng
	switch x := r.Intn(100); {
	case x < 25:
		return nil
	case x < 32:
		return [][]byte{}
	default:
		n := 1 + r.Intn(4)
		l := make([][]byte, n)
		for i := range l {
			l[i] = g.bytes(12)
		}
		return l
	}
}

var boundaries = []uint64{0, 1, 2, 127, 128, 129, 255, 256, 16383, 16384, 1<<21 - 1, 1 << 21, 1<<28 - 1, 1 << 28,
	1<<31 - 1, 1 << 31, 1<<32 - 1, 1 << 32, 1<<35 - 1, 1 << 35, 1<<42 - 1, 1 << 42, 1<<49 - 1, 1 << 49,
	1<<56 - 1, 1 << 56, 1 << 62, 1<<63 - 2, 1<<63 - 1}

func (g *gen) u63() uint64 {
	r := g.rng
	switch x := r.Intn(100); {
	case x < 35:
		return boundaries[r.Intn(len(boundaries))]
	case x < 60:
		return uint64(r.Intn(1000))
	default:
		return (r.Next() >> 1) >> uint(r.Intn(63))
	}
}

func (g *gen) hash() bc.Hash {
	var b [32]byte
	if g.rng.Chance(8) {
		return bc.Hash{} // zero hash
	}
	copy(b[:], g.rng.Bytes(32))
	return bc.NewHash(b)
}

func (g *gen) assetID() *bc.AssetID {
	a := bc.AssetID(g.hash())
	return &a
}

func (g *gen) spendCommitment() types.SpendCommitment {
	return types.SpendCommitment{
		AssetAmount:    bc.AssetAmount{AssetId: g.assetID(), Amount: g.u63()},
		SourceID:       g.hash(),
		SourcePosition: g.u63(),
		VMVersion:      1,
		ControlProgram: g.bytes(40),
		StateData:      g.list(),
	}
}

// kinds: 0 issuance 1 spend 2 coinbase 3 veto 4 unknown asset version
func (g *gen) input(kind int) *types.TxInput {
	in := &types.TxInput{AssetVersion: 1, CommitmentSuffix: g.suffix(), WitnessSuffix: g.suffix()}
	switch kind {
	case 0:
		in.TypedInput = &types.IssuanceInput{Nonce: g.bytes(16), Amount: g.u63(), AssetDefinition: g.bytes(40),
			VMVersion: g.u63(), IssuanceProgram: g.bytes(40), Arguments: g.list()}
		if g.rng.Chance(70) {
			in.TypedInput.(*types.IssuanceInput).VMVersion = 1
		}
	case 1:
		in.TypedInput = &types.SpendInput{SpendCommitmentSuffix: g.suffix(), Arguments: g.list(), SpendCommitment: g.spendCommitment()}
	case 2:
		in.TypedInput = &types.CoinbaseInput{Arbitrary: g.bytes(24)}
	case 3:
		in.TypedInput = &types.VetoInput{VetoCommitmentSuffix: g.suffix(), Arguments: g.list(), Vote: g.bytes(64), SpendCommitment: g.spendCommitment()}
	default:
		in.AssetVersion = g.u63()
		if in.AssetVersion == 1 {
			in.AssetVersion = 2
		}
		in.CommitmentSuffix, in.WitnessSuffix = g.bytes(30), g.bytes(30)
	}
	return in
}

func (g *gen) output() *types.TxOutput {
	r := g.rng
	out := &types.TxOutput{AssetVersion: 1, CommitmentSuffix: g.suffix()}
	if r.Chance(45) {
		out.TypedOutput = &types.VoteOutput{Vote: g.bytes(64)}
	} else {
		out.TypedOutput = types.NewOriginalTxOutput(bc.AssetID{}, 0, nil, nil).TypedOutput
	}
	if r.Chance(8) { // unknown asset version: no commitment, only the suffix
		out.AssetVersion = g.u63()
		if out.AssetVersion == 1 {
			out.AssetVersion = 3
		}
		out.CommitmentSuffix = g.bytes(30)
		return out
	}
	out.OutputCommitment = types.OutputCommitment{AssetAmount: bc.AssetAmount{AssetId: g.assetID(), Amount: g.u63()},
		VMVersion: 1, ControlProgram: g.bytes(40), StateData: g.list()}
	return out
}

// mappable: only asset version 1 inputs (what MapTx handles; blocks hold only such transactions)
func (g *gen) tx(mappable bool) *types.TxData {
	r := g.rng
	tx := &types.TxData{Version: g.u63(), TimeRange: g.u63()}
	if r.Chance(60) {
		tx.Version = 1
	}
	nin, nout := r.Intn(6), r.Intn(6)
	if r.Chance(6) {
		nin = 0
	}
	if r.Chance(3) {
		nin, nout = 20+r.Intn(120), 130 // counts with a 2-byte prefix
		if !g.big {
			nin, nout = 6, 6
		}
	}
	if r.Chance(10) {
		tx.Inputs = []*types.TxInput{} // empty, not nil
	}
	for i := 0; i < nin; i++ {
		k := r.Intn(5)
		if k == 4 && (mappable || r.Chance(50)) {
			k = 1
		}
		if k == 0 && r.Chance(50) { // issuances cost SHA3 evaluations in the model
			k = 3
		}
		tx.Inputs = append(tx.Inputs, g.input(k))
	}
	for i := 0; i < nout; i++ {
		tx.Outputs = append(tx.Outputs, g.output())
	}
	if r.Chance(10) && nout == 0 {
		tx.Outputs = []*types.TxOutput{}
	}
	return tx
}

func (g *gen) supLink() *types.SupLink {
	r := g.rng
	sl := &types.SupLink{SourceHeight: g.u63(), SourceHash: g.hash()}
	for i := range sl.Signatures {
		switch x := r.Intn(100); {
		case x < 50:
		case x < 55:
			sl.Signatures[i] = []byte{}
		case x < 92:
			sl.Signatures[i] = r.Bytes(64)
		default:
			sl.Signatures[i] = g.bytes(70)
		}
	}
	return sl
}

func (g *gen) header() *types.BlockHeader {
	r := g.rng
	bh := &types.BlockHeader{Version: g.u63(), Height: g.u63(), PreviousBlockHash: g.hash(), Timestamp: g.u63()}
	bh.TransactionsMerkleRoot = g.hash()
	switch x := r.Intn(100); {
	case x < 15:
	case x < 20:
		bh.BlockWitness = types.BlockWitness{}
	case x < 85:
		bh.BlockWitness = r.Bytes(64)
	default:
		bh.BlockWitness = g.bytes(130)
	}
	n := 0
	switch x := r.Intn(100); {
	case x < 25:
	case x < 30:
		bh.SupLinks = types.SupLinks{}
	case x < 90:
		n = 1 + r.Intn(4)
	default:
		n = 5 + r.Intn(8)
	}
	for i := 0; i < n; i++ {
		bh.SupLinks = append(bh.SupLinks, g.supLink())
	}
	return bh
}

func (g *gen) block() *types.Block {
	r := g.rng
	b := &types.Block{BlockHeader: *g.header()}
	n := r.Intn(4)
	if r.Chance(10) {
		b.Transactions = []*types.Tx{}
	}
	for i := 0; i < n; i++ {
		b.Transactions = append(b.Transactions, types.NewTx(*g.tx(true)))
	}
	return b
}

// ---------------------------------------------------------------- Coq literals / canonical dump

// a byte string as (W len [words]): seven bytes to a primitive 63-bit integer literal
func cB(b []byte) string {
	if len(b) == 0 {
		return "[]"
	}
	var sb strings.Builder
	fmt.Fprintf(&sb, "(W %d [", len(b))
	for i := 0; i < len(b); i += 7 {
		j := i + 7
		if j > len(b) {
			j = len(b)
		}
		if i > 0 {
			sb.WriteString(";")
		}
		sb.WriteString("0x" + hex.EncodeToString(b[i:j]))
	}
	sb.WriteString("]%uint63)")
	return sb.String()
}
func cBL(l [][]byte) string {
	s := make([]string, len(l))
	for i, b := range l {
		s[i] = cB(b)
	}
	return "[" + strings.Join(s, "; ") + "]"
}
func cHash(h bc.Hash) string { return cB(h.Bytes()) }

func cSC(sc *types.SpendCommitment) string {
	if sc.AssetId == nil {
		panic("harness: spend commitment without asset id")
	}
	return fmt.Sprintf("(mkSC %s %s %d %d %d %s %s)", cHash(sc.SourceID), cB(sc.AssetId.Bytes()), sc.Amount,
		sc.SourcePosition, sc.VMVersion, cB(sc.ControlProgram), cBL(sc.StateData))
}

func cInput(in *types.TxInput) string {
	ty := "None"
	switch t := in.TypedInput.(type) {
	case *types.IssuanceInput:
		ty = fmt.Sprintf("(Some (Issuance %s %d %s %d %s %s))", cB(t.Nonce), t.Amount, cB(t.AssetDefinition), t.VMVersion,
			cB(t.IssuanceProgram), cBL(t.Arguments))
	case *types.SpendInput:
		ty = fmt.Sprintf("(Some (Spend %s %s %s))", cSC(&t.SpendCommitment), cB(t.SpendCommitmentSuffix), cBL(t.Arguments))
	case *types.CoinbaseInput:
		ty = fmt.Sprintf("(Some (Coinbase %s))", cB(t.Arbitrary))
	case *types.VetoInput:
		ty = fmt.Sprintf("(Some (Veto %s %s %s %s))", cSC(&t.SpendCommitment), cB(t.VetoCommitmentSuffix), cB(t.Vote), cBL(t.Arguments))
	case nil:
	default:
		panic("harness: unknown typed input")
	}
	return fmt.Sprintf("(mkIn %d %s %s %s)", in.AssetVersion, ty, cB(in.CommitmentSuffix), cB(in.WitnessSuffix))
}

func cOutput(o *types.TxOutput) string {
	ty := "OutOriginal"
	if v, ok := o.TypedOutput.(*types.VoteOutput); ok {
		ty = "(OutVote " + cB(v.Vote) + ")"
	}
	oc := "None"
	if o.AssetId != nil {
		oc = fmt.Sprintf("(Some (mkOC %s %d %d %s %s))", cB(o.AssetId.Bytes()), o.Amount, o.VMVersion, cB(o.ControlProgram), cBL(o.StateData))
	} else if o.Amount != 0 || o.VMVersion != 0 || len(o.ControlProgram) != 0 || len(o.StateData) != 0 {
		oc = "(* commitment without asset id *) None"
	}
	return fmt.Sprintf("(mkOut %d %s %s %s)", o.AssetVersion, ty, oc, cB(o.CommitmentSuffix))
}

// size < 0: leave SerializedSize out of the dump (0)
func cTx(tx *types.TxData, withSize bool) string {
	ins := make([]string, len(tx.Inputs))
	for i, in := range tx.Inputs {
		ins[i] = cInput(in)
	}
	outs := make([]string, len(tx.Outputs))
	for i, o := range tx.Outputs {
		outs[i] = cOutput(o)
	}
	size := uint64(0)
	if withSize {
		size = tx.SerializedSize
	}
	return fmt.Sprintf("(mkTx %d %d %d [%s] [%s])", tx.Version, size, tx.TimeRange, strings.Join(ins, "; "), strings.Join(outs, "; "))
}

func cHeader(bh *types.BlockHeader) string {
	sls := make([]string, len(bh.SupLinks))
	for i, sl := range bh.SupLinks {
		sigs := make([][]byte, len(sl.Signatures))
		copy(sigs, sl.Signatures[:])
		sls[i] = fmt.Sprintf("(mkSL %d %s %s)", sl.SourceHeight, cHash(sl.SourceHash), cBL(sigs))
	}
	return fmt.Sprintf("(mkBH %d %d %s %d %s %s [%s])", bh.Version, bh.Height, cHash(bh.PreviousBlockHash), bh.Timestamp,
		cHash(bh.TransactionsMerkleRoot), cB(bh.BlockWitness), strings.Join(sls, "; "))
}

func cBlock(b *types.Block, withSize bool) string {
	txs := make([]string, len(b.Transactions))
	for i, tx := range b.Transactions {
		txs[i] = cTx(&tx.TxData, withSize)
	}
	return fmt.Sprintf("(mkBlock %s [%s])", cHeader(&b.BlockHeader), strings.Join(txs, "; "))
}

func firstDiff(a, b string) string {
	i := 0
	for i < len(a) && i < len(b) && a[i] == b[i] {
		i++
	}
	lo := i - 60
	if lo < 0 {
		lo = 0
	}
	cut := func(s string) string {
		hi := i + 60
		if hi > len(s) {
			hi = len(s)
		}
		if lo > len(s) {
			return ""
		}
		return s[lo:hi]
	}
	return fmt.Sprintf("at offset %d: original ...%s... decoded ...%s...", i, cut(a), cut(b))
}

// ---------------------------------------------------------------- oracle (implementation only)

func mappable(tx *types.TxData) bool {
	for _, in := range tx.Inputs {
		if in.TypedInput == nil {
			return false
		}
	}
	return true
}

type txResult struct {
	raw     []byte        // hex-decoded MarshalText
	decoded *types.TxData // nil if marshal/unmarshal failed
	tag     int           // 0 ok, 1 marshal error, 2 unmarshal error, 3 panic
}

// the round-trip property for one transaction value
func oracleTx(x *types.TxData) (res txResult, fail string) {
	defer func() {
		if r := recover(); r != nil {
			res.tag = 3
			fail = fmt.Sprintf("class=panic: transaction round trip panicked: %v", r)
		}
	}()
	text, err := x.MarshalText()
	if err != nil {
		return txResult{tag: 1}, "class=marshal-error: TxData.MarshalText failed on a well-formed value: " + err.Error()
	}
	raw, _ := hex.DecodeString(string(text))
	res.raw = raw
	y := new(types.TxData)
	if err := y.UnmarshalText(text); err != nil {
		res.tag = 2
		return res, "class=unmarshal-error: TxData.UnmarshalText rejects the bytes MarshalText produced: " + err.Error()
	}
	res.decoded = y
	if a, b := cTx(x, false), cTx(y, false); a != b {
		return res, "class=roundtrip-differs: decoded transaction differs from the original " + firstDiff(a, b)
	}
	if y.SerializedSize != uint64(len(raw)) {
		return res, fmt.Sprintf("class=size: SerializedSize %d recorded for an encoding of %d bytes", y.SerializedSize, len(raw))
	}
	text2, err := y.MarshalText()
	if err != nil || !bytes.Equal(text, text2) {
		return res, fmt.Sprintf("class=bytes-not-stable: re-encoding the decoded transaction gives different bytes (%d then %d bytes)", len(text)/2, len(text2)/2)
	}
	if mappable(x) {
		idx := types.MapTx(x).ID
		var t types.Tx
		if err := t.UnmarshalText(text); err != nil {
			return res, "class=unmarshal-error: Tx.UnmarshalText: " + err.Error()
		}
		if t.ID != idx {
			return res, fmt.Sprintf("class=id-changed: transaction id %s became %s", idx.String(), t.ID.String())
		}
		if t.SerializedSize != uint64(len(raw)) || t.TxHeader.SerializedSize != uint64(len(raw)) {
			return res, "class=size: Tx.UnmarshalText records a different size"
		}
	}
	return res, ""
}

type hdrResult struct {
	raw     []byte
	decoded *types.BlockHeader
	tag     int
}

func oracleHeader(x *types.BlockHeader) (res hdrResult, fail string) {
	defer func() {
		if r := recover(); r != nil {
			res.tag = 3
			fail = fmt.Sprintf("class=panic: header round trip panicked: %v", r)
		}
	}()
	text, err := x.MarshalText()
	if err != nil {
		return hdrResult{tag: 1}, "class=marshal-error: BlockHeader.MarshalText failed on a well-formed value: " + err.Error()
	}
	res.raw, _ = hex.DecodeString(string(text))
	y := new(types.BlockHeader)
	if err := y.UnmarshalText(text); err != nil {
		res.tag = 2
		return res, "class=unmarshal-error: BlockHeader.UnmarshalText rejects the bytes MarshalText produced: " + err.Error()
	}
	res.decoded = y
	if a, b := cHeader(x), cHeader(y); a != b {
		return res, "class=roundtrip-differs: decoded header differs from the original " + firstDiff(a, b)
	}
	if x.Hash() != y.Hash() {
		return res, "class=id-changed: block hash changed by the round trip"
	}
	text2, err := y.MarshalText()
	if err != nil || !bytes.Equal(text, text2) {
		return res, "class=bytes-not-stable: re-encoding the decoded header gives different bytes"
	}
	// JSON form (a quoted hex string), as used by RPC and P2P structures
	js, err := json.Marshal(x)
	if err != nil {
		return res, "class=marshal-error: json.Marshal(header): " + err.Error()
	}
	z := new(types.BlockHeader)
	if err := json.Unmarshal(js, z); err != nil {
		return res, "class=unmarshal-error: json.Unmarshal(header): " + err.Error()
	}
	if a, b := cHeader(x), cHeader(z); a != b {
		return res, "class=roundtrip-differs: header differs after the JSON round trip " + firstDiff(a, b)
	}
	return res, ""
}

type blkResult struct {
	raw     [4][]byte // by flag
	decoded [4]*types.Block
	tag     [4]int
}

func marshalBlock(b *types.Block, flag int) ([]byte, error) {
	switch flag {
	case types.SerBlockHeader:
		return b.MarshalTextForBlockHeader()
	case types.SerBlockTransactions:
		return b.MarshalTextForTransactions()
	}
	return b.MarshalText()
}

func oracleBlock(x *types.Block) (res blkResult, fail string) {
	flag := 0
	defer func() {
		if r := recover(); r != nil {
			res.tag[flag] = 3
			fail = fmt.Sprintf("class=panic: block round trip (flag %d) panicked: %v", flag, r)
		}
	}()
	for flag = 1; flag <= 3; flag++ {
		text, err := marshalBlock(x, flag)
		if err != nil {
			res.tag[flag] = 1
			return res, fmt.Sprintf("class=marshal-error: Block marshal (flag %d) failed on a well-formed value: %v", flag, err)
		}
		res.raw[flag], _ = hex.DecodeString(string(text))
		y := new(types.Block)
		if err := y.UnmarshalText(text); err != nil {
			res.tag[flag] = 2
			return res, fmt.Sprintf("class=unmarshal-error: Block.UnmarshalText rejects the bytes of flag %d: %v", flag, err)
		}
		res.decoded[flag] = y
		want := &types.Block{BlockHeader: x.BlockHeader, Transactions: x.Transactions}
		if flag == types.SerBlockHeader {
			want.Transactions = nil
		}
		if flag == types.SerBlockTransactions {
			want.BlockHeader = types.BlockHeader{}
		}
		if a, b := cBlock(want, false), cBlock(y, false); a != b {
			return res, fmt.Sprintf("class=roundtrip-differs: decoded block (flag %d) differs from the original %s", flag, firstDiff(a, b))
		}
		if flag != types.SerBlockTransactions && y.Hash() != x.Hash() {
			return res, "class=id-changed: block hash changed by the round trip"
		}
		for i, tx := range y.Transactions {
			if tx.ID != x.Transactions[i].ID {
				return res, fmt.Sprintf("class=id-changed: id of transaction %d changed by the block round trip", i)
			}
			one, _ := x.Transactions[i].TxData.MarshalText()
			if tx.SerializedSize != uint64(len(one)/2) || tx.TxHeader.SerializedSize != uint64(len(one)/2) {
				return res, fmt.Sprintf("class=size: transaction %d of the decoded block records size %d, its encoding has %d bytes", i, tx.SerializedSize, len(one)/2)
			}
		}
		text2, err := marshalBlock(y, flag)
		if err != nil || !bytes.Equal(text, text2) {
			return res, fmt.Sprintf("class=bytes-not-stable: re-encoding the decoded block (flag %d) gives different bytes", flag)
		}
	}
	flag = 3
	js, err := json.Marshal(x)
	if err != nil {
		return res, "class=marshal-error: json.Marshal(block): " + err.Error()
	}
	z := new(types.Block)
	if err := json.Unmarshal(js, z); err != nil {
		return res, "class=unmarshal-error: json.Unmarshal(block): " + err.Error()
	}
	if a, b := cBlock(x, false), cBlock(z, false); a != b {
		return res, "class=roundtrip-differs: block differs after the JSON round trip " + firstDiff(a, b)
	}
	return res, ""
}

// ---------------------------------------------------------------- observations for the model

// sizes == nil: the decoded value is absent or differs from the expected one
func obsCoq(tag int, raw []byte, sizes []uint64) string {
	v := "None"
	if sizes != nil {
		ss := make([]string, len(sizes))
		for i, x := range sizes {
			ss[i] = fmt.Sprint(x)
		}
		v = "(Some [" + strings.Join(ss, "; ") + "])"
	}
	return fmt.Sprintf("(%d%%nat, %s, %s)", tag, cB(raw), v)
}

const maxLiteral = 14000 // larger cases go through the oracle only

func sizeBucket(n int) string {
	switch {
	case n == 0:
		return "0"
	case n <= 2:
		return "1-2"
	case n <= 5:
		return "3-5"
	case n <= 12:
		return "6-12"
	}
	return ">12"
}

func lenBucket(n int) string {
	switch {
	case n < 128:
		return "<128"
	case n < 1024:
		return "128-1023"
	case n < 16384:
		return "1024-16383"
	}
	return ">=16384"
}

func (g *gen) countTx(tx *types.TxData) {
	st := g.c.Stats
	st.Count("tx.inputs." + sizeBucket(len(tx.Inputs)))
	st.Count("tx.outputs." + sizeBucket(len(tx.Outputs)))
	for _, in := range tx.Inputs {
		switch t := in.TypedInput.(type) {
		case *types.IssuanceInput:
			st.Count("input.issuance")
		case *types.SpendInput:
			st.Count("input.spend")
			if len(t.SpendCommitmentSuffix) > 0 {
				st.Count("input.spend.commitment-suffix")
			}
		case *types.CoinbaseInput:
			st.Count("input.coinbase")
		case *types.VetoInput:
			st.Count("input.veto")
			if len(t.VetoCommitmentSuffix) > 0 {
				st.Count("input.veto.commitment-suffix")
			}
		default:
			st.Count("input.unknown-asset-version")
		}
		if len(in.CommitmentSuffix) > 0 {
			st.Count("input.commitment-suffix")
		}
		if len(in.WitnessSuffix) > 0 {
			st.Count("input.witness-suffix")
		}
	}
	for _, o := range tx.Outputs {
		if _, ok := o.TypedOutput.(*types.VoteOutput); ok {
			st.Count("output.vote")
			if len(o.StateData) > 0 {
				st.Count("output.vote.with-state-data")
			}
		} else {
			st.Count("output.original")
		}
		if o.AssetVersion != 1 {
			st.Count("output.unknown-asset-version")
		}
		if len(o.CommitmentSuffix) > 0 {
			st.Count("output.commitment-suffix")
		}
	}
}

// ---------------------------------------------------------------- mutation of valid encodings

func (g *gen) mutate(raw []byte) ([]byte, string) {
	r := g.rng
	out := append([]byte{}, raw...)
	if len(out) == 0 {
		return out, "empty"
	}
	switch x := r.Intn(100); {
	case x < 45:
		i := r.Intn(len(out))
		out[i] ^= 1 << uint(r.Intn(8))
		return out, "bit-flip"
	case x < 65:
		i := r.Intn(len(out))
		out[i] = byte(r.Next())
		return out, "byte-replace"
	case x < 75: // non-minimal varint for a small value: v -> v|0x80, 0x00
		i := r.Intn(len(out))
		if out[i] < 0x80 {
			out = append(out[:i], append([]byte{out[i] | 0x80, 0x00}, out[i+1:]...)...)
		}
		return out, "non-minimal-varint"
	case x < 85:
		i := r.Intn(len(out))
		out = append(out[:i], out[i+1:]...)
		return out, "byte-delete"
	case x < 93:
		i := r.Intn(len(out) + 1)
		out = append(out[:i], append([]byte{byte(r.Next())}, out[i:]...)...)
		return out, "byte-insert"
	default:
		return out[:r.Intn(len(out))], "truncate"
	}
}

// ---------------------------------------------------------------- the run

// yieldWriter hands the processor to another goroutine before it copies each chunk.
type yieldWriter struct{ buf []byte }

func (w *yieldWriter) Write(p []byte) (int, error) {
	runtime.Gosched()
	w.buf = append(w.buf, p...)
	return len(p), nil
}

func witnessTx() *types.TxData {
	in := types.NewSpendInput([][]byte{{1}}, bc.Hash{V0: 1}, bc.AssetID{V1: 2}, 5, 1, []byte{0x51}, nil)
	in.TypedInput.(*types.SpendInput).SpendCommitmentSuffix = []byte{0xaa, 0xbb}
	vin := types.NewVetoInput(nil, bc.Hash{V0: 7}, bc.AssetID{V1: 2}, 9, 0, []byte{0x51}, []byte{1, 2, 3}, [][]byte{{4}})
	vin.TypedInput.(*types.VetoInput).VetoCommitmentSuffix = []byte{0xcc}
	return &types.TxData{Version: 1, Inputs: []*types.TxInput{in, vin},
		Outputs: []*types.TxOutput{types.NewOriginalTxOutput(bc.AssetID{V1: 2}, 5, []byte{0x51}, nil)}}
}

func runC04(c *Ctx) error {
	nv := consensus.MaxNumOfValidators
	c.Stats.Extra["MaxNumOfValidators"] = nv
	g := &gen{c: c, rng: c.Rng}
	st := c.Stats
	header := "From Coq Require Import List NArith Bool Uint63.\nFrom Verif Require Import Outcome Cmp.\nFrom C04 Require Import Model Run.\nImport ListNotations.\nOpen Scope N_scope.\n"
	c.Cases.Shard = 100

	nCoqTx, nCoqHdr, nCoqBlk, nCoqMut, nCoqBad := c.N(420, 1500), c.N(110, 400), c.N(80, 300), c.N(220, 800), c.N(30, 100)

	addCase := func(model, observed string, desc map[string]interface{}) {
		id := c.Cases.Add(model, observed)
		st.CaseIndex[fmt.Sprint(id)] = desc
		st.Count("model_evaluated")
	}

	// ---- transactions
	doTx := func(tx *types.TxData, kind string, toCoq bool) {
		res, fail := oracleTx(tx)
		key := cTx(tx, false)
		desc := map[string]interface{}{"kind": kind, "value": key, "encoding": hex.EncodeToString(res.raw)}
		if len(key) > 6000 {
			desc["value"] = key[:6000] + "..."
			if len(res.raw) > 200 {
				desc["encoding"] = hex.EncodeToString(res.raw[:200]) + "..."
			}
		}
		if fail != "" {
			st.Fail(fail, desc)
		}
		g.countTx(tx)
		st.Count("tx.encoding-bytes." + lenBucket(len(res.raw)))
		st.Case("tx|"+hk(key), len(tx.Inputs)+len(tx.Outputs) >= 2)
		if len(st.Samples) < 2 && len(tx.Inputs) >= 2 && len(tx.Outputs) >= 1 && len(key) < 3000 {
			st.Sample(desc)
		}
		if lit := cTx(tx, true); toCoq && len(lit) < maxLiteral {
			var sizes []uint64
			if res.decoded != nil && cTx(res.decoded, false) == key {
				sizes = []uint64{res.decoded.SerializedSize}
			}
			addCase("run_tx "+lit, obsCoq(res.tag, res.raw, sizes), desc)
		}
	}
	doTx(witnessTx(), "regression-witness-spend-suffix", true)
	nTx := c.N(8000, 40000)
	for i := 0; i < nTx; i++ {
		g.big = i%97 == 5
		toCoq := i < nCoqTx && !g.big
		tx := g.tx(g.rng.Chance(55))
		if g.rng.Chance(30) {
			tx.SerializedSize = g.u63() // a stale recorded size must not matter
		}
		doTx(tx, "generated", toCoq)
	}
	g.big = false

	// ---- headers
	doHeader := func(bh *types.BlockHeader, toCoq bool) {
		res, fail := oracleHeader(bh)
		key := cHeader(bh)
		desc := map[string]interface{}{"kind": "header", "value": key, "encoding": hex.EncodeToString(res.raw)}
		if fail != "" {
			st.Fail(fail, desc)
		}
		st.Count("header.suplinks." + sizeBucket(len(bh.SupLinks)))
		st.Count("header.witness-bytes." + sizeBucket(len(bh.BlockWitness)))
		st.Case("header|"+hk(key), len(bh.SupLinks) >= 1)
		if toCoq && len(key) < maxLiteral {
			var sizes []uint64
			if res.decoded != nil && cHeader(res.decoded) == key {
				sizes = []uint64{}
			}
			addCase(fmt.Sprintf("run_header %d%%nat %s", nv, key), obsCoq(res.tag, res.raw, sizes), desc)
		}
	}
	nHdr := c.N(2500, 12000)
	for i := 0; i < nHdr; i++ {
		doHeader(g.header(), i < nCoqHdr)
	}

	// ---- blocks (three serialization flags each)
	nBlk := c.N(1000, 5000)
	for i := 0; i < nBlk; i++ {
		b := g.block()
		res, fail := oracleBlock(b)
		key := cBlock(b, false)
		desc := map[string]interface{}{"kind": "block", "value": key}
		if len(key) > 6000 {
			desc["value"] = key[:6000] + "..."
		}
		if fail != "" {
			st.Fail(fail, desc)
		}
		st.Count("block.transactions." + sizeBucket(len(b.Transactions)))
		st.Count("block.suplinks." + sizeBucket(len(b.SupLinks)))
		st.Case("block|"+hk(key), len(b.Transactions) >= 1)
		if len(st.Samples) < 4 && len(b.Transactions) >= 1 && len(key) < 4000 {
			st.Sample(desc)
		}
		if lit := cBlock(b, true); i < nCoqBlk && len(lit) < maxLiteral {
			flag := 1 + i%3
			if i%5 == 0 {
				flag = 3
			}
			var sizes []uint64
			if y := res.decoded[flag]; y != nil {
				want := &types.Block{BlockHeader: b.BlockHeader, Transactions: b.Transactions}
				if flag == types.SerBlockHeader {
					want.Transactions = nil
				}
				if flag == types.SerBlockTransactions {
					want.BlockHeader = types.BlockHeader{}
				}
				if cBlock(want, false) == cBlock(y, false) {
					sizes = []uint64{}
					for _, tx := range y.Transactions {
						sizes = append(sizes, tx.SerializedSize)
					}
				}
			}
			st.Count(fmt.Sprintf("block.model-flag.%d", flag))
			addCase(fmt.Sprintf("run_block %d%%nat %d %s", nv, flag, lit), obsCoq(res.tag[flag], res.raw[flag], sizes), desc)
		}
	}

	// ---- values the writer must refuse (boundary stream): an integer above MaxInt64
	for i := 0; i < nCoqBad; i++ {
		tx := g.tx(false)
		big := uint64(math.MaxInt64) + 1 + (g.rng.Next() >> uint(1+g.rng.Intn(63)))
		where := "version"
		switch k := g.rng.Intn(4); {
		case k == 0 || (len(tx.Inputs) == 0 && len(tx.Outputs) == 0):
			tx.Version = big
		case k == 1:
			tx.TimeRange, where = big, "time-range"
		case k == 2 && len(tx.Outputs) > 0:
			o := tx.Outputs[g.rng.Intn(len(tx.Outputs))]
			if o.AssetId != nil {
				o.Amount, where = big, "output-amount"
			} else {
				o.AssetVersion, where = big, "output-asset-version"
			}
		default:
			if len(tx.Inputs) == 0 {
				tx.Version = big
				break
			}
			in := tx.Inputs[g.rng.Intn(len(tx.Inputs))]
			where = "input"
			switch t := in.TypedInput.(type) {
			case *types.IssuanceInput:
				t.Amount = big
			case *types.SpendInput:
				t.SourcePosition = big
			case *types.VetoInput:
				t.Amount = big
			default:
				in.AssetVersion = big
			}
		}
		_, err := tx.MarshalText()
		tag := 0
		if err != nil {
			tag = 1
		}
		st.Count("unencodable." + where)
		st.Count(fmt.Sprintf("unencodable.result.%d", tag))
		desc := map[string]interface{}{"kind": "unencodable-" + where, "value": cTx(tx, false)}
		st.Case("bad|"+hk(cTx(tx, false)), false)
		addCase("run_tx "+cTx(tx, true), obsCoq(tag, nil, nil), desc)
	}

	// ---- mutated encodings: whatever still decodes is a value the node holds; it must round-trip
	nMut := c.N(12000, 70000)
	for i := 0; i < nMut; i++ {
		kind := g.rng.Intn(10)
		switch {
		case kind < 6: // transaction
			src := g.tx(false)
			text, err := src.MarshalText()
			if err != nil {
				st.Fail("class=marshal-error: TxData.MarshalText failed on a well-formed value: "+err.Error(), map[string]interface{}{"kind": "generated", "value": cTx(src, false)})
				continue
			}
			raw, _ := hex.DecodeString(string(text))
			mut, how := g.mutate(raw)
			st.Count("mutation." + how)
			y := new(types.TxData)
			err = func() (err error) {
				defer func() {
					if r := recover(); r != nil {
						err = fmt.Errorf("panic: %v", r)
						st.Fail(fmt.Sprintf("class=panic: TxData.UnmarshalText panicked on a mutated encoding: %v", r), map[string]interface{}{"bytes": hex.EncodeToString(mut)})
					}
				}()
				return y.UnmarshalText([]byte(hex.EncodeToString(mut)))
			}()
			desc := map[string]interface{}{"kind": "mutated-tx-" + how, "bytes": hex.EncodeToString(mut)}
			if err != nil {
				st.Count("mutation.tx.rejected")
				st.Case("mut|"+hk(string(mut)), false)
				if i < nCoqMut {
					addCase("run_dec_tx "+cB(mut)+" None", obsCoq(2, nil, nil), desc)
				}
				continue
			}
			st.Count("mutation.tx.decoded")
			res, fail := oracleTx(y)
			desc["value"] = cTx(y, true)
			if fail != "" {
				st.Fail(fail, desc)
			}
			st.Case("mut|"+hk(string(mut)), true)
			if i < nCoqMut {
				addCase("run_dec_tx "+cB(mut)+" (Some "+cTx(y, true)+")", obsCoq(0, res.raw, []uint64{y.SerializedSize}), desc)
			}
		case kind < 8: // header
			src := g.header()
			text, err := src.MarshalText()
			if err != nil {
				st.Fail("class=marshal-error: BlockHeader.MarshalText failed on a well-formed value: "+err.Error(), map[string]interface{}{"kind": "header", "value": cHeader(src)})
				continue
			}
			raw, _ := hex.DecodeString(string(text))
			mut, how := g.mutate(raw)
			st.Count("mutation." + how)
			y := new(types.BlockHeader)
			err = func() (err error) {
				defer func() {
					if r := recover(); r != nil {
						err = fmt.Errorf("panic: %v", r)
						st.Fail(fmt.Sprintf("class=panic: BlockHeader.UnmarshalText panicked on a mutated encoding: %v", r), map[string]interface{}{"bytes": hex.EncodeToString(mut)})
					}
				}()
				return y.UnmarshalText([]byte(hex.EncodeToString(mut)))
			}()
			desc := map[string]interface{}{"kind": "mutated-header-" + how, "bytes": hex.EncodeToString(mut)}
			if err != nil {
				st.Count("mutation.header.rejected")
				st.Case("mut|"+hk(string(mut)), false)
				if i < nCoqMut {
					addCase(fmt.Sprintf("run_dec_header %d%%nat %s None", nv, cB(mut)), obsCoq(2, nil, nil), desc)
				}
				continue
			}
			st.Count("mutation.header.decoded")
			res, fail := oracleHeader(y)
			desc["value"] = cHeader(y)
			if fail != "" {
				st.Fail(fail, desc)
			}
			st.Case("mut|"+hk(string(mut)), true)
			if i < nCoqMut {
				addCase(fmt.Sprintf("run_dec_header %d%%nat %s (Some %s)", nv, cB(mut), cHeader(y)), obsCoq(0, res.raw, []uint64{}), desc)
			}
		default: // block: oracle only (Block.UnmarshalText goes on to MapTx, which is C05's subject)
			src := g.block()
			text, err := src.MarshalText()
			if err != nil {
				st.Fail("class=marshal-error: Block.MarshalText failed on a well-formed value: "+err.Error(), map[string]interface{}{"kind": "block"})
				continue
			}
			raw, _ := hex.DecodeString(string(text))
			mut, how := g.mutate(raw)
			st.Count("mutation." + how)
			y := new(types.Block)
			err = func() (err error) {
				defer func() {
					if r := recover(); r != nil {
						err = fmt.Errorf("panic: %v", r)
					}
				}()
				return y.UnmarshalText([]byte(hex.EncodeToString(mut)))
			}()
			if err != nil {
				st.Count("mutation.block.rejected")
				st.Case("mut|"+hk(string(mut)), false)
				continue
			}
			st.Count("mutation.block.decoded")
			_, fail := oracleBlock(y)
			if fail != "" {
				st.Fail(fail, map[string]interface{}{"kind": "mutated-block-" + how, "bytes": hex.EncodeToString(mut)})
			}
			st.Case("mut|"+hk(string(mut)), true)
		}
	}

	// ---- interleaved stage: WriteTo streams into whatever io.Writer the caller hands in (a network
	// connection, a file); while one value is being written another goroutine may serialise another
	// value.  The bytes that reach each writer must be exactly the value's own encoding.  One P and a
	// writer that yields before it copies each chunk make every interleaving point reachable.
	{
		old := runtime.GOMAXPROCS(1)
		nI := c.N(60, 400)
		type job struct {
			name string
			want []byte
			run  func(w io.Writer) error
		}
		var jobs []job
		for i := 0; i < nI; i++ {
			tx := g.tx(true)
			hd := g.header()
			var b1, b2 bytes.Buffer
			if _, err := tx.WriteTo(&b1); err == nil {
				t := tx
				jobs = append(jobs, job{"tx", append([]byte{}, b1.Bytes()...), func(w io.Writer) error { _, e := t.WriteTo(w); return e }})
			}
			if _, err := hd.WriteTo(&b2); err == nil {
				h := hd
				jobs = append(jobs, job{"header", append([]byte{}, b2.Bytes()...), func(w io.Writer) error { _, e := h.WriteTo(w); return e }})
			}
		}
		got := make([][]byte, len(jobs))
		var wg sync.WaitGroup
		const lanes = 4
		for l := 0; l < lanes; l++ {
			wg.Add(1)
			go func(l int) {
				defer wg.Done()
				for i := l; i < len(jobs); i += lanes {
					w := &yieldWriter{}
					func() {
						defer func() { recover() }()
						jobs[i].run(w)
					}()
					got[i] = w.buf
				}
			}(l)
		}
		wg.Wait()
		runtime.GOMAXPROCS(old)
		for i, j := range jobs {
			if !bytes.Equal(got[i], j.want) {
				st.Fail(fmt.Sprintf("class=interleaved-encoding-differs: a %s written while other values are being serialised reaches its writer as %d bytes that differ from its own encoding (%d bytes) at %s", j.name, len(got[i]), len(j.want), firstDiff(hex.EncodeToString(got[i]), hex.EncodeToString(j.want))),
					map[string]interface{}{"kind": "interleaved", "value": j.name, "encoding": hex.EncodeToString(j.want)})
				break
			}
		}
		st.Count("interleaved-stage")
		st.Distribution["interleaved-jobs"] = len(jobs)
	}

	// ---- recorded size through the node's own finalisation step: txbuilder.FinalizeTx is where a
	// constructed (built, text-decoded, then signed) transaction gets the size the validator charges
	// storage gas for.  Whatever stale size the value carried in, after FinalizeTx got as far as
	// validation the recorded size is the length of the transaction's encoding.  (Runs last:
	// chainlib.Init sets the global consensus parameters.)
	{
		dir, err := os.MkdirTemp("", "c04fin")
		if err != nil {
			return err
		}
		defer os.RemoveAll(dir)
		o := chainlib.DefaultOptions()
		o.NKeys = 1
		chainlib.Init(o)
		node, err := chainlib.NewNode(dir)
		if err != nil {
			return fmt.Errorf("chainlib.NewNode: %v", err)
		}
		defer node.CloseSettled()
		nF := c.N(150, 1000)
		checked := 0
		for i := 0; i < nF; i++ {
			td := g.tx(true)
			enc, err := td.MarshalText()
			if err != nil {
				continue
			}
			real := uint64(len(enc) / 2)
			stale := []uint64{0, 1, real, real + 7, real / 2, 1 << 40}[c.Rng.Intn(6)]
			tx := types.NewTx(*td)
			tx.TxData.SerializedSize = stale
			tx.Tx.SerializedSize = stale
			var ferr error
			panicked := false
			func() {
				defer func() {
					if recover() != nil {
						panicked = true
					}
				}()
				ferr = txbuilder.FinalizeTx(nil, node.Chain, tx)
			}()
			if panicked {
				continue
			}
			switch errors.Root(ferr) {
			case txbuilder.ErrExtTxFee, txbuilder.ErrNoTxSighashAttempt, txbuilder.ErrTxSignatureFailure, txbuilder.ErrNoTxSighashCommitment:
				st.Count("finalize.returned-before-size")
				continue // returned before the size step
			}
			checked++
			if tx.TxData.SerializedSize != real || tx.Tx.SerializedSize != real {
				st.Fail(fmt.Sprintf("class=finalize-size: after txbuilder.FinalizeTx a transaction that came in with recorded size %d records %d / %d but its encoding has %d bytes", stale, tx.TxData.SerializedSize, tx.Tx.SerializedSize, real),
					map[string]interface{}{"kind": "finalize", "value": cTx(td, false), "stale": stale})
				checked = nF
				break
			}
		}
		st.Distribution["finalize.checked"] = checked
		if checked < nF/4 {
			return fmt.Errorf("degenerate finalize stage: %d of %d reached the size step", checked, nF)
		}
	}

	d := st.Distribution
	if d["input.spend.commitment-suffix"] == 0 || d["input.veto.commitment-suffix"] == 0 || d["output.vote.with-state-data"] == 0 ||
		d["input.unknown-asset-version"] == 0 || d["input.issuance"] == 0 || d["header.suplinks.6-12"]+d["header.suplinks.>12"] == 0 ||
		d["mutation.tx.decoded"] == 0 || d["mutation.tx.rejected"] == 0 || d["unencodable.result.1"] != nCoqBad {
		return fmt.Errorf("degenerate input stream: %v", d)
	}
	st.Rule = "well-formed TxData (0-5 inputs of the kinds issuance/spend/coinbase/veto/unknown asset version, 0-5 outputs original/vote/unknown asset version, occasionally 20-140 inputs and 130 outputs; nil vs empty vs short vs 120-140-byte vs 16380-byte strings; 0-5 suffix bytes on SpendCommitmentSuffix, VetoCommitmentSuffix, CommitmentSuffix, WitnessSuffix; integers from the varint boundary grid up to 2^63-1; stale SerializedSize), BlockHeaders (0-12 sup links with 10 signature slots of 0/64/other lengths, witness nil/empty/64/other) and Blocks (0-3 mappable transactions, all three serialization flags) through MarshalText/UnmarshalText (+ encoding/json for headers and blocks); mutated valid encodings (bit flip, byte replace/insert/delete, non-minimal varint, truncation) whose decoded values are fed back into the oracle; values with an integer above MaxInt64 (must be refused).  A transaction case is non-trivial when it has at least two inputs/outputs, a header with at least one sup link, a block with at least one transaction, a mutated encoding when it still decodes.  Oracle: decode(encode x) = x field by field (nil = empty, SerializedSize = byte count), same transaction id / block hash, encode(decode(encode x)) = encode x, no panic."
	return c.Cases.Write(c.Out, header, "obs", "obs_eqb")
}
