// Command c25: correspondence harness + direct oracle for property C25 — every wallet UTXO the
// keeper reports as usable at the current height is spendable by consensus at the next height
// (wallet/utxo.go ValidHeight assignment in txOutToUtxos / detachUtxos, account/utxo_keeper.go
// maturity filter in findUtxos and ReserveParticular, protocol/state/utxo_view.go applySpendUtxo).
//
// Cases: the scenario engine of C24 (harness/c24/wsim: real node + real wallet + real keeper in
// child processes; block trees with wallet-owned plain / coinbase / vote outputs, spends, vetoes,
// reorganisations that un-spend them, and LOWER branches that win by a justified checkpoint so
// that the node's height drops below heights at which outputs were spent), plus a corpus:
// coinbase / vote outputs un-spent by a reorganisation followed by a drop of the node's height, and
// a run under a vote lock schedule that grows with the height (2 blocks below height 20, 6 from
// there on; the main net's grows from 14400 to 302400 at height 432000).
//
// The "pool" stream (generated from the seed; corpus case corpus-pool-vote-lag): a random tree with
// many vote outputs in which transactions of the next block first go through the node's REAL
// transaction pool (Chain.ValidateTx).  The pool's messages (new / removed transaction) are posted on
// the node's dispatcher; the harness queues them and hands them, in order, to the dispatcher the
// wallet listens on (wallet.memPoolTxQueryLoop -> AddUnconfirmedTx / RemoveUnconfirmedTx) with a
// generated lag of 0..n node events - the scheduler's freedom in reality.  So the keeper's
// unconfirmed map holds copies of outputs (ValidHeight computed for block height 0) that are not
// mined yet, mined and still locked, mined and spent again, or mined on an abandoned branch, next to
// the wallet's confirmed records (obs:record-and-unconfirmed-copy:* in the distribution).  In all
// other streams the messages are handed over after every delivery.
//
// "Usable" is what the real keeper says: utxoKeeper.findUtxos (through the hook
// account/utxo_keeper_c25_verif.go, on the account manager's own keeper whose current height is
// Chain.BestBlockHeight) lists the output for its (account, asset, vote), or ReserveParticular
// accepts it.
//
// The keeper is asked both ways: useUnconfirmed = false (the 'usable' column above) and
// useUnconfirmed = true (findUtxos for every (account, vote) and ReserveParticular for every output id
// the wallet's db or the unconfirmed map knows).  Whatever the keeper hands out only with
// useUnconfirmed = true and that IS an unspent output of the wallet's chain must be spendable at the
// next height like any other: class=immature-reported-mature when findUtxos lists it,
// class=immature-reserved-unconfirmed-copy when ReserveParticular reserves it (the code before /repo
// commit 781a2de1 did: findUtxo preferred the unconfirmed copy; corpus-pool-vote-lag is the
// regression case).  Outputs handed out with useUnconfirmed = true that are not on the wallet's chain
// are what the caller asked for as long as they exist somewhere: once the wallet has handled every
// message the pool has posted (a late removal message explains a stale copy), such an output must be
// created by a transaction that is in the node's pool at that moment - otherwise
// class=spent-or-unknown-output-offered (findUtxos, Reserve by amount for everything offered,
// ReserveParticular; ./check C26 reports the two reserving calls too).  Corpus case
// corpus-pool-spent-later; every pool case ends with an observation after all messages have been
// handled.  Still only counted: a vote output that only the pool knows is offered for a veto
// (obs:unconfirmed-offer-not-on-chain-is-vote-output).
//
// Also run: the "race" stream (updater held between InMainChain and GetBlockByHeight while the node
// reorganises; oracle only) and the "msig" stream (multi-signature accounts, P2WSH) of harness/c24.
// Every usable record must be spendable AS OFFERED: a record filed as plain BTM whose output is a vote
// output on the wallet's chain (or the reverse) is class=offered-as-wrong-kind.  A wallet that does not
// settle within 5 s ends its case with class=wallet-not-following (see harness/c24).
//
// Direct oracle (implementation outputs only), after EVERY delivery, for every usable record:
// the REAL state.UtxoViewpoint applied to the chain the wallet is attached to must hold the output
// unspent (class=phantom-reported-mature) and its ApplyTransaction must accept a spend of it in a
// block of height (node's best height + 1) (class=immature-reported-mature; class=vote-lock-schedule
// when the record's ValidHeight is creation + lock(creation) and the lock at the spending height
// differs - the known finding).  After every delivery that made the wallet detach (at most 3 per
// case) and at the end, when the wallet is in step with the node: a block at the next height with
// one signed transaction per usable record is delivered to a FRESH node fed only that chain and
// must become its best block (class=probe-block-rejected) - the fresh node, not the node with
// history, because of the open finding C10-vote-utxo-height-lost.
//
// Correspondence: per delivery (wallet in step?, node height, per present record: ValidHeight,
// usable, consensus verdict 0/1/2) against C25.Run.run_c25.  Second case file (cases_keeper_*.v):
// for the observed states with copies in the keeper's unconfirmed map (at most 8 per case) the
// wallet's records, the copies and the node's height go to C25.KeeperRun.run_keeper (model of
// findUtxos with its seen set, findUtxo, ReserveParticular: C25/Keeper.v) and are compared with
// what the real keeper hands out for the four (account, vote) queries and for every output id,
// with useUnconfirmed true and false (ids and ValidHeights of the utxos handed out, immature amounts).
package main

import (
	"fmt"
	"strings"

	"verifharness/c24/wsim"
	"verifharness/fraglib"
	. "verifharness/hlib"
)

func main() { Main("C25", run, map[string]func([]string) int{"batch": wsim.ChildBatch}) }

func coqObs25(d wsim.Deliv) string {
	var rs []string
	for i, pr := range d.Recs {
		for col, r := range pr {
			if len(r) == 0 {
				continue
			}
			rs = append(rs, fmt.Sprintf("(%d, %s, (%d, %s, %d))", i+1, CoqBool(col == 0), r[7], CoqBool(r[8] == 1), r[9]))
		}
	}
	return fmt.Sprintf("(%s, %d, %s)", CoqBool(d.Synced), d.Height, CoqList(rs))
}

func run(c *Ctx) error {
	c.Stats.Rule = "a case counts as non-trivial when the wallet detached at least one block (outputs may have been restored); distinct = distinct (kind, schedule, seed)"
	var cases []*wsim.Case
	for _, k := range []string{"corpus-pool-vote-lag", "corpus-pool-spent-later", "corpus-cb-unspend-down", "corpus-vote-unspend-down", "corpus-vote-detach"} {
		cases = append(cases, &wsim.Case{ID: len(cases), Seed: 1, Kind: k})
	}
	cases = append(cases, &wsim.Case{ID: len(cases), Seed: 1, Kind: "corpus-step-schedule", Sched: "step"})
	n := c.N(100, 400)
	kinds := []string{"random", "votes", "votes", "deep", "down", "down", "down"}
	for i := 0; i < n; i++ {
		cases = append(cases, &wsim.Case{ID: len(cases), Seed: c.Rng.Next(), Kind: kinds[c.Rng.Intn(len(kinds))]})
	}
	// a few random trees under the growing schedule (vetoes obey the consensus rule; the wallet's
	// ValidHeight does not): more witnesses of the known finding, and agreement of the model on them
	for i := 0; i < c.N(6, 20); i++ {
		cases = append(cases, &wsim.Case{ID: len(cases), Seed: c.Rng.Next(), Kind: "votes", Sched: "step"})
	}
	// the "pool" stream: transactions reach the node's pool before their block and the wallet's pool
	// message loop lags behind the chain (confirmed records coexist with copies in the keeper's
	// unconfirmed map); appended so that the cases above keep their seeds
	for i, n := 0, c.N(40, 100); i < n; i++ {
		cases = append(cases, &wsim.Case{ID: len(cases), Seed: c.Rng.Next(), Kind: "pool"})
	}
	// the "race" stream (see harness/c24): the updater held between its two chain reads while the node
	// reorganises; oracle only
	for i, n := 0, c.N(30, 80); i < n; i++ {
		cases = append(cases, &wsim.Case{ID: len(cases), Seed: c.Rng.Next(), Kind: "race"})
	}
	// the "msig" stream: random trees that also pay the wallet's multi-signature accounts (P2WSH)
	for i, n := 0, c.N(24, 80); i < n; i++ {
		cases = append(cases, &wsim.Case{ID: len(cases), Seed: c.Rng.Next(), Kind: "msig"})
	}
	res, err := wsim.RunAll("c25", cases)
	if err != nil {
		return err
	}
	header := wsim.Header("From Coq Require Import List NArith Bool.\nFrom C24 Require Import Model Run.\nFrom C25 Require Import Run.\nImport ListNotations.\nOpen Scope N_scope.\n")
	type failRec struct {
		what  string
		descr interface{}
	}
	var known, reserved, reservedStale []failRec
	keeper := NewCaseFile(2000000)
	for _, cs := range cases {
		r := res[cs.ID]
		if r == nil {
			return fmt.Errorf("no result for case %d", cs.ID)
		}
		key := fmt.Sprintf("%s/%s/%d", cs.Kind, cs.Sched, cs.Seed)
		descr := map[string]interface{}{"id": cs.ID, "kind": cs.Kind, "sched": cs.Sched, "seed": cs.Seed, "descr": r.Descr}
		if r.Panic != "" || r.Hang {
			what := "class=crash: the node/wallet process died: " + r.Panic
			if r.Hang {
				what = "class=hang: no answer within 400 s"
			}
			c.Stats.Fail(what, descr)
			c.Stats.Case(key, false)
			c.Cases.Add("run_c25 [] genesis trunk [] 0", "[(false, 0, [])]")
			continue
		}
		c.Stats.Case(key, r.Detach)
		c.Stats.Count("kind:" + cs.Kind)
		c.Stats.Count("schedule:" + map[string]string{"": "constant-3", "step": "2-then-6-from-height-20"}[cs.Sched])
		for k, v := range r.Count {
			for i := 0; i < v; i++ {
				c.Stats.Count(k)
			}
		}
		for _, f := range r.Fails25 {
			c.Stats.Count("oracle-failure:" + strings.SplitN(strings.TrimPrefix(f, "class="), ":", 2)[0])
			// the evidence keeps the first 20 failures: witnesses of the recorded finding must not crowd out anything else
			if strings.HasPrefix(f, "class=vote-lock-schedule") {
				known = append(known, failRec{f, descr})
			} else if strings.HasPrefix(f, "class=immature-reserved-unconfirmed-copy") {
				// a class with many witnesses when it fires (it did before /repo commit 781a2de1): kept
				// apart for the same reason; cases where the wallet is in step with its node first
				if strings.Contains(f, "in step with the node: true") {
					reserved = append(reserved, failRec{f, descr})
				} else {
					reservedStale = append(reservedStale, failRec{f, descr})
				}
			} else {
				c.Stats.Fail(f, descr)
			}
		}
		for i, k := range r.Keeper {
			m, o := wsim.CoqKeeperCase(k)
			kid := keeper.Add(m, o)
			c.Stats.CaseIndex[fmt.Sprint(kid)] = map[string]interface{}{"keeper_observation": i, "case": descr}
			c.Stats.Count("keeper_model_evaluated")
			c.Stats.Count("model_evaluated")
		}
		if cs.Kind == "race" || r.Abort {
			// held deliveries are not observed one by one / the case was cut short: oracle only
			c.Stats.Count("oracle_only_cases")
			continue
		}
		var obs []string
		for _, d := range r.Delivs {
			obs = append(obs, coqObs25(d))
		}
		id := c.Cases.Add(fmt.Sprintf("run_c25 %s genesis trunk %s %d", wsim.SchedCoq(cs.Sched), wsim.CoqDelivs(r), r.NOuts), CoqList(obs))
		c.Stats.CaseIndex[fmt.Sprint(id)] = descr
		c.Stats.Count("model_evaluated")
		if r.Detach {
			c.Stats.Sample(descr)
		}
	}
	for i, f := range known {
		if i >= 4 {
			break
		}
		c.Stats.Fail(f.what, f.descr)
	}
	nReserved := len(reserved) + len(reservedStale)
	for i, f := range append(reserved, reservedStale...) {
		if i >= 4 {
			break
		}
		c.Stats.Fail(f.what, f.descr)
	}
	c.Stats.Extra["known_finding_witnesses"] = len(known)
	c.Stats.Extra["reserved_through_unconfirmed_copy_witnesses"] = nReserved
	c.Cases.Shard = 20
	if err := c.Cases.Write(c.Out, header, "c25_res", "c25_res_eqb"); err != nil {
		return err
	}
	// the keeper's lookups (findUtxos / ReserveParticular, useUnconfirmed true and false) on the
	// observed states that have copies in the unconfirmed map, against C25.Keeper
	keeper.Shard = 100
	if err := keeper.WriteNamed(c.Out, "keeper", "From Coq Require Import List NArith Bool.\nFrom C24 Require Import Model.\nFrom C25 Require Import Keeper KeeperRun.\nImport ListNotations.\nOpen Scope N_scope.\n", "keeper_res", "keeper_res_eqb"); err != nil {
		return err
	}
	// translator cross-check: the generated consensus.VotePendingBlockNums (C25/Tie.v) against the compiled one
	return fraglib.VotePending(c)
}
