package main

// C22, concurrent stage: a store wrapper whose utxo lookups can be stalled one by one, a
// detector for "this goroutine is queued on the pool's (or the chain's) lock", and the
// execution of one concurrent round (several submissions, each from a goroutine of its
// own, optionally a RemoveTransaction / ExpireOrphan thrown in) under a schedule that is
// part of the case description.
//
// The interleaving is steered, not left to luck:
//   1. the chain's state lock is held (hook Chain.VerifHoldState) while the submitting
//      goroutines are started one after the other; each passes ValidateTx's
//      HaveTransaction check and queues on BestBlockHeader;
//   2. the lock is released: all of them validate and enter the pool;
//   3. the first store lookup for each "gated" transaction blocks inside the wrapper
//      until the schedule opens its gate; between two schedule events the harness waits
//      until every goroutine of the round has finished, sits in a closed gate or is
//      queued on the pool's lock (read off the goroutines' stacks).
// What the round must leave behind is checked by the same oracle as a sequential step.

import (
	"bytes"
	"fmt"
	"os"
	"runtime"
	"strconv"
	"strings"
	"sync"
	"time"

	"github.com/bytom/bytom/database"
	dbm "github.com/bytom/bytom/database/leveldb"
	"github.com/bytom/bytom/event"
	"github.com/bytom/bytom/protocol"
	"github.com/bytom/bytom/protocol/bc"
	"github.com/bytom/bytom/protocol/state"
	cl "verifharness/chainlib"
)

// ---------------------------------------------------------------- the store wrapper

type lookupRec struct {
	gid int64
	id  bc.Hash
}

type gate struct {
	entered chan struct{}
	release chan struct{}
	opened  bool
}

// slowStore is the node's store; GetTransactionsUtxo (the pool's parent lookup) can be
// stalled per transaction id (one-shot gates) and logs who looks up what.
type slowStore struct {
	*database.Store
	mu    sync.Mutex
	gates map[bc.Hash]*gate
	logOn bool
	log   []lookupRec
}

func (s *slowStore) GetTransactionsUtxo(view *state.UtxoViewpoint, txs []*bc.Tx) error {
	for _, tx := range txs {
		s.mu.Lock()
		var g *gate
		if s.logOn {
			s.log = append(s.log, lookupRec{curGID(), tx.ID})
		}
		if g = s.gates[tx.ID]; g != nil {
			delete(s.gates, tx.ID)
		}
		s.mu.Unlock()
		if g != nil {
			close(g.entered)
			<-g.release
		}
	}
	return s.Store.GetTransactionsUtxo(view, txs)
}

// newSlowNode is chainlib.NewNode with the wrapper between the node and its LevelDB store.
func newSlowNode(dir string) (*cl.Node, *slowStore, error) {
	db := dbm.NewDB("core", "leveldb", dir)
	store := database.NewStore(db)
	ss := &slowStore{Store: store, gates: map[bc.Hash]*gate{}}
	disp := event.NewDispatcher()
	pool := protocol.NewTxPool(ss, disp)
	chain, err := protocol.NewChain(ss, pool, disp)
	if err != nil {
		return nil, nil, err
	}
	return &cl.Node{Dir: dir, DB: db, Store: store, Pool: pool, Disp: disp, Chain: chain}, ss, nil
}

// ---------------------------------------------------------------- goroutine states

func curGID() int64 {
	var buf [64]byte
	n := runtime.Stack(buf[:], false)
	// "goroutine 123 [running]:"
	f := bytes.Fields(buf[:n])
	if len(f) < 2 {
		return -1
	}
	id, err := strconv.ParseInt(string(f[1]), 10, 64)
	if err != nil {
		return -1
	}
	return id
}

const (
	gRunning = iota // running, runnable, or waiting for something else
	gGated          // inside a closed gate of the store wrapper
	gLocked         // queued on the pool's lock or on the chain's state lock
	gGone           // finished
)

var stackBuf = make([]byte, 1<<20)

// goroutineStates classifies the goroutines with the given ids from a dump of all stacks.
func goroutineStates(gids []int64) map[int64]int {
	n := runtime.Stack(stackBuf, true)
	for n == len(stackBuf) {
		stackBuf = make([]byte, 2*len(stackBuf))
		n = runtime.Stack(stackBuf, true)
	}
	want := map[int64]bool{}
	res := map[int64]int{}
	for _, g := range gids {
		want[g] = true
		res[g] = gGone
	}
	for _, blk := range strings.Split(string(stackBuf[:n]), "\n\n") {
		if !strings.HasPrefix(blk, "goroutine ") {
			continue
		}
		lines := strings.Split(blk, "\n")
		hdr := lines[0]
		sp := strings.IndexByte(hdr[10:], ' ')
		if sp < 0 {
			continue
		}
		id, err := strconv.ParseInt(hdr[10:10+sp], 10, 64)
		if err != nil || !want[id] {
			continue
		}
		status := ""
		if a, b := strings.IndexByte(hdr, '['), strings.IndexByte(hdr, ']'); a >= 0 && b > a {
			status = hdr[a+1 : b]
		}
		// first frame outside the runtime and package sync
		first := ""
		for _, l := range lines[1:] {
			if strings.HasPrefix(l, "\t") || strings.HasPrefix(l, "created by ") {
				continue
			}
			if strings.HasPrefix(l, "runtime.") || strings.HasPrefix(l, "sync.") || strings.HasPrefix(l, "internal/") {
				continue
			}
			first = l
			break
		}
		st := gRunning
		lockWait := strings.HasPrefix(status, "semacquire") || strings.HasPrefix(status, "sync.Mutex.Lock") ||
			strings.HasPrefix(status, "sync.RWMutex.Lock") || strings.HasPrefix(status, "sync.RWMutex.RLock")
		switch {
		case strings.HasPrefix(status, "chan receive") && strings.Contains(first, "(*slowStore).GetTransactionsUtxo"):
			st = gGated
		case lockWait && (strings.HasPrefix(first, "github.com/bytom/bytom/protocol.(*TxPool).") ||
			strings.HasPrefix(first, "github.com/bytom/bytom/protocol.(*Chain).BestBlockHeader")):
			st = gLocked
		}
		res[id] = st
	}
	return res
}

// waitQuiet waits until none of the goroutines is running (each has finished, sits in a
// closed gate or is queued on a lock).  false = gave up after the timeout.
func waitQuiet(gids []int64, timeout time.Duration) bool {
	deadline := time.Now().Add(timeout)
	for {
		quiet := true
		for _, st := range goroutineStates(gids) {
			if st == gRunning {
				quiet = false
			}
		}
		if quiet {
			return true
		}
		if time.Now().After(deadline) {
			if os.Getenv("C22_DEBUG") != "" {
				n := runtime.Stack(stackBuf, true)
				if f, err := os.OpenFile(os.Getenv("C22_DEBUG"), os.O_APPEND|os.O_CREATE|os.O_WRONLY, 0644); err == nil {
					fmt.Fprintf(f, "BARRIER TIMEOUT gids=%v\n%s\n", gids, stackBuf[:n])
					f.Close()
				}
			}
			return false
		}
		time.Sleep(40 * time.Microsecond)
	}
}

// ---------------------------------------------------------------- one round

type RoundSpec struct {
	Subs  []int    `json:"subs"`            // labels, one submitting goroutine each, in start order (a label may occur twice)
	Gated []int    `json:"gated,omitempty"` // labels whose first store lookup is stalled
	Sched []string `json:"sched,omitempty"` // in order, each once the pool is quiet: "g<label>" open the gate, "r<label>" RemoveTransaction, "x" ExpireOrphan(all)
}

type subResult struct {
	k        int
	isOrphan bool
	err      error
}

type roundOutcome struct {
	order   []int  // indices into Subs in linearisation order (by first own store lookup; submissions without a lookup last)
	flags   []bool // per index into Subs
	removed []int  // labels removed by the schedule
	expired bool
	hang    bool
}

var errHang = fmt.Errorf("round did not finish")

func (c *caseRun) runRound(rs *RoundSpec) (*roundOutcome, error) {
	ss := c.ss
	out := &roundOutcome{flags: make([]bool, len(rs.Subs))}
	gates := map[int]*gate{}
	ss.mu.Lock()
	ss.log = nil
	ss.logOn = true
	for _, l := range rs.Gated {
		if _, dup := gates[l]; dup {
			continue
		}
		g := &gate{entered: make(chan struct{}), release: make(chan struct{})}
		gates[l] = g
		ss.gates[c.univ[l-1].Tx.ID] = g
	}
	ss.mu.Unlock()
	open := func(g *gate) {
		if !g.opened {
			g.opened = true
			close(g.release)
		}
	}
	defer func() {
		ss.mu.Lock()
		ss.logOn = false
		ss.gates = map[bc.Hash]*gate{}
		ss.mu.Unlock()
		for _, g := range gates {
			open(g)
		}
	}()

	results := make(chan subResult, len(rs.Subs)+len(rs.Sched))
	var gids []int64
	subGid := make([]int64, len(rs.Subs))
	pending := 0
	spawn := func(f func()) int64 {
		gidCh := make(chan int64, 1)
		go func() {
			gidCh <- curGID()
			f()
		}()
		g := <-gidCh
		gids = append(gids, g)
		return g
	}
	quiet := func() {
		if !waitQuiet(gids, 2*time.Second) { // only on a starved machine; the round then goes on less tightly steered
			c.counts["round:barrier-timeout"]++
		}
	}

	release := c.n.Chain.VerifHoldState()
	for k, l := range rs.Subs {
		k, tx := k, c.univ[l-1].Tx
		pending++
		subGid[k] = spawn(func() {
			isOrphan, err := c.n.Chain.ValidateTx(tx)
			results <- subResult{k, isOrphan, err}
		})
		quiet() // queued behind the earlier ones on the chain's state lock (or returned early)
	}
	release()
	quiet()
	for _, ev := range rs.Sched {
		switch {
		case ev == "x":
			pending++
			out.expired = true
			spawn(func() {
				c.n.Pool.ExpireOrphan(time.Now().Add(1000 * time.Hour))
				results <- subResult{k: -1}
			})
		case strings.HasPrefix(ev, "g"):
			l, _ := strconv.Atoi(ev[1:])
			if g := gates[l]; g != nil {
				open(g)
			}
		case strings.HasPrefix(ev, "r"):
			l, _ := strconv.Atoi(ev[1:])
			h := c.univ[l-1].Tx.ID
			pending++
			out.removed = append(out.removed, l)
			spawn(func() {
				c.n.Pool.RemoveTransaction(&h)
				results <- subResult{k: -1}
			})
		}
		quiet()
	}
	for _, g := range gates {
		open(g)
	}
	timeout := time.After(20 * time.Second)
	var firstErr error
	for pending > 0 {
		select {
		case r := <-results:
			pending--
			if r.k >= 0 {
				out.flags[r.k] = r.isOrphan
				if r.err != nil && firstErr == nil {
					firstErr = fmt.Errorf("ValidateTx refused transaction %d of the universe in a concurrent round: %v", rs.Subs[r.k], r.err)
				}
			}
		case <-timeout:
			out.hang = true
			return out, errHang
		}
	}
	if firstErr != nil {
		return out, firstErr
	}
	// linearisation: the order in which the submissions' own lookups began
	ss.mu.Lock()
	log := append([]lookupRec(nil), ss.log...)
	ss.mu.Unlock()
	seen := map[int64]bool{}
	byGid := map[int64]int{}
	for k, g := range subGid {
		byGid[g] = k
	}
	for _, e := range log {
		k, ok := byGid[e.gid]
		if !ok || seen[e.gid] {
			continue
		}
		seen[e.gid] = true
		out.order = append(out.order, k)
	}
	for k, g := range subGid {
		if !seen[g] {
			out.order = append(out.order, k)
			c.counts["round:submission-without-lookup"]++
		}
	}
	return out, nil
}
