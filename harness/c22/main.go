package main

// C22 — mempool bookkeeping stays consistent (protocol/txpool.go, protocol/tx.go).
//
// Every case runs on a real node (protocol.Chain + TxPool on LevelDB, built with
// harness/chainlib): a trunk of 20 blocks plus one block that fans two matured
// OP_TRUE rewards out into 12 confirmed root outputs.  On top of the roots a
// small transaction DAG is built (chains, diamonds, fans, multi-parent orphans
// in every input order, random DAGs with conflicts, retirement and vote
// outputs, occasionally a "twin" = same inputs and outputs, other time range)
// and an operation sequence is applied to the node:
//   submit   Chain.ValidateTx (any order: children before parents -> orphans;
//            re-submission of pooled / orphaned / confirmed transactions)
//   remove   TxPool.RemoveTransaction (pooled, unknown, orphan ids)
//   confirm  a real block carrying some of the transactions is processed by the
//            chain (the chain's utxo set changes; the chain removes them from the pool)
//   expire   TxPool.ExpireOrphan at a time chosen relative to the orphans' expirations
//   reject   a dust / overspending transaction is refused before the pool
//   round    (concurrent stream, conc.go) several Chain.ValidateTx calls from goroutines of
//            their own, lined up after their HaveTransaction check and released into the pool
//            with chosen store lookups stalled and released in a chosen order; sometimes a
//            RemoveTransaction / ExpireOrphan in between
// After every operation the four maps are snapshotted through the verif hook.
//
// Direct oracle (Go only, on the snapshot): (i) output index = original outputs
// of pooled transactions; (ii) every orphan is indexed under each unavailable
// output it spends, every index entry points to a live orphan spending that
// output; (iii) pool and orphans disjoint; (iv) after a submission no orphan is
// complete (all inputs available) unless it already was before the submission,
// and the submitted transaction itself is not a complete orphan.  The same predicate
// is applied to the state a concurrent round leaves behind (pre = before the round,
// submitted = every transaction of the round).
//
// Correspondence: per operation the isOrphan flag and the sorted dump of the
// four maps against C22.Run.run_case; a round of submissions is compared as the
// sequential order in which the submissions' own store lookups began (they begin
// under the pool's write lock), C22.Run.run_case_conc; from a round with a removal or
// an expiry on (position among the submissions unknown) only the oracle runs.
//
// Cases run in child processes (a panic in the chain's goroutines kills the
// process); each child builds the template chain once and copies it per case.

import (
	"bufio"
	"bytes"
	"encoding/json"
	"fmt"
	"io"
	"os"
	"os/exec"
	"path/filepath"
	"sort"
	"strconv"
	"strings"
	"sync"
	"time"

	"github.com/bytom/bytom/protocol"
	"github.com/bytom/bytom/protocol/bc"
	"github.com/bytom/bytom/protocol/bc/types"
	cl "verifharness/chainlib"
	. "verifharness/hlib"
)

func main() {
	Main("C22", runC22, map[string]func([]string) int{"batch": childBatch, "template": childTemplate})
}

// ---------------------------------------------------------------- case description (replayable)

type TxSpec struct {
	Ins    []string `json:"ins"`              // "r<i>" root i | "<label>.<pos>" output of an earlier transaction
	NOuts  int      `json:"nouts"`            // spendable OP_TRUE outputs
	Retire bool     `json:"retire,omitempty"` // plus a retirement output (first position)
	Vote   bool     `json:"vote,omitempty"`   // plus a vote output (last position)
	TwinOf int      `json:"twin_of,omitempty"`
}

type OpSpec struct {
	K     string     `json:"k"`               // submit remove confirm expire reject round
	T     int        `json:"t,omitempty"`     // transaction label (0 = unknown id for remove)
	Ts    []int      `json:"ts,omitempty"`    // confirm: labels in block order
	Cut   int        `json:"cut,omitempty"`   // expire: number of orphans (by expiration) below the cut
	Mode  string     `json:"mode,omitempty"`  // expire: at | after | all | none;  reject: dust | overspend
	Round *RoundSpec `json:"round,omitempty"` // round: concurrent submissions under a schedule (conc.go)
}

type CaseSpec struct {
	Shape string   `json:"shape"`
	Univ  []TxSpec `json:"univ"`
	Ops   []OpSpec `json:"ops"`
}

type Fail struct {
	What string `json:"what"`
	Step int    `json:"step"`
}

type CaseResult struct {
	Idx        int            `json:"idx"`
	Spec       CaseSpec       `json:"spec"`
	Counts     map[string]int `json:"counts"`
	Nontrivial bool           `json:"nontrivial"`
	Model      string         `json:"model"`
	Observed   string         `json:"observed"`
	Fails      []Fail         `json:"fails"`
}

type BatchArgs struct {
	Seed   uint64    `json:"seed"`
	First  int       `json:"first"`
	N      int       `json:"n"`
	Corpus bool      `json:"corpus"`
	Conc   bool      `json:"conc"`             // the concurrent stream: operation lists with rounds
	Replay *CaseSpec `json:"replay,omitempty"` // run exactly this case (its recorded operation list) and nothing else
	Dir    string    `json:"dir"`
	Tmpl   string    `json:"tmpl"`
}

// ---------------------------------------------------------------- the world of one case

type txInfo struct {
	Label int
	Tx    *types.Tx
	Ins   []int // labels of spent outputs, input order
	Outs  []int // labels of result ids, output order
	Orig  []bool
}

type env struct {
	w        *cl.World
	tmpl     string
	base     string
	tip      *cl.BlockInfo
	roots    []cl.Out
	caseSeq  int
	rootBase int
}

const rootLabel = 1000
const rootsPerFan = 6
const nRoots = 2 * rootsPerFan

var errTooSmall = fmt.Errorf("universe not buildable (inputs too small or two identical transactions): draw another one")

const unknownLabel = 999999
const ttlTicks = 600

type caseRun struct {
	e         *env
	n         *cl.Node
	ss        *slowStore
	tip       *cl.BlockInfo
	r         *Rng
	spec      CaseSpec
	univ      []*txInfo
	byID      map[bc.Hash]*txInfo
	outLabel  map[bc.Hash]int
	creators  map[bc.Hash]int // output id -> number of distinct transactions of the universe creating it
	nonOrig   map[bc.Hash]bool
	chain     map[bc.Hash]bool // spendable in the chain's utxo set (harness bookkeeping)
	chain0    []int
	conf      map[int]bool // label -> confirmed
	subm      map[int]bool
	clock     uint64
	logExp    map[bc.Hash]uint64
	withdr    map[bc.Hash]map[bc.Hash]bool // orphan id -> outputs withdrawn from under it
	counts    map[string]int
	fails     []Fail
	iops      []string   // one model operation per step
	obs       [][]string // the step's result entries (one; a round: one per submission)
	isRound   []bool
	hadRound  bool
	sawOrph   bool
	sawPool   bool
	rejectK   int
	submitted []*txInfo    // the transaction(s) of the submission / round being recorded
	exempt    map[int]bool // labels a RemoveTransaction of the round being recorded was aimed at
	exemptAll bool         // the round being recorded had an ExpireOrphan
	outside   bool         // the history has left the guard of the theorem (withdrawal, shared output ids)
	cut       int          // number of leading steps compared with the model (-1: all)
}

func copyDir(src, dst string) error {
	if err := os.MkdirAll(dst, 0755); err != nil {
		return err
	}
	ents, err := os.ReadDir(src)
	if err != nil {
		return err
	}
	for _, e := range ents {
		if e.IsDir() {
			if err := copyDir(filepath.Join(src, e.Name()), filepath.Join(dst, e.Name())); err != nil {
				return err
			}
			continue
		}
		in, err := os.Open(filepath.Join(src, e.Name()))
		if err != nil {
			return err
		}
		out, err := os.Create(filepath.Join(dst, e.Name()))
		if err != nil {
			in.Close()
			return err
		}
		_, err = io.Copy(out, in)
		in.Close()
		out.Close()
		if err != nil {
			return err
		}
	}
	return nil
}

// template chain: 20 empty blocks, then one block with two fan-out transactions (6 roots each).
// The world (blocks, roots) is built offline and is the same in every process; the node that stores
// it is filled by a process of its own (child "template") which then exits: a node's background
// goroutines keep reading its database, so it cannot be closed inside a process that lives on.
func buildWorld() (*env, []*cl.BlockInfo, error) {
	w := cl.Init(cl.DefaultOptions())
	e := &env{w: w}
	trunk := w.Trunk(w.Genesis, 20)
	var fans []*types.Tx
	for _, h := range []int{4, 8} {
		rew := trunk[h].RewardOuts()
		if len(rew) == 0 {
			return nil, nil, fmt.Errorf("no reward output at height %d", h+1)
		}
		f := cl.Transfer([]cl.Out{rew[0]}, rootsPerFan, cl.DefaultFee, 0)
		fans = append(fans, f)
		for i := 0; i < rootsPerFan; i++ {
			e.roots = append(e.roots, cl.Out{Tx: f, Pos: i})
		}
	}
	b := w.NewBlock(trunk[len(trunk)-1], fans, cl.BlockOpt{})
	e.tip = b
	return e, append(trunk, b), nil
}

func childTemplate(args []string) int {
	if len(args) != 1 {
		return 2
	}
	_, blocks, err := buildWorld()
	if err != nil {
		fmt.Fprintln(os.Stderr, "harness child error:", err)
		return 3
	}
	n, err := cl.NewNode(args[0])
	if err != nil {
		fmt.Fprintln(os.Stderr, "harness child error:", err)
		return 3
	}
	for _, b := range blocks {
		if orphan, err := n.Process(b.Block); err != nil || orphan {
			fmt.Fprintf(os.Stderr, "harness child error: template block %d: orphan=%v err=%v\n", b.Block.Height, orphan, err)
			return 3
		}
	}
	return 0
}

func newEnv(base, tmpl string) (*env, error) {
	e, _, err := buildWorld()
	if err != nil {
		return nil, err
	}
	e.base, e.tmpl = base, tmpl
	return e, nil
}

func (e *env) newCase(r *Rng, spec CaseSpec) (*caseRun, error) {
	c := &caseRun{e: e, tip: e.tip, r: r, spec: spec, byID: map[bc.Hash]*txInfo{}, outLabel: map[bc.Hash]int{},
		creators: map[bc.Hash]int{}, nonOrig: map[bc.Hash]bool{}, chain: map[bc.Hash]bool{}, conf: map[int]bool{},
		subm: map[int]bool{}, logExp: map[bc.Hash]uint64{}, withdr: map[bc.Hash]map[bc.Hash]bool{}, counts: map[string]int{}, cut: -1}
	for i, o := range e.roots {
		c.outLabel[o.ID()] = rootLabel + i
		c.chain[o.ID()] = true
		c.chain0 = append(c.chain0, rootLabel+i)
	}
	if err := c.build(); err != nil {
		return nil, err
	}
	e.caseSeq++
	dir := filepath.Join(e.base, fmt.Sprintf("case_%d", e.caseSeq))
	if err := copyDir(e.tmpl, dir); err != nil {
		return nil, err
	}
	n, ss, err := newSlowNode(dir)
	if err != nil {
		return nil, err
	}
	c.n, c.ss = n, ss
	return c, nil
}

// build the transactions of the universe from the spec
func (c *caseRun) build() error {
	for i, s := range c.spec.Univ {
		label := i + 1
		src := s
		timeRange := uint64(0)
		if s.TwinOf > 0 {
			src = c.spec.Univ[s.TwinOf-1]
			timeRange = 1000000 + uint64(label)
		}
		var ins []cl.Out
		var sum uint64
		for _, ref := range src.Ins {
			var o cl.Out
			if strings.HasPrefix(ref, "r") {
				k, _ := strconv.Atoi(ref[1:])
				o = c.e.roots[k%len(c.e.roots)]
			} else {
				parts := strings.Split(ref, ".")
				l, _ := strconv.Atoi(parts[0])
				p, _ := strconv.Atoi(parts[1])
				if l < 1 || l > len(c.univ) {
					return fmt.Errorf("bad input reference %q", ref)
				}
				if p >= len(c.univ[l-1].Tx.Outputs) {
					return errTooSmall // the parent was too small to be split
				}
				o = cl.Out{Tx: c.univ[l-1].Tx, Pos: p}
			}
			ins = append(ins, o)
			sum += o.Amount()
		}
		if sum <= cl.DefaultFee+300000 {
			return errTooSmall
		}
		left := sum - cl.DefaultFee
		var outs []cl.OutSpec
		if src.Retire {
			outs = append(outs, cl.OutSpec{Amount: 1000, Program: []byte{0x6a}})
			left -= 1000
		}
		vote := src.Vote && left > 100000000+10000000*uint64(src.NOuts)
		if vote {
			left -= 100000000
		}
		k := src.NOuts
		if k < 1 || left < 4*cl.DefaultFee*uint64(k) {
			k = 1
		}
		for j := 0; j < k; j++ {
			outs = append(outs, cl.OutSpec{Amount: left / uint64(k)})
		}
		if vote {
			outs = append(outs, cl.OutSpec{Amount: 100000000, Vote: c.e.w.Pubs[1][:]})
		}
		tx := cl.NewTx(ins, outs, timeRange)
		ti := &txInfo{Label: label, Tx: tx}
		for _, o := range tx.SpentOutputIDs {
			l, ok := c.outLabel[o]
			if !ok {
				return fmt.Errorf("transaction %d spends an unlabelled output", label)
			}
			ti.Ins = append(ti.Ins, l)
		}
		for p, id := range tx.ResultIds {
			if _, ok := c.outLabel[*id]; !ok {
				c.outLabel[*id] = label*8 + p
			}
			ti.Outs = append(ti.Outs, c.outLabel[*id])
			_, isOrig := tx.Entries[*id].(*bc.OriginalOutput)
			ti.Orig = append(ti.Orig, isOrig)
			if !isOrig {
				c.nonOrig[*id] = true
			}
			c.creators[*id]++
		}
		if _, dup := c.byID[tx.ID]; dup {
			return errTooSmall // two identical transactions: draw another universe
		}
		c.byID[tx.ID] = ti
		c.univ = append(c.univ, ti)
	}
	return nil
}

// ---------------------------------------------------------------- snapshots and the oracle

func (c *caseRun) snapshot() *protocol.VerifPoolSnapshot { return c.n.Pool.VerifSnapshot() }

func (c *caseRun) avail(s *protocol.VerifPoolSnapshot, o bc.Hash) bool {
	if c.chain[o] {
		return true
	}
	_, ok := s.Utxo[o]
	return ok
}

func (c *caseRun) complete(s *protocol.VerifPoolSnapshot, t *txInfo) bool {
	for _, o := range t.Tx.SpentOutputIDs {
		if !c.avail(s, o) {
			return false
		}
	}
	return true
}

func (c *caseRun) lblInPool(s *protocol.VerifPoolSnapshot, t *txInfo) bool {
	for _, h := range s.Pool {
		if h == t.Tx.ID {
			return true
		}
	}
	return false
}

func (c *caseRun) lbl(h bc.Hash) int {
	if t, ok := c.byID[h]; ok {
		return t.Label
	}
	return unknownLabel
}
func (c *caseRun) olbl(h bc.Hash) int {
	if l, ok := c.outLabel[h]; ok {
		return l
	}
	return unknownLabel
}

// one report per distinct failure of a case (a broken entry stays broken in the following steps)
func (c *caseRun) fail(step int, class, msg string) {
	what := "class=" + class + ": " + msg
	for _, f := range c.fails {
		if f.What == what {
			return
		}
	}
	c.fails = append(c.fails, Fail{What: what, Step: step})
}

// the property predicate on the implementation's maps
func (c *caseRun) oracle(step int, kind string, submitted []*txInfo, pre, post *protocol.VerifPoolSnapshot) {
	pooled := map[bc.Hash]bool{}
	for _, h := range post.Pool {
		pooled[h] = true
	}
	// (i)
	want := map[bc.Hash]bool{}
	for h := range pooled {
		t, ok := c.byID[h]
		if !ok {
			c.fail(step, "unknown-pooled-tx", "the pool holds a transaction that was never submitted")
			continue
		}
		for _, id := range t.Tx.ResultIds {
			if _, isOrig := t.Tx.Entries[*id].(*bc.OriginalOutput); isOrig {
				want[*id] = true
			}
		}
	}
	for o := range want {
		if _, ok := post.Utxo[o]; !ok {
			class := "utxo-index-missing"
			if c.creators[o] > 1 {
				class = "shared-output-id"
			}
			c.fail(step, class, fmt.Sprintf("output %d of a pooled transaction is not in the output index", c.olbl(o)))
		}
	}
	for o := range post.Utxo {
		if !want[o] {
			class := "utxo-index-extra"
			if c.creators[o] > 1 {
				class = "shared-output-id"
			}
			c.fail(step, class, fmt.Sprintf("the output index lists %d, which is not an original output of a pooled transaction", c.olbl(o)))
		}
	}
	// (iii)
	for h := range post.Orphans {
		if pooled[h] {
			c.fail(step, "pooled-and-orphaned", fmt.Sprintf("transaction %d is both pooled and orphaned", c.lbl(h)))
		}
	}
	// (ii) first half
	for h := range post.Orphans {
		t, ok := c.byID[h]
		if !ok || post.OrphanTx[h] != h {
			c.fail(step, "orphan-entry-corrupt", "an orphan entry does not hold the transaction of its key")
			continue
		}
		for _, o := range t.Tx.SpentOutputIDs {
			if c.avail(post, o) {
				continue
			}
			if _, ok := post.OrphansByPrev[o][h]; !ok {
				class := "orphan-not-indexed"
				if c.withdr[h][o] {
					class = "withdrawn-parent"
				}
				c.fail(step, class, fmt.Sprintf("orphan %d waits for output %d but is not indexed under it", t.Label, c.olbl(o)))
			}
		}
	}
	// (ii) second half
	for o, inner := range post.OrphansByPrev {
		for k, ptr := range inner {
			t, ok := c.byID[k]
			_, live := post.Orphans[k]
			spends := false
			if ok {
				for _, in := range t.Tx.SpentOutputIDs {
					if in == o {
						spends = true
					}
				}
			}
			if ptr != k || !live || !spends {
				c.fail(step, "dangling-index-entry", fmt.Sprintf("index entry %d -> %d: live orphan=%v, spends the output=%v, key matches=%v",
					c.olbl(o), c.lbl(k), live, spends, ptr == k))
			}
		}
	}
	// (iv)
	if kind == "submit" {
		for _, sub := range submitted {
			if _, isOrphan := post.Orphans[sub.Tx.ID]; isOrphan && c.complete(post, sub) {
				class := "complete-orphan-after-own-submission"
				if len(c.withdr[sub.Tx.ID]) > 0 {
					class = "withdrawn-parent"
				}
				c.fail(step, class, fmt.Sprintf("transaction %d was submitted, all its parents are available and it sits in orphans", sub.Label))
			}
			// ... it is pooled (unless the same round removed it again or expired orphans)
			if _, isOrphan := post.Orphans[sub.Tx.ID]; !isOrphan && !pooled[sub.Tx.ID] && c.complete(post, sub) && !c.exemptAll && !c.exempt[sub.Label] {
				c.fail(step, "complete-submission-not-pooled", fmt.Sprintf("transaction %d was submitted and accepted, all its parents are available, and it is neither pooled nor an orphan", sub.Label))
			}
		}
	}
	if kind == "submit" {
		for h := range post.Orphans {
			t, ok := c.byID[h]
			if !ok {
				continue
			}
			if c.complete(post, t) && !c.complete(pre, t) {
				class := "orphan-not-promoted"
				if len(c.withdr[h]) > 0 {
					class = "withdrawn-parent"
				}
				c.fail(step, class, fmt.Sprintf("orphan %d has all its parents available after the submission and was not promoted", t.Label))
			}
		}
	}
}

// an environment step took an available output away from under a live orphan
func (c *caseRun) noteWithdrawals(pre, post *protocol.VerifPoolSnapshot, chainPre map[bc.Hash]bool) {
	for h := range pre.Orphans {
		t, ok := c.byID[h]
		if !ok {
			continue
		}
		for _, o := range t.Tx.SpentOutputIDs {
			_, up := pre.Utxo[o]
			if (chainPre[o] || up) && !c.avail(post, o) {
				if c.withdr[h] == nil {
					c.withdr[h] = map[bc.Hash]bool{}
				}
				c.withdr[h][o] = true
				c.counts["event:withdrawal"]++
				c.outside = true
			}
		}
	}
}

func (c *caseRun) dump(s *protocol.VerifPoolSnapshot) string {
	var pool, orph []int
	for _, h := range s.Pool {
		pool = append(pool, c.lbl(h))
	}
	sort.Ints(pool)
	for h := range s.Orphans {
		orph = append(orph, c.lbl(h))
	}
	sort.Ints(orph)
	var ut []int // the keys only: which of two twins an entry points to depends on Go's map order
	for o := range s.Utxo {
		ut = append(ut, c.olbl(o))
	}
	sort.Ints(ut)
	type ke struct {
		k  int
		vs []int
	}
	var ob []ke
	for o, inner := range s.OrphansByPrev {
		var vs []int
		for k := range inner {
			vs = append(vs, c.lbl(k))
		}
		sort.Ints(vs)
		ob = append(ob, ke{c.olbl(o), vs})
	}
	sort.Slice(ob, func(i, j int) bool { return ob[i].k < ob[j].k })
	var sb strings.Builder
	sb.WriteString("(" + intList(pool) + ", " + intList(ut) + ", " + intList(orph) + ", [")
	for i, x := range ob {
		if i > 0 {
			sb.WriteString("; ")
		}
		fmt.Fprintf(&sb, "(%d, %s)", x.k, intList(x.vs))
	}
	sb.WriteString("])")
	return sb.String()
}

func intList(l []int) string {
	s := make([]string, len(l))
	for i, x := range l {
		s[i] = strconv.Itoa(x)
	}
	return "[" + strings.Join(s, "; ") + "]"
}

func (c *caseRun) chainLabels() []int {
	var l []int
	for o, ok := range c.chain {
		if ok {
			l = append(l, c.olbl(o))
		}
	}
	sort.Ints(l)
	return l
}

// ---------------------------------------------------------------- operations

func (c *caseRun) record(step int, kind string, iop string, flag bool, pre, post *protocol.VerifPoolSnapshot) {
	c.recordN(step, kind, iop, []bool{flag}, false, pre, post)
}

func (c *caseRun) recordN(step int, kind string, iop string, flags []bool, round bool, pre, post *protocol.VerifPoolSnapshot) {
	c.oracle(step, kind, c.submitted, pre, post)
	c.submitted, c.exempt, c.exemptAll = nil, nil, false
	c.iops = append(c.iops, iop)
	var entries []string
	d := c.dump(post)
	for _, f := range flags {
		entries = append(entries, fmt.Sprintf("(%s, %s)", CoqBool(f), d))
	}
	c.obs = append(c.obs, entries)
	c.isRound = append(c.isRound, round)
	// Outside the guard what processOrphans does next may depend on Go's map order (an orphan that is
	// not indexed under a missing parent is promoted or not depending on when it is looked at): the
	// model is compared up to and including the step that left the guard; the oracle keeps running.
	if c.outside && c.cut < 0 {
		c.cut = len(c.iops)
		c.counts["compare:prefix-only"]++
	}
	// orphans that left lose their withdrawal marks
	for h := range c.withdr {
		if _, ok := post.Orphans[h]; !ok {
			delete(c.withdr, h)
		}
	}
	if len(post.Orphans) > 0 {
		c.sawOrph = true
	}
	if len(post.Pool) > 0 {
		c.sawPool = true
	}
}

func (c *caseRun) apply(step int, op OpSpec) error {
	pre := c.snapshot()
	c.clock += 10
	c.counts["op:"+op.K]++
	switch op.K {
	case "submit":
		t := c.univ[op.T-1]
		_, wasOrphan := pre.Orphans[t.Tx.ID]
		wasPooled := false
		for _, h := range pre.Pool {
			if h == t.Tx.ID {
				wasPooled = true
			}
		}
		isOrphan, err := c.n.Chain.ValidateTx(t.Tx)
		if err != nil {
			return fmt.Errorf("ValidateTx refused transaction %d of the universe: %v", t.Label, err)
		}
		for _, other := range c.univ {
			if other != t && c.subm[other.Label] && len(other.Outs) > 0 && len(t.Outs) > 0 && other.Outs[0] == t.Outs[0] {
				c.outside = true // both twins have been submitted
				c.counts["event:twin-submitted"]++
			}
		}
		post := c.snapshot()
		if isOrphan {
			c.logExp[t.Tx.ID] = c.clock + ttlTicks
		}
		state := "new"
		switch {
		case wasPooled:
			state = "pooled"
		case wasOrphan:
			state = "orphan"
		case c.conf[t.Label]:
			state = "confirmed"
		case c.subm[t.Label]:
			state = "seen"
		}
		c.subm[t.Label] = true
		res := "pooled"
		if isOrphan {
			res = "orphan"
		} else if wasPooled {
			res = "already-pooled"
		}
		c.counts["submit:"+state+"->"+res]++
		if d := len(post.Pool) - len(pre.Pool); d > 1 {
			c.counts["event:promotion-chain"]++
			c.counts[fmt.Sprintf("promoted:%d", d-1)]++
		} else if d == 1 && !isOrphan && len(pre.Orphans) > len(post.Orphans) && !wasOrphan {
			c.counts["event:promotion-chain"]++
		}
		c.submitted = []*txInfo{t}
		c.record(step, "submit", fmt.Sprintf("ISubmit %d %d", c.clock, op.T-1), isOrphan, pre, post)
	case "remove":
		var h bc.Hash
		label := 0
		if op.T > 0 {
			h = c.univ[op.T-1].Tx.ID
			label = op.T
		} else {
			h = bc.NewHash([32]byte{0xee, byte(step)})
		}
		chainPre := c.chain
		c.n.Pool.RemoveTransaction(&h)
		post := c.snapshot()
		c.noteWithdrawals(pre, post, chainPre)
		if len(post.Pool) < len(pre.Pool) {
			c.counts["remove:pooled"]++
		} else {
			c.counts["remove:absent"]++
		}
		c.record(step, "remove", fmt.Sprintf("IRemove %d", label), false, pre, post)
	case "confirm":
		var txs []*types.Tx
		for _, l := range op.Ts {
			txs = append(txs, c.univ[l-1].Tx)
		}
		bi := c.e.w.NewBlock(c.tip, txs, cl.BlockOpt{})
		orphan, err := c.n.Process(bi.Block)
		if err != nil || orphan {
			return fmt.Errorf("block with transactions %v refused: orphan=%v err=%v", op.Ts, orphan, err)
		}
		if best := c.n.Chain.BestBlockHeader().Hash(); best != bi.Hash {
			return fmt.Errorf("block with transactions %v did not become the best block", op.Ts)
		}
		c.tip = bi
		chainPre := map[bc.Hash]bool{}
		for k, v := range c.chain {
			chainPre[k] = v
		}
		var hs []string
		for _, l := range op.Ts {
			t := c.univ[l-1]
			c.conf[l] = true
			for _, o := range t.Tx.SpentOutputIDs {
				c.chain[o] = false
			}
			hs = append(hs, strconv.Itoa(l))
		}
		for _, l := range op.Ts {
			t := c.univ[l-1]
			for _, id := range t.Tx.ResultIds {
				if _, isRet := t.Tx.Entries[*id].(*bc.Retirement); !isRet {
					c.chain[*id] = true
				}
			}
		}
		for _, l := range op.Ts {
			for _, o := range c.univ[l-1].Tx.SpentOutputIDs {
				c.chain[o] = false
			}
		}
		// the harness's view of the chain's set must be the store's
		for o, want := range c.chain {
			o := o
			e, err := c.n.Store.GetUtxo(&o)
			got := err == nil && e != nil && !e.Spent
			if got != want {
				return fmt.Errorf("harness bookkeeping of the chain's utxo set differs from the store for output %d", c.olbl(o))
			}
		}
		post := c.snapshot()
		c.noteWithdrawals(pre, post, chainPre)
		c.counts[fmt.Sprintf("confirm:%d-txs", len(op.Ts))]++
		c.record(step, "confirm", fmt.Sprintf("IConfirm %s [%s]", intList(c.chainLabels()), strings.Join(hs, "; ")), false, pre, post)
	case "expire":
		type oe struct {
			h    bc.Hash
			real time.Time
			log  uint64
		}
		var os_ []oe
		for h, t := range pre.Orphans {
			le, ok := c.logExp[h]
			if !ok {
				return fmt.Errorf("orphan %d has no recorded logical expiration", c.lbl(h))
			}
			os_ = append(os_, oe{h, t, le})
		}
		sort.Slice(os_, func(i, j int) bool { return os_[i].real.Before(os_[j].real) })
		for i := 1; i < len(os_) && !c.hadRound; i++ {
			if !(os_[i-1].log < os_[i].log) || !os_[i-1].real.Before(os_[i].real) {
				return fmt.Errorf("orphan expirations are not ordered like their submissions")
			}
		}
		var realNow time.Time
		var logNow uint64
		cut := op.Cut
		if cut > len(os_) {
			cut = len(os_)
		}
		mode := op.Mode
		if len(os_) == 0 && (mode == "at" || mode == "after") {
			mode = "all"
		}
		if c.hadRound && (mode == "at" || mode == "after") {
			mode = "all" // orphans parked in one round: no expiration boundary between them is aimed at
		}
		if mode == "at" && cut >= len(os_) {
			mode = "after"
		}
		if mode == "after" && cut == 0 {
			mode = "at"
		}
		switch mode {
		case "none":
			realNow, logNow = time.Unix(1, 0), 0
		case "all":
			realNow, logNow = time.Now().Add(1000*time.Hour), c.clock+1000000
		case "at": // exactly the expiration of orphan number cut: strictly-before semantics
			realNow, logNow = os_[cut].real, os_[cut].log
		case "after":
			realNow, logNow = os_[cut-1].real.Add(time.Nanosecond), os_[cut-1].log+1
		}
		c.n.Pool.ExpireOrphan(realNow)
		post := c.snapshot()
		c.counts[fmt.Sprintf("expire:%s:removed-%d", mode, len(pre.Orphans)-len(post.Orphans))]++
		c.record(step, "expire", fmt.Sprintf("IExpire %d", logNow), false, pre, post)
	case "round":
		rs := op.Round
		c.hadRound = true
		ro, err := c.runRound(rs)
		if err == errHang {
			c.fail(step, "round-hang", fmt.Sprintf("concurrent round %+v: a submission did not return within 20 s", *rs))
			return err
		}
		if err != nil {
			return err
		}
		post := c.snapshot()
		c.counts[fmt.Sprintf("round:%d-submissions", len(rs.Subs))]++
		c.counts[fmt.Sprintf("round:%d-gated", len(rs.Gated))]++
		// a removal inside the round may take an output away from under an orphan and the
		// output may be back before the round ends: every orphan (old or parked in this round)
		// that spends an output of a removed transaction is marked like noteWithdrawals does
		if len(ro.removed) > 0 || ro.expired {
			c.counts["round:with-removal-or-expiry"]++
			c.exempt, c.exemptAll = map[int]bool{}, ro.expired
			for _, l := range ro.removed {
				c.exempt[l] = true
			}
			if c.cut < 0 { // the position of the removal among the submissions is not known: model compared up to here
				c.cut = len(c.iops)
				c.counts["compare:prefix-only"]++
			}
			c.noteWithdrawals(pre, post, c.chain)
			for _, l := range ro.removed {
				rt := c.univ[l-1]
				marks := func(t *txInfo) {
					for _, o := range t.Tx.SpentOutputIDs {
						for _, id := range rt.Tx.ResultIds {
							if o == *id {
								if c.withdr[t.Tx.ID] == nil {
									c.withdr[t.Tx.ID] = map[bc.Hash]bool{}
								}
								c.withdr[t.Tx.ID][o] = true
								c.outside = true
								c.counts["event:withdrawal-in-round"]++
							}
						}
					}
				}
				for h := range pre.Orphans {
					if t, ok := c.byID[h]; ok {
						marks(t)
					}
				}
				for h := range post.Orphans {
					if t, ok := c.byID[h]; ok {
						marks(t)
					}
				}
			}
		}
		var subs []string
		flags := make([]bool, 0, len(rs.Subs))
		for j, k := range ro.order {
			t := c.univ[rs.Subs[k]-1]
			now := c.clock + uint64(j)
			if ro.flags[k] {
				c.logExp[t.Tx.ID] = now + ttlTicks
				c.counts["round-submit:orphan"]++
			} else {
				c.counts["round-submit:pooled"]++
			}
			for _, other := range c.univ {
				if other != t && (c.subm[other.Label] || inRound(rs, other.Label)) && len(other.Outs) > 0 && len(t.Outs) > 0 && other.Outs[0] == t.Outs[0] {
					c.outside = true
					c.counts["event:twin-submitted"]++
				}
			}
			subs = append(subs, fmt.Sprintf("(%d, %d)", now, rs.Subs[k]-1))
			flags = append(flags, ro.flags[k])
			c.submitted = append(c.submitted, t)
		}
		for _, l := range rs.Subs {
			c.subm[l] = true
		}
		if d := len(post.Pool) - len(pre.Pool); d > 0 {
			c.counts[fmt.Sprintf("round:pool-grew-by-%d", d)]++
		}
		if len(post.Orphans) > 0 {
			c.counts["round:orphans-left"]++
		}
		c.recordN(step, "submit", "CRound ["+strings.Join(subs, "; ")+"]", flags, true, pre, post)
	case "reject":
		c.rejectK++
		root := c.e.roots[(c.rejectK*5+3)%len(c.e.roots)]
		var tx *types.Tx
		if op.Mode == "dust" {
			tx = cl.NewTx([]cl.Out{root}, []cl.OutSpec{{Amount: 0}, {Amount: root.Amount() - cl.DefaultFee - uint64(c.rejectK)}}, 0)
		} else {
			tx = cl.NewTx([]cl.Out{root}, []cl.OutSpec{{Amount: root.Amount() + 1 + uint64(c.rejectK)}}, 0)
		}
		isOrphan, err := c.n.Chain.ValidateTx(tx)
		if err == nil || isOrphan {
			return fmt.Errorf("%s transaction was not refused", op.Mode)
		}
		post := c.snapshot()
		c.record(step, "reject", "IReject", false, pre, post)
	default:
		return fmt.Errorf("unknown operation %q", op.K)
	}
	return nil
}

func inRound(rs *RoundSpec, l int) bool {
	for _, x := range rs.Subs {
		if x == l {
			return true
		}
	}
	return false
}

// ---------------------------------------------------------------- generators

func rootRef(k int) string   { return "r" + strconv.Itoa(k) }
func outRef(l, p int) string { return strconv.Itoa(l) + "." + strconv.Itoa(p) }
func perm(r *Rng, n int) []int {
	p := make([]int, n)
	for i := range p {
		p[i] = i
	}
	for i := n - 1; i > 0; i-- {
		j := r.Intn(i + 1)
		p[i], p[j] = p[j], p[i]
	}
	return p
}

func genUniverse(r *Rng) (string, []TxSpec) {
	roots := perm(r, nRoots)
	nextRoot := 0
	root := func() string { nextRoot++; return rootRef(roots[(nextRoot-1)%nRoots]) }
	var u []TxSpec
	add := func(s TxSpec) int { u = append(u, s); return len(u) }
	shape := []string{"chain", "diamond", "multi-parent", "multi-parent", "fan", "random", "random", "two-families"}[r.Intn(8)]
	multi := func() {
		k := 2 + r.Intn(2)
		var ps []string
		for i := 0; i < k; i++ {
			p := add(TxSpec{Ins: []string{root()}, NOuts: 1 + r.Intn(2)})
			ps = append(ps, outRef(p, 0))
		}
		if r.Chance(30) {
			ps = append(ps, root())
		}
		var ins []string
		for _, i := range perm(r, len(ps)) {
			ins = append(ins, ps[i])
		}
		y := add(TxSpec{Ins: ins, NOuts: 1 + r.Intn(2)})
		if r.Chance(50) {
			add(TxSpec{Ins: []string{outRef(y, 0)}, NOuts: 1})
		}
	}
	chain := func() {
		k := 2 + r.Intn(4)
		p := add(TxSpec{Ins: []string{root()}, NOuts: 1 + r.Intn(2)})
		for i := 1; i < k; i++ {
			p = add(TxSpec{Ins: []string{outRef(p, 0)}, NOuts: 1 + r.Intn(2)})
		}
	}
	switch shape {
	case "chain":
		chain()
	case "diamond":
		a := add(TxSpec{Ins: []string{root()}, NOuts: 2})
		b := add(TxSpec{Ins: []string{outRef(a, 0)}, NOuts: 1})
		cc := add(TxSpec{Ins: []string{outRef(a, 1)}, NOuts: 1})
		ins := []string{outRef(b, 0), outRef(cc, 0)}
		if r.Bool() {
			ins[0], ins[1] = ins[1], ins[0]
		}
		d := add(TxSpec{Ins: ins, NOuts: 1})
		if r.Chance(40) {
			add(TxSpec{Ins: []string{outRef(d, 0)}, NOuts: 1})
		}
	case "multi-parent":
		multi()
	case "fan":
		a := add(TxSpec{Ins: []string{root()}, NOuts: 3})
		var outs []string
		for i := 0; i < 3; i++ {
			k := add(TxSpec{Ins: []string{outRef(a, i)}, NOuts: 1})
			outs = append(outs, outRef(k, 0))
		}
		var ins []string
		for _, i := range perm(r, 3) {
			ins = append(ins, outs[i])
		}
		add(TxSpec{Ins: ins, NOuts: 1})
	case "two-families":
		chain()
		multi()
	case "random":
		n := 3 + r.Intn(5)
		type ref struct {
			s     string
			spent bool
		}
		var av []*ref
		for i := 0; i < 3; i++ {
			av = append(av, &ref{root(), false})
		}
		for i := 0; i < n; i++ {
			k := 1 + r.Intn(3)
			var ins []string
			used := map[string]bool{}
			for j := 0; j < k; j++ {
				var cand []*ref
				for _, a := range av {
					if !used[a.s] && (!a.spent || r.Chance(12)) {
						cand = append(cand, a)
					}
				}
				if len(cand) == 0 {
					break
				}
				x := cand[r.Intn(len(cand))]
				// prefer recent outputs so that the DAG gets depth
				if r.Chance(50) {
					x = cand[len(cand)-1-r.Intn((len(cand)+1)/2)]
				}
				used[x.s] = true
				x.spent = true
				ins = append(ins, x.s)
			}
			if len(ins) == 0 {
				ins = []string{root()}
			}
			no := 1 + r.Intn(3)
			l := add(TxSpec{Ins: ins, NOuts: no})
			for p := 0; p < no; p++ {
				av = append(av, &ref{outRef(l, p), false})
			}
		}
	}
	// decorations: retirement / vote outputs never referenced by position: spendable outputs come first
	// after a retirement output the positions shift, so decorate only transactions nobody spends from
	spentFrom := map[int]bool{}
	for _, s := range u {
		for _, in := range s.Ins {
			if !strings.HasPrefix(in, "r") {
				l, _ := strconv.Atoi(strings.Split(in, ".")[0])
				spentFrom[l] = true
			}
		}
	}
	for i := range u {
		if !spentFrom[i+1] && r.Chance(25) {
			u[i].Retire = true
		}
		if r.Chance(10) && len(u[i].Ins) == 1 && strings.HasPrefix(u[i].Ins[0], "r") {
			u[i].Vote = true
		}
	}
	if r.Chance(6) {
		k := 1 + r.Intn(len(u))
		add(TxSpec{TwinOf: k})
		shape += "+twin"
	}
	return shape, u
}

type genState struct {
	r    *Rng
	c    *caseRun
	left int
	conc bool // concurrent stream: rounds among the operations
}

// a concurrent round chosen from what the pool looks like now: 2-4 submissions (a fresh
// transaction together with one of its unpooled parents more often than not, orphans and
// now and then an already pooled / confirmed transaction or the same transaction twice),
// a random non-empty subset of them gated, the gates opened in random order, sometimes a
// RemoveTransaction or an ExpireOrphan(all) in between
func (g *genState) round(s *protocol.VerifPoolSnapshot) *OpSpec {
	c, r := g.c, g.r
	pooled := map[bc.Hash]bool{}
	for _, h := range s.Pool {
		pooled[h] = true
	}
	var cand, other []int
	for _, t := range c.univ {
		_, orphan := s.Orphans[t.Tx.ID]
		switch {
		case pooled[t.Tx.ID] || c.conf[t.Label]:
			other = append(other, t.Label)
		case orphan || !c.subm[t.Label]:
			cand = append(cand, t.Label)
		default:
			cand = append(cand, t.Label) // seen, then removed or expired
		}
	}
	if len(cand) < 2 {
		return nil
	}
	k := 2 + r.Intn(3)
	chosen := map[int]bool{}
	var subs []int
	take := func(l int) {
		if !chosen[l] && len(subs) < k {
			chosen[l] = true
			subs = append(subs, l)
		}
	}
	isCand := map[int]bool{}
	for _, l := range cand {
		isCand[l] = true
	}
	if r.Chance(65) {
		// a child and one of its parents that is not pooled yet
		var pairs [][2]int
		for _, l := range cand {
			t := c.univ[l-1]
			for _, in := range t.Ins {
				if in >= rootLabel {
					continue
				}
				if p := in / 8; p >= 1 && p <= len(c.univ) && isCand[p] && p != l {
					pairs = append(pairs, [2]int{p, l})
				}
			}
		}
		if len(pairs) > 0 {
			pr := pairs[r.Intn(len(pairs))]
			take(pr[0])
			take(pr[1])
		}
	}
	for tries := 0; tries < 12 && len(subs) < k; tries++ {
		take(cand[r.Intn(len(cand))])
	}
	if len(other) > 0 && r.Chance(15) {
		subs = append(subs, other[r.Intn(len(other))])
	}
	if r.Chance(10) {
		subs = append(subs, subs[r.Intn(len(subs))]) // the same transaction from two peers
	}
	for i := len(subs) - 1; i > 0; i-- {
		j := r.Intn(i + 1)
		subs[i], subs[j] = subs[j], subs[i]
	}
	var gated []int
	seenG := map[int]bool{}
	for _, l := range subs {
		if !seenG[l] && r.Chance(60) {
			seenG[l] = true
			gated = append(gated, l)
		}
	}
	if len(gated) == 0 {
		gated = []int{subs[r.Intn(len(subs))]}
	}
	var sched []string
	for _, i := range perm(r, len(gated)) {
		sched = append(sched, "g"+strconv.Itoa(gated[i]))
	}
	ins := func(ev string) {
		p := r.Intn(len(sched) + 1)
		sched = append(sched[:p], append([]string{ev}, sched[p:]...)...)
	}
	if r.Chance(22) {
		var ls []int
		for _, h := range s.Pool {
			ls = append(ls, c.lbl(h))
		}
		sort.Ints(ls)
		ls = append(ls, subs...)
		ins("r" + strconv.Itoa(ls[r.Intn(len(ls))]))
	}
	if r.Chance(6) {
		ins("x")
	}
	return &OpSpec{K: "round", Round: &RoundSpec{Subs: subs, Gated: gated, Sched: sched}}
}

// choose the next operation from what the pool looks like now
func (g *genState) next() *OpSpec {
	if g.left == 0 {
		return nil
	}
	g.left--
	c, r := g.c, g.r
	s := c.snapshot()
	var fresh, seen []int
	for _, t := range c.univ {
		if c.subm[t.Label] {
			seen = append(seen, t.Label)
		} else if !c.conf[t.Label] {
			fresh = append(fresh, t.Label)
		}
	}
	// an orphan whose parents are all available (confirmed behind the pool's back): re-submit it
	var ready []int
	for h := range s.Orphans {
		if t, ok := c.byID[h]; ok && c.complete(s, t) {
			ready = append(ready, t.Label)
		}
	}
	sort.Ints(ready)
	if len(ready) > 0 && r.Chance(60) {
		return &OpSpec{K: "submit", T: ready[r.Intn(len(ready))]}
	}
	if g.conc && r.Chance(45) {
		if op := g.round(s); op != nil {
			return op
		}
	}
	// a block that confirms the missing, never pooled parent of an orphan
	if len(s.Orphans) > 0 && r.Chance(12) {
		var ps []int
		for _, t := range c.univ {
			if c.conf[t.Label] || c.lblInPool(s, t) {
				continue
			}
			ok := true
			for _, o := range t.Tx.SpentOutputIDs {
				if !c.chain[o] {
					ok = false
				}
			}
			feeds := false
			for h := range s.Orphans {
				if y, okk := c.byID[h]; okk {
					for _, in := range y.Tx.SpentOutputIDs {
						for _, id := range t.Tx.ResultIds {
							if in == *id {
								feeds = true
							}
						}
					}
				}
			}
			if ok && feeds {
				ps = append(ps, t.Label)
			}
		}
		if len(ps) > 0 {
			return &OpSpec{K: "confirm", Ts: []int{ps[r.Intn(len(ps))]}}
		}
	}
	for tries := 0; tries < 20; tries++ {
		x := r.Intn(100)
		switch {
		case x < 46:
			if len(fresh) == 0 {
				continue
			}
			// children before parents more often than not
			l := fresh[r.Intn(len(fresh))]
			if r.Chance(40) {
				l = fresh[len(fresh)-1-r.Intn((len(fresh)+1)/2)]
			}
			return &OpSpec{K: "submit", T: l}
		case x < 60:
			var cand []int
			cand = append(cand, seen...)
			var confd, orph []int // sorted: the PRNG must not see Go's map order
			for l := range c.conf {
				confd = append(confd, l)
			}
			sort.Ints(confd)
			for _, l := range confd {
				if r.Chance(12) {
					cand = append(cand, l)
				}
			}
			for h := range s.Orphans {
				if t, ok := c.byID[h]; ok {
					orph = append(orph, t.Label)
				}
			}
			sort.Ints(orph)
			for _, l := range orph {
				if r.Chance(70) {
					cand = append(cand, l, l)
				}
			}
			if len(cand) == 0 {
				continue
			}
			sort.Ints(cand)
			return &OpSpec{K: "submit", T: cand[r.Intn(len(cand))]}
		case x < 70:
			if len(s.Pool) == 0 && r.Chance(70) {
				continue
			}
			if len(s.Pool) > 0 && r.Chance(85) {
				var ls []int
				for _, h := range s.Pool {
					ls = append(ls, c.lbl(h))
				}
				sort.Ints(ls)
				return &OpSpec{K: "remove", T: ls[r.Intn(len(ls))]}
			}
			if r.Bool() {
				return &OpSpec{K: "remove", T: 0}
			}
			return &OpSpec{K: "remove", T: 1 + r.Intn(len(c.univ))}
		case x < 84:
			// a block: transactions whose inputs are spendable in the chain or created earlier in the block
			sp := map[bc.Hash]bool{}
			for k, v := range c.chain {
				sp[k] = v
			}
			var ts []int
			for _, t := range c.univ {
				if c.conf[t.Label] || !r.Chance(55) {
					continue
				}
				ok := true
				for _, o := range t.Tx.SpentOutputIDs {
					if !sp[o] {
						ok = false
					}
				}
				if !ok {
					continue
				}
				for _, o := range t.Tx.SpentOutputIDs {
					sp[o] = false
				}
				for _, id := range t.Tx.ResultIds {
					if _, isOrig := t.Tx.Entries[*id].(*bc.OriginalOutput); isOrig {
						sp[*id] = true
					}
				}
				ts = append(ts, t.Label)
			}
			if len(ts) == 0 {
				continue
			}
			return &OpSpec{K: "confirm", Ts: ts}
		case x < 95:
			if len(s.Orphans) == 0 && r.Chance(70) {
				continue
			}
			mode := []string{"at", "after", "after", "all", "none"}[r.Intn(5)]
			return &OpSpec{K: "expire", Cut: r.Intn(len(s.Orphans) + 1), Mode: mode}
		default:
			return &OpSpec{K: "reject", Mode: []string{"dust", "overspend"}[r.Intn(2)]}
		}
	}
	return &OpSpec{K: "remove", T: 0}
}

// fixed regression cases (run first on every check)
func corpus() []CaseSpec {
	var cs []CaseSpec
	s := func(l int) OpSpec { return OpSpec{K: "submit", T: l} }
	// (a) multi-parent orphan, parents arriving in every order
	two := []TxSpec{{Ins: []string{"r0"}, NOuts: 1}, {Ins: []string{"r1"}, NOuts: 1}, {Ins: []string{"1.0", "2.0"}, NOuts: 1}}
	cs = append(cs, CaseSpec{"corpus-two-parents-12", two, []OpSpec{s(3), s(1), s(2)}})
	cs = append(cs, CaseSpec{"corpus-two-parents-21", two, []OpSpec{s(3), s(2), s(1)}})
	three := []TxSpec{{Ins: []string{"r0"}, NOuts: 1}, {Ins: []string{"r1"}, NOuts: 1}, {Ins: []string{"r2"}, NOuts: 1},
		{Ins: []string{"2.0", "3.0", "1.0"}, NOuts: 2}, {Ins: []string{"4.1"}, NOuts: 1}}
	for _, p := range [][]int{{1, 2, 3}, {1, 3, 2}, {2, 1, 3}, {2, 3, 1}, {3, 1, 2}, {3, 2, 1}} {
		cs = append(cs, CaseSpec{fmt.Sprintf("corpus-three-parents-%d%d%d", p[0], p[1], p[2]), three,
			[]OpSpec{s(5), s(4), s(p[0]), s(p[1]), s(p[2])}})
	}
	// (b) an orphan re-submitted after its parent was confirmed without passing through the pool
	pc := []TxSpec{{Ins: []string{"r0"}, NOuts: 1}, {Ins: []string{"1.0"}, NOuts: 1}, {Ins: []string{"2.0"}, NOuts: 1}}
	cs = append(cs, CaseSpec{"corpus-resubmit-after-confirm", pc,
		[]OpSpec{s(3), s(2), {K: "confirm", Ts: []int{1}}, s(2), {K: "expire", Mode: "all"}}})
	// (c) a pooled parent is removed unconfirmed while an orphan counts on it
	wd := []TxSpec{{Ins: []string{"r0"}, NOuts: 1}, {Ins: []string{"r1"}, NOuts: 1}, {Ins: []string{"1.0", "2.0"}, NOuts: 1}}
	cs = append(cs, CaseSpec{"corpus-withdrawn-parent", wd,
		[]OpSpec{s(3), s(1), {K: "remove", T: 1}, s(2), s(1)}})
	// (d) twins: same inputs and outputs, different time range -> same output ids
	tw := []TxSpec{{Ins: []string{"r0"}, NOuts: 2}, {TwinOf: 1}}
	cs = append(cs, CaseSpec{"corpus-twin", tw, []OpSpec{s(1), s(2), {K: "remove", T: 2}}})
	// (e) expiry boundary
	ex := []TxSpec{{Ins: []string{"r0"}, NOuts: 2}, {Ins: []string{"1.0"}, NOuts: 1}, {Ins: []string{"1.1"}, NOuts: 1}, {Ins: []string{"2.0", "3.0"}, NOuts: 1}}
	cs = append(cs, CaseSpec{"corpus-expire", ex,
		[]OpSpec{s(4), s(2), s(3), {K: "expire", Cut: 1, Mode: "at"}, {K: "expire", Cut: 1, Mode: "after"}, s(1), {K: "expire", Mode: "all"}}})
	return cs
}

// ---------------------------------------------------------------- running one case

func txCoq(t *txInfo) string {
	var outs []string
	for i, o := range t.Outs {
		outs = append(outs, fmt.Sprintf("(%d, %s)", o, CoqBool(t.Orig[i])))
	}
	return fmt.Sprintf("mkTx %d %s [%s]", t.Label, intList(t.Ins), strings.Join(outs, "; "))
}

func runCase(e *env, r *Rng, idx int, spec CaseSpec, scripted bool, nops int, conc bool) (*CaseResult, error) {
	c, err := e.newCase(r, spec)
	if err != nil {
		return nil, err
	}
	c.counts["shape:"+spec.Shape]++
	c.counts[fmt.Sprintf("universe-size:%d", len(c.univ))]++
	var ops []OpSpec
	if scripted {
		for i, op := range spec.Ops {
			if err := c.apply(i, op); err != nil {
				if len(c.fails) > 0 {
					break // the oracle has already failed on this case: report that, not what it leads to
				}
				return nil, fmt.Errorf("case %d (%s) step %d: %v", idx, spec.Shape, i, err)
			}
		}
		ops = spec.Ops
	} else {
		g := &genState{r: r, c: c, left: nops, conc: conc}
		for i := 0; ; i++ {
			op := g.next()
			if op == nil {
				break
			}
			ops = append(ops, *op)
			if err := c.apply(i, *op); err != nil {
				if len(c.fails) > 0 {
					break
				}
				return nil, fmt.Errorf("case %d (%s) step %d %+v: %v", idx, spec.Shape, i, *op, err)
			}
		}
	}
	c.spec.Ops = ops
	c.counts[fmt.Sprintf("ops-per-case:%d", len(ops)/4*4)]++
	var txs []string
	for _, t := range c.univ {
		txs = append(txs, txCoq(t))
	}
	res := &CaseResult{Idx: idx, Spec: c.spec, Counts: c.counts, Nontrivial: c.sawOrph && c.sawPool, Fails: c.fails}
	n := len(c.iops)
	if c.cut >= 0 && c.cut < n {
		n = c.cut
	}
	if len(c.fails) > 0 && len(c.obs) < n {
		n = len(c.obs)
	}
	var iops, obs []string
	for i := 0; i < n; i++ {
		switch {
		case !c.hadRound:
			iops = append(iops, c.iops[i])
		case c.isRound[i]:
			iops = append(iops, c.iops[i])
		default:
			iops = append(iops, "CSeq ("+c.iops[i]+")")
		}
		obs = append(obs, c.obs[i]...)
	}
	runner := "run_case"
	if c.hadRound {
		runner = "run_case_conc"
	}
	res.Model = fmt.Sprintf("%s %s [%s] [%s]", runner, intList(c.chain0), strings.Join(txs, "; "), strings.Join(iops, "; "))
	res.Observed = "Some [" + strings.Join(obs, "; ") + "]"
	return res, nil
}

func childBatch(args []string) int {
	if len(args) != 1 {
		return 2
	}
	var a BatchArgs
	if err := json.Unmarshal([]byte(args[0]), &a); err != nil {
		fmt.Fprintln(os.Stderr, err)
		return 2
	}
	e, err := newEnv(a.Dir, a.Tmpl)
	if err != nil {
		fmt.Fprintln(os.Stderr, "harness child error:", err)
		return 3
	}
	out := bufio.NewWriter(os.Stdout)
	r := NewRng(a.Seed)
	emit := func(res *CaseResult) {
		js, _ := json.Marshal(res)
		out.Write(js)
		out.WriteString("\n")
		out.Flush()
	}
	idx := a.First
	if a.Replay != nil {
		fmt.Fprintf(out, "BEGIN %d\n", idx)
		out.Flush()
		res, err := runCase(e, r, idx, *a.Replay, true, 0, false)
		if err != nil {
			fmt.Fprintln(os.Stderr, "harness child error:", err)
			return 3
		}
		emit(res)
		return 0
	}
	if a.Corpus {
		for _, spec := range corpus() {
			fmt.Fprintf(out, "BEGIN %d\n", idx)
			out.Flush()
			res, err := runCase(e, r, idx, spec, true, 0, false)
			if err != nil {
				fmt.Fprintln(os.Stderr, "harness child error:", err)
				return 3
			}
			emit(res)
			idx++
		}
	}
	for k := 0; k < a.N; k++ {
		fmt.Fprintf(out, "BEGIN %d\n", idx)
		out.Flush()
		shape, univ := genUniverse(r)
		nops := 5 + r.Intn(12)
		if a.Conc {
			shape = "conc:" + shape
			nops = 3 + r.Intn(8)
		}
		res, err := runCase(e, r, idx, CaseSpec{Shape: shape, Univ: univ}, false, nops, a.Conc)
		if err == errTooSmall {
			k--
			continue
		}
		if err != nil {
			fmt.Fprintln(os.Stderr, "harness child error:", err)
			return 3
		}
		emit(res)
		idx++
	}
	return 0
}

// ---------------------------------------------------------------- parent

func jobs() int {
	if v, err := strconv.Atoi(os.Getenv("VERIF_JOBS")); err == nil && v > 0 {
		if v > 12 {
			v = 12
		}
		return v
	}
	return 6
}

type batchOut struct {
	results []*CaseResult
	crash   string
	err     error
}

func runBatch(a BatchArgs) batchOut {
	js, _ := json.Marshal(a)
	cmd := exec.Command(os.Args[0], "child", "batch", string(js))
	var stderr bytes.Buffer
	cmd.Stderr = &stderr
	stdout, err := cmd.StdoutPipe()
	if err != nil {
		return batchOut{err: err}
	}
	if err := cmd.Start(); err != nil {
		return batchOut{err: err}
	}
	timer := time.AfterFunc(20*time.Minute, func() { cmd.Process.Kill() })
	defer timer.Stop()
	var bo batchOut
	current := -1
	sc := bufio.NewScanner(stdout)
	sc.Buffer(make([]byte, 1<<20), 1<<27)
	for sc.Scan() {
		l := sc.Text()
		if strings.HasPrefix(l, "BEGIN ") {
			current, _ = strconv.Atoi(l[6:])
			continue
		}
		r := &CaseResult{}
		if err := json.Unmarshal([]byte(l), r); err != nil {
			cmd.Process.Kill()
			cmd.Wait()
			return batchOut{err: fmt.Errorf("unparseable child output %.200q", l)}
		}
		bo.results = append(bo.results, r)
		current = -1
	}
	werr := cmd.Wait()
	if werr != nil {
		msg := stderr.String()
		if strings.Contains(msg, "harness child error:") {
			bo.err = fmt.Errorf("%s", strings.TrimSpace(msg[strings.Index(msg, "harness child error:"):]))
			return bo
		}
		if len(msg) > 1500 {
			msg = msg[:1500]
		}
		bo.crash = fmt.Sprintf("child process ended abnormally (%v) while running case %d: %s", werr, current, msg)
	}
	return bo
}

func runC22(c *Ctx) error {
	c.Stats.Rule = "transaction DAGs over 12 confirmed OP_TRUE roots of a real chain (chain, diamond, fan, multi-parent orphan with its inputs in random order, two families, random DAG with occasional double spends; retirement and vote outputs; 6% with a twin transaction) and 5-16 operations chosen from the pool's current state: submit a fresh transaction (children before parents more often than not), re-submit a pooled / orphaned / confirmed one, RemoveTransaction (pooled, unknown or other id), confirm a block of spendable transactions on the real chain, ExpireOrphan at / just after an orphan's expiration / before all / after all, refused dust or overspending transaction; a fixed corpus (parents of a 2- and 3-parent orphan in every arrival order, re-submission after confirmation, removal of an unconfirmed parent, twins, expiry boundary) runs first; a concurrent stream (shape conc:*) mixes the same operations with rounds: 2-6 ValidateTx calls from goroutines of their own (a child together with an unpooled parent in 65% of the rounds, orphans, sometimes a pooled / confirmed transaction or one transaction twice), lined up behind the chain's state lock after their HaveTransaction check, then released into the pool with the store lookups of a random subset stalled and released in a random order, each step taken once every goroutine is finished, stalled or queued on the pool's lock; 22% of the rounds with a RemoveTransaction and 6% with an ExpireOrphan in between; the oracle is applied to the state the round leaves, the model to the linearisation read off the order of the submissions' own store lookups; distinct = distinct (universe, operation list); non-trivial = the case had at least one orphan and at least one pooled transaction"
	total := c.N(500, 3000)
	per := 50
	if c.Thorough() {
		per = 125
	}
	tmp := ""
	if st, err := os.Stat("/dev/shm"); err == nil && st.IsDir() {
		tmp = "/dev/shm" // LevelDB opens sync their journal; a memory file system keeps a case at ~70 ms
	}
	base, err := os.MkdirTemp(tmp, "c22run")
	if err != nil && tmp != "" {
		base, err = os.MkdirTemp("", "c22run")
	}
	if err != nil {
		return err
	}
	defer os.RemoveAll(base)
	tmpl := filepath.Join(base, "tmpl")
	if out, err := exec.Command(os.Args[0], "child", "template", tmpl).CombinedOutput(); err != nil {
		return fmt.Errorf("building the template chain: %v: %s", err, out)
	}
	var batches []BatchArgs
	ncorpus := len(corpus())
	first := 0
	var replay *CaseSpec
	if c.Replay != "" {
		// a replay file carries the failing case (universe + the operation list as it was run,
		// rounds with their schedules included) in failure.case.case
		var rp struct {
			Failure struct {
				Case struct {
					Case *CaseSpec `json:"case"`
				} `json:"case"`
			} `json:"failure"`
		}
		if raw, err := os.ReadFile(c.Replay); err == nil && json.Unmarshal(raw, &rp) == nil && rp.Failure.Case.Case != nil {
			replay = rp.Failure.Case.Case
		}
	}
	for k := 0; first < total+ncorpus; k++ {
		a := BatchArgs{Seed: c.Rng.Next(), First: first, N: per, Corpus: k == 0, Dir: filepath.Join(base, fmt.Sprintf("b%d", k)), Tmpl: tmpl}
		if k == 0 {
			first += ncorpus
		}
		if first+a.N > total+ncorpus {
			a.N = total + ncorpus - first
		}
		first += a.N
		batches = append(batches, a)
	}
	// the concurrent stream
	concTotal := c.N(320, 2000)
	if replay != nil {
		batches = []BatchArgs{{Seed: c.Rng.Next(), First: 0, Replay: replay, Dir: filepath.Join(base, "replay"), Tmpl: tmpl}}
		concTotal = 0
	}
	for k := 0; concTotal > 0; k++ {
		a := BatchArgs{Seed: c.Rng.Next(), First: first, N: per, Conc: true, Dir: filepath.Join(base, fmt.Sprintf("c%d", k)), Tmpl: tmpl}
		if a.N > concTotal {
			a.N = concTotal
		}
		concTotal -= a.N
		first += a.N
		batches = append(batches, a)
	}
	outs := make([]batchOut, len(batches))
	sem := make(chan struct{}, jobs())
	var wg sync.WaitGroup
	for i := range batches {
		wg.Add(1)
		go func(i int) {
			defer wg.Done()
			sem <- struct{}{}
			outs[i] = runBatch(batches[i])
			os.RemoveAll(batches[i].Dir)
			<-sem
		}(i)
	}
	wg.Wait()
	type pendingFail struct {
		what string
		desc interface{}
	}
	var failFirst, failLater []pendingFail
	perClass := map[string]int{}
	header := "From Coq Require Import List NArith Bool.\nFrom C22 Require Import Model Run.\nImport ListNotations.\nOpen Scope N_scope.\n"
	for i, bo := range outs {
		if bo.err != nil {
			return fmt.Errorf("batch %d (seed %d): %v", i, batches[i].Seed, bo.err)
		}
		for _, r := range bo.results {
			key, _ := json.Marshal(r.Spec)
			c.Stats.Case(string(key), r.Nontrivial)
			for k, v := range r.Counts {
				for j := 0; j < v; j++ {
					c.Stats.Count(k)
				}
			}
			if r.Nontrivial {
				c.Stats.Count("case:non-trivial")
			} else {
				c.Stats.Count("case:trivial")
			}
			id := c.Cases.Add(r.Model, r.Observed)
			c.Stats.Count("model_evaluated")
			if id < 1500 || len(r.Fails) > 0 {
				c.Stats.CaseIndex[strconv.Itoa(id)] = r.Spec
			}
			if r.Idx%97 == 5 {
				c.Stats.Sample(map[string]interface{}{"case": r.Spec, "observed": r.Observed})
			}
			for _, f := range r.Fails {
				class := strings.SplitN(strings.TrimPrefix(f.What, "class="), ":", 2)[0]
				c.Stats.Count("oracle-failure:" + class)
				pf := pendingFail{f.What, map[string]interface{}{"case": r.Spec, "step": f.Step, "batch_seed": batches[i].Seed, "index": r.Idx}}
				if class == "withdrawn-parent" || class == "shared-output-id" {
					if perClass[class] < 3 {
						failLater = append(failLater, pf)
					}
					perClass[class]++
				} else {
					failFirst = append(failFirst, pf)
				}
			}
		}
		if bo.crash != "" {
			c.Stats.Count("oracle-failure:child-crash")
			failFirst = append(failFirst, pendingFail{"class=child-crash: " + bo.crash, map[string]interface{}{"batch_seed": batches[i].Seed}})
		}
	}
	// hlib keeps the first 20 failures: classes recorded as findings must not crowd out anything else
	for _, f := range append(failFirst, failLater...) {
		c.Stats.Fail(f.what, f.desc)
	}
	return c.Cases.Write(c.Out, header, "cres", "cres_eqb")
}
