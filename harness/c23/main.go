package main

// C23 — confirmed transactions leave the mempool (protocol/block.go reorganizeChain:
// txsToRestore / txsToRemove; protocol/tx.go ValidateTx; protocol/txpool.go event posting).
//
// Every case runs on a real node (protocol.Chain + TxPool on LevelDB, harness/chainlib): a
// template chain of 20 blocks plus one block that fans two matured OP_TRUE rewards out into
// 12 confirmed root outputs; its tip is the start block g of the case.  On top of the roots a
// small transaction universe is drawn (chains, forks, conflicting pairs = double spends of one
// output, multi-input transactions, retirement outputs, a few transactions with a TimeRange
// that expires during the case, one dust transaction) and a block TREE is grown while
// transactions are submitted:
//   submit   Chain.ValidateTx (fresh / pooled / orphaned / confirmed / expired / dust transactions,
//            children before parents)
//   block    a real signed block is built on some block of the tree (extending the best branch,
//            extending a side branch until it overtakes, or forking below a tip; siblings via
//            BlockOpt{Skip}) with transactions applicable on that branch (pooled ones, ones never
//            submitted, ones confirmed on the other branch, conflicting ones) and delivered with
//            Chain.ProcessBlock: connections and reorganisations back and forth
//   expire   TxPool.ExpireOrphan (far future: all orphans; past: none)
// After every operation: best block, pooled ids (TxPool.GetTransactions), orphan ids (verif hook
// snapshot), the TxMsgEvent notifications posted during the operation (subscription).
//
// Direct oracle (Go only, implementation outputs only), after every operation:
//   (1) no pooled transaction id is the id of a transaction of a main-chain block
//       (main chain read back from the node: GetBlockByHeight from the start block to the best block);
//   (2) the notification stream, matched greedily: every Remove t finds an earlier New t not used by
//       another Remove t.
//
// Correspondence: per operation (best block, sorted pool, sorted orphans, the operation's
// notifications stably sorted by id) against C23.Run.run_case.  The fork choice is not modelled:
// the model is told which block became best.  The order in which Go iterated txsToRestore is
// taken from the order of the New notifications of the operation.
//
// Cases run in child processes (a panic in the chain's goroutines kills the process).
//
// Overlap stage (every run, child "race"): a SUBMISSION of T overlapping the BLOCK CONNECTION that
// confirms T.  The node is assembled on a wrapping store whose GetTransactionsUtxo parks the pool's
// lookup for T (the call with the single transaction T; after the real lookup = "the inputs were still
// unspent", or before it).  Goroutine 1 submits T through Chain.ValidateTx and parks; goroutine 2
// delivers the block that confirms T (as a plain connection or as the last block of a
// reorganisation that also connects a waiting orphan block); the parked call is released when goroutine 2 has returned or after a delay (on the
// unchanged tree goroutine 2 waits for the pool's lock, which the submission holds across its lookup);
// both are awaited, one more block is connected, and the same oracle runs (pool and main chain
// disjoint, notifications paired).  On the unchanged tree the outcome does not depend on the schedule:
// whatever the release time, T's addition (if any) happens before the block's RemoveTransaction(T).

import (
	"bufio"
	"bytes"
	"encoding/json"
	"fmt"
	"io"
	"os"
	"os/exec"
	"path/filepath"
	"sort"
	"strconv"
	"strings"
	"sync"
	"time"

	"github.com/bytom/bytom/database"
	dbm "github.com/bytom/bytom/database/leveldb"
	"github.com/bytom/bytom/event"
	"github.com/bytom/bytom/protocol"
	"github.com/bytom/bytom/protocol/bc"
	"github.com/bytom/bytom/protocol/bc/types"
	"github.com/bytom/bytom/protocol/state"
	cl "verifharness/chainlib"
	. "verifharness/hlib"
)

func main() {
	Main("C23", runC23, map[string]func([]string) int{"batch": childBatch, "template": childTemplate, "race": childRace})
}

// ---------------------------------------------------------------- case description (replayable)

type TxSpec struct {
	Ins    []string `json:"ins"`              // "r<i>" root i | "<label>.<pos>" output of an earlier transaction
	NOuts  int      `json:"nouts"`            // spendable OP_TRUE outputs
	Retire bool     `json:"retire,omitempty"` // plus a retirement output (last position)
	Range  int      `json:"range,omitempty"`  // TimeRange = height of the start block + Range (0: none)
	Dust   bool     `json:"dust,omitempty"`   // a zero-amount output: refused by the dust filter
	TwinOf int      `json:"twin_of,omitempty"`
}

type OpSpec struct {
	K      string `json:"k"`                // submit block expire
	T      int    `json:"t,omitempty"`      // submit: transaction label
	Parent int    `json:"parent,omitempty"` // block: label of the parent block (0 = start block)
	Ts     []int  `json:"ts,omitempty"`     // block: transaction labels in block order
	Mode   string `json:"mode,omitempty"`   // expire: all | none
}

type CaseSpec struct {
	Shape string   `json:"shape"`
	Univ  []TxSpec `json:"univ"`
	Ops   []OpSpec `json:"ops"`
}

type Fail struct {
	What string `json:"what"`
	Step int    `json:"step"`
}

type CaseResult struct {
	Idx        int            `json:"idx"`
	Spec       CaseSpec       `json:"spec"`
	Counts     map[string]int `json:"counts"`
	Nontrivial bool           `json:"nontrivial"`
	Model      string         `json:"model"`
	Observed   string         `json:"observed"`
	Fails      []Fail         `json:"fails"`
}

type BatchArgs struct {
	Seed   uint64 `json:"seed"`
	First  int    `json:"first"`
	N      int    `json:"n"`
	Corpus bool   `json:"corpus"`
	Dir    string `json:"dir"`
	Tmpl   string `json:"tmpl"`
}

// ---------------------------------------------------------------- the world of one case

type txInfo struct {
	Label int
	Tx    *types.Tx
	Spec  TxSpec
	Ins   []int // labels of spent outputs, input order
	Outs  []int // labels of result ids, output order
	Orig  []bool
	Range uint64
}

type blockInfo struct {
	Label  int
	BI     *cl.BlockInfo
	Parent *blockInfo
	Txs    []int // labels
	NChild int
}

type env struct {
	w       *cl.World
	tmpl    string
	base    string
	tip     *cl.BlockInfo
	roots   []cl.Out
	caseSeq int
	mkNode  func(dir string) (*cl.Node, error) // nil: chainlib.NewNode
}

const rootLabel = 1000
const rootsPerFan = 6
const nRoots = 2 * rootsPerFan

var errTooSmall = fmt.Errorf("universe not buildable: draw another one")

type evRec struct {
	Kind  int // 0 New, 1 Remove
	Label int
}

type caseRun struct {
	e          *env
	n          *cl.Node
	sub        *event.Subscription
	r          *Rng
	spec       CaseSpec
	univ       []*txInfo
	byID       map[bc.Hash]*txInfo
	outLabel   map[bc.Hash]int
	creators   map[int]int // output label -> number of universe transactions creating it
	blocks     []*blockInfo
	byHash     map[bc.Hash]*blockInfo
	best       *blockInfo
	subm       map[int]bool
	stream     []evRec // all notifications so far
	open       map[int]int
	counts     map[string]int
	fails      []Fail
	failed     map[string]bool
	iops       []string
	obs        []string
	sawRestore bool
	sawRemove  bool
	sawReorg   bool
}

func copyDir(src, dst string) error {
	if err := os.MkdirAll(dst, 0755); err != nil {
		return err
	}
	ents, err := os.ReadDir(src)
	if err != nil {
		return err
	}
	for _, e := range ents {
		if e.IsDir() {
			if err := copyDir(filepath.Join(src, e.Name()), filepath.Join(dst, e.Name())); err != nil {
				return err
			}
			continue
		}
		in, err := os.Open(filepath.Join(src, e.Name()))
		if err != nil {
			return err
		}
		out, err := os.Create(filepath.Join(dst, e.Name()))
		if err != nil {
			in.Close()
			return err
		}
		_, err = io.Copy(out, in)
		in.Close()
		out.Close()
		if err != nil {
			return err
		}
	}
	return nil
}

// template chain: 20 empty blocks, then one block with two fan-out transactions (6 roots each).
func buildWorld() (*env, []*cl.BlockInfo, error) {
	w := cl.Init(cl.DefaultOptions())
	e := &env{w: w}
	trunk := w.Trunk(w.Genesis, 24)
	var fans []*types.Tx
	for _, h := range []int{4, 8} {
		rew := trunk[h].RewardOuts()
		if len(rew) == 0 {
			return nil, nil, fmt.Errorf("no reward output at height %d", h+1)
		}
		f := cl.Transfer([]cl.Out{rew[0]}, rootsPerFan, cl.DefaultFee, 0)
		fans = append(fans, f)
		for i := 0; i < rootsPerFan; i++ {
			e.roots = append(e.roots, cl.Out{Tx: f, Pos: i})
		}
	}
	// root nRoots is a coinbase (epoch reward) output itself, mature at the tip: the store keeps a spent
	// coinbase output as a spent entry instead of deleting it
	cb := trunk[12].RewardOuts()
	if len(cb) == 0 {
		return nil, nil, fmt.Errorf("no reward output at height 13")
	}
	e.roots = append(e.roots, cb[0])
	b := w.NewBlock(trunk[len(trunk)-1], fans, cl.BlockOpt{})
	e.tip = b
	return e, append(trunk, b), nil
}

func childTemplate(args []string) int {
	if len(args) != 1 {
		return 2
	}
	_, blocks, err := buildWorld()
	if err != nil {
		fmt.Fprintln(os.Stderr, "harness child error:", err)
		return 3
	}
	n, err := cl.NewNode(args[0])
	if err != nil {
		fmt.Fprintln(os.Stderr, "harness child error:", err)
		return 3
	}
	for _, b := range blocks {
		if orphan, err := n.Process(b.Block); err != nil || orphan {
			fmt.Fprintf(os.Stderr, "harness child error: template block %d: orphan=%v err=%v\n", b.Block.Height, orphan, err)
			return 3
		}
	}
	return 0
}

func newEnv(base, tmpl string) (*env, error) {
	e, _, err := buildWorld()
	if err != nil {
		return nil, err
	}
	e.base, e.tmpl = base, tmpl
	return e, nil
}

func (e *env) newCase(r *Rng, spec CaseSpec) (*caseRun, error) {
	c := &caseRun{e: e, r: r, spec: spec, byID: map[bc.Hash]*txInfo{}, outLabel: map[bc.Hash]int{},
		creators: map[int]int{}, byHash: map[bc.Hash]*blockInfo{}, subm: map[int]bool{}, open: map[int]int{},
		counts: map[string]int{}, failed: map[string]bool{}}
	for i, o := range e.roots {
		c.outLabel[o.ID()] = rootLabel + i
	}
	if err := c.build(); err != nil {
		return nil, err
	}
	g := &blockInfo{Label: 0, BI: e.tip}
	c.blocks = []*blockInfo{g}
	c.byHash[e.tip.Hash] = g
	c.best = g
	e.caseSeq++
	dir := filepath.Join(e.base, fmt.Sprintf("case_%d", e.caseSeq))
	if err := copyDir(e.tmpl, dir); err != nil {
		return nil, err
	}
	mk := e.mkNode
	if mk == nil {
		mk = cl.NewNode
	}
	n, err := mk(dir)
	if err != nil {
		return nil, err
	}
	c.n = n
	sub, err := n.Disp.Subscribe(protocol.TxMsgEvent{})
	if err != nil {
		return nil, err
	}
	c.sub = sub
	if h := n.Chain.BestBlockHeader().Hash(); h != e.tip.Hash {
		return nil, fmt.Errorf("the copied template node does not start at the template tip")
	}
	return c, nil
}

// build the transactions of the universe from the spec
func (c *caseRun) build() error {
	gh := c.e.tip.Block.Height
	for i, s := range c.spec.Univ {
		label := i + 1
		src := s
		timeRange := uint64(0)
		if s.Range > 0 {
			timeRange = gh + uint64(s.Range)
		}
		if s.TwinOf > 0 {
			src = c.spec.Univ[s.TwinOf-1]
			timeRange = 1000000 + uint64(label)
		}
		var ins []cl.Out
		var sum uint64
		for _, ref := range src.Ins {
			var o cl.Out
			if strings.HasPrefix(ref, "r") {
				k, _ := strconv.Atoi(ref[1:])
				o = c.e.roots[k%len(c.e.roots)]
			} else {
				parts := strings.Split(ref, ".")
				l, _ := strconv.Atoi(parts[0])
				p, _ := strconv.Atoi(parts[1])
				if l < 1 || l > len(c.univ) {
					return fmt.Errorf("bad input reference %q", ref)
				}
				if p >= len(c.univ[l-1].Tx.Outputs) || !c.univ[l-1].Orig[p] {
					return errTooSmall
				}
				o = cl.Out{Tx: c.univ[l-1].Tx, Pos: p}
			}
			ins = append(ins, o)
			sum += o.Amount()
		}
		if sum <= cl.DefaultFee+300000 {
			return errTooSmall
		}
		left := sum - cl.DefaultFee
		var outs []cl.OutSpec
		if src.Retire {
			left -= 1000
		}
		k := src.NOuts
		if k < 1 || left < 4*cl.DefaultFee*uint64(k) {
			k = 1
		}
		for j := 0; j < k; j++ {
			outs = append(outs, cl.OutSpec{Amount: left / uint64(k)})
		}
		if src.Dust {
			outs = append(outs, cl.OutSpec{Amount: 0})
		}
		if src.Retire {
			outs = append(outs, cl.OutSpec{Amount: 1000, Program: []byte{0x6a}})
		}
		tx := cl.NewTx(ins, outs, timeRange)
		ti := &txInfo{Label: label, Tx: tx, Spec: s, Range: timeRange}
		for _, o := range tx.SpentOutputIDs {
			l, ok := c.outLabel[o]
			if !ok {
				return fmt.Errorf("transaction %d spends an unlabelled output", label)
			}
			ti.Ins = append(ti.Ins, l)
		}
		for p, id := range tx.ResultIds {
			if _, ok := c.outLabel[*id]; !ok {
				c.outLabel[*id] = label*8 + p
			}
			ti.Outs = append(ti.Outs, c.outLabel[*id])
			_, isOrig := tx.Entries[*id].(*bc.OriginalOutput)
			ti.Orig = append(ti.Orig, isOrig)
			c.creators[c.outLabel[*id]]++
		}
		if _, dup := c.byID[tx.ID]; dup {
			return errTooSmall
		}
		c.byID[tx.ID] = ti
		c.univ = append(c.univ, ti)
	}
	return nil
}

// ---------------------------------------------------------------- observation and the oracle

func (c *caseRun) fail(step int, class, msg string) {
	if c.failed[class] {
		return
	}
	c.failed[class] = true
	c.fails = append(c.fails, Fail{What: "class=" + class + ": " + msg, Step: step})
}

func (c *caseRun) txLabel(h bc.Hash) int {
	if t, ok := c.byID[h]; ok {
		return t.Label
	}
	return 999999
}

// the notifications posted since the last call
func (c *caseRun) drain() []evRec {
	var evs []evRec
	for {
		select {
		case ev := <-c.sub.Chan():
			m, ok := ev.Data.(protocol.TxMsgEvent)
			if !ok {
				continue
			}
			kind := 0
			if m.TxMsg.MsgType == protocol.MsgRemoveTx {
				kind = 1
			}
			evs = append(evs, evRec{kind, c.txLabel(m.TxMsg.Tx.ID)})
		default:
			return evs
		}
	}
}

// main-chain transaction ids read back from the node (blocks above the start block)
func (c *caseRun) mainChainTxs() (map[bc.Hash]uint64, error) {
	res := map[bc.Hash]uint64{}
	best := c.n.Chain.BestBlockHeader()
	for h := c.e.tip.Block.Height + 1; h <= best.Height; h++ {
		b, err := c.n.Chain.GetBlockByHeight(h)
		if err != nil {
			return nil, fmt.Errorf("main chain block at height %d: %v", h, err)
		}
		bh := b.Hash()
		if !c.n.Chain.InMainChain(bh) {
			return nil, fmt.Errorf("block at height %d of the height index is not InMainChain", h)
		}
		for _, tx := range b.Transactions[1:] {
			res[tx.ID] = h
		}
	}
	return res, nil
}

type observation struct {
	best    int
	pool    []int
	orphans []int
	events  []evRec
}

func (c *caseRun) observe(step int) (*observation, error) {
	o := &observation{}
	bh := c.n.Chain.BestBlockHeader().Hash()
	bi, ok := c.byHash[bh]
	if !ok {
		return nil, fmt.Errorf("best block is not a block of the case")
	}
	o.best = bi.Label
	pooled := map[bc.Hash]bool{}
	for _, d := range c.n.Pool.GetTransactions() {
		pooled[d.Tx.ID] = true
		o.pool = append(o.pool, c.txLabel(d.Tx.ID))
	}
	sort.Ints(o.pool)
	snap := c.n.Pool.VerifSnapshot()
	for h := range snap.Orphans {
		o.orphans = append(o.orphans, c.txLabel(h))
	}
	sort.Ints(o.orphans)
	o.events = c.drain()

	// ---- oracle (1): pool and main chain are disjoint
	mainTxs, err := c.mainChainTxs()
	if err != nil {
		return nil, err
	}
	for h := range pooled {
		if height, conf := mainTxs[h]; conf {
			t := c.byID[h]
			class := "confirmed-in-pool"
			// the witness class of the recorded finding: an input of the transaction is an output id
			// that two transactions of the universe create (twins)
			if t != nil {
				for _, in := range t.Ins {
					if c.creators[in] > 1 {
						class = "twin-confirmed-in-pool"
					}
				}
			}
			c.fail(step, class, fmt.Sprintf("transaction %d is in the pool (GetTransactions) and in the main-chain block at height %d after step %d", c.txLabel(h), height, step))
		}
	}
	// ---- oracle (2): every Remove uses an earlier New of the same transaction that no other Remove used
	for _, e := range o.events {
		c.stream = append(c.stream, e)
		if e.Kind == 0 {
			c.open[e.Label]++
		} else {
			if c.open[e.Label] == 0 {
				c.fail(step, "unpaired-remove", fmt.Sprintf("MsgRemoveTx for transaction %d at step %d without an unmatched earlier MsgNewTx", e.Label, step))
			} else {
				c.open[e.Label]--
			}
		}
	}
	return o, nil
}

func intList(l []int) string {
	s := make([]string, len(l))
	for i, x := range l {
		s[i] = strconv.Itoa(x)
	}
	return "[" + strings.Join(s, "; ") + "]"
}

func (c *caseRun) record(iop string, o *observation) {
	// the model's projection: events of the step stably sorted by id
	evs := append([]evRec{}, o.events...)
	sort.SliceStable(evs, func(i, j int) bool { return evs[i].Label < evs[j].Label })
	var es []string
	for i, e := range evs {
		// an orphan can be added twice in a row (it is in processOrphans' work list once per output of the
		// new transaction it spends; how often depends on Go's map order): repetitions of a New are collapsed
		if e.Kind == 0 && i+1 < len(evs) && evs[i+1] == e {
			c.counts["event:new-posted-twice"]++
			continue
		}
		es = append(es, fmt.Sprintf("(%d, %d)", e.Kind, e.Label))
	}
	c.iops = append(c.iops, iop)
	c.obs = append(c.obs, fmt.Sprintf("(%d, %s, %s, [%s])", o.best, intList(o.pool), intList(o.orphans), strings.Join(es, "; ")))
	for _, e := range o.events {
		if e.Kind == 1 {
			c.sawRemove = true
		}
	}
}

// ---------------------------------------------------------------- branch bookkeeping (harness side, for generating valid blocks)

type branchState struct {
	spendable map[int]bool // output labels
	included  map[int]bool // transaction labels
}

func (c *caseRun) branch(b *blockInfo) *branchState {
	var path []*blockInfo
	for x := b; x != nil; x = x.Parent {
		path = append([]*blockInfo{x}, path...)
	}
	s := &branchState{spendable: map[int]bool{}, included: map[int]bool{}}
	for i := range c.e.roots {
		s.spendable[rootLabel+i] = true
	}
	for _, x := range path {
		for _, l := range x.Txs {
			s.apply(c.univ[l-1])
		}
	}
	return s
}

func (s *branchState) applicable(t *txInfo) bool {
	if s.included[t.Label] || t.Spec.Dust {
		return false
	}
	seen := map[int]bool{}
	for _, in := range t.Ins {
		if !s.spendable[in] || seen[in] {
			return false
		}
		seen[in] = true
	}
	return true
}

func (s *branchState) apply(t *txInfo) {
	s.included[t.Label] = true
	for _, in := range t.Ins {
		s.spendable[in] = false
	}
	for i, o := range t.Outs {
		if t.Orig[i] {
			s.spendable[o] = true
		}
	}
}

func (c *caseRun) onBranch(b *blockInfo, x *blockInfo) bool {
	for y := b; y != nil; y = y.Parent {
		if y == x {
			return true
		}
	}
	return false
}

// ---------------------------------------------------------------- operations

func (c *caseRun) apply(step int, op OpSpec) error {
	c.counts["op:"+op.K]++
	switch op.K {
	case "submit":
		t := c.univ[op.T-1]
		pre := c.n.Pool.VerifSnapshot()
		state := "new"
		_, wasOrphan := pre.Orphans[t.Tx.ID]
		conf := c.branch(c.best).included[t.Label]
		switch {
		case c.n.Pool.IsTransactionInPool(&t.Tx.ID):
			state = "pooled"
		case wasOrphan:
			state = "orphan"
		case conf:
			state = "confirmed"
		case c.subm[t.Label]:
			state = "seen"
		}
		isOrphan, err := c.n.Chain.ValidateTx(t.Tx)
		c.subm[t.Label] = true
		res := "pooled"
		switch {
		case err != nil:
			res = "refused"
		case isOrphan:
			res = "orphan"
		case !c.n.Pool.IsTransactionInPool(&t.Tx.ID):
			res = "ignored"
		}
		c.counts["submit:"+state+"->"+res]++
		o, err := c.observe(step)
		if err != nil {
			return err
		}
		if len(o.events) > 1 {
			c.counts["event:promotion-on-submit"]++
		}
		c.record(fmt.Sprintf("ISubmit %d", op.T-1), o)
	case "block":
		if op.Parent < 0 || op.Parent >= len(c.blocks) {
			return fmt.Errorf("bad parent %d", op.Parent)
		}
		parent := c.blocks[op.Parent]
		var txs []*types.Tx
		for _, l := range op.Ts {
			txs = append(txs, c.univ[l-1].Tx)
		}
		bi := c.e.w.NewBlock(parent.BI, txs, cl.BlockOpt{Skip: parent.NChild})
		parent.NChild++
		b := &blockInfo{Label: len(c.blocks), BI: bi, Parent: parent, Txs: append([]int{}, op.Ts...)}
		c.blocks = append(c.blocks, b)
		c.byHash[bi.Hash] = b
		prevBest := c.best
		orphan, err := c.n.Process(bi.Block)
		if err != nil || orphan {
			return fmt.Errorf("block %d (parent %d, transactions %v) refused: orphan=%v err=%v", b.Label, op.Parent, op.Ts, orphan, err)
		}
		o, err := c.observe(step)
		if err != nil {
			return err
		}
		c.best = c.blocks[o.best]
		kind := "side-branch"
		switch {
		case c.best == prevBest:
		case c.best.Parent == prevBest:
			kind = "connect"
		default:
			kind = "reorganise"
			c.sawReorg = true
			// detached blocks with transactions?
			for x := prevBest; x != nil && !c.onBranch(c.best, x); x = x.Parent {
				if len(x.Txs) > 0 {
					c.sawRestore = true
					c.counts["reorg:detached-transactions"]++
					break
				}
			}
			depth := 0
			for x := prevBest; x != nil && !c.onBranch(c.best, x); x = x.Parent {
				depth++
			}
			c.counts[fmt.Sprintf("reorg:depth-%d", depth)]++
		}
		c.counts["block:"+kind]++
		c.counts[fmt.Sprintf("block:%d-txs", len(op.Ts))]++
		// restore order hint: the ids of the New notifications of this step, in order
		var hint []int
		seen := map[int]bool{}
		nNew, nRm := 0, 0
		for _, e := range o.events {
			if e.Kind == 0 {
				nNew++
				if !seen[e.Label] {
					seen[e.Label] = true
					hint = append(hint, e.Label)
				}
			} else {
				nRm++
			}
		}
		if nNew > 0 {
			c.counts["event:restored-on-block"]++
		}
		if nRm > 0 {
			c.counts["event:removed-on-block"]++
		}
		c.record(fmt.Sprintf("ITip %d %s", o.best, intList(hint)), o)
	case "expire":
		pre := c.n.Pool.VerifSnapshot()
		var hs []int
		now := time.Unix(1, 0)
		if op.Mode == "all" {
			now = time.Now().Add(1000 * time.Hour)
			for h := range pre.Orphans {
				hs = append(hs, c.txLabel(h))
			}
			sort.Ints(hs)
		}
		c.n.Pool.ExpireOrphan(now)
		o, err := c.observe(step)
		if err != nil {
			return err
		}
		c.counts[fmt.Sprintf("expire:%s:removed-%d", op.Mode, len(hs))]++
		c.record(fmt.Sprintf("IExpire %s", intList(hs)), o)
	default:
		return fmt.Errorf("unknown operation %q", op.K)
	}
	return nil
}

// ---------------------------------------------------------------- generators

func rootRef(k int) string   { return "r" + strconv.Itoa(k) }
func outRef(l, p int) string { return strconv.Itoa(l) + "." + strconv.Itoa(p) }
func perm(r *Rng, n int) []int {
	p := make([]int, n)
	for i := range p {
		p[i] = i
	}
	for i := n - 1; i > 0; i-- {
		j := r.Intn(i + 1)
		p[i], p[j] = p[j], p[i]
	}
	return p
}

// a universe with conflicts: an output (root or transaction output) may be spent by several
// transactions; no two transactions have the same inputs (no twins: those are corpus only)
func genUniverse(r *Rng) (string, []TxSpec) {
	roots := perm(r, nRoots)
	nextRoot := 0
	usedCb := !r.Chance(20) // one universe in five has a transaction that spends the coinbase root
	root := func() string {
		if !usedCb && r.Chance(50) {
			usedCb = true
			return rootRef(nRoots) // the coinbase root
		}
		nextRoot++
		return rootRef(roots[(nextRoot-1)%nRoots])
	}
	var u []TxSpec
	add := func(s TxSpec) int { u = append(u, s); return len(u) }
	shape := []string{"families", "conflicts", "random", "random", "chain-and-conflict", "multi-parent"}[r.Intn(6)]
	type ref struct {
		s     string
		spent int
	}
	var av []*ref
	mk := func(ins []string, no int) int {
		l := add(TxSpec{Ins: ins, NOuts: no})
		for p := 0; p < no; p++ {
			av = append(av, &ref{outRef(l, p), 0})
		}
		return l
	}
	switch shape {
	case "families":
		// two independent chains and a transaction joining them
		a := mk([]string{root()}, 2)
		a2 := mk([]string{outRef(a, 0)}, 1)
		b := mk([]string{root()}, 1+r.Intn(2))
		mk([]string{outRef(b, 0)}, 1)
		if r.Chance(60) {
			mk([]string{outRef(a2, 0), outRef(a, 1)}, 1)
		}
		mk([]string{root()}, 1)
	case "conflicts":
		// pairs of transactions spending the same root, each with a child
		k := 1 + r.Intn(2)
		for i := 0; i < k; i++ {
			rt := root()
			x := mk([]string{rt}, 1)
			y := mk([]string{rt, root()}, 2)
			if r.Bool() {
				mk([]string{outRef(x, 0)}, 1)
			}
			if r.Bool() {
				mk([]string{outRef(y, r.Intn(2))}, 1)
			}
		}
		mk([]string{root()}, 1)
	case "chain-and-conflict":
		p := mk([]string{root()}, 2)
		for i := 0; i < 1+r.Intn(3); i++ {
			p = mk([]string{outRef(p, 0)}, 1+r.Intn(2))
		}
		// a second spender of the first transaction's first output
		mk([]string{outRef(1, 0), root()}, 1)
		mk([]string{root()}, 1)
	case "multi-parent":
		k := 2 + r.Intn(2)
		var ps []string
		for i := 0; i < k; i++ {
			p := mk([]string{root()}, 1+r.Intn(2))
			ps = append(ps, outRef(p, 0))
		}
		var ins []string
		for _, i := range perm(r, len(ps)) {
			ins = append(ins, ps[i])
		}
		y := mk(ins, 1+r.Intn(2))
		mk([]string{outRef(y, 0)}, 1)
		mk([]string{root()}, 1)
	case "random":
		n := 4 + r.Intn(5)
		for i := 0; i < 3; i++ {
			av = append(av, &ref{root(), 0})
		}
		seenIns := map[string]bool{}
		for i := 0; i < n; i++ {
			k := 1 + r.Intn(2)
			var ins []string
			used := map[string]bool{}
			var picked []*ref
			for j := 0; j < k; j++ {
				var cand []*ref
				for _, a := range av {
					if !used[a.s] && (a.spent == 0 || r.Chance(25)) {
						cand = append(cand, a)
					}
				}
				if len(cand) == 0 {
					break
				}
				x := cand[r.Intn(len(cand))]
				if r.Chance(50) {
					x = cand[len(cand)-1-r.Intn((len(cand)+1)/2)]
				}
				used[x.s] = true
				picked = append(picked, x)
				ins = append(ins, x.s)
			}
			if len(ins) == 0 {
				ins = []string{root()}
			}
			key := strings.Join(ins, ",")
			no := 1 + r.Intn(2)
			if seenIns[key] {
				ins = append(ins, root()) // never the same inputs twice
			}
			seenIns[strings.Join(ins, ",")] = true
			for _, x := range picked {
				x.spent++
			}
			mk(ins, no)
		}
	}
	spentFrom := map[int]bool{}
	for _, s := range u {
		for _, in := range s.Ins {
			if !strings.HasPrefix(in, "r") {
				l, _ := strconv.Atoi(strings.Split(in, ".")[0])
				spentFrom[l] = true
			}
		}
	}
	for i := range u {
		if r.Chance(15) {
			u[i].Retire = true // the retirement output comes last: positions of spendable outputs unchanged
		}
		if r.Chance(10) {
			u[i].Range = 1 + r.Intn(4) // expires when the best block passes that height
		}
	}
	if r.Chance(35) {
		add(TxSpec{Ins: []string{root()}, NOuts: 1, Dust: true})
		shape += "+dust"
	}
	return shape, u
}

type genState struct {
	r    *Rng
	c    *caseRun
	left int
}

func (g *genState) tips() []*blockInfo {
	isParent := map[*blockInfo]bool{}
	for _, b := range g.c.blocks {
		if b.Parent != nil {
			isParent[b.Parent] = true
		}
	}
	var t []*blockInfo
	for _, b := range g.c.blocks {
		if !isParent[b] {
			t = append(t, b)
		}
	}
	return t
}

func height(b *blockInfo) int {
	h := 0
	for x := b; x.Parent != nil; x = x.Parent {
		h++
	}
	return h
}

// transactions for a block on parent p: applicable on that branch, in universe order (parents first)
func (g *genState) pickTxs(p *blockInfo) []int {
	r, c := g.r, g.c
	s := c.branch(p)
	h := c.e.tip.Block.Height + uint64(height(p)) + 1
	var ts []int
	max := r.Intn(4)
	for _, t := range c.univ {
		if len(ts) >= max {
			break
		}
		if !s.applicable(t) || (t.Range != 0 && t.Range < h) {
			continue
		}
		p := 25
		if c.n.Pool.IsTransactionInPool(&t.Tx.ID) {
			p = 65
		} else if c.branch(c.best).included[t.Label] {
			p = 50 // confirmed on the best branch: also on this one
		}
		if r.Chance(p) {
			ts = append(ts, t.Label)
			s.apply(t)
		}
	}
	return ts
}

func (g *genState) next() *OpSpec {
	if g.left == 0 {
		return nil
	}
	g.left--
	r, c := g.r, g.c
	roll := r.Intn(100)
	switch {
	case roll < 42:
		// submit
		var fresh, other []int
		for _, t := range c.univ {
			if !c.subm[t.Label] {
				fresh = append(fresh, t.Label)
			} else {
				other = append(other, t.Label)
			}
		}
		if len(fresh) > 0 && (len(other) == 0 || r.Chance(75)) {
			// children before parents more often than not: pick from the back half the time
			if r.Bool() {
				return &OpSpec{K: "submit", T: fresh[len(fresh)-1-r.Intn((len(fresh)+1)/2)]}
			}
			return &OpSpec{K: "submit", T: fresh[r.Intn(len(fresh))]}
		}
		// a transaction never submitted may be confirmed meanwhile; re-submissions of anything
		return &OpSpec{K: "submit", T: c.univ[r.Intn(len(c.univ))].Label}
	case roll < 95:
		tips := g.tips()
		var parent *blockInfo
		switch {
		case len(c.blocks) == 1:
			parent = c.blocks[0]
		case len(tips) < 3 && r.Chance(22):
			// fork: a sibling of some block on the best branch (not too deep)
			x := c.best
			for d := r.Intn(3); d > 0 && x.Parent != nil; d-- {
				x = x.Parent
			}
			if x.Parent != nil {
				parent = x.Parent
			} else {
				parent = x
			}
		case len(tips) > 1 && r.Chance(62):
			// extend a side branch (it overtakes sooner or later)
			var side []*blockInfo
			for _, t := range tips {
				if t != c.best {
					side = append(side, t)
				}
			}
			parent = side[r.Intn(len(side))]
		default:
			parent = c.best
		}
		return &OpSpec{K: "block", Parent: parent.Label, Ts: g.pickTxs(parent)}
	default:
		if r.Chance(60) {
			return &OpSpec{K: "expire", Mode: "all"}
		}
		return &OpSpec{K: "expire", Mode: "none"}
	}
}

// fixed regression cases (run first on every check)
func corpus() []CaseSpec {
	sub := func(t int) OpSpec { return OpSpec{K: "submit", T: t} }
	blk := func(p int, ts ...int) OpSpec { return OpSpec{K: "block", Parent: p, Ts: ts} }
	return []CaseSpec{
		// forth and back: A only (1, child 2), both branches (3), conflicting pair (4 on A, 5 on B), never confirmed (6)
		{Shape: "corpus-reorg-forth-and-back", Univ: []TxSpec{
			{Ins: []string{"r0"}, NOuts: 2}, {Ins: []string{"1.0"}, NOuts: 1}, {Ins: []string{"r1"}, NOuts: 1},
			{Ins: []string{"r2"}, NOuts: 1}, {Ins: []string{"r2", "r4"}, NOuts: 1, Retire: true}, {Ins: []string{"r3", "3.0"}, NOuts: 1}},
			Ops: []OpSpec{sub(2), sub(1), sub(3), blk(0, 1, 3), sub(4), sub(6), blk(1, 2, 4),
				blk(0, 3), blk(3, 5), blk(4), sub(5), blk(2), blk(6), {K: "expire", Mode: "all"}, blk(7)}},
		// a transaction of an attached block that is parked as an orphan; then the reorganisation away and back
		{Shape: "corpus-orphan-confirmed", Univ: []TxSpec{
			{Ins: []string{"r0"}, NOuts: 1}, {Ins: []string{"1.0"}, NOuts: 1}, {Ins: []string{"2.0", "r1"}, NOuts: 1}},
			Ops: []OpSpec{sub(3), sub(2), blk(0, 1, 2), blk(1, 3), blk(0), blk(3), blk(4), sub(1), blk(2), blk(6), blk(7)}},
		// submitted while already confirmed: not pooled (its inputs are spent), neither after the next block
		{Shape: "corpus-resubmit-confirmed", Univ: []TxSpec{
			{Ins: []string{"r0"}, NOuts: 1}, {Ins: []string{"1.0"}, NOuts: 1}},
			Ops: []OpSpec{blk(0, 1), sub(1), sub(2), blk(1, 2), sub(2), sub(1), blk(2), blk(0), blk(4), blk(5), blk(6)}},
		// confirmed on both branches while pooled / while not pooled
		{Shape: "corpus-both-branches", Univ: []TxSpec{
			{Ins: []string{"r0"}, NOuts: 1}, {Ins: []string{"r1"}, NOuts: 1}, {Ins: []string{"1.0", "2.0"}, NOuts: 1}},
			Ops: []OpSpec{sub(1), blk(0, 1, 2), blk(0, 2), sub(3), blk(2, 1), blk(3, 3), blk(1, 3), blk(5), blk(6)}},
		// a restored transaction whose TimeRange has expired at the new height is dropped and stays refused
		{Shape: "corpus-timerange-restore", Univ: []TxSpec{
			{Ins: []string{"r0"}, NOuts: 1, Range: 1}, {Ins: []string{"r1"}, NOuts: 1, Range: 2}, {Ins: []string{"r2"}, NOuts: 1}},
			Ops: []OpSpec{sub(1), sub(2), blk(0, 1, 3), blk(0), blk(2), sub(1), blk(1), blk(4), sub(2), blk(5)}},
		// twins (finding C23-twin-confirmed-in-pool): T' pooled, T and then P (spends their common output)
		// confirmed, P submitted again -> pooled although on the main chain; the next block leaves it there
		{Shape: "corpus-twin", Univ: []TxSpec{
			{Ins: []string{"r0"}, NOuts: 1}, {TwinOf: 1}, {Ins: []string{"1.0"}, NOuts: 1}},
			Ops: []OpSpec{sub(2), blk(0, 1), blk(1, 3), sub(3), blk(2)}},
	}
}

// ---------------------------------------------------------------- running one case

func txCoq(t *txInfo, gh uint64) string {
	var outs []string
	for i, o := range t.Outs {
		outs = append(outs, fmt.Sprintf("(%d, %s)", o, CoqBool(t.Orig[i])))
	}
	return fmt.Sprintf("(mkTx %d %s [%s], (%d, %s))", t.Label, intList(t.Ins), strings.Join(outs, "; "), t.Range, CoqBool(t.Spec.Dust))
}

func runCase(e *env, r *Rng, idx int, spec CaseSpec, scripted bool, nops int) (*CaseResult, error) {
	c, err := e.newCase(r, spec)
	if err != nil {
		return nil, err
	}
	c.counts["shape:"+spec.Shape]++
	c.counts[fmt.Sprintf("universe-size:%d", len(c.univ))]++
	var ops []OpSpec
	if scripted {
		for i, op := range spec.Ops {
			if err := c.apply(i, op); err != nil {
				return nil, fmt.Errorf("case %d (%s) step %d: %v", idx, spec.Shape, i, err)
			}
		}
		ops = spec.Ops
	} else {
		g := &genState{r: r, c: c, left: nops}
		for i := 0; ; i++ {
			op := g.next()
			if op == nil {
				break
			}
			ops = append(ops, *op)
			if err := c.apply(i, *op); err != nil {
				return nil, fmt.Errorf("case %d (%s) step %d %+v: %v", idx, spec.Shape, i, *op, err)
			}
		}
	}
	c.spec.Ops = ops
	c.counts[fmt.Sprintf("ops-per-case:%d", len(ops)/4*4)]++
	c.counts[fmt.Sprintf("blocks-per-case:%d", (len(c.blocks)-1)/3*3)]++
	gh := e.tip.Block.Height
	var txs, blocks, roots []string
	for _, t := range c.univ {
		txs = append(txs, txCoq(t, gh))
	}
	for _, b := range c.blocks[1:] {
		var is []int
		for _, l := range b.Txs {
			is = append(is, l-1)
		}
		blocks = append(blocks, fmt.Sprintf("(%d, %d, %d, %s)", b.Label, b.Parent.Label, b.BI.Block.Height, intList(is)))
	}
	for i := range e.roots {
		roots = append(roots, strconv.Itoa(rootLabel+i))
	}
	res := &CaseResult{Idx: idx, Spec: c.spec, Counts: c.counts, Nontrivial: c.sawRestore && c.sawRemove, Fails: c.fails}
	if c.sawReorg {
		c.counts["case:with-reorganisation"]++
	}
	res.Model = fmt.Sprintf("run_case [%s] (0, %d) [%s] [%s] [%s]", strings.Join(roots, "; "), gh,
		strings.Join(txs, "; "), strings.Join(blocks, "; "), strings.Join(c.iops, "; "))
	res.Observed = "Some [" + strings.Join(c.obs, "; ") + "]"
	return res, nil
}

func childBatch(args []string) int {
	if len(args) != 1 {
		return 2
	}
	var a BatchArgs
	if err := json.Unmarshal([]byte(args[0]), &a); err != nil {
		fmt.Fprintln(os.Stderr, err)
		return 2
	}
	e, err := newEnv(a.Dir, a.Tmpl)
	if err != nil {
		fmt.Fprintln(os.Stderr, "harness child error:", err)
		return 3
	}
	out := bufio.NewWriter(os.Stdout)
	r := NewRng(a.Seed)
	emit := func(res *CaseResult) {
		js, _ := json.Marshal(res)
		out.Write(js)
		out.WriteString("\n")
		out.Flush()
	}
	idx := a.First
	if a.Corpus {
		for _, spec := range corpus() {
			fmt.Fprintf(out, "BEGIN %d\n", idx)
			out.Flush()
			res, err := runCase(e, r, idx, spec, true, 0)
			if err != nil {
				fmt.Fprintln(os.Stderr, "harness child error:", err)
				return 3
			}
			emit(res)
			idx++
		}
	}
	for k := 0; k < a.N; k++ {
		fmt.Fprintf(out, "BEGIN %d\n", idx)
		out.Flush()
		shape, univ := genUniverse(r)
		nops := 8 + r.Intn(14)
		res, err := runCase(e, r, idx, CaseSpec{Shape: shape, Univ: univ}, false, nops)
		if err == errTooSmall {
			k--
			continue
		}
		if err != nil {
			fmt.Fprintln(os.Stderr, "harness child error:", err)
			return 3
		}
		emit(res)
		idx++
	}
	return 0
}

// ---------------------------------------------------------------- overlap stage: submission of T while the block confirming T connects

// parkStore wraps the node's store: the pool's utxo lookup for one chosen transaction can be parked.
type parkStore struct {
	state.Store
	mu      sync.Mutex
	armed   bool
	before  bool // park before the real lookup (otherwise after it)
	target  bc.Hash
	parked  chan struct{}
	release chan struct{}
	saved   chan struct{} // closed when the chain status of the next reorganisation has been written
	// onCommit, when set, runs once at the start of the next SaveChainStatus, i.e. inside
	// reorganizeChain just before the new chain state is written
	onCommit func()
}

func (s *parkStore) arm(target bc.Hash, before bool) {
	s.mu.Lock()
	defer s.mu.Unlock()
	s.armed, s.before, s.target = true, before, target
	s.parked, s.release, s.saved = make(chan struct{}), make(chan struct{}), make(chan struct{})
}

// setState's write: what follows in reorganizeChain is the RemoveTransaction loop
func (s *parkStore) SaveChainStatus(bh *types.BlockHeader, main []*types.BlockHeader, view *state.UtxoViewpoint, cv *state.ContractViewpoint, fh uint64, fhash *bc.Hash) error {
	s.mu.Lock()
	hook := s.onCommit
	s.onCommit = nil
	s.mu.Unlock()
	if hook != nil {
		hook()
	}
	err := s.Store.SaveChainStatus(bh, main, view, cv, fh, fhash)
	s.mu.Lock()
	if s.saved != nil {
		select {
		case <-s.saved:
		default:
			close(s.saved)
		}
	}
	s.mu.Unlock()
	return err
}

// the pool's checkOrphanUtxos looks up exactly one transaction; block processing looks up whole blocks
func (s *parkStore) GetTransactionsUtxo(view *state.UtxoViewpoint, txs []*bc.Tx) error {
	s.mu.Lock()
	hit := s.armed && len(txs) == 1 && txs[0].ID == s.target
	if hit {
		s.armed = false
	}
	before, parked, release := s.before, s.parked, s.release
	s.mu.Unlock()
	if hit && before {
		close(parked)
		<-release
	}
	err := s.Store.GetTransactionsUtxo(view, txs)
	if hit && !before {
		close(parked)
		<-release
	}
	return err
}

type RaceArgs struct {
	Seed  uint64 `json:"seed"`
	First int    `json:"first"`
	N     int    `json:"n"`
	Dir   string `json:"dir"`
	Tmpl  string `json:"tmpl"`
}

type raceVariant struct {
	name   string
	before bool // park before the real lookup
	reorg  bool // T is confirmed by a reorganisation (side block b1(T), then b2 overtakes a1)
	two    bool // T has two inputs and the block carries a second transaction
	child  bool // T spends an output of a pooled parent that the same block confirms
	early  bool // release after a short random delay instead of waiting for the block
	commit bool // no parking: T is submitted (and the submission given 300 ms to finish) at the moment the block's new chain state is about to be written
}

var raceVariants = []raceVariant{
	{name: "after-lookup"},
	{name: "after-lookup-reorg", reorg: true},
	{name: "before-lookup", before: true},
	{name: "after-lookup-two-inputs", two: true},
	{name: "after-lookup-child", child: true},
	{name: "after-lookup-early-release", early: true},
	{name: "before-lookup-reorg", before: true, reorg: true},
	{name: "after-lookup-reorg-child", reorg: true, child: true},
	{name: "during-commit", commit: true},
	{name: "during-commit-pooled", commit: true, two: true},
	{name: "during-commit-reorg", commit: true, reorg: true},
	{name: "during-commit-child", commit: true, child: true},
}

func runRace(e *env, ps **parkStore, r *Rng, idx int, v raceVariant) (*CaseResult, error) {
	// universe: [P (only for child), T, X (second transaction of the block, only for two)]
	rt := perm(r, nRoots)
	var univ []TxSpec
	tLabel := 1
	if v.child {
		univ = append(univ, TxSpec{Ins: []string{rootRef(rt[0])}, NOuts: 2})
		univ = append(univ, TxSpec{Ins: []string{outRef(1, 0)}, NOuts: 1})
		tLabel = 2
	} else if v.two {
		univ = append(univ, TxSpec{Ins: []string{rootRef(rt[0]), rootRef(rt[1])}, NOuts: 2})
	} else {
		univ = append(univ, TxSpec{Ins: []string{rootRef(rt[0])}, NOuts: 1 + r.Intn(2)})
	}
	xLabel := 0
	if v.two {
		univ = append(univ, TxSpec{Ins: []string{rootRef(rt[2])}, NOuts: 1})
		xLabel = len(univ)
	}
	spec := CaseSpec{Shape: "overlap-" + v.name, Univ: univ}
	c, err := e.newCase(r, spec)
	if err != nil {
		return nil, err
	}
	store := *ps
	c.counts["shape:"+spec.Shape]++
	step := 0
	do := func(op OpSpec) error {
		spec.Ops = append(spec.Ops, op)
		err := c.apply(step, op)
		step++
		return err
	}
	var blockTxs []int
	if v.child {
		if err := do(OpSpec{K: "submit", T: 1}); err != nil { // the parent is pooled
			return nil, err
		}
		blockTxs = append(blockTxs, 1)
	}
	blockTxs = append(blockTxs, tLabel)
	if xLabel > 0 {
		if r.Bool() {
			if err := do(OpSpec{K: "submit", T: xLabel}); err != nil {
				return nil, err
			}
		}
		blockTxs = append(blockTxs, xLabel)
	}
	// the block whose delivery confirms T
	var confirming *blockInfo
	mk := func(parent *blockInfo, ts []int) *blockInfo {
		var txs []*types.Tx
		for _, l := range ts {
			txs = append(txs, c.univ[l-1].Tx)
		}
		bi := c.e.w.NewBlock(parent.BI, txs, cl.BlockOpt{Skip: parent.NChild})
		parent.NChild++
		b := &blockInfo{Label: len(c.blocks), BI: bi, Parent: parent, Txs: append([]int{}, ts...)}
		c.blocks = append(c.blocks, b)
		c.byHash[bi.Hash] = b
		return b
	}
	expectBest := (*blockInfo)(nil)
	if v.reorg {
		// a1, a2 (empty) are the main chain; b1(T...) is delivered as a side block (lower: no tie), b3 as an
		// orphan (its parent b2 is missing); delivering b2 connects b2 and b3 and reorganises onto b1, b2, b3
		for k := 0; k < 2; k++ {
			if err := do(OpSpec{K: "block", Parent: k}); err != nil {
				return nil, err
			}
		}
		if c.best.Label != 2 {
			return nil, fmt.Errorf("overlap: a2 did not become best")
		}
		b1 := mk(c.blocks[0], blockTxs)
		b2 := mk(b1, nil)
		b3 := mk(b2, nil)
		if orphan, err := c.n.Process(b1.BI.Block); err != nil || orphan {
			return nil, fmt.Errorf("overlap: side block refused: orphan=%v err=%v", orphan, err)
		}
		if orphan, err := c.n.Process(b3.BI.Block); err != nil || !orphan {
			return nil, fmt.Errorf("overlap: block with a missing parent: orphan=%v err=%v", orphan, err)
		}
		spec.Ops = append(spec.Ops, OpSpec{K: "block", Parent: 0, Ts: blockTxs}, OpSpec{K: "block-orphan", Parent: b2.Label})
		if o, err := c.observe(step); err != nil {
			return nil, err
		} else if o.best != 2 {
			return nil, fmt.Errorf("overlap: the side blocks changed the best block")
		}
		step++
		confirming, expectBest = b2, b3
	} else {
		confirming = mk(c.blocks[0], blockTxs)
		expectBest = confirming
	}
	spec.Ops = append(spec.Ops, OpSpec{K: "submit||block", T: tLabel, Parent: confirming.Parent.Label, Ts: confirming.Txs, Mode: v.name})

	t := c.univ[tLabel-1]
	if v.commit {
		if v.two || (v.child && r.Bool()) {
			// T is already pooled when the block arrives
			if _, err := c.n.Chain.ValidateTx(t.Tx); err != nil {
				return nil, fmt.Errorf("during-commit: pooling T first: %v", err)
			}
		}
		subDone := make(chan error, 1)
		store.mu.Lock()
		store.onCommit = func() {
			go func() {
				_, err := c.n.Chain.ValidateTx(t.Tx)
				subDone <- err
			}()
			select {
			case err := <-subDone:
				subDone <- err
			case <-time.After(300 * time.Millisecond):
			}
		}
		store.mu.Unlock()
		orphan, err := c.n.Process(confirming.BI.Block)
		if err != nil || orphan {
			return nil, fmt.Errorf("during-commit: block confirming the transaction refused: orphan=%v err=%v", orphan, err)
		}
		store.mu.Lock()
		fired := store.onCommit == nil
		store.onCommit = nil
		store.mu.Unlock()
		if fired {
			select {
			case err := <-subDone:
				if err != nil {
					c.counts["overlap:submission-refused"]++
				}
			case <-time.After(30 * time.Second):
				return nil, fmt.Errorf("during-commit: the submission did not return")
			}
			c.counts["overlap:submitted-during-commit"]++
		} else {
			c.counts["overlap:commit-hook-not-reached"]++
		}
		o, err := c.observe(step)
		if err != nil {
			return nil, err
		}
		step++
		c.best = c.blocks[o.best]
		if c.best != expectBest {
			return nil, fmt.Errorf("during-commit: the delivery did not make block %d best", expectBest.Label)
		}
		if err := do(OpSpec{K: "block", Parent: expectBest.Label}); err != nil {
			return nil, err
		}
		c.spec = spec
		return &CaseResult{Idx: idx, Spec: spec, Counts: c.counts, Nontrivial: true, Fails: c.fails}, nil
	}
	store.arm(t.Tx.ID, v.before)
	done1 := make(chan error, 1)
	done2 := make(chan error, 1)
	go func() {
		_, err := c.n.Chain.ValidateTx(t.Tx)
		done1 <- err
	}()
	select {
	case <-store.parked:
	case err := <-done1:
		return nil, fmt.Errorf("overlap: the submission returned without reaching the pool's utxo lookup (err=%v)", err)
	case <-time.After(20 * time.Second):
		return nil, fmt.Errorf("overlap: the submission did not reach the pool's utxo lookup")
	}
	t0 := time.Now()
	var blockMs int64
	go func() {
		orphan, err := c.n.Process(confirming.BI.Block)
		blockMs = int64(time.Since(t0) / time.Millisecond)
		if err == nil && orphan {
			err = fmt.Errorf("delivered as orphan")
		}
		done2 <- err
	}()
	// release when the block has been processed, or a moment after the reorganisation has written the new
	// chain status (what follows is its RemoveTransaction loop: the unchanged tree makes it wait for the
	// pool's lock, which the parked submission holds), at the latest after 5 s; "early": after 0-40 ms
	var err2 error
	blockFirst := false
	if v.early {
		select {
		case err2 = <-done2:
			blockFirst = true
		case <-time.After(time.Duration(r.Intn(40)) * time.Millisecond):
		}
	} else {
		select {
		case err2 = <-done2:
			blockFirst = true
		case <-store.saved:
			select {
			case err2 = <-done2:
				blockFirst = true
			case <-time.After(120 * time.Millisecond):
			}
		case <-time.After(5 * time.Second):
			c.counts["overlap:chain-status-not-written-in-5s"]++
		}
	}
	close(store.release)
	if !blockFirst {
		select {
		case err2 = <-done2:
		case <-time.After(30 * time.Second):
			return nil, fmt.Errorf("overlap: block processing did not return after the lookup was released")
		}
	}
	var err1 error
	select {
	case err1 = <-done1:
	case <-time.After(30 * time.Second):
		return nil, fmt.Errorf("overlap: the submission did not return after the lookup was released")
	}
	if err2 != nil {
		return nil, fmt.Errorf("overlap: block confirming the transaction refused: %v", err2)
	}
	switch {
	case blockMs < 50:
		c.counts["overlap:block-delivery-under-50ms"]++
	case blockMs < 350:
		c.counts["overlap:block-delivery-50-350ms"]++
	default:
		c.counts["overlap:block-delivery-over-350ms"]++
	}
	if blockFirst {
		c.counts["overlap:block-returned-while-lookup-parked"]++
	} else {
		c.counts["overlap:block-waited-for-the-submission"]++
	}
	if err1 != nil {
		c.counts["overlap:submission-refused"]++
	}
	o, err := c.observe(step)
	if err != nil {
		return nil, err
	}
	step++
	c.best = c.blocks[o.best]
	if c.best != expectBest {
		return nil, fmt.Errorf("overlap: the delivery did not make block %d best", expectBest.Label)
	}
	inPool := false
	for _, l := range o.pool {
		if l == tLabel {
			inPool = true
		}
	}
	isOrphan := false
	for _, l := range o.orphans {
		if l == tLabel {
			isOrphan = true
		}
	}
	switch {
	case inPool:
		c.counts["overlap:outcome-pooled"]++
	case isOrphan:
		c.counts["overlap:outcome-orphan"]++
	default:
		c.counts["overlap:outcome-absent"]++
	}
	// "never removed": one more block connection, then the oracle again
	if err := do(OpSpec{K: "block", Parent: expectBest.Label}); err != nil {
		return nil, err
	}
	c.spec = spec
	return &CaseResult{Idx: idx, Spec: spec, Counts: c.counts, Nontrivial: true, Fails: c.fails}, nil
}

func childRace(args []string) int {
	if len(args) != 1 {
		return 2
	}
	var a RaceArgs
	if err := json.Unmarshal([]byte(args[0]), &a); err != nil {
		fmt.Fprintln(os.Stderr, err)
		return 2
	}
	e, err := newEnv(a.Dir, a.Tmpl)
	if err != nil {
		fmt.Fprintln(os.Stderr, "harness child error:", err)
		return 3
	}
	var ps *parkStore
	e.mkNode = func(dir string) (*cl.Node, error) {
		os.MkdirAll(dir, 0755)
		db := dbm.NewDB("core", "leveldb", dir)
		store := database.NewStore(db)
		ps = &parkStore{Store: store}
		disp := event.NewDispatcher()
		pool := protocol.NewTxPool(ps, disp)
		chain, err := protocol.NewChain(ps, pool, disp)
		if err != nil {
			return nil, err
		}
		return &cl.Node{Dir: dir, DB: db, Store: store, Pool: pool, Disp: disp, Chain: chain}, nil
	}
	out := bufio.NewWriter(os.Stdout)
	r := NewRng(a.Seed)
	for k := 0; k < a.N; k++ {
		idx := a.First + k
		fmt.Fprintf(out, "BEGIN %d\n", idx)
		out.Flush()
		res, err := runRace(e, &ps, r, idx, raceVariants[k%len(raceVariants)])
		if err != nil {
			fmt.Fprintln(os.Stderr, "harness child error:", err)
			return 3
		}
		js, _ := json.Marshal(res)
		out.Write(js)
		out.WriteString("\n")
		out.Flush()
	}
	return 0
}

// ---------------------------------------------------------------- parent

func jobs() int {
	if v, err := strconv.Atoi(os.Getenv("VERIF_JOBS")); err == nil && v > 0 {
		if v > 12 {
			v = 12
		}
		return v
	}
	return 6
}

type batchOut struct {
	results []*CaseResult
	crash   string
	err     error
}

func runBatch(a BatchArgs) batchOut { return runChild("batch", a) }

func runChild(child string, a interface{}) batchOut {
	js, _ := json.Marshal(a)
	cmd := exec.Command(os.Args[0], "child", child, string(js))
	var stderr bytes.Buffer
	cmd.Stderr = &stderr
	stdout, err := cmd.StdoutPipe()
	if err != nil {
		return batchOut{err: err}
	}
	if err := cmd.Start(); err != nil {
		return batchOut{err: err}
	}
	timer := time.AfterFunc(20*time.Minute, func() { cmd.Process.Kill() })
	defer timer.Stop()
	var bo batchOut
	current := -1
	sc := bufio.NewScanner(stdout)
	sc.Buffer(make([]byte, 1<<20), 1<<27)
	for sc.Scan() {
		l := sc.Text()
		if strings.HasPrefix(l, "BEGIN ") {
			current, _ = strconv.Atoi(l[6:])
			continue
		}
		r := &CaseResult{}
		if err := json.Unmarshal([]byte(l), r); err != nil {
			cmd.Process.Kill()
			cmd.Wait()
			return batchOut{err: fmt.Errorf("unparseable child output %.200q", l)}
		}
		bo.results = append(bo.results, r)
		current = -1
	}
	werr := cmd.Wait()
	if werr != nil {
		msg := stderr.String()
		if strings.Contains(msg, "harness child error:") {
			bo.err = fmt.Errorf("%s", strings.TrimSpace(msg[strings.Index(msg, "harness child error:"):]))
			return bo
		}
		if len(msg) > 1500 {
			msg = msg[:1500]
		}
		bo.crash = fmt.Sprintf("child process ended abnormally (%v) while running case %d: %s", werr, current, msg)
	}
	return bo
}

func runC23(c *Ctx) error {
	c.Stats.Rule = "transaction universes over 12 confirmed OP_TRUE roots of a real chain (two families with a joining transaction, conflicting pairs with children, chain plus a second spender of its first output, multi-parent, random DAG with double spends; retirement outputs, TimeRanges expiring 1-4 blocks above the start, a dust transaction) and 8-21 operations chosen from the node's current state: submit (fresh, children first half of the time; re-submission of pooled / orphaned / confirmed / refused ones), a real block built on the best tip, on a side tip (until it overtakes) or as a sibling up to 3 below the best tip, carrying transactions applicable on that branch (pooled 65%, confirmed on the best branch 50%, others 25%), ExpireOrphan all / none; a fixed corpus runs first (reorganisation forth and back with one-branch / both-branch / conflicting / never-confirmed transactions, an orphan that gets confirmed, re-submission after confirmation, both branches, TimeRange expiry on restore, twins); distinct = distinct (universe, operation list); non-trivial = a reorganisation detached a block with transactions and the pool posted at least one removal; plus the overlap stage (8 / 48 repetitions, oracle only): a submission of T parked inside the pool's utxo lookup (wrapping store) while the block confirming T is delivered (plain connection or reorganisation; T alone, with two inputs, or as the child of a pooled parent confirmed by the same block; parked after or before the real lookup; released when the block has returned or after a delay)"
	total := c.N(360, 2400)
	per := 40
	if c.Thorough() {
		per = 100
	}
	tmp := ""
	if st, err := os.Stat("/dev/shm"); err == nil && st.IsDir() {
		tmp = "/dev/shm"
	}
	base, err := os.MkdirTemp(tmp, "c23run")
	if err != nil && tmp != "" {
		base, err = os.MkdirTemp("", "c23run")
	}
	if err != nil {
		return err
	}
	defer os.RemoveAll(base)
	tmpl := filepath.Join(base, "tmpl")
	if out, err := exec.Command(os.Args[0], "child", "template", tmpl).CombinedOutput(); err != nil {
		return fmt.Errorf("building the template chain: %v: %s", err, out)
	}
	var batches []BatchArgs
	ncorpus := len(corpus())
	first := 0
	for k := 0; first < total+ncorpus; k++ {
		a := BatchArgs{Seed: c.Rng.Next(), First: first, N: per, Corpus: k == 0, Dir: filepath.Join(base, fmt.Sprintf("b%d", k)), Tmpl: tmpl}
		if k == 0 {
			first += ncorpus
		}
		if first+a.N > total+ncorpus {
			a.N = total + ncorpus - first
		}
		first += a.N
		batches = append(batches, a)
	}
	outs := make([]batchOut, len(batches)+1)
	seeds := make([]uint64, len(batches)+1)
	for i := range batches {
		seeds[i] = batches[i].Seed
	}
	// the overlap stage (submission of T while the block confirming T connects): one more child
	race := RaceArgs{Seed: c.Rng.Next(), First: total + ncorpus, N: c.N(2*len(raceVariants), 6*len(raceVariants)), Dir: filepath.Join(base, "race"), Tmpl: tmpl}
	seeds[len(batches)] = race.Seed
	sem := make(chan struct{}, jobs())
	var wg sync.WaitGroup
	wg.Add(1)
	go func() {
		defer wg.Done()
		sem <- struct{}{}
		outs[len(batches)] = runChild("race", race)
		os.RemoveAll(race.Dir)
		<-sem
	}()
	for i := range batches {
		wg.Add(1)
		go func(i int) {
			defer wg.Done()
			sem <- struct{}{}
			outs[i] = runBatch(batches[i])
			os.RemoveAll(batches[i].Dir)
			<-sem
		}(i)
	}
	wg.Wait()
	type pendingFail struct {
		what string
		desc interface{}
	}
	var failFirst, failLater []pendingFail
	perClass := map[string]int{}
	header := "From Coq Require Import List NArith Bool.\nFrom C22 Require Import Model.\nFrom C23 Require Import Model Run.\nImport ListNotations.\nOpen Scope N_scope.\n"
	for i, bo := range outs {
		if bo.err != nil {
			return fmt.Errorf("batch %d (seed %d): %v", i, seeds[i], bo.err)
		}
		for _, r := range bo.results {
			key, _ := json.Marshal(r.Spec)
			c.Stats.Case(string(key), r.Nontrivial)
			for k, v := range r.Counts {
				for j := 0; j < v; j++ {
					c.Stats.Count(k)
				}
			}
			if r.Nontrivial {
				c.Stats.Count("case:non-trivial")
			} else {
				c.Stats.Count("case:trivial")
			}
			usesCb := false
			for _, t := range r.Spec.Univ {
				for _, in := range t.Ins {
					usesCb = usesCb || in == rootRef(nRoots)
				}
			}
			if usesCb && r.Model != "" {
				// oracle only: the store keeps a spent coinbase output as a spent entry, so a later
				// spender is refused where the model (which deletes spent roots) parks it as an orphan
				c.Stats.Count("coinbase-root:oracle-only")
			} else if r.Model != "" { // the overlap stage is oracle-only: the model has no concurrent submissions
				id := c.Cases.Add(r.Model, r.Observed)
				c.Stats.Count("model_evaluated")
				if id < 1500 || len(r.Fails) > 0 {
					c.Stats.CaseIndex[strconv.Itoa(id)] = r.Spec
				}
			} else {
				c.Stats.Count("overlap-stage:cases")
			}
			if r.Idx%61 == 3 {
				c.Stats.Sample(map[string]interface{}{"case": r.Spec, "observed": r.Observed})
			}
			for _, f := range r.Fails {
				class := strings.SplitN(strings.TrimPrefix(f.What, "class="), ":", 2)[0]
				c.Stats.Count("oracle-failure:" + class)
				pf := pendingFail{f.What, map[string]interface{}{"case": r.Spec, "step": f.Step, "batch_seed": seeds[i], "index": r.Idx}}
				if class == "twin-confirmed-in-pool" {
					if perClass[class] < 3 {
						failLater = append(failLater, pf)
					}
					perClass[class]++
				} else {
					failFirst = append(failFirst, pf)
				}
			}
		}
		if bo.crash != "" {
			c.Stats.Count("oracle-failure:child-crash")
			failFirst = append(failFirst, pendingFail{"class=child-crash: " + bo.crash, map[string]interface{}{"batch_seed": seeds[i]}})
		}
	}
	for _, f := range append(failFirst, failLater...) {
		c.Stats.Fail(f.what, f.desc)
	}
	return c.Cases.Write(c.Out, header, "cres", "cres_eqb")
}
