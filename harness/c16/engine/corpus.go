package engine

// Fixed scenarios that run first on every check: the witnesses of the defects found while the
// checks were built (repaired or recorded as findings) and regression cases.

type scen struct{ c *Case }

func newScen(id int, name string, n, local int) *scen {
	return &scen{&Case{ID: id, Stream: name, NKeys: n, Local: local}}
}
func (s *scen) blk(parent int, links ...LinkSpec) int {
	s.c.Blocks = append(s.c.Blocks, BlockSpec{Parent: parent, Links: links})
	return len(s.c.Blocks)
}
func (s *scen) chain(parent, k int) []int {
	var r []int
	for i := 0; i < k; i++ {
		parent = s.blk(parent)
		r = append(r, parent)
	}
	return r
}
func (s *scen) deliver(ls ...int) {
	for _, l := range ls {
		s.c.Events = append(s.c.Events, Event{Kind: "deliver", Block: l})
	}
}
func (s *scen) vote(k, src, tgt int) {
	s.c.Events = append(s.c.Events, Event{Kind: "vote", Pub: k, Source: src, Target: tgt, Sig: SigSpec{Key: k, Src: src, Tgt: tgt}})
}
func (s *scen) restart() { s.c.Events = append(s.c.Events, Event{Kind: "restart"}) }
func valid(src, tgt int, keys ...int) LinkSpec {
	ls := LinkSpec{Source: src}
	for _, k := range keys {
		ls.Slots = append(ls.Slots, SlotSpec{Slot: k, Sig: SigSpec{Key: k, Src: src, Tgt: tgt}})
	}
	return ls
}

// Corpus returns the fixed cases (ids from `id` on).  withRestart: include the scenarios that reopen the node.
func Corpus(id int, withRestart bool) []*Case {
	var r []*Case
	add := func(s *scen) { r = append(r, s.c); id++ }

	// honest history: two epochs justified and finalized by messages
	s := newScen(id, "corpus-honest", 4, 0)
	t := s.chain(0, 13)
	s.deliver(t[:5]...)
	s.vote(1, 0, 4)
	s.vote(2, 0, 4)
	s.vote(3, 0, 4)
	s.deliver(t[5:9]...)
	s.vote(1, 4, 8)
	s.vote(2, 4, 8)
	s.vote(1, 4, 4) // target = root: an error, not a crash
	s.vote(1, 0, 0)
	s.vote(1, 8, 4)
	s.deliver(t[9:]...)
	s.vote(3, 8, 12)
	s.vote(2, 8, 12)
	add(s)

	// a supermajority link from a source that was never justified (b4 -> b8)
	s = newScen(id, "corpus-unjustified-source", 4, 0)
	t = s.chain(0, 9)
	s.deliver(t...)
	s.vote(1, 4, 8)
	s.vote(2, 4, 8)
	s.vote(3, 4, 8)
	s.vote(1, 0, 4)
	s.vote(2, 0, 4)
	add(s)

	// the same through a block-carried link
	s = newScen(id, "corpus-unjustified-source-block", 4, 0)
	t = s.chain(0, 7)
	b8 := s.blk(7, valid(4, 8, 1, 2, 3))
	b9 := s.blk(b8)
	s.deliver(t...)
	s.deliver(b8, b9)
	add(s)

	// a link whose source is no ancestor of its target (a4 justified on branch A, link a4 -> b8 on branch B)
	s = newScen(id, "corpus-non-ancestor-link", 4, 0)
	a := s.chain(0, 5)
	b := s.chain(0, 7) // 6..12, b4 = 9
	b8 = s.blk(b[6], valid(4, 13, 1, 2, 3))
	b9 = s.blk(b8)
	s.deliver(a...)
	s.vote(1, 0, 4)
	s.vote(2, 0, 4)
	s.deliver(b...)
	s.deliver(b8, b9)
	add(s)

	// an epoch-closing block with an unusable sup link is rejected; the node must not have voted for it
	s = newScen(id, "corpus-bad-link-block", 4, 0)
	t = s.chain(0, 3)
	x4 := s.blk(3, LinkSpec{Source: -1, Slots: []SlotSpec{{Slot: 1, Sig: SigSpec{Key: 1, Src: -1, Tgt: 4}}}})
	y4 := s.blk(3, LinkSpec{Source: 0, HeightUp: 4, Slots: []SlotSpec{{Slot: 1, Sig: SigSpec{Key: 1, Src: 0, Tgt: 5}}}})
	c4 := s.blk(3)
	c5 := s.blk(c4)
	s.deliver(t...)
	s.deliver(x4, y4, c4, c5)
	s.vote(1, 0, c4)
	s.vote(2, 0, c4)
	add(s)

	// span check and a pruned branch: validator 3 votes 0 -> c12 on branch C; branch B finalizes b4, C leaves the
	// tree; validator 3's b4 -> b8 lies strictly inside 0 -> c12
	s = newScen(id, "corpus-pruned-span", 4, Outsider)
	c := s.chain(0, 12)
	b = s.chain(0, 14) // 13..26: b4 = 16, b8 = 20
	s.deliver(c...)
	s.deliver(b...)
	s.vote(3, 0, 12)
	s.vote(0, 0, 16)
	s.vote(1, 0, 16)
	s.vote(2, 0, 16)
	s.vote(3, 16, 20) // rejected: inside 0 -> c12
	s.vote(0, 16, 20)
	s.vote(1, 16, 20)
	s.vote(2, 16, 20)
	s.vote(3, 16, 20) // admitted after the prune
	add(s)

	// same-height rule: a second vote of a validator for a sibling checkpoint is refused, also for the node itself
	s = newScen(id, "corpus-same-height", 4, 0)
	a = s.chain(0, 5)
	b = s.chain(0, 5) // 6..10, b4 = 9
	s.deliver(a...)
	s.deliver(b...)
	s.vote(1, 0, 4)
	s.vote(1, 0, 9)
	s.vote(2, 0, 9)
	s.vote(2, 0, 4)
	add(s)

	// a strictly shorter branch is finalized through links in its block headers while the node follows a longer
	// unvoted branch: the main chain must move to the finalized branch
	s = newScen(id, "corpus-short-branch-finalized", 4, Outsider)
	a = s.chain(0, 11)
	b1 := s.chain(0, 3) // 12..14
	b4 := s.blk(b1[2], valid(0, 15, 1, 2, 3))
	b7 := s.chain(b4, 3) // 16..18
	b8x := s.blk(b7[2], valid(b4, 19, 1, 2, 3))
	s.deliver(a...)
	s.deliver(b1...)
	s.deliver(b4)
	s.deliver(b7...)
	s.deliver(b8x)
	add(s)

	if withRestart {
		// forged signatures in a block header count after the node is reopened
		s = newScen(id, "corpus-forged-reload", 4, 0)
		t = s.chain(0, 3)
		b4 := s.blk(3, LinkSpec{Source: 0, Slots: []SlotSpec{{Slot: 1, Sig: SigSpec{Key: -1, Src: 0, Tgt: 4}}, {Slot: 2, Sig: SigSpec{Key: 3, Src: 0, Tgt: 4}}}})
		b5 := s.blk(b4)
		s.deliver(t...)
		s.deliver(b4, b5)
		s.restart()
		s.vote(3, 0, 4)
		add(s)

		// a finalization reached through a verification message is not persisted until the chain state is saved
		s = newScen(id, "corpus-finalized-restart", 4, 0)
		t = s.chain(0, 9)
		s.deliver(t...)
		s.vote(1, 0, 4)
		s.vote(2, 0, 4)
		s.vote(1, 4, 8)
		s.vote(2, 4, 8)
		s.vote(3, 4, 8)
		s.restart()
		s.deliver(s.blk(9))
		s.restart()
		add(s)

		// restart in an honest history
		s = newScen(id, "corpus-restart-honest", 4, 0)
		t = s.chain(0, 10)
		s.deliver(t[:6]...)
		s.vote(1, 0, 4)
		s.restart()
		s.vote(2, 0, 4)
		s.deliver(t[6:]...)
		s.restart()
		s.vote(1, 4, 8)
		s.vote(2, 4, 8)
		add(s)

		// the regressed finalized pointer together with a link whose source is no ancestor of its target: a4 is
		// finalized by messages, the node is reopened (root = genesis again, branch C back in the tree), blocks of
		// branch C carry the links a8 -> c12 and c12 -> c16: c12 becomes finalized next to a4
		s = newScen(id, "corpus-conflict-after-restart", 4, Outsider)
		a = s.chain(0, 11)   // 1..11: a4 = 4, a8 = 8
		cc := s.chain(0, 11) // 12..22: c4 = 15, c8 = 19
		c12 := s.blk(22, valid(8, 23, 0, 1, 2))
		c15 := s.chain(c12, 3)
		c16 := s.blk(c15[2], valid(c12, 27, 0, 1, 2))
		c17 := s.blk(c16)
		s.deliver(a...)
		s.deliver(cc[:9]...)
		s.vote(0, 0, 4)
		s.vote(1, 0, 4)
		s.vote(2, 0, 4)
		s.vote(0, 4, 8)
		s.vote(1, 4, 8)
		s.vote(2, 4, 8)
		s.restart()
		s.deliver(cc[9:]...)
		s.deliver(c12)
		s.deliver(c15...)
		s.deliver(c16, c17)
		add(s)
	}
	return r
}
