package engine

import (
	"encoding/json"
	"fmt"
	"os"
	"path/filepath"
	"sort"
	"strings"

	. "verifharness/hlib"
)

// RunProperty: generate (corpus first), run the cases on real nodes, judge them with the property's oracles and
// write the model cases.
func RunProperty(c *Ctx, or Oracles, cases []*Case, rule string) error {
	if os.Getenv("VERIF_DUMP_CASES") != "" {
		js, _ := json.Marshal(cases)
		os.WriteFile(filepath.Join(c.Out, "all_cases.json"), js, 0644)
	}
	res, err := RunAll(c.Prop, cases)
	if err != nil {
		return err
	}
	perClass := map[string]int{}
	c.Stats.Rule = rule
	for _, cs := range cases {
		r := res[cs.ID]
		if r == nil {
			return fmt.Errorf("no result for case %d", cs.ID)
		}
		js, _ := json.Marshal(cs)
		fail := func(what string) {
			cls := what
			if i := strings.Index(what, ":"); i > 0 {
				cls = what[:i]
			}
			perClass[cls]++
			c.Stats.Count("oracle_" + cls)
			if perClass[cls] <= 2 {
				c.Stats.Fail(what, json.RawMessage(js))
			}
		}
		var model, observed string
		var info CaseInfo
		if cs.Dyn != nil {
			info = CheckDyn(cs, r, fail)
			c.Stats.Count("elected_signers_" + cs.Dyn.Signers)
			c.Stats.Count("oracle_only_elected_validators")
			if cs.Dyn.Signers == "current" && info.BlockErr == 0 {
				c.Stats.Count("elected_current_link_counted")
			}
			info.BlockErr = 0
		} else {
			model, observed, info = Check(cs, r, "repaired", or, fail)
		}
		c.Stats.Count("stream_" + cs.Stream)
		c.Stats.Count(fmt.Sprintf("validators_%d", cs.NKeys))
		if cs.Local == Outsider {
			c.Stats.Count("node_is_no_validator")
		}
		c.Stats.Count(fmt.Sprintf("events_%02d-%02d", len(cs.Events)/10*10, len(cs.Events)/10*10+9))
		c.Stats.Count(fmt.Sprintf("blocks_%02d-%02d", len(cs.Blocks)/10*10, len(cs.Blocks)/10*10+9))
		c.Stats.Distribution["checkpoints_justified"] += info.Justified
		c.Stats.Distribution["checkpoints_finalized"] += info.Finalized
		c.Stats.Distribution["messages_admitted"] += info.Admitted
		c.Stats.Distribution["messages_rejected"] += info.Rejected
		c.Stats.Distribution["messages_withheld"] += info.Withheld
		c.Stats.Distribution["messages_replayed_from_cache"] += info.Replays
		c.Stats.Distribution["own_votes"] += info.OwnVotes
		c.Stats.Distribution["blocks_rejected_or_failed"] += info.BlockErr
		c.Stats.Distribution["restarts"] += info.Restarts
		if info.Justified > 0 {
			c.Stats.Count("cases_with_justification")
		}
		if info.Finalized > 1 || (info.Finalized == 1 && info.Justified > 0) {
			c.Stats.Count("cases_with_finalization")
		}
		nb, nv := 0, 0
		carried := 0
		for _, b := range cs.Blocks {
			carried += len(b.Links)
		}
		for _, e := range cs.Events {
			if e.Kind == "vote" {
				nv++
			} else if e.Kind == "deliver" {
				nb++
			}
		}
		c.Stats.Distribution["carried_links"] += carried
		c.Stats.Distribution["events_vote"] += nv
		c.Stats.Distribution["events_deliver"] += nb
		c.Stats.Case(string(js), info.Justified > 0 || info.Admitted > 0 || info.OwnVotes > 0)
		if len(c.Stats.Samples) < 3 && info.Justified > 0 {
			c.Stats.Sample(map[string]interface{}{"stream": cs.Stream, "n": cs.NKeys, "blocks": len(cs.Blocks), "events": len(cs.Events),
				"justified": info.Justified, "finalized": info.Finalized, "admitted": info.Admitted, "rejected": info.Rejected})
		}
		if !info.ModelOK && model != "" {
			c.Stats.Count("oracle_only_racy_replay")
		}
		if info.ModelOK && model != "" {
			id := c.Cases.Add(model, observed)
			c.Stats.CaseIndex[fmt.Sprint(id)] = map[string]interface{}{"case": cs.ID, "stream": cs.Stream}
			c.Stats.Count("model_evaluated")
		}
	}
	var cls []string
	for k := range perClass {
		cls = append(cls, k)
	}
	sort.Strings(cls)
	c.Stats.Extra["oracle_failure_classes"] = cls
	c.Cases.Shard = 40
	header := "From Coq Require Import List NArith Bool.\nFrom C16 Require Import Model Run.\nImport ListNotations.\nOpen Scope N_scope.\n"
	return c.Cases.Write(c.Out, header, "list obs", "case_eqb")
}
