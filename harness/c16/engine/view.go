package engine

import (
	"bufio"
	"bytes"
	"encoding/json"
	"fmt"
	"os"
	"os/exec"
	"path/filepath"
	"sort"
	"strconv"
	"strings"
	"sync"
	"time"
)

// View: the harness's own knowledge of a case's block tree.
type View struct {
	C *Case
	H []uint64 // height per label
}

func NewView(c *Case) *View { return &View{C: c, H: c.Heights()} }

func (v *View) N() int { return len(v.C.Blocks) + 1 }

func (v *View) Parent(l int) int {
	if l <= 0 {
		return -1
	}
	return v.C.Blocks[l-1].Parent
}

func (v *View) Boundary(l int) bool { return l >= 0 && l < v.N() && v.H[l]%Epoch == 0 }

// CkParent: the nearest epoch-closing proper ancestor (-1 for genesis).
func (v *View) CkParent(l int) int {
	for p := v.Parent(l); p >= 0; p = v.Parent(p) {
		if v.Boundary(p) {
			return p
		}
	}
	return -1
}

func (v *View) AncOrSelf(a, b int) bool {
	for x := b; x >= 0; x = v.Parent(x) {
		if x == a {
			return true
		}
	}
	return false
}

func (v *View) OneChain(a, b int) bool { return v.AncOrSelf(a, b) || v.AncOrSelf(b, a) }

func (v *View) Boundaries() []int {
	var r []int
	for l := 0; l < v.N(); l++ {
		if v.Boundary(l) {
			r = append(r, l)
		}
	}
	return r
}

// ---------------------------------------------------------------- parent: dispatch to children

func jobs() int {
	if v, err := strconv.Atoi(os.Getenv("VERIF_JOBS")); err == nil && v > 0 {
		if v > 12 {
			v = 12
		}
		return v
	}
	return 6
}

func tail(s string, n int) string {
	if len(s) > n {
		return s[len(s)-n:]
	}
	return s
}

func panicHead(trace string) string {
	var keep []string
	for _, l := range strings.Split(trace, "\n") {
		l = strings.TrimSpace(l)
		if strings.HasPrefix(l, "panic:") || strings.HasPrefix(l, "[signal") || strings.HasPrefix(l, "fatal error:") ||
			(strings.HasPrefix(l, "github.com/bytom/bytom/") && len(keep) < 8) {
			if i := strings.Index(l, "(0x"); i > 0 {
				l = l[:i]
			}
			keep = append(keep, l)
		}
	}
	if len(keep) == 0 {
		return "abnormal exit: " + tail(trace, 300)
	}
	return strings.Join(keep, " | ")
}

func runChunk(dir string, k int, cases []*Case, res map[int]*Result, mu *sync.Mutex) error {
	for len(cases) > 0 {
		f := filepath.Join(dir, fmt.Sprintf("chunk_%d.json", k))
		js, _ := json.Marshal(cases)
		if err := os.WriteFile(f, js, 0644); err != nil {
			return err
		}
		base := filepath.Join(dir, fmt.Sprintf("nodes_%d_%d", k, len(cases)))
		cmd := exec.Command(os.Args[0], "child", "batch", f, base)
		var stderr bytes.Buffer
		cmd.Stderr = &stderr
		stdout, err := cmd.StdoutPipe()
		if err != nil {
			return err
		}
		if err := cmd.Start(); err != nil {
			return err
		}
		lines := make(chan string, 16)
		go func() {
			sc := bufio.NewScanner(stdout)
			sc.Buffer(make([]byte, 1<<20), 1<<27)
			for sc.Scan() {
				lines <- sc.Text()
			}
			close(lines)
		}()
		current, done, hang := -1, 0, false
	loop:
		for {
			select {
			case l, ok := <-lines:
				if !ok {
					break loop
				}
				if strings.HasPrefix(l, "BEGIN ") {
					current, _ = strconv.Atoi(l[6:])
					continue
				}
				r := &Result{}
				if err := json.Unmarshal([]byte(l), r); err != nil {
					cmd.Process.Kill()
					cmd.Wait()
					return fmt.Errorf("unparseable child output %q", tail(l, 200))
				}
				mu.Lock()
				res[r.ID] = r
				mu.Unlock()
				done++
				current = -1
			case <-time.After(300 * time.Second):
				hang = true
				cmd.Process.Kill()
				break loop
			}
		}
		err = cmd.Wait()
		os.RemoveAll(base)
		if err == nil && !hang && done == len(cases) {
			return nil
		}
		if current < 0 || done >= len(cases) || cases[done].ID != current {
			return fmt.Errorf("child failed outside a case: %v: %s", err, tail(stderr.String(), 800))
		}
		if ee, ok := err.(*exec.ExitError); ok && ee.ExitCode() == 3 {
			return fmt.Errorf("child: %s", tail(stderr.String(), 800))
		}
		r := &Result{ID: current, Hang: hang}
		if !hang {
			r.Panic = panicHead(stderr.String())
		}
		mu.Lock()
		res[current] = r
		mu.Unlock()
		cases = cases[done+1:]
	}
	return nil
}

// RunAll runs the cases in child processes (one validator-set size per child) and returns the results by id.
func RunAll(prop string, cases []*Case) (map[int]*Result, error) {
	tmp := ""
	if st, err := os.Stat("/dev/shm"); err == nil && st.IsDir() {
		tmp = "/dev/shm"
	}
	dir, err := os.MkdirTemp(tmp, strings.ToLower(prop)+"-run-")
	if err != nil {
		return nil, err
	}
	defer os.RemoveAll(dir)
	res := map[int]*Result{}
	var mu sync.Mutex
	byN := map[int][]*Case{}
	for _, c := range cases {
		byN[c.NKeys] = append(byN[c.NKeys], c)
	}
	var ns []int
	for n := range byN {
		ns = append(ns, n)
	}
	sort.Ints(ns)
	var chunks [][]*Case
	per := 10
	for _, n := range ns {
		cs := byN[n]
		for lo := 0; lo < len(cs); lo += per {
			hi := lo + per
			if hi > len(cs) {
				hi = len(cs)
			}
			chunks = append(chunks, cs[lo:hi])
		}
	}
	ch := make(chan int)
	errs := make(chan error, len(chunks)+1)
	var wg sync.WaitGroup
	for wk := 0; wk < jobs(); wk++ {
		wg.Add(1)
		go func() {
			defer wg.Done()
			for k := range ch {
				if err := runChunk(dir, k, chunks[k], res, &mu); err != nil {
					errs <- err
				}
			}
		}()
	}
	for k := range chunks {
		ch <- k
	}
	close(ch)
	wg.Wait()
	select {
	case err := <-errs:
		return nil, err
	default:
	}
	return res, nil
}
