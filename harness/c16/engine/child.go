// Package engine: shared Go side of the finality-engine properties C16, C17, C18.
//
// One case = a block tree (labels: 0 = genesis, block i = Blocks[i-1]) with optional sup links put
// into the delivered block headers, plus an event list (deliver a block, send a verification
// message, restart the node).  The child process runs cases against real nodes (protocol.Chain on
// LevelDB) and prints, per event, the projected state: stored checkpoint statuses and header sup
// links (each filled slot classified by verifying its signature in the harness), last finalized /
// justified / best block, and every ValidCasperSignMsg the node posted on its event dispatcher.
package engine

import (
	"bufio"
	"bytes"
	"encoding/json"
	"fmt"
	"os"
	"path/filepath"
	"sort"
	"strings"
	"time"

	"golang.org/x/crypto/sha3"

	"github.com/bytom/bytom/config"
	"github.com/bytom/bytom/crypto/ed25519/chainkd"
	"github.com/bytom/bytom/event"
	"github.com/bytom/bytom/protocol/bc"
	"github.com/bytom/bytom/protocol/casper"
	cl "verifharness/chainlib"
)

const Epoch = 4

// Outsider is the key index of a key that is not in the federation.
const Outsider = 99

// SigSpec describes a signature: made by key Key over the link Src -> Tgt (labels).
// Key = -1: 64 garbage bytes; Key = -3: a single garbage byte; Key = Outsider: a non-validator key.
type SigSpec struct {
	Key int `json:"k"`
	Src int `json:"s"`
	Tgt int `json:"t"`
}

type SlotSpec struct {
	Slot int     `json:"slot"`
	Sig  SigSpec `json:"sig"`
}

// LinkSpec is a sup link carried by a delivered block header.
type LinkSpec struct {
	Source   int        `json:"src"`           // label of the source; -1: a hash no block has
	HeightUp int        `json:"hup,omitempty"` // added to the declared source height (malformed)
	Slots    []SlotSpec `json:"slots"`
}

type BlockSpec struct {
	Parent int        `json:"p"`
	Links  []LinkSpec `json:"links,omitempty"`
}

type Event struct {
	Kind   string  `json:"k"` // "deliver" | "vote" | "restart"
	Block  int     `json:"b,omitempty"`
	Pub    int     `json:"pub,omitempty"` // vote: claimed public key (index; Outsider = non-validator)
	Source int     `json:"s,omitempty"`   // vote: label (-1 = unknown hash)
	Target int     `json:"t,omitempty"`
	Sig    SigSpec `json:"sig,omitempty"`
	Force  bool    `json:"force,omitempty"` // send even if the harness predicts a best-chain move
}

type Case struct {
	ID     int         `json:"id"`
	Stream string      `json:"stream"`
	NKeys  int         `json:"n"`
	Local  int         `json:"local"` // the node's own key (index; Outsider = the node is no validator)
	Early  bool        `json:"early,omitempty"`
	Dyn    *DynSpec    `json:"dyn,omitempty"` // an epoch elects another validator set (oracle only, see dyn.go)
	Blocks []BlockSpec `json:"blocks"`
	Events []Event     `json:"events"`
}

type SlotDump struct {
	Slot int  `json:"slot"`
	OK   bool `json:"ok"` // the signature verifies for federation key `slot` on this link
}

type LinkDump struct {
	Source int        `json:"src"` // label, -2 = unknown hash
	Height uint64     `json:"h"`
	Slots  []SlotDump `json:"slots"`
}

type CkDump struct {
	Label  int        `json:"l"`
	Status string     `json:"st"`
	Parent int        `json:"p"`
	NVal   int        `json:"nval,omitempty"` // elected-validator cases: size of the parent epoch's validator set
	Links  []LinkDump `json:"links,omitempty"`
}

type Posted struct {
	Pub    int  `json:"pub"` // key index, -2 unknown
	Source int  `json:"s"`
	Target int  `json:"t"`
	OK     bool `json:"ok"` // signature verifies
}

type Step struct {
	Orphan    bool     `json:"orphan,omitempty"`
	Err       bool     `json:"err,omitempty"`
	ErrText   string   `json:"errtext,omitempty"`
	Skipped   bool     `json:"skipped,omitempty"`
	Deadlock  bool     `json:"deadlock,omitempty"`
	Reopen    string   `json:"reopen,omitempty"` // restart: the node could not be reopened (panic / error text); the case ends
	Best      int      `json:"best"`
	Finalized int      `json:"fin"`
	Justified int      `json:"jus"`
	FinInMain bool     `json:"fin_in_main"`
	Cks       []CkDump `json:"cks"`            // stored checkpoints (status, sup links of the stored header)
	Tree      []CkDump `json:"tree"`           // in-memory checkpoint tree (epoch-closing nodes; sup links of the tree objects)
	Stored    []int    `json:"stored"`         // labels whose block header is stored
	Posted    []Posted `json:"posted,omitempty"`
}

type Result struct {
	ID     int      `json:"id"`
	Hashes []string `json:"hashes"`
	Steps  []Step   `json:"steps"` // Steps[0] = fresh node, Steps[i] = after event i-1
	Panic  string   `json:"panic,omitempty"`
	Hang   bool     `json:"hang,omitempty"`
}

func (c *Case) Heights() []uint64 {
	h := make([]uint64, len(c.Blocks)+1)
	for i, b := range c.Blocks {
		h[i+1] = h[b.Parent] + 1
	}
	return h
}

func outsiderKey() chainkd.XPrv {
	seed := make([]byte, 32)
	for j := range seed {
		seed[j] = byte(0xa0 + j)
	}
	return chainkd.RootXPrv(seed)
}

type runner struct {
	w      *cl.World
	c      *Case
	blocks []*cl.BlockInfo
	label  map[string]int
	out    chainkd.XPrv
}

func (r *runner) hashOf(l int) bc.Hash {
	if l < 0 || l >= len(r.blocks) {
		var b [32]byte
		for i := range b {
			b[i] = byte(0xc0 + i + l)
		}
		return bc.NewHash(b)
	}
	return r.blocks[l].Hash
}

func (r *runner) lab(h bc.Hash) int {
	if l, ok := r.label[h.String()]; ok {
		return l
	}
	return -2
}

func (r *runner) key(k int) chainkd.XPrv {
	if k == Outsider || k >= len(r.w.Keys) {
		return r.out
	}
	return r.w.Keys[k]
}

func (r *runner) sign(s SigSpec) []byte {
	switch {
	case s.Key == -1:
		b := make([]byte, 64)
		for i := range b {
			b[i] = byte(7*i + 3*s.Src + 5*s.Tgt + 1)
		}
		return b
	case s.Key == -3:
		return []byte{0x5a}
	}
	return cl.SignVote(r.key(s.Key), r.hashOf(s.Src), r.hashOf(s.Tgt))
}

func (r *runner) pubIndex(pub string) int {
	for i, p := range r.w.Pubs {
		if p.String() == pub {
			return i
		}
	}
	if r.out.XPub().String() == pub {
		return Outsider
	}
	return -2
}

func verifySig(pub chainkd.XPub, source, target bc.Hash, sig []byte) bool {
	buf := new(bytes.Buffer)
	source.WriteTo(buf)
	target.WriteTo(buf)
	msg := sha3.Sum256(buf.Bytes())
	return pub.Verify(msg[:], sig)
}

func runOne(w *cl.World, c *Case, base string) (*Result, error) {
	if c.Dyn != nil {
		return runDyn(w, c, base)
	}
	r := &runner{w: w, c: c, label: map[string]int{}, out: outsiderKey()}
	r.blocks = []*cl.BlockInfo{w.Genesis}
	nchild := map[int]int{}
	for _, b := range c.Blocks {
		opt := cl.BlockOpt{Skip: nchild[b.Parent]}
		nchild[b.Parent]++
		r.blocks = append(r.blocks, w.NewBlock(r.blocks[b.Parent], nil, opt))
	}
	if c.Local == Outsider {
		k := r.out
		config.CommonConfig.XPrv = &k
	} else {
		k := w.Keys[c.Local]
		config.CommonConfig.XPrv = &k
	}
	dir := filepath.Join(base, fmt.Sprintf("node_%d", c.ID))
	n, err := cl.NewNode(dir)
	if err != nil {
		return nil, err
	}
	var sub *event.Subscription
	subscribe := func() error {
		var err error
		sub, err = n.Disp.Subscribe(casper.ValidCasperSignMsg{})
		return err
	}
	if err := subscribe(); err != nil {
		return nil, err
	}
	res := &Result{ID: c.ID}
	var boundary []int
	for i, b := range r.blocks {
		r.label[b.Hash.String()] = i
		res.Hashes = append(res.Hashes, b.Hash.String())
		if b.Block.Height%Epoch == 0 {
			boundary = append(boundary, i)
		}
	}
	dump := func(st Step) {
		if f, err := n.Chain.LastFinalizedHeader(); err == nil {
			st.Finalized = r.lab(f.Hash())
			st.FinInMain = n.Chain.InMainChain(f.Hash())
		} else {
			st.Finalized = -3
		}
		if j, err := n.Chain.LastJustifiedHeader(); err == nil {
			st.Justified = r.lab(j.Hash())
		} else {
			st.Justified = -3
		}
		st.Best = r.lab(n.Chain.BestBlockHeader().Hash())
		for _, l := range boundary {
			h := r.blocks[l].Hash
			cp, err := n.Store.GetCheckpoint(&h)
			if err != nil {
				continue
			}
			cd := CkDump{Label: l, Status: []string{"growing", "unjustified", "justified", "finalized"}[cp.Status], Parent: r.lab(cp.ParentHash)}
			if l == 0 {
				cd.Parent = -1
			}
			for _, sl := range cp.SupLinks {
				ld := LinkDump{Source: r.lab(sl.SourceHash), Height: sl.SourceHeight}
				for i, s := range sl.Signatures {
					if len(s) == 0 {
						continue
					}
					ok := i < len(w.Pubs) && verifySig(w.Pubs[i], sl.SourceHash, h, s)
					ld.Slots = append(ld.Slots, SlotDump{i, ok})
				}
				cd.Links = append(cd.Links, ld)
			}
			st.Cks = append(st.Cks, cd)
		}
		for _, tn := range n.Chain.VerifCasper().VerifTree() {
			if tn.Height%Epoch != 0 {
				continue
			}
			cd := CkDump{Label: r.lab(tn.Hash), Status: []string{"growing", "unjustified", "justified", "finalized"}[tn.Status], Parent: r.lab(tn.ParentHash)}
			for _, sl := range tn.SupLinks {
				ld := LinkDump{Source: r.lab(sl.SourceHash), Height: sl.SourceHeight}
				for i, sg := range sl.Signatures {
					if len(sg) == 0 {
						continue
					}
					ok := i < len(w.Pubs) && verifySig(w.Pubs[i], sl.SourceHash, tn.Hash, sg)
					ld.Slots = append(ld.Slots, SlotDump{i, ok})
				}
				cd.Links = append(cd.Links, ld)
			}
			st.Tree = append(st.Tree, cd)
		}
		for l, b := range r.blocks {
			h := b.Hash
			if _, err := n.Chain.GetHeaderByHash(&h); err == nil {
				st.Stored = append(st.Stored, l)
			}
		}
	drain:
		for {
			select {
			case ev := <-sub.Chan():
				m := ev.Data.(casper.ValidCasperSignMsg)
				p := Posted{Pub: r.pubIndex(m.PubKey), Source: r.lab(m.SourceHash), Target: r.lab(m.TargetHash)}
				if p.Pub >= 0 {
					var pk chainkd.XPub
					if p.Pub == Outsider {
						pk = r.out.XPub()
					} else {
						pk = w.Pubs[p.Pub]
					}
					p.OK = verifySig(pk, m.SourceHash, m.TargetHash, m.Signature)
				}
				st.Posted = append(st.Posted, p)
			default:
				break drain
			}
		}
		res.Steps = append(res.Steps, st)
	}
	dump(Step{})
	curDir, restarts := dir, 0
	pending := map[int]map[int]bool{} // target label -> keys with a cached verification message
	for _, e := range c.Events {
		switch e.Kind {
		case "deliver":
			b := cl.CloneBlock(r.blocks[e.Block].Block)
			for _, ls := range c.Blocks[e.Block-1].Links {
				src := r.hashOf(ls.Source)
				var sh uint64
				if ls.Source >= 0 && ls.Source < len(r.blocks) {
					sh = r.blocks[ls.Source].Block.Height
				}
				sh += uint64(ls.HeightUp)
				for _, s := range ls.Slots {
					b.SupLinks.AddSupLink(sh, src, r.sign(s.Sig), s.Slot)
				}
			}
			before := n.Chain.VerifCasper().VerifCachedVerifications()
			storedBefore := r.storedSet(n)
			orphan, err := n.Chain.ProcessBlock(b)
			// let the background loop finish what this block queued (it reads the store concurrently)
			n.Chain.VerifCasper().VerifSettle()
			if len(pending) > 0 {
				// authVerificationLoop applies the cached messages of a checkpoint in the background when the
				// first block after it is connected
				storedNow := r.storedSet(n)
				consumed := 0
				for t, ks := range pending {
					for l := range storedNow {
						if !storedBefore[l] && l > 0 && c.Blocks[l-1].Parent == t {
							consumed += len(ks)
							delete(pending, t)
							break
						}
					}
				}
				if consumed > 0 {
					want := before - consumed
					for i := 0; i < 600 && n.Chain.VerifCasper().VerifCachedVerifications() > want; i++ {
						time.Sleep(5 * time.Millisecond)
					}
					n.Chain.VerifCasper().VerifSettle()
				}
			}
			st := Step{Orphan: orphan, Err: err != nil}
			if err != nil {
				st.ErrText = err.Error()
			}
			dump(st)
		case "vote":
			last := res.Steps[len(res.Steps)-1]
			if !e.Force && r.risky(n, e, &last) {
				dump(Step{Skipped: true})
				continue
			}
			var pub string
			if e.Pub == Outsider {
				pub = r.out.XPub().String()
			} else {
				pub = w.Pubs[e.Pub].String()
			}
			msg := &casper.ValidCasperSignMsg{SourceHash: r.hashOf(e.Source), TargetHash: r.hashOf(e.Target), PubKey: pub, Signature: r.sign(e.Sig)}
			done := make(chan error, 1)
			go func() { done <- n.Chain.ProcessBlockVerification(msg) }()
			select {
			case err := <-done:
				if err == nil && e.Target >= 0 && e.Target < len(r.blocks) && e.Pub != Outsider && !inTree(n, r.blocks[e.Target].Hash) {
					if pending[e.Target] == nil {
						pending[e.Target] = map[int]bool{}
					}
					pending[e.Target][e.Pub] = true
				}
				st := Step{Err: err != nil}
				if err != nil {
					st.ErrText = err.Error()
				}
				dump(st)
			case <-time.After(20 * time.Second):
				// the node no longer answers (casper lock held across the rollback): the case ends here
				res.Steps = append(res.Steps, Step{Deadlock: true})
				return res, nil
			}
		case "restart":
			// the old node object stays alive (its background goroutine may still read its store); the new
			// node opens a copy of the database directory: exactly the bytes a reopened node would find
			sub.Unsubscribe()
			pending = map[int]map[int]bool{}
			restarts++
			// the old node's LevelDB may compact in the background while the directory is copied: a copy the
			// database layer cannot open is retried; a node that panics or fails on a readable copy is an observable
			var err error
			nodeFailure := ""
			nodeFailures := 0
			// let the old node's background loop finish what the delivered events queued, so that the
			// copy is not taken in the middle of its writes
			func() {
				defer func() { recover() }()
				n.Chain.VerifCasper().VerifSettle()
				n.Chain.VerifCasper().VerifSettle()
			}()
			time.Sleep(5 * time.Millisecond)
			for attempt := 0; attempt < 8; attempt++ {
				ndir := fmt.Sprintf("%s_r%d_%d", dir, restarts, attempt)
				if err = copyDir(curDir, ndir); err == nil {
					n, err = openNode(ndir)
				}
				if err == nil {
					curDir = ndir
					nodeFailure = ""
					break
				}
				if !strings.Contains(err.Error(), "Error initializing DB") && !strings.Contains(err.Error(), "leveldb") {
					// a torn copy of a live database can also surface as a decoding error inside the node:
					// only a failure that repeats on three fresh copies is the node's own
					nodeFailure = err.Error()
					nodeFailures++
					if nodeFailures >= 3 {
						break
					}
				}
				os.RemoveAll(ndir)
				time.Sleep(25 * time.Millisecond)
			}
			if nodeFailure != "" {
				if len(nodeFailure) > 400 {
					nodeFailure = nodeFailure[:400]
				}
				res.Steps = append(res.Steps, Step{Reopen: nodeFailure})
				return res, nil
			}
			if err != nil {
				return nil, fmt.Errorf("restart: %v", err)
			}
			if err := subscribe(); err != nil {
				return nil, err
			}
			dump(Step{})
		default:
			return nil, fmt.Errorf("unknown event kind %q", e.Kind)
		}
	}
	return res, nil
}

func (r *runner) storedSet(n *cl.Node) map[int]bool {
	m := map[int]bool{}
	for l, b := range r.blocks {
		h := b.Hash
		if _, err := n.Chain.GetHeaderByHash(&h); err == nil {
			m[l] = true
		}
	}
	return m
}

// openNode opens a node and turns a panic of the database layer (inconsistent copy) into an error.
func openNode(dir string) (n *cl.Node, err error) {
	defer func() {
		if r := recover(); r != nil {
			n, err = nil, fmt.Errorf("open: %v", r)
		}
	}()
	return cl.NewNode(dir)
}

func copyDir(from, to string) error {
	if err := os.MkdirAll(to, 0755); err != nil {
		return err
	}
	ents, err := os.ReadDir(from)
	if err != nil {
		return err
	}
	for _, e := range ents {
		src, dst := filepath.Join(from, e.Name()), filepath.Join(to, e.Name())
		if e.IsDir() {
			if err := copyDir(src, dst); err != nil {
				return err
			}
			continue
		}
		if e.Name() == "LOCK" {
			continue
		}
		b, err := os.ReadFile(src)
		if err != nil {
			return err
		}
		if err := os.WriteFile(dst, b, 0644); err != nil {
			return err
		}
	}
	return nil
}

func inTree(n *cl.Node, h bc.Hash) bool {
	for _, tn := range n.Chain.VerifCasper().VerifTree() {
		if tn.Hash == h {
			return true
		}
	}
	return false
}

// risky: the message would complete a supermajority on a target that is not on the node's main
// chain; such a message may move the best chain, and the pinned node then deadlocks
// (AuthVerification holds the casper lock while the rollback needs it; property C37).  Counting is
// conservative: every filled slot of the stored header link counts.
func (r *runner) risky(n *cl.Node, e Event, last *Step) bool {
	if e.Target < 0 || e.Target >= len(r.blocks) {
		return false
	}
	th := r.blocks[e.Target].Hash
	if n.Chain.InMainChain(th) {
		return false
	}
	cp, err := n.Store.GetCheckpoint(&th)
	if err != nil {
		return false
	}
	src := r.hashOf(e.Source)
	filled := 0
	for _, sl := range cp.SupLinks {
		if sl.SourceHash == src {
			for _, s := range sl.Signatures {
				if len(s) != 0 {
					filled++
				}
			}
		}
	}
	return filled+1 > len(r.w.Keys)*2/3
}

// ChildBatch: child batch <file> <scratch dir>; prints "BEGIN <id>" before and one JSON result line after every case.
func ChildBatch(args []string) int {
	if len(args) != 2 {
		return 2
	}
	raw, err := os.ReadFile(args[0])
	if err != nil {
		fmt.Fprintln(os.Stderr, err)
		return 2
	}
	var cases []*Case
	if err := json.Unmarshal(raw, &cases); err != nil {
		fmt.Fprintln(os.Stderr, err)
		return 2
	}
	if len(cases) == 0 {
		return 0
	}
	o := cl.DefaultOptions()
	o.NKeys = cases[0].NKeys
	o.BlocksOfEpoch = Epoch
	w := cl.Init(o)
	out := bufio.NewWriter(os.Stdout)
	for _, c := range cases {
		if c.NKeys != o.NKeys {
			fmt.Fprintln(os.Stderr, "mixed validator-set sizes in one batch")
			return 3
		}
		fmt.Fprintf(out, "BEGIN %d\n", c.ID)
		out.Flush()
		r, err := runOne(w, c, args[1])
		if err != nil {
			fmt.Fprintln(os.Stderr, "harness child error:", err)
			return 3
		}
		js, _ := json.Marshal(r)
		out.Write(js)
		out.WriteString("\n")
		out.Flush()
	}
	return 0
}

func sortedKeys(m map[int]bool) []int {
	var r []int
	for k := range m {
		r = append(r, k)
	}
	sort.Ints(r)
	return r
}
