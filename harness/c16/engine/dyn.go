package engine

// Cases in which an epoch ELECTS a different validator set through real vote outputs, followed by a block-carried
// sup link that skips unjustified epochs.  The model has one constant validator set (same_validators), so these
// cases are judged by the direct oracle only: a checkpoint may only be Justified with more than 2n/3 verifying
// signatures of the validators of ITS PARENT EPOCH, each in its own slot (n = size of that set).
//
// Scenario (epoch length 4, federation K0..K3, the node has no validator key):
//   blocks 1..16 by the federation; optionally checkpoint 16 is justified by messages genesis -> 16;
//   block 17 carries a transaction with vote outputs for the keys Elect (decreasing amounts), so the checkpoint of
//   block 20 has the validator set Elect (slot i = Elect[i]); blocks 21.. are signed by the elected validator of the
//   time slot (asked from the node: Chain.GetValidator);
//   block 24 carries a sup link Source -> 24 (Source = genesis or 16, not the parent checkpoint 20) signed
//     "former":  by the federation members in their federation slots (the validators of the SOURCE's epoch): must not count
//     "current": by the elected validators in their slots (the validators of the target's parent epoch): must count
//     "mixed":   former signatures plus fewer than a supermajority of current ones: must not count

import (
	"encoding/hex"
	"fmt"
	"path/filepath"
	"sort"

	"github.com/bytom/bytom/config"
	"github.com/bytom/bytom/consensus"
	"github.com/bytom/bytom/crypto/ed25519/chainkd"
	"github.com/bytom/bytom/protocol/bc"
	"github.com/bytom/bytom/protocol/bc/types"
	"github.com/bytom/bytom/protocol/casper"
	cl "verifharness/chainlib"
)

type DynSpec struct {
	Elect   []int  `json:"elect"`   // keys that receive votes, by decreasing amount
	Source  string `json:"source"`  // "genesis" | "c16"
	Signers string `json:"signers"` // "former" | "current" | "mixed"
}

const dynMinVote = 100000000

// validatorsAt: the effective validator set that the checkpoint of block bi hands to the next epoch
// (the harness's own tally: keys with at least MinValidatorVoteNum votes, by votes then key, descending;
// nobody elected: the federation).
func validatorsAt(w *cl.World, bi *cl.BlockInfo) []chainkd.XPub {
	type kv struct {
		k string
		v uint64
	}
	var l []kv
	for k, v := range bi.Votes {
		if v >= dynMinVote {
			l = append(l, kv{k, v})
		}
	}
	if len(l) == 0 {
		return w.Pubs
	}
	sort.Slice(l, func(i, j int) bool {
		if l[i].v != l[j].v {
			return l[i].v > l[j].v
		}
		return l[i].k > l[j].k
	})
	var r []chainkd.XPub
	for i := 0; i < len(l) && i < consensus.MaxNumOfValidators; i++ {
		b, _ := hex.DecodeString(l[i].k)
		var x chainkd.XPub
		copy(x[:], b)
		r = append(r, x)
	}
	return r
}

func runDyn(w *cl.World, c *Case, base string) (*Result, error) {
	d := c.Dyn
	old := consensus.ActiveNetParams.MinValidatorVoteNum
	consensus.ActiveNetParams.MinValidatorVoteNum = dynMinVote
	defer func() { consensus.ActiveNetParams.MinValidatorVoteNum = old }()
	out := outsiderKey()
	config.CommonConfig.XPrv = &out
	n, err := cl.NewNode(filepath.Join(base, fmt.Sprintf("node_%d", c.ID)))
	if err != nil {
		return nil, err
	}
	res := &Result{ID: c.ID}
	blocks := []*cl.BlockInfo{w.Genesis} // label = height (one chain)
	keyOf := func(pub string) (chainkd.XPrv, bool) {
		for i, p := range w.Pubs {
			if p.String() == pub {
				return w.Keys[i], true
			}
		}
		return chainkd.XPrv{}, false
	}
	deliver := func(b *types.Block) error {
		orphan, err := n.Chain.ProcessBlock(b)
		n.Chain.VerifCasper().VerifSettle()
		if err != nil || orphan {
			return fmt.Errorf("block %d not accepted: orphan=%v err=%v", b.Height, orphan, err)
		}
		return nil
	}
	// extend: build the next block; once a set was elected the signer is the validator the node schedules
	extend := func(txs []*types.Tx, links func(self bc.Hash) types.SupLinks) error {
		parent := blocks[len(blocks)-1]
		var serr error
		bi := w.NewBlock(parent, txs, cl.BlockOpt{MutateAfter: func(b *types.Block) {
			v, err := n.Chain.GetValidator(&parent.Hash, b.Timestamp)
			if err != nil || v == nil {
				serr = fmt.Errorf("no validator for block %d: %v", b.Height, err)
				return
			}
			k, ok := keyOf(v.PubKey)
			if !ok {
				serr = fmt.Errorf("scheduled validator of block %d is none of the harness keys", b.Height)
				return
			}
			b.BlockWitness = k.Sign(b.Hash().Bytes())
		}})
		if serr != nil {
			return serr
		}
		blocks = append(blocks, bi)
		b := cl.CloneBlock(bi.Block)
		if links != nil {
			b.SupLinks = links(bi.Hash)
		}
		return deliver(b)
	}
	dump := func() {
		st := Step{}
		if f, err := n.Chain.LastFinalizedHeader(); err == nil {
			st.Finalized = int(f.Height)
		}
		if j, err := n.Chain.LastJustifiedHeader(); err == nil {
			st.Justified = int(j.Height)
		}
		st.Best = int(n.Chain.BestBlockHeader().Height)
		for h := 0; h < len(blocks); h += Epoch {
			hash := blocks[h].Hash
			cp, err := n.Store.GetCheckpoint(&hash)
			if err != nil {
				continue
			}
			cd := CkDump{Label: h, Status: []string{"growing", "unjustified", "justified", "finalized"}[cp.Status], Parent: h - Epoch}
			var vals []chainkd.XPub
			if h >= Epoch {
				vals = validatorsAt(w, blocks[h-Epoch])
			}
			cd.NVal = len(vals)
			for _, sl := range cp.SupLinks {
				ld := LinkDump{Source: -2, Height: sl.SourceHeight}
				for l, b := range blocks {
					if b.Hash == sl.SourceHash {
						ld.Source = l
					}
				}
				for i, s := range sl.Signatures {
					if len(s) == 0 {
						continue
					}
					ok := i < len(vals) && verifySig(vals[i], sl.SourceHash, hash, s)
					ld.Slots = append(ld.Slots, SlotDump{i, ok})
				}
				cd.Links = append(cd.Links, ld)
			}
			st.Cks = append(st.Cks, cd)
		}
		res.Steps = append(res.Steps, st)
	}
	for h := 1; h <= 16; h++ {
		if err := extend(nil, nil); err != nil {
			return nil, err
		}
	}
	dump()
	if d.Source == "c16" {
		for k := 1; k < 4; k++ {
			msg := &casper.ValidCasperSignMsg{SourceHash: w.Genesis.Hash, TargetHash: blocks[16].Hash, PubKey: w.Pubs[k].String(),
				Signature: cl.SignVote(w.Keys[k], w.Genesis.Hash, blocks[16].Hash)}
			if err := n.Chain.ProcessBlockVerification(msg); err != nil {
				return nil, fmt.Errorf("vote genesis->16: %v", err)
			}
		}
		dump()
	}
	// block 17: votes that elect the new validators
	rew := blocks[5].RewardOuts()
	if len(rew) == 0 {
		return nil, fmt.Errorf("no reward output in block 5")
	}
	var outs []cl.OutSpec
	var spent uint64
	for i, k := range d.Elect {
		amt := uint64(dynMinVote) + uint64(len(d.Elect)-i)*uint64(dynMinVote)/2
		outs = append(outs, cl.OutSpec{Amount: amt, Vote: w.Pubs[k][:]})
		spent += amt
	}
	if rew[0].Amount() < spent+cl.DefaultFee+1 {
		return nil, fmt.Errorf("reward output too small: %d", rew[0].Amount())
	}
	outs = append(outs, cl.OutSpec{Amount: rew[0].Amount() - spent - cl.DefaultFee})
	tx := cl.NewTx([]cl.Out{rew[0]}, outs, 0)
	if err := extend([]*types.Tx{tx}, nil); err != nil {
		return nil, err
	}
	for h := 18; h <= 23; h++ {
		if err := extend(nil, nil); err != nil {
			return nil, err
		}
	}
	dump()
	// the harness's own view of the elected set must be what the node schedules (sanity of the case)
	elected := validatorsAt(w, blocks[20])
	if len(elected) != len(d.Elect) {
		return nil, fmt.Errorf("elected %d validators, expected %d", len(elected), len(d.Elect))
	}
	for i, k := range d.Elect {
		if elected[i] != w.Pubs[k] {
			return nil, fmt.Errorf("elected slot %d is not key %d", i, k)
		}
	}
	src := 0
	if d.Source == "c16" {
		src = 16
	}
	srcHash := blocks[src].Hash
	err = extend(nil, func(self bc.Hash) types.SupLinks {
		var sl types.SupLinks
		if d.Signers == "former" || d.Signers == "mixed" {
			for k := range w.Keys { // federation member k in federation slot k
				sl.AddSupLink(uint64(src), srcHash, cl.SignVote(w.Keys[k], srcHash, self), k)
			}
		}
		if d.Signers == "current" {
			for i, k := range d.Elect {
				sl.AddSupLink(uint64(src), srcHash, cl.SignVote(w.Keys[k], srcHash, self), i)
			}
		}
		if d.Signers == "mixed" {
			// current validators in their own slots, one fewer than a supermajority needs
			need := len(d.Elect)*2/3 + 1
			for i := 0; i < need-1 && i < len(d.Elect); i++ {
				sl.AddSupLink(uint64(src), srcHash, cl.SignVote(w.Keys[d.Elect[i]], srcHash, self), i)
			}
		}
		return sl
	})
	if err != nil {
		return nil, err
	}
	dump()
	if err := extend(nil, nil); err != nil {
		return nil, err
	}
	dump()
	return res, nil
}

// CheckDyn: the direct oracle for the elected-validator cases.
func CheckDyn(c *Case, r *Result, fail func(what string)) (info CaseInfo) {
	if r.Panic != "" {
		fail("class=panic: the node crashed: " + r.Panic)
		return
	}
	if r.Hang {
		fail("class=hang: the node stopped answering")
		return
	}
	info.Steps = len(r.Steps)
	status := func(st *Step, l int) string {
		for _, cd := range st.Cks {
			if cd.Label == l {
				return cd.Status
			}
		}
		return ""
	}
	for i := range r.Steps {
		st := &r.Steps[i]
		for _, cd := range st.Cks {
			if cd.Label == 0 || (cd.Status != "justified" && cd.Status != "finalized") {
				continue
			}
			if i == len(r.Steps)-1 {
				info.Justified++
			}
			n := cd.NVal
			ok := false
			for _, l := range cd.Links {
				valid := 0
				for _, s := range l.Slots {
					if s.OK && s.Slot < n {
						valid++
					}
				}
				ss := status(st, l.Source)
				if valid > n*2/3 && (ss == "justified" || ss == "finalized") {
					ok = true
				}
			}
			if !ok {
				fail(fmt.Sprintf("class=justified-without-supermajority: checkpoint %d is %s (step %d) and no sup link to it has more than 2n/3 verifying signatures of the validators of its parent epoch in their own slots (n = %d; elected %v, link signed by the %s validators from %s)",
					cd.Label, cd.Status, i, n, c.Dyn.Elect, c.Dyn.Signers, c.Dyn.Source))
			}
		}
	}
	// "current" signers are a real supermajority of the parent epoch: the link must count
	if c.Dyn.Signers == "current" {
		last := &r.Steps[len(r.Steps)-1]
		if s := status(last, 24); s != "justified" && s != "finalized" {
			info.BlockErr++ // recorded in the statistics; liveness is not part of the property
		}
	}
	return
}
