package engine

import (
	"fmt"
	"sort"
	"strings"
)

// Oracles selects which direct oracles judge a case (each property enables its own).
type Oracles struct {
	C16 bool
	C17 bool
	C18 bool
}

type CaseInfo struct {
	ModelOK    bool // the case can be given to the model
	Justified  int  // checkpoints that became justified
	Finalized  int  // checkpoints that became finalized
	Rejected   int  // rejected verification messages
	Admitted   int  // admitted verification messages
	Withheld   int
	OwnVotes   int
	BlockErr   int
	Replays    int
	Restarts   int
	Steps      int
	Deadlocked bool
}

const unknownLabel = 9998

func lbl(l int) int {
	if l < 0 {
		return unknownLabel
	}
	return l
}

func statusCode(s string) int {
	switch s {
	case "growing":
		return 0
	case "unjustified":
		return 1
	case "justified":
		return 2
	case "finalized":
		return 3
	}
	return 9
}

func sigExpr(s SigSpec) string {
	k := s.Key
	if k < 0 {
		return "(S3 999 0 0)"
	}
	return fmt.Sprintf("(S3 %d %d %d)", k, lbl(s.Src), lbl(s.Tgt))
}

func linkExpr(v *View, ls LinkSpec) string {
	var h uint64
	if ls.Source >= 0 && ls.Source < v.N() {
		h = v.H[ls.Source]
	}
	h += uint64(ls.HeightUp)
	var slots []string
	// AddSupLink sets the slots one after the other: the last signature for a slot stays
	for _, s := range ls.Slots {
		k := s.Sig.Key
		if k < 0 {
			slots = append(slots, fmt.Sprintf("(%d, (999, 0, 0))", s.Slot))
		} else {
			slots = append(slots, fmt.Sprintf("(%d, (%d, %d, %d))", s.Slot, k, lbl(s.Sig.Src), lbl(s.Sig.Tgt)))
		}
	}
	// norm_slots keeps the FIRST entry of a slot that it meets from the right, i.e. the model list is
	// given latest first
	for i, j := 0, len(slots)-1; i < j; i, j = i+1, j-1 {
		slots[i], slots[j] = slots[j], slots[i]
	}
	return fmt.Sprintf("L %d %d [%s]", lbl(ls.Source), h, strings.Join(slots, "; "))
}

func ckExpr(cd CkDump) string {
	var links []string
	for _, l := range cd.Links {
		var slots []string
		for _, s := range l.Slots {
			slots = append(slots, fmt.Sprintf("(%d, %v)", s.Slot, s.OK))
		}
		links = append(links, fmt.Sprintf("(%d, [%s])", lbl(l.Source), strings.Join(slots, "; ")))
	}
	return fmt.Sprintf("(%d, %d, [%s])", lbl(cd.Label), statusCode(cd.Status), strings.Join(links, "; "))
}

func obsExpr(v *View, st *Step, ok bool) string {
	var db, tree, posted []string
	for _, c := range st.Cks {
		db = append(db, ckExpr(c))
	}
	for _, c := range st.Tree {
		tree = append(tree, ckExpr(c))
	}
	for _, p := range st.Posted {
		posted = append(posted, fmt.Sprintf("(%d, %d, %d)", p.Pub, lbl(p.Source), lbl(p.Target)))
	}
	var jh uint64
	if st.Justified >= 0 && st.Justified < v.N() {
		jh = v.H[st.Justified]
	} else {
		jh = 99999
	}
	return fmt.Sprintf("(%v, %d, %d, [%s], [%s], [%s])", ok, lbl(st.Finalized), jh,
		strings.Join(db, "; "), strings.Join(tree, "; "), strings.Join(posted, "; "))
}

type admVote struct {
	key, src, tgt int
	step          int
	own           bool
}

// Check applies the direct oracles to a result and builds the model expression and the observed value.
// fail(what) records an oracle failure.
func Check(c *Case, r *Result, variant string, or Oracles, fail func(what string)) (model, observed string, info CaseInfo) {
	v := NewView(c)
	if r.Panic != "" {
		fail("class=panic: the node crashed: " + r.Panic)
		return "", "", info
	}
	if r.Hang {
		fail("class=hang: the node stopped answering outside a verification message")
		return "", "", info
	}
	info.ModelOK = true
	info.Steps = len(r.Steps)
	var steps []string
	obs := []string{obsExpr(v, &r.Steps[0], true)}
	stored := map[int]bool{0: true}
	delivered := map[int]bool{0: true}
	pending := map[int]map[int]Event{} // target -> key -> cached message
	status := func(st *Step, l int) string {
		for _, cd := range st.Cks {
			if cd.Label == l {
				return cd.Status
			}
		}
		return ""
	}
	inTree := func(st *Step, l int) bool {
		for _, cd := range st.Tree {
			if cd.Label == l {
				return true
			}
		}
		return false
	}
	restarted := false
	var admitted []admVote
	seenAdm := map[[3]int]bool{}
	treeAt := map[[3]int]int{} // vote -> first step at which it is in a tree object
	n := c.NKeys
	for i, e := range c.Events {
		if i+1 >= len(r.Steps) {
			break
		}
		prev, st := &r.Steps[i], &r.Steps[i+1]
		if st.Reopen != "" {
			fail(fmt.Sprintf("class=restart-panic: the node cannot be reopened on its own database after event %d (%d events of blocks and verification messages before): %s", i, i, st.Reopen))
			break
		}
		if st.Deadlock {
			info.Deadlocked = true
			fail(fmt.Sprintf("class=vote-deadlock: verification message %d (key %d, %d -> %d) did not return", i, e.Pub, e.Source, e.Target))
			break
		}
		var evs []string
		cmp := false
		ok := !st.Err
		switch e.Kind {
		case "deliver":
			delivered[e.Block] = true
			now := map[int]bool{}
			for _, l := range st.Stored {
				now[l] = true
			}
			var touched []int
			for l := range now {
				if !stored[l] && v.Boundary(l) {
					touched = append(touched, l)
				}
			}
			// an epoch-closing block that was tried and rejected: delivered, not stored, parent stored,
			// and either it is the delivered block or its parent was stored during this step
			for l := range delivered {
				if l > 0 && v.Boundary(l) && !now[l] && now[v.Parent(l)] && (l == e.Block || !stored[v.Parent(l)]) {
					touched = append(touched, l)
				}
			}
			sort.Slice(touched, func(a, b int) bool {
				if v.H[touched[a]] != v.H[touched[b]] {
					return v.H[touched[a]] < v.H[touched[b]]
				}
				return touched[a] < touched[b]
			})
			for _, l := range touched {
				var links []string
				for _, ls := range c.Blocks[l-1].Links {
					links = append(links, linkExpr(v, ls))
				}
				evs = append(evs, fmt.Sprintf("Ckpt %d %d %d [%s]", l, v.CkParent(l), v.H[l], strings.Join(links, "; ")))
			}
			if v.Boundary(e.Block) && len(touched) > 0 && touched[0] == e.Block {
				cmp = true
			}
			if st.Err {
				info.BlockErr++
			}
			// cached messages are applied when the first block after their target is connected
			var ts []int
			for t := range pending {
				ts = append(ts, t)
			}
			sort.Ints(ts)
			for _, t := range ts {
				trig := false
				for l := range now {
					if !stored[l] && v.Parent(l) == t {
						trig = true
					}
				}
				if !trig {
					continue
				}
				var ks []int
				for k := range pending[t] {
					ks = append(ks, k)
				}
				sort.Ints(ks)
				for _, l := range touched {
					if v.H[l] > v.H[t] {
						// the background replay races with the blocks connected later in the same call
						info.ModelOK = false
					}
				}
				for _, k := range ks {
					m := pending[t][k]
					evs = append(evs, fmt.Sprintf("Replay %d %d %d %s", m.Pub, lbl(m.Source), lbl(m.Target), sigExpr(m.Sig)))
					info.Replays++
				}
				delete(pending, t)
			}
			stored = now
		case "vote":
			if st.Skipped {
				info.Withheld++
				break
			}
			cmp = true
			evs = append(evs, fmt.Sprintf("Vote %d %d %d %s", e.Pub, lbl(e.Source), lbl(e.Target), sigExpr(e.Sig)))
			if st.Err {
				info.Rejected++
			} else if len(st.Posted) > 0 {
				info.Admitted++
			}
			if !st.Err && e.Target >= 0 && e.Target < v.N() && e.Pub != Outsider && !inTree(prev, e.Target) {
				if pending[e.Target] == nil {
					pending[e.Target] = map[int]Event{}
				}
				pending[e.Target][e.Pub] = e
			}
		case "restart":
			restarted = true
			info.Restarts++
			pending = map[int]map[int]Event{}
			evs = append(evs, fmt.Sprintf("Restart %d", lbl(st.Finalized)))
		}
		if !cmp {
			ok = true
		}
		steps = append(steps, fmt.Sprintf("([%s], %v)", strings.Join(evs, "; "), cmp))
		obs = append(obs, obsExpr(v, st, ok))

		// ------------------------------------------------------------ oracles
		for _, p := range st.Posted {
			if p.Pub == c.Local {
				info.OwnVotes++
			}
		}
		if or.C16 {
			if prev.Finalized >= 0 && st.Finalized >= 0 && !v.AncOrSelf(prev.Finalized, st.Finalized) {
				if e.Kind == "restart" && v.AncOrSelf(st.Finalized, prev.Finalized) {
					fail(fmt.Sprintf("class=finalized-regresses-after-restart: LastFinalizedHeader was block %d (height %d) and is its ancestor %d (height %d) after reopening the node (event %d)",
						prev.Finalized, v.H[prev.Finalized], st.Finalized, v.H[st.Finalized], i))
				} else {
					fail(fmt.Sprintf("class=finalized-moved-to-non-descendant: LastFinalizedHeader moved from block %d to block %d, which does not descend from it (event %d: %s)", prev.Finalized, st.Finalized, i, e.Kind))
				}
			}
			if !st.FinInMain {
				fail(fmt.Sprintf("class=finalized-not-in-main-chain: InMainChain(LastFinalizedHeader = block %d) is false after event %d", st.Finalized, i))
			}
			if st.Best >= 0 && st.Finalized >= 0 && !v.AncOrSelf(st.Finalized, st.Best) {
				fail(fmt.Sprintf("class=best-not-under-finalized: best block %d does not descend from the last finalized block %d after event %d", st.Best, st.Finalized, i))
			}
			// a checkpoint is justified / finalized on the strength of a REAL supermajority (more than 2n/3 verifying
			// signatures of distinct validators on one link); judged until the first restart (afterwards unverified
			// header signatures are counted: property C17's known finding)
			if !restarted {
				realMajority := func(cd *CkDump, from int) bool {
					for _, l := range cd.Links {
						valid := 0
						for _, sl := range l.Slots {
							if sl.OK && sl.Slot < n {
								valid++
							}
						}
						if 3*valid > 2*n && (from < 0 || l.Source == from) {
							return true
						}
					}
					return false
				}
				for k := range st.Cks {
					cd := &st.Cks[k]
					was := status(prev, cd.Label)
					if cd.Label != 0 && (cd.Status == "justified" || cd.Status == "finalized") && was != "justified" && was != "finalized" && !realMajority(cd, -1) {
						fail(fmt.Sprintf("class=justified-without-real-supermajority: checkpoint %d became %s at event %d and no sup link to it has more than 2n/3 verifying signatures of distinct validators (n = %d)", cd.Label, cd.Status, i, n))
					}
					if cd.Status == "finalized" && was != "finalized" {
						found := false
						for j := range st.Cks {
							ch := &st.Cks[j]
							if ch.Label > 0 && v.CkParent(ch.Label) == cd.Label && (ch.Status == "justified" || ch.Status == "finalized") && realMajority(ch, cd.Label) {
								found = true
							}
						}
						if !found {
							fail(fmt.Sprintf("class=finalized-without-real-supermajority: checkpoint %d became finalized at event %d and no direct child is justified through a link from it with more than 2n/3 verifying signatures (n = %d)", cd.Label, i, n))
						}
					}
				}
			}
			var fins []int
			for _, cd := range st.Cks {
				if cd.Status == "finalized" {
					fins = append(fins, cd.Label)
				}
			}
			for a := 0; a < len(fins); a++ {
				for b := a + 1; b < len(fins); b++ {
					if !v.OneChain(fins[a], fins[b]) {
						fail(fmt.Sprintf("class=conflicting-finalized: checkpoints %d and %d are both finalized and not on one chain (event %d)", fins[a], fins[b], i))
					}
				}
			}
		}
		if or.C17 {
			validCount := func(l LinkDump) (valid, filled int) {
				for _, s := range l.Slots {
					filled++
					if s.OK && s.Slot < n {
						valid++
					}
				}
				return
			}
			for _, cd := range st.Cks {
				if cd.Label == 0 || (cd.Status != "justified" && cd.Status != "finalized") {
					continue
				}
				was := status(prev, cd.Label)
				becameJust := was != "justified" && was != "finalized"
				// static: a supermajority of valid signatures on one link
				best, forged := false, false
				fromJust := false
				for _, l := range cd.Links {
					valid, filled := validCount(l)
					if valid > n*2/3 {
						best = true
						ss, sn := status(prev, l.Source), status(st, l.Source)
						if !becameJust || ss == "justified" || (len(evs) > 1 && ss != "finalized" && (sn == "justified" || sn == "finalized")) {
							fromJust = true
						}
					} else if filled > n*2/3 {
						forged = true
					}
				}
				if !best {
					if forged && restarted {
						fail(fmt.Sprintf("class=forged-sig-counts-after-reload: checkpoint %d is %s after event %d with at most %d valid validator signatures on any link; signatures that do not verify (or sit in unused slots) in the stored block header were counted after the node was reopened (n = %d)", cd.Label, cd.Status, i, n*2/3, n))
					} else {
						fail(fmt.Sprintf("class=justified-without-supermajority: checkpoint %d is %s after event %d and no sup link to it has more than 2n/3 valid signatures of distinct validators (n = %d)", cd.Label, cd.Status, i, n))
					}
				} else if becameJust && !fromJust {
					fail(fmt.Sprintf("class=justified-from-unjustified-source: checkpoint %d became %s at event %d through a supermajority link whose source was not justified", cd.Label, cd.Status, i))
				}
				if cd.Status == "finalized" && was != "finalized" {
					// a direct child justified from it
					found := false
					for _, ch := range st.Cks {
						if ch.Label <= 0 || v.CkParent(ch.Label) != cd.Label || (ch.Status != "justified" && ch.Status != "finalized") {
							continue
						}
						for _, l := range ch.Links {
							if valid, filled := validCount(l); l.Source == cd.Label && (valid > n*2/3 || (restarted && filled > n*2/3)) {
								found = true
							}
						}
					}
					if !found {
						fail(fmt.Sprintf("class=finalized-without-justified-child: checkpoint %d became finalized at event %d and no direct child checkpoint is justified through a supermajority link from it", cd.Label, i))
					}
				}
			}
		}
		if or.C18 {
			add := func(key, src, tgt int, own bool) {
				k := [3]int{key, src, tgt}
				if seenAdm[k] || src < 0 || tgt < 0 || src >= v.N() || tgt >= v.N() {
					return
				}
				seenAdm[k] = true
				nv := admVote{key, src, tgt, i, own}
				for _, o := range admitted {
					if o.key != key {
						continue
					}
					who := fmt.Sprintf("validator %d", key)
					if key == c.Local {
						who = fmt.Sprintf("the node's own key %d", key)
					}
					if v.H[o.tgt] == v.H[tgt] && o.tgt != tgt {
						cls := "double-vote-same-height"
						if o.own && own && !stored[o.tgt] {
							cls = "own-double-vote-after-rejected-block"
						}
						fail(fmt.Sprintf("class=%s: %s: votes %d->%d (event %d) and %d->%d (event %d) name different targets of height %d; the node produced or accepted both",
							cls, who, o.src, o.tgt, o.step, src, tgt, i, v.H[tgt]))
					}
					in := func(a, b admVote) bool { // a strictly inside b
						return v.H[b.src] < v.H[a.src] && v.H[a.tgt] < v.H[b.tgt]
					}
					if in(o, nv) || in(nv, o) {
						cls := "nested-votes-admitted"
						if !inTree(prev, o.tgt) {
							cls = "span-blind-to-pruned-branch"
						}
						fail(fmt.Sprintf("class=%s: %s: vote %d->%d (heights %d->%d, event %d) and vote %d->%d (heights %d->%d, event %d): one span lies strictly inside the other; the node produced or accepted both",
							cls, who, o.src, o.tgt, v.H[o.src], v.H[o.tgt], o.step, src, tgt, v.H[src], v.H[tgt], i))
					}
				}
				admitted = append(admitted, nv)
			}
			for _, p := range st.Posted {
				if p.Pub >= 0 && p.Pub != Outsider {
					add(p.Pub, p.Source, p.Target, p.Pub == c.Local && e.Kind == "deliver")
				}
			}
			if !restarted {
				for _, cd := range st.Tree {
					for _, l := range cd.Links {
						for _, s := range l.Slots {
							k := [3]int{s.Slot, l.Source, cd.Label}
							if _, ok := treeAt[k]; !ok {
								treeAt[k] = i
								if s.Slot < n {
									add(s.Slot, l.Source, cd.Label, false)
								}
							}
						}
					}
				}
			}
		}
	}
	// transitions for the statistics
	last := &r.Steps[len(r.Steps)-1]
	for _, cd := range last.Cks {
		if cd.Label != 0 && cd.Status == "justified" {
			info.Justified++
		}
		if cd.Status == "finalized" {
			info.Finalized++
			if cd.Label != 0 {
				info.Justified++
			}
		}
	}
	local := c.Local
	model = fmt.Sprintf("run_case %s %d %d %d 0 [%s]", variant, c.NKeys, Epoch, local, strings.Join(steps, ";\n   "))
	observed = "[" + strings.Join(obs, ";\n   ") + "]"
	return model, observed, info
}
