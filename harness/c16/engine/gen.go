package engine

import (
	"sort"

	. "verifharness/hlib"
)

// Profile selects what a generated case may contain.
type Profile struct {
	N         int  // validators
	Local     int  // node key (Outsider: the node is no validator)
	Restarts  int  // percent chance of a restart after an event
	Shuffle   bool // deliver one linear segment out of order
	Early     bool // verification messages may precede their target block
	Malformed int  // percent chance of a malformed message after an event
	Byz       bool // one validator signs everything it is asked to
	Carried   int  // percent chance that an epoch-closing block carries sup links
	BadBlocks int  // percent chance of an extra sibling with an unusable sup link
	Forged    int  // percent of carried slots that are forged / unused / foreign
	Forks     int  // maximal number of side branches
	Trunk     int  // maximal trunk length
}

type Gen struct {
	R *Rng
}

type genState struct {
	g       *Gen
	c       *Case
	p       Profile
	v       *View
	h       []uint64
	deliv   []bool
	just    map[int]bool
	root    int
	voted   map[[2]int]bool // (key, target) honest votes sent
	pendBur []int
}

func (g *Gen) pick(l []int) int { return l[g.R.Intn(len(l))] }

func (s *genState) height(l int) uint64 { return s.h[l] }

func (s *genState) addBlock(parent int, links []LinkSpec) int {
	s.c.Blocks = append(s.c.Blocks, BlockSpec{Parent: parent, Links: links})
	s.h = append(s.h, s.h[parent]+1)
	s.deliv = append(s.deliv, false)
	return len(s.c.Blocks)
}

func (s *genState) boundary(l int) bool { return s.h[l]%Epoch == 0 }

func (s *genState) ckAncestors(l int) []int { // nearest first
	var r []int
	for p := s.c.Blocks[l-1].Parent; ; p = s.c.Blocks[p-1].Parent {
		if s.boundary(p) {
			r = append(r, p)
		}
		if p == 0 {
			break
		}
	}
	return r
}

func (s *genState) thr() int { return s.p.N*2/3 + 1 } // votes needed

// carried links for the block that will get label `self` on top of `parent`
func (s *genState) carriedLinks(parent int, self int) []LinkSpec {
	g := s.g
	// ancestors of the new block
	anc := []int{}
	for p := parent; ; p = s.c.Blocks[p-1].Parent {
		if s.boundary(p) {
			anc = append(anc, p)
		}
		if p == 0 {
			break
		}
	}
	var links []LinkSpec
	nl := 1
	if g.R.Chance(20) {
		nl = 2
	}
	used := map[int]bool{}
	for i := 0; i < nl; i++ {
		src := anc[0]
		switch x := g.R.Intn(10); {
		case x < 5:
			src = anc[0]
		case x < 8:
			src = g.pick(anc)
		default:
			// any earlier epoch-closing block (possibly on another branch)
			var all []int
			for l := 0; l < self; l++ {
				if s.boundary(l) {
					all = append(all, l)
				}
			}
			src = g.pick(all)
		}
		if used[src] {
			continue
		}
		used[src] = true
		ls := LinkSpec{Source: src}
		k := g.R.Intn(s.p.N + 1)
		if g.R.Chance(50) {
			k = s.thr() - 1 + g.R.Intn(2)
		}
		perm := g.perm(s.p.N)
		for _, key := range perm[:min(k, s.p.N)] {
			sg := SigSpec{Key: key, Src: src, Tgt: self}
			if g.R.Chance(s.p.Forged) {
				switch g.R.Intn(5) {
				case 0:
					sg = SigSpec{Key: -1, Src: src, Tgt: self}
				case 1:
					sg = SigSpec{Key: -3}
				case 2:
					sg = SigSpec{Key: (key + 1) % max(s.p.N, 2), Src: src, Tgt: self} // another validator's signature in this slot
				case 3:
					sg = SigSpec{Key: key, Src: src, Tgt: parentOr(self, parent)} // right signer, other link
				case 4:
					sg = SigSpec{Key: Outsider, Src: src, Tgt: self}
				}
			}
			ls.Slots = append(ls.Slots, SlotSpec{Slot: key, Sig: sg})
		}
		if s.p.N < 10 && g.R.Chance(s.p.Forged) {
			// a signature in a slot no validator owns
			slot := s.p.N + g.R.Intn(10-s.p.N)
			ls.Slots = append(ls.Slots, SlotSpec{Slot: slot, Sig: SigSpec{Key: g.R.Intn(s.p.N), Src: src, Tgt: self}})
		}
		if len(ls.Slots) > 0 {
			links = append(links, ls)
		}
	}
	return links
}

func parentOr(self, parent int) int {
	if parent > 0 {
		return parent
	}
	return self + 1
}

func min(a, b int) int {
	if a < b {
		return a
	}
	return b
}
func max(a, b int) int {
	if a > b {
		return a
	}
	return b
}

func (g *Gen) perm(n int) []int {
	p := make([]int, n)
	for i := range p {
		p[i] = i
	}
	for i := n - 1; i > 0; i-- {
		j := g.R.Intn(i + 1)
		p[i], p[j] = p[j], p[i]
	}
	return p
}

// chain appends k blocks on top of `from`; epoch-closing blocks may carry links.
func (s *genState) chain(from, k int) []int {
	var r []int
	for i := 0; i < k; i++ {
		self := len(s.c.Blocks) + 1
		var links []LinkSpec
		if (s.h[from]+1)%Epoch == 0 && s.g.R.Chance(s.p.Carried) {
			links = s.carriedLinks(from, self)
		}
		from = s.addBlock(from, links)
		r = append(r, from)
	}
	return r
}

func (s *genState) vote(pub, src, tgt int, sg SigSpec) {
	s.c.Events = append(s.c.Events, Event{Kind: "vote", Pub: pub, Source: src, Target: tgt, Sig: sg})
}

func (s *genState) honestVote(k, src, tgt int) {
	s.vote(k, src, tgt, SigSpec{Key: k, Src: src, Tgt: tgt})
}

// nearest tracked-justified ancestor checkpoint of t
func (s *genState) lastJust(t int) int {
	for _, a := range s.ckAncestors(t) {
		if s.just[a] {
			return a
		}
		if a == s.root {
			break
		}
	}
	return -1
}

func (s *genState) burst(t int) {
	g := s.g
	anc := s.ckAncestors(t)
	src := s.lastJust(t)
	switch x := g.R.Intn(20); {
	case x < 13 && src >= 0:
	case x < 16:
		src = anc[0]
	case x < 18:
		src = g.pick(anc)
	default:
		var all []int
		for l := range s.deliv {
			if s.deliv[l] && s.boundary(l) {
				all = append(all, l)
			}
		}
		src = g.pick(all)
	}
	if src < 0 {
		src = anc[0]
	}
	k := g.R.Intn(s.p.N + 1)
	if g.R.Chance(65) {
		k = s.thr() - 1 + g.R.Intn(2)
	}
	k = min(k, s.p.N)
	cnt := 0
	if s.p.Local != Outsider && s.lastJust(t) == src {
		cnt = 1 // the node's own vote
	}
	for _, key := range g.perm(s.p.N)[:k] {
		if key == s.p.Local && cnt == 1 {
			continue
		}
		s.honestVote(key, src, t)
		cnt++
		s.sprinkle()
	}
	if s.just[src] && cnt >= s.thr() && !s.just[t] && s.height(src) < s.height(t) {
		s.just[t] = true
		if anc[0] == src {
			s.just[src] = false
			s.root = src
		}
	}
}

func (s *genState) someBoundary(delivered bool) int {
	var all []int
	for l := range s.deliv {
		if s.boundary(l) && (!delivered || s.deliv[l]) {
			all = append(all, l)
		}
	}
	return s.g.pick(all)
}

// sprinkle: byzantine and malformed messages, restarts
func (s *genState) sprinkle() {
	g := s.g
	if s.p.Byz && g.R.Chance(12) {
		z := s.p.N - 1
		a, b := s.someBoundary(true), s.someBoundary(true)
		if s.height(a) > s.height(b) {
			a, b = b, a
		}
		if a != b {
			s.honestVote(z, a, b)
		}
	}
	if g.R.Chance(s.p.Malformed) {
		a, b := s.someBoundary(true), s.someBoundary(true)
		if s.height(a) > s.height(b) {
			a, b = b, a
		}
		k := g.R.Intn(s.p.N)
		switch g.R.Intn(10) {
		case 0: // garbage signature
			s.vote(k, a, b, SigSpec{Key: -1, Src: a, Tgt: b})
		case 1: // one byte
			s.vote(k, a, b, SigSpec{Key: -3})
		case 2: // signature of another validator
			s.vote(k, a, b, SigSpec{Key: (k + 1) % max(s.p.N, 2), Src: a, Tgt: b})
		case 3: // signature for the reversed link
			s.vote(k, a, b, SigSpec{Key: k, Src: b, Tgt: a})
		case 4: // not a validator
			s.vote(Outsider, a, b, SigSpec{Key: Outsider, Src: a, Tgt: b})
		case 5: // unknown source
			s.vote(k, -1, b, SigSpec{Key: k, Src: -1, Tgt: b})
		case 6: // unknown target (cached by the node)
			if !s.p.Early {
				s.vote(Outsider, a, -1, SigSpec{Key: Outsider, Src: a, Tgt: -1})
			}
		case 7: // target = tracked root, or source above target
			if g.R.Bool() {
				s.honestVote(k, b, a)
			} else {
				s.honestVote(k, a, s.root)
			}
		case 8: // source = target
			s.honestVote(k, b, b)
		case 9: // repeat an earlier message
			for i := len(s.c.Events) - 1; i >= 0; i-- {
				if e := s.c.Events[i]; e.Kind == "vote" && g.R.Chance(30) {
					s.c.Events = append(s.c.Events, e)
					break
				}
			}
		}
	}
	if g.R.Chance(s.p.Restarts) {
		s.c.Events = append(s.c.Events, Event{Kind: "restart"})
	}
}

func (s *genState) deliver(l int) {
	s.c.Events = append(s.c.Events, Event{Kind: "deliver", Block: l})
	s.deliv[l] = true
}

// Random builds one case.
func (g *Gen) Random(id int, stream string, p Profile) *Case {
	c := &Case{ID: id, Stream: stream, NKeys: p.N, Local: p.Local, Early: p.Early}
	s := &genState{g: g, c: c, p: p, h: []uint64{0}, deliv: []bool{true}, just: map[int]bool{0: true}, voted: map[[2]int]bool{}}
	// tree
	trunk := s.chain(0, 5+g.R.Intn(max(p.Trunk-4, 1)))
	branches := [][]int{trunk}
	nf := 0
	if p.Forks > 0 {
		nf = g.R.Intn(p.Forks + 1)
	}
	for i := 0; i < nf; i++ {
		br := g.pickOf(branches)
		at := 0
		if g.R.Chance(75) {
			idx := g.R.Intn(len(br))
			at = br[idx]
		}
		// prefer fork points right before an epoch end so that sibling checkpoints exist
		if g.R.Chance(50) {
			for at > 0 && (s.h[at]+1)%Epoch != 0 && s.h[at]%Epoch != 0 {
				at = c.Blocks[at-1].Parent
			}
		}
		branches = append(branches, s.chain(at, 2+g.R.Intn(max(p.Trunk-3, 1))))
	}
	// extra siblings with an unusable sup link (rejected blocks)
	var bad []int
	if p.BadBlocks > 0 {
		for _, br := range branches {
			for _, l := range br {
				if s.boundary(l) && g.R.Chance(p.BadBlocks) {
					par := c.Blocks[l-1].Parent
					self := len(c.Blocks) + 1
					ls := LinkSpec{Source: -1, Slots: []SlotSpec{{Slot: g.R.Intn(p.N), Sig: SigSpec{Key: 0, Src: -1, Tgt: self}}}}
					if g.R.Bool() {
						src := s.ckAncestorsOf(par)[0]
						ls = LinkSpec{Source: src, HeightUp: Epoch, Slots: []SlotSpec{{Slot: 0, Sig: SigSpec{Key: 0, Src: src, Tgt: self}}}}
					}
					bad = append(bad, s.addBlock(par, []LinkSpec{ls}))
				}
			}
		}
	}
	// delivery order: parents first, mostly staying on one branch
	order := s.order(branches, bad)
	if p.Shuffle {
		order = s.shuffleSegment(order)
	}
	// early messages: a vote for a block that has not arrived yet
	early := map[int][]Event{}
	if p.Early {
		for _, l := range order {
			if s.boundary(l) && g.R.Chance(45) {
				anc := s.ckAncestors(l)
				src := anc[len(anc)-1]
				if g.R.Bool() {
					src = anc[0]
				}
				k := 1 + g.R.Intn(2)
				for _, key := range g.perm(p.N)[:min(k, p.N)] {
					early[l] = append(early[l], Event{Kind: "vote", Pub: key, Source: src, Target: l, Sig: SigSpec{Key: key, Src: src, Tgt: l}})
				}
			}
		}
	}
	for i, l := range order {
		// send early messages for a block a few deliveries ahead
		for j := i; j < len(order) && j < i+3; j++ {
			if evs, ok := early[order[j]]; ok && g.R.Chance(60) {
				c.Events = append(c.Events, evs...)
				delete(early, order[j])
			}
		}
		s.deliver(l)
		if s.boundary(l) {
			if g.R.Chance(70) {
				s.burst(l)
			} else {
				s.pendBur = append(s.pendBur, l)
			}
		}
		if len(s.pendBur) > 0 && g.R.Chance(35) {
			i := g.R.Intn(len(s.pendBur))
			t := s.pendBur[i]
			s.pendBur = append(s.pendBur[:i], s.pendBur[i+1:]...)
			if s.deliv[t] {
				s.burst(t)
			}
		}
		s.sprinkle()
	}
	for _, t := range s.pendBur {
		if g.R.Chance(60) {
			s.burst(t)
		}
	}
	return c
}

func (s *genState) ckAncestorsOf(l int) []int {
	var r []int
	for p := l; ; p = s.c.Blocks[p-1].Parent {
		if s.boundary(p) {
			r = append(r, p)
		}
		if p == 0 {
			break
		}
	}
	return r
}

func (g *Gen) pickOf(b [][]int) []int { return b[g.R.Intn(len(b))] }

func (s *genState) order(branches [][]int, bad []int) []int {
	g := s.g
	children := map[int][]int{}
	for i, b := range s.c.Blocks {
		children[b.Parent] = append(children[b.Parent], i+1)
	}
	var order []int
	frontier := append([]int{}, children[0]...)
	last := -1
	for len(frontier) > 0 {
		idx := g.R.Intn(len(frontier))
		if last >= 0 && g.R.Chance(80) {
			for i, f := range frontier {
				if s.c.Blocks[f-1].Parent == last {
					idx = i
					break
				}
			}
		}
		l := frontier[idx]
		frontier = append(frontier[:idx], frontier[idx+1:]...)
		order = append(order, l)
		frontier = append(frontier, children[l]...)
		last = l
	}
	return order
}

// shuffleSegment: take a run of consecutive deliveries that form a chain (each the parent of the next) and
// deliver it in another order; the blocks connect, in chain order, when the missing one arrives.
func (s *genState) shuffleSegment(order []int) []int {
	g := s.g
	for try := 0; try < 5; try++ {
		i := g.R.Intn(len(order))
		j := i
		for j+1 < len(order) && s.c.Blocks[order[j+1]-1].Parent == order[j] && j-i < 6 {
			j++
		}
		if j-i < 1 {
			continue
		}
		seg := append([]int{}, order[i:j+1]...)
		if g.R.Bool() {
			sort.Sort(sort.Reverse(sort.IntSlice(seg)))
		} else {
			p := g.perm(len(seg))
			cp := append([]int{}, seg...)
			for a, b := range p {
				seg[a] = cp[b]
			}
		}
		r := append([]int{}, order[:i]...)
		r = append(r, seg...)
		return append(r, order[j+1:]...)
	}
	return order
}

// DynCases: cases in which epoch 5 elects another validator set and block 24 carries a link that skips it.
func (g *Gen) DynCases(id, k int) []*Case {
	var r []*Case
	for i := 0; i < k; i++ {
		perm := g.perm(4)
		m := 2 + g.R.Intn(3) // 2..4 elected validators
		d := &DynSpec{Elect: perm[:m], Source: "genesis", Signers: []string{"former", "current", "mixed"}[i%3]}
		if g.R.Bool() {
			d.Source = "c16"
		}
		// a set that equals the federation in the same order changes nothing: rotate it
		if m == 4 && perm[0] == 0 && perm[1] == 1 && perm[2] == 2 {
			d.Elect = []int{1, 2, 3, 0}
		}
		r = append(r, &Case{ID: id + i, Stream: "elected-validators", NKeys: 4, Local: Outsider, Dyn: d})
	}
	return r
}

// ShortBranchCases: the node follows a long branch A nobody voted for; a strictly SHORTER branch B is then
// justified and finalized through sup links carried in its block headers (the verification-message path would
// hang the pinned node on the reorganisation).  The fork choice must move the main chain to B.
func (g *Gen) ShortBranchCases(id, k int) []*Case {
	var r []*Case
	for i := 0; i < k; i++ {
		n := 4
		if g.R.Chance(30) {
			n = []int{3, 5, 7}[g.R.Intn(3)]
		}
		local := Outsider
		if g.R.Bool() {
			local = g.R.Intn(n)
		}
		c := &Case{ID: id + i, Stream: "short-branch-finalized", NKeys: n, Local: local}
		s := &scen{c}
		fork := g.R.Intn(4)                 // B leaves A at height 0..3
		epochs := 2 + g.R.Intn(2)           // B closes 2 or 3 epochs
		hb := epochs*Epoch + g.R.Intn(2)    // height of B's tip
		a := s.chain(0, hb+1+g.R.Intn(5))   // A is strictly higher
		thr := n*2/3 + 1
		keys := g.perm(n)[:thr+g.R.Intn(n-thr+1)]
		// the node's own key votes on branch A by itself: its signature for a B checkpoint would be refused
		var signers []int
		for _, x := range keys {
			if x != local {
				signers = append(signers, x)
			}
		}
		for len(signers) < thr {
			for x := 0; x < n && len(signers) < thr; x++ {
				in := x == local
				for _, y := range signers {
					in = in || y == x
				}
				if !in {
					signers = append(signers, x)
				}
			}
			if n-1 < thr {
				break
			}
		}
		parent, src := fork, 0
		var b []int
		for h := fork + 1; h <= hb; h++ {
			self := len(c.Blocks) + 1
			if h%Epoch == 0 {
				parent = s.blk(parent, valid(src, self, signers...))
				src = parent
			} else {
				parent = s.blk(parent)
			}
			b = append(b, parent)
		}
		// A first (completely, or all but its last blocks), then B, then the rest of A
		cut := len(a)
		if g.R.Chance(40) {
			cut = len(a) - 1 - g.R.Intn(2)
			if cut < hb+1 {
				cut = hb + 1
			}
		}
		s.deliver(a[:cut]...)
		s.deliver(b...)
		s.deliver(a[cut:]...)
		r = append(r, c)
	}
	return r
}
