// C16 — finality is safe and irreversible: correspondence and oracle harness.
//
// Cases are histories of block deliveries, verification messages (honest, equivocating, malformed) and node
// restarts against the real finality engine (protocol.Chain on LevelDB, federations of 2..10 keys, epoch length 4).
// Oracle (independent of the model): the last finalized block only moves to descendants, is always on the main
// chain, the best block descends from it, and no two stored checkpoints with status Finalized lie on different
// chains; until the first restart a checkpoint only becomes justified / finalized with more than 2n/3 verifying
// signatures of distinct validators on one link.  The Coq model C16/Model.v is evaluated on every case and compared with the node (stored checkpoint
// statuses and header sup links, the in-memory tree and its sup links, last finalized, height of last
// justified, posted verification messages, result of each action).
package main

import (
	"verifharness/c16/engine"
	. "verifharness/hlib"
)

func main() {
	Main("C16", run, map[string]func([]string) int{"batch": engine.ChildBatch})
}

func run(c *Ctx) error {
	g := &engine.Gen{R: c.Rng}
	cases := engine.Corpus(0, true)
	id := len(cases)
	add := func(stream string, p engine.Profile, k int) {
		for i := 0; i < k; i++ {
			q := p
			if q.Local == -1 {
				q.Local = c.Rng.Intn(q.N)
				if c.Rng.Chance(15) {
					q.Local = engine.Outsider
				}
			}
			cases = append(cases, g.Random(id, stream, q))
			id++
		}
	}
	base := engine.Profile{N: 4, Local: -1, Carried: 25, Forged: 10, Forks: 2, Trunk: 14, Malformed: 4}
	honest := base
	add("honest", honest, c.N(30, 220))
	byz := base
	byz.Byz, byz.Malformed = true, 8
	add("byzantine", byz, c.N(30, 220))
	mal := base
	mal.Malformed, mal.Forged, mal.BadBlocks, mal.Byz = 25, 35, 12, true
	add("malformed", mal, c.N(20, 150))
	rs := base
	rs.Restarts, rs.Byz = 6, true
	add("restart", rs, c.N(15, 120))
	sh := base
	sh.Shuffle = true
	add("out-of-order", sh, c.N(10, 80))
	ea := base
	ea.Early = true
	add("early-messages", ea, c.N(8, 60))
	// other validator-set sizes, votes split over forks around the 2n/3 threshold (no restarts, no equivocation)
	for i, k := 0, c.N(24, 160); i < k; i++ {
		sz := base
		sz.N = []int{2, 5, 8, 2, 5, 8, 3, 7, 10, 6}[i%10]
		sz.Forks, sz.Carried, sz.Malformed, sz.Forged = 2, 30, 2, 5
		add("sizes-split-votes", sz, 1)
	}
	// a shorter branch justified and finalized through header-carried links while a longer unvoted branch is best
	cases = append(cases, g.ShortBranchCases(id, c.N(12, 80))...)
	return engine.RunProperty(c, engine.Oracles{C16: true}, cases,
		"a case counts as non-trivial when the node admitted a verification message, signed a vote of its own or justified a checkpoint")
}
