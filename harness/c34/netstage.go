// C34 through the Network: nodes reach the table not only by Table.add calls made by tests but
// through the network's own seeding paths (fallback / bootstrap nodes interned by the network loop).
// A Network over a silent transport and without a seed database is given random fallback nodes;
// the table it ends up with must satisfy the property: every entry in the bucket of its real
// log-distance (recomputed here from the ids, not from the hash cached in the node), at most
// bucketSize entries per bucket, distinct ids, the local id absent, count = number of entries.
package main

import (
	"crypto/ed25519"
	"fmt"
	"net"
	"time"

	"github.com/bytom/bytom/common"
	bcrypto "github.com/bytom/bytom/crypto"
	"github.com/bytom/bytom/p2p/discover/dht"

	. "verifharness/hlib"
)

func netStage(c *Ctx) {
	r := c.Rng
	rounds := c.N(12, 60)
	checked := 0
	for round := 0; round < rounds; round++ {
		pub := ed25519.PublicKey(r.Bytes(ed25519.PublicKeySize))
		nw, err := dht.VerifNewSilentNetwork(pub)
		if err != nil {
			c.Stats.Count("netstage:network-not-created")
			continue
		}
		var fallback []*dht.Node
		var ids [][]byte
		nf := 1 + r.Intn(12)
		for i := 0; i < nf; i++ {
			var id dht.NodeID
			copy(id[:], r.Bytes(len(id)))
			fallback = append(fallback, dht.NewNode(id, net.IP{10, 1, byte(round), byte(i + 1)}, 46657, 46657))
			ids = append(ids, append([]byte{}, id[:]...))
		}
		desc := map[string]interface{}{"kind": "network-seeding", "local_key": fmt.Sprintf("%x", []byte(pub)), "fallback_ids": fmt.Sprintf("%x", ids)}
		if err := nw.SetFallbackNodes(fallback); err != nil {
			c.Stats.Fail("class=fallback-refused: SetFallbackNodes refuses complete nodes: "+err.Error(), desc)
			nw.Close()
			continue
		}
		// the refresh runs in the network loop; poll the table until the seeds are in (or give up)
		var self dht.NodeID
		var entries []dht.VerifBucketEntry
		count := 0
		for try := 0; try < 200; try++ {
			var ok bool
			self, entries, count, ok = nw.VerifTableSnapshot()
			if ok && len(entries) >= nf {
				break
			}
			time.Sleep(5 * time.Millisecond)
		}
		nw.Close()
		checked++
		selfSha := realSha(self[:])
		seen := map[dht.NodeID]bool{}
		perBucket := map[int]int{}
		for _, e := range entries {
			want := dht.VerifLogdist(selfSha, realSha(e.ID[:]))
			if want != e.Bucket {
				c.Stats.Fail(fmt.Sprintf("class=wrong-bucket: a fallback node interned by the network sits in bucket %d, the log-distance of its id from the local id is %d", e.Bucket, want), desc)
				break
			}
			if seen[e.ID] {
				c.Stats.Fail("class=duplicate-id: an id appears twice in the table after seeding", desc)
				break
			}
			seen[e.ID] = true
			perBucket[e.Bucket]++
			if perBucket[e.Bucket] > dht.VerifBucketSize {
				c.Stats.Fail(fmt.Sprintf("class=bucket-overflow: bucket %d holds more than %d entries after seeding", e.Bucket, dht.VerifBucketSize), desc)
				break
			}
			if e.ID == self {
				c.Stats.Fail("class=self-in-table: the local id is in the table after seeding", desc)
				break
			}
		}
		if count != len(entries) {
			c.Stats.Fail(fmt.Sprintf("class=count: the table records %d entries and holds %d after seeding", count, len(entries)), desc)
		}
	}
	c.Stats.Distribution["netstage.networks"] = checked
}

func realSha(b []byte) common.Hash { return bcrypto.Sha256Hash(b) }
