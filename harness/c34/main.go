package main

// C34 — DHT routing table invariants (p2p/discover/dht/table.go).
//
// Each case: a local node, a small population of nodes whose distance hashes
// fall into one to three buckets (real ids pre-searched so that sha3(id) lands
// in the chosen bucket; or forged hashes for boundary buckets, twins and the
// local node's own id), and a sequence of add / stuff / delete / deleteReplace /
// bump / deleteFromReplacement calls applied to a Table built without the
// network (hook table_verif.go).
//
// Direct oracle, after every operation, on the implementation's buckets only:
// at most sixteen entries per bucket, pairwise distinct ids, every entry at the
// bucket's log-distance (bit length of sha(self) xor sha(n), computed here with
// math/big), local id absent, recorded count = number of entries.
//
// Correspondence: final count, ordered ids of entries and replacements of every
// non-empty bucket, and the per-operation results (contested node of add, flag
// of bump) against the Coq model C34.Run.run_case.

import (
	"crypto/sha256"
	"encoding/hex"
	"fmt"
	"math/big"
	"strings"

	"github.com/bytom/bytom/common"
	"github.com/bytom/bytom/p2p/discover/dht"
	. "verifharness/hlib"
)

func main() { Main("C34", runC34, nil) }

const maxEntries = 16 // the property's "sixteen"

type nodeSpec struct {
	n     *dht.Node
	kind  string // real | forged | self | selfid-forged | twin-other-bucket | twin-same-bucket | same-sha-as-self
	label int    // stands for the node id in the model (0 = the local id; twins share a label)
	group int    // position of the node's distance hash in the local node's pool
	j     int
}

type opSpec struct {
	kind string // add stuff delete deleteReplace bump delRepl
	idx  []int
}

// Per local node: groups of distance hashes.  Group 0 = the local node's own
// hash; one group per real bucket (ids whose sha3 lands there) and one per
// forged bucket (hashes constructed at that log-distance).
type selfPool struct {
	k       int
	id      dht.NodeID
	node    *dht.Node
	sha     common.Hash
	pools   map[int][]dht.NodeID // real bucket -> ids whose sha3 lands there
	groups  [][]common.Hash
	realGrp map[int]int // bucket -> group
	forgGrp map[int]int // bucket -> group
	forged  []int       // buckets with a forged group
}

// independent log-distance: bit length of the xor of the two hashes
func bitDist(a, b common.Hash) int {
	var x [32]byte
	for i := range x {
		x[i] = a[i] ^ b[i]
	}
	return new(big.Int).SetBytes(x[:]).BitLen()
}

func randID(r *Rng) (id dht.NodeID) {
	copy(id[:], r.Bytes(32))
	return
}

// hash at log-distance d from s: top differing bit at position d-1, lower bits random
func forgeSha(r *Rng, s common.Hash, d int) common.Hash {
	if d == 0 {
		return s
	}
	m := new(big.Int).SetBit(new(big.Int), d-1, 1)
	if d > 1 {
		low := new(big.Int).SetBytes(r.Bytes(32))
		low.Mod(low, new(big.Int).Lsh(big.NewInt(1), uint(d-1)))
		m.Or(m, low)
	}
	mb := m.FillBytes(make([]byte, 32))
	var out common.Hash
	for i := range out {
		out[i] = s[i] ^ mb[i]
	}
	return out
}

const lowestReal = 249
const forgedPerBucket = 10

// ids searched per real bucket (bucket 256 gets enough to overflow the replacement cache)
func poolPerBucket(d int) int {
	if d == 256 {
		return 36
	}
	return 26
}

func buildSelfPool(r *Rng, k int) *selfPool {
	sp := &selfPool{k: k, id: randID(r), pools: map[int][]dht.NodeID{}, realGrp: map[int]int{}, forgGrp: map[int]int{}}
	tab := dht.VerifNewTable(sp.id)
	sp.node = tab.Self()
	sp.sha = sp.node.VerifSha()
	missing := 256 - lowestReal + 1
	for missing > 0 {
		id := randID(r)
		d := bitDist(sp.sha, dht.VerifNode(id).VerifSha())
		if d < lowestReal || len(sp.pools[d]) >= poolPerBucket(d) {
			continue
		}
		sp.pools[d] = append(sp.pools[d], id)
		if len(sp.pools[d]) == poolPerBucket(d) {
			missing--
		}
	}
	sp.groups = [][]common.Hash{{sp.sha}}
	for d := 256; d >= lowestReal; d-- {
		var g []common.Hash
		for _, id := range sp.pools[d] {
			g = append(g, dht.VerifNode(id).VerifSha())
		}
		sp.realGrp[d] = len(sp.groups)
		sp.groups = append(sp.groups, g)
	}
	bs := append([]int(nil), boundaryBuckets...)
	for len(bs) < len(boundaryBuckets)+4 {
		bs = append(bs, r.Intn(257))
	}
	for _, d := range bs {
		if _, ok := sp.forgGrp[d]; ok {
			continue
		}
		var g []common.Hash
		for i := 0; i < forgedPerBucket; i++ {
			g = append(g, forgeSha(r, sp.sha, d))
		}
		sp.forgGrp[d] = len(sp.groups)
		sp.forged = append(sp.forged, d)
		sp.groups = append(sp.groups, g)
	}
	return sp
}

// a forged hash of the pool at log-distance d
func (sp *selfPool) forgedAt(r *Rng, d int) (common.Hash, int, int) {
	g := sp.forgGrp[d]
	j := r.Intn(len(sp.groups[g]))
	return sp.groups[g][j], g, j
}

func shortID(id dht.NodeID) string { return hex.EncodeToString(id[:4]) }

var boundaryBuckets = []int{0, 1, 2, 8, 9, 16, 17, 128, 129, 248, 255, 256}

func popSize(r *Rng) int {
	switch x := r.Intn(100); {
	case x < 10:
		return 1 + r.Intn(6)
	case x < 25:
		return 12 + r.Intn(5) // up to exactly full
	case x < 85:
		return 17 + r.Intn(6) // full plus a few replacements
	default:
		return 23 + r.Intn(12) // enough to overflow the replacement cache too
	}
}

type genCase struct {
	sp      *selfPool
	nodes   []nodeSpec
	byBkt   map[int][]int // bucket -> population indices
	buckets []int
	hot     []int
	ops     []opSpec
	kind    string
}

func genPopulation(r *Rng, sp *selfPool, c *Ctx) *genCase {
	g := &genCase{sp: sp, byBkt: map[int][]int{}}
	nextLabel := 1
	add := func(n *dht.Node, kind string, label, grp, j int) int {
		if label < 0 {
			label = nextLabel
			nextLabel++
		}
		g.nodes = append(g.nodes, nodeSpec{n, kind, label, grp, j})
		i := len(g.nodes) - 1
		d := bitDist(sp.sha, n.VerifSha())
		g.byBkt[d] = append(g.byBkt[d], i)
		return i
	}
	addForged := func(id dht.NodeID, d int, kind string, label int) {
		h, grp, j := sp.forgedAt(r, d)
		add(dht.VerifNodeWithSha(id, h), kind, label, grp, j)
	}
	nb := 1 + r.Intn(3)
	forgedCase := r.Chance(25)
	g.kind = "real-ids"
	if forgedCase {
		g.kind = "forged-hashes"
	}
	seen := map[int]bool{}
	for len(g.buckets) < nb {
		var d int
		if forgedCase {
			d = sp.forged[r.Intn(len(sp.forged))]
		} else {
			d = 256 - r.Intn(256-lowestReal+1)
			if r.Chance(60) {
				d = 256 - r.Intn(3)
			}
		}
		if seen[d] {
			continue
		}
		seen[d] = true
		g.buckets = append(g.buckets, d)
	}
	budget := 44 // keep populations small
	for _, d := range g.buckets {
		p := popSize(r)
		if p > budget {
			p = budget
		}
		if p < 1 {
			p = 1
		}
		budget -= p
		if forgedCase {
			for k := 0; k < p; k++ {
				addForged(randID(r), d, "forged", -1)
			}
		} else {
			pool := sp.pools[d]
			if p > len(pool) {
				p = len(pool)
			}
			// a random subset of the pre-searched ids
			perm := make([]int, len(pool))
			for i := range perm {
				perm[i] = i
			}
			for i := len(perm) - 1; i > 0; i-- {
				j := r.Intn(i + 1)
				perm[i], perm[j] = perm[j], perm[i]
			}
			for k := 0; k < p; k++ {
				add(dht.VerifNode(pool[perm[k]]), "real", -1, sp.realGrp[d], perm[k])
			}
		}
	}
	// boundary / malformed members of the population
	if r.Chance(30) {
		add(sp.node, "self", 0, 0, 0)
	}
	forgedBucketOf := func(d int) int { // a bucket with a forged group: d itself if it has one
		if _, ok := sp.forgGrp[d]; ok {
			return d
		}
		return sp.forged[r.Intn(len(sp.forged))]
	}
	if r.Chance(15) {
		addForged(sp.id, forgedBucketOf(g.buckets[r.Intn(len(g.buckets))]), "selfid-forged", 0)
	}
	if r.Chance(15) {
		add(dht.VerifNodeWithSha(randID(r), sp.sha), "same-sha-as-self", -1, 0, 0)
	}
	base := len(g.nodes)
	for k := 0; k < 2; k++ {
		if r.Chance(15) && base > 0 {
			o := g.nodes[r.Intn(base)]
			if o.n.ID == sp.id {
				continue
			}
			d := bitDist(sp.sha, o.n.VerifSha())
			if _, ok := sp.forgGrp[d]; ok && r.Bool() {
				addForged(o.n.ID, d, "twin-same-bucket", o.label)
			} else {
				addForged(o.n.ID, forgedBucketOf(g.buckets[r.Intn(len(g.buckets))]), "twin-other-bucket", o.label)
			}
		}
	}
	// hot set: a few nodes that get most of the traffic
	for k := 0; k < 2+r.Intn(4); k++ {
		g.hot = append(g.hot, r.Intn(len(g.nodes)))
	}
	return g
}

func (g *genCase) pick(r *Rng) int {
	if r.Chance(40) {
		return g.hot[r.Intn(len(g.hot))]
	}
	return r.Intn(len(g.nodes))
}

func genOps(r *Rng, g *genCase, c *Ctx) {
	var target int
	switch x := r.Intn(100); {
	case x < 25:
		target = 1 + r.Intn(12)
	case x < 75:
		target = 20 + r.Intn(70)
	default:
		target = 90 + r.Intn(c.N(80, 200))
	}
	push := func(kind string, idx ...int) { g.ops = append(g.ops, opSpec{kind, idx}) }
	// fill phase: bring some buckets to (nearly) full quickly
	if r.Chance(65) {
		for _, d := range g.buckets {
			if !r.Chance(75) {
				continue
			}
			members := g.byBkt[d]
			m := len(members)
			if r.Chance(40) && m > 14 {
				m = 14 + r.Intn(m-13)
			}
			if r.Chance(35) {
				push("stuff", append([]int(nil), members[:m]...)...)
			} else {
				for _, i := range members[:m] {
					push("add", i)
				}
			}
		}
	}
	for len(g.ops) < target {
		switch x := r.Intn(100); {
		case x < 34:
			push("add", g.pick(r))
		case x < 48:
			push("delete", g.pick(r))
		case x < 68:
			push("deleteReplace", g.pick(r))
		case x < 78:
			k := r.Intn(7)
			if r.Chance(10) {
				k = 10 + r.Intn(15)
			}
			l := make([]int, k)
			for i := range l {
				l[i] = g.pick(r)
			}
			push("stuff", l...)
		case x < 88:
			push("bump", g.pick(r))
		case x < 94:
			push("delRepl", g.pick(r))
		default:
			// the pattern add-after-parking: re-add a node right after a deletion
			a, b := g.pick(r), g.pick(r)
			push("add", a)
			push("delete", b)
			push("add", a)
		}
	}
}

type snap struct {
	count int
	es    [][]*dht.Node
	rs    [][]*dht.Node
}

func takeSnap(t *dht.VerifTable) snap {
	c, es, rs := t.Snapshot()
	return snap{c, es, rs}
}

// the property predicate on the implementation's state
func oracle(sp *selfPool, s snap) string {
	total := 0
	for i, es := range s.es {
		total += len(es)
		if len(es) > maxEntries {
			return fmt.Sprintf("class=bucket-overfull: bucket %d holds %d entries", i, len(es))
		}
		seen := map[dht.NodeID]bool{}
		for _, e := range es {
			if e == nil {
				return fmt.Sprintf("class=nil-entry: bucket %d holds a nil entry", i)
			}
			if seen[e.ID] {
				return fmt.Sprintf("class=duplicate-node: node %s twice in the entries of bucket %d", shortID(e.ID), i)
			}
			seen[e.ID] = true
			if e.ID == sp.id {
				return fmt.Sprintf("class=self-present: the local node is an entry of bucket %d", i)
			}
			if d := bitDist(sp.sha, e.VerifSha()); d != i {
				return fmt.Sprintf("class=wrong-distance: node %s at log-distance %d is an entry of bucket %d", shortID(e.ID), d, i)
			}
		}
	}
	if s.count != total {
		return fmt.Sprintf("class=count-mismatch: recorded count %d, buckets hold %d entries", s.count, total)
	}
	return ""
}

func hasID(l []*dht.Node, id dht.NodeID) bool {
	for _, e := range l {
		if e != nil && e.ID == id {
			return true
		}
	}
	return false
}

func (g *genCase) labelOf(id dht.NodeID) int {
	if id == g.sp.id {
		return 0
	}
	for _, x := range g.nodes {
		if x.n.ID == id {
			return x.label
		}
	}
	return 1 << 30 // an id that is not in the population: never matches the model
}

func (g *genCase) describe(upto int) map[string]interface{} {
	var nodes []string
	for i, ns := range g.nodes {
		s := ns.n.VerifSha()
		nodes = append(nodes, fmt.Sprintf("%d:%s label=%d id=%x sha=%x bucket=%d", i, ns.kind, ns.label, ns.n.ID[:], s[:], bitDist(g.sp.sha, s)))
	}
	var ops []string
	for k, o := range g.ops {
		if k >= upto {
			break
		}
		ops = append(ops, fmt.Sprintf("%s%v", o.kind, o.idx))
	}
	return map[string]interface{}{"self_id": hex.EncodeToString(g.sp.id[:]), "self_sha": hex.EncodeToString(g.sp.sha[:]),
		"nodes": nodes, "ops": ops}
}

func runCase(c *Ctx, g *genCase) {
	sp := g.sp
	t := dht.VerifNewTable(sp.id)
	var obs []string
	failed := ""
	changed := false
	everFull := false
	for k, o := range g.ops {
		before := takeSnap(t)
		c.Stats.Count("op_" + o.kind)
		var n *dht.Node
		if o.kind != "stuff" {
			n = g.nodes[o.idx[0]].n
			c.Stats.Count("target_" + g.nodes[o.idx[0]].kind)
		}
		// input-distribution events that need the state before the call
		if o.kind == "add" || o.kind == "stuff" {
			var l []*dht.Node
			if n != nil {
				l = []*dht.Node{n}
			} else {
				for _, i := range o.idx {
					l = append(l, g.nodes[i].n)
				}
			}
			for _, x := range l {
				d := bitDist(sp.sha, x.VerifSha())
				if x.ID != sp.id && hasID(before.rs[d], x.ID) && !hasID(before.es[d], x.ID) && len(before.es[d]) < maxEntries {
					c.Stats.Count("ev_readd_of_parked_node_with_space")
				}
			}
		}
		panicked := func() (p interface{}) {
			defer func() { p = recover() }()
			switch o.kind {
			case "add":
				r := t.Add(n)
				if r == nil {
					obs = append(obs, "None")
				} else {
					obs = append(obs, fmt.Sprintf("Some %d%%N", g.labelOf(r.ID)))
					c.Stats.Count("ev_add_parked_in_replacements")
				}
			case "stuff":
				l := make([]*dht.Node, len(o.idx))
				for i, x := range o.idx {
					l[i] = g.nodes[x].n
				}
				t.Stuff(l)
				obs = append(obs, "None")
				c.Stats.Count(fmt.Sprintf("stuff_len_%s", sizeClass(len(l))))
			case "delete":
				t.Delete(n)
				obs = append(obs, "None")
			case "deleteReplace":
				t.DeleteReplace(n)
				obs = append(obs, "None")
			case "bump":
				if t.Bump(n) {
					obs = append(obs, "Some 1%N")
					c.Stats.Count("ev_bump_hit")
				} else {
					obs = append(obs, "Some 0%N")
				}
			case "delRepl":
				t.DeleteFromReplacement(n)
				obs = append(obs, "None")
			}
			return nil
		}()
		if panicked != nil {
			// a run-time panic inside a table operation: the table does not survive the sequence
			what := fmt.Sprintf("class=panic: %s%v panicked: %v", o.kind, o.idx, panicked)
			desc := g.describe(k + 1)
			desc["failed_after_op"] = k
			c.Stats.Fail(what, desc)
			c.Stats.Count("oracle_failure")
			c.Stats.Case(fmt.Sprintf("panic-%d", c.Stats.Evaluations), false)
			return
		}
		after := takeSnap(t)
		if after.count != before.count {
			changed = true
		}
		if o.kind == "deleteReplace" {
			d := bitDist(sp.sha, n.VerifSha())
			if len(after.rs[d]) < len(before.rs[d]) && len(after.es[d]) >= len(before.es[d]) && !hasID(before.rs[d], n.ID) {
				c.Stats.Count("ev_promotion_from_replacements")
			}
		}
		for d := range after.es {
			if len(after.es[d]) == maxEntries && len(before.es[d]) < maxEntries {
				c.Stats.Count("ev_bucket_became_full")
				everFull = true
			}
			if len(after.rs[d]) == maxEntries && len(before.rs[d]) == maxEntries && o.kind == "add" && after.count == before.count && !hasID(before.rs[d], n.ID) && hasID(after.rs[d], n.ID) {
				c.Stats.Count("ev_replacement_cache_overflow")
			}
		}
		if what := oracle(sp, after); what != "" && failed == "" {
			failed = what
			desc := g.describe(k + 1)
			desc["failed_after_op"] = k
			c.Stats.Fail(what+fmt.Sprintf(" (after operation %d: %s%v)", k, o.kind, o.idx), desc)
			c.Stats.Count("oracle_failure")
		}
	}
	final := takeSnap(t)
	// observed projection
	var bs []string
	for i := range final.es {
		if len(final.es[i]) == 0 && len(final.rs[i]) == 0 {
			continue
		}
		ids := func(l []*dht.Node) string {
			var s []string
			for _, e := range l {
				if e == nil {
					s = append(s, fmt.Sprint(1<<30))
					continue
				}
				s = append(s, fmt.Sprint(g.labelOf(e.ID)))
			}
			if len(s) == 0 {
				return "[]"
			}
			return "[" + strings.Join(s, "; ") + "]%N"
		}
		bs = append(bs, fmt.Sprintf("(%d%%N, (%s, %s))", i, ids(final.es[i]), ids(final.rs[i])))
	}
	observed := fmt.Sprintf("Some (%d%%Z, (%s, %s))", final.count, CoqList(bs), CoqList(obs))
	// model expression
	var ns []string
	for _, x := range g.nodes {
		ns = append(ns, fmt.Sprintf("(%d,%d,%d)", x.label, x.group, x.j))
	}
	var ops []string
	for _, o := range g.ops {
		switch o.kind {
		case "add":
			ops = append(ops, fmt.Sprintf("IAdd %d", o.idx[0]))
		case "delete":
			ops = append(ops, fmt.Sprintf("IDelete %d", o.idx[0]))
		case "deleteReplace":
			ops = append(ops, fmt.Sprintf("IDeleteReplace %d", o.idx[0]))
		case "bump":
			ops = append(ops, fmt.Sprintf("IBump %d", o.idx[0]))
		case "delRepl":
			ops = append(ops, fmt.Sprintf("IDelRepl %d", o.idx[0]))
		case "stuff":
			var l []string
			for _, i := range o.idx {
				l = append(l, fmt.Sprint(i))
			}
			ops = append(ops, "IStuff "+CoqList(l))
		}
	}
	model := fmt.Sprintf("rc %d %s%%N %s%%N", sp.k, CoqList(ns), CoqList(parens(ops)))
	id := c.Cases.Add(model, observed)
	c.Stats.Count("model_evaluated")
	h := sha256.Sum256([]byte(model))
	c.Stats.Case(hex.EncodeToString(h[:8]), changed && len(g.ops) >= 2)
	// distribution
	c.Stats.Count("case_" + g.kind)
	c.Stats.Count("ops_len_" + sizeClass(len(g.ops)))
	c.Stats.Count(fmt.Sprintf("buckets_%d", len(g.buckets)))
	c.Stats.Count("population_" + sizeClass(len(g.nodes)))
	if everFull {
		c.Stats.Count("case_some_bucket_full")
	}
	if !changed {
		c.Stats.Count("case_table_never_changed")
	}
	for _, d := range g.buckets {
		switch {
		case d == 0:
			c.Stats.Count("bucket_index_0")
		case d <= 8:
			c.Stats.Count("bucket_index_1_8")
		case d < lowestReal:
			c.Stats.Count("bucket_index_9_248")
		case d < 254:
			c.Stats.Count("bucket_index_249_253")
		default:
			c.Stats.Count("bucket_index_254_256")
		}
	}
	if failed != "" || id%(c.N(400, 4000)) == 7 {
		desc := g.describe(12)
		desc["final_count"] = final.count
		desc["ops_total"] = len(g.ops)
		if failed != "" {
			c.Stats.CaseIndex[fmt.Sprint(id)] = g.describe(len(g.ops))
		}
		c.Stats.Sample(desc)
	} else if id < 40 {
		c.Stats.CaseIndex[fmt.Sprint(id)] = map[string]interface{}{"self_id": hex.EncodeToString(sp.id[:]), "ops_total": len(g.ops), "population": len(g.nodes), "kind": g.kind}
	}
}

func parens(l []string) []string {
	out := make([]string, len(l))
	for i, s := range l {
		if strings.Contains(s, " ") {
			out[i] = "(" + s + ")"
		} else {
			out[i] = s
		}
	}
	return out
}

func sizeClass(n int) string {
	switch {
	case n == 0:
		return "0"
	case n <= 3:
		return "1_3"
	case n <= 12:
		return "4_12"
	case n <= 30:
		return "13_30"
	case n <= 90:
		return "31_90"
	default:
		return "91_up"
	}
}

// fixed boundary cases that always run first (independent of the seed except for ids)
func fixedCases(c *Ctx, sp *selfPool) []*genCase {
	var out []*genCase
	mk := func(d int, n int) *genCase {
		g := &genCase{sp: sp, byBkt: map[int][]int{}, buckets: []int{d}, kind: "fixed"}
		for k := 0; k < n; k++ {
			var nd *dht.Node
			grp, j := 0, 0
			if d >= lowestReal {
				nd = dht.VerifNode(sp.pools[d][k])
				grp, j = sp.realGrp[d], k
			} else {
				var h common.Hash
				h, grp, j = sp.forgedAt(c.Rng, d)
				nd = dht.VerifNodeWithSha(randID(c.Rng), h)
			}
			kind := "real"
			if d < lowestReal {
				kind = "forged"
			}
			g.nodes = append(g.nodes, nodeSpec{nd, kind, k + 1, grp, j})
			g.byBkt[d] = append(g.byBkt[d], k)
		}
		g.hot = []int{0}
		return g
	}
	seq := func(kind string, from, to int) []opSpec {
		var l []opSpec
		for i := from; i < to; i++ {
			l = append(l, opSpec{kind, []int{i}})
		}
		return l
	}
	for _, d := range []int{256, 255, 249, 8, 1, 0} {
		// park-and-promote: fill, park X, free a slot, re-add X, replace another entry
		g := mk(d, 19)
		g.ops = append(seq("add", 0, 16), opSpec{"add", []int{16}}, opSpec{"delete", []int{3}}, opSpec{"add", []int{16}}, opSpec{"deleteReplace", []int{5}},
			opSpec{"deleteReplace", []int{6}}, opSpec{"bump", []int{9}})
		out = append(out, g)
		// the same through stuff
		g = mk(d, 19)
		g.ops = append(seq("add", 0, 16), opSpec{"add", []int{17}}, opSpec{"add", []int{16}}, opSpec{"delete", []int{2}}, opSpec{"stuff", []int{16, 16, 2}}, opSpec{"deleteReplace", []int{7}},
			opSpec{"deleteReplace", []int{8}}, opSpec{"delRepl", []int{17}}, opSpec{"deleteReplace", []int{9}})
		out = append(out, g)
		// replacement cache overflow: 16 entries + 18 parked
		if d == 256 || d < lowestReal {
			g = mk(d, 36)
			g.ops = append(seq("add", 0, 36), opSpec{"add", []int{20}}, opSpec{"deleteReplace", []int{0}}, opSpec{"deleteReplace", []int{35}}, opSpec{"delete", []int{1}}, opSpec{"add", []int{25}}, opSpec{"deleteReplace", []int{2}})
			out = append(out, g)
		}
	}
	return out
}

func runC34(c *Ctx) error {
	if dht.VerifBucketSize != maxEntries {
		c.Stats.Fail(fmt.Sprintf("class=bucket-size-constant: bucketSize is %d, the property allows %d entries per bucket", dht.VerifBucketSize, maxEntries), map[string]interface{}{"bucketSize": dht.VerifBucketSize})
	}
	if dht.VerifNBuckets != 257 {
		return fmt.Errorf("nBuckets is %d, the model has 257", dht.VerifNBuckets)
	}
	nself := c.N(3, 6)
	var selfs []*selfPool
	for i := 0; i < nself; i++ {
		selfs = append(selfs, buildSelfPool(c.Rng, i))
	}
	for _, g := range fixedCases(c, selfs[0]) {
		runCase(c, g)
	}
	n := c.N(1200, 6000)
	for i := 0; i < n; i++ {
		sp := selfs[c.Rng.Intn(len(selfs))]
		g := genPopulation(c.Rng, sp, c)
		genOps(c.Rng, g, c)
		runCase(c, g)
	}
	c.Stats.Rule = "a case is a local node, a population of at most ~45 nodes whose hashes collide in 1-3 buckets (real ids with sha3 in buckets 249..256, or forged hashes in boundary buckets 0,1,2,7,8,9,...,255,256; plus the local node itself, the local id under a forged hash, a foreign id under the local hash, and twins sharing an id), and a sequence of 1..290 add/stuff/delete/deleteReplace/bump/deleteFromReplacement calls (fill phase, then weighted churn with a hot set); distinct = distinct (population, sequence); non-trivial = at least two operations and the recorded count changed; after every operation the implementation's buckets are checked against the property (<=16 entries, distinct ids, right log-distance via math/big, local id absent, count = number of entries); the final projection (count, ordered entry/replacement ids per bucket, per-operation results) is compared with the Coq model"
	// the distance hashes of all pools, once per case file
	var ps []string
	for _, sp := range selfs {
		var gs []string
		for _, grp := range sp.groups {
			var hs []string
			for _, h := range grp {
				hs = append(hs, "0x"+hex.EncodeToString(h[:]))
			}
			gs = append(gs, CoqList(hs))
		}
		ps = append(ps, CoqList(gs))
	}
	header := "From Coq Require Import ZArith NArith List Bool.\nFrom C34 Require Import Model Run.\nImport ListNotations.\n" +
		"Definition pools : pool := Eval vm_compute in mkpools (" + strings.Join(ps, " ::\n ") + " :: nil)%N.\n" +
		"Definition rc := run_case_pool pools.\n"
	c.Cases.Shard = c.N(260, 500)
	if err := c.Cases.Write(c.Out, header, "cres", "cres_eqb"); err != nil {
		return err
	}
	netStage(c)
	return nil
}
