package main

// C32 — encrypted peer connections deliver the exact byte stream
// (/repo/p2p/connection/secret_connection.go).
//
// Three case families, all driven by c.Rng:
//
//  stream     two real SecretConnections over an in-memory duplex (either built by
//             the real handshake MakeSecretConnection on both ends, or by the hook
//             constructor with chosen nonces incl. carry/wrap-around tails); a random
//             interleaving of Write (sizes 0..3100, around the 1024 frame boundary) and
//             Read (buffer sizes 0..3000, mostly smaller than a frame) in both
//             directions; optionally the network xors one byte of one in-flight sealed
//             frame.  Each direction is one model case.
//  nonce      incr2Nonce on boundary nonces.
//  handshake  the real MakeSecretConnection against a hand-written peer that is honest
//             or misbehaves (bad signature, signature over another challenge, other
//             key, key of wrong length, split / padded / truncated / corrupted /
//             mis-nonced auth frame, reflection of our own messages, ...).
//
// Direct oracle (implementation outputs only):
//   * every Read returns 0 <= n <= len(buf), and n = 0 with an error;
//   * the concatenation of data[:n] over the reads of a direction equals the bytes
//     written so far, cut at the number delivered (a prefix: nothing lost, duplicated
//     or reordered); a Read with a non-empty buffer returns at least one byte whenever
//     written bytes are outstanding, and "would block" only when none are; after the
//     final drain everything written has been delivered;
//   * after a one-byte corruption of an in-flight frame no byte of that frame or a later
//     one is ever delivered, every earlier byte is, and the Read that reaches the frame
//     returns an error;
//   * handshake: success iff the peer presented a key together with a valid signature by
//     that key over the shared challenge; RemotePubKey() is that key; the honest peer
//     decrypts our authentication frame and finds our key with a valid signature; both
//     ends of a real/real handshake hold the same secret and crossed nonces.
//
// Correspondence: per operation (n, class, data[:n], nonce after, buffered length after,
// bytes put on the wire) against the Coq model C32.Run (AEAD instantiated by a toy
// authenticated box: the observables do not include ciphertext).

import (
	"bytes"
	"crypto/ed25519"
	"crypto/sha256"
	"errors"
	"fmt"
	"io"
	"strings"
	"sync"
	"time"

	"github.com/bytom/bytom/crypto/ed25519/chainkd"
	"github.com/bytom/bytom/p2p/connection"
	"golang.org/x/crypto/nacl/box"
	"golang.org/x/crypto/nacl/secretbox"
	"golang.org/x/crypto/ripemd160"

	. "verifharness/hlib"
)

func main() { Main("C32", runC32, nil) }

const (
	dataMax    = connection.VerifDataMaxSize
	frameSize  = connection.VerifTotalFrameSize
	sealedSize = connection.VerifSealedFrameSize
)

// ---------------------------------------------------------------- in-memory duplex

var errWouldBlock = errors.New("verif: would block")

type queue struct {
	mu       sync.Mutex
	cond     *sync.Cond
	buf      []byte
	closed   bool
	nonblock bool
	total    int // bytes ever written
	taken    int // bytes ever read
	maxRead  int // > 0: a Read hands over at most this many bytes (a transport that fragments frames)
}

func newQueue() *queue { q := &queue{}; q.cond = sync.NewCond(&q.mu); return q }

func (q *queue) Write(p []byte) (int, error) {
	q.mu.Lock()
	defer q.mu.Unlock()
	if q.closed {
		return 0, io.ErrClosedPipe
	}
	if len(q.buf) > 48<<20 {
		return 0, errors.New("harness transport: more than 48 MiB queued and unread")
	}
	q.buf = append(q.buf, p...)
	q.total += len(p)
	q.cond.Broadcast()
	return len(p), nil
}

func (q *queue) Read(p []byte) (int, error) {
	q.mu.Lock()
	defer q.mu.Unlock()
	for len(q.buf) == 0 {
		if q.closed {
			return 0, io.EOF
		}
		if q.nonblock {
			return 0, errWouldBlock
		}
		q.cond.Wait()
	}
	if q.maxRead > 0 && len(p) > q.maxRead {
		p = p[:q.maxRead]
	}
	n := copy(p, q.buf)
	q.buf = q.buf[n:]
	q.taken += n
	return n, nil
}

func (q *queue) Close() {
	q.mu.Lock()
	q.closed = true
	q.cond.Broadcast()
	q.mu.Unlock()
}

func (q *queue) setNonblock(b bool) {
	q.mu.Lock()
	q.nonblock = b
	q.total, q.taken = len(q.buf), 0
	q.mu.Unlock()
}
func (q *queue) pending() int { q.mu.Lock(); defer q.mu.Unlock(); return len(q.buf) }
func (q *queue) xor(off int, m byte) {
	q.mu.Lock()
	q.buf[off] ^= m
	q.mu.Unlock()
}

type end struct{ in, out *queue }

func (e end) Read(p []byte) (int, error)  { return e.in.Read(p) }
func (e end) Write(p []byte) (int, error) { return e.out.Write(p) }
func (e end) Close() error                { e.in.Close(); e.out.Close(); return nil }

func duplex() (a, b end, ab, ba *queue) {
	ab, ba = newQueue(), newQueue()
	return end{in: ba, out: ab}, end{in: ab, out: ba}, ab, ba
}

// ---------------------------------------------------------------- helpers

type rngReader struct{ r *Rng }

func (x rngReader) Read(p []byte) (int, error) {
	for i := range p {
		p[i] = byte(x.r.Next())
	}
	return len(p), nil
}

func hb(b []byte) string {
	if len(b) == 0 {
		return "(HB 0 0)"
	}
	return fmt.Sprintf("(HB %d 0x%x)", len(b), b)
}

func row(cls, n, aux int, data, nonce []byte) string {
	return fmt.Sprintf("(%d, %d, %d, %s, %s)%%N", cls, n, aux, hb(data), hb(nonce))
}

// byte p of the pattern stream of a direction
func pat(seed, p int) byte { return byte(p*7 + (p/256)*13 + seed) }
func patBytes(seed, p0, n int) []byte {
	b := make([]byte, n)
	for i := range b {
		b[i] = pat(seed, p0+i)
	}
	return b
}

func pick(r *Rng, xs ...int) int { return xs[r.Intn(len(xs))] }

func writeSize(r *Rng) int {
	switch r.Intn(10) {
	case 0:
		return pick(r, 0, 1, 1, 2)
	case 1, 2:
		return 1 + r.Intn(40)
	case 3, 4:
		return 50 + r.Intn(400)
	case 5, 6:
		return pick(r, dataMax-1, dataMax, dataMax+1, 2*dataMax-1, 2*dataMax, 2*dataMax+1, 3*dataMax)
	case 7:
		return 900 + r.Intn(300)
	default:
		return 1 + r.Intn(3100)
	}
}

func readSize(r *Rng) int {
	switch r.Intn(12) {
	case 0:
		return pick(r, 0, 1, 1, 1)
	case 1, 2, 3:
		return 1 + r.Intn(16)
	case 4, 5, 6:
		return 10 + r.Intn(500)
	case 7:
		return pick(r, dataMax-1, dataMax, dataMax+1)
	case 8, 9:
		return 500 + r.Intn(700)
	default:
		return 1 + r.Intn(3000)
	}
}

func sizeBucket(n int) string {
	switch {
	case n == 0:
		return "0"
	case n == 1:
		return "1"
	case n < 64:
		return "2-63"
	case n < dataMax:
		return "64-1023"
	case n == dataMax:
		return "1024"
	case n <= 2*dataMax:
		return "1025-2048"
	default:
		return ">2048"
	}
}

func boundaryNonce(r *Rng) [24]byte {
	var n [24]byte
	copy(n[:], r.Bytes(24))
	switch r.Intn(8) {
	case 0: // all ff: wraps to zero
		for i := range n {
			n[i] = 0xff
		}
		if r.Bool() {
			n[23] = 0xfe
		}
	case 1, 2: // a tail of ff bytes: carries
		k := 1 + r.Intn(23)
		for i := 24 - k; i < 24; i++ {
			n[i] = 0xff
		}
		if r.Bool() {
			n[23] = 0xfe
		}
	case 3:
		n[23] = byte(0xfc + r.Intn(4))
	case 4:
		n = [24]byte{}
	}
	return n
}

// ---------------------------------------------------------------- stream cases

type direction struct {
	name       string
	tx, rx     *connection.SecretConnection
	q          *queue
	seed       int
	key        [32]byte
	nonce0     [24]byte
	written    []byte
	got        []byte
	frameOff   []int // stream offset of the data carried by each frame ever written
	ops        []string
	rows       []string
	descr      []string
	tampered   bool
	limit      int // stream offset of the corrupted frame
	tamperedAt int // absolute frame index
	sawErr     bool
	bad        []string
}

func (d *direction) fail(f string, a ...interface{}) { d.bad = append(d.bad, fmt.Sprintf(f, a...)) }

func (d *direction) write(c *Ctx, n int) {
	data := patBytes(d.seed, len(d.written), n)
	before := d.q.total
	var wn int
	var err error
	wdone := make(chan struct{})
	go func() {
		wn, err = d.tx.Write(data)
		close(wdone)
	}()
	select {
	case <-wdone:
	case <-time.After(30 * time.Second):
		d.fail("class=write-hang: Write(%d bytes) did not return within 30 s", n)
		d.q.Close() // makes the transport refuse further frames so that the writer ends
		<-wdone
	}
	grew := d.q.total - before
	c.Stats.Count("write-size:" + sizeBucket(n))
	if err != nil || wn != n {
		d.fail("class=write-result: Write(%d bytes) returned n=%d err=%v", n, wn, err)
	}
	// frames of this write: chunks of at most dataMaxSize, in order
	for off := 0; off < n; off += dataMax {
		d.frameOff = append(d.frameOff, len(d.written)+off)
	}
	if grew != sealedSize*((n+dataMax-1)/dataMax) {
		d.fail("class=write-wire: Write(%d bytes) put %d bytes on the wire", n, grew)
	}
	d.ops = append(d.ops, fmt.Sprintf("SW %d %d %d", d.seed, len(d.written), n))
	d.written = append(d.written, data...)
	_, sn, _, _ := d.tx.VerifState()
	d.rows = append(d.rows, row(0, wn, grew, nil, sn[:]))
	d.descr = append(d.descr, fmt.Sprintf("W%d", n))
}

func (d *direction) read(c *Ctx, size int) (cls int) {
	buf := make([]byte, size)
	for i := range buf {
		buf[i] = 0xAA
	}
	outstanding := len(d.written) - len(d.got)
	framesTakenBefore := d.q.taken / sealedSize
	n, err := d.rx.Read(buf)
	c.Stats.Count("read-size:" + sizeBucket(size))
	switch {
	case err == nil:
		cls = 0
	case errors.Is(err, errWouldBlock):
		cls = 1
	default:
		cls = 2
	}
	c.Stats.Count([]string{"read:data", "read:would-block", "read:error"}[cls])
	if n < 0 || n > size {
		d.fail("class=read-n-range: Read(buf %d) returned n=%d", size, n)
		n = 0
	}
	if err != nil && n != 0 {
		d.fail("class=read-n-with-error: Read(buf %d) returned n=%d together with err=%v", size, n, err)
	}
	d.got = append(d.got, buf[:n]...)
	// nothing lost, duplicated or reordered: what was delivered is the written stream so far
	if len(d.got) > len(d.written) || !bytes.Equal(d.got, d.written[:len(d.got)]) {
		d.fail("class=stream-mismatch: after %s Read(buf %d) -> n=%d the delivered bytes (%d) are not a prefix of the written bytes (%d)",
			strings.Join(d.descr, " "), size, n, len(d.got), len(d.written))
	}
	if !d.tampered {
		switch {
		case cls == 2:
			d.fail("class=read-error-untampered: after %s Read(buf %d) failed: %v", strings.Join(d.descr, " "), size, err)
		case outstanding > 0 && size > 0 && (cls != 0 || n == 0):
			d.fail("class=lost-bytes: after %s Read(buf %d) returned n=%d err=%v with %d written bytes outstanding (the bytes copied into the buffer are not reported)",
				strings.Join(d.descr, " "), size, n, err, outstanding)
		case outstanding == 0 && cls != 1:
			d.fail("class=phantom-read: Read(buf %d) returned n=%d err=%v with nothing outstanding", size, n, err)
		}
	} else {
		if cls == 2 {
			d.sawErr = true
		}
		if len(d.got) > d.limit {
			d.fail("class=tamper-undetected: %d bytes delivered although the frame carrying stream offset %d was corrupted in transit", len(d.got), d.limit)
		}
		framesTakenAfter := d.q.taken / sealedSize
		if framesTakenBefore <= d.tamperedAt && d.tamperedAt < framesTakenAfter && cls != 2 {
			d.fail("class=tamper-undetected: the Read that consumed the corrupted frame %d returned n=%d err=%v", d.tamperedAt, n, err)
		}
	}
	rn, _, _, buffered := d.rx.VerifState()
	d.ops = append(d.ops, fmt.Sprintf("SR %d", size))
	d.rows = append(d.rows, row(1+cls, n, len(buffered), buf[:n], rn[:]))
	d.descr = append(d.descr, fmt.Sprintf("R%d", size))
	return cls
}

func (d *direction) tamper(c *Ctx) bool {
	frames := d.q.pending() / sealedSize
	if frames == 0 || d.tampered {
		return false
	}
	idx := c.Rng.Intn(frames)
	var off int
	switch c.Rng.Intn(5) {
	case 0:
		off = c.Rng.Intn(secretbox.Overhead) // the authenticator
	case 1:
		off = secretbox.Overhead + c.Rng.Intn(2) // the length field
	case 2:
		off = sealedSize - 1 - c.Rng.Intn(4) // padding tail
	default:
		off = c.Rng.Intn(sealedSize)
	}
	mask := byte(1 << uint(c.Rng.Intn(8)))
	if c.Rng.Chance(30) {
		mask = byte(1 + c.Rng.Intn(255))
	}
	abs := idx*sealedSize + off
	d.q.xor(abs, mask)
	d.tampered = true
	d.tamperedAt = d.q.taken/sealedSize + idx
	d.limit = d.frameOff[d.tamperedAt]
	d.ops = append(d.ops, fmt.Sprintf("ST %d %d", abs, mask))
	d.rows = append(d.rows, row(4, 0, 0, nil, nil))
	d.descr = append(d.descr, fmt.Sprintf("T(frame %d, byte %d, xor %#x)", d.tamperedAt, off, mask))
	switch {
	case off < secretbox.Overhead:
		c.Stats.Count("tamper:authenticator")
	case off < secretbox.Overhead+2:
		c.Stats.Count("tamper:length-field")
	default:
		c.Stats.Count("tamper:body")
	}
	return true
}

func (d *direction) drain(c *Ctx) {
	for i := 0; i < 60; i++ {
		if d.tampered && d.sawErr {
			break
		}
		if !d.tampered && len(d.got) == len(d.written) {
			break
		}
		size := readSize(c.Rng)
		if size == 0 || i > 40 {
			size = 3000
		}
		if d.read(c, size) == 1 {
			break
		}
	}
	if !d.tampered {
		if len(d.got) != len(d.written) {
			d.fail("class=lost-bytes: after %s and the final drain only %d of %d written bytes were delivered", strings.Join(d.descr, " "), len(d.got), len(d.written))
		} else {
			d.read(c, 1+c.Rng.Intn(100)) // nothing outstanding: must report would-block
		}
	} else {
		if !d.sawErr {
			d.fail("class=tamper-undetected: frame %d corrupted in transit, drain ended without any Read error", d.tamperedAt)
		}
		if len(d.got) != d.limit {
			d.fail("class=tamper-prefix: corrupted frame starts at stream offset %d but %d bytes were delivered before the error", d.limit, len(d.got))
		}
	}
}

func establishReal(c *Ctx) (a, b *connection.SecretConnection, ab, ba *queue, privA, privB chainkd.XPrv, err error) {
	ea, eb, ab, ba := duplex()
	privA, _ = chainkd.NewXPrv(rngReader{c.Rng})
	privB, _ = chainkd.NewXPrv(rngReader{c.Rng})
	var wg sync.WaitGroup
	var errA, errB error
	wg.Add(2)
	go func() { defer wg.Done(); a, errA = connection.MakeSecretConnection(ea, privA) }()
	go func() { defer wg.Done(); b, errB = connection.MakeSecretConnection(eb, privB) }()
	done := make(chan struct{})
	go func() { wg.Wait(); close(done) }()
	select {
	case <-done:
	case <-time.After(60 * time.Second):
		ab.Close()
		ba.Close()
		<-done
		return nil, nil, nil, nil, privA, privB, errors.New("handshake hung for 60 s")
	}
	if errA != nil {
		return nil, nil, nil, nil, privA, privB, errA
	}
	if errB != nil {
		return nil, nil, nil, nil, privA, privB, errB
	}
	return a, b, ab, ba, privA, privB, nil
}

// bigWriteCase: one Write call of 64 KiB and more (MConnection flushes a full 64 KiB buffer at
// once) must return and deliver exactly those bytes, whatever way the transport fragments them.
// Oracle only (the frame-level model cases stay small).
func bigWriteCase(c *Ctx, n int) {
	ea, eb, qab, qba := duplex()
	var k [32]byte
	copy(k[:], c.Rng.Bytes(32))
	n1, n2 := boundaryNonce(c.Rng), boundaryNonce(c.Rng)
	a := connection.VerifNewSecretConnection(ea, k, n1, n2)
	b := connection.VerifNewSecretConnection(eb, k, n2, n1)
	if c.Rng.Bool() {
		qab.maxRead = pick(c.Rng, 1, 7, 512, 1041)
	}
	data := c.Rng.Bytes(n)
	desc := map[string]interface{}{"family": "big-write", "bytes": n, "transport_read_cap": qab.maxRead}
	var wn int
	var werr error
	wdone := make(chan struct{})
	go func() {
		wn, werr = a.Write(data)
		close(wdone)
	}()
	got := make([]byte, n)
	rdone := make(chan error, 1)
	go func() {
		_, err := io.ReadFull(b, got)
		rdone <- err
	}()
	timeout := time.After(40 * time.Second)
	select {
	case <-wdone:
	case <-timeout:
		c.Stats.Fail(fmt.Sprintf("class=write-hang: one Write of %d bytes did not return within 40 s", n), desc)
		qab.Close()
		qba.Close()
		<-wdone
		return
	}
	if werr != nil || wn != n {
		c.Stats.Fail(fmt.Sprintf("class=write-result: Write(%d bytes) returned n=%d err=%v", n, wn, werr), desc)
	}
	select {
	case err := <-rdone:
		if err != nil {
			c.Stats.Fail(fmt.Sprintf("class=lost-bytes: reading back a single write of %d bytes fails: %v", n, err), desc)
		} else if !bytes.Equal(got, data) {
			c.Stats.Fail(fmt.Sprintf("class=stream-differs: a single write of %d bytes is delivered with different content", n), desc)
		}
	case <-time.After(40 * time.Second):
		c.Stats.Fail(fmt.Sprintf("class=lost-bytes: a single write of %d bytes is not delivered completely within 40 s", n), desc)
		qab.Close()
		qba.Close()
	}
	c.Stats.Count("big-write-case")
	a.Close()
}

func streamCase(c *Ctx, idx int) {
	var a, b *connection.SecretConnection
	var ab, ba *queue
	how := "hook"
	if c.Rng.Chance(25) {
		how = "handshake"
		var privA, privB chainkd.XPrv
		var err error
		a, b, ab, ba, privA, privB, err = establishReal(c)
		if err != nil {
			c.Stats.Fail("class=handshake-honest-failed: two honest ends: "+err.Error(), map[string]interface{}{"case": idx})
			return
		}
		// each side learns the key the other side authenticated with
		if !bytes.Equal(a.RemotePubKey(), privB.XPub().PublicKey()) || !bytes.Equal(b.RemotePubKey(), privA.XPub().PublicKey()) {
			c.Stats.Fail("class=remote-key: RemotePubKey differs from the peer's key after an honest handshake", map[string]interface{}{"case": idx})
		}
		ra, sa, ka, bufA := a.VerifState()
		rb, sb, kb, bufB := b.VerifState()
		if ra != sb || rb != sa || ka != kb || ra == sa || len(bufA) != 0 || len(bufB) != 0 {
			c.Stats.Fail("class=handshake-state: nonces not crossed / secrets differ / directions share a nonce / bytes left buffered after an honest handshake",
				map[string]interface{}{"case": idx, "recvA": hexs(ra[:]), "sendA": hexs(sa[:]), "recvB": hexs(rb[:]), "sendB": hexs(sb[:])})
		}
	} else {
		ea, eb, qab, qba := duplex()
		ab, ba = qab, qba
		var k [32]byte
		copy(k[:], c.Rng.Bytes(32))
		n1, n2 := boundaryNonce(c.Rng), boundaryNonce(c.Rng)
		a = connection.VerifNewSecretConnection(ea, k, n1, n2)
		b = connection.VerifNewSecretConnection(eb, k, n2, n1)
	}
	c.Stats.Count("stream-established-by:" + how)
	ab.setNonblock(true)
	ba.setNonblock(true)
	// the transport may hand a sealed frame over in pieces (TCP segmentation): the delivered stream
	// must not depend on it
	if c.Rng.Chance(45) {
		m := pick(c.Rng, 1, 7, 512, 1041, 1+c.Rng.Intn(1100))
		ab.mu.Lock()
		ab.maxRead = m
		ab.mu.Unlock()
		ba.mu.Lock()
		ba.maxRead = m
		ba.mu.Unlock()
		c.Stats.Count("transport:fragmenting-reads")
	}
	mk := func(name string, tx, rx *connection.SecretConnection, q *queue) *direction {
		d := &direction{name: name, tx: tx, rx: rx, q: q, seed: c.Rng.Intn(256)}
		_, sn, k, _ := tx.VerifState()
		d.key, d.nonce0 = k, sn
		return d
	}
	dirs := []*direction{mk("A->B", a, b, ab), mk("B->A", b, a, ba)}
	nops := 3 + c.Rng.Intn(14)
	wantTamper := c.Rng.Chance(35)
	broken := func() bool { return len(dirs[0].bad)+len(dirs[1].bad) > 0 }
	for i := 0; i < nops && !broken(); i++ {
		d := dirs[c.Rng.Intn(2)]
		switch {
		case wantTamper && c.Rng.Chance(25) && d.tamper(c):
			wantTamper = false
		case c.Rng.Chance(40) && len(d.written) < 6000:
			d.write(c, writeSize(c.Rng))
		default:
			d.read(c, readSize(c.Rng))
		}
	}
	for _, d := range dirs {
		if broken() {
			break // the harness's own frame bookkeeping no longer matches the wire: report, do not go on
		}
		if wantTamper && d.tamper(c) {
			wantTamper = false
		}
		d.drain(c)
	}
	for _, d := range dirs {
		if len(d.ops) == 0 {
			continue
		}
		model := fmt.Sprintf("run_stream %s %s [%s]", hb(d.key[:]), hb(d.nonce0[:]), strings.Join(d.ops, "; "))
		id := c.Cases.Add(model, CoqList(d.rows))
		descr := map[string]interface{}{"family": "stream", "established": how, "direction": d.name, "ops": strings.Join(d.descr, " "),
			"nonce0": hexs(d.nonce0[:]), "pattern_seed": d.seed}
		c.Stats.CaseIndex[fmt.Sprint(id)] = descr
		c.Stats.Count("model_evaluated")
		c.Stats.Case(fmt.Sprintf("stream/%s/%d/%s", strings.Join(d.descr, " "), d.seed, hexs(d.nonce0[:])), len(d.written) > 0)
		c.Stats.Sample(descr)
		if d.tampered {
			c.Stats.Count("direction:tampered")
		} else {
			c.Stats.Count("direction:clean")
		}
		for _, w := range d.bad {
			c.Stats.Fail(w, descr)
		}
	}
	a.Close()
}

func hexs(b []byte) string { return fmt.Sprintf("%x", b) }

// ---------------------------------------------------------------- nonce cases

func nonceCase(c *Ctx) {
	n := boundaryNonce(c.Rng)
	m := connection.VerifIncr2Nonce(n)
	// direct oracle: big-endian value + 2 modulo 2^192
	exp := n
	for k := 0; k < 2; k++ {
		for i := 23; i >= 0; i-- {
			exp[i]++
			if exp[i] != 0 {
				break
			}
		}
	}
	if exp != m {
		c.Stats.Fail("class=nonce-incr: incr2Nonce is not +2 modulo 2^192", map[string]interface{}{"nonce": hexs(n[:]), "got": hexs(m[:])})
	}
	id := c.Cases.Add("run_incr2 "+hb(n[:]), CoqList([]string{row(0, 0, 0, nil, m[:])}))
	c.Stats.CaseIndex[fmt.Sprint(id)] = map[string]interface{}{"family": "nonce", "nonce": hexs(n[:])}
	c.Stats.Count("model_evaluated")
	c.Stats.Count("family:nonce")
	c.Stats.Case("nonce/"+hexs(n[:]), true)
}

// ---------------------------------------------------------------- handshake cases

func be16(n int) []byte { return []byte{byte(n >> 8), byte(n)} }

func encSlice(b []byte) []byte { // go-wire byte slice: size-of-length, length big-endian, bytes
	n := len(b)
	var l []byte
	for x := n; x > 0; x >>= 8 {
		l = append([]byte{byte(x)}, l...)
	}
	return append(append([]byte{byte(len(l))}, l...), b...)
}

type peerFrame struct {
	key    [32]byte
	nonce  [24]byte
	lenFld int
	chunk  []byte
}

func (f peerFrame) plain() []byte {
	p := make([]byte, frameSize)
	copy(p, be16(f.lenFld))
	copy(p[2:], f.chunk)
	return p
}

func handshakeCase(c *Ctx, idx int) {
	r := c.Rng
	ea, eb, ab, ba := duplex()
	privA, _ := chainkd.NewXPrv(rngReader{r})
	privP, _ := chainkd.NewXPrv(rngReader{r})
	privQ, _ := chainkd.NewXPrv(rngReader{r})
	pubA := []byte(privA.XPub().PublicKey())

	variants := []string{"honest", "honest", "honest", "bad-signature", "signature-by-other-key", "other-identity-valid",
		"signature-over-swapped-challenge", "key-length-31", "key-length-33", "split-auth", "extra-data-after-auth",
		"wrong-nonce-plus1", "wrong-nonce-own-recv", "wrong-key", "corrupted-frame", "chunk-length-too-big",
		"empty-frame-first", "truncated-auth", "prefix-byte-mutated", "reflection", "short-signature", "sig-length-63"}
	variant := variants[r.Intn(len(variants))]
	c.Stats.Count("handshake-peer:" + variant)

	type resA struct {
		sc  *connection.SecretConnection
		err error
		pnk interface{}
	}
	chA := make(chan resA, 1)
	go func() {
		var res resA
		defer func() {
			if p := recover(); p != nil {
				res.pnk = p
			}
			chA <- res
		}()
		res.sc, res.err = connection.MakeSecretConnection(ea, privA)
	}()

	// ---- the peer, by hand
	var ephPubP, ephPrivP *[32]byte
	ephPubP, ephPrivP, _ = box.GenerateKey(rngReader{r})
	var ephPubA [32]byte
	sentEph := *ephPubP
	if variant == "reflection" {
		// wait for A's key and echo it
		if _, err := io.ReadFull(eb, ephPubA[:]); err != nil {
			c.Stats.Fail("class=harness: "+err.Error(), nil)
			return
		}
		sentEph = ephPubA
		eb.Write(sentEph[:])
	} else {
		eb.Write(sentEph[:])
		if _, err := io.ReadFull(eb, ephPubA[:]); err != nil {
			c.Stats.Fail("class=harness: "+err.Error(), nil)
			return
		}
	}
	var shared [32]byte
	box.Precompute(&shared, &ephPubA, ephPrivP)
	lo, hi := ephPubA, sentEph
	aIsLo := bytes.Compare(ephPubA[:], sentEph[:]) < 0
	if !aIsLo {
		lo, hi = sentEph, ephPubA
	}
	rh := ripemd160.New()
	rh.Write(lo[:])
	rh.Write(hi[:])
	h24 := rh.Sum(nil)
	var nonce1, nonce2 [24]byte
	copy(nonce1[:], h24)
	nonce2 = nonce1
	nonce2[23] ^= 1
	// low side: recv nonce1, send nonce2
	aRecv, aSend := nonce2, nonce1
	if aIsLo {
		aRecv, aSend = nonce1, nonce2
	}
	pSend, pRecv := aRecv, aSend
	ch := sha256.Sum256(append(append([]byte{}, lo[:]...), hi[:]...))
	challenge := ch[:]

	key := []byte(privP.XPub().PublicKey())
	sig := privP.Sign(challenge)
	frames := []peerFrame{}
	one := func(chunk []byte) peerFrame { return peerFrame{shared, pSend, len(chunk), chunk} }
	auth := func() []byte { return append(encSlice(key), encSlice(sig)...) }
	corruptAt, corruptMask := -1, byte(0)
	next := func(n [24]byte) [24]byte { return connection.VerifIncr2Nonce(n) }
	switch variant {
	case "honest":
		frames = append(frames, one(auth()))
	case "bad-signature":
		sig[r.Intn(len(sig))] ^= byte(1 << uint(r.Intn(8)))
		frames = append(frames, one(auth()))
	case "signature-by-other-key":
		sig = privQ.Sign(challenge)
		frames = append(frames, one(auth()))
	case "other-identity-valid":
		key, sig = []byte(privQ.XPub().PublicKey()), privQ.Sign(challenge)
		frames = append(frames, one(auth()))
	case "signature-over-swapped-challenge":
		sw := sha256.Sum256(append(append([]byte{}, hi[:]...), lo[:]...))
		sig = privP.Sign(sw[:])
		frames = append(frames, one(auth()))
	case "key-length-31":
		key = key[:31]
		sig = append(sig, 0)
		frames = append(frames, one(auth()))
	case "key-length-33":
		key = append(key, 0)
		sig = sig[:63]
		frames = append(frames, one(auth()))
	case "short-signature":
		sig = sig[:r.Intn(64)]
		a := auth()
		a = append(a, make([]byte, 100-len(a))...)
		frames = append(frames, one(a))
	case "sig-length-63":
		sig = sig[:63]
		a := append(auth(), 0)
		frames = append(frames, one(a))
	case "split-auth":
		a := auth()
		k := 1 + r.Intn(len(a)-1)
		f1 := one(a[:k])
		f2 := one(a[k:])
		f2.nonce = next(pSend)
		frames = append(frames, f1, f2)
	case "extra-data-after-auth":
		a := append(auth(), r.Bytes(1+r.Intn(50))...)
		frames = append(frames, one(a))
	case "wrong-nonce-plus1":
		f := one(auth())
		f.nonce[23] ^= 2
		frames = append(frames, f)
	case "wrong-nonce-own-recv":
		f := one(auth())
		f.nonce = pRecv
		frames = append(frames, f)
	case "wrong-key":
		f := one(auth())
		f.key[r.Intn(32)]++
		frames = append(frames, f)
	case "corrupted-frame":
		frames = append(frames, one(auth()))
		corruptAt, corruptMask = r.Intn(sealedSize), byte(1<<uint(r.Intn(8)))
	case "chunk-length-too-big":
		f := one(auth())
		f.lenFld = dataMax + 1 + r.Intn(60000)
		frames = append(frames, f)
	case "empty-frame-first":
		f1 := one(nil)
		f2 := one(auth())
		f2.nonce = next(pSend)
		frames = append(frames, f1, f2)
	case "truncated-auth":
		a := auth()
		frames = append(frames, one(a[:1+r.Intn(len(a)-1)]))
	case "prefix-byte-mutated":
		a := auth()
		pos := pick(r, 0, 1, 34, 35)
		a[pos] = byte(r.Intn(256))
		frames = append(frames, one(a))
	case "reflection":
		// send A's own authentication frame back to it
		own := make([]byte, sealedSize)
		if _, err := io.ReadFull(eb, own); err != nil {
			c.Stats.Fail("class=harness: "+err.Error(), nil)
			return
		}
		eb.Write(own)
		// for the model: a frame sealed under A's key with A's *send* nonce
		sigA := privA.Sign(challenge)
		frames = append(frames, peerFrame{shared, aSend, 100, append(encSlice(pubA), encSlice(sigA)...)})
	}
	if variant != "reflection" {
		for i, f := range frames {
			sealed := secretbox.Seal(nil, f.plain(), &f.nonce, &f.key)
			if i == 0 && corruptAt >= 0 {
				sealed[corruptAt] ^= corruptMask
			}
			eb.Write(sealed)
		}
	}
	// A's authentication frame, as the peer sees it
	var authA []byte
	if variant != "reflection" {
		own := make([]byte, sealedSize)
		if _, err := io.ReadFull(eb, own); err == nil {
			if pl, ok := secretbox.Open(nil, own, &pRecv, &shared); ok {
				n := int(pl[0])<<8 | int(pl[1])
				if n <= dataMax {
					authA = pl[2 : 2+n]
				}
			}
		}
	}
	ba.Close() // the peer sends nothing more

	var res resA
	select {
	case res = <-chA:
	case <-time.After(60 * time.Second):
		ab.Close()
		res = <-chA
		c.Stats.Fail("class=handshake-hang: MakeSecretConnection did not return within 60 s against peer "+variant, map[string]interface{}{"case": idx})
		return
	}

	// ---- what the peer presented, as A must have seen it (harness bookkeeping, Go only)
	var stream []byte // decrypted chunks A can get, in order, until the first undecryptable frame
	expN := aRecv
	for i, f := range frames {
		if f.key != shared || f.nonce != expN || (i == 0 && corruptAt >= 0) || f.lenFld > dataMax {
			break
		}
		stream = append(stream, f.chunk[:f.lenFld]...)
		expN = next(expN)
	}
	presentedKey, presentedSig, decodable := []byte(nil), []byte(nil), false
	if len(stream) >= 100 {
		presentedKey, presentedSig, decodable = decodeAuth(stream[:100])
	}
	authentic := decodable && len(presentedKey) == 32 && ed25519.Verify(presentedKey, challenge, presentedSig)

	cls := 0
	switch {
	case res.pnk != nil:
		cls = 2
	case res.err != nil:
		cls = 1
	}
	c.Stats.Count([]string{"handshake:ok", "handshake:error", "handshake:panic"}[cls])
	descr := map[string]interface{}{"family": "handshake", "peer": variant, "case": idx}
	if cls == 0 && !authentic {
		c.Stats.Fail("class=auth-accepted-unauthenticated: MakeSecretConnection succeeded although the peer ("+variant+") presented no key with a valid signature over the challenge", descr)
	}
	if cls != 0 && authentic {
		c.Stats.Fail(fmt.Sprintf("class=auth-rejected-authentic: MakeSecretConnection failed (%v %v) although the peer (%s) presented a key with a valid signature over the challenge", res.err, res.pnk, variant), descr)
	}
	if cls == 2 {
		// a panic in MakeSecretConnection on any peer input is a failure (a clean error is fine)
		c.Stats.Fail(fmt.Sprintf("class=handshake-panic: MakeSecretConnection panicked (%v) on the authentication message of peer %s", res.pnk, variant), descr)
	}
	var remKey, rn, sn, leftover []byte
	if cls == 0 {
		remKey = res.sc.RemotePubKey()
		if !bytes.Equal(remKey, presentedKey) {
			c.Stats.Fail("class=remote-key: RemotePubKey is not the key the peer authenticated with ("+variant+")", descr)
		}
		r1, s1, k1, buffered := res.sc.VerifState()
		rn, sn, leftover = r1[:], s1[:], buffered
		if k1 != shared {
			c.Stats.Fail("class=handshake-state: shared secret differs from the peer's", descr)
		}
		if s1 != next(pRecv) || r1 == s1 { // one frame sent
			c.Stats.Fail("class=handshake-state: send nonce is not the nonce the peer receives with, or both directions share a nonce", descr)
		}
	}
	if variant != "reflection" {
		// the honest view of A: its frame opens with the peer's receive nonce and carries A's key and a valid signature
		k, s, ok := []byte(nil), []byte(nil), false
		if len(authA) == 100 {
			k, s, ok = decodeAuth(authA)
		}
		if !ok || !bytes.Equal(k, pubA) || !ed25519.Verify(pubA, challenge, s) {
			c.Stats.Fail("class=auth-own-frame: the node's authentication frame does not open under the agreed key/nonce or does not carry its key with a valid signature", descr)
		}
	}

	// ---- model case
	var fs []string
	for _, f := range frames {
		fs = append(fs, fmt.Sprintf("(%s, %s, %d%%N, %s)", hb(f.key[:]), hb(f.nonce[:]), f.lenFld, hb(f.chunk)))
	}
	corrupt := "None"
	if corruptAt >= 0 {
		corrupt = fmt.Sprintf("(Some (%d, %d)%%N)", corruptAt, corruptMask)
	}
	sigA := privA.Sign(challenge)
	vk, vs := presentedKey, presentedSig
	if !decodable {
		// whatever the node decoded, the harness has no verdict for it: the table is empty
		vk, vs = nil, nil
	}
	verdict := decodable && len(vk) == 32 && ed25519.Verify(vk, challenge, vs)
	model := fmt.Sprintf("run_handshake %s %s %s %s (%s, %s) (%s, %s) %s (%s, %s, %s) [%s] %s",
		hb(pubA), hb(ephPubA[:]), hb(sentEph[:]), hb(shared[:]),
		hb(append(append([]byte{}, lo[:]...), hi[:]...)), hb(h24),
		hb(append(append([]byte{}, lo[:]...), hi[:]...)), hb(challenge),
		hb(sigA), hb(vk), hb(vs), CoqBool(verdict), strings.Join(fs, "; "), corrupt)
	rows := []string{row(cls, 0, len(leftover), remKey, append(append([]byte{}, rn...), sn...))}
	if variant != "reflection" {
		rows = append(rows, row(0, 0, 0, authA, nil))
	} else {
		rows = append(rows, row(0, 0, 0, append(encSlice(pubA), encSlice(sigA)...), nil))
	}
	id := c.Cases.Add(model, CoqList(rows))
	c.Stats.CaseIndex[fmt.Sprint(id)] = descr
	c.Stats.Count("model_evaluated")
	c.Stats.Case(fmt.Sprintf("handshake/%s/%x", variant, ephPubA[:8]), true)
	ab.Close()
}

// decodeAuth: the two length-prefixed byte arrays of an authSigMessage (harness's own reading of
// the 100-byte buffer; used by the oracle only).
func decodeAuth(b []byte) (key, sig []byte, ok bool) {
	rd := func() ([]byte, bool) {
		if len(b) < 1 {
			return nil, false
		}
		s := int(b[0])
		b = b[1:]
		if s > 8 || len(b) < s {
			return nil, false
		}
		n := 0
		for i := 0; i < s; i++ {
			if n > 1<<20 {
				return nil, false
			}
			n = n<<8 | int(b[i])
		}
		b = b[s:]
		if n > len(b) {
			return nil, false
		}
		out := b[:n]
		b = b[n:]
		return out, true
	}
	k, ok1 := rd()
	if !ok1 {
		return nil, nil, false
	}
	s, ok2 := rd()
	if !ok2 {
		return nil, nil, false
	}
	return k, s, true
}

// ---------------------------------------------------------------- entry

func runC32(c *Ctx) error {
	c.Stats.Rule = "a stream direction is non-trivial when at least one byte was written; distinct = distinct (operation sequence, pattern seed, initial nonce); handshake and nonce cases are distinct by ephemeral key / nonce"
	c.Cases.Shard = c.N(40, 60)
	// corpus: the confirmed defect of the pinned tree (write 10 bytes, read with a 4-byte buffer)
	corpusCase(c)
	nStream := c.N(260, 1400)
	nNonce := c.N(60, 300)
	nHand := c.N(130, 700)
	for i := 0; i < nNonce; i++ {
		nonceCase(c)
	}
	for i := 0; i < nHand; i++ {
		handshakeCase(c, i)
	}
	for i := 0; i < nStream; i++ {
		streamCase(c, i)
	}
	for i, nb := 0, c.N(6, 24); i < nb; i++ {
		bigWriteCase(c, []int{65535, 65536, 65537, 2 * 65536, 70000, 3*65536 + 5}[i%6])
	}
	header := "From Coq Require Import List ZArith NArith Bool.\nFrom Verif Require Import Outcome Cmp.\nFrom C32 Require Import Model Run.\nImport ListNotations.\nOpen Scope N_scope.\n"
	return c.Cases.Write(c.Out, header, "list row", "rows_eqb")
}

func corpusCase(c *Ctx) {
	ea, eb, ab, ba := duplex()
	var k [32]byte
	var n1, n2 [24]byte
	n2[23] = 1
	a := connection.VerifNewSecretConnection(ea, k, n1, n2)
	b := connection.VerifNewSecretConnection(eb, k, n2, n1)
	ab.setNonblock(true)
	ba.setNonblock(true)
	d := &direction{name: "A->B", tx: a, rx: b, q: ab, seed: 1, key: k, nonce0: n2}
	d.write(c, 10)
	d.read(c, 4)
	d.read(c, 4)
	d.read(c, 4)
	d.read(c, 4)
	model := fmt.Sprintf("run_stream %s %s [%s]", hb(d.key[:]), hb(d.nonce0[:]), strings.Join(d.ops, "; "))
	id := c.Cases.Add(model, CoqList(d.rows))
	descr := map[string]interface{}{"family": "stream", "corpus": "write 10, read 4 4 4 4", "ops": strings.Join(d.descr, " ")}
	c.Stats.CaseIndex[fmt.Sprint(id)] = descr
	c.Stats.Count("model_evaluated")
	c.Stats.Case("corpus/short-read", true)
	for _, w := range d.bad {
		c.Stats.Fail(w, descr)
	}
}
