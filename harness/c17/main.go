// C17 — justification needs a supermajority of distinct valid validator votes: correspondence and oracle harness.
//
// Shares the driver of C16 (harness/c16/engine).  Cases: validator-set sizes 1..10, vote subsets around the
// 2n/3 threshold, block headers carrying forged / garbage / foreign / unused-slot signatures, restarts.
// Oracle (independent of the model): every stored checkpoint that is Justified or Finalized (except genesis) has a
// sup link with more than 2n/3 signatures that VERIFY (checked in the harness with the real keys) for distinct
// validator slots, whose source was Justified when the checkpoint became justified; a checkpoint that becomes
// Finalized has a direct child justified through a supermajority link from it; the same after reopening.
package main

import (
	"verifharness/c16/engine"
	"verifharness/fraglib"
	. "verifharness/hlib"
)

func main() {
	Main("C17", run, map[string]func([]string) int{"batch": engine.ChildBatch})
}

func run(c *Ctx) error {
	g := &engine.Gen{R: c.Rng}
	cases := engine.Corpus(0, true)
	id := len(cases)
	add := func(stream string, p engine.Profile, k int) {
		for i := 0; i < k; i++ {
			q := p
			if q.N == 0 {
				q.N = 1 + c.Rng.Intn(10)
			}
			q.Local = c.Rng.Intn(q.N)
			if q.N > 1 && c.Rng.Chance(15) {
				q.Local = engine.Outsider
			}
			cases = append(cases, g.Random(id, stream, q))
			id++
		}
	}
	base := engine.Profile{N: 0, Carried: 45, Forged: 12, Forks: 1, Trunk: 13, Malformed: 4}
	add("sizes-1-10", base, c.N(40, 300))
	four := base
	four.N, four.Forks = 4, 2
	add("n4", four, c.N(15, 100))
	forged := base
	forged.Forged, forged.Carried, forged.Malformed = 45, 70, 10
	add("forged-headers", forged, c.N(25, 200))
	rs := base
	rs.Restarts, rs.Forged, rs.Carried = 7, 30, 60
	add("restart", rs, c.N(30, 220))
	byz := base
	byz.Byz, byz.Malformed = true, 12
	add("byzantine", byz, c.N(15, 100))
	// an epoch elects another validator set; a block-carried link skips it (oracle only: the model has one set)
	cases = append(cases, g.DynCases(id, c.N(9, 45))...)
	if err := engine.RunProperty(c, engine.Oracles{C17: true}, cases,
		"a case counts as non-trivial when the node admitted a verification message, signed a vote of its own or justified a checkpoint"); err != nil {
		return err
	}
	// translator cross-check: the generated SupLink.IsMajority (C17/Tie.v) against the compiled one
	return fraglib.IsMajority(c)
}
