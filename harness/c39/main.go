package main

// C39 — event dispatcher (/repo/event/event.go).
//
//  1. Sequential histories (subscribe / post / unsubscribe / stop / receive /
//     closed?) are generated from c.Rng, run on the real Dispatcher through its
//     exported API, judged by the direct oracle (the property predicate on the
//     observed results only) and written as Coq cases: the model of
//     coq/C39/Model.v must return the same results (vm_compute).
//  2. A few histories fill the channel buffer (capacity read from the
//     implementation with cap(sub.Chan())) to exercise the "unless its buffer
//     was full" clause at the exact boundary.
//  3. A concurrent stress (posters, subscribers joining and leaving, a stopper)
//     runs under a watchdog; only schedule-independent facts are asserted
//     (per-poster order, at most once, every event posted strictly inside the
//     subscription's lifetime is received, posts after Stop returned fail,
//     everything terminates).  It supports the tie for the concurrent side; it
//     is not the proof.
//
// Wall-clock: the code compares sub.created with event.Time (both time.Now(),
// monotonic readings).  In a sequential history a subscription is created
// before every post it is registered for, so the comparison never fires; the
// model receives non-decreasing logical times and behaves identically.  No
// assertion depends on elapsed time except the (very generous) watchdog.

import (
	"fmt"
	"io/ioutil"
	"runtime"
	"runtime/debug"
	"strings"
	"sync"
	"sync/atomic"
	"time"

	"github.com/bytom/bytom/event"
	"github.com/sirupsen/logrus"
	. "verifharness/hlib"
)

func main() { Main("C39", runC39, nil) }

// ---- the event types used as subscription keys ---------------------------

type evA int
type evB int
type evC struct{ V uint64 }
type evD string

const nTags = 5

func mkEv(tag int, v uint64) interface{} {
	switch tag {
	case 0:
		return evA(v)
	case 1:
		return evB(v)
	case 2:
		return evC{v}
	case 3:
		return &evC{v}
	default:
		return evD(fmt.Sprint(v))
	}
}

func decode(d interface{}) (int, uint64, bool) {
	switch x := d.(type) {
	case evA:
		return 0, uint64(x), true
	case evB:
		return 1, uint64(x), true
	case evC:
		return 2, x.V, true
	case *evC:
		return 3, x.V, true
	case evD:
		var v uint64
		if _, err := fmt.Sscan(string(x), &v); err != nil {
			return 4, 0, false
		}
		return 4, v, true
	}
	return -1, 0, false
}

// ---- operations -----------------------------------------------------------

const (
	opSubscribe = iota
	opPost
	opUnsubscribe
	opStop
	opRecv
	opIsClosed
	opPostMany
	opRecvMany
)

type mop struct {
	Kind int      `json:"k"`
	Tys  []int    `json:"tys,omitempty"`
	T    int      `json:"t,omitempty"`
	V    uint64   `json:"v,omitempty"`
	K    int      `json:"n,omitempty"`
	S    int      `json:"s,omitempty"`
	Now  uint64   `json:"now,omitempty"`
	Str  string   `json:"op"`
}

func (m *mop) coq() string {
	switch m.Kind {
	case opSubscribe:
		items := make([]string, len(m.Tys))
		for i, t := range m.Tys {
			items[i] = fmt.Sprint(t)
		}
		return fmt.Sprintf("MP (Subscribe [%s] %d)", strings.Join(items, ";"), m.Now)
	case opPost:
		return fmt.Sprintf("MP (Post %d %d %d)", m.T, m.V, m.Now)
	case opUnsubscribe:
		return fmt.Sprintf("MP (Unsubscribe %d%%nat)", m.S)
	case opStop:
		return "MP Stop"
	case opRecv:
		return fmt.Sprintf("MP (Recv %d%%nat)", m.S)
	case opIsClosed:
		return fmt.Sprintf("MP (IsClosed %d%%nat)", m.S)
	case opPostMany:
		return fmt.Sprintf("MPostMany %d %d %d %d", m.T, m.V, m.K, m.Now)
	case opRecvMany:
		return fmt.Sprintf("MRecvMany %d%%nat %d", m.S, m.K)
	}
	return "?"
}

// primitive results (mirror of Model.res)
const (
	rSub = iota
	rSubDup
	rPostOk
	rPostClosed
	rUnit
	rGot
	rEmpty
	rClosed
	rBool
	rNil
	rPanic
)

type pres struct {
	R   int
	ID  int    // rSub
	T   int    // rGot
	V   uint64 // rGot
	B   bool   // rBool
	Msg string // rPanic: what happened (never compared)
}

func (r pres) coq() string {
	switch r.R {
	case rSub:
		return fmt.Sprintf("RSub %d%%nat", r.ID)
	case rSubDup:
		return "RSubDup"
	case rPostOk:
		return "RPostOk"
	case rPostClosed:
		return "RPostClosed"
	case rUnit:
		return "RUnit"
	case rGot:
		return fmt.Sprintf("RGot %d %d", r.T, r.V)
	case rEmpty:
		return "REmpty"
	case rClosed:
		return "RClosed"
	case rBool:
		return "RBool " + CoqBool(r.B)
	case rNil:
		return "RNil"
	}
	return "RPanic"
}

// one primitive step of the log the oracle reads
type logEntry struct {
	Kind int // opSubscribe, opPost, opUnsubscribe, opStop, opRecv, opIsClosed
	S    int
	Tys  []int
	T    int
	V    uint64
	Res  pres
}

type runner struct {
	d    *event.Dispatcher
	subs []*event.Subscription
	log  []logEntry
}

func guarded(f func() pres) (out pres) {
	defer func() {
		if r := recover(); r != nil {
			if re, ok := r.(runtime.Error); ok && strings.Contains(re.Error(), "nil pointer") {
				out = pres{R: rNil}
			} else {
				out = pres{R: rPanic, Msg: fmt.Sprint(r)}
			}
		}
	}()
	return f()
}

func (rn *runner) prim(kind int, m *mop, v uint64) pres {
	var res pres
	switch kind {
	case opSubscribe:
		vals := make([]interface{}, len(m.Tys))
		for i, t := range m.Tys {
			vals[i] = mkEv(t, 0)
		}
		res = guarded(func() pres {
			sub, err := rn.d.Subscribe(vals...)
			rn.subs = append(rn.subs, sub)
			switch {
			case err == nil && sub != nil:
				return pres{R: rSub, ID: len(rn.subs) - 1}
			case err == event.ErrDuplicateSubscribe && sub == nil:
				return pres{R: rSubDup}
			}
			return pres{R: rPanic, Msg: fmt.Sprintf("Subscribe returned (%v, %v)", sub != nil, err)}
		})
		rn.log = append(rn.log, logEntry{Kind: kind, S: len(rn.subs) - 1, Tys: m.Tys, Res: res})
	case opPost:
		res = guarded(func() pres {
			err := rn.d.Post(mkEv(m.T, v))
			switch err {
			case nil:
				return pres{R: rPostOk}
			case event.ErrMuxClosed:
				return pres{R: rPostClosed}
			}
			return pres{R: rPanic, Msg: "Post: " + err.Error()}
		})
		rn.log = append(rn.log, logEntry{Kind: kind, T: m.T, V: v, Res: res})
	case opUnsubscribe:
		res = guarded(func() pres { rn.subs[m.S].Unsubscribe(); return pres{R: rUnit} })
		rn.log = append(rn.log, logEntry{Kind: kind, S: m.S, Res: res})
	case opStop:
		res = guarded(func() pres { rn.d.Stop(); return pres{R: rUnit} })
		rn.log = append(rn.log, logEntry{Kind: kind, Res: res})
	case opRecv:
		res = guarded(func() pres {
			select {
			case ev, ok := <-rn.subs[m.S].Chan():
				if !ok {
					return pres{R: rClosed}
				}
				if ev == nil {
					return pres{R: rPanic, Msg: "nil event received"}
				}
				t, pv, okd := decode(ev.Data)
				if !okd {
					return pres{R: rPanic, Msg: fmt.Sprintf("foreign event %T", ev.Data)}
				}
				return pres{R: rGot, T: t, V: pv}
			default:
				return pres{R: rEmpty}
			}
		})
		rn.log = append(rn.log, logEntry{Kind: kind, S: m.S, Res: res})
	case opIsClosed:
		res = guarded(func() pres { return pres{R: rBool, B: rn.subs[m.S].Closed()} })
		rn.log = append(rn.log, logEntry{Kind: kind, S: m.S, Res: res})
	}
	return res
}

// exec runs one macro operation and returns its summary in Coq syntax (mres).
func (rn *runner) exec(m *mop) string {
	switch m.Kind {
	case opPostMany:
		var ok, closed, other int
		for i := 0; i < m.K; i++ {
			switch rn.prim(opPost, m, m.V+uint64(i)).R {
			case rPostOk:
				ok++
			case rPostClosed:
				closed++
			default:
				other++
			}
		}
		return fmt.Sprintf("MRPosts %d %d %d", ok, closed, other)
	case opRecvMany:
		type run struct {
			t    int
			v, c uint64
		}
		var runs []run
		var nempty, nclosed, nother int
		gotsFirst, seenOther := true, false
		for i := 0; i < m.K; i++ {
			r := rn.prim(opRecv, m, 0)
			switch r.R {
			case rGot:
				if seenOther {
					gotsFirst = false
				}
				if n := len(runs); n > 0 && runs[n-1].t == r.T && runs[n-1].v+runs[n-1].c == r.V {
					runs[n-1].c++
				} else {
					runs = append(runs, run{r.T, r.V, 1})
				}
			case rEmpty:
				nempty++
				seenOther = true
			case rClosed:
				nclosed++
				seenOther = true
			default:
				nother++
				seenOther = true
			}
		}
		items := make([]string, len(runs))
		for i, r := range runs {
			items[i] = fmt.Sprintf("(%d,%d,%d)", r.t, r.v, r.c)
		}
		return fmt.Sprintf("MRRecvs [%s] %d %d %d %s", strings.Join(items, ";"), nempty, nclosed, nother, CoqBool(gotsFirst))
	}
	return "MR (" + rn.prim(m.Kind, m, m.V).coq() + ")"
}

// ---- the direct oracle ------------------------------------------------------
//
// Judges the log of one sequential history, using the implementation's outputs
// only.  capacity is what cap(sub.Chan()) reported.  Returns "" or
// "class=...: ..." for the first violation.
func oracle(log []logEntry, capacity int) string {
	stopAt := -1
	for i, e := range log {
		if e.Kind == opStop && stopAt < 0 {
			stopAt = i
		}
	}
	postIdx := map[uint64]int{} // payload -> index of the Post (payloads are unique per history)
	for i, e := range log {
		switch e.Kind {
		case opPost:
			postIdx[e.V] = i
			// posting after the dispatcher stopped fails; before, it succeeds
			if stopAt >= 0 && i > stopAt && e.Res.R != rPostClosed {
				return fmt.Sprintf("class=post-after-stop: Post #%d after Stop returned %s", i, e.Res.coq())
			}
			if (stopAt < 0 || i < stopAt) && e.Res.R != rPostOk {
				return fmt.Sprintf("class=post-before-stop: Post #%d before any Stop returned %s %s", i, e.Res.coq(), e.Res.Msg)
			}
		case opUnsubscribe, opStop:
			if e.Res.R == rPanic {
				return fmt.Sprintf("class=panic: op #%d panicked: %s", i, e.Res.Msg)
			}
		case opRecv, opIsClosed, opSubscribe:
			if e.Res.R == rPanic {
				return fmt.Sprintf("class=panic: op #%d: %s", i, e.Res.Msg)
			}
		}
	}
	for i, e := range log {
		if e.Kind != opSubscribe || e.Res.R != rSub {
			continue
		}
		s := e.S
		tys := map[int]bool{}
		for _, t := range e.Tys {
			tys[t] = true
		}
		// the subscription's lifetime: (i, end)
		end := len(log)
		for j := i + 1; j < len(log); j++ {
			if log[j].Kind == opStop || (log[j].Kind == opUnsubscribe && log[j].S == s && log[j].Res.R == rUnit) {
				end = j
				break
			}
		}
		if stopAt >= 0 && stopAt < i {
			end = i // created on a stopped dispatcher: must get nothing
		}
		// what the consumer received, in order
		got := map[uint64]bool{}
		last := -1
		for j, r := range log {
			if r.Kind != opRecv || r.S != s || r.Res.R != rGot {
				continue
			}
			pi, known := postIdx[r.Res.V]
			switch {
			case !known || log[pi].T != r.Res.T:
				return fmt.Sprintf("class=spurious: subscription %d received (%d,%d) at op #%d which nobody posted", s, r.Res.T, r.Res.V, j)
			case got[r.Res.V]:
				return fmt.Sprintf("class=duplicate: subscription %d received (%d,%d) twice (op #%d)", s, r.Res.T, r.Res.V, j)
			case !tys[r.Res.T]:
				return fmt.Sprintf("class=spurious: subscription %d received type %d it did not subscribe to (op #%d)", s, r.Res.T, j)
			case pi <= i || pi >= end:
				return fmt.Sprintf("class=outside-lifetime: subscription %d (ops #%d..#%d) received (%d,%d) posted at op #%d", s, i, end, r.Res.T, r.Res.V, pi)
			case pi >= j:
				return fmt.Sprintf("class=spurious: subscription %d received (%d,%d) at op #%d before it was posted (#%d)", s, r.Res.T, r.Res.V, j, pi)
			case pi < last:
				return fmt.Sprintf("class=order: subscription %d received (%d,%d) (posted at #%d) after an event posted at #%d", s, r.Res.T, r.Res.V, pi, last)
			}
			got[r.Res.V] = true
			last = pi
		}
		// every post of its types inside the lifetime was received, unless the buffer was full
		pending := 0
		for j := i + 1; j < len(log); j++ {
			r := log[j]
			switch {
			case r.Kind == opRecv && r.S == s && r.Res.R == rGot:
				pending--
			case r.Kind == opPost && j < end && tys[r.T] && r.Res.R == rPostOk:
				if got[r.V] {
					pending++
				} else if pending < capacity {
					return fmt.Sprintf("class=lost: subscription %d (types %v, ops #%d..#%d) never received (%d,%d) posted at op #%d with %d of %d buffer slots in use", s, e.Tys, i, end, r.T, r.V, j, pending, capacity)
				}
			}
		}
	}
	return ""
}

// ---- generators -------------------------------------------------------------

type gen struct {
	rng    *Rng
	ops    []*mop
	nsubs  int    // Subscribe calls so far
	nilh   []bool // handle i is nil (duplicate-type error expected)
	now    uint64
	nextV  uint64
	nposts int
}

func (g *gen) tick() uint64 { g.now += uint64(g.rng.Intn(3)); return g.now }

func (g *gen) add(m *mop) { m.Str = m.coq(); g.ops = append(g.ops, m) }

func (g *gen) subscribe(tys []int) {
	dup := false
	seen := map[int]bool{}
	for _, t := range tys {
		if seen[t] {
			dup = true
		}
		seen[t] = true
	}
	g.add(&mop{Kind: opSubscribe, Tys: tys, Now: g.tick()})
	g.nsubs++
	g.nilh = append(g.nilh, dup) // (on a stopped dispatcher the handle is non-nil even then; harmless)
}

func (g *gen) post(t int) {
	g.add(&mop{Kind: opPost, T: t, V: g.nextV, Now: g.tick()})
	g.nextV++
	g.nposts++
}

func (g *gen) postMany(t, k int) {
	g.add(&mop{Kind: opPostMany, T: t, V: g.nextV, K: k, Now: g.tick()})
	g.nextV += uint64(k)
	g.nposts += k
}

func (g *gen) drainAll(extra int) {
	for s := 0; s < g.nsubs; s++ {
		g.add(&mop{Kind: opRecvMany, S: s, K: g.nposts + extra})
	}
}

// a random small history; profile selects the flavour
func genSmall(rng *Rng, st *Stats) []*mop {
	g := &gen{rng: rng, now: 1 + uint64(rng.Intn(5))}
	profile := rng.Intn(100)
	ntypes := 2 + rng.Intn(nTags-1)
	n := 8 + rng.Intn(40)
	wSub, wPost, wUnsub, wStop, wRecv, wClosed, wMany := 16, 40, 9, 2, 20, 5, 4
	pname := "profile_mixed"
	switch {
	case profile < 15: // stop early, then keep using the dispatcher
		wStop = 8
		pname = "profile_stop_heavy"
	case profile < 30: // duplicate types, nil handles, repeated unsubscribe
		wSub, wUnsub, wClosed = 25, 18, 8
		pname = "profile_malformed"
	case profile < 40: // many subscribers of one type
		ntypes = 1
		wSub = 25
		pname = "profile_one_type"
	}
	st.Count(pname)
	total := wSub + wPost + wUnsub + wStop + wRecv + wClosed + wMany
	if rng.Chance(80) {
		g.subscribe([]int{rng.Intn(ntypes)})
	}
	for len(g.ops) < n {
		x := rng.Intn(total)
		switch {
		case x < wSub:
			k := 1 + rng.Intn(3)
			if rng.Chance(6) {
				k = 0
			}
			var tys []int
			for i := 0; i < k; i++ {
				tys = append(tys, rng.Intn(ntypes))
			}
			if pname == "profile_malformed" && len(tys) > 0 && rng.Chance(30) {
				tys = append(tys, tys[rng.Intn(len(tys))]) // force a duplicate, possibly after other types
			}
			g.subscribe(tys)
		case x < wSub+wPost:
			g.post(rng.Intn(ntypes))
		case x < wSub+wPost+wUnsub:
			if g.nsubs > 0 {
				g.add(&mop{Kind: opUnsubscribe, S: rng.Intn(g.nsubs)})
			}
		case x < wSub+wPost+wUnsub+wStop:
			g.add(&mop{Kind: opStop})
		case x < wSub+wPost+wUnsub+wStop+wRecv:
			if g.nsubs > 0 {
				if rng.Chance(15) {
					g.add(&mop{Kind: opRecvMany, S: rng.Intn(g.nsubs), K: 1 + rng.Intn(6)})
				} else {
					g.add(&mop{Kind: opRecv, S: rng.Intn(g.nsubs)})
				}
			}
		case x < wSub+wPost+wUnsub+wStop+wRecv+wClosed:
			if g.nsubs > 0 {
				g.add(&mop{Kind: opIsClosed, S: rng.Intn(g.nsubs)})
			}
		default:
			g.postMany(rng.Intn(ntypes), 2+rng.Intn(12))
		}
	}
	// the end of the history: sometimes leave, sometimes stop, then drain everything
	if rng.Chance(40) {
		for s := 0; s < g.nsubs; s++ {
			if rng.Chance(50) {
				g.add(&mop{Kind: opUnsubscribe, S: s})
			}
		}
	}
	if rng.Chance(30) {
		g.add(&mop{Kind: opStop})
		if rng.Chance(50) {
			g.post(rng.Intn(ntypes))
		}
	}
	g.drainAll(2)
	for s := 0; s < g.nsubs; s++ {
		if rng.Chance(25) {
			g.add(&mop{Kind: opIsClosed, S: s})
		}
	}
	return g.ops
}

// a history that fills the buffer of one subscription to the brim
func genBig(rng *Rng, capacity int) []*mop {
	g := &gen{rng: rng, now: 1}
	g.subscribe([]int{0, 1}) // 0: the one that overflows
	if rng.Bool() {
		g.subscribe([]int{1}) // 1: a bystander that must be unaffected
	}
	for i := rng.Intn(4); i > 0; i-- {
		g.post(rng.Intn(3))
		g.add(&mop{Kind: opRecv, S: 0})
	}
	// bring subscription 0 to capacity-d .. capacity+d
	d := rng.Intn(7) - 3
	fill := capacity + d
	if fill < 0 {
		fill = 0
	}
	g.postMany(0, fill)
	for i := 2 + rng.Intn(6); i > 0; i-- {
		switch rng.Intn(4) {
		case 0:
			g.add(&mop{Kind: opRecv, S: 0})
		case 1:
			g.post(1)
		case 2:
			g.post(0)
		default:
			g.add(&mop{Kind: opRecvMany, S: 0, K: 1 + rng.Intn(3)})
		}
	}
	g.postMany(rng.Intn(2), 1+rng.Intn(6))
	if rng.Bool() {
		g.add(&mop{Kind: opUnsubscribe, S: 0})
		g.post(0)
	} else if rng.Bool() {
		g.add(&mop{Kind: opStop})
		g.post(0)
	}
	g.drainAll(3)
	return g.ops
}

// ---- running one sequential case -------------------------------------------

func runCase(c *Ctx, ops []*mop, capacity int, kind string, nontrivial *int) bool {
	rn := &runner{d: event.NewDispatcher()}
	summaries := make([]string, len(ops))
	done := make(chan struct{})
	var at int32
	go func() {
		for i, m := range ops {
			atomic.StoreInt32(&at, int32(i))
			summaries[i] = rn.exec(m)
		}
		close(done)
	}()
	desc := map[string]interface{}{"kind": kind, "capacity": capacity}
	strs := make([]string, len(ops))
	for i, m := range ops {
		strs[i] = m.Str
	}
	if len(strs) <= 200 {
		desc["ops"] = strs
	}
	watchdog := time.NewTimer(60 * time.Second)
	defer watchdog.Stop()
	select {
	case <-done:
	case <-watchdog.C:
		i := int(atomic.LoadInt32(&at))
		// the runner goroutine is parked in a lock: its log can be read
		var panics []string
		for j, e := range rn.log {
			if e.Res.R == rPanic || (e.Res.R == rNil && (e.Kind == opPost || e.Kind == opStop || e.Kind == opSubscribe)) {
				panics = append(panics, fmt.Sprintf("primitive op #%d panicked (%s %s)", j, e.Res.coq(), e.Res.Msg))
			}
		}
		c.Stats.Fail(fmt.Sprintf("class=blocked: sequential history did not finish within 60s; stuck in operation #%d %s; %s", i, ops[i].Str, strings.Join(panics, "; ")), desc)
		return false
	}
	desc["results"] = summaries
	if len(summaries) > 200 {
		desc["results"] = summaries[:200]
		desc["ops"] = strs[:200]
	}
	if what := oracle(rn.log, capacity); what != "" {
		c.Stats.Fail(what, desc)
	}
	// distribution
	ngot, nsub := 0, 0
	for _, e := range rn.log {
		switch e.Res.R {
		case rGot:
			ngot++
		case rSub:
			nsub++
		}
	}
	if len(rn.log) <= 400 {
		for _, e := range rn.log {
			c.Stats.Count("op_" + [...]string{"subscribe", "post", "unsubscribe", "stop", "recv", "isclosed"}[e.Kind])
			c.Stats.Count("res_" + strings.SplitN(e.Res.coq(), " ", 2)[0])
		}
	}
	c.Stats.Count(fmt.Sprintf("%s_ops_%02d-%02d", kind, len(ops)/10*10, len(ops)/10*10+9))
	if ngot > 0 && nsub > 0 {
		*nontrivial++
	}
	c.Stats.Case(kind+":"+strings.Join(strs, "|"), ngot > 0 && nsub > 0)
	items := make([]string, len(ops))
	for i, m := range ops {
		items[i] = m.Str
	}
	id := c.Cases.Add(fmt.Sprintf("run_case %d [%s]", capacity, strings.Join(items, "; ")), "["+strings.Join(summaries, "; ")+"]")
	if id < 3000 {
		c.Stats.CaseIndex[fmt.Sprint(id)] = desc
	} else { // replayable from (seed, index); the full history is in the cases file
		c.Stats.CaseIndex[fmt.Sprint(id)] = map[string]interface{}{"kind": kind, "index": id, "ops": len(ops)}
	}
	c.Stats.Count("model_evaluated")
	if id%997 == 3 || kind == "big" && id%3 == 0 {
		c.Stats.Sample(desc)
	}
	return true
}

// ---- concurrent stress --------------------------------------------------------

type cycle struct {
	tys      []int
	lo, hi   []uint64 // per poster
	afterStp bool     // Stop had returned before Subscribe was called
	recv     [][2]uint64
	subErr   string
}

func stress(c *Ctx, round int, capacity int) bool {
	rng := NewRng(c.Rng.Next())
	nP := 2 + rng.Intn(3)
	nS := 2 + rng.Intn(4)
	ntypes := 1 + rng.Intn(3)
	perPoster := 40 + rng.Intn(360)
	withStop := rng.Chance(50)
	stopAfter := rng.Intn(perPoster * nP) // the stopper waits for that many completed posts overall
	pType := make([]int, nP)
	for p := range pType {
		pType[p] = rng.Intn(ntypes)
	}
	type subPlan struct {
		cycles [][]int
		spins  []int
	}
	plans := make([]subPlan, nS)
	for s := range plans {
		for k := 1 + rng.Intn(3); k > 0; k-- {
			var tys []int
			for t := 0; t < ntypes; t++ {
				if rng.Chance(60) {
					tys = append(tys, t)
				}
			}
			if len(tys) == 0 {
				tys = []int{rng.Intn(ntypes)}
			}
			plans[s].cycles = append(plans[s].cycles, tys)
			plans[s].spins = append(plans[s].spins, rng.Intn(200))
		}
	}
	desc := map[string]interface{}{"kind": "stress", "round": round, "posters": nP, "poster_types": pType,
		"subscribers": nS, "per_poster": perPoster, "with_stop": withStop}

	d := event.NewDispatcher()
	started := make([]uint64, nP) // posts begun (incremented before Post is called)
	doneOK := make([]uint64, nP)  // posts that returned nil (a prefix: a poster stops at the first failure)
	var totalDone uint64
	var stopReturned uint32
	stopHi := make([]uint64, nP)
	for p := range stopHi {
		stopHi[p] = ^uint64(0)
	}
	var phase [64]int32 // what each goroutine is doing (for the watchdog report)
	var failMu sync.Mutex
	var fails []string
	fail := func(s string) { failMu.Lock(); fails = append(fails, s); failMu.Unlock() }
	var wg sync.WaitGroup
	results := make([][]*cycle, nS)
	// a panic inside the dispatcher is an oracle failure, not a crash of the harness
	caught := func(who string) {
		if r := recover(); r != nil {
			fail(fmt.Sprintf("class=conc-panic: %s panicked: %v", who, r))
		}
	}

	for p := 0; p < nP; p++ {
		wg.Add(1)
		go func(p int) {
			defer wg.Done()
			defer caught(fmt.Sprintf("poster %d", p))
			failed := 0
			for seq := uint64(0); seq < uint64(perPoster) && failed < 3; seq++ {
				stoppedBefore := atomic.LoadUint32(&stopReturned) == 1
				atomic.StoreUint64(&started[p], seq+1)
				atomic.StoreInt32(&phase[p], 1)
				err := d.Post(mkEv(pType[p], uint64(p)<<32|seq))
				atomic.StoreInt32(&phase[p], 0)
				switch {
				case err == nil && failed > 0:
					fail(fmt.Sprintf("class=conc-post-after-stop: poster %d: Post succeeded after an earlier Post had returned ErrMuxClosed", p))
				case err == nil && stoppedBefore:
					fail(fmt.Sprintf("class=conc-post-after-stop: poster %d: Post #%d succeeded although Stop had already returned", p, seq))
				case err == nil:
					atomic.StoreUint64(&doneOK[p], seq+1)
					atomic.AddUint64(&totalDone, 1)
				case err == event.ErrMuxClosed:
					failed++
				default:
					fail(fmt.Sprintf("class=conc-post-error: poster %d: %v", p, err))
					failed = 3
				}
				if seq%16 == 0 {
					runtime.Gosched()
				}
			}
		}(p)
	}
	for s := 0; s < nS; s++ {
		wg.Add(1)
		go func(s int) {
			defer wg.Done()
			defer caught(fmt.Sprintf("subscriber %d", s))
			g := nP + s
			for k, tys := range plans[s].cycles {
				cy := &cycle{tys: tys, lo: make([]uint64, nP), hi: make([]uint64, nP)}
				results[s] = append(results[s], cy)
				vals := make([]interface{}, len(tys))
				for i, t := range tys {
					vals[i] = mkEv(t, 0)
				}
				cy.afterStp = atomic.LoadUint32(&stopReturned) == 1
				atomic.StoreInt32(&phase[g], 2)
				sub, err := d.Subscribe(vals...)
				atomic.StoreInt32(&phase[g], 0)
				if err != nil || sub == nil {
					cy.subErr = fmt.Sprint(err)
					continue
				}
				for p := 0; p < nP; p++ {
					cy.lo[p] = atomic.LoadUint64(&started[p])
				}
				consumed := make(chan struct{})
				go func() {
					defer close(consumed)
					defer caught("consumer")
					for ev := range sub.Chan() {
						if ev == nil {
							fail("class=conc-spurious: nil event received")
							continue
						}
						t, v, ok := decode(ev.Data)
						if !ok {
							fail(fmt.Sprintf("class=conc-spurious: foreign event %T", ev.Data))
							continue
						}
						cy.recv = append(cy.recv, [2]uint64{uint64(t), v})
					}
				}()
				for i := plans[s].spins[k]; i > 0; i-- {
					runtime.Gosched()
				}
				for p := 0; p < nP; p++ {
					cy.hi[p] = atomic.LoadUint64(&doneOK[p])
				}
				atomic.StoreInt32(&phase[g], 3)
				sub.Unsubscribe()
				atomic.StoreInt32(&phase[g], 4)
				<-consumed // the channel is closed once Unsubscribe / Stop is through
				atomic.StoreInt32(&phase[g], 0)
				if !sub.Closed() {
					fail(fmt.Sprintf("class=conc-not-closed: subscriber %d: Closed() is false after Unsubscribe returned", s))
				}
			}
		}(s)
	}
	if withStop {
		wg.Add(1)
		go func() {
			defer wg.Done()
			defer caught("stopper")
			g := nP + nS
			for atomic.LoadUint64(&totalDone) < uint64(stopAfter) {
				runtime.Gosched()
				all := true
				for p := 0; p < nP; p++ {
					if atomic.LoadUint64(&started[p]) < uint64(perPoster) {
						all = false
					}
				}
				if all {
					break
				}
			}
			for p := 0; p < nP; p++ {
				stopHi[p] = atomic.LoadUint64(&doneOK[p])
			}
			atomic.StoreInt32(&phase[g], 5)
			d.Stop()
			atomic.StoreInt32(&phase[g], 0)
			atomic.StoreUint32(&stopReturned, 1)
		}()
	}
	finished := make(chan struct{})
	go func() { wg.Wait(); close(finished) }()
	watchdog := time.NewTimer(120 * time.Second)
	defer watchdog.Stop()
	select {
	case <-finished:
	case <-watchdog.C:
		names := map[int32]string{1: "Post", 2: "Subscribe", 3: "Unsubscribe", 4: "waiting for the channel to be closed", 5: "Stop"}
		var stuck []string
		for g := 0; g < nP+nS+1; g++ {
			if ph := atomic.LoadInt32(&phase[g]); ph != 0 {
				stuck = append(stuck, fmt.Sprintf("goroutine %d in %s", g, names[ph]))
			}
		}
		c.Stats.Fail("class=blocked: concurrent run did not terminate within 120s: "+strings.Join(stuck, ", "), desc)
		return false
	}
	if !withStop {
		func() { defer caught("final Stop"); d.Stop() }()
	}
	// judge the subscriptions (all goroutines are done: plain reads are safe)
	total := nP * perPoster
	for s := range results {
		for k, cy := range results[s] {
			who := fmt.Sprintf("subscriber %d cycle %d (types %v)", s, k, cy.tys)
			if cy.subErr != "" {
				fail(fmt.Sprintf("class=conc-subscribe-error: %s: Subscribe failed: %s", who, cy.subErr))
				continue
			}
			want := map[int]bool{}
			for _, t := range cy.tys {
				want[t] = true
			}
			next := make([]int64, nP) // per poster: smallest sequence number still acceptable
			seen := make([]map[uint64]bool, nP)
			for p := range seen {
				seen[p] = map[uint64]bool{}
			}
			for _, r := range cy.recv {
				p, seq := int(r[1]>>32), r[1]&0xffffffff
				switch {
				case p >= nP || seq >= uint64(perPoster) || pType[p] != int(r[0]):
					fail(fmt.Sprintf("class=conc-spurious: %s received (%d,%#x) which nobody posted", who, r[0], r[1]))
				case !want[int(r[0])]:
					fail(fmt.Sprintf("class=conc-spurious: %s received type %d", who, r[0]))
				case cy.afterStp:
					fail(fmt.Sprintf("class=conc-after-stop: %s was created after Stop returned but received poster %d #%d", who, p, seq))
				case seen[p][seq]:
					fail(fmt.Sprintf("class=conc-duplicate: %s received poster %d #%d twice", who, p, seq))
				case int64(seq) < next[p]:
					fail(fmt.Sprintf("class=conc-order: %s received poster %d #%d after #%d", who, p, seq, next[p]-1))
				default:
					seen[p][seq] = true
					next[p] = int64(seq) + 1
				}
			}
			if cy.afterStp || total > capacity {
				c.Stats.Count("stress_cycles_without_completeness_check")
				continue
			}
			for p := 0; p < nP; p++ {
				if !want[pType[p]] {
					continue
				}
				hi := cy.hi[p]
				if stopHi[p] < hi {
					hi = stopHi[p]
				}
				for seq := cy.lo[p]; seq < hi; seq++ {
					if !seen[p][seq] {
						fail(fmt.Sprintf("class=conc-lost: %s never received poster %d #%d, posted entirely between its Subscribe and its Unsubscribe (must-have range [%d,%d))", who, p, seq, cy.lo[p], hi))
						break
					}
				}
				c.Stats.Extra["stress_must_have_events"] = toInt(c.Stats.Extra["stress_must_have_events"]) + int(maxu(hi, cy.lo[p])-cy.lo[p])
			}
			c.Stats.Extra["stress_received_events"] = toInt(c.Stats.Extra["stress_received_events"]) + len(cy.recv)
			c.Stats.Count("stress_cycles_checked")
		}
	}
	for _, f := range fails {
		c.Stats.Fail(f, desc)
	}
	if withStop {
		c.Stats.Count("stress_rounds_with_stop")
	} else {
		c.Stats.Count("stress_rounds_without_stop")
	}
	c.Stats.Case(fmt.Sprintf("stress:%d:%v", round, desc), true)
	return true
}

func toInt(v interface{}) int {
	if i, ok := v.(int); ok {
		return i
	}
	return 0
}
func maxu(a, b uint64) uint64 {
	if a > b {
		return a
	}
	return b
}

// ---- main -------------------------------------------------------------------

func runC39(c *Ctx) error {
	// the buffer capacity, as the implementation has it
	probe := event.NewDispatcher()
	ps, err := probe.Subscribe(evA(0))
	if err != nil || ps == nil {
		return fmt.Errorf("probe subscribe failed: %v", err)
	}
	capacity := cap(ps.Chan())
	probe.Stop()
	c.Stats.Extra["channel_capacity"] = capacity

	debug.SetGCPercent(800) // every Subscribe allocates a 65536-slot channel (512 KiB)
	logrus.SetOutput(ioutil.Discard) // the dispatcher logs every dropped event and every duplicate Subscribe
	t0 := time.Now()
	lap := func(name string) {
		c.Stats.Extra["seconds_"+name] = float64(int(time.Since(t0).Seconds()*100)) / 100
		t0 = time.Now()
	}
	nontrivial := 0
	nSmall := c.N(1500, 8000)
	alive := true // false once an operation blocked: the process is then not trustworthy any more
	for i := 0; i < nSmall && alive; i++ {
		alive = runCase(c, genSmall(c.Rng, c.Stats), capacity, "small", &nontrivial)
	}
	lap("small")
	if !alive {
		c.Stats.Count("aborted_after_blocked_history")
	} else if capacity <= 300000 {
		for i := c.N(6, 30); i > 0 && alive; i-- {
			alive = runCase(c, genBig(c.Rng, capacity), capacity, "big", &nontrivial)
		}
	} else {
		c.Stats.Count("big_cases_skipped_capacity_too_large")
	}
	lap("big")
	for r := c.N(150, 1500); r > 0 && alive; r-- {
		alive = stress(c, r, capacity)
	}
	lap("stress")
	// the generator must not be degenerate (judged only when the implementation behaved:
	// a broken dispatcher distorts the distribution and is reported by the oracle instead)
	for _, k := range []string{"res_RGot", "res_REmpty", "res_RClosed", "res_RPostClosed", "res_RPostOk", "res_RSubDup", "res_RNil", "res_RSub"} {
		if len(c.Stats.OracleFailures) == 0 && c.Stats.Distribution[k] < 20 {
			return fmt.Errorf("degenerate generator: only %d results of kind %s", c.Stats.Distribution[k], k)
		}
	}
	if len(c.Stats.OracleFailures) == 0 && nontrivial*2 < nSmall {
		return fmt.Errorf("degenerate generator: only %d of %d histories deliver an event", nontrivial, nSmall)
	}
	c.Stats.Rule = "sequential histories over {Subscribe(0-4 types, sometimes duplicated), Post, batch of posts, Unsubscribe (also repeated / on the nil handle of a failed Subscribe), Stop, non-blocking receive, batch of receives, Closed()} on 1-5 event types and any number of subscriptions, four generator profiles (mixed, stop-heavy, malformed, one type with many subscribers), every history drained at the end; a history is non-trivial when at least one subscription was created and at least one event was received; plus histories that fill one subscription's buffer to capacity-3..capacity+3 (capacity = cap(sub.Chan()) of the implementation) and keep posting/receiving at the boundary; plus concurrent rounds (2-4 posters, 2-5 subscribers each joining and leaving 1-3 times, optional Stop) judged by schedule-independent assertions only. Implementation results are judged by the direct oracle (in order, once, nothing outside the lifetime or the types, nothing lost unless the buffer was full, Post fails exactly after Stop, no panic, termination) and compared with the Coq model's results (sequential histories)."
	header := "From Coq Require Import List NArith Bool.\nFrom C39 Require Import Model Run.\nImport ListNotations.\nOpen Scope N_scope.\n"
	return c.Cases.Write(c.Out, header, "list mres", "mres_list_eqb")
}
