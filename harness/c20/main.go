package main

// C20 — storage backends are interchangeable.
//
// Runs generated operation sequences (get, set/setSync, delete/deleteSync, batch
// set/delete/write with any mix, Iterator(), IteratorPrefix, forward
// IteratorPrefixWithStart) against BOTH real backends of database/leveldb: MemDB
// and GoLevelDB (in a scratch directory that is removed after the run; the LevelDB
// is emptied between cases and now and then closed and re-opened in the middle of a
// case, so values are also read back from table files).
//   * direct oracle (Go only, no model): every observable of every operation is
//     equal between the two real backends, and no operation panics;
//   * correspondence: the Coq models mem_run / ldb_run (C20/Model.v) evaluated on
//     the same operation sequence must reproduce what each backend returned.
// Observables: Get -> absent (nil) or the bytes; an iteration -> Key()/Value() of the
// fresh iterator, then Key()/Value() after every successful Next() (contents; nil and
// empty are the same there).  Key()/Value() after Next() returned false are not
// observed.  Public API only, no hook.

import (
	"bytes"
	"context"
	"encoding/hex"
	"encoding/json"
	"fmt"
	"io/ioutil"
	"os"
	"os/exec"
	"strconv"
	"strings"
	"time"

	log "github.com/sirupsen/logrus"

	dbm "github.com/bytom/bytom/database/leveldb"
	"github.com/bytom/bytom/protocol/bc"
	cl "verifharness/chainlib"
	. "verifharness/hlib"
)

func main() { Main("C20", runC20, map[string]func([]string) int{"node": childNode}) }

// ---- operations ------------------------------------------------------------

const (
	kGet = iota
	kPut
	kDel
	kBNew
	kBSet
	kBDel
	kBWrite
	kIterAll
	kIterPrefix
	kIterStart
)

var kindName = []string{"get", "set", "delete", "batch-new", "batch-set", "batch-delete", "batch-write", "iter-all", "iter-prefix", "iter-start"}

type opT struct {
	kind   int
	sync   bool
	k      []byte // key, or prefix for the iterations
	v      []byte // value (nil = Go nil), or start for iter-start
	reopen bool   // harness event, LevelDB only: close and re-open the database before this op
}

func cp(b []byte) []byte {
	if b == nil {
		return nil
	}
	return append([]byte{}, b...)
}

// ---- observations ----------------------------------------------------------

type obsT struct {
	tag     int // 0 done, 1 get, 2 iter, 3 panic
	present bool
	val     []byte
	k0, v0  []byte
	items   [][2][]byte
	again   bool // Next() once more after it returned false (oracle only)
	msg     string
}

func (a obsT) equal(b obsT) bool {
	if a.tag != b.tag {
		return false
	}
	switch a.tag {
	case 1:
		return a.present == b.present && bytes.Equal(a.val, b.val)
	case 2:
		if !bytes.Equal(a.k0, b.k0) || !bytes.Equal(a.v0, b.v0) || len(a.items) != len(b.items) || a.again != b.again {
			return false
		}
		for i := range a.items {
			if !bytes.Equal(a.items[i][0], b.items[i][0]) || !bytes.Equal(a.items[i][1], b.items[i][1]) {
				return false
			}
		}
	}
	return true
}

// a byte string as one hexadecimal numeral with a leading 1 (decoded by Run.b)
func coqB(b []byte) string {
	if len(b) == 0 {
		return "[]"
	}
	return "(b 0x1" + hex.EncodeToString(b) + ")"
}
func coqV(b []byte) string {
	if b == nil {
		return "N_"
	}
	return "(S_ " + coqB(b) + ")"
}

func (o obsT) coq() string {
	switch o.tag {
	case 0:
		return "oD"
	case 1:
		if !o.present {
			return "oG N_"
		}
		return "oG (S_ " + coqB(o.val) + ")"
	case 2:
		var it []string
		for _, kv := range o.items {
			it = append(it, "("+coqB(kv[0])+","+coqB(kv[1])+")")
		}
		return "oI " + coqB(o.k0) + " " + coqB(o.v0) + " [" + strings.Join(it, ";") + "]"
	}
	return "oP"
}

func (o opT) coq() string {
	switch o.kind {
	case kGet:
		return "g " + coqB(o.k)
	case kPut:
		if o.sync {
			return "ps " + coqB(o.k) + " " + coqV(o.v)
		}
		return "p " + coqB(o.k) + " " + coqV(o.v)
	case kDel:
		if o.sync {
			return "ds " + coqB(o.k)
		}
		return "d " + coqB(o.k)
	case kBNew:
		return "bn"
	case kBSet:
		return "bs " + coqB(o.k) + " " + coqV(o.v)
	case kBDel:
		return "bd " + coqB(o.k)
	case kBWrite:
		return "bw"
	case kIterAll:
		return "ia"
	case kIterPrefix:
		return "ip " + coqB(o.k)
	}
	return "it " + coqB(o.k) + " " + coqV(o.v)
}

func hx(b []byte) interface{} {
	if b == nil {
		return nil
	}
	return hex.EncodeToString(b)
}

func (o opT) describe() map[string]interface{} {
	m := map[string]interface{}{"op": kindName[o.kind]}
	switch o.kind {
	case kGet, kDel, kBDel:
		m["key"] = hx(o.k)
	case kPut, kBSet:
		m["key"], m["value"] = hx(o.k), hx(o.v)
	case kIterPrefix:
		m["prefix"] = hx(o.k)
	case kIterStart:
		m["prefix"], m["start"] = hx(o.k), hx(o.v)
	}
	if o.sync {
		m["sync"] = true
	}
	if o.reopen {
		m["leveldb_reopened_before"] = true
	}
	return m
}

func (o obsT) describe() interface{} {
	switch o.tag {
	case 0:
		return "done"
	case 1:
		if !o.present {
			return "get: nil"
		}
		return "get: " + hex.EncodeToString(o.val) + "."
	case 2:
		var it []string
		for _, kv := range o.items {
			it = append(it, hex.EncodeToString(kv[0])+"="+hex.EncodeToString(kv[1]))
		}
		return fmt.Sprintf("iter: key0=%s. value0=%s. items=[%s] next-again=%v", hex.EncodeToString(o.k0), hex.EncodeToString(o.v0), strings.Join(it, " "), o.again)
	}
	return "panic: " + o.msg
}

// ---- running one backend -----------------------------------------------------

type backend struct {
	name    string
	db      dbm.DB
	batch   dbm.Batch
	pending []opT // the operations recorded in the current batch (to rebuild it after a re-open)
	reopen  func() dbm.DB
}

func (b *backend) newBatch() {
	b.batch = b.db.NewBatch()
	b.pending = nil
}

func drain(it dbm.Iterator) (o obsT) {
	defer it.Release()
	o.tag = 2
	o.k0 = cp(it.Key())
	o.v0 = cp(it.Value())
	// callers keep the slices Key()/Value() return (the store collects keys while it iterates):
	// what was returned must not change when the iterator moves on
	var kept [][2][]byte
	for n := 0; it.Next(); n++ {
		k, v := it.Key(), it.Value()
		kept = append(kept, [2][]byte{k, v})
		o.items = append(o.items, [2][]byte{cp(k), cp(v)})
		if n > 100000 {
			panic("iterator does not terminate")
		}
	}
	o.again = it.Next()
	for i := range kept {
		if !bytes.Equal(kept[i][0], o.items[i][0]) || !bytes.Equal(kept[i][1], o.items[i][1]) {
			return obsT{tag: 3, msg: fmt.Sprintf("the slices returned by Key()/Value() for entry %d changed after later Next() calls", i)}
		}
	}
	return o
}

func (b *backend) apply(o opT) (res obsT) {
	defer func() {
		if r := recover(); r != nil {
			res = obsT{tag: 3, msg: fmt.Sprint(r)}
		}
	}()
	if o.reopen && b.reopen != nil {
		b.db = b.reopen()
		pend := b.pending
		b.newBatch()
		for _, q := range pend {
			if q.kind == kBSet {
				b.batch.Set(cp(q.k), cp(q.v))
			} else {
				b.batch.Delete(cp(q.k))
			}
		}
		b.pending = pend
	}
	switch o.kind {
	case kGet:
		v := b.db.Get(cp(o.k))
		return obsT{tag: 1, present: v != nil, val: cp(v)}
	case kPut:
		if o.sync {
			b.db.SetSync(cp(o.k), cp(o.v))
		} else {
			b.db.Set(cp(o.k), cp(o.v))
		}
	case kDel:
		if o.sync {
			b.db.DeleteSync(cp(o.k))
		} else {
			b.db.Delete(cp(o.k))
		}
	case kBNew:
		b.newBatch()
	case kBSet:
		b.batch.Set(cp(o.k), cp(o.v))
		b.pending = append(b.pending, o)
	case kBDel:
		b.batch.Delete(cp(o.k))
		b.pending = append(b.pending, o)
	case kBWrite:
		b.batch.Write()
	case kIterAll:
		return drain(b.db.Iterator())
	case kIterPrefix:
		return drain(b.db.IteratorPrefix(cp(o.k)))
	case kIterStart:
		return drain(b.db.IteratorPrefixWithStart(cp(o.k), cp(o.v), false))
	}
	return obsT{tag: 0}
}

// ---- the LevelDB scratch database --------------------------------------------

type ldbEnv struct {
	dir   string
	db    *dbm.GoLevelDB
	cases int
}

func newLdbEnv() (*ldbEnv, error) {
	dir, err := os.MkdirTemp("", "verif-c20-ldb")
	if err != nil {
		return nil, err
	}
	e := &ldbEnv{dir: dir}
	if e.db, err = dbm.NewGoLevelDB("c20", dir); err != nil {
		os.RemoveAll(dir)
		return nil, err
	}
	return e, nil
}
func (e *ldbEnv) close() {
	e.db.Close()
	os.RemoveAll(e.dir)
}
func (e *ldbEnv) reopen() dbm.DB {
	e.db.Close()
	db, err := dbm.NewGoLevelDB("c20", e.dir)
	if err != nil {
		panic(err)
	}
	e.db = db
	return db
}

// fresh replaces the database by a new, empty one in a new directory
func (e *ldbEnv) fresh() {
	e.db.Close()
	os.RemoveAll(e.dir)
	dir, err := os.MkdirTemp("", "verif-c20-ldb")
	if err != nil {
		panic(err)
	}
	e.dir = dir
	if e.db, err = dbm.NewGoLevelDB("c20", dir); err != nil {
		panic(err)
	}
}

// clear empties the database through the underlying library (not through the code under test).
// Deleted entries stay in LevelDB's log as tombstones (iterators must skip them: part of what is
// exercised), so every few hundred cases the database is replaced by a fresh one.
func (e *ldbEnv) clear() {
	e.cases++
	if e.cases%400 == 0 {
		e.fresh()
		return
	}
	it := e.db.DB().NewIterator(nil, nil)
	var keys [][]byte
	for it.Next() {
		keys = append(keys, cp(it.Key()))
	}
	it.Release()
	for _, k := range keys {
		if err := e.db.DB().Delete(k, nil); err != nil {
			panic(err)
		}
	}
}

// ---- one case ------------------------------------------------------------------

type caseT struct {
	stream string
	ops    []opT
	om, ol []obsT
}

func (e *ldbEnv) runCase(cs *caseT) {
	e.clear()
	mem := &backend{name: "memdb", db: dbm.NewMemDB()}
	ldb := &backend{name: "leveldb", db: e.db, reopen: e.reopen}
	mem.newBatch()
	ldb.newBatch()
	cs.om, cs.ol = nil, nil
	for _, o := range cs.ops {
		cs.om = append(cs.om, mem.apply(o))
		cs.ol = append(cs.ol, ldb.apply(o))
	}
}

func (cs *caseT) describe() map[string]interface{} {
	var ops, om, ol []interface{}
	for i, o := range cs.ops {
		ops = append(ops, o.describe())
		om = append(om, cs.om[i].describe())
		ol = append(ol, cs.ol[i].describe())
	}
	return map[string]interface{}{"stream": cs.stream, "ops": ops, "memdb": om, "leveldb": ol}
}

// compact replayable description for the case index (observations are recomputed on replay)
func (cs *caseT) index() map[string]interface{} {
	var ops []string
	for _, o := range cs.ops {
		t := kindName[o.kind]
		if o.sync {
			t += "-sync"
		}
		switch o.kind {
		case kGet, kDel, kBDel, kIterPrefix:
			t += fmt.Sprintf(" %v", hx(o.k))
		case kPut, kBSet, kIterStart:
			t += fmt.Sprintf(" %v %v", hx(o.k), hx(o.v))
		}
		if o.reopen {
			t = "(reopen leveldb) " + t
		}
		ops = append(ops, t)
	}
	return map[string]interface{}{"stream": cs.stream, "ops (hex; <nil> = Go nil)": ops}
}

func (cs *caseT) coqOps() string {
	var s []string
	for _, o := range cs.ops {
		s = append(s, o.coq())
	}
	return "[" + strings.Join(s, ";") + "]"
}
func coqObs(l []obsT) string {
	var s []string
	for _, o := range l {
		s = append(s, o.coq())
	}
	return "[" + strings.Join(s, ";") + "]"
}

// oracle: the property itself on the two real backends.  Returns "" or the failure text.
func (cs *caseT) oracle() string {
	for i, o := range cs.ops {
		a, b := cs.om[i], cs.ol[i]
		if a.tag == 3 || b.tag == 3 {
			who := "memdb"
			if b.tag == 3 {
				who = "leveldb"
			}
			return fmt.Sprintf("class=panic: %s panics on op #%d (%s)", who, i, kindName[o.kind])
		}
		if !a.equal(b) {
			return fmt.Sprintf("class=%s-divergence: op #%d (%s) memdb returns %v, leveldb returns %v", kindName[o.kind], i, kindName[o.kind], a.describe(), b.describe())
		}
	}
	return ""
}

// ---- generators ------------------------------------------------------------------

var keyPool = [][]byte{
	{}, []byte("a"), []byte("ab"), []byte("ab\x00"), []byte("b"), []byte("a\xff"), []byte("a\xff\xff"),
	[]byte("a\xff\x00"), []byte("ac"), []byte("\xff"), []byte("\xff\xff"), []byte("b\x00"), []byte("aa"),
	[]byte("aba"), []byte("\x00"), []byte("a\xfe"), []byte("c"), []byte("a\xfe\xff"), []byte("\xff\xff\xff"), []byte("b\xff"),
}
var symbols = []byte{0x00, 'a', 'b', 0xfe, 0xff}

func randKey(r *Rng, maxLen int) []byte {
	n := r.Intn(maxLen + 1)
	k := make([]byte, n)
	for i := range k {
		k[i] = symbols[r.Intn(len(symbols))]
	}
	return k
}

// prefixLimit = util.BytesPrefix(p).Limit, recomputed here only to aim start keys at the boundary
func prefixLimit(p []byte) []byte {
	for i := len(p) - 1; i >= 0; i-- {
		if p[i] < 0xff {
			l := cp(p[:i+1])
			l[i]++
			return l
		}
	}
	return nil
}

type gen struct {
	c        *Ctx
	r        *Rng
	universe [][]byte
}

func (g *gen) pickUniverse(pool [][]byte, lo, hi, extra int) {
	g.universe = nil
	n := lo + g.r.Intn(hi-lo+1)
	for i := 0; i < n; i++ {
		g.universe = append(g.universe, pool[g.r.Intn(len(pool))])
	}
	for i := 0; i < extra; i++ {
		g.universe = append(g.universe, randKey(g.r, 4))
	}
}

func (g *gen) key() []byte {
	if g.r.Chance(88) {
		k := cp(g.universe[g.r.Intn(len(g.universe))])
		if len(k) == 0 && g.r.Bool() {
			g.c.Stats.Count("key.nil")
			return nil // a nil key is the empty key
		}
		return k
	}
	g.c.Stats.Count("key.random")
	return randKey(g.r, 5)
}

func (g *gen) value() []byte {
	switch x := g.r.Intn(100); {
	case x < 15:
		g.c.Stats.Count("value.nil")
		return nil
	case x < 30:
		g.c.Stats.Count("value.empty")
		return []byte{}
	case x < 98:
		g.c.Stats.Count("value.short")
		return g.r.Bytes(1 + g.r.Intn(4))
	}
	g.c.Stats.Count("value.long")
	return g.r.Bytes(40 + g.r.Intn(60))
}

func (g *gen) prefix() []byte {
	u := g.universe[g.r.Intn(len(g.universe))]
	switch x := g.r.Intn(100); {
	case x < 40:
		g.c.Stats.Count("prefix.is-a-key")
		return cp(u)
	case x < 65:
		g.c.Stats.Count("prefix.proper-prefix-of-key")
		if len(u) == 0 {
			return []byte{}
		}
		return cp(u[:g.r.Intn(len(u))])
	case x < 70:
		g.c.Stats.Count("prefix.nil")
		return nil
	case x < 75:
		g.c.Stats.Count("prefix.empty")
		return []byte{}
	case x < 85:
		g.c.Stats.Count("prefix.key-plus-byte")
		return append(cp(u), symbols[g.r.Intn(len(symbols))])
	}
	g.c.Stats.Count("prefix.random")
	return randKey(g.r, 3)
}

func (g *gen) start(p []byte) []byte {
	lim := prefixLimit(p)
	switch x := g.r.Intn(100); {
	case x < 12:
		g.c.Stats.Count("start.nil")
		return nil
	case x < 17:
		g.c.Stats.Count("start.empty")
		return []byte{}
	case x < 27:
		g.c.Stats.Count("start.equals-prefix")
		return cp(p)
	case x < 35:
		g.c.Stats.Count("start.before-prefix")
		if len(p) == 0 {
			return []byte{}
		}
		q := cp(p)
		if q[len(q)-1] > 0 && g.r.Bool() {
			q[len(q)-1]--
			if g.r.Bool() {
				q = append(q, 0xff)
			}
			return q
		}
		return q[:len(q)-1]
	case x < 60:
		g.c.Stats.Count("start.inside-prefix")
		q := cp(p)
		if q == nil {
			q = []byte{}
		}
		if g.r.Chance(60) {
			// an existing key under the prefix, or just after/before one
			var under [][]byte
			for _, u := range g.universe {
				if bytes.HasPrefix(u, p) {
					under = append(under, u)
				}
			}
			if len(under) > 0 {
				q = cp(under[g.r.Intn(len(under))])
				if q == nil {
					q = []byte{}
				}
				switch g.r.Intn(4) {
				case 0:
					q = append(q, 0x00)
				case 1:
					if len(q) > len(p) && q[len(q)-1] > 0 {
						q[len(q)-1]--
					}
				}
				return q
			}
		}
		return append(q, symbols[g.r.Intn(len(symbols))])
	case x < 72:
		g.c.Stats.Count("start.at-prefix-limit")
		if lim == nil {
			return append(cp(p), 0xff, 0xff)
		}
		if g.r.Bool() {
			return lim
		}
		// just below the limit: prefix followed by 0xff bytes
		return append(cp(p), 0xff, 0xff, 0xff)
	case x < 82:
		g.c.Stats.Count("start.after-prefix-range")
		if lim == nil {
			return []byte{0xff, 0xff, 0xff, 0xff, 0xff}
		}
		q := cp(lim)
		if g.r.Bool() {
			q = append(q, symbols[g.r.Intn(len(symbols))])
		} else {
			q[len(q)-1] = 0xff
		}
		return q
	case x < 92:
		g.c.Stats.Count("start.some-key")
		k := cp(g.universe[g.r.Intn(len(g.universe))])
		if k == nil {
			k = []byte{}
		}
		return k
	}
	g.c.Stats.Count("start.random")
	k := randKey(g.r, 4)
	return k
}

func (g *gen) iteration() opT {
	switch x := g.r.Intn(100); {
	case x < 8:
		return opT{kind: kIterAll}
	case x < 38:
		return opT{kind: kIterPrefix, k: g.prefix()}
	}
	p := g.prefix()
	return opT{kind: kIterStart, k: p, v: g.start(p)}
}

func (g *gen) write(batchBias int) opT {
	switch x := g.r.Intn(100); {
	case x < batchBias/2:
		return opT{kind: kBSet, k: g.key(), v: g.value()}
	case x < batchBias*3/4:
		return opT{kind: kBDel, k: g.key()}
	case x < batchBias:
		return opT{kind: kBWrite}
	case x < batchBias+(100-batchBias)*7/10:
		return opT{kind: kPut, sync: g.r.Chance(6), k: g.key(), v: g.value()}
	}
	return opT{kind: kDel, sync: g.r.Chance(6), k: g.key()}
}

func (g *gen) randomOp() opT {
	switch x := g.r.Intn(100); {
	case x < 24:
		return opT{kind: kPut, sync: g.r.Chance(6), k: g.key(), v: g.value()}
	case x < 34:
		return opT{kind: kGet, k: g.key()}
	case x < 42:
		return opT{kind: kDel, sync: g.r.Chance(6), k: g.key()}
	case x < 53:
		return opT{kind: kBSet, k: g.key(), v: g.value()}
	case x < 59:
		return opT{kind: kBDel, k: g.key()}
	case x < 66:
		return opT{kind: kBWrite}
	case x < 68:
		return opT{kind: kBNew}
	}
	return g.iteration()
}

func be8(h uint64) []byte {
	b := make([]byte, 8)
	for i := 7; i >= 0; i-- {
		b[i] = byte(h)
		h >>= 8
	}
	return b
}

func (g *gen) genCase() *caseT {
	r := g.r
	cs := &caseT{}
	switch x := r.Intn(100); {
	case x < 55:
		cs.stream = "random"
		g.pickUniverse(keyPool, 2, 7, r.Intn(3))
		n := 1 + r.Intn(40)
		for i := 0; i < n; i++ {
			cs.ops = append(cs.ops, g.randomOp())
		}
	case x < 75:
		cs.stream = "load-then-read"
		g.pickUniverse(keyPool, 3, 9, r.Intn(3))
		n := 3 + r.Intn(12)
		bias := []int{0, 40, 100}[r.Intn(3)]
		for i := 0; i < n; i++ {
			cs.ops = append(cs.ops, g.write(bias))
		}
		if bias > 0 {
			cs.ops = append(cs.ops, opT{kind: kBWrite})
		}
		m := 4 + r.Intn(14)
		for i := 0; i < m && len(cs.ops) < 40; i++ {
			if r.Chance(25) {
				cs.ops = append(cs.ops, opT{kind: kGet, k: g.key()})
			} else {
				cs.ops = append(cs.ops, g.iteration())
			}
		}
	case x < 85:
		// the shape of database/store_checkpoint.go: keys prefix+height(8 bytes BE)+hash under a
		// prefix that has neighbours ("cp" vs "cp:" vs "cq"), CheckpointsFromNode = start-bounded
		// iteration from one of the keys
		cs.stream = "checkpoint-like"
		pfx := []byte("cp:")
		var keys [][]byte
		nk := 2 + r.Intn(6)
		for i := 0; i < nk; i++ {
			k := append(cp(pfx), be8(uint64(r.Intn(4))*256+uint64(r.Intn(3)))...)
			k = append(k, byte(r.Intn(3)))
			keys = append(keys, k)
		}
		others := [][]byte{[]byte("cp"), []byte("cq"), []byte("cp;"), []byte("cp:"), []byte("co\xff"), []byte("d"), {}}
		g.universe = append(append([][]byte{}, keys...), others[r.Intn(len(others))], others[r.Intn(len(others))])
		useBatch := r.Bool()
		for _, k := range g.universe {
			if r.Chance(85) {
				if useBatch {
					cs.ops = append(cs.ops, opT{kind: kBSet, k: cp(k), v: g.value()})
				} else {
					cs.ops = append(cs.ops, opT{kind: kPut, k: cp(k), v: g.value()})
				}
			}
		}
		if useBatch {
			cs.ops = append(cs.ops, opT{kind: kBWrite})
		}
		m := 3 + r.Intn(8)
		for i := 0; i < m; i++ {
			switch r.Intn(5) {
			case 0:
				cs.ops = append(cs.ops, opT{kind: kIterPrefix, k: cp(keys[r.Intn(len(keys))][:3+8])})
			case 1:
				cs.ops = append(cs.ops, opT{kind: kDel, k: cp(keys[r.Intn(len(keys))])})
			case 2:
				k := cp(keys[r.Intn(len(keys))])
				k[len(k)-1] = byte(r.Intn(4))
				cs.ops = append(cs.ops, opT{kind: kIterStart, k: cp(pfx), v: k})
			default:
				cs.ops = append(cs.ops, opT{kind: kIterStart, k: cp(pfx), v: cp(keys[r.Intn(len(keys))])})
			}
		}
	default:
		// boundary stream: 0xff runs (the prefix upper bound), the empty key, long keys
		cs.stream = "boundary"
		pool := [][]byte{{}, []byte("\xff"), []byte("\xff\xff"), []byte("\xff\xff\xff"), []byte("a\xff"), []byte("a\xff\xff"),
			[]byte("a\xff\x00"), []byte("b"), []byte("a"), []byte("\xfe\xff"), []byte("\xff\x00"), []byte("\xfe"), []byte("b\xff\xff\xff")}
		g.pickUniverse(pool, 3, 8, 0)
		if r.Chance(30) {
			long := bytes.Repeat([]byte{0xff}, 100+r.Intn(150))
			if r.Bool() {
				long[0] = 'a'
			}
			g.universe = append(g.universe, long)
			g.c.Stats.Count("key.long")
		}
		n := 4 + r.Intn(30)
		for i := 0; i < n; i++ {
			if i < n/2 && r.Chance(60) {
				cs.ops = append(cs.ops, g.write(30))
			} else {
				cs.ops = append(cs.ops, g.randomOp())
			}
		}
	}
	if r.Chance(8) && len(cs.ops) > 1 {
		cs.ops[1+r.Intn(len(cs.ops)-1)].reopen = true
		g.c.Stats.Count("leveldb.reopened-mid-case")
	}
	return cs
}

// ---- exhaustive small scope (thorough tier) -----------------------------------------

func exhaustiveAlphabet() []opT {
	keys := [][]byte{[]byte("a"), []byte("ab"), []byte("a\xff"), []byte("b")}
	var al []opT
	for _, k := range keys {
		al = append(al, opT{kind: kGet, k: k}, opT{kind: kDel, k: k}, opT{kind: kBDel, k: k},
			opT{kind: kPut, k: k, v: nil}, opT{kind: kPut, k: k, v: []byte("x")},
			opT{kind: kBSet, k: k, v: []byte{}}, opT{kind: kBSet, k: k, v: []byte("y")})
	}
	al = append(al, opT{kind: kBWrite}, opT{kind: kIterAll})
	prefixes := [][]byte{{}, []byte("a"), []byte("ab"), []byte("a\xff"), []byte("b")}
	for _, p := range prefixes {
		al = append(al, opT{kind: kIterPrefix, k: p})
	}
	starts := [][]byte{nil, {}, []byte("a"), []byte("ab"), []byte("a\xff"), []byte("b"), []byte("a\xff\xff")}
	for _, p := range prefixes[:4] {
		for _, s := range starts {
			al = append(al, opT{kind: kIterStart, k: p, v: s})
		}
	}
	return al
}

// ---- the consequence for a node: same chain state on either backend -----------------
//
// Second sentence of the property.  A child process (a panic in the chain's goroutine would
// kill the harness) starts one protocol.Chain on GoLevelDB and one on MemDB, feeds both the
// same blocks (a trunk crossing epoch boundaries, optionally a side block), compares the
// state dumps and checkpoints, then restarts a chain on the same MemDB (NewChain reloads
// the checkpoints with IteratorPrefixWithStart).  Only a difference between the two nodes
// counts; if the LevelDB node itself fails the case is inconclusive.

type nodeReport struct {
	LdbStart     string `json:"leveldb_start"`
	MemStart     string `json:"memdb_start"`
	ProcessDiff  string `json:"process_diff"`
	DumpsEqual   bool   `json:"dumps_equal"`
	CpEqual      bool   `json:"checkpoints_equal"`
	MemRestart   string `json:"memdb_restart"`
	RestartEqual bool   `json:"restart_dump_equal"`
	Blocks       int    `json:"blocks"`
	Side         bool   `json:"side_block"`
}

func errStr(err error) string {
	if err == nil {
		return ""
	}
	return "error"
}

func childNode(args []string) int {
	log.SetOutput(ioutil.Discard)
	seed, _ := strconv.ParseUint(args[0], 10, 64)
	r := NewRng(seed)
	rep := nodeReport{}
	emit := func() int {
		js, _ := json.Marshal(rep)
		fmt.Println(string(js))
		return 0
	}
	w := cl.Init(cl.DefaultOptions())
	dir, err := os.MkdirTemp("", "verif-c20-node")
	if err != nil {
		return 2
	}
	defer os.RemoveAll(dir)
	nl, err := cl.NewNode(dir)
	rep.LdbStart = errStr(err)
	if err != nil {
		return emit()
	}
	defer nl.Close()
	nm, err := cl.NewNodeOnDB("", dbm.NewMemDB())
	rep.MemStart = errStr(err)
	if err != nil {
		return emit()
	}
	n := 5 + r.Intn(12)
	trunk := w.Trunk(w.Genesis, n)
	rep.Blocks = n
	var hs []bc.Hash
	for _, b := range trunk {
		o1, e1 := nl.Process(b.Block)
		o2, e2 := nm.Process(b.Block)
		if o1 != o2 || (e1 == nil) != (e2 == nil) {
			rep.ProcessDiff = fmt.Sprintf("block at height %d: leveldb orphan=%v err=%v, memdb orphan=%v err=%v", b.Block.Height, o1, e1 != nil, o2, e2 != nil)
			return emit()
		}
		hs = append(hs, b.Hash)
	}
	if r.Bool() {
		rep.Side = true
		side := w.NewBlock(trunk[r.Intn(len(trunk)-1)], nil, cl.BlockOpt{Skip: 1})
		nl.Process(side.Block)
		nm.Process(side.Block)
		hs = append(hs, side.Hash)
	}
	d1 := cl.JSON(nl.Dump(nil, hs, uint64(n+2)))
	rep.DumpsEqual = d1 == cl.JSON(nm.Dump(nil, hs, uint64(n+2)))
	rep.CpEqual = cl.JSON(nl.Checkpoints(hs)) == cl.JSON(nm.Checkpoints(hs))
	nm2, err := cl.NewNodeOnDB("", nm.DB)
	rep.MemRestart = errStr(err)
	if err == nil {
		rep.RestartEqual = cl.JSON(nm2.Dump(nil, hs, uint64(n+2))) == d1
	}
	return emit()
}

func runNodeCases(c *Ctx, n int) {
	for i := 0; i < n; i++ {
		seed := c.Rng.Next() % 1000000
		ctx, cancel := context.WithTimeout(context.Background(), 120*time.Second)
		out, err := exec.CommandContext(ctx, os.Args[0], "child", "node", fmt.Sprint(seed)).CombinedOutput()
		cancel()
		var rep nodeReport
		parsed := false
		for _, line := range strings.Split(string(out), "\n") {
			if strings.HasPrefix(line, "{") && json.Unmarshal([]byte(line), &rep) == nil {
				parsed = true
			}
		}
		desc := map[string]interface{}{"stream": "node", "child_seed": seed, "report": rep}
		c.Stats.Count("stream.node")
		switch {
		case !parsed:
			// the child died: a Go panic trace names the culprit; only the memory backend's is ours
			tail := string(out)
			if len(tail) > 1500 {
				tail = tail[len(tail)-1500:]
			}
			desc["child_error"] = fmt.Sprint(err)
			desc["child_output_tail"] = tail
			if strings.Contains(string(out), "mem_db.go") {
				c.Stats.Fail("class=node-divergence: the node process dies inside the memory backend", desc)
				c.Stats.Count("oracle.fail")
			} else {
				c.Stats.Count("node.inconclusive")
			}
		case rep.LdbStart != "":
			c.Stats.Count("node.inconclusive")
		case rep.MemStart != "":
			c.Stats.Fail("class=node-divergence: a chain starts on leveldb but not on memdb", desc)
			c.Stats.Count("oracle.fail")
		case rep.ProcessDiff != "" || !rep.DumpsEqual || !rep.CpEqual:
			c.Stats.Fail("class=node-divergence: same blocks, different chain state on memdb and leveldb: "+rep.ProcessDiff, desc)
			c.Stats.Count("oracle.fail")
		case rep.MemRestart != "" || !rep.RestartEqual:
			c.Stats.Fail("class=node-divergence: a chain restarted on the same memdb does not come back to the same state", desc)
			c.Stats.Count("oracle.fail")
		default:
			c.Stats.Count("node.same-state")
		}
		c.Stats.Case(fmt.Sprintf("node-%d", seed), parsed && rep.DumpsEqual)
	}
}

// ---- main -------------------------------------------------------------------------

func sizeBucket(n int) string {
	switch {
	case n == 0:
		return "0"
	case n == 1:
		return "1"
	case n <= 3:
		return "2-3"
	case n <= 8:
		return "4-8"
	case n <= 20:
		return "9-20"
	}
	return "21-40"
}

func runC20(c *Ctx) error {
	env, err := newLdbEnv()
	if err != nil {
		return err
	}
	defer env.close()
	g := &gen{c: c, r: c.Rng}

	record := func(cs *caseT, toModel bool, key string) {
		bad := cs.oracle()
		if bad != "" {
			c.Stats.Fail(bad, cs.describe())
			c.Stats.Count("oracle.fail")
		}
		nontrivial := false
		for i, o := range cs.ops {
			ob := cs.ol[i]
			if ob.tag == 2 {
				c.Stats.Count("iteration.items." + sizeBucket(len(ob.items)))
				if o.kind == kIterStart && o.v != nil {
					if len(ob.k0) > 0 || len(ob.items) > 0 {
						c.Stats.Count("iter-start.positioned-on-entry")
					} else {
						c.Stats.Count("iter-start.seek-found-nothing")
					}
				}
				if len(ob.items) > 0 {
					nontrivial = true
				}
			}
			if ob.tag == 1 {
				if ob.present {
					nontrivial = true
					if len(ob.val) == 0 {
						c.Stats.Count("get.present-empty")
					} else {
						c.Stats.Count("get.present")
					}
				} else {
					c.Stats.Count("get.absent")
				}
			}
			c.Stats.Count("op." + kindName[o.kind])
		}
		if key == "" {
			key = cs.coqOps()
		}
		c.Stats.Case(key, nontrivial)
		if toModel {
			var id int
			if bad == "" {
				id = c.Cases.Add("agree "+cs.coqOps()+" "+coqObs(cs.ol), "true")
			} else {
				id = c.Cases.Add("agree2 "+cs.coqOps()+" "+coqObs(cs.om)+" "+coqObs(cs.ol), "true")
			}
			c.Stats.CaseIndex[fmt.Sprint(id)] = cs.index()
			c.Stats.Count("model_evaluated")
		}
	}

	// fixed regression cases first: the witnesses of the defects found in the pinned tree
	fixed := [][]opT{
		{{kind: kPut, k: []byte("a1"), v: []byte("1")}, {kind: kPut, k: []byte("a2"), v: []byte("2")}, {kind: kPut, k: []byte("b1"), v: []byte("3")},
			{kind: kIterStart, k: []byte("a"), v: []byte("a2")}, {kind: kIterStart, k: []byte("a"), v: nil}, {kind: kIterStart, k: []byte("b"), v: []byte("a1")}},
		{{kind: kPut, k: []byte("n"), v: nil}, {kind: kGet, k: []byte("n")}, {kind: kBSet, k: []byte("m"), v: nil}, {kind: kBWrite}, {kind: kGet, k: []byte("m")}, {kind: kIterAll}},
		{{kind: kPut, k: []byte{}, v: []byte("e")}, {kind: kIterPrefix, k: []byte("a")}, {kind: kIterStart, k: []byte("a"), v: []byte("z")}, {kind: kIterStart, k: nil, v: []byte{}}},
		{{kind: kBSet, k: []byte("k"), v: []byte("1")}, {kind: kBDel, k: []byte("k")}, {kind: kBWrite}, {kind: kGet, k: []byte("k")},
			{kind: kBSet, k: []byte("k"), v: []byte("2")}, {kind: kBWrite}, {kind: kGet, k: []byte("k")}, {kind: kDel, k: []byte("k")}, {kind: kBWrite}, {kind: kGet, k: []byte("k")}},
		{{kind: kPut, k: []byte("a\xff"), v: []byte("1")}, {kind: kPut, k: []byte("a\xff\xff"), v: []byte("2")}, {kind: kPut, k: []byte("b"), v: []byte("3")}, {kind: kPut, k: []byte("\xff\xff"), v: []byte("4")},
			{kind: kIterPrefix, k: []byte("a\xff")}, {kind: kIterPrefix, k: []byte("\xff")}, {kind: kIterStart, k: []byte("a\xff"), v: []byte("a\xff\x00")}, {kind: kIterStart, k: []byte("a"), v: []byte("b")}},
	}
	for _, ops := range fixed {
		cs := &caseT{stream: "fixed", ops: ops}
		env.runCase(cs)
		c.Stats.Count("stream.fixed")
		record(cs, true, "")
	}

	total := c.N(2000, 6000)
	for i := 0; i < total; i++ {
		cs := g.genCase()
		env.runCase(cs)
		c.Stats.Count("stream." + cs.stream)
		c.Stats.Count("case.len." + sizeBucket(len(cs.ops)))
		record(cs, true, "")
		if i%397 == 5 || (len(c.Stats.Samples) < 2 && len(cs.ops) >= 6 && len(cs.ops) <= 12) {
			c.Stats.Sample(cs.describe())
		}
	}

	runNodeCases(c, c.N(2, 6))

	if c.Thorough() {
		// every sequence of length <= 3 over the alphabet (4 keys sharing prefixes, nil/empty/non-empty
		// values, every prefix and start position), from the empty database and from a loaded one with
		// a pending batch.  Oracle on all of them; one in modelEvery goes to the model.
		al := exhaustiveAlphabet()
		preambles := [][]opT{nil, {
			{kind: kPut, k: []byte("a"), v: []byte("1")}, {kind: kPut, k: []byte("ab"), v: []byte{}}, {kind: kPut, k: []byte("b"), v: []byte("2")},
			{kind: kBSet, k: []byte("a\xff"), v: []byte("3")}, {kind: kBDel, k: []byte("a")}}}
		count := 0
		const modelEvery = 251
		for pi, pre := range preambles {
			var rec func(seq []opT, path string, depth int)
			rec = func(seq []opT, path string, depth int) {
				if len(seq) > 0 {
					cs := &caseT{stream: fmt.Sprintf("exhaustive-%d", pi), ops: append(append([]opT{}, pre...), seq...)}
					env.runCase(cs)
					count++
					c.Stats.Count("stream.exhaustive")
					record(cs, count%modelEvery == 0, path)
				}
				if depth == 0 {
					return
				}
				for i, o := range al {
					rec(append(seq, o), fmt.Sprintf("%s.%d", path, i), depth-1)
				}
			}
			rec(nil, fmt.Sprintf("exhaustive-%d", pi), 3)
		}
		c.Stats.Exhaustive = true
		c.Stats.Extra["exhaustive_alphabet_size"] = len(al)
		c.Stats.Extra["exhaustive_sequences"] = count
	}

	// degenerate-stream guard (a broken check, not a violation); the stream statistics are taken
	// from what the backends return, so they mean nothing once the oracle has failed
	d := c.Stats.Distribution
	if d["oracle.fail"] == 0 && (d["iter-start.positioned-on-entry"] < total/10 || d["iter-start.seek-found-nothing"] < total/20 ||
		d["get.present"] == 0 || d["get.present-empty"] == 0 || d["get.absent"] == 0 || d["op.batch-write"] < total/4) {
		return fmt.Errorf("degenerate input stream: %v", d)
	}
	c.Stats.Rule = "a case is a sequence of up to 40 operations of dbm.DB (get, set/setSync, delete/deleteSync, batch set/delete/write/new, Iterator, IteratorPrefix, forward IteratorPrefixWithStart) run on a fresh MemDB and on an emptied GoLevelDB; keys from a small pool sharing prefixes (\"\", a, ab, ab\\x00, a\\xff, a\\xff\\xff, \\xff..., b, ...) plus random keys over {00,a,b,fe,ff}; nil, empty, short and long values; prefixes that are keys / proper prefixes / nil / empty / key+byte; starts nil, empty, equal to / before / inside / at the limit of / beyond the prefix range. distinct = distinct operation sequence; non-trivial = some iteration yields at least one entry or some get finds a key. Plus a few node-level cases (child process): one protocol.Chain on each backend fed the same blocks must end in the same state dump and checkpoints, and a chain restarted on the same MemDB must come back to it. Oracle: every observable (get: nil or bytes; iteration: Key/Value of the fresh iterator, Key/Value after each successful Next, Next staying false) is equal on the two real backends, no panic."
	return c.Cases.Write(c.Out, "From Coq Require Import List NArith Bool.\nFrom C20 Require Import Model Run.\nImport ListNotations.\nOpen Scope N_scope.\n", "bool", "Bool.eqb")
}
