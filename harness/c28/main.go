package main

// C28 — key derivation and signatures are consistent.
//
// Implementation under test (public API; one hook, pseudohsm.VerifNew = New with explicit scrypt
// parameters, used by the stages of store.go):
//   chainkd.RootXPrv / XPrv.XPub / XPrv.Derive / XPub.Derive / XPrv.Sign / XPub.Verify,
//   ExpandedPrivateKey.Sign / Public, pseudohsm.EncryptKey / DecryptKey, HSM.XCreate /
//   ImportKeyFromMnemonic / XSign / LoadChainKDKey / ResetPassword / UpdateKeyAlias / XDelete /
//   Backup / Restore on scratch key directories.
// Stages (1)-(4) are in this file, (5) concurrent signing in conc.go, (6)-(9) the key store as a
// whole (life cycles, signing while the key file is rewritten, failing rewrites, duplicate
// import) in store.go, their Coq cases in storemodel.go.
//
// Direct oracle (property predicate on implementation outputs only):
//   * xprv.Derive(path).XPub() == xprv.XPub().Derive(path), and no panic, for every key
//     whose scalars stay below 2^255 (all seed-derived keys);
//   * xpub.Verify(msg, xprv.Sign(msg)); a different key, a different message and a
//     bit-flipped signature do not verify;
//   * DecryptKey(EncryptKey(k, pw), pw) returns k (and signs identically); every other
//     password is rejected; HSM.XSign equals deriving and signing with the original key.
//
// Correspondence: the Coq model (C28/Model.v) evaluated on the same inputs with the group,
// HMAC-SHA512, SHA-512, scrypt, AES-CTR and SHA-256 given as finite tables computed HERE
// with the Go standard library (and ecmath for points) by an independent reference
// computation on math/big.

import (
	"bytes"
	"crypto/aes"
	"crypto/cipher"
	"crypto/hmac"
	crand "crypto/rand"
	"crypto/sha512"
	"encoding/hex"
	"encoding/json"
	"fmt"
	"io/ioutil"
	"math/big"
	"os"
	"path/filepath"
	"strings"
	"time"

	"github.com/pborman/uuid"
	"golang.org/x/crypto/scrypt"

	"github.com/bytom/bytom/blockchain/pseudohsm"
	"github.com/bytom/bytom/crypto/ed25519/chainkd"
	"github.com/bytom/bytom/crypto/ed25519/ecmath"
	mnem "github.com/bytom/bytom/wallet/mnemonic"
	. "verifharness/hlib"
)

func main() { Main("C28", run, nil) }

// ---------------------------------------------------------------- helpers

type rngReader struct{ r *Rng }

func (r *rngReader) Read(p []byte) (int, error) {
	copy(p, r.r.Bytes(len(p)))
	return len(p), nil
}

func le(b []byte) *big.Int {
	r := make([]byte, len(b))
	for i := range b {
		r[len(b)-1-i] = b[i]
	}
	return new(big.Int).SetBytes(r)
}

func le32(n *big.Int) []byte {
	be := n.Bytes()
	out := make([]byte, 32)
	for i := 0; i < len(be) && i < 32; i++ {
		out[i] = be[len(be)-1-i]
	}
	return out
}

// X: Coq byte string (X len little-endian-number)
func X(b []byte) string { return fmt.Sprintf("(X %d 0x%s)", len(b), le(b).Text(16)) }

// big number as a Coq N literal
func NX(n *big.Int) string { return "0x" + n.Text(16) }

func XL(bs [][]byte) string {
	it := make([]string, len(bs))
	for i, b := range bs {
		it[i] = X(b)
	}
	return CoqList(it)
}

var (
	two255 = new(big.Int).Lsh(big.NewInt(1), 255)
	two256 = new(big.Int).Lsh(big.NewInt(1), 256)
	ordL, _ = new(big.Int).SetString("7237005577332262213973186563042994240857116359379907606001950938285454250989", 10)
)

// tables handed to the model
type tabs struct {
	hm, sh, sm, ga, gn, gm, de, kd, ct []string
	seen                                   map[string]bool
}

func newTabs() *tabs { return &tabs{seen: map[string]bool{}} }

func (t *tabs) add(l *[]string, tag, e string) {
	if !t.seen[tag+e] {
		t.seen[tag+e] = true
		*l = append(*l, e)
	}
}

func (t *tabs) coq() string {
	return "(Build_tabs " + strings.Join([]string{CoqList(t.hm), CoqList(t.sh), CoqList(t.sm), CoqList(t.ga),
		CoqList(t.gn), CoqList(t.gm), CoqList(t.de), CoqList(t.kd), CoqList(t.ct)}, "\n  ") + ")"
}

func (t *tabs) hmac(key, msg []byte) []byte {
	h := hmac.New(sha512.New, key)
	h.Write(msg)
	out := h.Sum(nil)
	t.add(&t.hm, "hm", "("+X(key)+", "+X(msg)+", "+X(out)+")")
	return out
}

func (t *tabs) sha(msg []byte) []byte {
	d := sha512.Sum512(msg)
	t.add(&t.sh, "sh", "("+X(msg)+", "+X(d[:])+")")
	return d[:]
}

// n*B encoded (ecmath.ScMulBase on the 32 little-endian bytes of n, n < 2^256)
func (t *tabs) smul(n *big.Int) []byte {
	var s ecmath.Scalar
	copy(s[:], le32(n))
	var P ecmath.Point
	P.ScMulBase(&s)
	e := P.Encode()
	t.add(&t.sm, "sm", "("+NX(n)+", "+X(e[:])+")")
	return e[:]
}

func decodePt(b []byte) (*ecmath.Point, bool) {
	if len(b) != 32 {
		return nil, false
	}
	var a [32]byte
	copy(a[:], b)
	var P ecmath.Point
	_, ok := P.Decode(a)
	return &P, ok
}

func (t *tabs) dec(b []byte) (*ecmath.Point, bool) {
	P, ok := decodePt(b)
	if ok {
		t.add(&t.de, "de", X(b))
	}
	return P, ok
}

func (t *tabs) gadd(p, q []byte) []byte {
	P, ok1 := decodePt(p)
	Q, ok2 := decodePt(q)
	if !ok1 || !ok2 {
		return nil
	}
	var R ecmath.Point
	R.Add(P, Q)
	e := R.Encode()
	t.add(&t.ga, "ga", "("+X(p)+", "+X(q)+", "+X(e[:])+")")
	return e[:]
}

func (t *tabs) gneg(p []byte) []byte {
	P, ok := decodePt(p)
	if !ok {
		return nil
	}
	var R ecmath.Point
	R.Sub(&ecmath.ZeroPoint, P)
	e := R.Encode()
	t.add(&t.gn, "gn", "("+X(p)+", "+X(e[:])+")")
	return e[:]
}

func (t *tabs) gmul(k *big.Int, p []byte) []byte {
	P, ok := decodePt(p)
	if !ok {
		return nil
	}
	var s ecmath.Scalar
	copy(s[:], le32(k))
	var R ecmath.Point
	R.ScMul(P, &s)
	e := R.Encode()
	t.add(&t.gm, "gm", "("+NX(k)+", "+X(p)+", "+X(e[:])+")")
	return e[:]
}

func (t *tabs) kdf(pw, salt []byte, n, p int) []byte {
	dk, err := scrypt.Key(pw, salt, n, 8, p, 32)
	if err != nil {
		panic(err)
	}
	t.add(&t.kd, "kd", "("+X(pw)+", "+X(salt)+", "+X(dk)+")")
	return dk
}

func (t *tabs) ctr(key, iv []byte, n int) []byte {
	if len(key) != 16 || len(iv) != 16 {
		return nil
	}
	blk, err := aes.NewCipher(key)
	if err != nil {
		panic(err)
	}
	out := make([]byte, n)
	cipher.NewCTR(blk, iv).XORKeyStream(out, out)
	t.add(&t.ct, "ct", "("+X(key)+", "+X(iv)+", "+X(out)+")")
	return out
}

// ---------------------------------------------------------------- reference computation (math/big)

func pruneRoot(s []byte) {
	s[0] &= 248
	s[31] &= 31
	s[31] |= 64
}

func pruneInt(f []byte) {
	f[0] &= 248
	f[29] &= 1
	f[30] = 0
	f[31] = 0
}

func (t *tabs) refRoot(seed []byte) []byte {
	h := t.hmac([]byte("Root"), seed)
	pruneRoot(h[:32])
	return h
}

func (t *tabs) refXPub(x []byte) []byte {
	return append(append([]byte{}, t.smul(le(x[:32]))...), x[32:]...)
}

// returns nil for the carry-out panic
func (t *tabs) refChildPrv(x, sel []byte) []byte {
	xp := t.refXPub(x)
	h := t.hmac(xp[32:], append(append([]byte{'N'}, xp[:32]...), sel...))
	pruneInt(h[:32])
	sum := new(big.Int).Add(le(x[:32]), le(h[:32]))
	if sum.Cmp(two256) >= 0 {
		return nil
	}
	return append(le32(sum), h[32:]...)
}

// returns nil for the decode panic
func (t *tabs) refChildPub(xp, sel []byte) []byte {
	h := t.hmac(xp[32:], append(append([]byte{'N'}, xp[:32]...), sel...))
	pruneInt(h[:32])
	F := t.smul(le(h[:32]))
	if _, ok := t.dec(xp[:32]); !ok {
		return nil
	}
	return append(t.gadd(xp[:32], F), h[32:]...)
}

// reference derivation; below255 reports whether every scalar on the way (and the
// result) is a valid Ed25519 scalar (< 2^255), i.e. inside the domain of ScMulBase
func (t *tabs) refDerive(x []byte, path [][]byte) (prv, pubOfPrv, pub []byte, below255 bool) {
	below255 = le(x[:32]).Cmp(two255) < 0
	prv = x
	pub = t.refXPub(x)
	for _, sel := range path {
		if prv != nil {
			prv = t.refChildPrv(prv, sel)
			if prv == nil || le(prv[:32]).Cmp(two255) >= 0 {
				below255 = false
			}
		}
		if pub != nil {
			pub = t.refChildPub(pub, sel)
		}
	}
	if prv != nil {
		pubOfPrv = t.refXPub(prv)
	}
	return
}

func (t *tabs) refSign(x, msg []byte) []byte {
	h := t.hmac([]byte("Expand"), x)
	prefix := h[32:]
	a := le(x[:32])
	r := new(big.Int).Mod(le(t.sha(append(append([]byte{}, prefix...), msg...))), ordL)
	R := t.smul(r)
	pk := t.smul(a)
	k := new(big.Int).Mod(le(t.sha(append(append(append([]byte{}, R...), pk...), msg...))), ordL)
	s := new(big.Int).Mul(k, a)
	s.Add(s, r).Mod(s, ordL)
	return append(append([]byte{}, R...), le32(s)...)
}

func (t *tabs) refVerify(pk, msg, sig []byte) bool {
	if len(sig) != 64 || sig[63]&224 != 0 {
		return false
	}
	if _, ok := t.dec(pk); !ok {
		return false
	}
	R := sig[:32]
	k := new(big.Int).Mod(le(t.sha(append(append(append([]byte{}, R...), pk...), msg...))), ordL)
	s := le(sig[32:])
	if s.Cmp(ordL) >= 0 {
		return false
	}
	nA := t.gneg(pk)
	kA := t.gmul(k, nA)
	sB := t.smul(s)
	Rp := t.gadd(kA, sB)
	return bytes.Equal(R, Rp)
}

// ---------------------------------------------------------------- implementation wrappers

func implDerivePrv(x chainkd.XPrv, path [][]byte) (res chainkd.XPrv, panicked bool) {
	defer func() {
		if r := recover(); r != nil {
			panicked = true
		}
	}()
	return x.Derive(path), false
}

func implDerivePub(x chainkd.XPub, path [][]byte) (res chainkd.XPub, panicked bool) {
	defer func() {
		if r := recover(); r != nil {
			panicked = true
		}
	}()
	return x.Derive(path), false
}

func ocOk(b []byte) string { return X(append([]byte{1}, b...)) }

const ocPanic = "(X 1 2)"

func ocErr(code byte) string { return X([]byte{3, code}) }
func obool(b bool) string {
	if b {
		return "(X 1 1)"
	}
	return "(X 1 0)"
}

func hexes(bs [][]byte) []string {
	out := make([]string, len(bs))
	for i, b := range bs {
		out[i] = hex.EncodeToString(b)
	}
	return out
}

// ---------------------------------------------------------------- generators

func genSel(r *Rng) []byte {
	switch r.Intn(10) {
	case 0:
		return []byte{}
	case 1, 2, 3: // the wallet's selectors: little-endian indices
		b := make([]byte, []int{1, 4, 8}[r.Intn(3)])
		v := uint64(r.Intn(300))
		if r.Chance(20) {
			v = r.Next()
		}
		for i := range b {
			b[i] = byte(v >> (8 * uint(i)))
		}
		return b
	case 4: // BIP44-style constants used by the account manager
		return [][]byte{{0x2c, 0, 0, 0}, {0x99, 0, 0, 0}, {0, 0, 0, 0}, {1, 0, 0, 0}, {0xff, 0xff, 0xff, 0xff}}[r.Intn(5)]
	case 5:
		return r.Bytes(32 + r.Intn(40))
	default:
		return r.Bytes(1 + r.Intn(16))
	}
}

func genPath(r *Rng, max int) [][]byte {
	d := r.Intn(max + 1)
	if r.Chance(25) {
		d = max
	}
	p := make([][]byte, d)
	for i := range p {
		p[i] = genSel(r)
	}
	return p
}

func genSeed(r *Rng) []byte {
	switch r.Intn(8) {
	case 0:
		return []byte{}
	case 1:
		return r.Bytes(1 + r.Intn(15))
	case 2:
		return make([]byte, 32) // all zero
	case 3:
		return bytes.Repeat([]byte{0xff}, 64)
	case 4:
		return r.Bytes(16)
	case 5:
		return r.Bytes(32)
	case 6:
		return r.Bytes(65 + r.Intn(64))
	default:
		return r.Bytes(64) // the size NewXPrv reads
	}
}

// raw xprv streams: (kind, 64 bytes)
func genRaw(r *Rng) (string, []byte) {
	x := r.Bytes(64)
	switch r.Intn(8) {
	case 0, 1: // arbitrary valid Ed25519 scalar region, not necessarily a multiple of 8
		x[31] &= 63
		return "raw-below-2^254", x
	case 2: // low 29 bytes all ones: the carry ripples through the whole chain
		for i := 0; i < 29; i++ {
			x[i] = 0xff
		}
		x[29] |= 1
		x[31] &= 63
		return "raw-carry-ripple", x
	case 3: // just below 2^255: derivation leaves the Ed25519 scalar range
		x[31] = 0x7f
		x[30] = 0xff
		x[29] = 0xff
		return "raw-near-2^255", x
	case 4, 5: // just below 2^256: the carry-out panic
		x[31] = 0xff
		x[30] = 0xff
		x[29] = 0xfe | byte(r.Intn(2))
		if r.Bool() {
			for i := 20; i < 29; i++ {
				x[i] = 0xff
			}
		}
		return "raw-near-2^256", x
	case 6: // zero scalar
		for i := 0; i < 32; i++ {
			x[i] = 0
		}
		return "raw-zero-scalar", x
	default:
		return "raw-any", x
	}
}

func genMsg(r *Rng) []byte {
	switch r.Intn(6) {
	case 0:
		return []byte{}
	case 1, 2, 3:
		return r.Bytes(32) // a transaction signature hash
	case 4:
		return r.Bytes(1 + r.Intn(31))
	default:
		return r.Bytes(33 + r.Intn(100))
	}
}

func genPw(r *Rng) string {
	switch r.Intn(6) {
	case 0:
		return ""
	case 1:
		return "password"
	case 2:
		return string(r.Bytes(1 + r.Intn(8))) // arbitrary bytes, not necessarily UTF-8
	case 3:
		return "pässwörd-" + fmt.Sprint(r.Intn(1000))
	default:
		const cs = "abcdefghijklmnopqrstuvwxyzABCDEFGHIJKLMNOPQRSTUVWXYZ0123456789 !#"
		b := make([]byte, 1+r.Intn(20))
		for i := range b {
			b[i] = cs[r.Intn(len(cs))]
		}
		return string(b)
	}
}

func otherPw(r *Rng, pw string) (string, string) {
	for {
		var q, kind string
		switch r.Intn(6) {
		case 0:
			q, kind = "", "empty"
		case 1:
			q, kind = pw+"x", "extended"
		case 2:
			if len(pw) > 0 {
				q, kind = pw[:len(pw)-1], "truncated"
			}
		case 3:
			if len(pw) > 0 {
				b := []byte(pw)
				b[r.Intn(len(b))] ^= 1 << uint(r.Intn(8))
				q, kind = string(b), "bit-flipped"
			}
		case 4:
			q, kind = strings.ToUpper(pw), "upper-cased"
		default:
			q, kind = genPw(r), "unrelated"
		}
		if kind != "" && q != pw {
			return q, kind
		}
	}
}

func flipBit(r *Rng, b []byte) []byte {
	c := append([]byte{}, b...)
	if len(c) > 0 {
		c[r.Intn(len(c))] ^= 1 << uint(r.Intn(8))
	}
	return c
}

// ---------------------------------------------------------------- derivation cases

func deriveCase(c *Ctx, idx int, withModel bool) {
	r := c.Rng
	t := newTabs()
	var x0 chainkd.XPrv
	var model, kind string
	var seed []byte
	fromSeed := r.Chance(65)
	path := genPath(r, 8)
	if fromSeed {
		kind = "seed"
		seed = genSeed(r)
		x0 = chainkd.RootXPrv(seed)
		t.refRoot(seed)
	} else {
		var raw []byte
		kind, raw = genRaw(r)
		copy(x0[:], raw)
		if len(path) == 0 {
			path = [][]byte{genSel(r)}
		}
	}
	c.Stats.Count("derive:stream:" + kind)
	c.Stats.Count(fmt.Sprintf("derive:depth:%d", len(path)))

	// implementation
	xp0 := x0.XPub()
	dprv, pPrv := implDerivePrv(x0, path)
	dpub, pPub := implDerivePub(xp0, path)
	var dprvPub chainkd.XPub
	if !pPrv {
		dprvPub = dprv.XPub()
	}

	// reference (fills the tables)
	_, _, _, below := t.refDerive(x0[:], path)

	desc := map[string]interface{}{"kind": "derive", "stream": kind, "seed": hex.EncodeToString(seed),
		"xprv": hex.EncodeToString(x0[:]), "path": hexes(path), "index": idx}

	// direct oracle
	if below || fromSeed {
		if pPrv || pPub {
			c.Stats.Fail(fmt.Sprintf("class=derive-panic: derivation panicked (xprv %v, xpub %v) for a key whose scalars stay below 2^255", pPrv, pPub), desc)
		} else if dprvPub != dpub {
			desc["xpub_of_derived_xprv"] = hex.EncodeToString(dprvPub[:])
			desc["derived_xpub"] = hex.EncodeToString(dpub[:])
			c.Stats.Fail("class=derive-commute: xprv.Derive(path).XPub() differs from xprv.XPub().Derive(path)", desc)
		}
		c.Stats.Count("derive:oracle-applied")
	} else {
		c.Stats.Count("derive:oracle-skipped-scalar>=2^255")
	}
	if fromSeed {
		// input distribution only (not part of the property): is the root scalar in the pruned range?
		a := le(x0[:32])
		lo := new(big.Int).Lsh(big.NewInt(1), 254)
		hi := new(big.Int).Add(lo, new(big.Int).Lsh(big.NewInt(1), 253))
		c.Stats.Count(fmt.Sprintf("derive:root-scalar-in-[2^254,2^254+2^253):%v", a.Cmp(lo) >= 0 && a.Cmp(hi) < 0))
	}
	if pPrv {
		c.Stats.Count("derive:result:panic")
	} else {
		c.Stats.Count("derive:result:ok")
	}

	// model
	if fromSeed {
		model = fmt.Sprintf("run_seed %s %s %s", t.coq(), X(seed), XL(path))
	} else {
		model = fmt.Sprintf("run_raw %s %s %s", t.coq(), X(x0[:]), XL(path))
	}
	obs := []string{X(x0[:]), X(xp0[:])}
	if pPrv {
		obs = append(obs, ocPanic, ocPanic)
	} else {
		obs = append(obs, ocOk(dprv[:]), ocOk(dprvPub[:]))
	}
	if pPub {
		obs = append(obs, ocPanic)
	} else {
		obs = append(obs, ocOk(dpub[:]))
	}
	if withModel {
		id := c.Cases.Add(model, CoqList(obs))
		c.Stats.CaseIndex[fmt.Sprint(id)] = desc
		c.Stats.Count("model_evaluated")
	}
	c.Stats.Case(fmt.Sprintf("derive|%x|%x", x0[:], path), len(path) >= 1)
	if idx%37 == 0 {
		desc2 := map[string]interface{}{"kind": "derive", "stream": kind, "xprv": hex.EncodeToString(x0[:]), "path": hexes(path),
			"derived_xpub": hex.EncodeToString(dpub[:]), "panic": pPrv}
		c.Stats.Sample(desc2)
	}
}

// ---------------------------------------------------------------- signing cases

func signCase(c *Ctx, idx int, withModel bool) {
	r := c.Rng
	t := newTabs()
	seed := genSeed(r)
	root := chainkd.RootXPrv(seed)
	path := genPath(r, 3)
	k, pk := implDerivePrv(root, path)
	desc := map[string]interface{}{"kind": "sign", "seed": hex.EncodeToString(seed), "path": hexes(path), "index": idx}
	if pk {
		c.Stats.Fail("class=derive-panic: derivation from a seed panicked", desc)
		return
	}
	t.refDerive(root[:], path)
	xp := k.XPub()
	msg := genMsg(r)
	desc["msg"] = hex.EncodeToString(msg)
	sig := k.Sign(msg)
	desc["sig"] = hex.EncodeToString(sig)
	t.refSign(k[:], msg)

	// another key: sibling / child / unrelated root
	var other chainkd.XPub
	switch r.Intn(3) {
	case 0:
		other = k.Child(genSel(r), false).XPub()
	case 1:
		other = chainkd.RootXPrv(r.Bytes(32)).XPub()
	default:
		other = root.Derive(append(append([][]byte{}, path...), genSel(r))).XPub()
	}
	if other == xp {
		other = chainkd.RootXPrv([]byte("another key")).XPub()
	}
	// another message
	var msg2 []byte
	switch r.Intn(4) {
	case 0:
		msg2 = append(append([]byte{}, msg...), byte(r.Intn(256)))
	case 1:
		if len(msg) > 0 {
			msg2 = msg[:len(msg)-1]
		} else {
			msg2 = []byte{0}
		}
	case 2:
		msg2 = genMsg(r)
		if bytes.Equal(msg2, msg) {
			msg2 = append(msg2, 1)
		}
	default:
		if len(msg) > 0 {
			msg2 = flipBit(r, msg)
		} else {
			msg2 = []byte{1}
		}
	}
	type att struct {
		kind    string
		pk      []byte
		msg     []byte
		sig     []byte
		want    int // 1 must verify, 0 must fail, -1 not part of the property (model comparison only)
	}
	sPlusL := append(append([]byte{}, sig[:32]...), le32(new(big.Int).Add(le(sig[32:]), ordL))...)
	junkPk := r.Bytes(32)
	atts := []att{
		{"own-key-own-message", xp[:32], msg, sig, 1},
		{"other-key", other[:32], msg, sig, 0},
		{"other-message", xp[:32], msg2, sig, 0},
		{"bit-flipped-signature", xp[:32], msg, flipBit(r, sig), 0},
		{"s-plus-L", xp[:32], msg, sPlusL, -1},
		{"truncated-signature", xp[:32], msg, sig[:63], -1},
		{"random-public-key", junkPk, msg, sig, -1},
	}
	if r.Chance(30) {
		z := make([]byte, 64)
		atts = append(atts, att{"zero-signature", xp[:32], msg, z, -1})
	}
	obs := []string{"(X 1 1)", X(xp[:]), X(sig)}
	var items []string
	for _, a := range atts {
		var xa chainkd.XPub
		copy(xa[:32], a.pk)
		got := xa.Verify(a.msg, a.sig)
		t.refVerify(a.pk, a.msg, a.sig)
		c.Stats.Count(fmt.Sprintf("verify:%s:%v", a.kind, got))
		if a.want == 1 && !got {
			c.Stats.Fail("class=sign-verify: a signature does not verify under the signer's own public key", desc)
		}
		if a.want == 0 && got {
			d := map[string]interface{}{"case": desc, "attempt": a.kind, "pk": hex.EncodeToString(a.pk), "msg": hex.EncodeToString(a.msg), "sig": hex.EncodeToString(a.sig)}
			c.Stats.Fail("class=sign-exclusive: a signature verifies under "+a.kind, d)
		}
		obs = append(obs, obool(got))
		items = append(items, "("+X(a.pk)+", "+X(a.msg)+", "+X(a.sig)+")")
	}
	// determinism: signing again gives the same bytes
	if !bytes.Equal(sig, k.Sign(msg)) {
		c.Stats.Fail("class=sign-deterministic: signing the same message twice gives different signatures", desc)
	}
	model := fmt.Sprintf("run_sign %s %s %s %s %s", t.coq(), X(root[:]), XL(path), X(msg), CoqList(items))
	if withModel {
		id := c.Cases.Add(model, CoqList(obs))
		c.Stats.CaseIndex[fmt.Sprint(id)] = desc
		c.Stats.Count("model_evaluated")
	}
	c.Stats.Count(fmt.Sprintf("sign:msglen:%s", lenBucket(len(msg))))
	c.Stats.Case(fmt.Sprintf("sign|%x|%x|%x", seed, path, msg), true)
	if idx%41 == 0 {
		c.Stats.Sample(desc)
	}
}

func lenBucket(n int) string {
	switch {
	case n == 0:
		return "0"
	case n < 32:
		return "1-31"
	case n == 32:
		return "32"
	default:
		return "33+"
	}
}

// ---------------------------------------------------------------- key store cases

type keyJSON struct {
	ct, iv, salt, mac []byte
	alias             string
	raw               map[string]interface{}
}

func parseKeyJSON(js []byte) (*keyJSON, error) {
	m := map[string]interface{}{}
	if err := json.Unmarshal(js, &m); err != nil {
		return nil, err
	}
	cr, ok := m["crypto"].(map[string]interface{})
	if !ok {
		return nil, fmt.Errorf("no crypto section")
	}
	hx := func(v interface{}) []byte {
		s, _ := v.(string)
		b, _ := hex.DecodeString(s)
		return b
	}
	k := &keyJSON{raw: m}
	k.ct = hx(cr["ciphertext"])
	k.mac = hx(cr["mac"])
	k.iv = hx(cr["cipherparams"].(map[string]interface{})["iv"])
	k.salt = hx(cr["kdfparams"].(map[string]interface{})["salt"])
	k.alias, _ = m["alias"].(string)
	return k, nil
}

// re-serialise with some fields replaced
func (k *keyJSON) with(ct, iv, salt, mac []byte) []byte {
	js, _ := json.Marshal(k.raw)
	m := map[string]interface{}{}
	json.Unmarshal(js, &m)
	cr := m["crypto"].(map[string]interface{})
	cr["ciphertext"] = hex.EncodeToString(ct)
	cr["mac"] = hex.EncodeToString(mac)
	cr["cipherparams"].(map[string]interface{})["iv"] = hex.EncodeToString(iv)
	cr["kdfparams"].(map[string]interface{})["salt"] = hex.EncodeToString(salt)
	out, _ := json.Marshal(m)
	return out
}

func kfCoq(ct, iv, salt, mac []byte, alias string) string {
	return fmt.Sprintf("(KF %s %s %s %s %s)", X(ct), X(iv), X(salt), X(mac), X([]byte(alias)))
}

// reference for decrypt: fills the kdf / ctr / sha256 tables the model needs
func (t *tabs) refDecrypt(ct, iv, salt, mac []byte, pw string, n, p int) []byte {
	dk := t.kdf([]byte(pw), salt, n, p)
	t.ctr(dk[:16], iv, 64)
	return dk
}

func errCode(err error) string {
	switch err {
	case pseudohsm.ErrDecrypt:
		return ocErr(0)
	case pseudohsm.ErrLoadKey:
		return ocErr(1)
	}
	return ocErr(9)
}

// EncryptKey / DecryptKey directly, with cheap scrypt parameters
func keystoreCase(c *Ctx, idx int, withModel bool) {
	r := c.Rng
	t := newTabs()
	seed := genSeed(r)
	xprv := chainkd.RootXPrv(seed)
	if r.Chance(30) {
		xprv, _ = implDerivePrv(xprv, genPath(r, 2))
	}
	alias := fmt.Sprintf("key%d", r.Intn(1000))
	pw := genPw(r)
	scryptN := 1 << uint(1+r.Intn(4))
	scryptP := 1 + r.Intn(2)
	key := &pseudohsm.XKey{ID: uuid.UUID(r.Bytes(16)), KeyType: "bytom_kd", Alias: alias, XPrv: xprv, XPub: xprv.XPub()}
	desc := map[string]interface{}{"kind": "keystore", "xprv": hex.EncodeToString(xprv[:]), "password": hex.EncodeToString([]byte(pw)),
		"scrypt_n": scryptN, "scrypt_p": scryptP, "index": idx}
	js, err := pseudohsm.EncryptKey(key, pw, scryptN, scryptP)
	if err != nil {
		c.Stats.Fail("class=keystore-encrypt: EncryptKey failed: "+err.Error(), desc)
		return
	}
	kj, err := parseKeyJSON(js)
	if err != nil {
		c.Stats.Fail("class=keystore-encrypt: key file is not the expected JSON: "+err.Error(), desc)
		return
	}
	desc["salt"] = hex.EncodeToString(kj.salt)
	desc["iv"] = hex.EncodeToString(kj.iv)
	// tables for encryption
	dk := t.kdf([]byte(pw), kj.salt, scryptN, scryptP)
	t.ctr(dk[:16], kj.iv, 64)

	type op struct {
		kind            string
		ct, iv, salt, mac []byte
		pw              string
		want            int // 1 = must return the key, 0 = must be rejected, -1 = model comparison only
	}
	wrong, wkind := otherPw(r, pw)
	ops := []op{
		{"correct-password", kj.ct, kj.iv, kj.salt, kj.mac, pw, 1},
		{"wrong-password:" + wkind, kj.ct, kj.iv, kj.salt, kj.mac, wrong, 0},
	}
	switch r.Intn(5) {
	case 0:
		ops = append(ops, op{"tampered-ciphertext", flipBit(r, kj.ct), kj.iv, kj.salt, kj.mac, pw, -1})
	case 1:
		ops = append(ops, op{"tampered-mac", kj.ct, kj.iv, kj.salt, flipBit(r, kj.mac), pw, -1})
	case 2:
		ops = append(ops, op{"tampered-iv", kj.ct, flipBit(r, kj.iv), kj.salt, kj.mac, pw, -1})
	case 3:
		ops = append(ops, op{"tampered-salt", kj.ct, kj.iv, flipBit(r, kj.salt), kj.mac, pw, -1})
	default:
		w2, k2 := otherPw(r, pw)
		ops = append(ops, op{"wrong-password:" + k2, kj.ct, kj.iv, kj.salt, kj.mac, w2, 0})
	}
	obs := []string{X(kj.ct), X(kj.mac)}
	var items []string
	for _, o := range ops {
		dkTried := t.refDecrypt(o.ct, o.iv, o.salt, o.mac, o.pw, scryptN, scryptP)
		if o.want == 0 && bytes.Equal(dkTried, dk) {
			// scrypt (PBKDF2-HMAC) pads the password with zero bytes: passwords that differ only
			// in trailing NUL bytes derive the same key; such a password is not a wrong one
			// (theorem c28_keystore: "... or the same scrypt key")
			o.want = -1
			c.Stats.Count("keystore:wrong-password-with-equal-scrypt-key")
		}
		got, err := pseudohsm.DecryptKey(kj.with(o.ct, o.iv, o.salt, o.mac), o.pw)
		d := map[string]interface{}{"case": desc, "op": o.kind, "password_tried": hex.EncodeToString([]byte(o.pw))}
		if err != nil {
			c.Stats.Count("keystore:" + strings.SplitN(o.kind, ":", 2)[0] + ":rejected")
			obs = append(obs, errCode(err))
			if o.want == 1 {
				c.Stats.Fail("class=keystore-roundtrip: the correct password is rejected: "+err.Error(), d)
			}
		} else {
			c.Stats.Count("keystore:" + strings.SplitN(o.kind, ":", 2)[0] + ":accepted")
			obs = append(obs, ocOk(got.XPrv[:]))
			if o.want == 0 {
				c.Stats.Fail("class=keystore-wrong-password: a wrong password ("+o.kind+") decrypts the key file", d)
			}
			if o.want == 1 {
				m := genMsg(r)
				if got.XPrv != xprv || got.XPub != xprv.XPub() {
					c.Stats.Fail("class=keystore-roundtrip: the decrypted key differs from the stored key", d)
				} else if !bytes.Equal(got.XPrv.Sign(m), xprv.Sign(m)) {
					c.Stats.Fail("class=keystore-sign: the decrypted key signs differently", d)
				}
			}
		}
		items = append(items, fmt.Sprintf("ODecrypt %s %s", kfCoq(o.ct, o.iv, o.salt, o.mac, alias), X([]byte(o.pw))))
	}
	model := fmt.Sprintf("run_ks %s %s %s %s %s %s %s", t.coq(), X(xprv[:]), X([]byte(alias)), X([]byte(pw)), X(kj.salt), X(kj.iv), CoqList(items))
	if withModel {
		id := c.Cases.Add(model, CoqList(obs))
		c.Stats.CaseIndex[fmt.Sprint(id)] = desc
		c.Stats.Count("model_evaluated")
	}
	c.Stats.Count("keystore:pwlen:" + lenBucket(len(pw)))
	c.Stats.Case(fmt.Sprintf("ks|%x|%x|%x|%x", xprv[:], pw, kj.salt, kj.iv), true)
	if idx%23 == 0 {
		c.Stats.Sample(desc)
	}
}

// passwords that differ only in trailing NUL bytes are the same HMAC key, hence the same scrypt key
func sameScryptKey(a, b string) bool {
	return strings.TrimRight(a, "\x00") == strings.TrimRight(b, "\x00")
}

// the HSM on a scratch directory (light scrypt: few cases)
func hsmCase(c *Ctx, idx int) error {
	r := c.Rng
	dir := filepath.Join(c.Out, fmt.Sprintf("keys_%d", idx))
	os.RemoveAll(dir)
	if err := os.MkdirAll(dir, 0700); err != nil {
		return err
	}
	defer os.RemoveAll(dir)
	hsm, err := pseudohsm.New(dir)
	if err != nil {
		return err
	}
	const n, p = pseudohsm.LightScryptN, pseudohsm.LightScryptP
	entropy := r.Bytes(16)
	mnemonic, err := mnem.NewMnemonic(entropy, "en")
	if err != nil {
		return err
	}
	alias := fmt.Sprintf("hsm%d", idx)
	pw := genPw(r)
	desc := map[string]interface{}{"kind": "hsm", "entropy": hex.EncodeToString(entropy), "alias": alias,
		"password": hex.EncodeToString([]byte(pw)), "index": idx}
	xp, err := hsm.ImportKeyFromMnemonic(alias, pw, mnemonic, "en")
	if err != nil {
		c.Stats.Fail("class=keystore-encrypt: ImportKeyFromMnemonic failed: "+err.Error(), desc)
		return nil
	}
	xprv, xpub, _ := chainkd.NewXKeys(bytes.NewBuffer(mnem.NewSeed(mnemonic, "")))
	if xpub != xp.XPub {
		c.Stats.Fail("class=keystore-roundtrip: the imported key's xpub is not the xpub of the mnemonic's root key", desc)
	}

	stage := func(pw string, stageName string) error {
		t := newTabs()
		js, err := ioutil.ReadFile(xp.File)
		if err != nil {
			return err
		}
		kj, err := parseKeyJSON(js)
		if err != nil {
			return err
		}
		dk := t.kdf([]byte(pw), kj.salt, n, p)
		t.ctr(dk[:16], kj.iv, 64)
			obs := []string{X(kj.ct), X(kj.mac)}
		var items []string
		kf := kfCoq(kj.ct, kj.iv, kj.salt, kj.mac, kj.alias)
		wrong, wkind := otherPw(r, pw)

		// XSign with the right password: a fixed small depth (1 after import, 0 after the reset) and a random one
		var path [][]byte
		var msg []byte
		var d map[string]interface{}
		t.refDecrypt(kj.ct, kj.iv, kj.salt, kj.mac, pw, n, p)
		for round := 0; round < 2; round++ {
			if round == 0 {
				path = [][]byte{}
				if stageName == "imported" {
					path = [][]byte{genSel(r)}
				}
			} else {
				path = genPath(r, 3)
			}
			msg = genMsg(r)
			d = map[string]interface{}{"case": desc, "stage": stageName, "path": hexes(path), "msg": hex.EncodeToString(msg)}
			t.refDerive(xprv[:], path)
			child := xprv.Derive(path)
			t.refSign(child[:], msg)
			sig, err := hsm.XSign(xpub, path, msg, pw)
			if err != nil {
				c.Stats.Fail("class=keystore-roundtrip: XSign with the correct password fails: "+err.Error(), d)
				obs = append(obs, errCode(err))
			} else {
				obs = append(obs, ocOk(sig))
				if !bytes.Equal(sig, child.Sign(msg)) {
					c.Stats.Fail("class=keystore-sign: XSign differs from deriving and signing with the original key", d)
				}
				if !xpub.Derive(path).Verify(msg, sig) {
					c.Stats.Fail("class=sign-verify: the XSign signature does not verify under xpub.Derive(path)", d)
				}
			}
			c.Stats.Count(fmt.Sprintf("hsm:xsign-correct-password:depth%d:%v", len(path), err == nil))
			items = append(items, fmt.Sprintf("OXSign %s %s %s %s %s", kf, X([]byte(kj.alias)), XL(path), X(msg), X([]byte(pw))))
		}

		// XSign with a wrong password
		dkWrong := t.refDecrypt(kj.ct, kj.iv, kj.salt, kj.mac, wrong, n, p)
		sig, err := hsm.XSign(xpub, path, msg, wrong)
		if err == nil && bytes.Equal(dkWrong, dk) {
			c.Stats.Count("keystore:wrong-password-with-equal-scrypt-key")
			obs = append(obs, ocOk(sig))
		} else if err == nil {
			c.Stats.Fail("class=keystore-wrong-password: XSign succeeds with a wrong password ("+wkind+")", d)
			obs = append(obs, ocOk(sig))
		} else {
			obs = append(obs, errCode(err))
		}
		c.Stats.Count(fmt.Sprintf("hsm:xsign-wrong-password:%s:%v", wkind, err == nil))
		items = append(items, fmt.Sprintf("OXSign %s %s %s %s %s", kf, X([]byte(kj.alias)), XL(path), X(msg), X([]byte(wrong))))

		// LoadChainKDKey
		got, err := hsm.LoadChainKDKey(xpub, pw)
		if err != nil {
			c.Stats.Fail("class=keystore-roundtrip: LoadChainKDKey with the correct password fails", d)
			obs = append(obs, errCode(err))
		} else {
			obs = append(obs, ocOk(got[:]))
			if got != xprv {
				c.Stats.Fail("class=keystore-roundtrip: LoadChainKDKey returns a different key", d)
			}
		}
		items = append(items, fmt.Sprintf("OLoad %s %s %s", kf, X([]byte(kj.alias)), X([]byte(pw))))

		model := fmt.Sprintf("run_ks %s %s %s %s %s %s %s", t.coq(), X(xprv[:]), X([]byte(kj.alias)), X([]byte(pw)), X(kj.salt), X(kj.iv), CoqList(items))
		id := c.Cases.Add(model, CoqList(obs))
		c.Stats.CaseIndex[fmt.Sprint(id)] = d
		c.Stats.Count("model_evaluated")
		c.Stats.Case(fmt.Sprintf("hsm|%x|%s|%x", xprv[:], stageName, pw), true)
		return nil
	}
	if err := stage(pw, "imported"); err != nil {
		return err
	}
	// ResetPassword re-encrypts the file: the old password stops working, the new one works
	pw2, _ := otherPw(r, pw)
	if err := hsm.ResetPassword(xpub, pw, pw2); err != nil {
		c.Stats.Fail("class=keystore-roundtrip: ResetPassword with the correct old password fails: "+err.Error(), desc)
		return nil
	}
	if _, err := hsm.LoadChainKDKey(xpub, pw); err == nil && !sameScryptKey(pw, pw2) {
		c.Stats.Fail("class=keystore-wrong-password: the old password still opens the key after ResetPassword", desc)
	}
	c.Stats.Count("hsm:reset-password")
	if err := stage(pw2, "after-reset"); err != nil {
		return err
	}
	c.Stats.Sample(desc)
	return nil
}

// ---------------------------------------------------------------- main

func run(c *Ctx) error {
	// salt / iv of EncryptKey come from crypto/rand.Reader: make them part of the seeded run
	crand.Reader = &rngReader{c.Rng}

	// the direct oracle runs on every case; the Coq model is evaluated on the first
	// mDerive / mSign / mKs cases of each kind (the Coq front end needs about half a second
	// per case for the tables)
	nDerive, mDerive := c.N(3000, 12000), c.N(130, 600)
	nSign, mSign := c.N(1200, 5000), c.N(70, 300)
	nKs, mKs := c.N(400, 2500), c.N(70, 300)
	nHsm := c.N(3, 12)
	for i := 0; i < nDerive; i++ {
		deriveCase(c, i, i < mDerive)
	}
	for i := 0; i < nSign; i++ {
		signCase(c, i, i < mSign)
	}
	for i := 0; i < nKs; i++ {
		keystoreCase(c, i, i < mKs)
	}
	for i := 0; i < nHsm; i++ {
		if err := hsmCase(c, i); err != nil {
			return err
		}
	}
	// (5) several goroutines sign at once; (6)-(8) the key store as a whole: see conc.go, store.go
	t0 := time.Now()
	concStage(c)
	stageTime("concurrent signing", t0)
	if err := storeStages(c); err != nil {
		return err
	}
	c.Stats.Rule = "cases: (1) derivation: a root key from a seed (lengths 0..128) or a raw 64-byte xprv (boundary scalars: carry ripple, near 2^255, near 2^256 = carry-out panic, zero) and a non-hardened path of depth 0..8 with arbitrary selectors; (2) signing: a seed-derived key, a message of 0..132 bytes and verification attempts (own key, other key, other message, bit-flipped / non-canonical / truncated signature, random public key); (3) key files: EncryptKey/DecryptKey with the correct and wrong passwords and tampered fields; (4) the HSM on a scratch directory (import from mnemonic, XSign, LoadChainKDKey, ResetPassword); (5) 2..12 goroutines, each with its own seed-derived keys (root and children at several paths, as XPrv and as ExpandedPrivateKey), sign the same messages first alone and then all at once: every concurrent signature must verify under the signer's own xpub, equal the signature made alone, and not verify under another signer's key; (6) key-store life cycles on a real HSM (hook VerifNew: scrypt N=2, P=1; a few on pseudohsm.New): seeded sequences of XCreate / ImportKeyFromMnemonic / ResetPassword (right and wrong old password) / UpdateKeyAlias / XDelete (right and wrong password) / re-opening the store / Backup -> JSON -> Restore into an empty or partly filled store (keys already there, taken aliases), and after EVERY operation for EVERY live key: XSign with the current password equals derive+sign with the key's xprv and verifies, another password (an earlier one, another key's, a variation) is refused; the first sequences are also cases of the Coq store model (every error class, loaded xprv, Backup image and all key files after every write compared); (7) XSign of a key while another goroutine rewrites its file (ResetPassword to the same password, UpdateKeyAlias, both in turn, and both from two goroutines at once): every XSign and every rewrite with the correct password must succeed; (8) ResetPassword / UpdateKeyAlias failing half way under a file size limit: the key must still open with its password; (9) the same mnemonic imported twice under two aliases: a password the key is stored under must still open it. Distinct = distinct inputs; non-trivial = path depth >= 1 for derivation, every signing / key-store case. The oracle is the property itself on the implementation's outputs; every case is also evaluated by the Coq model with table oracles for the primitives."
	header := "From Coq Require Import List NArith Bool.\nFrom Verif Require Import Outcome Cmp.\nFrom C28 Require Import Model Store Run.\nImport ListNotations.\nOpen Scope N_scope.\n"
	c.Cases.Shard = 20
	return c.Cases.Write(c.Out, header, "list bytes", "obs_eqb")
}
