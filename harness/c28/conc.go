package main

// C28, stage (5): several goroutines sign at once, each with its own keys.
//
// The node signs from several goroutines (block proposer, casper votes, p2p handshake, wallet
// transactions).  Each of N goroutines owns a few keys (a seed-derived root and children at
// several paths, used both as XPrv and as ExpandedPrivateKey); every key first signs its
// messages ALONE (sequentially); then all goroutines sign the same (key, message) pairs at the
// same time.  Oracle (the property itself, on implementation outputs only):
//   * every signature made concurrently verifies under the signer's own public key
//     (xprv.XPub(), which must also equal root.XPub().Derive(path));
//   * it equals the signature the same key produced alone (signatures are deterministic);
//   * it does not verify under another signer's key;
//   * ExpandedPrivateKey.Public() is the key's own public key.
// The verdict is schedule dependent only in one direction: a failure is a violation,
// agreement on a run proves nothing about other schedules.

import (
	"bytes"
	"crypto"
	"crypto/ed25519"
	"encoding/hex"
	"fmt"
	"runtime"
	"sync"

	"github.com/bytom/bytom/crypto/ed25519/chainkd"
	. "verifharness/hlib"
)

type concKey struct {
	seed  []byte
	path  [][]byte
	xprv  chainkd.XPrv
	xpub  chainkd.XPub
	exp   chainkd.ExpandedPrivateKey
	msgs  [][]byte
	alone [][]byte // signature of msgs[i] made alone
	got   [][]byte // signature of msgs[i] made while the other goroutines sign
	pubs  [][]byte // ExpandedPrivateKey.Public() observed next to got[i]
	viaEx bool     // sign through ExpandedPrivateKey.Sign (crypto.Signer) instead of XPrv.Sign
}

func (k *concKey) sign(msg []byte) []byte {
	if k.viaEx {
		sig, err := k.exp.Sign(nil, msg, crypto.Hash(0))
		if err != nil {
			return nil
		}
		return sig
	}
	return k.xprv.Sign(msg)
}

func (k *concKey) desc(i int) map[string]interface{} {
	api := "XPrv.Sign"
	if k.viaEx {
		api = "ExpandedPrivateKey.Sign"
	}
	return map[string]interface{}{"seed": hex.EncodeToString(k.seed), "path": hexes(k.path), "xprv": hex.EncodeToString(k.xprv[:]),
		"xpub": hex.EncodeToString(k.xpub[:]), "api": api, "msg": hex.EncodeToString(k.msgs[i]),
		"sig_alone": hex.EncodeToString(k.alone[i]), "sig_concurrent": hex.EncodeToString(k.got[i])}
}

func concStage(c *Ctx) {
	r := c.Rng
	// (goroutines, keys per goroutine): one key each = every goroutine keeps using its key while the
	// others use theirs; several keys = a goroutine alternates between its keys
	shapes := [][2]int{{8, 1}, {8, 3}, {12, 2}, {4, 4}, {16, 1}, {2, 2}}
	rounds := c.N(4, 12)
	for round := 0; round < rounds; round++ {
		shape := shapes[round%len(shapes)]
		workers, nKeys := shape[0], shape[1]
		nMsgs := c.N(150, 300)
		if nKeys == 1 {
			nMsgs *= 2
		}
		keys := make([][]*concKey, workers)
		// keys and the signatures each key makes alone
		for w := 0; w < workers; w++ {
			seed := r.Bytes(32)
			root := chainkd.RootXPrv(seed)
			for j := 0; j < nKeys; j++ {
				var path [][]byte
				if j > 0 {
					path = genPath(r, 3)
					if len(path) == 0 {
						path = [][]byte{genSel(r)}
					}
				}
				k := &concKey{seed: seed, path: path, viaEx: r.Chance(25)}
				k.xprv = root.Derive(path)
				k.xpub = k.xprv.XPub()
				if d := root.XPub().Derive(path); d != k.xpub {
					c.Stats.Fail("class=derive-commute: xprv.Derive(path).XPub() differs from xprv.XPub().Derive(path)",
						map[string]interface{}{"kind": "concurrent-sign-setup", "seed": hex.EncodeToString(seed), "path": hexes(path)})
				}
				k.exp = k.xprv.ExpandedPrivateKey()
				for i := 0; i < nMsgs; i++ {
					m := genMsg(r)
					k.msgs = append(k.msgs, m)
					sig := k.sign(m)
					k.alone = append(k.alone, sig)
					if !k.xpub.Verify(m, sig) {
						k.got = k.alone
						c.Stats.Fail("class=sign-verify: a signature does not verify under the signer's own public key",
							map[string]interface{}{"kind": "concurrent-sign-setup (signed alone)", "key": k.desc(i)})
					}
				}
				k.got = make([][]byte, nMsgs)
				k.pubs = make([][]byte, nMsgs)
				keys[w] = append(keys[w], k)
			}
		}
		// all goroutines sign at once; a goroutine alternates between its keys
		var wg sync.WaitGroup
		start := make(chan struct{})
		panics := make([]string, workers)
		for w := 0; w < workers; w++ {
			wg.Add(1)
			go func(w int) {
				defer wg.Done()
				defer func() {
					if p := recover(); p != nil {
						panics[w] = fmt.Sprint(p)
					}
				}()
				<-start
				for i := 0; i < nMsgs; i++ {
					for _, k := range keys[w] {
						k.got[i] = k.sign(k.msgs[i])
						// the public key, asked for twice in a row (as a signer and a verifier would)
						for rep := 0; rep < 2; rep++ {
							if pk, ok := k.exp.Public().(ed25519.PublicKey); ok && (k.pubs[i] == nil || bytes.Equal(k.pubs[i], k.xpub[:32])) {
								k.pubs[i] = append([]byte{}, pk...)
							}
						}
					}
				}
			}(w)
		}
		close(start)
		wg.Wait()

		// oracle, after the fact
		scen := map[string]interface{}{"kind": "concurrent-sign", "round": round, "goroutines": workers, "keys_per_goroutine": nKeys,
			"messages_per_key": nMsgs, "gomaxprocs": runtime.GOMAXPROCS(0)}
		bad, differ, foreign, badPub, total := 0, 0, 0, 0, 0
		var firstBad, firstDiffer, firstForeign, firstPub map[string]interface{}
		for w := 0; w < workers; w++ {
			if panics[w] != "" {
				c.Stats.Fail("class=concurrent-sign-panic: signing panicked while other goroutines sign: "+panics[w],
					map[string]interface{}{"scenario": scen, "goroutine": w})
			}
			other := keys[(w+1)%workers][0]
			for _, k := range keys[w] {
				for i := range k.msgs {
					if k.got[i] == nil {
						continue
					}
					total++
					if !k.xpub.Verify(k.msgs[i], k.got[i]) {
						bad++
						if firstBad == nil {
							firstBad = map[string]interface{}{"scenario": scen, "goroutine": w, "message_index": i, "key": k.desc(i)}
						}
					} else if !bytes.Equal(k.got[i], k.alone[i]) {
						differ++
						if firstDiffer == nil {
							firstDiffer = map[string]interface{}{"scenario": scen, "goroutine": w, "message_index": i, "key": k.desc(i)}
						}
					}
					if other.xpub != k.xpub && other.xpub.Verify(k.msgs[i], k.got[i]) {
						foreign++
						if firstForeign == nil {
							firstForeign = map[string]interface{}{"scenario": scen, "goroutine": w, "message_index": i, "key": k.desc(i),
								"other_xpub": hex.EncodeToString(other.xpub[:])}
						}
					}
					if k.pubs[i] != nil && !bytes.Equal(k.pubs[i], k.xpub[:32]) {
						badPub++
						if firstPub == nil {
							firstPub = map[string]interface{}{"scenario": scen, "goroutine": w, "message_index": i, "key": k.desc(i),
								"public_observed": hex.EncodeToString(k.pubs[i])}
						}
					}
				}
			}
		}
		if bad > 0 {
			c.Stats.Fail(fmt.Sprintf("class=concurrent-sign-verify: %d of %d signatures made while %d goroutines sign with different keys do not verify under the signer's own public key (the same key signing the same message alone verifies)", bad, total, workers), firstBad)
		}
		if differ > 0 {
			c.Stats.Fail(fmt.Sprintf("class=concurrent-sign-differs: %d of %d signatures made while %d goroutines sign differ from the signature the same key makes alone", differ, total, workers), firstDiffer)
		}
		if foreign > 0 {
			c.Stats.Fail(fmt.Sprintf("class=sign-exclusive: %d of %d signatures made concurrently verify under another signer's public key", foreign, total), firstForeign)
		}
		if badPub > 0 {
			c.Stats.Fail(fmt.Sprintf("class=concurrent-public: ExpandedPrivateKey.Public() returned another key's public key %d times while %d goroutines sign", badPub, workers), firstPub)
		}
		c.Stats.Distribution["concurrent-sign:signatures"] += total
		c.Stats.Count(fmt.Sprintf("concurrent-sign:goroutines:%d", workers))
		c.Stats.Count(fmt.Sprintf("concurrent-sign:keys-per-goroutine:%d", nKeys))
		c.Stats.Case(fmt.Sprintf("conc|%d|%x", round, keys[0][0].seed), true)
		if round == 0 {
			c.Stats.Sample(map[string]interface{}{"scenario": scen, "signatures": total, "first_key": keys[0][0].desc(0)})
		}
	}
}
