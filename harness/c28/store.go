package main

// C28, stages (6)-(8): the key store as a whole (a real pseudohsm.HSM on scratch directories).
//
// (6) life cycle: seeded random sequences of XCreate / ImportKeyFromMnemonic, XSign with the
//     right and wrong passwords, ResetPassword, UpdateKeyAlias, XDelete, re-opening the store,
//     Backup -> JSON -> Restore into an empty or partly filled store.  The harness keeps its own
//     book of the live keys (xprv computed from the mnemonic, current alias and password).
//     Oracle, after EVERY operation and for EVERY live key: XSign with the current password
//     returns exactly what the key's xprv signs directly (derive + sign), the signature
//     verifies under xpub.Derive(path), LoadChainKDKey returns the xprv, and another password
//     is refused.  After Restore the same holds for every restored key.
// (7) XSign of a key while another goroutine rewrites the same key file (ResetPassword to the
//     same password / UpdateKeyAlias): the set of correct passwords never changes, so every
//     XSign must succeed with the same signature, and every rewrite must succeed.
// (8) a rewrite that fails half way (file size limit): ResetPassword / UpdateKeyAlias report an
//     error, so nothing changed: the old password must still open the key.
//
// scrypt: HSM.New always uses LightScryptN/P (tens of ms per attempt); these stages build the HSM
// through the hook pseudohsm.VerifNew (blockchain/pseudohsm/hsm_verif.go) with N=2, P=1, the
// parameters of the package's own tests.  A few sequences run on pseudohsm.New itself.

import (
	"bytes"
	crand "crypto/rand"
	"encoding/hex"
	"encoding/json"
	"fmt"
	"io/ioutil"
	"os"
	"os/signal"
	"path/filepath"
	"strings"
	"sync"
	"syscall"
	"time"

	"github.com/sirupsen/logrus"

	"github.com/bytom/bytom/blockchain/pseudohsm"
	"github.com/bytom/bytom/crypto/ed25519/chainkd"
	mnem "github.com/bytom/bytom/wallet/mnemonic"
	. "verifharness/hlib"
)

// crypto/rand.Reader of the run: its own seeded stream (the rewriting goroutine of stage (7)
// reads salts and IVs while the main goroutine draws from c.Rng)
type lockedReader struct {
	mu sync.Mutex
	r  *Rng
}

func (l *lockedReader) Read(p []byte) (int, error) {
	l.mu.Lock()
	defer l.mu.Unlock()
	copy(p, l.r.Bytes(len(p)))
	return len(p), nil
}

type liveKey struct {
	xprv     chainkd.XPrv
	xpub     chainkd.XPub
	mnemonic string
	alias    string
	pw       string
	oldPws   []string // passwords this key had before
	salt, iv []byte   // of the key file (model-evaluated sequences only)
}

type storeSim struct {
	c      *Ctx
	r      *Rng
	fast   bool
	root   string // scratch root of the sequence
	ndirs  int
	dir    string
	hsm    *pseudohsm.HSM
	keys   []*liveKey
	gone   []*liveKey // deleted keys (their mnemonics can be imported again)
	trace  []interface{}
	nalias int
	failed bool
	id     map[string]interface{}
	sid    int         // number of the store (directory) the sequence is in
	m      *storeModel // not nil: the sequence is also a case of the Coq model
}

func (s *storeSim) open(dir string) (*pseudohsm.HSM, error) {
	if s.fast {
		return pseudohsm.VerifNew(dir, 2, 1)
	}
	return pseudohsm.New(dir)
}

func (s *storeSim) newDir() (string, error) {
	s.ndirs++
	d := filepath.Join(s.root, fmt.Sprintf("store%d", s.ndirs))
	return d, os.MkdirAll(d, 0700)
}

func (s *storeSim) log(op string, kv ...interface{}) map[string]interface{} {
	m := map[string]interface{}{"op": op, "step": len(s.trace)}
	for i := 0; i+1 < len(kv); i += 2 {
		m[kv[i].(string)] = kv[i+1]
	}
	s.trace = append(s.trace, m)
	s.c.Stats.Count("store:op:" + op)
	return m
}

func (s *storeSim) fail(what string) {
	s.failed = true
	s.c.Stats.Fail(what, map[string]interface{}{"kind": "key-store-sequence", "sequence": s.id, "operations": append([]interface{}{}, s.trace...)})
}

func hx(s string) string { return hex.EncodeToString([]byte(s)) }

func (s *storeSim) freshAlias() string {
	s.nalias++
	return fmt.Sprintf("key-%d-%d", s.nalias, s.r.Intn(1000))
}

func keyFromMnemonic(m string) (chainkd.XPrv, chainkd.XPub) {
	xprv, xpub, _ := chainkd.NewXKeys(bytes.NewBuffer(mnem.NewSeed(m, "")))
	return xprv, xpub
}

func (s *storeSim) hasAlias(a string) bool {
	for _, k := range s.keys {
		if k.alias == a {
			return true
		}
	}
	return false
}

func (s *storeSim) find(x chainkd.XPub) *liveKey {
	for _, k := range s.keys {
		if k.xpub == x {
			return k
		}
	}
	return nil
}

// a password that is not a correct one for k
func (s *storeSim) wrongPw(k *liveKey) (string, string) {
	switch s.r.Intn(4) {
	case 0:
		if len(k.oldPws) > 0 {
			if q := k.oldPws[s.r.Intn(len(k.oldPws))]; !sameScryptKey(q, k.pw) {
				return q, "an-earlier-password"
			}
		}
	case 1:
		o := s.keys[s.r.Intn(len(s.keys))]
		if o != k && !sameScryptKey(o.pw, k.pw) {
			return o.pw, "another-key's-password"
		}
	}
	for {
		q, kind := otherPw(s.r, k.pw)
		if !sameScryptKey(q, k.pw) {
			return q, kind
		}
	}
}

// the property on one live key, now
func (s *storeSim) checkKey(k *liveKey, when string) {
	r := s.r
	path := genPath(r, 3)
	msg := genMsg(r)
	d := func(extra ...interface{}) {
		m := s.log("check", "when", when, "alias", k.alias, "xpub", hex.EncodeToString(k.xpub[:]), "password", hx(k.pw),
			"path", hexes(path), "msg", hex.EncodeToString(msg))
		for i := 0; i+1 < len(extra); i += 2 {
			m[extra[i].(string)] = extra[i+1]
		}
	}
	child := k.xprv.Derive(path)
	want := child.Sign(msg)
	sig, err := s.hsm.XSign(k.xpub, path, msg, k.pw)
	s.c.Stats.Count("store:check:xsign-current-password")
	switch {
	case err != nil:
		d("error", err.Error())
		cls := "class=keystore-roundtrip: "
		if strings.Contains(when, "restored key") {
			cls = "class=keystore-restore-unusable: "
		}
		s.fail(cls + when + ": XSign of a live key with its current password fails: " + err.Error())
		return
	case !bytes.Equal(sig, want):
		d("xsign", hex.EncodeToString(sig), "direct", hex.EncodeToString(want))
		s.fail("class=keystore-sign: " + when + ": XSign differs from deriving and signing with the key's xprv")
		return
	case !k.xpub.Derive(path).Verify(msg, sig):
		d("xsign", hex.EncodeToString(sig))
		s.fail("class=sign-verify: " + when + ": the XSign signature does not verify under xpub.Derive(path)")
		return
	}
	if r.Chance(30) {
		got, err := s.hsm.LoadChainKDKey(k.xpub, k.pw)
		if err != nil || got != k.xprv {
			d("load_error", fmt.Sprint(err))
			s.fail("class=keystore-roundtrip: " + when + ": LoadChainKDKey with the current password does not return the key's xprv")
			return
		}
	}
	wrong, wkind := s.wrongPw(k)
	s.c.Stats.Count("store:check:xsign-wrong-password:" + wkind)
	if s.mOn() {
		s.mLoad(k, k.pw)
		s.mLoad(k, wrong)
	}
	if _, err := s.hsm.XSign(k.xpub, path, msg, wrong); err == nil {
		d("password_tried", hx(wrong), "password_kind", wkind)
		s.fail("class=keystore-wrong-password: " + when + ": XSign succeeds with a password (" + wkind + ") that is not the key's current password")
	}
}

func (s *storeSim) checkAll(when string) {
	for _, k := range s.keys {
		if s.failed {
			return
		}
		s.checkKey(k, when)
	}
}

// addKey: XCreate ("create") or ImportKeyFromMnemonic ("import"); forceAlias / forceMnemonic
// fix the alias / the mnemonic ("" = choose)
func (s *storeSim) addKey(how, forceAlias, forceMnemonic string) {
	r := s.r
	alias := s.freshAlias()
	pw := genPw(r)
	dup := len(s.keys) > 0 && r.Chance(10) && forceAlias == ""
	if dup {
		alias = s.keys[r.Intn(len(s.keys))].alias
	}
	if forceAlias != "" {
		alias = forceAlias
	}
	var xp *pseudohsm.XPub
	var mn string
	var err error
	if how == "create" {
		var m *string
		xp, m, err = s.hsm.XCreate(alias, pw, "en")
		if m != nil {
			mn = *m
		}
	} else if forceMnemonic != "" {
		mn = forceMnemonic
		xp, err = s.hsm.ImportKeyFromMnemonic(alias, pw, mn, "en")
	} else {
		if len(s.gone) > 0 && r.Chance(40) {
			mn = s.gone[r.Intn(len(s.gone))].mnemonic // a key that was deleted comes back
			for i, g := range s.gone {
				if g.mnemonic == mn {
					s.gone = append(s.gone[:i], s.gone[i+1:]...)
					break
				}
			}
		} else {
			mn, _ = mnem.NewMnemonic(r.Bytes(16), "en")
		}
		xp, err = s.hsm.ImportKeyFromMnemonic(alias, pw, mn, "en")
	}
	s.log(how, "alias", alias, "password", hx(pw), "mnemonic", mn, "duplicate_alias", dup, "error", fmt.Sprint(err))
	if dup {
		if err == nil {
			// not part of C28 (alias uniqueness); the book cannot follow two keys with one alias
			s.c.Stats.Count("store:duplicate-alias-accepted")
			s.failed = true
		} else if s.mOn() {
			s.mCreateRefused(alias, pw, err)
		}
		return
	}
	if err != nil {
		s.fail("class=keystore-encrypt: " + how + " of a new key fails: " + err.Error())
		return
	}
	xprv, xpub := keyFromMnemonic(mn)
	if xp.XPub != xpub {
		s.fail("class=keystore-roundtrip: " + how + ": the stored key's xpub is not the xpub of the mnemonic's root key")
		return
	}
	k := &liveKey{xprv: xprv, xpub: xpub, mnemonic: mn, alias: alias, pw: pw}
	s.keys = append(s.keys, k)
	if s.mOn() {
		s.mCreated(k)
	}
}

func (s *storeSim) reset() {
	r := s.r
	k := s.keys[r.Intn(len(s.keys))]
	if r.Chance(25) { // wrong old password: must be refused, nothing changes
		wrong, wkind := s.wrongPw(k)
		np := genPw(r)
		err := s.hsm.ResetPassword(k.xpub, wrong, np)
		s.log("reset-wrong-old-password", "alias", k.alias, "old_tried", hx(wrong), "kind", wkind, "new", hx(np), "error", fmt.Sprint(err))
		if err == nil {
			s.fail("class=keystore-wrong-password: ResetPassword succeeds with an old password (" + wkind + ") that is not the key's current password")
		} else if s.mOn() {
			s.mResetRefused(k, wrong, np, err)
		}
		return
	}
	np := genPw(r)
	if r.Chance(20) {
		np = k.pw
	}
	err := s.hsm.ResetPassword(k.xpub, k.pw, np)
	s.log("reset", "alias", k.alias, "old", hx(k.pw), "new", hx(np), "error", fmt.Sprint(err))
	if err != nil {
		s.fail("class=keystore-roundtrip: ResetPassword with the current password fails: " + err.Error())
		return
	}
	if !sameScryptKey(k.pw, np) {
		k.oldPws = append(k.oldPws, k.pw)
	}
	if s.mOn() {
		s.mResetDone(k, k.pw, np)
	}
	k.pw = np
	// the other passwords in oldPws that derive the same key as np are no longer wrong ones
	var keep []string
	for _, q := range k.oldPws {
		if !sameScryptKey(q, np) {
			keep = append(keep, q)
		}
	}
	k.oldPws = keep
}

func (s *storeSim) realias() {
	k := s.keys[s.r.Intn(len(s.keys))]
	na := s.freshAlias()
	err := s.hsm.UpdateKeyAlias(k.xpub, na)
	s.log("update-alias", "alias", k.alias, "new_alias", na, "error", fmt.Sprint(err))
	if err != nil {
		s.fail("class=keystore-roundtrip: UpdateKeyAlias of a live key to an unused alias fails: " + err.Error())
		return
	}
	k.alias = na
	if s.mOn() {
		s.mAlias(k, na)
	}
}

func (s *storeSim) del() {
	r := s.r
	i := r.Intn(len(s.keys))
	k := s.keys[i]
	if r.Chance(30) {
		wrong, wkind := s.wrongPw(k)
		err := s.hsm.XDelete(k.xpub, wrong)
		s.log("delete-wrong-password", "alias", k.alias, "tried", hx(wrong), "kind", wkind, "error", fmt.Sprint(err))
		if err == nil {
			s.fail("class=keystore-wrong-password: XDelete succeeds with a password (" + wkind + ") that is not the key's current password")
		} else if s.mOn() {
			s.mDelete(k, wrong, err)
		}
		return
	}
	err := s.hsm.XDelete(k.xpub, k.pw)
	s.log("delete", "alias", k.alias, "password", hx(k.pw), "error", fmt.Sprint(err))
	if err != nil {
		s.fail("class=keystore-roundtrip: XDelete with the current password fails: " + err.Error())
		return
	}
	s.keys = append(s.keys[:i], s.keys[i+1:]...)
	s.gone = append(s.gone, k)
	if s.mOn() {
		s.mDelete(k, k.pw, nil)
	}
	// a deleted key is no longer in the store: signing with it is refused (counted, not part of C28)
	if _, err := s.hsm.XSign(k.xpub, nil, []byte{1}, k.pw); err == nil {
		s.c.Stats.Count("store:deleted-key-still-signs")
	}
}

func (s *storeSim) reopen() error {
	h, err := s.open(s.dir)
	if err != nil {
		return err
	}
	s.hsm = h
	s.log("reopen")
	return nil
}

type imageEntry struct {
	XPub  string `json:"xpub"`
	Alias string `json:"alias"`
}

// Backup -> JSON -> Restore into another store
func (s *storeSim) backupRestore() error {
	r := s.r
	img, err := s.hsm.Backup()
	if err != nil {
		s.log("backup", "error", err.Error())
		s.fail("class=keystore-backup: Backup fails: " + err.Error())
		return nil
	}
	raw, err := json.Marshal(img)
	if err != nil {
		return err
	}
	var parsed struct {
		XKeys []imageEntry `json:"xkeys"`
	}
	if err := json.Unmarshal(raw, &parsed); err != nil {
		return err
	}
	img2 := &pseudohsm.KeyImage{}
	if err := json.Unmarshal(raw, img2); err != nil {
		return err
	}
	if s.mOn() {
		s.mBackup(raw)
	}
	s.c.Stats.Count(fmt.Sprintf("store:backup:image-keys:%d", len(parsed.XKeys)))
	if len(parsed.XKeys) != len(s.keys) {
		s.c.Stats.Count("store:backup:image-size-differs-from-live-keys")
	}

	// the target store: empty, or holding some keys already
	tdir, err := s.newDir()
	if err != nil {
		return err
	}
	th, err := s.open(tdir)
	if err != nil {
		return err
	}
	target := &storeSim{c: s.c, r: r, fast: s.fast, root: s.root, dir: tdir, hsm: th, nalias: s.nalias + 100, id: s.id, sid: s.ndirs, m: s.m}
	target.trace = s.trace
	kind := "empty"
	if r.Chance(50) && len(s.keys) > 0 {
		kind = "partly-filled"
		for _, k := range s.keys {
			switch r.Intn(5) {
			case 0: // the same key is already there under its own alias and password: Restore skips it
				target.addKey("import", target.freshAlias(), k.mnemonic)
			case 1: // an unrelated key
				target.addKey("create", "", "")
			}
			if target.failed {
				break
			}
		}
		if r.Chance(25) { // an unrelated key that holds the alias of a key of the image: Restore stops there
			a := s.keys[r.Intn(len(s.keys))].alias
			if !target.hasAlias(a) && !target.failed {
				target.addKey("create", a, "")
			}
		}
	}
	s.trace = target.trace
	if target.failed {
		s.failed = true
		return nil
	}
	s.c.Stats.Count("store:restore:target:" + kind)
	if r.Chance(30) { // the target is opened afresh before the restore
		if th, err = s.open(tdir); err != nil {
			return err
		}
		target.hsm = th
	}

	// what Restore has to do, entry by entry (image order): skip a key that is there, stop at a taken alias
	rerr := th.Restore(img2)
	var restored []*liveKey
	wantErr := false
	for _, e := range parsed.XKeys {
		xb, _ := hex.DecodeString(e.XPub)
		var x chainkd.XPub
		copy(x[:], xb)
		src := s.find(x)
		if src == nil {
			continue // not a key of the book (cannot happen on a consistent store)
		}
		if target.find(x) != nil {
			s.c.Stats.Count("store:restore:key-already-there")
			continue
		}
		if target.hasAlias(src.alias) {
			wantErr = true
			break
		}
		nk := &liveKey{xprv: src.xprv, xpub: src.xpub, mnemonic: src.mnemonic, alias: src.alias, pw: src.pw, oldPws: append([]string{}, src.oldPws...),
			salt: src.salt, iv: src.iv}
		target.keys = append(target.keys, nk)
		restored = append(restored, nk)
	}
	s.log("backup-restore", "target", kind, "image_keys", len(parsed.XKeys), "restored", len(restored), "alias_clash_expected", wantErr, "error", fmt.Sprint(rerr))
	target.trace = s.trace
	if s.mOn() {
		s.mRestore(target, rerr)
	}
	if wantErr {
		s.c.Stats.Count("store:restore:stopped-at-taken-alias")
		if rerr == nil {
			// alias uniqueness is not C28; the book cannot follow
			s.c.Stats.Count("store:restore:taken-alias-accepted")
			s.failed = true
			return nil
		}
	} else if rerr != nil {
		s.fail("class=keystore-restore: Restore of a backup image fails: " + rerr.Error())
		return nil
	}
	s.c.Stats.Distribution["store:restore:keys-restored"] += len(restored)
	// every restored key (and every key the target had) opens with its password and signs identically
	for _, k := range target.keys {
		if target.failed {
			break
		}
		when := "after Restore, key the target already had"
		for _, q := range restored {
			if q == k {
				when = "after Backup -> Restore into " + kind + " store, restored key"
			}
		}
		target.checkKey(k, when)
	}
	s.trace = target.trace
	if target.failed {
		s.failed = true
		return nil
	}
	// the source store is untouched
	s.checkAll("after Backup, in the source store")
	if r.Chance(65) { // go on in the restored store
		s.dir, s.hsm, s.keys, s.gone, s.sid = target.dir, target.hsm, target.keys, nil, target.sid
		s.nalias = target.nalias
		s.log("continue-in-restored-store")
	}
	return nil
}

func lifeSequence(c *Ctx, idx int, seqSeed uint64, fast bool, nOps int, withModel bool) error {
	r := NewRng(seqSeed)
	rd := crand.Reader
	crand.Reader = &lockedReader{r: NewRng(seqSeed ^ 0x5eed)}
	defer func() { crand.Reader = rd }()
	root := filepath.Join(c.Out, fmt.Sprintf("life_%d", idx))
	os.RemoveAll(root)
	defer os.RemoveAll(root)
	s := &storeSim{c: c, r: r, fast: fast, root: root,
		id: map[string]interface{}{"index": idx, "sequence_seed": seqSeed, "light_scrypt_via_New": !fast, "operations": nOps}}
	if withModel {
		s.m = &storeModel{t: newTabs(), ok: true, n: 2, p: 1}
		if !fast {
			s.m.n, s.m.p = pseudohsm.LightScryptN, pseudohsm.LightScryptP
		}
	}
	var err error
	if s.dir, err = s.newDir(); err != nil {
		return err
	}
	s.sid = s.ndirs
	if s.hsm, err = s.open(s.dir); err != nil {
		return err
	}
	for step := 0; step < nOps && !s.failed; step++ {
		before := len(s.trace)
		switch op := r.Intn(100); {
		case len(s.keys) == 0 || (op < 22 && len(s.keys) < 6):
			if r.Bool() {
				s.addKey("create", "", "")
			} else {
				s.addKey("import", "", "")
			}
		case op < 40:
			s.reset()
		case op < 52:
			s.realias()
		case op < 62:
			s.del()
		case op < 72:
			if err := s.reopen(); err != nil {
				return err
			}
		case op < 88:
			if err := s.backupRestore(); err != nil {
				return err
			}
		default:
			// signing only (the check below)
			s.log("sign-only")
		}
		if !s.failed {
			last := ""
			if before < len(s.trace) {
				last = fmt.Sprint(s.trace[before].(map[string]interface{})["op"])
			}
			s.checkAll("after " + last)
		}
	}
	s.mFinish(c)
	c.Stats.Count(fmt.Sprintf("store:sequence:live-keys-at-end:%d", len(s.keys)))
	c.Stats.Case(fmt.Sprintf("life|%d|%v", seqSeed, fast), true)
	if idx == 0 {
		n := len(s.trace)
		if n > 12 {
			n = 12
		}
		c.Stats.Sample(map[string]interface{}{"kind": "key-store-sequence", "sequence": s.id, "first_operations": s.trace[:n]})
	}
	return nil
}

// ---------------------------------------------------------------- (7) XSign while the key file is rewritten

func concStoreCase(c *Ctx, idx int, seqSeed uint64, rewriter string, nSigns int) error {
	r := NewRng(seqSeed)
	rd := crand.Reader
	crand.Reader = &lockedReader{r: NewRng(seqSeed ^ 0x5eed)}
	defer func() { crand.Reader = rd }()
	dir := filepath.Join(c.Out, fmt.Sprintf("conc_%d", idx))
	os.RemoveAll(dir)
	if err := os.MkdirAll(dir, 0700); err != nil {
		return err
	}
	defer os.RemoveAll(dir)
	hsm, err := pseudohsm.VerifNew(dir, 2, 1)
	if err != nil {
		return err
	}
	type ck struct {
		k    *liveKey
		path [][]byte
		msg  []byte
		want []byte
	}
	var cks []*ck
	for i := 0; i < 2; i++ {
		pw := genPw(r)
		alias := fmt.Sprintf("conc-%d-%d", idx, i)
		xp, m, err := hsm.XCreate(alias, pw, "en")
		if err != nil {
			c.Stats.Fail("class=keystore-encrypt: XCreate fails: "+err.Error(), map[string]interface{}{"kind": "sign-while-rewritten", "sequence_seed": seqSeed})
			return nil
		}
		xprv, xpub := keyFromMnemonic(*m)
		if xp.XPub != xpub {
			c.Stats.Fail("class=keystore-roundtrip: XCreate: the stored key's xpub is not the xpub of the mnemonic's root key", map[string]interface{}{"kind": "sign-while-rewritten", "sequence_seed": seqSeed})
			return nil
		}
		k := &ck{k: &liveKey{xprv: xprv, xpub: xpub, mnemonic: *m, alias: alias, pw: pw}, path: genPath(r, 3), msg: genMsg(r)}
		k.want = xprv.Derive(k.path).Sign(k.msg)
		cks = append(cks, k)
	}
	target := cks[0]
	scen := map[string]interface{}{"kind": "sign-while-rewritten", "index": idx, "sequence_seed": seqSeed, "rewriter": rewriter,
		"mnemonic": target.k.mnemonic, "alias": target.k.alias, "password": hx(target.k.pw), "path": hexes(target.path),
		"msg": hex.EncodeToString(target.msg), "xsign_calls": nSigns}

	stop := make(chan struct{})
	var wg sync.WaitGroup
	var rewrites, rewriteErrs int
	var firstRewriteErr string
	wg.Add(1)
	go func() {
		defer wg.Done()
		defer func() {
			if p := recover(); p != nil {
				rewriteErrs++
				if firstRewriteErr == "" {
					firstRewriteErr = fmt.Sprint("panic: ", p)
				}
			}
		}()
		for i := 0; ; i++ {
			select {
			case <-stop:
				return
			default:
			}
			var err error
			if rewriter == "ResetPassword" || rewriter == "ResetPassword||UpdateKeyAlias" || (rewriter == "both" && i%2 == 0) {
				// the same password: the set of correct passwords never changes
				err = hsm.ResetPassword(target.k.xpub, target.k.pw, target.k.pw)
			} else {
				na := fmt.Sprintf("conc-%d-r%d", idx, i)
				err = hsm.UpdateKeyAlias(target.k.xpub, na)
			}
			rewrites++
			if err != nil {
				rewriteErrs++
				if firstRewriteErr == "" {
					firstRewriteErr = err.Error()
				}
			}
		}
	}()
	// "ResetPassword||UpdateKeyAlias": a third goroutine renames the key while the second one resets
	var renames, renameErrs int
	var firstRenameErr string
	if rewriter == "ResetPassword||UpdateKeyAlias" {
		wg.Add(1)
		go func() {
			defer wg.Done()
			defer func() {
				if p := recover(); p != nil {
					renameErrs++
					if firstRenameErr == "" {
						firstRenameErr = fmt.Sprint("panic: ", p)
					}
				}
			}()
			for i := 0; ; i++ {
				select {
				case <-stop:
					return
				default:
				}
				renames++
				if err := hsm.UpdateKeyAlias(target.k.xpub, fmt.Sprintf("conc-%d-q%d", idx, i)); err != nil {
					renameErrs++
					if firstRenameErr == "" {
						firstRenameErr = err.Error()
					}
				}
			}
		}()
	}
	signs, fails, differs, otherFails := 0, 0, 0, 0
	firstErr := ""
	for i := 0; i < nSigns; i++ {
		k := target
		if i%8 == 7 {
			k = cks[1] // the key next to it is not touched at all
		}
		sig, err := hsm.XSign(k.k.xpub, k.path, k.msg, k.k.pw)
		signs++
		switch {
		case err != nil && k == target:
			fails++
			if firstErr == "" {
				firstErr = err.Error()
			}
		case err != nil:
			otherFails++
		case !bytes.Equal(sig, k.want):
			differs++
		}
	}
	close(stop)
	wg.Wait()
	scen["rewrites"] = rewrites
	c.Stats.Distribution["store:concurrent:"+rewriter+":xsign-calls"] += signs
	c.Stats.Distribution["store:concurrent:"+rewriter+":rewrites"] += rewrites
	if rewriter == "ResetPassword||UpdateKeyAlias" {
		// two writers of one key file: reported under its own class.  Regression test of the repair
		// e8f4d605: in the pinned tree ResetPassword did not take the HSM lock that UpdateKeyAlias and
		// XSign take and wrote back the alias it had read earlier (coq/C28/History.v)
		scen["renames"] = renames
		c.Stats.Distribution["store:concurrent:"+rewriter+":renames"] += renames
		if fails > 0 || differs > 0 || otherFails > 0 || rewriteErrs > 0 || renameErrs > 0 {
			c.Stats.Fail(fmt.Sprintf("class=keystore-reset-alias-race: while one goroutine runs ResetPassword(correct password -> same password) and another UpdateKeyAlias on the same key: %d of %d XSign calls with the correct password fail (%s), %d signatures differ, %d of %d ResetPassword calls with the correct password fail (%s), %d of %d UpdateKeyAlias calls fail (%s)",
				fails, signs, firstErr, differs, rewriteErrs, rewrites, firstRewriteErr, renameErrs, renames, firstRenameErr), scen)
		}
		fails, differs, otherFails, rewriteErrs = 0, 0, 0, 0
	}
	if fails > 0 {
		c.Stats.Fail(fmt.Sprintf("class=keystore-concurrent-rewrite: %d of %d XSign calls with the CORRECT password fail while another goroutine rewrites the same key file with %s (which never changes the password): %s", fails, signs, rewriter, firstErr), scen)
	}
	if differs > 0 {
		c.Stats.Fail(fmt.Sprintf("class=keystore-sign: %d of %d XSign calls return a different signature while the key file is rewritten by %s", differs, signs, rewriter), scen)
	}
	if otherFails > 0 {
		c.Stats.Fail(fmt.Sprintf("class=keystore-concurrent-rewrite: %d XSign calls of ANOTHER key fail with the correct password while a key file is rewritten by %s", otherFails, rewriter), scen)
	}
	if rewriteErrs > 0 {
		c.Stats.Fail(fmt.Sprintf("class=keystore-concurrent-rewrite: %d of %d %s calls with the correct password fail while another goroutine signs with the same key: %s", rewriteErrs, rewrites, rewriter, firstRewriteErr), scen)
	}
	// afterwards, quiescent: the key still opens with its password and refuses another
	sig, err := hsm.XSign(target.k.xpub, target.path, target.msg, target.k.pw)
	if err != nil || !bytes.Equal(sig, target.want) {
		cls := "class=keystore-roundtrip"
		if rewriter == "ResetPassword||UpdateKeyAlias" {
			cls = "class=keystore-reset-alias-race"
		}
		c.Stats.Fail(cls+": after concurrent signing and rewriting by "+rewriter+" have ended, XSign with the correct password fails or signs differently: "+fmt.Sprint(err), scen)
	}
	if w, _ := otherPw(r, target.k.pw); !sameScryptKey(w, target.k.pw) {
		if _, err := hsm.XSign(target.k.xpub, target.path, target.msg, w); err == nil {
			c.Stats.Fail("class=keystore-wrong-password: after concurrent signing and rewriting, XSign succeeds with a wrong password", scen)
		}
	}
	c.Stats.Case(fmt.Sprintf("concstore|%d|%s", seqSeed, rewriter), true)
	return nil
}

// ---------------------------------------------------------------- (8) a rewrite that fails half way

// withFileSizeLimit runs f while no file of this process can grow beyond limit bytes.
// Returns false if the limit cannot be set here.
func withFileSizeLimit(limit uint64, f func()) bool {
	var saved syscall.Rlimit
	if err := syscall.Getrlimit(syscall.RLIMIT_FSIZE, &saved); err != nil {
		return false
	}
	signal.Ignore(syscall.SIGXFSZ)
	defer signal.Reset(syscall.SIGXFSZ)
	if err := syscall.Setrlimit(syscall.RLIMIT_FSIZE, &syscall.Rlimit{Cur: limit, Max: saved.Max}); err != nil {
		return false
	}
	defer syscall.Setrlimit(syscall.RLIMIT_FSIZE, &saved)
	f()
	return true
}

func failedRewriteCase(c *Ctx, idx int, seqSeed uint64) error {
	r := NewRng(seqSeed)
	rd := crand.Reader
	crand.Reader = &lockedReader{r: NewRng(seqSeed ^ 0x5eed)}
	defer func() { crand.Reader = rd }()
	dir := filepath.Join(c.Out, fmt.Sprintf("frw_%d", idx))
	os.RemoveAll(dir)
	if err := os.MkdirAll(dir, 0700); err != nil {
		return err
	}
	defer os.RemoveAll(dir)
	hsm, err := pseudohsm.VerifNew(dir, 2, 1)
	if err != nil {
		return err
	}
	pw, alias := genPw(r), fmt.Sprintf("frw-%d", idx)
	mn, _ := mnem.NewMnemonic(r.Bytes(16), "en")
	scen := map[string]interface{}{"kind": "failed-rewrite", "index": idx, "sequence_seed": seqSeed, "mnemonic": mn, "alias": alias, "password": hx(pw)}
	if _, err := hsm.ImportKeyFromMnemonic(alias, pw, mn, "en"); err != nil {
		c.Stats.Fail("class=keystore-encrypt: import of a new key fails: "+err.Error(), scen)
		return nil
	}
	xprv, xpub := keyFromMnemonic(mn)
	path, msg := genPath(r, 3), genMsg(r)
	want := xprv.Derive(path).Sign(msg)
	if sig, err := hsm.XSign(xpub, path, msg, pw); err != nil || !bytes.Equal(sig, want) {
		c.Stats.Fail("class=keystore-roundtrip: XSign with the current password fails or signs differently: "+fmt.Sprint(err), scen)
		return nil
	}
	np, _ := otherPw(r, pw)
	limit := uint64(r.Intn(400)) // a key file has about 700 bytes
	op := []string{"ResetPassword", "UpdateKeyAlias"}[r.Intn(2)]
	scen["operation"], scen["file_size_limit"], scen["new_password"] = op, limit, hx(np)
	var opErr error
	ok := withFileSizeLimit(limit, func() {
		if op == "ResetPassword" {
			opErr = hsm.ResetPassword(xpub, pw, np)
		} else {
			opErr = hsm.UpdateKeyAlias(xpub, alias+"-renamed")
		}
	})
	if !ok || opErr == nil {
		c.Stats.Count("store:failed-rewrite:not-applicable(limit-not-effective)")
		return nil
	}
	c.Stats.Count("store:failed-rewrite:" + op)
	scen["operation_error"] = opErr.Error()
	// the operation reported an error: the password / alias did not change, the key must still open
	for round := 0; round < 2; round++ {
		sig, err := hsm.XSign(xpub, path, msg, pw)
		if err != nil {
			c.Stats.Fail(fmt.Sprintf("class=keystore-failed-rewrite: after a %s that FAILED (file size limit %d bytes while writing the key file: %v) the key no longer opens with its password: %v", op, limit, opErr, err), scen)
			return nil
		}
		if !bytes.Equal(sig, want) {
			c.Stats.Fail("class=keystore-sign: after a failed "+op+" the key signs differently", scen)
			return nil
		}
		if op == "ResetPassword" && !sameScryptKey(np, pw) {
			if _, err := hsm.XSign(xpub, path, msg, np); err == nil {
				c.Stats.Fail("class=keystore-wrong-password: after a failed ResetPassword both the old and the new password open the key", scen)
				return nil
			}
		}
		// and again after re-opening the store
		if hsm, err = pseudohsm.VerifNew(dir, 2, 1); err != nil {
			return err
		}
	}
	c.Stats.Case(fmt.Sprintf("frw|%d", seqSeed), true)
	return nil
}

func stageTime(name string, t0 time.Time) {
	if os.Getenv("C28_TIMING") != "" {
		fmt.Fprintf(os.Stderr, "[c28] %s: %.1fs\n", name, time.Since(t0).Seconds())
	}
}

// ---------------------------------------------------------------- (9) the same key stored twice

// A key that is already in the store is imported again (same mnemonic, another alias and
// password).  Both copies are stored encrypted in the key store; the key must still open with
// a correct password.
func duplicateImportCase(c *Ctx, idx int, seqSeed uint64) error {
	r := NewRng(seqSeed)
	rd := crand.Reader
	crand.Reader = &lockedReader{r: NewRng(seqSeed ^ 0x5eed)}
	defer func() { crand.Reader = rd }()
	dir := filepath.Join(c.Out, fmt.Sprintf("dup_%d", idx))
	os.RemoveAll(dir)
	if err := os.MkdirAll(dir, 0700); err != nil {
		return err
	}
	defer os.RemoveAll(dir)
	hsm, err := pseudohsm.VerifNew(dir, 2, 1)
	if err != nil {
		return err
	}
	mn, _ := mnem.NewMnemonic(r.Bytes(16), "en")
	pw1, pw2 := genPw(r), genPw(r)
	a1, a2 := fmt.Sprintf("dup-%d-a", idx), fmt.Sprintf("dup-%d-b", idx)
	scen := map[string]interface{}{"kind": "duplicate-import", "index": idx, "sequence_seed": seqSeed, "mnemonic": mn,
		"first": map[string]interface{}{"alias": a1, "password": hx(pw1)}, "second": map[string]interface{}{"alias": a2, "password": hx(pw2)}}
	if _, err := hsm.ImportKeyFromMnemonic(a1, pw1, mn, "en"); err != nil {
		c.Stats.Fail("class=keystore-encrypt: import of a new key fails: "+err.Error(), scen)
		return nil
	}
	xprv, xpub := keyFromMnemonic(mn)
	path, msg := genPath(r, 3), genMsg(r)
	want := xprv.Derive(path).Sign(msg)
	if sig, err := hsm.XSign(xpub, path, msg, pw1); err != nil || !bytes.Equal(sig, want) {
		c.Stats.Fail("class=keystore-roundtrip: XSign with the current password fails or signs differently: "+fmt.Sprint(err), scen)
		return nil
	}
	_, err2 := hsm.ImportKeyFromMnemonic(a2, pw2, mn, "en")
	c.Stats.Count(fmt.Sprintf("store:duplicate-import:second-import-accepted:%v", err2 == nil))
	if err2 != nil {
		// refused: then nothing changed
		if sig, err := hsm.XSign(xpub, path, msg, pw1); err != nil || !bytes.Equal(sig, want) {
			c.Stats.Fail("class=keystore-roundtrip: after a REFUSED second import the key no longer opens with its password: "+fmt.Sprint(err), scen)
		}
		return nil
	}
	// accepted: the key is stored (twice); a password it was stored with must open it
	_, e1 := hsm.XSign(xpub, path, msg, pw1)
	_, e2 := hsm.XSign(xpub, path, msg, pw2)
	d1, d2 := hsm.XDelete(xpub, pw1), error(nil)
	if d1 != nil {
		d2 = hsm.XDelete(xpub, pw2)
	}
	if e1 != nil && e2 != nil {
		scen["xsign_first_password"], scen["xsign_second_password"] = e1.Error(), e2.Error()
		scen["xdelete_first_password"], scen["xdelete_second_password"] = fmt.Sprint(d1), fmt.Sprint(d2)
		c.Stats.Fail("class=keystore-duplicate-import: after ImportKeyFromMnemonic accepted a mnemonic whose key is already in the store (another alias), XSign fails with BOTH passwords the key is stored under ("+e1.Error()+"), and XDelete fails too: the key is unusable until a key file is removed by hand", scen)
	}
	c.Stats.Case(fmt.Sprintf("dup|%d", seqSeed), true)
	return nil
}

// a panic of the implementation inside a key-store case is an observable of its own
func guarded(c *Ctx, what string, scen map[string]interface{}, f func() error) (err error) {
	defer func() {
		if p := recover(); p != nil {
			c.Stats.Fail(fmt.Sprintf("class=keystore-panic: the key store panics during %s: %v", what, p), scen)
			err = nil
		}
	}()
	return f()
}

func storeStages(c *Ctx) error {
	logrus.SetOutput(ioutil.Discard) // Restore warns about every key it skips
	t0 := time.Now()
	// (6) life-cycle sequences
	nSeq, nOps := c.N(60, 300), c.N(24, 40)
	for i := 0; i < nSeq; i++ {
		ops, withModel := nOps, i < c.N(8, 40)
		if withModel {
			ops = 10
		}
		seed := c.Rng.Next()
		if err := guarded(c, "a key-store operation sequence", map[string]interface{}{"kind": "key-store-sequence", "index": i, "sequence_seed": seed, "operations": ops},
			func() error { return lifeSequence(c, i, seed, true, ops, withModel) }); err != nil {
			return err
		}
	}
	stageTime("life-cycle sequences", t0)
	t0 = time.Now()
	// ... a few short ones on pseudohsm.New itself (LightScryptN/P)
	for i := 0; i < c.N(2, 6); i++ {
		seed := c.Rng.Next()
		if err := guarded(c, "a key-store operation sequence (pseudohsm.New)", map[string]interface{}{"kind": "key-store-sequence", "index": 1000 + i, "sequence_seed": seed},
			func() error { return lifeSequence(c, 1000+i, seed, false, 6, false) }); err != nil {
			return err
		}
	}
	stageTime("life-cycle sequences on pseudohsm.New", t0)
	t0 = time.Now()
	// (7) signing while the key file is rewritten
	for i, rw := range []string{"ResetPassword", "UpdateKeyAlias", "both", "ResetPassword", "ResetPassword||UpdateKeyAlias"} {
		seed, rwr := c.Rng.Next(), rw
		if err := guarded(c, "XSign concurrent with "+rw, map[string]interface{}{"kind": "sign-while-rewritten", "index": i, "sequence_seed": seed, "rewriter": rw},
			func() error { return concStoreCase(c, i, seed, rwr, c.N(1500, 6000)) }); err != nil {
			return err
		}
	}
	stageTime("sign while rewritten", t0)
	t0 = time.Now()
	// (8) failing rewrites
	for i := 0; i < c.N(12, 60); i++ {
		seed := c.Rng.Next()
		if err := guarded(c, "a failing key-file rewrite", map[string]interface{}{"kind": "failed-rewrite", "index": i, "sequence_seed": seed},
			func() error { return failedRewriteCase(c, i, seed) }); err != nil {
			return err
		}
	}
	stageTime("failed rewrites", t0)
	// (9) the same key imported twice
	dseed := c.Rng.Next()
	if err := guarded(c, "a duplicate import", map[string]interface{}{"kind": "duplicate-import", "sequence_seed": dseed},
		func() error { return duplicateImportCase(c, 0, dseed) }); err != nil {
		return err
	}
	return nil
}
