package main

// C28: the key-store sequences of store.go as cases of the Coq model C28/Store.v.
//
// For a model-evaluated sequence every operation of the harness is also written as a model
// operation (SCreate / SLoad / SReset / SAlias / SDelete / SBackup / SRestore over numbered
// stores) together with what the implementation showed: the error class, the loaded xprv, the
// image of Backup (every field of every entry), and after every successful write ALL key files of
// the store (cache xpub and alias from ListKeys, ciphertext, iv, salt, mac and alias of the file).
// scrypt and AES-CTR are tables (as for the other key-store cases), the MAC hash runs in Coq.

import (
	"encoding/hex"
	"encoding/json"
	"fmt"
	"io/ioutil"

	"github.com/bytom/bytom/blockchain/pseudohsm"
	"github.com/bytom/bytom/crypto/ed25519/chainkd"
	. "verifharness/hlib"
)

type storeModel struct {
	t    *tabs
	ops  []string
	obs  []string
	ok   bool
	n, p int
}

func (s *storeSim) mOn() bool { return s.m != nil && s.m.ok }

func (s *storeSim) mEmit(op, obs string) {
	s.m.ops = append(s.m.ops, op)
	s.m.obs = append(s.m.obs, obs)
}

func lpb(b []byte) []byte { return append([]byte{byte(len(b))}, b...) }

func storeErrObs(err error) string {
	code := byte(9)
	switch {
	case err == pseudohsm.ErrDecrypt:
		code = 0
	case err == pseudohsm.ErrLoadKey:
		code = 1
	case err == pseudohsm.ErrDuplicateKeyAlias:
		code = 3
	default:
		if _, ok := err.(*pseudohsm.AmbiguousKeyError); ok {
			code = 4
		}
	}
	return X([]byte{3, code})
}

func entryBytes(xpub []byte, cacheAlias string, kj *keyJSON) []byte {
	var b []byte
	for _, f := range [][]byte{xpub, []byte(cacheAlias), kj.ct, kj.iv, kj.salt, kj.mac, []byte(kj.alias)} {
		b = append(b, lpb(f)...)
	}
	return b
}

// the key file of x as it is on disk
func (s *storeSim) fileOf(x chainkd.XPub) *keyJSON {
	for _, xp := range s.hsm.ListKeys() {
		if xp.XPub == x {
			js, err := ioutil.ReadFile(xp.File)
			if err != nil {
				return nil
			}
			kj, _ := parseKeyJSON(js)
			return kj
		}
	}
	return nil
}

// all key files of the store in file order: the model's obs_store
func (s *storeSim) storeBytes() []byte {
	b := []byte{1}
	list := s.hsm.ListKeys()
	if len(list) == len(s.keys) {
		for i, xp := range list {
			if xp.XPub != s.keys[i].xpub {
				// file order is not creation order (the clock stepped back): no model case
				s.m.ok = false
				s.c.Stats.Count("store:model:skipped(file-order)")
			}
		}
	}
	for _, xp := range list {
		js, err := ioutil.ReadFile(xp.File)
		if err != nil {
			continue
		}
		kj, err := parseKeyJSON(js)
		if err != nil {
			continue
		}
		b = append(b, entryBytes(xp.XPub[:], xp.Alias, kj)...)
	}
	return b
}

func (s *storeSim) sidN() string { return fmt.Sprint(s.sid) }

// after a successful create/import of k
func (s *storeSim) mCreated(k *liveKey) {
	kj := s.fileOf(k.xpub)
	if kj == nil {
		s.m.ok = false
		return
	}
	k.salt, k.iv = kj.salt, kj.iv
	t := s.m.t
	t.refXPub(k.xprv[:])
	dk := t.kdf([]byte(k.pw), k.salt, s.m.n, s.m.p)
	t.ctr(dk[:16], k.iv, 64)
	s.mEmit(fmt.Sprintf("SCreate %s %s %s %s %s %s", s.sidN(), X(k.xprv[:]), X([]byte(k.alias)), X([]byte(k.pw)), X(k.salt), X(k.iv)), X(s.storeBytes()))
}

func (s *storeSim) mCreateRefused(alias, pw string, err error) {
	s.mEmit(fmt.Sprintf("SCreate %s (X 0 0) %s %s (X 0 0) (X 0 0)", s.sidN(), X([]byte(alias)), X([]byte(pw))), storeErrObs(err))
}

func (s *storeSim) mLoad(k *liveKey, pw string) {
	s.m.t.kdf([]byte(pw), k.salt, s.m.n, s.m.p)
	got, err := s.hsm.LoadChainKDKey(k.xpub, pw)
	obs := storeErrObs(err)
	if err == nil {
		obs = ocOk(got[:])
	}
	s.mEmit(fmt.Sprintf("SLoad %s %s %s", s.sidN(), X(k.xpub[:]), X([]byte(pw))), obs)
}

func (s *storeSim) mResetRefused(k *liveKey, old, np string, err error) {
	s.m.t.kdf([]byte(old), k.salt, s.m.n, s.m.p)
	s.mEmit(fmt.Sprintf("SReset %s %s %s %s (X 0 0) (X 0 0)", s.sidN(), X(k.xpub[:]), X([]byte(old)), X([]byte(np))), storeErrObs(err))
}

func (s *storeSim) mResetDone(k *liveKey, old, np string) {
	kj := s.fileOf(k.xpub)
	if kj == nil {
		s.m.ok = false
		return
	}
	k.salt, k.iv = kj.salt, kj.iv
	dk := s.m.t.kdf([]byte(np), k.salt, s.m.n, s.m.p)
	s.m.t.ctr(dk[:16], k.iv, 64)
	s.mEmit(fmt.Sprintf("SReset %s %s %s %s %s %s", s.sidN(), X(k.xpub[:]), X([]byte(old)), X([]byte(np)), X(k.salt), X(k.iv)), X(s.storeBytes()))
}

func (s *storeSim) mAlias(k *liveKey, na string) {
	s.mEmit(fmt.Sprintf("SAlias %s %s %s", s.sidN(), X(k.xpub[:]), X([]byte(na))), X(s.storeBytes()))
}

func (s *storeSim) mDelete(k *liveKey, pw string, err error) {
	s.m.t.kdf([]byte(pw), k.salt, s.m.n, s.m.p)
	obs := storeErrObs(err)
	if err == nil {
		obs = X(s.storeBytes())
	}
	s.mEmit(fmt.Sprintf("SDelete %s %s %s", s.sidN(), X(k.xpub[:]), X([]byte(pw))), obs)
}

// the image as Backup returned it (JSON): every field of every entry
func (s *storeSim) mBackup(raw []byte) {
	var img struct {
		XKeys []json.RawMessage `json:"xkeys"`
	}
	if err := json.Unmarshal(raw, &img); err != nil {
		s.m.ok = false
		return
	}
	b := []byte{1}
	for _, e := range img.XKeys {
		kj, err := parseKeyJSON(e)
		if err != nil {
			s.m.ok = false
			return
		}
		xs, _ := kj.raw["xpub"].(string)
		xb, _ := hex.DecodeString(xs)
		b = append(b, entryBytes(xb, kj.alias, kj)...)
	}
	s.mEmit("SBackup "+s.sidN(), X(b))
}

func (s *storeSim) mRestore(target *storeSim, rerr error) {
	flag := byte(1)
	if rerr != nil {
		flag = 3
	}
	s.mEmit(fmt.Sprintf("SRestore %s %s", s.sidN(), target.sidN()), X(append([]byte{flag}, target.storeBytes()...)))
}

func (s *storeSim) mFinish(c *Ctx) {
	if s.m == nil || !s.m.ok || len(s.m.ops) == 0 {
		return
	}
	model := fmt.Sprintf("run_store %s %s", s.m.t.coq(), CoqList(s.m.ops))
	id := c.Cases.Add(model, CoqList(s.m.obs))
	c.Stats.CaseIndex[fmt.Sprint(id)] = map[string]interface{}{"kind": "key-store-sequence", "sequence": s.id, "operations": append([]interface{}{}, s.trace...)}
	c.Stats.Count("model_evaluated")
	c.Stats.Distribution["store:model:operations"] += len(s.m.ops)
}
