package main

// C29 — addresses and text encodings.  Runs /repo's bech32, segwit address,
// base32 and mnemonic code on generated inputs, applies the direct oracle
// (round trips, rejection of every single-character substitution, rejection on
// the other networks, no panic) and writes the correspondence cases for the
// Coq model (coq/C29/Model.v, evaluated through coq/C29/Run.v).

import (
	"bytes"
	"crypto/sha256"
	"fmt"
	"os"
	"path/filepath"
	"strings"
	"unicode"

	"github.com/bytom/bytom/common"
	"github.com/bytom/bytom/common/bech32"
	"github.com/bytom/bytom/consensus"
	"github.com/bytom/bytom/encoding/base32"
	"github.com/bytom/bytom/wallet/mnemonic"
	"github.com/bytom/bytom/wallet/mnemonic/wordlists"
	. "verifharness/hlib"
)

func main() { Main("C29", run, nil) }

const bech32Charset = "qpzry9x8gf2tvdw0s3jn54khce6mua7l"

// ---- formatting of observations ------------------------------------------

func nsList(xs []uint64) string {
	var sb strings.Builder
	sb.WriteString("[")
	for i, x := range xs {
		if i > 0 {
			sb.WriteString(";")
		}
		fmt.Fprintf(&sb, "%d", x)
	}
	sb.WriteString("]%N")
	return sb.String()
}

func obsItems(tag int, items ...string) string {
	return fmt.Sprintf("(O %d [%s])", tag, strings.Join(items, "; "))
}
func obsB(tag int, items ...[]byte) string {
	ss := make([]string, len(items))
	for i, it := range items {
		ss[i] = CoqBytes(it)
	}
	return obsItems(tag, ss...)
}
func S(s string) string { return CoqBytes([]byte(s)) }

// guard runs f; a panic is reported as (true, value).
func guard(f func()) (p bool, v interface{}) {
	defer func() {
		if r := recover(); r != nil {
			p, v = true, r
		}
	}()
	f()
	return
}

type H struct {
	c       *Ctx
	nets    []*consensus.Params
	entries []string
}

// writeCases emits the shard files cases_<k>.v in the format the driver expects
// (same layout as hlib.CaseFile.Write).  Case ids are written as (N.to_nat id):
// a unary nat literal in the thousands costs Coq's front end seconds per shard.
func (h *H) writeCases(dir, header, ty, eqb string) error {
	old, _ := filepath.Glob(filepath.Join(dir, "cases_*.v"))
	for _, f := range old {
		os.Remove(f)
	}
	const shard = 300
	for k, lo := 0, 0; lo < len(h.entries) || k == 0; k, lo = k+1, lo+shard {
		hi := lo + shard
		if hi > len(h.entries) {
			hi = len(h.entries)
		}
		var out strings.Builder
		out.WriteString(header + "\n")
		var names []string
		for ck, a := 0, lo; a < hi; ck, a = ck+1, a+50 {
			b := a + 50
			if b > hi {
				b = hi
			}
			name := fmt.Sprintf("chunk%d", ck)
			names = append(names, name)
			out.WriteString("Definition " + name + " : list (nat * (" + ty + ") * (" + ty + ")) :=\n")
			out.WriteString(strings.Join(h.entries[a:b], "\n"))
			out.WriteString(" nil.\n")
		}
		names = append(names, "nil")
		out.WriteString("Definition mismatches := Eval vm_compute in\n  map (fun c => fst (fst c)) (filter (fun c => negb (" + eqb + " (snd (fst c)) (snd c))) (" + strings.Join(names, " ++ ") + ")).\n")
		out.WriteString("Print mismatches.\n")
		if err := os.WriteFile(filepath.Join(dir, fmt.Sprintf("cases_%d.v", k)), []byte(out.String()), 0644); err != nil {
			return err
		}
	}
	return nil
}

func (h *H) panicFail(fn string, in string, v interface{}) {
	h.c.Stats.Fail(fmt.Sprintf("class=panic: %s panics on input %q: %v", fn, in, v),
		map[string]interface{}{"fn": fn, "input_hex": fmt.Sprintf("%x", in), "input": in})
}

func (h *H) addCase(model, observed string, desc map[string]interface{}) {
	id := len(h.entries)
	h.entries = append(h.entries, fmt.Sprintf(" (N.to_nat %d, %s, %s) ::", id, model, observed))
	if id%37 == 0 || len(h.c.Stats.CaseIndex) < 40 {
		h.c.Stats.CaseIndex[fmt.Sprint(id)] = desc
	}
	h.c.Stats.Count("model_evaluated")
}

// ---- implementation wrappers (all decoders run under recover) -------------

func (h *H) bech32Decode(s string) (tag int, hrp string, data []byte) {
	var err error
	p, v := guard(func() { hrp, data, err = bech32.Bech32Decode(s) })
	if p {
		h.panicFail("Bech32Decode", s, v)
		return 9, "", nil
	}
	if err != nil {
		return 1, "", nil
	}
	return 0, hrp, data
}

func (h *H) obsBech32Decode(s string) string {
	tag, hrp, data := h.bech32Decode(s)
	if tag != 0 {
		return obsItems(tag)
	}
	return obsB(0, []byte(hrp), data)
}

type addrRes struct {
	tag  int
	hrp  string
	prog []byte
	kind int // 20 or 32
	addr common.Address
}

func (h *H) decodeAddress(s string, net *consensus.Params) addrRes {
	var a common.Address
	var err error
	p, v := guard(func() { a, err = common.DecodeAddress(s, net) })
	if p {
		h.panicFail("DecodeAddress/"+net.Name, s, v)
		return addrRes{tag: 9}
	}
	if err != nil {
		switch err {
		case common.ErrUnknownAddressType:
			return addrRes{tag: 2}
		case common.ErrUnsupportedWitnessVer:
			return addrRes{tag: 3}
		case common.ErrUnsupportedWitnessProgLen:
			return addrRes{tag: 4}
		}
		return addrRes{tag: 1}
	}
	switch t := a.(type) {
	case *common.AddressWitnessPubKeyHash:
		return addrRes{0, t.Hrp(), append([]byte{}, t.ScriptAddress()...), 20, a}
	case *common.AddressWitnessScriptHash:
		return addrRes{0, t.Hrp(), append([]byte{}, t.ScriptAddress()...), 32, a}
	}
	h.c.Stats.Fail("class=address-type: DecodeAddress returned an unknown address type", map[string]interface{}{"input": s})
	return addrRes{tag: 1}
}

func (r addrRes) obs() string {
	if r.tag != 0 {
		return obsItems(r.tag)
	}
	return obsB(0, []byte(r.hrp), r.prog)
}

func (h *H) decodeSegwit(s string) string {
	var ver byte
	var prog []byte
	var err error
	p, v := guard(func() { ver, prog, err = common.VerifDecodeSegWitAddress(s) })
	if p {
		h.panicFail("decodeSegWitAddress", s, v)
		return obsItems(9)
	}
	if err != nil {
		return obsItems(1)
	}
	return obsB(0, []byte{ver}, prog)
}

func (h *H) convertBits(data []byte, from, to uint8, pad bool) (int, []byte) {
	var out []byte
	var err error
	p, v := guard(func() { out, err = bech32.ConvertBits(data, from, to, pad) })
	if p {
		h.panicFail(fmt.Sprintf("ConvertBits(%d,%d,%v)", from, to, pad), string(data), v)
		return 9, nil
	}
	if err != nil {
		return 1, nil
	}
	return 0, out
}

func encodeAddr(prog []byte, net *consensus.Params) (string, common.Address) {
	if len(prog) == 20 {
		a, err := common.NewAddressWitnessPubKeyHash(prog, net)
		if err != nil {
			return "", nil
		}
		return a.EncodeAddress(), a
	}
	a, err := common.NewAddressWitnessScriptHash(prog, net)
	if err != nil {
		return "", nil
	}
	return a.EncodeAddress(), a
}

// ---- generators -------------------------------------------------------------

func (h *H) program(n int) []byte {
	r := h.c.Rng
	switch r.Intn(10) {
	case 0:
		return make([]byte, n)
	case 1:
		return bytes.Repeat([]byte{0xff}, n)
	case 2: // leading zeros
		b := r.Bytes(n)
		for i := 0; i < 1+r.Intn(n-1); i++ {
			b[i] = 0
		}
		return b
	case 3: // trailing zeros
		b := r.Bytes(n)
		for i := n - 1 - r.Intn(n-1); i < n; i++ {
			b[i] = 0
		}
		return b
	}
	return r.Bytes(n)
}

func (h *H) randString(alpha string, n int) string {
	b := make([]byte, n)
	for i := range b {
		b[i] = alpha[h.c.Rng.Intn(len(alpha))]
	}
	return string(b)
}

func (h *H) mutate(s string) (string, string) {
	r := h.c.Rng
	b := []byte(s)
	pool := bech32Charset + "1bioBIO Q=\x00\x7f\x80\xff"
	if len(b) == 0 {
		return string(pool[r.Intn(len(pool))]), "insert"
	}
	switch r.Intn(9) {
	case 0:
		i := r.Intn(len(b))
		return string(append(b[:i:i], b[i+1:]...)), "delete"
	case 1:
		i := r.Intn(len(b) + 1)
		out := append(append(append([]byte{}, b[:i]...), pool[r.Intn(len(pool))]), b[i:]...)
		return string(out), "insert"
	case 2:
		if len(b) > 1 {
			i := r.Intn(len(b) - 1)
			b[i], b[i+1] = b[i+1], b[i]
		}
		return string(b), "swap"
	case 3:
		return string(b[:r.Intn(len(b))]), "truncate"
	case 4:
		i := r.Intn(len(b))
		if unicode.IsUpper(rune(b[i])) {
			b[i] = byte(unicode.ToLower(rune(b[i])))
		} else {
			b[i] = byte(unicode.ToUpper(rune(b[i])))
		}
		return string(b), "flipcase"
	case 5:
		return strings.ToUpper(s), "upper"
	case 6:
		i := r.Intn(len(b))
		b[i] = pool[r.Intn(len(pool))]
		return string(b), "replace"
	case 7:
		i, j := r.Intn(len(b)), r.Intn(len(b))
		b[i], b[j] = b[j], b[i]
		return string(b), "swapfar"
	}
	return s + h.randString(bech32Charset, 1+r.Intn(40)), "extend"
}

// ---- streams --------------------------------------------------------------

// address: encode, decode on all networks, single substitutions
func (h *H) addresses() {
	c := h.c
	nAddr := c.N(12, 60)
	nModelAll := c.N(3, 18) // addresses whose complete substitution table goes to the model
	all := make([]byte, 256)
	for i := range all {
		all[i] = byte(i)
	}
	for k := 0; k < nAddr; k++ {
		net := h.nets[k%3]
		n := 20
		if (k/3)%2 == 1 {
			n = 32
		}
		prog := h.program(n)
		s, a := encodeAddr(prog, net)
		desc := map[string]interface{}{"net": net.Name, "program": fmt.Sprintf("%x", prog), "address": s}
		c.Stats.Case("addr:"+net.Name+":"+fmt.Sprintf("%x", prog), true)
		c.Stats.Count(fmt.Sprintf("address_p%d_%s", n, net.Name))
		c.Stats.Sample(desc)
		// model: encoding
		if s == "" {
			c.Stats.Fail("class=address-roundtrip: EncodeAddress returns the empty string for a valid program", desc)
			h.addCase(fmt.Sprintf("r_encode_address %s %s", S(net.Bech32HRPSegwit), CoqBytes(prog)), obsItems(1), desc)
			continue
		}
		h.addCase(fmt.Sprintf("r_encode_address %s %s", S(net.Bech32HRPSegwit), CoqBytes(prog)), obsB(0, []byte(s)), desc)
		// oracle: round trip on this network, rejection on the others
		for _, q := range h.nets {
			r := h.decodeAddress(s, q)
			h.addCase(fmt.Sprintf("r_decode_address %s %s", S(q.Bech32HRPSegwit), S(s)), r.obs(), desc)
			if q == net {
				if r.tag != 0 || !bytes.Equal(r.prog, prog) || r.kind != n || !r.addr.IsForNet(net) || r.addr.EncodeAddress() != s {
					c.Stats.Fail(fmt.Sprintf("class=address-roundtrip: %s program %x -> %q does not decode back on its own network", net.Name, prog, s), desc)
				}
				if a != nil && !bytes.Equal(a.ScriptAddress(), prog) {
					c.Stats.Fail("class=address-roundtrip: ScriptAddress differs from the program", desc)
				}
			} else if r.tag == 0 {
				c.Stats.Fail(fmt.Sprintf("class=address-network: address %q of %s is accepted on %s", s, net.Name, q.Name), desc)
			}
		}
		// upper-case form (correspondence only)
		up := strings.ToUpper(s)
		h.addCase(fmt.Sprintf("r_decode_address %s %s", S(net.Bech32HRPSegwit), S(up)), h.decodeAddress(up, net).obs(), desc)
		// oracle: every single-byte substitution at every position is rejected on every network
		for i := 0; i < len(s); i++ {
			tags := map[*consensus.Params][]uint64{}
			for _, ch := range all {
				b := []byte(s)
				b[i] = ch
				for _, q := range h.nets {
					r := h.decodeAddress(string(b), q)
					tags[q] = append(tags[q], uint64(r.tag))
					c.Stats.Evaluations++
					if ch != s[i] && r.tag == 0 {
						c.Stats.Fail(fmt.Sprintf("class=substitution-accepted: %q with position %d replaced by %q is accepted on %s", s, i, string(ch), q.Name),
							map[string]interface{}{"address": s, "pos": i, "char": int(ch), "net": q.Name, "mutated": string(b)})
					}
				}
			}
			c.Stats.Count("substitution_positions")
			for _, q := range h.nets {
				// model: own network at every position; the other networks where the prefix is touched
				if k < nModelAll && (q == net || i < 3) || (k >= nModelAll && c.Rng.Intn(40) == 0) {
					h.addCase(fmt.Sprintf("r_subst_all %s %s %d%%nat %s", S(q.Bech32HRPSegwit), S(s), i, CoqBytes(all)),
						obsItems(0, nsList(tags[q])),
						map[string]interface{}{"address": s, "pos": i, "net": q.Name, "kind": "all 256 substitutions"})
					c.Stats.Count("model_substitution_tables")
				}
			}
		}
	}
}

// other witness versions and program lengths through the unexported encoder
func (h *H) segwit() {
	c := h.c
	for k := 0; k < c.N(60, 400); k++ {
		net := h.nets[c.Rng.Intn(3)]
		ver := byte(c.Rng.Intn(19))
		if c.Rng.Chance(40) {
			ver = 0
		}
		n := []int{0, 1, 2, 3, 19, 20, 21, 31, 32, 33, 39, 40, 41, 45}[c.Rng.Intn(14)]
		if c.Rng.Chance(30) {
			n = c.Rng.Intn(46)
		}
		prog := c.Rng.Bytes(n)
		hrp := net.Bech32HRPSegwit
		if c.Rng.Chance(15) {
			hrp = strings.ToUpper(hrp)
		}
		var s string
		var err error
		p, v := guard(func() { s, err = common.VerifEncodeSegWitAddress(hrp, ver, prog) })
		desc := map[string]interface{}{"hrp": hrp, "version": ver, "program": fmt.Sprintf("%x", prog)}
		c.Stats.Case(fmt.Sprintf("segwit:%s:%d:%x", hrp, ver, prog), true)
		model := fmt.Sprintf("r_encode_segwit %s %d %s", S(hrp), ver, CoqBytes(prog))
		if p {
			h.panicFail("encodeSegWitAddress", fmt.Sprint(desc), v)
			h.addCase(model, obsItems(9), desc)
			continue
		}
		if err != nil {
			c.Stats.Count("segwit_encode_err")
			h.addCase(model, obsItems(1), desc)
			continue
		}
		c.Stats.Count("segwit_encode_ok")
		h.addCase(model, obsB(0, []byte(s)), desc)
		h.addCase("r_decode_segwit "+S(s), h.decodeSegwit(s), desc)
		r := h.decodeAddress(s, net)
		c.Stats.Count(fmt.Sprintf("decode_address_tag%d", r.tag))
		h.addCase(fmt.Sprintf("r_decode_address %s %s", S(net.Bech32HRPSegwit), S(s)), r.obs(), desc)
		if ver != 0 && r.tag == 0 {
			c.Stats.Fail("class=address-version: witness version != 0 accepted by DecodeAddress", desc)
		}
	}
}

func validHrp(s string) bool {
	if len(s) < 1 {
		return false
	}
	for i := 0; i < len(s); i++ {
		if s[i] < 33 || s[i] > 126 || (s[i] >= 'A' && s[i] <= 'Z') {
			return false
		}
	}
	return true
}

func (h *H) bech32Stream() (valid []string) {
	c := h.c
	for k := 0; k < c.N(100, 1200); k++ {
		var hrp string
		switch c.Rng.Intn(6) {
		case 0:
			hrp = h.nets[c.Rng.Intn(3)].Bech32HRPSegwit
		case 1:
			hrp = h.randString("abcdefghijklmnopqrstuvwxyz0123456789", 1+c.Rng.Intn(12))
		case 2: // any printable, may contain '1' and upper case
			b := make([]byte, 1+c.Rng.Intn(10))
			for i := range b {
				b[i] = byte(33 + c.Rng.Intn(94))
			}
			hrp = string(b)
		case 3: // long: total length around the limit of 90
			hrp = h.randString("abcdefghijklmnopqrstuvwxyz1", 20+c.Rng.Intn(50))
		case 4:
			hrp = h.randString("ab1", c.Rng.Intn(4))
		default:
			hrp = h.randString("abcdefghijklmnopqrstuvwxyz", 1+c.Rng.Intn(5))
		}
		n := c.Rng.Intn(60)
		if c.Rng.Chance(30) { // aim at total length 88..92
			n = 90 - 7 - len(hrp) + c.Rng.Intn(5) - 2
			if n < 0 {
				n = 0
			}
		}
		data := make([]byte, n)
		for i := range data {
			data[i] = byte(c.Rng.Intn(32))
		}
		if c.Rng.Chance(5) && n > 0 {
			data[c.Rng.Intn(n)] = byte(32 + c.Rng.Intn(224))
		}
		in := append([]byte{}, data...)
		var s string
		var err error
		p, v := guard(func() { s, err = bech32.Bech32Encode(hrp, in[:len(in):len(in)]) })
		desc := map[string]interface{}{"hrp": hrp, "data": fmt.Sprintf("%x", data)}
		c.Stats.Case(fmt.Sprintf("bech32:%s:%x", hrp, data), true)
		model := fmt.Sprintf("r_bech32_encode %s %s", S(hrp), CoqBytes(data))
		if p {
			h.panicFail("Bech32Encode", fmt.Sprint(desc), v)
			h.addCase(model, obsItems(9), desc)
			continue
		}
		if err != nil {
			c.Stats.Count("bech32_encode_err")
			h.addCase(model, obsItems(1), desc)
			continue
		}
		c.Stats.Count("bech32_encode_ok")
		h.addCase(model, obsB(0, []byte(s)), desc)
		h.addCase("r_checksum "+S(hrp)+" "+CoqBytes(data), obsB(0, bech32.VerifChecksum(hrp, data)), desc)
		tag, dh, dd := h.bech32Decode(s)
		h.addCase("r_bech32_decode "+S(s), h.obsBech32Decode(s), desc)
		c.Stats.Count(fmt.Sprintf("bech32_decode_len%s_tag%d", lenClass(len(s)), tag))
		// oracle: round trip whenever the string is a well-formed bech32 string
		if validHrp(hrp) && len(s) <= 90 {
			if tag != 0 || dh != hrp || !bytes.Equal(dd, data) {
				c.Stats.Fail(fmt.Sprintf("class=bech32-roundtrip: Bech32Decode(Bech32Encode(%q, %x)) = tag %d (%q, %x)", hrp, data, tag, dh, dd), desc)
			}
			valid = append(valid, s)
			// single substitutions at the bech32 level (not the address level): rejected or different
			i := c.Rng.Intn(len(s))
			for _, ch := range []byte(bech32Charset + "1bio") {
				if ch == s[i] {
					continue
				}
				b := []byte(s)
				b[i] = ch
				t2, h2, d2 := h.bech32Decode(string(b))
				c.Stats.Evaluations++
				if t2 == 0 && h2 == hrp && bytes.Equal(d2, data) {
					c.Stats.Fail(fmt.Sprintf("class=substitution-accepted: bech32 %q with position %d replaced by %q decodes to the same value", s, i, string(ch)), desc)
				}
			}
		}
		if len(s) > 90 && tag == 0 {
			c.Stats.Fail("class=bech32-length: a string longer than 90 characters is accepted", desc)
		}
		up := strings.ToUpper(s)
		h.addCase("r_bech32_decode "+S(up), h.obsBech32Decode(up), desc)
	}
	return valid
}

func lenClass(n int) string {
	switch {
	case n < 8:
		return "<8"
	case n <= 88:
		return "8..88"
	case n <= 90:
		return "89..90"
	}
	return ">90"
}

// arbitrary / adversarial strings into every string decoder
func (h *H) hostile(valid []string) {
	c := h.c
	q88 := strings.Repeat("q", 88)
	fixed := []string{"", "1", "11", "11111111", "1111111111", "bn1", "bn", "b", "1qqqqqqq", "qqqqqqq1", "qqqqqqqq",
		"bn1qqqqq", "bn1qqqqqq", "bn1qqqqqqq", "a1qqqqqq", "a12uel5l", "A12UEL5L", "a12UEL5L",
		"bn1" + q88[:87], "bn1" + q88, "bn1" + q88 + "q", strings.Repeat("1", 90), strings.Repeat("1", 91),
		strings.Repeat("q", 90), strings.Repeat("q", 91), strings.Repeat("q", 200),
		"bn1\xffqqqqqqqq", "\xffn1qqqqqqqq", "b\x80n1qqqqqq", "Kn1qqqqqqq", "İn1qqqqqqq", "ſn1qqqqqqq",
		"bn1 qqqqqqq", "bn1\x7fqqqqqqq", "bn1\x00qqqqqqq", " bn1qqqqqqq", "bn1qqqqqqq ", "bn1bqqqqqq", "bn1iqqqqqq", "bn1oqqqqqq",
		"BN1QQQQQQQ", "Bn1qqqqqqq", "bN1qqqqqqq", "bn11qqqqqq", "b1n1qqqqqqq", "1bn1qqqqqq",
		"tn1", "sn1", "tn1qqqqqqq", "sn1qqqqqqq", "xn1qqqqqqq", "n1qqqqqqq", "bnn1qqqqqq",
	}
	var ins []string
	ins = append(ins, fixed...)
	for k := 0; k < c.N(180, 3000); k++ {
		switch c.Rng.Intn(8) {
		case 0:
			ins = append(ins, string(c.Rng.Bytes(c.Rng.Intn(100))))
		case 1:
			ins = append(ins, h.randString(bech32Charset+"1", c.Rng.Intn(100)))
		case 2:
			ins = append(ins, h.nets[c.Rng.Intn(3)].Bech32HRPSegwit+"1"+h.randString(bech32Charset, c.Rng.Intn(95)))
		case 3:
			ins = append(ins, h.randString("bn1q", c.Rng.Intn(20)))
		default:
			if len(valid) > 0 {
				s := valid[c.Rng.Intn(len(valid))]
				kind := ""
				for j := 0; j <= c.Rng.Intn(2); j++ {
					s, kind = h.mutate(s)
				}
				c.Stats.Count("mutation_" + kind)
				ins = append(ins, s)
			}
		}
	}
	for _, s := range ins {
		desc := map[string]interface{}{"input": s, "input_hex": fmt.Sprintf("%x", s)}
		c.Stats.Case("hostile:"+s, len(s) >= 8)
		tag, _, _ := h.bech32Decode(s)
		c.Stats.Count(fmt.Sprintf("hostile_bech32_tag%d", tag))
		h.addCase("r_bech32_decode "+S(s), h.obsBech32Decode(s), desc)
		h.addCase("r_decode_segwit "+S(s), h.decodeSegwit(s), desc)
		net := h.nets[c.Rng.Intn(3)]
		r := h.decodeAddress(s, net)
		c.Stats.Count(fmt.Sprintf("hostile_address_tag%d", r.tag))
		h.addCase(fmt.Sprintf("r_decode_address %s %s", S(net.Bech32HRPSegwit), S(s)), r.obs(), desc)
		for _, q := range h.nets {
			h.decodeAddress(s, q) // panic oracle on the remaining networks
		}
	}
}

func (h *H) convertStream() {
	c := h.c
	// oracle: 8 -> 5 (pad) -> 8 (no pad) is the identity for every length
	maxLen := c.N(70, 300)
	for n := 0; n <= maxLen; n++ {
		data := c.Rng.Bytes(n)
		if n%7 == 3 {
			data = make([]byte, n)
		}
		t1, five := h.convertBits(data, 8, 5, true)
		desc := map[string]interface{}{"data": fmt.Sprintf("%x", data)}
		c.Stats.Case(fmt.Sprintf("cb85:%x", data), true)
		c.Stats.Count("convert_roundtrip_lengths")
		if t1 != 0 {
			c.Stats.Fail("class=convertbits-roundtrip: ConvertBits(8,5,pad) fails", desc)
			continue
		}
		t2, back := h.convertBits(five, 5, 8, false)
		if t2 != 0 || !bytes.Equal(back, data) {
			c.Stats.Fail(fmt.Sprintf("class=convertbits-roundtrip: 8->5->8 of %x gives tag %d %x", data, t2, back), desc)
		}
		if n <= 45 || n%16 == 0 {
			h.addCase(fmt.Sprintf("r_convert %s 8 5 true", CoqBytes(data)), obsB(0, five), desc)
			h.addCase(fmt.Sprintf("r_convert %s 5 8 false", CoqBytes(five)), obsB(t2, back), desc)
		}
	}
	// correspondence on all width pairs, including the rejected ones
	for k := 0; k < c.N(150, 2500); k++ {
		from, to := uint8(c.Rng.Intn(10)), uint8(c.Rng.Intn(10))
		if c.Rng.Chance(50) {
			from, to = []uint8{5, 8}[c.Rng.Intn(2)], []uint8{5, 8}[c.Rng.Intn(2)]
		}
		pad := c.Rng.Bool()
		data := c.Rng.Bytes(c.Rng.Intn(40))
		if c.Rng.Chance(60) && from >= 1 && from <= 8 { // values that fit the width
			for i := range data {
				data[i] &= byte(1<<from - 1)
			}
		}
		if c.Rng.Chance(30) && len(data) > 0 { // zero tail: the "incomplete group" rule
			data[len(data)-1] = 0
		}
		tag, out := h.convertBits(data, from, to, pad)
		desc := map[string]interface{}{"data": fmt.Sprintf("%x", data), "from": from, "to": to, "pad": pad}
		c.Stats.Case(fmt.Sprintf("cb:%d:%d:%v:%x", from, to, pad, data), true)
		c.Stats.Count(fmt.Sprintf("convert_tag%d", tag))
		obs := obsItems(tag)
		if tag == 0 {
			obs = obsB(0, out)
		}
		h.addCase(fmt.Sprintf("r_convert %s %d %d %v", CoqBytes(data), from, to, pad), obs, desc)
	}
	// polymod and hrp expansion
	for k := 0; k < c.N(60, 400); k++ {
		n := c.Rng.Intn(100)
		vals := make([]int, n)
		us := make([]uint64, n)
		for i := range vals {
			vals[i] = c.Rng.Intn(32)
			if c.Rng.Chance(3) {
				vals[i] = c.Rng.Intn(256)
			}
			us[i] = uint64(vals[i])
		}
		pm := bech32.VerifPolymod(vals)
		h.addCase("r_polymod "+nsList(us), obsItems(0, nsList([]uint64{uint64(pm)})), map[string]interface{}{"values": vals})
		hrp := string(c.Rng.Bytes(c.Rng.Intn(8)))
		ex := bech32.VerifHrpExpand(hrp)
		eu := make([]uint64, len(ex))
		for i := range ex {
			eu[i] = uint64(ex[i])
		}
		h.addCase("r_hrp_expand "+S(hrp), obsItems(0, nsList(eu)), map[string]interface{}{"hrp": hrp})
		c.Stats.Case(fmt.Sprintf("polymod:%v", vals), n > 0)
	}
}

func (h *H) base32Stream() {
	c := h.c
	type encT struct {
		name, alpha string
		e           *base32.Encoding
	}
	encs := []encT{{"alpha_std", "ABCDEFGHIJKLMNOPQRSTUVWXYZ234567", base32.StdEncoding},
		{"alpha_hex", "0123456789ABCDEFGHIJKLMNOPQRSTUV", base32.HexEncoding}}
	decode := func(e encT, s string) (int, []byte) {
		var out []byte
		var err error
		p, v := guard(func() { out, err = e.e.DecodeString(s) })
		if p {
			h.panicFail("base32."+e.name+".DecodeString", s, v)
			return 9, nil
		}
		if err != nil {
			return 1, nil
		}
		return 0, out
	}
	// the model sees the string after Go's strings.Map has re-encoded invalid UTF-8 (standard library)
	modelIn := func(s string) string { return strings.Map(func(r rune) rune { return r }, s) }
	var valid []string
	maxLen := c.N(48, 200)
	for n := 0; n <= maxLen; n++ {
		for _, e := range encs {
			data := c.Rng.Bytes(n)
			if n%9 == 4 {
				data = bytes.Repeat([]byte{0xff}, n)
			}
			s := e.e.EncodeToString(data)
			desc := map[string]interface{}{"enc": e.name, "data": fmt.Sprintf("%x", data), "encoded": s}
			c.Stats.Case(fmt.Sprintf("b32:%s:%x", e.name, data), n > 0)
			c.Stats.Count("base32_roundtrip_lengths")
			tag, back := decode(e, s)
			if tag != 0 || !bytes.Equal(back, data) {
				c.Stats.Fail(fmt.Sprintf("class=base32-roundtrip: %s decode(encode(%x)) = tag %d %x", e.name, data, tag, back), desc)
			}
			if n <= 30 || n%10 == 0 {
				h.addCase(fmt.Sprintf("r_b32_encode %s %s", e.name, CoqBytes(data)), obsB(0, []byte(s)), desc)
				o := obsItems(tag)
				if tag == 0 {
					o = obsB(0, back)
				}
				h.addCase(fmt.Sprintf("r_b32_decode %s %s", e.name, S(s)), o, desc)
			}
			valid = append(valid, s)
		}
	}
	fixed := []string{"", "=", "A", "AA", "AA======", "AA=====", "AA=======", "AA======X", "AA======XY", "AA======XYZ", "A=======", "AAA=====",
		"AAAAAA==", "AAAA====", "AAAAA===", "AAAAAAA=", "AAAAAAAA", "AAAAAAAAA", "AAAAAAAAAA======", "AA==AA==", "========",
		"MZXW6YTB\nOI======", "MZXW\r\n6YTBOI======", "\n", "MY======\n", "my======", "M1======", "AA======\xff", "\xff", "AA\xff=====", "AA=====é"}
	ins := fixed
	for k := 0; k < c.N(150, 2500); k++ {
		switch c.Rng.Intn(4) {
		case 0:
			ins = append(ins, h.randString("ABCDEFGH234567=01\n", c.Rng.Intn(30)))
		case 1:
			ins = append(ins, string(c.Rng.Bytes(c.Rng.Intn(20))))
		default:
			s := valid[c.Rng.Intn(len(valid))]
			b := []byte(s)
			pool := "ABCZ27=01a\n\r\xff"
			for j := 0; j <= c.Rng.Intn(2) && len(b) > 0; j++ {
				switch c.Rng.Intn(4) {
				case 0:
					b[c.Rng.Intn(len(b))] = pool[c.Rng.Intn(len(pool))]
				case 1:
					i := c.Rng.Intn(len(b))
					b = append(b[:i:i], b[i+1:]...)
				case 2:
					i := c.Rng.Intn(len(b) + 1)
					b = append(append(append([]byte{}, b[:i]...), pool[c.Rng.Intn(len(pool))]), b[i:]...)
				case 3:
					b = b[:c.Rng.Intn(len(b)+1)]
				}
			}
			ins = append(ins, string(b))
		}
	}
	for _, s := range ins {
		e := encs[c.Rng.Intn(2)]
		tag, out := decode(e, s)
		desc := map[string]interface{}{"enc": e.name, "input": s, "input_hex": fmt.Sprintf("%x", s)}
		c.Stats.Case("b32dec:"+e.name+":"+s, len(s) > 0)
		c.Stats.Count(fmt.Sprintf("base32_decode_tag%d", tag))
		o := obsItems(tag)
		if tag == 0 {
			o = obsB(0, out)
		}
		h.addCase(fmt.Sprintf("r_b32_decode %s %s", e.name, S(modelIn(s))), o, desc)
	}
}

func (h *H) mnemonicStream() {
	c := h.c
	langs := []struct {
		code  string
		words []string
	}{{"en", wordlists.English}, {"zh_CN", wordlists.ChineseSimplified}, {"zh_TW", wordlists.ChineseTraditional},
		{"it", wordlists.Italian}, {"ja", wordlists.Japanese}, {"ko", wordlists.Korean}, {"es", wordlists.Spanish}}
	maps := map[string]map[string]int{}
	for _, l := range langs {
		m := map[string]int{}
		for i, w := range l.words {
			m[w] = i
			if len(strings.Fields(w)) != 1 || strings.Fields(w)[0] != w {
				c.Stats.Fail("class=wordlist: word list "+l.code+" has a word containing white space", map[string]interface{}{"lang": l.code, "index": i})
			}
		}
		if len(l.words) != 2048 || len(m) != 2048 {
			c.Stats.Fail(fmt.Sprintf("class=wordlist: word list %s has %d words, %d distinct (the model assumes 2048 distinct words)", l.code, len(l.words), len(m)), map[string]interface{}{"lang": l.code})
		}
		maps[l.code] = m
	}
	toIdx := func(lang, s string) []uint64 {
		var out []uint64
		for _, w := range strings.Fields(s) {
			if i, ok := maps[lang][w]; ok {
				out = append(out, uint64(i))
			} else {
				out = append(out, 4095)
			}
		}
		return out
	}
	entropyFrom := func(lang, m string) (int, []byte) {
		var out []byte
		var err error
		p, v := guard(func() { out, err = mnemonic.EntropyFromMnemonic(m, lang) })
		if p {
			h.panicFail("EntropyFromMnemonic/"+lang, m, v)
			return 9, nil
		}
		if err != nil {
			return 1, nil
		}
		return 0, out
	}
	toBytes := func(lang, m string) (int, []byte) {
		var out []byte
		var err error
		p, v := guard(func() { out, err = mnemonic.MnemonicToByteArray(m, lang, true) })
		if p {
			h.panicFail("MnemonicToByteArray/"+lang, m, v)
			return 9, nil
		}
		if err != nil {
			return 1, nil
		}
		return 0, out
	}
	var valid []struct{ lang, m string }
	for k := 0; k < c.N(70, 700); k++ {
		l := langs[k%len(langs)]
		n := []int{16, 20, 24, 28, 32}[(k/len(langs))%5]
		if c.Rng.Chance(12) {
			n = []int{0, 1, 4, 12, 15, 17, 33, 36, 40, 64}[c.Rng.Intn(10)]
		}
		ent := c.Rng.Bytes(n)
		switch c.Rng.Intn(8) {
		case 0:
			ent = make([]byte, n)
		case 1:
			ent = bytes.Repeat([]byte{0xff}, n)
		case 2:
			for i := 0; i < n/2; i++ {
				ent[i] = 0
			}
		}
		var m string
		var err error
		p, v := guard(func() { m, err = mnemonic.NewMnemonic(ent, l.code) })
		desc := map[string]interface{}{"lang": l.code, "entropy": fmt.Sprintf("%x", ent)}
		okLen := n%4 == 0 && n >= 16 && n <= 32
		c.Stats.Case(fmt.Sprintf("mn:%s:%x", l.code, ent), okLen)
		c.Stats.Count(fmt.Sprintf("mnemonic_entropy_bytes_%d", n))
		model := "r_new_mnemonic " + CoqBytes(ent)
		if p {
			h.panicFail("NewMnemonic", fmt.Sprint(desc), v)
			h.addCase(model, obsItems(9), desc)
			continue
		}
		if err != nil {
			if okLen {
				c.Stats.Fail("class=mnemonic-roundtrip: NewMnemonic rejects a valid entropy length", desc)
			}
			h.addCase(model, obsItems(1), desc)
			continue
		}
		if !okLen {
			c.Stats.Fail("class=mnemonic-length: NewMnemonic accepts an invalid entropy length", desc)
		}
		idx := toIdx(l.code, m)
		h.addCase(model, obsItems(0, nsList(idx)), desc)
		sum := sha256.Sum256(ent)
		h.addCase("r_sha256 "+CoqBytes(ent), obsB(0, sum[:]), desc)
		// oracle: both decoders give the entropy back
		t1, e1 := entropyFrom(l.code, m)
		if t1 != 0 || !bytes.Equal(e1, ent) {
			c.Stats.Fail(fmt.Sprintf("class=mnemonic-roundtrip: EntropyFromMnemonic(NewMnemonic(%x)) = tag %d %x (%s)", ent, t1, e1, l.code), desc)
		}
		t2, e2 := toBytes(l.code, m)
		if t2 != 0 || !bytes.Equal(e2, ent) {
			c.Stats.Fail(fmt.Sprintf("class=mnemonic-roundtrip: MnemonicToByteArray(NewMnemonic(%x), raw) = tag %d %x (%s)", ent, t2, e2, l.code), desc)
		}
		o := obsItems(t1)
		if t1 == 0 {
			o = obsB(0, e1)
		}
		h.addCase("r_entropy_from "+nsList(idx), o, desc)
		valid = append(valid, struct{ lang, m string }{l.code, m})
	}
	// decoding of damaged and arbitrary sentences
	for k := 0; k < c.N(100, 1500); k++ {
		v := valid[c.Rng.Intn(len(valid))]
		ws := strings.Fields(v.m)
		lw := maps[v.lang]
		_ = lw
		var list []string
		for _, l := range langs {
			if l.code == v.lang {
				list = l.words
			}
		}
		kind := ""
		switch c.Rng.Intn(9) {
		case 0:
			ws[c.Rng.Intn(len(ws))] = list[c.Rng.Intn(2048)]
			kind = "replace_word"
		case 1:
			ws[c.Rng.Intn(len(ws))] = "notaword"
			kind = "unknown_word"
		case 2:
			ws = ws[:c.Rng.Intn(len(ws))]
			kind = "truncate"
		case 3:
			ws = append(ws, list[c.Rng.Intn(2048)])
			kind = "append"
		case 4:
			i, j := c.Rng.Intn(len(ws)), c.Rng.Intn(len(ws))
			ws[i], ws[j] = ws[j], ws[i]
			kind = "swap"
		case 5:
			n := []int{0, 1, 3, 9, 11, 12, 13, 15, 18, 21, 24, 25, 27, 30, 48}[c.Rng.Intn(15)]
			ws = nil
			for i := 0; i < n; i++ {
				ws = append(ws, list[c.Rng.Intn(2048)])
			}
			kind = "random_words"
		case 6:
			ws[len(ws)-1] = list[c.Rng.Intn(2048)]
			kind = "replace_last"
		case 7:
			ws = append([]string{}, ws...)
			ws[0] = list[0]
			kind = "first_word_zero"
		case 8:
			kind = "unchanged"
		}
		sep := " "
		if c.Rng.Chance(25) {
			sep = []string{"  ", "\t", "\n", " 　", "   "}[c.Rng.Intn(5)]
		}
		m := strings.Join(ws, sep)
		if c.Rng.Chance(10) {
			m = " " + m + " "
		}
		if c.Rng.Chance(4) {
			m = string(c.Rng.Bytes(c.Rng.Intn(60)))
			kind = "random_bytes"
		}
		c.Stats.Count("mnemonic_mutation_" + kind)
		desc := map[string]interface{}{"lang": v.lang, "mnemonic": m, "kind": kind}
		t1, e1 := entropyFrom(v.lang, m)
		toBytes(v.lang, m) // panic oracle
		guard(func() { mnemonic.IsMnemonicValid(m, v.lang) })
		c.Stats.Case("mndec:"+v.lang+":"+m, len(ws) >= 12)
		c.Stats.Count(fmt.Sprintf("mnemonic_decode_tag%d", t1))
		o := obsItems(t1)
		if t1 == 0 {
			o = obsB(0, e1)
		}
		h.addCase("r_entropy_from "+nsList(toIdx(v.lang, m)), o, desc)
	}
}

func run(c *Ctx) error {
	h := &H{c: c, nets: []*consensus.Params{&consensus.MainNetParams, &consensus.TestNetParams, &consensus.SoloNetParams}}
	// the three networks of the model are the three networks of the code
	h.addCase("r_net_hrps", obsB(0, []byte(consensus.MainNetParams.Bech32HRPSegwit), []byte(consensus.TestNetParams.Bech32HRPSegwit),
		[]byte(consensus.SoloNetParams.Bech32HRPSegwit)), map[string]interface{}{"kind": "network prefixes"})
	if len(consensus.NetParams) != 3 {
		c.Stats.Fail(fmt.Sprintf("class=networks: consensus.NetParams has %d networks, the model has 3", len(consensus.NetParams)), nil)
	}
	h.addresses()
	h.segwit()
	valid := h.bech32Stream()
	h.hostile(valid)
	h.convertStream()
	h.base32Stream()
	h.mnemonicStream()
	c.Stats.Rule = "addresses: random/structured 20- and 32-byte programs on the three networks, each encoded, decoded on all networks, and with every byte value substituted at every position (oracle: rejected on every network; model: full 256-entry tables); segwit: all witness versions and program lengths; bech32: random HRPs/data around the 90-character limit, upper case, single substitutions; hostile: fixed adversarial strings (empty, only '1', 91+ characters, non-ASCII, separator at the ends) and mutations of valid strings into every decoder under recover(); ConvertBits: every length 0..N for 8->5->8 plus all width pairs; base32 (std, hex): every length, damaged encodings; mnemonic: all entropy lengths and languages, damaged sentences. A case is non-trivial when it reaches the encoder/decoder body (valid length class); distinct by input."
	header := "From Coq Require Import List NArith Bool.\nFrom C29 Require Import Model Sha256 Run.\nImport ListNotations.\nOpen Scope N_scope.\n"
	return h.writeCases(c.Out, header, "obs", "obs_eqb")
}
