// Package vmlib: shared Go side of the VM correspondence (C02, C06, C07, C08):
// runs vm.Verify with tracing on a case, projects the observables and prints
// the case as a Coq expression for the model of coq/lib/VM.v / VMRun.v.
package vmlib

import (
	"bufio"
	"bytes"
	"crypto/ed25519"
	"crypto/sha256"
	"encoding/hex"
	"fmt"
	"sort"
	"strings"

	"github.com/bytom/bytom/crypto"
	"github.com/bytom/bytom/errors"
	"github.com/bytom/bytom/math/checked"
	"github.com/bytom/bytom/protocol/vm"

	. "verifharness/hlib"
)

type Case struct {
	Code      []byte
	Args      [][]byte
	State     [][]byte
	Gas       int64
	VMVersion uint64
	TxVersion *uint64
	Height    *uint64
	AssetID   *[]byte
	Amount    *uint64
	DestPos   *uint64
	SpentID   *[]byte
	EntryID   []byte
	SigHash   []byte // nil = no TxSigHash callback
	HasCO     bool
}

type Step struct {
	PC    uint64
	Limit int64
}

type Obs struct {
	Gas    int64
	Err    string // "" = success, else model error constructor name
	Stack  [][]byte
	HasStk bool
	Trace  []Step
	Items  [][]byte // every item seen in dumps (all depths) plus args/state: inputs of hash tables
	Raw    error
}

var errNames = []struct {
	e error
	n string
}{
	{vm.ErrAltStackUnderflow, "EAltStackUnderflow"}, {vm.ErrBadValue, "EBadValue"}, {vm.ErrContext, "EContext"},
	{vm.ErrDataStackUnderflow, "EDataStackUnderflow"}, {vm.ErrDisallowedOpcode, "EDisallowedOpcode"},
	{vm.ErrDivZero, "EDivZero"}, {vm.ErrFalseVMResult, "EFalseVMResult"}, {vm.ErrLongProgram, "ELongProgram"},
	{vm.ErrRange, "ERange"}, {vm.ErrReturn, "EReturn"}, {vm.ErrRunLimitExceeded, "ERunLimitExceeded"},
	{vm.ErrShortProgram, "EShortProgram"}, {vm.ErrUnexpected, "EUnexpected"}, {vm.ErrUnsupportedVM, "EUnsupportedVM"},
	{vm.ErrVerifyFailed, "EVerifyFailed"}, {checked.ErrOverflow, "EOverflow"}, {ErrCallback, "ECallback"},
}

var ErrCallback = errors.New("callback error")

func ErrClass(err error) string {
	if err == nil {
		return ""
	}
	r := errors.Root(err)
	for _, p := range errNames {
		if r == p.e {
			return p.n
		}
	}
	return "EOther(" + r.Error() + ")"
}

// TestCheckOutput mirrors test_checkoutput in coq/lib/VMRun.v.
func TestCheckOutput(index uint64, amount uint64, assetID []byte, vmVersion uint64, code []byte, state [][]byte, expansion bool) (bool, error) {
	if index > 5 {
		return false, ErrCallback
	}
	return amount%2 == 0 && len(assetID) == 32 && vmVersion == 1 && (len(code)+len(state))%2 == 0 && !expansion, nil
}

func cp(b []byte) []byte { return append([]byte{}, b...) }
func cps(bs [][]byte) [][]byte {
	out := make([][]byte, len(bs))
	for i, b := range bs {
		out[i] = cp(b)
	}
	return out
}

// Context builds the vm.Context with fresh, exact-capacity copies of every buffer.
func (c *Case) Context() *vm.Context {
	ctx := &vm.Context{VMVersion: c.VMVersion, Code: cp(c.Code), StateData: cps(c.State), Arguments: cps(c.Args),
		EntryID: cp(c.EntryID), TxVersion: c.TxVersion, BlockHeight: c.Height, AssetID: c.AssetID, Amount: c.Amount,
		DestPos: c.DestPos, SpentOutputID: c.SpentID}
	if c.SigHash != nil {
		h := cp(c.SigHash)
		ctx.TxSigHash = func() []byte { return h }
	}
	if c.HasCO {
		ctx.CheckOutput = TestCheckOutput
	}
	return ctx
}

// Run executes vm.Verify with tracing.
func Run(c *Case) *Obs { return RunCtx(c, c.Context()) }

func RunCtx(c *Case, ctx *vm.Context) *Obs {
	var buf bytes.Buffer
	vm.TraceOut = &buf
	gas, err := vm.Verify(ctx, c.Gas)
	vm.TraceOut = nil
	o := &Obs{Gas: gas, Err: ErrClass(err), Raw: err}
	seen := map[string]bool{}
	add := func(b []byte) {
		if !seen[string(b)] {
			seen[string(b)] = true
			o.Items = append(o.Items, cp(b))
		}
	}
	for _, a := range c.Args {
		add(a)
	}
	for _, a := range c.State {
		add(a)
	}
	add(c.Code)
	add(c.EntryID)
	if c.AssetID != nil {
		add(*c.AssetID)
	}
	if c.SpentID != nil {
		add(*c.SpentID)
	}
	if c.SigHash != nil {
		add(c.SigHash)
	}
	// parse the trace into segments: one "vm <depth> pc .. limit .. NAME [data]" line followed by
	// zero or more stack dumps. A dump has one line per item, top first, index restarting at 0.
	// After a child VM's last step the dumps of the enclosing CHECKPREDICATE steps follow without
	// a "vm" line of their own (innermost first), so the LAST dump of a segment that returns to
	// depth 0 is the depth-0 stack.
	type segment struct {
		depth  int
		name   string
		blocks [][][]byte
	}
	var segs []*segment
	sc := bufio.NewScanner(&buf)
	sc.Buffer(make([]byte, 1<<20), 1<<26)
	for sc.Scan() {
		line := sc.Text()
		if strings.HasPrefix(line, "vm ") {
			var d int
			var pc uint64
			var lim int64
			var name string
			fmt.Sscanf(line, "vm %d pc %d limit %d %s", &d, &pc, &lim, &name)
			segs = append(segs, &segment{depth: d, name: name})
			if d == 0 {
				o.Trace = append(o.Trace, Step{pc, lim})
			}
			// instruction data is an item too (pushed by pushdata ops)
			f := strings.Fields(line)
			if len(f) == 8 {
				if b, e := hex.DecodeString(f[7]); e == nil {
					add(b)
				}
			}
			continue
		}
		if strings.HasPrefix(line, "  stack ") && len(segs) > 0 {
			var k int
			fmt.Sscanf(line, "  stack %d:", &k)
			i := strings.Index(line, ": ")
			b, _ := hex.DecodeString(line[i+2:])
			add(b)
			sg := segs[len(segs)-1]
			if k == 0 || len(sg.blocks) == 0 {
				sg.blocks = append(sg.blocks, nil)
			}
			sg.blocks[len(sg.blocks)-1] = append(sg.blocks[len(sg.blocks)-1], b)
		}
	}
	var cur [][]byte // depth-0 stack, top first
	for i := len(c.Args) - 1; i >= 0; i-- {
		cur = append(cur, c.Args[i])
	}
	for i, sg := range segs {
		next := 0
		if i+1 < len(segs) {
			next = segs[i+1].depth
		}
		switch {
		case sg.depth == 0 && next >= 1:
			// CHECKPREDICATE spawned a child: the depth-0 dump comes after the child's run
		case sg.depth == 0:
			if strings.HasPrefix(sg.name, "NOPx") {
				// expansion opcodes print no dump and leave the stack unchanged
			} else if len(sg.blocks) >= 1 {
				cur = sg.blocks[0]
			} else {
				cur = nil
			}
		case next == 0:
			if len(sg.blocks) >= 1 {
				cur = sg.blocks[len(sg.blocks)-1]
			}
		}
	}
	if err == nil || ErrClass(err) == "EFalseVMResult" {
		o.HasStk = true
		// cur is top first; store bottom first
		o.Stack = [][]byte{}
		for i := len(cur) - 1; i >= 0; i-- {
			o.Stack = append(o.Stack, cur[i])
		}
	}
	return o
}

// ---- Coq printing ----

func optN(p *uint64) string {
	if p == nil {
		return "None"
	}
	return fmt.Sprintf("(Some %d%%N)", *p)
}
func optB(p *[]byte) string {
	if p == nil {
		return "None"
	}
	return "(Some " + CoqBytes(*p) + ")"
}
func items(bs [][]byte) string {
	var s []string
	for _, b := range bs {
		s = append(s, CoqBytes(b))
	}
	return CoqList(s)
}

// CoqModel prints the model expression for the case; the crypto tables are
// computed with the real Go primitives over every item the run touched.
func CoqModel(c *Case, o *Obs) string {
	var sha, rip []string
	var p32, p64 [][]byte
	its := append([][]byte{}, o.Items...)
	sort.Slice(its, func(i, j int) bool { return bytes.Compare(its[i], its[j]) < 0 })
	for _, it := range its {
		h := sha256.Sum256(it)
		sha = append(sha, "("+CoqBytes(it)+", "+CoqBytes(h[:])+")")
		rip = append(rip, "("+CoqBytes(it)+", "+CoqBytes(crypto.Ripemd160(it))+")")
		if len(it) == 32 {
			p32 = append(p32, it)
		}
		if len(it) == 64 {
			p64 = append(p64, it)
		}
	}
	var sigs []string
	for _, pk := range p32 {
		for _, msg := range p32 {
			for _, sg := range p64 {
				if ed25519.Verify(ed25519.PublicKey(pk), msg, sg) {
					sigs = append(sigs, "("+CoqBytes(pk)+", "+CoqBytes(msg)+", "+CoqBytes(sg)+")")
				}
			}
		}
	}
	var sh *[]byte
	if c.SigHash != nil {
		sh = &c.SigHash
	}
	cr := fmt.Sprintf("(mk_crypto %s %s %s)", CoqList(sha), CoqList(rip), CoqList(sigs))
	cx := fmt.Sprintf("(mk_context %s %s %s %s %s %s %s %s %s %s)", CoqBytes(c.Code), CoqBytes(c.EntryID),
		optN(c.TxVersion), optN(c.Height), optB(c.AssetID), optN(c.Amount), optN(c.DestPos), optB(c.SpentID), optB(sh), CoqBool(c.HasCO))
	return fmt.Sprintf("vm_case %s %s %d%%N %s %s %s", cr, cx, c.VMVersion, items(c.State), items(c.Args), CoqZ(c.Gas))
}

func CoqObs(o *Obs) string {
	err := "None"
	if o.Err != "" {
		err = "(Some " + o.Err + ")"
	}
	stk := "None"
	if o.HasStk {
		stk = "(Some " + items(o.Stack) + ")"
	}
	var tr []string
	for i, s := range o.Trace {
		if i >= 64 {
			break
		}
		tr = append(tr, fmt.Sprintf("(%d%%N, %s)", s.PC, CoqZ(s.Limit)))
	}
	return fmt.Sprintf("{| o_gas := %s; o_err := %s; o_stack := %s; o_trace := %s; o_steps := %d%%N |}", CoqZ(o.Gas), err, stk, CoqList(tr), len(o.Trace))
}

const Header = "From Coq Require Import List ZArith NArith Bool.\nFrom Verif Require Import Cmp VM VMRun.\nImport ListNotations.\nOpen Scope Z_scope.\n"

// Describe gives a JSON-able description for replay files.
func Describe(c *Case, o *Obs) map[string]interface{} {
	hexs := func(bs [][]byte) []string {
		var s []string
		for _, b := range bs {
			s = append(s, hex.EncodeToString(b))
		}
		return s
	}
	m := map[string]interface{}{"code": hex.EncodeToString(c.Code), "args": hexs(c.Args), "state": hexs(c.State), "gas": c.Gas,
		"gas_left": o.Gas, "err": o.Err}
	if dis, e := vm.Disassemble(c.Code); e == nil {
		m["asm"] = dis
	}
	if c.TxVersion != nil {
		m["txversion"] = *c.TxVersion
	}
	if o.HasStk {
		m["final_stack"] = hexs(o.Stack)
	}
	return m
}

// ---- generators shared by C07/C08 ----

var boundaryNums = []string{
	"", "00", "01", "02", "0f", "10", "11", "20", "21", "7f", "80", "ff", "0001", "ff00", "ffff",
	"ffffffffffffff7f", "0000000000000080", "ffffffffffffffff", "000000000000000001",
	"feffffffffffffff", "ffffffffffffffffff7f",
	"ffffffffffffffffffffffffffffffffffffffffffffffffffffffffffffff7f",   // 2^255-1
	"0000000000000000000000000000000000000000000000000000000000000080",   // 2^255
	"ffffffffffffffffffffffffffffffffffffffffffffffffffffffffffffffff",   // 2^256-1
	"0000000000000000000000000000000000000000000000000000000000000040",   // 2^254
	"000000000000000000000000000000000000000000000000000000000000000000", // 33 bytes zero
	"0100000000000000000000000000000000000000000000000000000000000000",   // non-minimal 1 (32 bytes)
	"010000", "0000", "00000000",
}

// Item returns a stack item: boundary numbers, small ints, random bytes of 0..40.
func Item(r *Rng) []byte {
	switch r.Intn(10) {
	case 0, 1, 2:
		b, _ := hex.DecodeString(boundaryNums[r.Intn(len(boundaryNums))])
		return b
	case 3, 4:
		return vm.Uint64Bytes(uint64(r.Intn(12)))
	case 5:
		return vm.Uint64Bytes(r.Next() >> uint(r.Intn(64)))
	case 6:
		return r.Bytes(32)
	default:
		return r.Bytes(r.Intn(41))
	}
}

func U64(x uint64) *uint64 { return &x }
func Bp(b []byte) *[]byte  { return &b }
